(* Model of deephyper.skopt.learning.forest (pinned tree) over Q.  Executable definitions only; proofs in Lemmas.v.

   ORACLE.  The fitted trees are not modelled.  Per query point the input is the list, in estimators_ order, of
       (m_t, v_t) = (tree.predict(x), tree.tree_.impurity[tree.apply(x)])
   read from the real forest.  v_t is whatever scikit-learn stored: it can be slightly NEGATIVE (rounding of
   sq_sum/w - mean^2), so nothing is assumed about its sign.

   _accumulate_prediction           out[0] += m ; out[1] += np.maximum(v, min_variance) + m^2         (under a lock)
   _return_mean_and_std             mean = out[0]/T ; std = sqrt(np.maximum(out[1]/T - mean^2, 0))
   _accumulate_prediction_disent.   out[0] += m ; out[1] += np.maximum(v, min_variance) ; out[2] += m^2
   _return_mean_and_std_distent.    mean = out[0]/T ; al = out[1]/T ; ep = out[2]/T - mean^2 ;
                                    x[x <= 0] = 0 ; x **= 0.5   for x in (al, ep)
   predict(X)                       sklearn ForestRegressor.predict: y_hat += tree.predict(X) (under a lock) ; y_hat /= T

   sqrt is not modelled: the model returns VARIANCES; the harness compares them with the squares of the returned
   standard deviations.  The accumulation order under n_jobs > 1 is whatever order the threads take the lock in:
   the list order here; the theorems quantify over every permutation (and every split into partial sums). *)
From Coq Require Import List ZArith QArith Qabs Bool.
Import ListNotations.
Open Scope Q_scope.

Definition tree := (Q * Q)%type.                                   (* (m_t, v_t) *)

Definition Qmx (a b : Q) : Q := if Qle_bool a b then b else a.      (* np.maximum *)
Definition clamp0 (x : Q) : Q := if Qle_bool x 0 then 0 else x.     (* x[x <= 0.0] = 0.0 *)
Definition nQ {A} (l : list A) : Q := inject_Z (Z.of_nat (length l)).   (* len(trees) *)

(* ---- predict(X, return_std=True) ---- *)
Definition acc2 (minv : Q) (o : Q * Q) (t : tree) : Q * Q :=
  (fst o + fst t, snd o + (Qmx (snd t) minv + fst t * fst t)).
Definition sums2 (minv : Q) (ts : list tree) : Q * Q := fold_left (acc2 minv) ts (0, 0).

Definition mean2 (minv : Q) (ts : list tree) : Q := fst (sums2 minv ts) / nQ ts.
Definition var_total_raw (minv : Q) (ts : list tree) : Q :=
  snd (sums2 minv ts) / nQ ts - mean2 minv ts * mean2 minv ts.
Definition var_total (minv : Q) (ts : list tree) : Q := Qmx (var_total_raw minv ts) 0.

(* ---- predict(X, return_std=True, disentangled_std=True) ---- *)
Definition acc3 (minv : Q) (o : Q * Q * Q) (t : tree) : Q * Q * Q :=
  (fst (fst o) + fst t, snd (fst o) + Qmx (snd t) minv, snd o + fst t * fst t).
Definition sums3 (minv : Q) (ts : list tree) : Q * Q * Q := fold_left (acc3 minv) ts (0, 0, 0).

Definition mean3 (minv : Q) (ts : list tree) : Q := fst (fst (sums3 minv ts)) / nQ ts.
Definition var_al_raw (minv : Q) (ts : list tree) : Q := snd (fst (sums3 minv ts)) / nQ ts.
Definition var_ep_raw (minv : Q) (ts : list tree) : Q :=
  snd (sums3 minv ts) / nQ ts - mean3 minv ts * mean3 minv ts.
Definition var_al (minv : Q) (ts : list tree) : Q := clamp0 (var_al_raw minv ts).
Definition var_ep (minv : Q) (ts : list tree) : Q := clamp0 (var_ep_raw minv ts).

(* ---- predict(X) ---- *)
Definition sum1 (ts : list tree) : Q := fold_left (fun a t => a + fst t) ts 0.
Definition mean1 (ts : list tree) : Q := sum1 ts / nQ ts.

(* the three request forms of predict *)
Inductive request := Plain | WithStd | Disentangled.
Definition predict (r : request) (minv : Q) (ts : list tree) : list Q :=
  match r with
  | Plain => [mean1 ts]
  | WithStd => [mean2 minv ts; var_total minv ts]
  | Disentangled => [mean3 minv ts; var_al minv ts; var_ep minv ts]
  end.

(* ---- accumulation in parallel chunks: every chunk builds a partial sum, partial sums are added ---- *)
Definition add2 (a b : Q * Q) : Q * Q := (fst a + fst b, snd a + snd b).
Definition add3 (a b : Q * Q * Q) : Q * Q * Q :=
  (fst (fst a) + fst (fst b), snd (fst a) + snd (fst b), snd a + snd b).
Definition sums2_chunked (minv : Q) (chunks : list (list tree)) : Q * Q :=
  fold_left (fun o ch => add2 o (sums2 minv ch)) chunks (0, 0).
Definition sums3_chunked (minv : Q) (chunks : list (list tree)) : Q * Q * Q :=
  fold_left (fun o ch => add3 o (sums3 minv ch)) chunks (0, 0, 0).

(* ---- acquisition: gaussian_lcb(X, model, kappa, deterministic) without gradient.
        sq is the square-root oracle (std = sq variance); kappa = None stands for the string "inf". ---- *)
Definition lcb (sq : Q -> Q) (kappa : option Q) (deterministic : bool) (minv : Q) (ts : list tree) : Q :=
  let mu := if deterministic then mean3 minv ts else mean2 minv ts in
  let std := sq (if deterministic then var_ep minv ts else var_total minv ts) in
  match kappa with None => - std | Some k => mu - k * std end.

(* the value gaussian_lcb must return, given the (mu, std) the surrogate returned to it *)
Definition lcb_of (kappa : option Q) (mu std : Q) : Q :=
  match kappa with None => - std | Some k => mu - k * std end.

(* scaling of the targets by c: tree means scale by c, impurities (and min_variance) by c^2 *)
Definition scale_tree (c : Q) (t : tree) : tree := (c * fst t, c * c * snd t).

(* ---- specification-level quantities (what the property talks about; used by the theorems and the oracles) ---- *)
Fixpoint sumf (f : tree -> Q) (ts : list tree) : Q :=
  match ts with [] => 0 | t :: r => f t + sumf f r end.
Definition f_m (t : tree) : Q := fst t.
Definition f_m2 (t : tree) : Q := fst t * fst t.
Definition f_v (minv : Q) (t : tree) : Q := Qmx (snd t) minv.
Definition f_tot (minv : Q) (t : tree) : Q := Qmx (snd t) minv + fst t * fst t.
Definition dev2 (c : Q) (t : tree) : Q := (fst t - c) * (fst t - c).
Definition avg (ts : list tree) : Q := sumf f_m ts / nQ ts.                              (* average of the tree means *)
Definition avg_leaf_var (minv : Q) (ts : list tree) : Q := sumf (f_v minv) ts / nQ ts.    (* average (floored) within-leaf variance *)
Definition var_of_means (ts : list tree) : Q := sumf (dev2 (avg ts)) ts / nQ ts.         (* variance of the tree means *)

(* ---- ONE surrogate object used repeatedly (fit / predict / set_params / warm start / refilled query buffer).
   The code keeps no state between calls besides estimators_ and the constructor parameters, so the state of the
   model is (min_variance, the hyper-parameter n_estimators, oracle values of the trees CURRENTLY in estimators_ at the
   current query point).  The hyper-parameter and the fitted trees may disagree (set_params(n_estimators=...) on a fitted
   forest - the warm-start protocol before the next fit -, estimators_ pruned or merged by hand): predict uses
   len(estimators_), never the hyper-parameter.  Operations that change what the oracle says carry the new oracle values. ---- *)
Inductive op :=
| OPredict (r : request)        (* predict(X), predict(X, return_std=True), predict(X, True, True) *)
| ORefit (ts : list tree)       (* fit() again on the same object: the trees are replaced *)
| OWarm (extra : list tree)     (* warm_start=True, larger n_estimators, fit(): estimators_ is EXTENDED IN PLACE *)
| OSetMinVar (minv : Q)         (* set_params(min_variance=...) / attribute assignment *)
| ORequery (ts : list tree)     (* the caller refills its query buffer in place: the same trees seen at another point *)
| OReorder (ts : list tree)     (* n_jobs changed: the threads take the lock in another order *)
| OSetNEst (n : nat)            (* set_params(n_estimators=n) WITHOUT fitting: only the hyper-parameter changes *)
| ODrop (i : nat)               (* del estimators_[i] by hand *)
| OMerge (extra : list tree).   (* estimators_ += other_forest.estimators_ by hand *)

Definition state := (Q * nat * list tree)%type.
Definition st_minv (s : state) : Q := fst (fst s).
Definition st_nest (s : state) : nat := snd (fst s).
Definition st_trees (s : state) : list tree := snd s.

Fixpoint drop_nth {A} (i : nat) (l : list A) : list A :=
  match l with
  | [] => []
  | x :: r => match i with O => r | S j => x :: drop_nth j r end
  end.

Definition step (s : state) (o : op) : state * list (list Q) :=
  match o with
  | OPredict r => (s, [predict r (st_minv s) (st_trees s)])
  | ORefit ts => ((st_minv s, st_nest s, ts), [])
  | OWarm extra => ((st_minv s, (length (st_trees s) + length extra)%nat, st_trees s ++ extra), [])
  | OSetMinVar minv => ((minv, st_nest s, st_trees s), [])
  | ORequery ts => ((st_minv s, st_nest s, ts), [])
  | OReorder ts => ((st_minv s, st_nest s, ts), [])
  | OSetNEst n => ((st_minv s, n, st_trees s), [])
  | ODrop i => ((st_minv s, st_nest s, drop_nth i (st_trees s)), [])
  | OMerge extra => ((st_minv s, st_nest s, st_trees s ++ extra), [])
  end.

Fixpoint run (s : state) (ops : list op) : state * list (list Q) :=
  match ops with
  | [] => (s, [])
  | o :: rest => let (s1, out1) := step s o in let (s2, out2) := run s1 rest in (s2, out1 ++ out2)
  end.
