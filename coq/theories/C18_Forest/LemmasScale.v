(* The oracles of Check.v are invariant under the change of unit x -> c*x (c > 0) of the targets:
   tree means, returned means and returned stds are multiplied by c, impurities and min_variance by c^2.
   This is what allows the harness to send one case as integers on a common power-of-two scale. *)
From Coq Require Import List ZArith QArith Qabs Bool Lia Lqa Qring Qfield Setoid Morphisms.
Import ListNotations.
Require Import DH.C18_Forest.Model DH.C18_Forest.Lemmas DH.C18_Forest.Check.
Open Scope Q_scope.

#[global] Instance closeb_proper : Proper (Qeq ==> Qeq ==> Qeq ==> eq) closeb.
Proof. intros a a' Ha b b' Hb t t' Ht. unfold closeb. rewrite Ha, Hb, Ht. reflexivity. Qed.

#[global] Instance nonnegb_proper : Proper (Qeq ==> eq) nonnegb.
Proof. intros a a' Ha. unfold nonnegb. rewrite Ha. reflexivity. Qed.

Lemma Qabs_scale c x : 0 < c -> Qabs (c * x) == c * Qabs x.
Proof. intros Hc. rewrite Qabs_Qmult, (Qabs_pos c); [reflexivity|lra]. Qed.

Lemma closeb_scale c a b t : 0 < c -> closeb (c * a) (c * b) (c * t) = closeb a b t.
Proof.
  intros Hc. apply eq_true_iff_eq. rewrite !closeb_iff.
  assert (E : c * a - c * b == c * (a - b)) by ring. rewrite E, (Qabs_scale c _ Hc).
  apply Qmult_le_l. exact Hc.
Qed.

Lemma nonnegb_scale c x : 0 < c -> nonnegb (c * x) = nonnegb x.
Proof.
  intros Hc. apply eq_true_iff_eq. rewrite !nonnegb_iff. split; intros H; nra.
Qed.

Lemma div_scal c s n : (c * s) / n == c * (s / n).
Proof. unfold Qdiv. ring. Qed.

Section Scale.
  Variable c : Q.
  Hypothesis Hc : 0 < c.
  Let sc := map (scale_tree c).

  Lemma nQ_sc ts : nQ (sc ts) = nQ ts.
  Proof. apply nQ_map. Qed.

  Lemma avg_sc ts : avg (sc ts) == c * avg ts.
  Proof.
    unfold avg. rewrite nQ_sc. unfold sc. rewrite sumf_map, <- div_scal, <- sumf_scal.
    apply Qdiv_comp; [|reflexivity]. apply sumf_ext. intros t. unfold f_m, scale_tree. cbn [fst]. reflexivity.
  Qed.

  Lemma mag_m_sc ts : mag_m (sc ts) == c * mag_m ts.
  Proof.
    unfold mag_m. rewrite nQ_sc. unfold sc. rewrite sumf_map, <- div_scal, <- sumf_scal.
    apply Qdiv_comp; [|reflexivity]. apply sumf_ext. intros t. unfold scale_tree. cbn [fst]. apply Qabs_scale. exact Hc.
  Qed.

  Lemma cc_pos : 0 < c * c.
  Proof. nra. Qed.

  Lemma mag_v_sc minv ts : mag_v (c * c * minv) (sc ts) == c * c * mag_v minv ts.
  Proof.
    unfold mag_v. rewrite nQ_sc. unfold sc. rewrite sumf_map, <- div_scal, <- sumf_scal.
    apply Qdiv_comp; [|reflexivity]. apply sumf_ext. intros t. unfold scale_tree. cbn [fst snd].
    rewrite (Qmx_scale (c * c) _ _ cc_pos), (Qabs_scale (c * c) _ cc_pos). ring.
  Qed.

  Lemma avg_leaf_var_sc minv ts : avg_leaf_var (c * c * minv) (sc ts) == c * c * avg_leaf_var minv ts.
  Proof.
    unfold avg_leaf_var. rewrite nQ_sc. unfold sc. rewrite sumf_map, <- div_scal, <- sumf_scal.
    apply Qdiv_comp; [|reflexivity]. apply sumf_ext. intros t. unfold f_v, scale_tree. cbn [snd].
    apply Qmx_scale. exact cc_pos.
  Qed.

  Lemma var_of_means_sc ts : var_of_means (sc ts) == c * c * var_of_means ts.
  Proof.
    unfold var_of_means. rewrite nQ_sc. unfold sc at 2. rewrite sumf_map, <- div_scal, <- sumf_scal.
    apply Qdiv_comp; [|reflexivity]. apply sumf_ext. intros t. unfold dev2, scale_tree. cbn [fst].
    rewrite avg_sc. ring.
  Qed.

  Lemma tol_m_sc e ts : tol_m e (sc ts) == c * tol_m e ts.
  Proof. unfold tol_m. rewrite mag_m_sc. ring. Qed.
  Lemma tol_v_sc e minv ts : tol_v e (c * c * minv) (sc ts) == c * c * tol_v e minv ts.
  Proof. unfold tol_v. rewrite mag_v_sc. ring. Qed.

  Definition sc_obs (l : list (option Q)) : list (option Q) := map (option_map (Qmult c)) l.

  Lemma sq_sc x : (c * x) * (c * x) == c * c * (x * x).
  Proof. ring. Qed.

  Lemma clauses_scale epsm epsv minv ts means stds :
    clauses epsm epsv (c * c * minv) (sc ts) (sc_obs means) (sc_obs stds) = clauses epsm epsv minv ts means stds.
  Proof.
    unfold clauses.
    destruct means as [|[mp|] [|[ms|] [|[md|] [|? ?]]]]; try reflexivity;
      destruct stds as [|[st|] [|[sa|] [|[se|] [|? ?]]]]; try reflexivity.
    cbn [sc_obs map option_map].
    pose proof cc_pos as Hcc.
    rewrite !(nonnegb_scale c _ Hc).
    rewrite avg_sc, tol_m_sc, tol_v_sc, avg_leaf_var_sc, var_of_means_sc, !sq_sc.
    rewrite !(closeb_scale c _ _ _ Hc).
    assert (E : c * c * (sa * sa) + c * c * (se * se) == c * c * (sa * sa + se * se)) by ring.
    rewrite E, !(closeb_scale (c * c) _ _ _ Hcc). reflexivity.
  Qed.

  Lemma ok_C18_scale epsm epsv minv ts means stds :
    ok_C18 epsm epsv (c * c * minv) (sc ts) (sc_obs means) (sc_obs stds) = ok_C18 epsm epsv minv ts means stds.
  Proof. unfold ok_C18. rewrite clauses_scale. reflexivity. Qed.

  Lemma corr_clauses_scale epsm epsv minv ts means stds : ts <> [] ->
    corr_clauses epsm epsv (c * c * minv) (sc ts) (sc_obs means) (sc_obs stds) = corr_clauses epsm epsv minv ts means stds.
  Proof.
    intros Hne. unfold corr_clauses.
    destruct means as [|[mp|] [|[ms|] [|[md|] [|? ?]]]]; try reflexivity;
      destruct stds as [|[st|] [|[sa|] [|[se|] [|? ?]]]]; try reflexivity.
    cbn [sc_obs map option_map].
    pose proof cc_pos as Hcc.
    destruct (scale_equivariant c minv ts Hc Hne) as (E1 & E2 & E3 & E4 & E5 & E6). fold (sc ts) in E1, E2, E3, E4, E5, E6.
    rewrite E1, E2, E3, E4, E5, E6, tol_m_sc, tol_v_sc, !sq_sc.
    rewrite !(closeb_scale c _ _ _ Hc), !(closeb_scale (c * c) _ _ _ Hcc). reflexivity.
  Qed.

  Lemma all_close_scale_lin tol a b :
    all_close (fun x => x) (c * tol) (sc_obs a) (sc_obs b) = all_close (fun x => x) tol a b.
  Proof.
    revert b. induction a as [|[x|] a IH]; intros [|[y|] b]; cbn [all_close sc_obs map option_map]; try reflexivity.
    rewrite (closeb_scale c _ _ _ Hc). f_equal. apply IH.
  Qed.

  Lemma all_close_scale_sq tol a b :
    all_close (fun x => x * x) (c * c * tol) (sc_obs a) (sc_obs b) = all_close (fun x => x * x) tol a b.
  Proof.
    revert b. induction a as [|[x|] a IH]; intros [|[y|] b]; cbn [all_close sc_obs map option_map]; try reflexivity.
    rewrite !sq_sc, (closeb_scale (c * c) _ _ _ cc_pos). f_equal. apply IH.
  Qed.

  Lemma all_close_proper f tol tol' a b : tol == tol' -> all_close f tol a b = all_close f tol' a b.
  Proof.
    intros H. revert b. induction a as [|[x|] a IH]; intros [|[y|] b]; cbn [all_close]; try reflexivity.
    f_equal; [apply closeb_proper; [reflexivity|reflexivity|exact H]|apply IH].
  Qed.

  Lemma ok_same_scale epsm epsv minv ts m1 s1 m2 s2 :
    ok_same epsm epsv (c * c * minv) (sc ts) (sc_obs m1) (sc_obs s1) (sc_obs m2) (sc_obs s2) = ok_same epsm epsv minv ts m1 s1 m2 s2.
  Proof.
    unfold ok_same.
    rewrite (all_close_proper _ _ _ _ _ (tol_m_sc epsm ts)), (all_close_proper _ _ _ _ _ (tol_v_sc epsv minv ts)).
    rewrite all_close_scale_lin, all_close_scale_sq. reflexivity.
  Qed.

  Lemma ok_lcb_scale eps kappa mu std a : ok_lcb eps kappa (c * mu) (c * std) (c * a) = ok_lcb eps kappa mu std a.
  Proof.
    unfold ok_lcb, lcb_of. destruct kappa as [k|].
    - assert (E1 : c * mu - k * (c * std) == c * (mu - k * std)) by ring.
      assert (E2 : eps * (Qabs (c * mu) + Qabs (k * (c * std))) == c * (eps * (Qabs mu + Qabs (k * std)))).
      { assert (E3 : k * (c * std) == c * (k * std)) by ring. rewrite E3, !(Qabs_scale c _ Hc). ring. }
      rewrite E1, E2. apply closeb_scale. exact Hc.
    - assert (E1 : - (c * std) == c * (- std)) by ring.
      assert (E2 : eps * Qabs (c * std) == c * (eps * Qabs std)) by (rewrite (Qabs_scale c _ Hc); ring).
      rewrite E1, E2. apply closeb_scale. exact Hc.
  Qed.
End Scale.
