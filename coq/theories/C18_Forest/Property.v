(* C18 - Forest surrogate: mean and uncertainty obey the law of total variance.  Property theorems only.
   ts = the per-tree oracle values (m_t, v_t) at one query point, in any order; minv = min_variance. *)
From Coq Require Import List ZArith QArith Qabs Bool Permutation Morphisms.
Import ListNotations.
Require Import DH.C18_Forest.Model DH.C18_Forest.Lemmas DH.C18_Forest.Check DH.C18_Forest.LemmasScale.
Open Scope Q_scope.

(* total = aleatoric + epistemic, for the CLAMPED values the two code paths return, for every oracle (impurities of
   any sign), as soon as the floor min_variance is non-negative (default 0.0) *)
Theorem C18_total_variance : forall minv ts, ts <> [] -> 0 <= minv ->
  var_total minv ts == var_al minv ts + var_ep minv ts.
Proof. exact total_variance. Qed.
Print Assumptions C18_total_variance.

(* the same for any floor, provided the average floored impurity is not negative (e.g. all impurities >= 0) *)
Theorem C18_total_variance_any_floor : forall minv ts, ts <> [] -> 0 <= var_al_raw minv ts ->
  var_total minv ts == var_al minv ts + var_ep minv ts.
Proof. exact total_variance_gen. Qed.
Print Assumptions C18_total_variance_any_floor.

Theorem C18_aleatoric_nonneg_if_impurities_are : forall minv ts, ts <> [] -> (forall t, In t ts -> 0 <= snd t) ->
  0 <= var_al_raw minv ts.
Proof. exact var_al_raw_nonneg_v. Qed.
Print Assumptions C18_aleatoric_nonneg_if_impurities_are.

(* ... and that hypothesis cannot be dropped (negative floor AND negative impurities; model-level only:
   scikit-learn's impurities are negative by rounding residue at most) *)
Theorem C18_total_variance_needs_floor :
  exists minv ts, ts <> [] /\ ~ var_total minv ts == var_al minv ts + var_ep minv ts.
Proof. exact total_variance_needs_floor. Qed.
Print Assumptions C18_total_variance_needs_floor.

(* all three variances are >= 0 BEFORE clamping, and the epistemic part is E[(m - mean)^2] *)
Theorem C18_nonneg : forall minv ts, ts <> [] -> 0 <= minv ->
  0 <= var_total_raw minv ts /\ 0 <= var_al_raw minv ts /\ 0 <= var_ep_raw minv ts /\
  var_ep_raw minv ts == sumf (dev2 (avg ts)) ts / nQ ts.
Proof. exact nonneg_all. Qed.
Print Assumptions C18_nonneg.

(* hence the clamps never change an exact value (they only absorb float rounding) *)
Theorem C18_clamps_are_identities : forall minv ts, ts <> [] -> 0 <= minv ->
  var_total minv ts == var_total_raw minv ts /\ var_al minv ts == var_al_raw minv ts /\ var_ep minv ts == var_ep_raw minv ts.
Proof. exact clamps_are_identities. Qed.
Print Assumptions C18_clamps_are_identities.

(* what is returned is non-negative unconditionally *)
Theorem C18_returned_nonneg : forall minv ts, 0 <= var_total minv ts /\ 0 <= var_al minv ts /\ 0 <= var_ep minv ts.
Proof. exact returned_nonneg. Qed.
Print Assumptions C18_returned_nonneg.

Theorem C18_total_ge_parts : forall minv ts, ts <> [] -> 0 <= minv ->
  var_al minv ts <= var_total minv ts /\ var_ep minv ts <= var_total minv ts.
Proof. exact total_ge_parts. Qed.
Print Assumptions C18_total_ge_parts.

(* the three request forms share one mean, the average of the tree means *)
Theorem C18_mean_is_average : forall minv ts,
  mean1 ts == avg ts /\ mean2 minv ts == avg ts /\ mean3 minv ts == avg ts.
Proof. exact mean_is_average. Qed.
Print Assumptions C18_mean_is_average.

Theorem C18_mean_between_trees : forall lo hi ts, ts <> [] -> (forall t, In t ts -> lo <= fst t <= hi) -> lo <= avg ts <= hi.
Proof. exact avg_bounds. Qed.
Print Assumptions C18_mean_between_trees.

(* n_jobs: whatever order the threads take the lock in, every returned quantity is the same ... *)
Theorem C18_order_irrelevant : forall minv a b, Permutation a b ->
  mean1 a == mean1 b /\ mean2 minv a == mean2 minv b /\ mean3 minv a == mean3 minv b /\
  var_total minv a == var_total minv b /\ var_al minv a == var_al minv b /\ var_ep minv a == var_ep minv b.
Proof. exact predictions_perm. Qed.
Print Assumptions C18_order_irrelevant.

(* ... and any partition of the trees into chunks with partial sums gives the sums of the sequential loop *)
Theorem C18_chunks_irrelevant : forall minv ts chunks, Permutation (concat chunks) ts ->
  eq2 (sums2_chunked minv chunks) (sums2 minv ts) /\ eq3 (sums3_chunked minv chunks) (sums3 minv ts).
Proof. exact chunked_order_irrelevant. Qed.
Print Assumptions C18_chunks_irrelevant.

(* epistemic part = function of the tree means alone; aleatoric part = function of the impurities and the floor alone *)
Theorem C18_epistemic_means_only : forall minv minv' ts ts', map fst ts = map fst ts' -> var_ep minv ts == var_ep minv' ts'.
Proof. exact var_ep_means_only. Qed.
Print Assumptions C18_epistemic_means_only.

Theorem C18_aleatoric_impurities_only : forall minv ts ts', map snd ts = map snd ts' -> var_al minv ts == var_al minv ts'.
Proof. exact var_al_impurities_only. Qed.
Print Assumptions C18_aleatoric_impurities_only.

(* the 'd' acquisition variant (LCBd) is blind to the noise estimate: for every sqrt oracle, every kappa (incl. "inf") *)
Theorem C18_d_variant_epistemic_only : forall sq kappa minv minv' ts ts', Proper (Qeq ==> Qeq) sq ->
  map fst ts = map fst ts' -> lcb sq kappa true minv ts == lcb sq kappa true minv' ts'.
Proof. exact lcb_d_epistemic_only. Qed.
Print Assumptions C18_d_variant_epistemic_only.

Theorem C18_epistemic_zero_iff_trees_agree : forall minv ts, ts <> [] ->
  (var_ep minv ts == 0 <-> forall t, In t ts -> fst t == avg ts).
Proof. exact var_ep_zero_iff. Qed.
Print Assumptions C18_epistemic_zero_iff_trees_agree.

Theorem C18_single_tree : forall minv t, 0 <= minv ->
  var_ep minv [t] == 0 /\ mean1 [t] == fst t /\ var_total minv [t] == Qmx (snd t) minv.
Proof. exact single_tree. Qed.
Print Assumptions C18_single_tree.

(* scaling the targets by c > 0 (tree means by c, impurities and the floor by c^2) scales means by c, variances by c^2:
   justifies sending one case to the extracted model as integers on a common power-of-two scale *)
Theorem C18_scale_equivariant : forall c minv ts, 0 < c -> ts <> [] ->
  let ts' := map (scale_tree c) ts in let minv' := c * c * minv in
  mean1 ts' == c * mean1 ts /\ mean2 minv' ts' == c * mean2 minv ts /\ mean3 minv' ts' == c * mean3 minv ts /\
  var_total minv' ts' == c * c * var_total minv ts /\
  var_al minv' ts' == c * c * var_al minv ts /\
  var_ep minv' ts' == c * c * var_ep minv ts.
Proof. exact scale_equivariant. Qed.
Print Assumptions C18_scale_equivariant.

(* the oracle applied to the implementation's outputs decides the specification *)
Theorem C18_oracle : forall epsm epsv minv ts means stds,
  ok_C18 epsm epsv minv ts means stds = true <-> Spec epsm epsv minv ts means stds.
Proof. exact ok_C18_spec. Qed.
Print Assumptions C18_oracle.

(* and the model meets it exactly (tolerances 0) for every square-root oracle *)
Theorem C18_model_meets_spec : forall minv ts st sa se, ts <> [] -> 0 <= minv ->
  0 <= st -> 0 <= sa -> 0 <= se ->
  st * st == var_total minv ts -> sa * sa == var_al minv ts -> se * se == var_ep minv ts ->
  Spec 0 0 minv ts [Some (mean1 ts); Some (mean2 minv ts); Some (mean3 minv ts)] [Some st; Some sa; Some se].
Proof. exact model_meets_spec. Qed.
Print Assumptions C18_model_meets_spec.

(* the n_jobs oracle: a true verdict means the two observations agree entry by entry within the tolerances *)
Theorem C18_oracle_same : forall f tol a b, all_close f tol a b = true ->
  Forall2 (fun x y => exists p q, x = Some p /\ y = Some q /\ Qabs (f p - f q) <= tol) a b.
Proof. exact all_close_spec. Qed.
Print Assumptions C18_oracle_same.

Theorem C18_oracle_lcb : forall eps kappa mu std a, ok_lcb eps kappa mu std a = true <->
  Qabs (a - lcb_of kappa mu std) <= eps * (match kappa with None => Qabs std | Some k => Qabs mu + Qabs (k * std) end).
Proof. exact ok_lcb_spec. Qed.
Print Assumptions C18_oracle_lcb.

(* every verdict computed by the extracted oracles is independent of the unit of the targets: multiplying tree means,
   returned means and returned stds by c > 0 and impurities / min_variance by c^2 leaves each boolean unchanged.
   (The harness uses c = 2^k so that every number of a case is an integer.) *)
Theorem C18_oracle_scale_invariant : forall c, 0 < c -> forall epsm epsv minv ts means stds,
  clauses epsm epsv (c * c * minv) (map (scale_tree c) ts) (sc_obs c means) (sc_obs c stds) = clauses epsm epsv minv ts means stds
  /\ ok_C18 epsm epsv (c * c * minv) (map (scale_tree c) ts) (sc_obs c means) (sc_obs c stds) = ok_C18 epsm epsv minv ts means stds.
Proof. intros c Hc epsm epsv minv ts means stds. split; [apply clauses_scale|apply ok_C18_scale]; exact Hc. Qed.
Print Assumptions C18_oracle_scale_invariant.

Theorem C18_corr_scale_invariant : forall c, 0 < c -> forall epsm epsv minv ts means stds, ts <> [] ->
  corr_clauses epsm epsv (c * c * minv) (map (scale_tree c) ts) (sc_obs c means) (sc_obs c stds) = corr_clauses epsm epsv minv ts means stds.
Proof. exact corr_clauses_scale. Qed.
Print Assumptions C18_corr_scale_invariant.

Theorem C18_same_scale_invariant : forall c, 0 < c -> forall epsm epsv minv ts m1 s1 m2 s2,
  ok_same epsm epsv (c * c * minv) (map (scale_tree c) ts) (sc_obs c m1) (sc_obs c s1) (sc_obs c m2) (sc_obs c s2)
  = ok_same epsm epsv minv ts m1 s1 m2 s2.
Proof. exact ok_same_scale. Qed.
Print Assumptions C18_same_scale_invariant.

Theorem C18_lcb_scale_invariant : forall c, 0 < c -> forall eps kappa mu std a,
  ok_lcb eps kappa (c * mu) (c * std) (c * a) = ok_lcb eps kappa mu std a.
Proof. exact ok_lcb_scale. Qed.
Print Assumptions C18_lcb_scale_invariant.

(* ---- one surrogate object used repeatedly: the code keeps no state between calls but estimators_ and its parameters ---- *)
(* whatever sequence of fits, warm starts, parameter changes, refilled query buffers and earlier predictions came before,
   the answer to a predict call is the pure function of the CURRENT floor and trees (no memo, no stale accumulator) *)
Theorem C18_session_answer : forall s ops r,
  run s (ops ++ [OPredict r]) =
  (fst (run s ops), snd (run s ops) ++ [predict r (st_minv (fst (run s ops))) (st_trees (fst (run s ops)))]).
Proof. exact session_answer. Qed.
Print Assumptions C18_session_answer.

Theorem C18_session_history_independent : forall s s' ops ops' r,
  st_minv (fst (run s ops)) = st_minv (fst (run s' ops')) ->
  st_trees (fst (run s ops)) = st_trees (fst (run s' ops')) ->
  last (snd (run s (ops ++ [OPredict r]))) [] = last (snd (run s' (ops' ++ [OPredict r]))) [].
Proof. exact session_history_independent. Qed.
Print Assumptions C18_session_history_independent.

Theorem C18_session_predict_pure : forall s r1 r2,
  run s [OPredict r1; OPredict r2] = (s, [predict r1 (st_minv s) (st_trees s); predict r2 (st_minv s) (st_trees s)]).
Proof. exact session_predict_pure. Qed.
Print Assumptions C18_session_predict_pure.

Theorem C18_session_warm_start : forall s extra r,
  snd (run s [OWarm extra; OPredict r]) = [predict r (st_minv s) (st_trees s ++ extra)].
Proof. exact session_warm. Qed.
Print Assumptions C18_session_warm_start.

(* the hyper-parameter n_estimators and the fitted trees may disagree (warm-start protocol between set_params and the next
   fit; estimators_ edited by hand): every answer is computed from the trees present - all set_params(n_estimators=...)
   calls can be deleted from a session, and the initial value changed, without changing any answer *)
Theorem C18_session_n_estimators_irrelevant : forall s n ops,
  snd (run s ops) = snd (run (st_minv s, n, st_trees s) (strip_nest ops)).
Proof. exact session_n_estimators_irrelevant. Qed.
Print Assumptions C18_session_n_estimators_irrelevant.

Theorem C18_session_hand_edited_estimators : forall s i extra r,
  snd (run s [ODrop i; OSetNEst 0; OPredict r]) = [predict r (st_minv s) (drop_nth i (st_trees s))] /\
  snd (run s [OMerge extra; OPredict r]) = [predict r (st_minv s) (st_trees s ++ extra)].
Proof. exact session_drop_merge. Qed.
Print Assumptions C18_session_hand_edited_estimators.

(* warm start / any union of two groups of trees: mean and aleatoric part pool linearly, the epistemic part is the pooled
   within-group variance plus the between-group term (the law of total variance one level up) *)
Theorem C18_warm_start_pooling : forall minv a b, a <> [] -> b <> [] ->
  let na := nQ a in let nb := nQ b in
  avg (a ++ b) == (na * avg a + nb * avg b) / (na + nb) /\
  avg_leaf_var minv (a ++ b) == (na * avg_leaf_var minv a + nb * avg_leaf_var minv b) / (na + nb) /\
  var_of_means (a ++ b) == (na * var_of_means a + nb * var_of_means b) / (na + nb)
                           + na * nb * ((avg a - avg b) * (avg a - avg b)) / ((na + nb) * (na + nb)).
Proof. exact pooling. Qed.
Print Assumptions C18_warm_start_pooling.

Example C18_example_session :
  let s0 : state := (0, 2%nat, [(1, 16); (7, 16)]) in
  snd (run s0 [OPredict Disentangled; OWarm [(4, 16)]; OPredict Plain; OSetMinVar (20#1); OPredict WithStd;
               ORefit [(2, 0)]; OPredict Disentangled; ORequery [(3, 1); (5, 1)]; OReorder [(5, 1); (3, 1)]; OPredict Disentangled])
  = [[mean3 0 [(1, 16); (7, 16)]; var_al 0 [(1, 16); (7, 16)]; var_ep 0 [(1, 16); (7, 16)]];
     [mean1 [(1, 16); (7, 16); (4, 16)]];
     [mean2 (20#1) [(1, 16); (7, 16); (4, 16)]; var_total (20#1) [(1, 16); (7, 16); (4, 16)]];
     [mean3 (20#1) [(2, 0)]; var_al (20#1) [(2, 0)]; var_ep (20#1) [(2, 0)]];
     [mean3 (20#1) [(5, 1); (3, 1)]; var_al (20#1) [(5, 1); (3, 1)]; var_ep (20#1) [(5, 1); (3, 1)]]]
  /\ var_ep 0 [(1, 16); (7, 16); (4, 16)] == 6 /\ var_total (20#1) [(1, 16); (7, 16); (4, 16)] == 26
  (* hyper-parameter raised to 20 while 2 trees are fitted, then one tree dropped, then another forest merged in *)
  /\ snd (run s0 [OSetNEst 20; OPredict Plain; ODrop 0; OPredict Plain; OMerge [(3, 0); (5, 0)]; OPredict Plain])
     = [[mean1 [(1, 16); (7, 16)]]; [mean1 [(7, 16)]]; [mean1 [(7, 16); (3, 0); (5, 0)]]]
  /\ mean1 [(1, 16); (7, 16)] == 4 /\ mean1 [(7, 16); (3, 0); (5, 0)] == 5.
Proof. split; [reflexivity|]. vm_compute. repeat split; reflexivity. Qed.

(* non-vacuity: three trees, one with a (rounding-)negative impurity; floor 1/4.
   mean 2, aleatoric (1/4 + 1/4 + 1)/3 = 1/2, epistemic ((1)^2 + 0 + 1^2)/3 = 2/3, total 7/6 *)
Example C18_example :
  let ts := [(1, -(1#100)); (2, 0); (3, 1)] in
  mean1 ts == 2 /\ mean2 (1#4) ts == 2 /\ mean3 (1#4) ts == 2 /\
  var_al (1#4) ts == 1#2 /\ var_ep (1#4) ts == 2#3 /\ var_total (1#4) ts == 7#6 /\
  ok_C18 0 0 (1#4) ts [Some 2; Some 2; Some 2] [Some (1#2); Some 0; Some (1#2)] = false /\
  ok_C18 (1#10) (1#10) 0 [(3, 4); (3, 4)] [Some 3; Some 3; Some 3] [Some 2; Some 2; Some 0] = true.
Proof. vm_compute. repeat split; reflexivity. Qed.

(* the exact specification is satisfiable by a non-trivial forest: stds (5, 4, 3), 25 = 16 + 9 *)
Example C18_example_spec :
  Spec 0 0 0 [(1, 16); (7, 16)] [Some 4; Some 4; Some 4] [Some 5; Some 4; Some 3].
Proof. apply ok_C18_spec. vm_compute. reflexivity. Qed.
