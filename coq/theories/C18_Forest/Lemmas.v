(* Proofs about the forest mean / variance model. *)
From Coq Require Import List ZArith QArith Qabs Bool Lia Lqa Permutation Qring Qfield Setoid Morphisms.
Import ListNotations.
Require Import DH.C18_Forest.Model.
Open Scope Q_scope.

(* ------------------------------------------------------------------ basic order facts *)
Lemma Qle_bool_false a b : Qle_bool a b = false -> b < a.
Proof. intros H. apply Qnot_le_lt. intros C. apply Qle_bool_iff in C. congruence. Qed.

Lemma Qmx_cases a b : (a <= b /\ Qmx a b = b) \/ (b < a /\ Qmx a b = a).
Proof.
  unfold Qmx. destruct (Qle_bool a b) eqn:E.
  - left. split; [apply Qle_bool_iff; exact E|reflexivity].
  - right. split; [apply Qle_bool_false; exact E|reflexivity].
Qed.

Lemma clamp0_cases x : (x <= 0 /\ clamp0 x = 0) \/ (0 < x /\ clamp0 x = x).
Proof.
  unfold clamp0. destruct (Qle_bool x 0) eqn:E.
  - left. split; [apply Qle_bool_iff; exact E|reflexivity].
  - right. split; [apply Qle_bool_false; exact E|reflexivity].
Qed.

#[global] Instance Qmx_proper : Proper (Qeq ==> Qeq ==> Qeq) Qmx.
Proof.
  intros a a' Ha b b' Hb.
  destruct (Qmx_cases a b) as [[H1 ->]|[H1 ->]], (Qmx_cases a' b') as [[H2 ->]|[H2 ->]]; try assumption.
  - rewrite Ha, Hb in H1. lra.
  - rewrite Ha, Hb in H1. lra.
Qed.

#[global] Instance clamp0_proper : Proper (Qeq ==> Qeq) clamp0.
Proof.
  intros a a' Ha.
  destruct (clamp0_cases a) as [[H1 ->]|[H1 ->]], (clamp0_cases a') as [[H2 ->]|[H2 ->]]; try assumption; try reflexivity.
  - rewrite Ha in H1. lra.
  - rewrite Ha in H1. lra.
Qed.

Lemma Qmx_ge_r a b : b <= Qmx a b.
Proof. destruct (Qmx_cases a b) as [[H ->]|[H ->]]; lra. Qed.
Lemma Qmx_ge_l a b : a <= Qmx a b.
Proof. destruct (Qmx_cases a b) as [[H ->]|[H ->]]; lra. Qed.
Lemma Qmx_0_id x : 0 <= x -> Qmx x 0 == x.
Proof. intros H. destruct (Qmx_cases x 0) as [[H1 ->]|[H1 ->]]; lra. Qed.
Lemma clamp0_id x : 0 <= x -> clamp0 x == x.
Proof. intros H. destruct (clamp0_cases x) as [[H1 ->]|[H1 ->]]; lra. Qed.
Lemma Qmx_0_nonneg x : 0 <= Qmx x 0.
Proof. apply Qmx_ge_r. Qed.
Lemma clamp0_nonneg x : 0 <= clamp0 x.
Proof. destruct (clamp0_cases x) as [[H1 ->]|[H1 ->]]; lra. Qed.
(* the two ways of clamping used by the two functions agree *)
Lemma clamp0_Qmx x : clamp0 x == Qmx x 0.
Proof.
  destruct (clamp0_cases x) as [[H1 ->]|[H1 ->]], (Qmx_cases x 0) as [[H2 ->]|[H2 ->]]; lra.
Qed.

Lemma Qmx_scale c a b : 0 < c -> Qmx (c * a) (c * b) == c * Qmx a b.
Proof.
  intros Hc.
  destruct (Qmx_cases a b) as [[H1 ->]|[H1 ->]], (Qmx_cases (c * a) (c * b)) as [[H2 ->]|[H2 ->]]; try reflexivity; nra.
Qed.
Lemma clamp0_scale c x : 0 < c -> clamp0 (c * x) == c * clamp0 x.
Proof.
  intros Hc.
  destruct (clamp0_cases x) as [[H1 ->]|[H1 ->]], (clamp0_cases (c * x)) as [[H2 ->]|[H2 ->]]; try reflexivity; nra.
Qed.

(* ------------------------------------------------------------------ sums over the trees *)

Lemma sumf_ext f g ts : (forall t, f t == g t) -> sumf f ts == sumf g ts.
Proof. intros H. induction ts as [|t r IH]; cbn [sumf]; [reflexivity| rewrite H, IH; reflexivity]. Qed.

Lemma sumf_ext_in f g ts : (forall t, In t ts -> f t == g t) -> sumf f ts == sumf g ts.
Proof.
  induction ts as [|t r IH]; intros H; cbn [sumf]; [reflexivity|].
  rewrite (H t (or_introl eq_refl)), IH; [reflexivity|]. intros u Hu. apply H. right. exact Hu.
Qed.

Lemma sumf_app f a b : sumf f (a ++ b) == sumf f a + sumf f b.
Proof. induction a as [|t r IH]; cbn [sumf app]; [ring| rewrite IH; ring]. Qed.

Lemma sumf_plus f g ts : sumf (fun t => f t + g t) ts == sumf f ts + sumf g ts.
Proof. induction ts as [|t r IH]; cbn [sumf]; [ring| rewrite IH; ring]. Qed.

Lemma sumf_scal c f ts : sumf (fun t => c * f t) ts == c * sumf f ts.
Proof. induction ts as [|t r IH]; cbn [sumf]; [ring| rewrite IH; ring]. Qed.

Lemma nQ_cons {A} (t : A) r : nQ (t :: r) == 1 + nQ r.
Proof.
  unfold nQ. cbn [length]. rewrite Nat2Z.inj_succ. unfold Z.succ. rewrite inject_Z_plus. ring.
Qed.

Lemma nQ_nonneg {A} (l : list A) : 0 <= nQ l.
Proof. unfold nQ. change 0 with (inject_Z 0). rewrite <- Zle_Qle. lia. Qed.

Lemma nQ_pos {A} (l : list A) : l <> [] -> 0 < nQ l.
Proof.
  destruct l as [|t r]; [congruence|]. intros _. rewrite nQ_cons. pose proof (nQ_nonneg r). lra.
Qed.

Lemma nQ_app {A} (a b : list A) : nQ (a ++ b) == nQ a + nQ b.
Proof. unfold nQ. rewrite app_length, Nat2Z.inj_add, inject_Z_plus. reflexivity. Qed.

Lemma nQ_perm {A} (a b : list A) : Permutation a b -> nQ a = nQ b.
Proof. intros H. unfold nQ. rewrite (Permutation_length H). reflexivity. Qed.

Lemma nQ_map {A B} (f : A -> B) l : nQ (map f l) = nQ l.
Proof. unfold nQ. rewrite map_length. reflexivity. Qed.

Lemma sumf_const c ts : sumf (fun _ => c) ts == c * nQ ts.
Proof. induction ts as [|t r IH]; [unfold nQ; cbn; ring| cbn [sumf]; rewrite IH, nQ_cons; ring]. Qed.

Lemma sumf_nonneg f ts : (forall t, In t ts -> 0 <= f t) -> 0 <= sumf f ts.
Proof.
  induction ts as [|t r IH]; intros H; cbn [sumf]; [lra|].
  assert (0 <= f t) by (apply H; left; reflexivity).
  assert (0 <= sumf f r) by (apply IH; intros u Hu; apply H; right; exact Hu). lra.
Qed.

Lemma sumf_le f g ts : (forall t, In t ts -> f t <= g t) -> sumf f ts <= sumf g ts.
Proof.
  induction ts as [|t r IH]; intros H; cbn [sumf]; [lra|].
  assert (f t <= g t) by (apply H; left; reflexivity).
  assert (sumf f r <= sumf g r) by (apply IH; intros u Hu; apply H; right; exact Hu). lra.
Qed.

Lemma sumf_perm f a b : Permutation a b -> sumf f a == sumf f b.
Proof.
  induction 1 as [|t a b _ IH|t u a|a b c _ IH1 _ IH2]; cbn [sumf].
  - reflexivity.
  - rewrite IH. reflexivity.
  - ring.
  - rewrite IH1. exact IH2.
Qed.

Lemma sumf_map f (g : tree -> tree) ts : sumf f (map g ts) = sumf (fun t => f (g t)) ts.
Proof. induction ts as [|t r IH]; cbn [sumf map]; [reflexivity| rewrite IH; reflexivity]. Qed.

(* a sum of non-negative terms that is zero has only zero terms *)
Lemma sumf_zero_terms f ts : (forall t, In t ts -> 0 <= f t) -> sumf f ts == 0 -> forall t, In t ts -> f t == 0.
Proof.
  induction ts as [|t r IH]; intros Hnn Hz u Hu; [destruct Hu|].
  cbn [sumf] in Hz.
  assert (H0 : 0 <= f t) by (apply Hnn; left; reflexivity).
  assert (H1 : 0 <= sumf f r) by (apply sumf_nonneg; intros w Hw; apply Hnn; right; exact Hw).
  destruct Hu as [->|Hu]; [lra|].
  apply IH; [intros w Hw; apply Hnn; right; exact Hw| lra | exact Hu].
Qed.

(* ------------------------------------------------------------------ the accumulators are sums *)

Lemma fold_acc2 minv ts o :
  fst (fold_left (acc2 minv) ts o) == fst o + sumf f_m ts /\
  snd (fold_left (acc2 minv) ts o) == snd o + sumf (f_tot minv) ts.
Proof.
  revert o. induction ts as [|t r IH]; intros o; cbn [fold_left sumf].
  - split; ring.
  - destruct (IH (acc2 minv o t)) as [H1 H2]. rewrite H1, H2. unfold acc2, f_m, f_tot. cbn [fst snd]. split; ring.
Qed.

Lemma fold_acc3 minv ts o :
  fst (fst (fold_left (acc3 minv) ts o)) == fst (fst o) + sumf f_m ts /\
  snd (fst (fold_left (acc3 minv) ts o)) == snd (fst o) + sumf (f_v minv) ts /\
  snd (fold_left (acc3 minv) ts o) == snd o + sumf f_m2 ts.
Proof.
  revert o. induction ts as [|t r IH]; intros o; cbn [fold_left sumf].
  - repeat split; ring.
  - destruct (IH (acc3 minv o t)) as (H1 & H2 & H3). rewrite H1, H2, H3.
    unfold acc3, f_m, f_v, f_m2. cbn [fst snd]. repeat split; ring.
Qed.

Lemma fold_sum1 ts a : fold_left (fun a t => a + fst t) ts a == a + sumf f_m ts.
Proof.
  revert a. induction ts as [|t r IH]; intros a; cbn [fold_left sumf]; [ring|].
  rewrite IH. unfold f_m. ring.
Qed.

Lemma sums2_fst minv ts : fst (sums2 minv ts) == sumf f_m ts.
Proof. unfold sums2. destruct (fold_acc2 minv ts (0, 0)) as [H _]. rewrite H. cbn [fst]. ring. Qed.
Lemma sums2_snd minv ts : snd (sums2 minv ts) == sumf (f_tot minv) ts.
Proof. unfold sums2. destruct (fold_acc2 minv ts (0, 0)) as [_ H]. rewrite H. cbn [snd]. ring. Qed.
Lemma sums3_m minv ts : fst (fst (sums3 minv ts)) == sumf f_m ts.
Proof. unfold sums3. destruct (fold_acc3 minv ts (0, 0, 0)) as (H & _ & _). rewrite H. cbn [fst]. ring. Qed.
Lemma sums3_v minv ts : snd (fst (sums3 minv ts)) == sumf (f_v minv) ts.
Proof. unfold sums3. destruct (fold_acc3 minv ts (0, 0, 0)) as (_ & H & _). rewrite H. cbn [fst snd]. ring. Qed.
Lemma sums3_m2 minv ts : snd (sums3 minv ts) == sumf f_m2 ts.
Proof. unfold sums3. destruct (fold_acc3 minv ts (0, 0, 0)) as (_ & _ & H). rewrite H. cbn [snd]. ring. Qed.
Lemma sum1_sumf ts : sum1 ts == sumf f_m ts.
Proof. unfold sum1. rewrite fold_sum1. ring. Qed.

Lemma f_tot_split minv ts : sumf (f_tot minv) ts == sumf (f_v minv) ts + sumf f_m2 ts.
Proof. unfold f_tot, f_v, f_m2. apply sumf_plus. Qed.

(* the average of the tree means *)

Lemma mean1_avg ts : mean1 ts == avg ts.
Proof. unfold mean1, avg. rewrite sum1_sumf. reflexivity. Qed.
Lemma mean2_avg minv ts : mean2 minv ts == avg ts.
Proof. unfold mean2, avg. rewrite sums2_fst. reflexivity. Qed.
Lemma mean3_avg minv ts : mean3 minv ts == avg ts.
Proof. unfold mean3, avg. rewrite sums3_m. reflexivity. Qed.

Lemma var_total_raw_eq minv ts :
  var_total_raw minv ts == (sumf (f_v minv) ts + sumf f_m2 ts) / nQ ts - avg ts * avg ts.
Proof. unfold var_total_raw. rewrite sums2_snd, mean2_avg, f_tot_split. reflexivity. Qed.
Lemma var_al_raw_eq minv ts : var_al_raw minv ts == sumf (f_v minv) ts / nQ ts.
Proof. unfold var_al_raw. rewrite sums3_v. reflexivity. Qed.
Lemma var_ep_raw_eq minv ts : var_ep_raw minv ts == sumf f_m2 ts / nQ ts - avg ts * avg ts.
Proof. unfold var_ep_raw. rewrite sums3_m2, mean3_avg. reflexivity. Qed.

(* ------------------------------------------------------------------ law of total variance, unclamped *)
Lemma total_raw_split minv ts : ts <> [] ->
  var_total_raw minv ts == var_al_raw minv ts + var_ep_raw minv ts.
Proof.
  intros Hne. rewrite var_total_raw_eq, var_al_raw_eq, var_ep_raw_eq.
  pose proof (nQ_pos ts Hne) as Hn. field. lra.
Qed.

(* the epistemic part is the mean squared deviation of the tree means from their average *)

Lemma dev2_expand c ts :
  sumf (dev2 c) ts == sumf f_m2 ts - 2 * c * sumf f_m ts + c * c * nQ ts.
Proof.
  induction ts as [|t r IH]; [unfold nQ; cbn; ring|].
  cbn [sumf]. rewrite IH, nQ_cons. unfold dev2, f_m2, f_m. ring.
Qed.

Lemma var_ep_raw_dev minv ts : ts <> [] ->
  var_ep_raw minv ts == sumf (dev2 (avg ts)) ts / nQ ts.
Proof.
  intros Hne. rewrite var_ep_raw_eq, dev2_expand. unfold avg.
  pose proof (nQ_pos ts Hne) as Hn. field. lra.
Qed.

Lemma Qsq_nonneg x : 0 <= x * x.
Proof.
  destruct (Qlt_le_dec x 0) as [H|H].
  - assert (E : x * x == (- x) * (- x)) by ring. rewrite E. apply Qmult_le_0_compat; lra.
  - apply Qmult_le_0_compat; exact H.
Qed.

Lemma dev2_nonneg c t : 0 <= dev2 c t.
Proof. unfold dev2. apply Qsq_nonneg. Qed.

Lemma Qdiv_nonneg a b : 0 <= a -> 0 < b -> 0 <= a / b.
Proof. intros Ha Hb. apply Qle_shift_div_l; [exact Hb|]. lra. Qed.

Lemma var_ep_raw_nonneg minv ts : ts <> [] -> 0 <= var_ep_raw minv ts.
Proof.
  intros Hne. rewrite (var_ep_raw_dev minv ts Hne).
  apply Qdiv_nonneg; [|apply nQ_pos; exact Hne].
  apply sumf_nonneg. intros t _. apply dev2_nonneg.
Qed.

Lemma f_v_ge_minv minv t : minv <= f_v minv t.
Proof. unfold f_v. apply Qmx_ge_r. Qed.

Lemma var_al_raw_ge_minv minv ts : ts <> [] -> minv <= var_al_raw minv ts.
Proof.
  intros Hne. rewrite var_al_raw_eq. pose proof (nQ_pos ts Hne) as Hn.
  apply Qle_shift_div_l; [exact Hn|].
  rewrite <- sumf_const. apply sumf_le. intros t _. apply f_v_ge_minv.
Qed.

Lemma var_al_raw_nonneg minv ts : ts <> [] -> 0 <= minv -> 0 <= var_al_raw minv ts.
Proof. intros Hne Hm. pose proof (var_al_raw_ge_minv minv ts Hne). lra. Qed.

(* without min_variance >= 0: non-negative as soon as the leaf impurities are *)
Lemma var_al_raw_nonneg_v minv ts : ts <> [] -> (forall t, In t ts -> 0 <= snd t) -> 0 <= var_al_raw minv ts.
Proof.
  intros Hne Hv. rewrite var_al_raw_eq. apply Qdiv_nonneg; [|apply nQ_pos; exact Hne].
  apply sumf_nonneg. intros t Ht. unfold f_v. pose proof (Qmx_ge_l (snd t) minv). specialize (Hv t Ht). lra.
Qed.

Lemma var_total_raw_nonneg minv ts : ts <> [] -> 0 <= minv -> 0 <= var_total_raw minv ts.
Proof.
  intros Hne Hm. rewrite (total_raw_split minv ts Hne).
  pose proof (var_al_raw_nonneg minv ts Hne Hm). pose proof (var_ep_raw_nonneg minv ts Hne). lra.
Qed.

(* ------------------------------------------------------------------ the law for what the code returns (clamped) *)
Lemma total_variance_gen minv ts : ts <> [] -> 0 <= var_al_raw minv ts ->
  var_total minv ts == var_al minv ts + var_ep minv ts.
Proof.
  intros Hne Hal. pose proof (var_ep_raw_nonneg minv ts Hne) as Hep.
  unfold var_total, var_al, var_ep.
  rewrite (clamp0_id _ Hal), (clamp0_id _ Hep), Qmx_0_id.
  - apply total_raw_split. exact Hne.
  - rewrite (total_raw_split minv ts Hne). lra.
Qed.

Lemma total_variance minv ts : ts <> [] -> 0 <= minv ->
  var_total minv ts == var_al minv ts + var_ep minv ts.
Proof. intros Hne Hm. apply total_variance_gen; [exact Hne| apply var_al_raw_nonneg; assumption]. Qed.

Lemma clamps_are_identities minv ts : ts <> [] -> 0 <= minv ->
  var_total minv ts == var_total_raw minv ts /\ var_al minv ts == var_al_raw minv ts /\ var_ep minv ts == var_ep_raw minv ts.
Proof.
  intros Hne Hm. unfold var_total, var_al, var_ep. repeat split.
  - apply Qmx_0_id, var_total_raw_nonneg; assumption.
  - apply clamp0_id, var_al_raw_nonneg; assumption.
  - apply clamp0_id, var_ep_raw_nonneg; assumption.
Qed.

Lemma nonneg_all minv ts : ts <> [] -> 0 <= minv ->
  0 <= var_total_raw minv ts /\ 0 <= var_al_raw minv ts /\ 0 <= var_ep_raw minv ts /\
  var_ep_raw minv ts == sumf (dev2 (avg ts)) ts / nQ ts.
Proof.
  intros Hne Hm. repeat split.
  - apply var_total_raw_nonneg; assumption.
  - apply var_al_raw_nonneg; assumption.
  - apply var_ep_raw_nonneg; assumption.
  - apply var_ep_raw_dev; assumption.
Qed.

(* returned values are non-negative whatever the oracle and min_variance are (this is what the clamps buy) *)
Lemma returned_nonneg minv ts : 0 <= var_total minv ts /\ 0 <= var_al minv ts /\ 0 <= var_ep minv ts.
Proof. unfold var_total, var_al, var_ep. repeat split; [apply Qmx_0_nonneg|apply clamp0_nonneg|apply clamp0_nonneg]. Qed.

(* the hypothesis of the law cannot be dropped: a negative floor with negative impurities *)
Lemma total_variance_needs_floor :
  exists minv ts, ts <> [] /\ ~ var_total minv ts == var_al minv ts + var_ep minv ts.
Proof.
  exists (-(2#1)), [(0, -(1#1)); (2#1, -(1#1))]. split; [discriminate|].
  vm_compute. intros H. discriminate H.
Qed.

Lemma total_ge_parts minv ts : ts <> [] -> 0 <= minv ->
  var_al minv ts <= var_total minv ts /\ var_ep minv ts <= var_total minv ts.
Proof.
  intros Hne Hm. rewrite (total_variance minv ts Hne Hm).
  destruct (returned_nonneg minv ts) as (_ & Ha & He). split; lra.
Qed.

(* ------------------------------------------------------------------ one mean *)
Lemma mean_is_average minv ts :
  mean1 ts == avg ts /\ mean2 minv ts == avg ts /\ mean3 minv ts == avg ts.
Proof. repeat split; [apply mean1_avg|apply mean2_avg|apply mean3_avg]. Qed.

Lemma predict_means minv r ts : exists rest, predict r minv ts = hd 0 (predict r minv ts) :: rest /\ hd 0 (predict r minv ts) == avg ts.
Proof.
  destruct r; cbn [predict hd]; eexists; (split; [reflexivity|]);
    [apply mean1_avg|apply mean2_avg|apply mean3_avg].
Qed.

(* the mean lies between the smallest and the largest tree mean *)
Lemma avg_bounds lo hi ts : ts <> [] -> (forall t, In t ts -> lo <= fst t <= hi) -> lo <= avg ts <= hi.
Proof.
  intros Hne H. pose proof (nQ_pos ts Hne) as Hn. unfold avg. split.
  - apply Qle_shift_div_l; [exact Hn|]. rewrite <- sumf_const. apply sumf_le. intros t Ht. apply H. exact Ht.
  - apply Qle_shift_div_r; [exact Hn|]. rewrite <- sumf_const. apply sumf_le. intros t Ht. apply H. exact Ht.
Qed.

(* ------------------------------------------------------------------ order / chunks (n_jobs) *)
Definition eq2 (a b : Q * Q) : Prop := fst a == fst b /\ snd a == snd b.
Definition eq3 (a b : Q * Q * Q) : Prop := fst (fst a) == fst (fst b) /\ snd (fst a) == snd (fst b) /\ snd a == snd b.

Lemma sums2_perm minv a b : Permutation a b -> eq2 (sums2 minv a) (sums2 minv b).
Proof.
  intros H. split.
  - rewrite !sums2_fst. apply sumf_perm. exact H.
  - rewrite !sums2_snd. apply sumf_perm. exact H.
Qed.

Lemma sums3_perm minv a b : Permutation a b -> eq3 (sums3 minv a) (sums3 minv b).
Proof.
  intros H. repeat split.
  - rewrite !sums3_m. apply sumf_perm. exact H.
  - rewrite !sums3_v. apply sumf_perm. exact H.
  - rewrite !sums3_m2. apply sumf_perm. exact H.
Qed.

Lemma sum1_perm a b : Permutation a b -> sum1 a == sum1 b.
Proof. intros H. rewrite !sum1_sumf. apply sumf_perm. exact H. Qed.

Lemma sumf_concat f chunks : sumf f (concat chunks) == fold_right (fun ch a => sumf f ch + a) 0 chunks.
Proof.
  induction chunks as [|c r IH]; cbn [concat fold_right sumf]; [reflexivity|].
  rewrite sumf_app, IH. reflexivity.
Qed.

Lemma chunked2_gen minv chunks o :
  eq2 (fold_left (fun o ch => add2 o (sums2 minv ch)) chunks o)
      (fst o + sumf f_m (concat chunks), snd o + sumf (f_tot minv) (concat chunks)).
Proof.
  revert o. induction chunks as [|c r IH]; intros o; cbn [fold_left concat].
  - unfold eq2. cbn [fst snd sumf]. split; ring.
  - destruct (IH (add2 o (sums2 minv c))) as [H1 H2]. unfold eq2. rewrite H1, H2. cbn [fst snd].
    unfold add2. cbn [fst snd]. rewrite !sumf_app, sums2_fst, sums2_snd. split; ring.
Qed.

Lemma chunked3_gen minv chunks o :
  eq3 (fold_left (fun o ch => add3 o (sums3 minv ch)) chunks o)
      (fst (fst o) + sumf f_m (concat chunks), snd (fst o) + sumf (f_v minv) (concat chunks),
       snd o + sumf f_m2 (concat chunks)).
Proof.
  revert o. induction chunks as [|c r IH]; intros o; cbn [fold_left concat].
  - unfold eq3. cbn [fst snd sumf]. repeat split; ring.
  - destruct (IH (add3 o (sums3 minv c))) as (H1 & H2 & H3). unfold eq3. rewrite H1, H2, H3. cbn [fst snd].
    unfold add3. cbn [fst snd]. rewrite !sumf_app, sums3_m, sums3_v, sums3_m2. repeat split; ring.
Qed.

Lemma chunked_order_irrelevant minv ts chunks : Permutation (concat chunks) ts ->
  eq2 (sums2_chunked minv chunks) (sums2 minv ts) /\ eq3 (sums3_chunked minv chunks) (sums3 minv ts).
Proof.
  intros H. split.
  - destruct (chunked2_gen minv chunks (0, 0)) as [H1 H2]. unfold sums2_chunked, eq2.
    rewrite H1, H2, sums2_fst, sums2_snd. cbn [fst snd]. rewrite (sumf_perm _ _ _ H), (sumf_perm (f_tot minv) _ _ H). split; ring.
  - destruct (chunked3_gen minv chunks (0, 0, 0)) as (H1 & H2 & H3). unfold sums3_chunked, eq3.
    rewrite H1, H2, H3, sums3_m, sums3_v, sums3_m2. cbn [fst snd].
    rewrite (sumf_perm f_m _ _ H), (sumf_perm (f_v minv) _ _ H), (sumf_perm f_m2 _ _ H). repeat split; ring.
Qed.

Lemma avg_perm a b : Permutation a b -> avg a == avg b.
Proof. intros H. unfold avg. rewrite (sumf_perm _ _ _ H), (nQ_perm _ _ H). reflexivity. Qed.

Lemma predictions_perm minv a b : Permutation a b ->
  mean1 a == mean1 b /\ mean2 minv a == mean2 minv b /\ mean3 minv a == mean3 minv b /\
  var_total minv a == var_total minv b /\ var_al minv a == var_al minv b /\ var_ep minv a == var_ep minv b.
Proof.
  intros H. pose proof (avg_perm _ _ H) as Ha. pose proof (nQ_perm _ _ H) as Hn.
  repeat split.
  - rewrite !mean1_avg. exact Ha.
  - rewrite !mean2_avg. exact Ha.
  - rewrite !mean3_avg. exact Ha.
  - unfold var_total. rewrite !var_total_raw_eq, Ha, Hn, (sumf_perm (f_v minv) _ _ H), (sumf_perm f_m2 _ _ H). reflexivity.
  - unfold var_al. rewrite !var_al_raw_eq, Hn, (sumf_perm (f_v minv) _ _ H). reflexivity.
  - unfold var_ep. rewrite !var_ep_raw_eq, Ha, Hn, (sumf_perm f_m2 _ _ H). reflexivity.
Qed.

(* ------------------------------------------------------------------ what each part depends on *)
(* epistemic part: a function of the tree means alone (not of impurities, not of min_variance) *)
Lemma same_len {A B} (f : A -> B) (l l' : list A) : map f l = map f l' -> length l = length l'.
Proof. intros H. rewrite <- (map_length f l), <- (map_length f l'), H. reflexivity. Qed.

Lemma sumf_fst_only (f : Q -> Q) ts ts' : map fst ts = map fst ts' ->
  sumf (fun t => f (fst t)) ts = sumf (fun t => f (fst t)) ts'.
Proof.
  revert ts'. induction ts as [|t r IH]; intros [|t' r'] H; try discriminate; [reflexivity|].
  cbn [map] in H. injection H as Ht Hr. cbn [sumf]. rewrite Ht. f_equal. apply IH. exact Hr.
Qed.

Lemma sumf_snd_only (f : Q -> Q) ts ts' : map snd ts = map snd ts' ->
  sumf (fun t => f (snd t)) ts = sumf (fun t => f (snd t)) ts'.
Proof.
  revert ts'. induction ts as [|t r IH]; intros [|t' r'] H; try discriminate; [reflexivity|].
  cbn [map] in H. injection H as Ht Hr. cbn [sumf]. rewrite Ht. f_equal. apply IH. exact Hr.
Qed.

Lemma var_ep_means_only minv minv' ts ts' : map fst ts = map fst ts' -> var_ep minv ts == var_ep minv' ts'.
Proof.
  intros H. unfold var_ep. rewrite !var_ep_raw_eq. unfold avg, nQ, tree. rewrite (same_len _ _ _ H).
  unfold f_m2, f_m.
  rewrite (sumf_fst_only (fun m => m * m) _ _ H), (sumf_fst_only (fun m => m) _ _ H). reflexivity.
Qed.

Lemma mean_means_only minv minv' ts ts' : map fst ts = map fst ts' -> mean3 minv ts == mean3 minv' ts'.
Proof.
  intros H. rewrite !mean3_avg. unfold avg, nQ, tree. rewrite (same_len _ _ _ H). unfold f_m.
  rewrite (sumf_fst_only (fun m => m) _ _ H). reflexivity.
Qed.

(* aleatoric part: a function of the leaf impurities (and the floor) alone *)
Lemma var_al_impurities_only minv ts ts' : map snd ts = map snd ts' -> var_al minv ts == var_al minv ts'.
Proof.
  intros H. unfold var_al. rewrite !var_al_raw_eq. unfold nQ, tree. rewrite (same_len _ _ _ H). unfold f_v.
  rewrite (sumf_snd_only (fun v => Qmx v minv) _ _ H). reflexivity.
Qed.

(* the 'd' acquisition variants see the epistemic part only *)
Lemma lcb_d_epistemic_only sq kappa minv minv' ts ts' : Proper (Qeq ==> Qeq) sq ->
  map fst ts = map fst ts' -> lcb sq kappa true minv ts == lcb sq kappa true minv' ts'.
Proof.
  intros Hsq H. unfold lcb.
  pose proof (var_ep_means_only minv minv' ts ts' H) as He.
  pose proof (mean_means_only minv minv' ts ts' H) as Hm.
  destruct kappa as [k|]; rewrite He; [rewrite Hm|]; reflexivity.
Qed.

Lemma lcb_is_lcb_of sq kappa det minv ts :
  lcb sq kappa det minv ts ==
  lcb_of kappa (if det then mean3 minv ts else mean2 minv ts) (sq (if det then var_ep minv ts else var_total minv ts)).
Proof. unfold lcb, lcb_of. destruct kappa; reflexivity. Qed.

(* epistemic part vanishes exactly when all trees agree *)
Lemma var_ep_zero_iff minv ts : ts <> [] ->
  (var_ep minv ts == 0 <-> forall t, In t ts -> fst t == avg ts).
Proof.
  intros Hne. pose proof (nQ_pos ts Hne) as Hn. pose proof (var_ep_raw_nonneg minv ts Hne) as Hnn.
  unfold var_ep. rewrite (clamp0_id _ Hnn), (var_ep_raw_dev minv ts Hne). split.
  - intros H t Ht.
    assert (Hs : sumf (dev2 (avg ts)) ts == 0).
    { assert (E : sumf (dev2 (avg ts)) ts == (sumf (dev2 (avg ts)) ts / nQ ts) * nQ ts) by (field; lra).
      rewrite E, H. ring. }
    pose proof (sumf_zero_terms _ ts (fun t _ => dev2_nonneg (avg ts) t) Hs t Ht) as Hz.
    unfold dev2 in Hz. nra.
  - intros H. assert (Hs : sumf (dev2 (avg ts)) ts == 0).
    { rewrite (sumf_ext_in _ (fun _ => 0) ts).
      - rewrite sumf_const. ring.
      - intros t Ht. unfold dev2. rewrite (H t Ht). ring. }
    rewrite Hs. field. lra.
Qed.

Lemma single_tree minv t : 0 <= minv ->
  var_ep minv [t] == 0 /\ mean1 [t] == fst t /\ var_total minv [t] == Qmx (snd t) minv.
Proof.
  intros Hm. assert (Hne : [t] <> []) by discriminate.
  assert (Ha : avg [t] == fst t).
  { unfold avg. cbn [sumf]. unfold f_m, nQ. cbn [length]. change (inject_Z (Z.of_nat 1)) with 1. field. }
  assert (He : var_ep minv [t] == 0).
  { apply (var_ep_zero_iff minv [t] Hne). intros u [<-|[]]. rewrite Ha. reflexivity. }
  repeat split; [exact He| rewrite mean1_avg; exact Ha|].
  rewrite (total_variance minv [t] Hne Hm), He.
  unfold var_al. rewrite (clamp0_id _ (var_al_raw_nonneg minv [t] Hne Hm)), var_al_raw_eq.
  cbn [sumf]. unfold f_v, nQ. cbn [length]. change (inject_Z (Z.of_nat 1)) with 1. field.
Qed.

(* ------------------------------------------------------------------ scaling of the targets *)
Lemma scale_sums c minv ts : 0 < c ->
  sumf f_m (map (scale_tree c) ts) == c * sumf f_m ts /\
  sumf f_m2 (map (scale_tree c) ts) == c * c * sumf f_m2 ts /\
  sumf (f_v (c * c * minv)) (map (scale_tree c) ts) == c * c * sumf (f_v minv) ts.
Proof.
  intros Hc. rewrite !sumf_map. repeat split.
  - rewrite <- sumf_scal. apply sumf_ext. intros t. unfold f_m, scale_tree. cbn [fst]. reflexivity.
  - rewrite <- sumf_scal. apply sumf_ext. intros t. unfold f_m2, scale_tree. cbn [fst]. ring.
  - rewrite <- sumf_scal. apply sumf_ext. intros t. unfold f_v, scale_tree. cbn [snd]. apply Qmx_scale. nra.
Qed.

Lemma scale_equivariant c minv ts : 0 < c -> ts <> [] ->
  let ts' := map (scale_tree c) ts in let minv' := c * c * minv in
  mean1 ts' == c * mean1 ts /\ mean2 minv' ts' == c * mean2 minv ts /\ mean3 minv' ts' == c * mean3 minv ts /\
  var_total minv' ts' == c * c * var_total minv ts /\
  var_al minv' ts' == c * c * var_al minv ts /\
  var_ep minv' ts' == c * c * var_ep minv ts.
Proof.
  intros Hc Hne ts' minv'. pose proof (nQ_pos ts Hne) as Hn.
  destruct (scale_sums c minv ts Hc) as (H1 & H2 & H3). fold ts' in H1, H2, H3. fold minv' in H3.
  assert (Hn' : nQ ts' = nQ ts) by apply nQ_map.
  assert (Ha : avg ts' == c * avg ts) by (unfold avg; rewrite H1, Hn'; field; lra).
  assert (Hcc : 0 < c * c) by nra.
  repeat split.
  - rewrite !mean1_avg. exact Ha.
  - rewrite !mean2_avg. exact Ha.
  - rewrite !mean3_avg. exact Ha.
  - unfold var_total. rewrite <- (Qmx_scale (c * c) _ 0 Hcc).
    assert (E : c * c * 0 == 0) by ring. rewrite E. apply Qmx_proper; [|reflexivity].
    rewrite !var_total_raw_eq, Ha, H2, H3, Hn'. field. lra.
  - unfold var_al. rewrite <- (clamp0_scale (c * c) _ Hcc). apply clamp0_proper.
    rewrite !var_al_raw_eq, H3, Hn'. field. lra.
  - unfold var_ep. rewrite <- (clamp0_scale (c * c) _ Hcc). apply clamp0_proper.
    rewrite !var_ep_raw_eq, Ha, H2, Hn'. field. lra.
Qed.

(* ------------------------------------------------------------------ one object, many calls *)
Lemma run_app s ops1 ops2 :
  run s (ops1 ++ ops2) = let (s1, o1) := run s ops1 in let (s2, o2) := run s1 ops2 in (s2, o1 ++ o2).
Proof.
  revert s. induction ops1 as [|o r IH]; intros s; cbn [run app].
  - destruct (run s ops2) as [s2 o2]. reflexivity.
  - destruct (step s o) as [s1 out1]. rewrite IH.
    destruct (run s1 r) as [s1' o1]. destruct (run s1' ops2) as [s2 o2]. rewrite app_assoc. reflexivity.
Qed.

(* the answer to a predict call is a function of the CURRENT trees and floor only - whatever happened before *)
Lemma session_answer s ops r :
  run s (ops ++ [OPredict r]) =
  (fst (run s ops), snd (run s ops) ++ [predict r (st_minv (fst (run s ops))) (st_trees (fst (run s ops)))]).
Proof. rewrite run_app. destruct (run s ops) as [s1 o1]. cbn. reflexivity. Qed.

Lemma session_history_independent s s' ops ops' r :
  st_minv (fst (run s ops)) = st_minv (fst (run s' ops')) ->
  st_trees (fst (run s ops)) = st_trees (fst (run s' ops')) ->
  last (snd (run s (ops ++ [OPredict r]))) [] = last (snd (run s' (ops' ++ [OPredict r]))) [].
Proof. intros H1 H2. rewrite !session_answer. cbn [snd]. rewrite !last_last, H1, H2. reflexivity. Qed.

(* predict does not change the state; asking twice gives the same answer twice *)
Lemma session_predict_pure s r1 r2 :
  run s [OPredict r1; OPredict r2] = (s, [predict r1 (st_minv s) (st_trees s); predict r2 (st_minv s) (st_trees s)]).
Proof. reflexivity. Qed.

(* a warm start is a forest over the old trees followed by the new ones *)
Lemma session_warm s extra r :
  snd (run s [OWarm extra; OPredict r]) = [predict r (st_minv s) (st_trees s ++ extra)].
Proof. reflexivity. Qed.

(* the hyper-parameter n_estimators never enters a prediction: two sessions that differ only in it (initially, or by
   set_params(n_estimators=...) calls placed anywhere) give the same answers *)
Definition same_fitted (s s' : state) : Prop := st_minv s = st_minv s' /\ st_trees s = st_trees s'.

Fixpoint strip_nest (ops : list op) : list op :=
  match ops with
  | [] => []
  | OSetNEst _ :: r => strip_nest r
  | o :: r => o :: strip_nest r
  end.

Lemma step_same_fitted s s' o : same_fitted s s' ->
  same_fitted (fst (step s o)) (fst (step s' o)) /\ snd (step s o) = snd (step s' o).
Proof.
  intros [H1 H2]. destruct s as [[mv n] ts], s' as [[mv' n'] ts']. unfold st_minv, st_trees in H1, H2. cbn in H1, H2. subst mv' ts'.
  destruct o; cbn; repeat split; reflexivity.
Qed.

Lemma run_cons s o r :
  run s (o :: r) = (fst (run (fst (step s o)) r), snd (step s o) ++ snd (run (fst (step s o)) r)).
Proof. cbn [run]. destruct (step s o) as [s1 o1]. cbn [fst snd]. destruct (run s1 r) as [s2 o2]. reflexivity. Qed.

Lemma run_same_fitted ops : forall s s', same_fitted s s' ->
  same_fitted (fst (run s ops)) (fst (run s' (strip_nest ops))) /\ snd (run s ops) = snd (run s' (strip_nest ops)).
Proof.
  induction ops as [|o r IH]; intros s s' H; [split; [exact H|reflexivity]|].
  assert (Hgen : forall o', strip_nest (o' :: r) = o' :: strip_nest r ->
            same_fitted (fst (run s (o' :: r))) (fst (run s' (strip_nest (o' :: r)))) /\
            snd (run s (o' :: r)) = snd (run s' (strip_nest (o' :: r)))).
  { intros o' E. rewrite E, !run_cons. cbn [fst snd].
    destruct (step_same_fitted s s' o' H) as [Hs Ho]. destruct (IH _ _ Hs) as [Hs2 Ho2].
    split; [exact Hs2| rewrite Ho, Ho2; reflexivity]. }
  destruct o as [r0|ts0|extra|mv|ts0|ts0|n|i|extra]; try (apply Hgen; reflexivity).
  (* OSetNEst: dropped on the right-hand side *)
  rewrite run_cons. cbn [strip_nest step fst snd app].
  apply IH. destruct H as [H1 H2]. split; cbn; assumption.
Qed.

Lemma session_n_estimators_irrelevant s n ops :
  snd (run s ops) = snd (run (st_minv s, n, st_trees s) (strip_nest ops)).
Proof. apply run_same_fitted. split; reflexivity. Qed.

(* hand edits of estimators_: the answers are those of the trees actually present *)
Lemma session_drop_merge s i extra r :
  snd (run s [ODrop i; OSetNEst 0; OPredict r]) = [predict r (st_minv s) (drop_nth i (st_trees s))] /\
  snd (run s [OMerge extra; OPredict r]) = [predict r (st_minv s) (st_trees s ++ extra)].
Proof. split; reflexivity. Qed.

(* pooling: statistics of the extended forest from those of the two parts - the law of total variance once more,
   with the two groups of trees in the role of the trees *)
Lemma var_of_means_alt ts : ts <> [] -> var_of_means ts == sumf f_m2 ts / nQ ts - avg ts * avg ts.
Proof. intros Hne. unfold var_of_means. rewrite <- (var_ep_raw_dev 0 ts Hne), var_ep_raw_eq. reflexivity. Qed.

Lemma pooling minv a b : a <> [] -> b <> [] ->
  let na := nQ a in let nb := nQ b in
  avg (a ++ b) == (na * avg a + nb * avg b) / (na + nb) /\
  avg_leaf_var minv (a ++ b) == (na * avg_leaf_var minv a + nb * avg_leaf_var minv b) / (na + nb) /\
  var_of_means (a ++ b) == (na * var_of_means a + nb * var_of_means b) / (na + nb)
                           + na * nb * ((avg a - avg b) * (avg a - avg b)) / ((na + nb) * (na + nb)).
Proof.
  intros Ha Hb na nb. pose proof (nQ_pos a Ha) as Pa. pose proof (nQ_pos b Hb) as Pb. fold na in Pa. fold nb in Pb.
  assert (Hab : a ++ b <> []) by (destruct a; [congruence|discriminate]).
  repeat split.
  - unfold avg. rewrite sumf_app, nQ_app. fold na nb. field. lra.
  - unfold avg_leaf_var. rewrite sumf_app, nQ_app. fold na nb. field. lra.
  - rewrite (var_of_means_alt _ Hab), (var_of_means_alt _ Ha), (var_of_means_alt _ Hb).
    unfold avg. rewrite !sumf_app, nQ_app. fold na nb. field. lra.
Qed.
