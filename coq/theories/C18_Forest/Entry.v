(* Entry points for the extracted driver: data -> data.
   Numbers of one case are integers on ONE common power-of-two scale s chosen by the harness:
   tree means, returned means and returned stds are sent as x*s, impurities and min_variance as x*s^2
   (C18_scale_equivariant / C18_oracle_scale_invariant: nothing below depends on s).  Tolerances eps are [num; den]. *)
From Coq Require Import List ZArith QArith Bool.
Import ListNotations.
Require Import DH.Common.Data DH.C18_Forest.Model DH.C18_Forest.Check.

Definition dQi (d : data) : Q := inject_Z (dZ d).
Definition dQ (d : data) : Q := Qmake (dZ (dnth 0 d)) (Z.to_pos (dZ (dnth 1 d))).
Definition d_tree (d : data) : tree := (dQi (dnth 0 d), dQi (dnth 1 d)).
Definition d_trees (d : data) : list tree := dmap d_tree d.
Definition d_obs (d : data) : list (option Q) := dmap (dopt dQi) d.
Definition eQ (q : Q) : data := L [I (Qnum q); I (Zpos (Qden q))].

Definition e_model (minv : Q) (ts : list tree) : data :=
  elist eQ [mean1 ts; mean2 minv ts; mean3 minv ts; var_total minv ts; var_al minv ts; var_ep minv ts].

Definition entries : list (Z * (data -> data)) :=
  [ (* [minv; [trees ...]] -> per query [mean1; mean2; mean3; var_total; var_al; var_ep] *)
    (1801%Z, fun d => elist (fun q => e_model (dQi (dnth 0 d)) (d_trees q)) (dlist (dnth 1 d)));
    (* [epsm; epsv; minv; [[trees; means; stds] ...]] -> per query the property clauses *)
    (1802%Z, fun d => elist (fun q => elist ebool
        (clauses (dQ (dnth 0 d)) (dQ (dnth 1 d)) (dQi (dnth 2 d)) (d_trees (dnth 0 q)) (d_obs (dnth 1 q)) (d_obs (dnth 2 q))))
        (dlist (dnth 3 d)));
    (* same shape -> per query the correspondence clauses *)
    (1803%Z, fun d => elist (fun q => elist ebool
        (corr_clauses (dQ (dnth 0 d)) (dQ (dnth 1 d)) (dQi (dnth 2 d)) (d_trees (dnth 0 q)) (d_obs (dnth 1 q)) (d_obs (dnth 2 q))))
        (dlist (dnth 3 d)));
    (* [epsm; epsv; minv; [[trees; means1; stds1; means2; stds2] ...]] -> per query: the two observations agree *)
    (1804%Z, fun d => elist (fun q => ebool
        (ok_same (dQ (dnth 0 d)) (dQ (dnth 1 d)) (dQi (dnth 2 d)) (d_trees (dnth 0 q))
                 (d_obs (dnth 1 q)) (d_obs (dnth 2 q)) (d_obs (dnth 3 q)) (d_obs (dnth 4 q))))
        (dlist (dnth 3 d)));
    (* [eps; kappa = [] | [[num; den]]; [[mu; std; a] ...]] -> per query ok_lcb *)
    (1805%Z, fun d => elist (fun q => ebool
        (ok_lcb (dQ (dnth 0 d)) (dopt dQ (dnth 1 d)) (dQi (dnth 0 q)) (dQi (dnth 1 q)) (dQi (dnth 2 q))))
        (dlist (dnth 2 d)));
    (* ok_C18 itself *)
    (1806%Z, fun d => elist (fun q => ebool
        (ok_C18 (dQ (dnth 0 d)) (dQ (dnth 1 d)) (dQi (dnth 2 d)) (d_trees (dnth 0 q)) (d_obs (dnth 1 q)) (d_obs (dnth 2 q))))
        (dlist (dnth 3 d))) ].
