(* C13 - well-formedness, refinement of the nested dictionaries to the abstract map, frame, fresh ids. *)
From Coq Require Import List ZArith Bool Arith Lia.
Import ListNotations.
Require Import DH.C13_Storage.Model DH.C13_Storage.LemmasMap.
Open Scope Z_scope.

(* keys of the dictionaries are exactly the ids handed out so far, in order *)
Definition wf (c : state) : Prop :=
  map fst (searches c) = zseq (scount c) /\
  forall s sr, aget s (searches c) = Some sr -> map fst (jobs sr) = zseq (jcount sr).

Lemma wf_init : wf init.
Proof. split; [reflexivity | intros s sr H; discriminate H]. Qed.

(* ---------- lookups after put_search ---------- *)
Lemma get_search_put : forall c s sr s',
  get_search (put_search c s sr) s' = if s' =? s then Some sr else get_search c s'.
Proof. intros. unfold get_search, put_search. cbn [searches]. apply aget_aset. Qed.

Lemma get_job_put : forall c s sr j,
  get_job (put_search c s sr) j = if fst j =? s then aget (snd j) (jobs sr) else get_job c j.
Proof.
  intros. unfold get_job. rewrite get_search_put. destruct (fst j =? s); reflexivity.
Qed.

Lemma scount_put : forall c s sr, scount (put_search c s sr) = scount c.
Proof. reflexivity. Qed.

(* ---------- existence ---------- *)
Lemma search_exists_iff : forall c s, wf c -> (get_search c s <> None <-> 0 <= s < Z.of_nat (scount c)).
Proof.
  intros c s [Hk _]. unfold get_search. rewrite <- in_zseq, <- Hk.
  split; intros H.
  - destruct (aget s (searches c)) eqn:E; [|congruence].
    apply amem_in. unfold amem. rewrite E. reflexivity.
  - apply amem_in in H. unfold amem in H. destruct (aget s (searches c)); congruence.
Qed.

Lemma sex_some : forall c s sr, wf c -> get_search c s = Some sr -> a_sex (abs c) s = true.
Proof.
  intros c s sr Hwf H. unfold a_sex. cbn [abs a_ns]. apply in_range_spec.
  apply search_exists_iff; [assumption | congruence].
Qed.

Lemma sex_none : forall c s, wf c -> get_search c s = None -> a_sex (abs c) s = false.
Proof.
  intros c s Hwf H. unfold a_sex. cbn [abs a_ns].
  destruct (in_range s (scount c)) eqn:E; [|reflexivity].
  apply in_range_spec in E. apply search_exists_iff in E; [congruence | assumption].
Qed.

Lemma job_exists_iff : forall c s sr p, wf c -> get_search c s = Some sr ->
  (aget p (jobs sr) <> None <-> 0 <= p < Z.of_nat (jcount sr)).
Proof.
  intros c s sr p [_ Hj] Hs. rewrite <- in_zseq, <- (Hj s sr Hs).
  split; intros H.
  - destruct (aget p (jobs sr)) eqn:E; [|congruence].
    apply amem_in. unfold amem. rewrite E. reflexivity.
  - apply amem_in in H. unfold amem in H. destruct (aget p (jobs sr)); congruence.
Qed.

Lemma jex_spec : forall c j, wf c -> a_jex (abs c) j = true <-> get_job c j <> None.
Proof.
  intros c j Hwf. unfold a_jex, get_job. cbn [abs a_nj].
  destruct (get_search c (fst j)) as [sr|] eqn:Es.
  - rewrite (sex_some c _ sr Hwf Es). cbn [andb]. rewrite in_range_spec.
    symmetry. apply (job_exists_iff c (fst j)); assumption.
  - rewrite (sex_none c _ Hwf Es). cbn [andb]. split; [discriminate | congruence].
Qed.

Lemma jex_some : forall c j r, wf c -> get_job c j = Some r -> a_jex (abs c) j = true.
Proof. intros. apply jex_spec; [assumption | congruence]. Qed.

Lemma jex_none : forall c j, wf c -> get_job c j = None -> a_jex (abs c) j = false.
Proof.
  intros c j Hwf H. destruct (a_jex (abs c) j) eqn:E; [|reflexivity].
  apply jex_spec in E; [congruence | assumption].
Qed.

(* ---------- well-formedness is kept ---------- *)
Lemma wf_put : forall c s sr0 sr, wf c -> get_search c s = Some sr0 ->
  map fst (jobs sr) = zseq (jcount sr) -> wf (put_search c s sr).
Proof.
  intros c s sr0 sr [Hk Hj] Hs Hsr. split.
  - unfold put_search. cbn [searches scount]. rewrite keys_aset.
    unfold amem. unfold get_search in Hs. rewrite Hs. assumption.
  - intros s' sr' H. unfold put_search in H. cbn [searches] in H. rewrite aget_aset in H.
    destruct (s' =? s); [inversion H; subst; assumption | eapply Hj; eassumption].
Qed.

Lemma keys_aset_present : forall A k (v v0 : A) m, aget k m = Some v0 -> map fst (aset k v m) = map fst m.
Proof. intros. rewrite keys_aset. unfold amem. rewrite H. reflexivity. Qed.

Lemma keys_aset_fresh : forall A (v : A) m n, map fst m = zseq n ->
  map fst (aset (Z.of_nat n) v m) = zseq (S n).
Proof.
  intros. rewrite keys_aset. destruct (amem (Z.of_nat n) m) eqn:E.
  - apply amem_in in E. rewrite H in E. apply in_zseq in E. lia.
  - rewrite H, zseq_S. reflexivity.
Qed.

Lemma upd_job_cases : forall c j f,
  match get_job c j with
  | None => upd_job c j f = (c, OErr EKey)
  | Some r =>
    match f r with
    | Er e => upd_job c j f = (c, OErr e)
    | Ok r' => exists sr, get_search c (fst j) = Some sr /\ aget (snd j) (jobs sr) = Some r /\
               upd_job c j f = (put_search c (fst j) (mkSearch (jcount sr) (aset (snd j) r' (jobs sr)) (svals sr)), ONone)
    end
  end.
Proof.
  intros. unfold get_job, upd_job. destruct (get_search c (fst j)) as [sr|]; [|reflexivity].
  destruct (aget (snd j) (jobs sr)) as [r|] eqn:E; [|reflexivity].
  destruct (f r); [|reflexivity]. exists sr. auto.
Qed.

Lemma wf_upd_job : forall c j f, wf c -> wf (fst (upd_job c j f)).
Proof.
  intros c j f Hwf. pose proof (upd_job_cases c j f) as H.
  destruct (get_job c j) as [r|]; [|rewrite H; assumption].
  destruct (f r) as [r'|e]; [|rewrite H; assumption].
  destruct H as [sr [Hs [Hp H]]]. rewrite H. cbn [fst].
  eapply wf_put; [assumption | eassumption |]. cbn [jobs jcount].
  rewrite (keys_aset_present _ _ _ _ _ Hp). destruct Hwf as [_ Hj]. eapply Hj; eassumption.
Qed.

Definition is_load (o : op) : bool :=
  match o with
  | LoadAllSearchIds | LoadAllJobIds _ | LoadSearch _ | LoadJob _ | LoadSearchValue _ _
  | LoadMetaAll _ _ | LoadOutAll _ | LoadJobs _ | LoadJobStatus _ => true
  | _ => false
  end.

Lemma load_pure : forall c o, is_load o = true -> fst (step c o) = c.
Proof.
  intros c o H. destruct o; try discriminate H; cbn [step].
  - reflexivity.
  - destruct (get_search c s); reflexivity.
  - destruct (get_search c s); reflexivity.
  - destruct (get_job c j); reflexivity.
  - destruct (get_search c s) as [sr|]; [destruct (aget k (svals sr))|]; reflexivity.
  - destruct (get_search c s) as [sr|]; [destruct (meta_all k (jobs sr))|]; reflexivity.
  - destruct (get_search c s) as [sr|]; [destruct (out_all (jobs sr))|]; reflexivity.
  - destruct (load_jobs c js); reflexivity.
  - destruct (get_job c j) as [r|]; [destruct (aget K_STATUS r)|]; reflexivity.
Qed.

Lemma wf_step : forall c o, wf c -> wf (fst (step c o)).
Proof.
  intros c o Hwf. destruct (is_load o) eqn:El; [rewrite load_pure; assumption|].
  destruct o; try discriminate El; cbn [step].
  - (* CreateSearch *) destruct Hwf as [Hk Hj]. cbn [fst]. split; cbn [searches scount].
    + apply keys_aset_fresh. assumption.
    + intros s sr H. rewrite aget_aset in H. destruct (s =? Z.of_nat (scount c)).
      * inversion H. reflexivity.
      * eapply Hj; eassumption.
  - (* CreateJob *) destruct (get_search c s) as [sr|] eqn:Es; [|assumption]. cbn [fst].
    eapply wf_put; [assumption | eassumption |]. cbn [jobs jcount].
    apply keys_aset_fresh. destruct Hwf as [_ Hj]. eapply Hj; eassumption.
  - apply wf_upd_job; assumption.
  - apply wf_upd_job; assumption.
  - apply wf_upd_job; assumption.
  - apply wf_upd_job; assumption.
  - apply wf_upd_job; assumption.
  - (* StoreSearchValue *) destruct (get_search c s) as [sr|] eqn:Es; [|assumption]. cbn [fst].
    eapply wf_put; [assumption | eassumption |]. cbn [jobs jcount].
    destruct Hwf as [_ Hj]. eapply Hj; eassumption.
Qed.

Lemma wf_final : forall ops c, wf c -> wf (final c ops).
Proof.
  unfold final. induction ops as [|o t IH]; intros c Hwf; cbn [run].
  - assumption.
  - destruct (step c o) as [c1 x] eqn:E1. destruct (run c1 t) as [c2 xs] eqn:E2. cbn [fst].
    specialize (IH c1). rewrite E2 in IH. apply IH.
    replace c1 with (fst (step c o)) by (rewrite E1; reflexivity). apply wf_step. assumption.
Qed.

(* ---------- refinement: every concrete step is the pointwise update [anext] of the abstract map ---------- *)
Lemma get_search_fresh : forall c, wf c -> get_search c (Z.of_nat (scount c)) = None.
Proof.
  intros c Hwf. destruct (get_search c (Z.of_nat (scount c))) eqn:E; [|reflexivity].
  assert (H : get_search c (Z.of_nat (scount c)) <> None) by congruence.
  apply search_exists_iff in H; [lia | assumption].
Qed.

Lemma get_job_fresh : forall c s sr, wf c -> get_search c s = Some sr -> aget (Z.of_nat (jcount sr)) (jobs sr) = None.
Proof.
  intros c s sr Hwf Hs. destruct (aget (Z.of_nat (jcount sr)) (jobs sr)) eqn:E; [|reflexivity].
  assert (H : aget (Z.of_nat (jcount sr)) (jobs sr) <> None) by congruence.
  apply (job_exists_iff c s sr) in H; [lia | assumption | assumption].
Qed.

Lemma aeq_refl : forall a, aeq a a.
Proof. intros. repeat split. Qed.

Lemma refine_create_search : forall c, wf c ->
  aeq (abs (fst (step c CreateSearch))) (anext CreateSearch (abs c)).
Proof.
  intros c Hwf. pose proof (get_search_fresh c Hwf) as Hf.
  cbn [step fst anext]. unfold aeq, abs. cbn [a_ns a_nj a_cell a_sval].
  assert (Hg : forall s, get_search (mkState (S (scount c)) (aset (Z.of_nat (scount c)) (mkSearch 0 [] []) (searches c))) s
               = if s =? Z.of_nat (scount c) then Some (mkSearch 0 [] []) else get_search c s).
  { intros s. unfold get_search. cbn [searches]. apply aget_aset. }
  split; [reflexivity|]. split; [|split].
  - intros s. rewrite Hg. destruct (s =? Z.of_nat (scount c)) eqn:E; [|reflexivity].
    apply Z.eqb_eq in E. subst s. rewrite Hf. reflexivity.
  - intros s p k. unfold get_job. cbn [fst snd]. rewrite Hg.
    destruct (s =? Z.of_nat (scount c)) eqn:E; [|reflexivity].
    apply Z.eqb_eq in E. subst s. rewrite Hf. reflexivity.
  - intros s k. rewrite Hg. destruct (s =? Z.of_nat (scount c)) eqn:E; [|reflexivity].
    apply Z.eqb_eq in E. subst s. rewrite Hf. reflexivity.
Qed.

Lemma refine_create_job : forall c s, wf c ->
  aeq (abs (fst (step c (CreateJob s)))) (anext (CreateJob s) (abs c)).
Proof.
  intros c s Hwf. cbn [step anext]. destruct (get_search c s) as [sr|] eqn:Es.
  - rewrite (sex_some c s sr Hwf Es). cbn [fst]. unfold aeq, abs. cbn [a_ns a_nj a_cell a_sval].
    split; [reflexivity|]. split; [|split].
    + intros s'. rewrite get_search_put. destruct (s' =? s) eqn:E; [|reflexivity].
      cbn [jcount]. rewrite Es. reflexivity.
    + intros s' p' k'. rewrite get_job_put. cbn [fst snd jobs]. destruct (s' =? s) eqn:E; cbn [andb]; [|reflexivity].
      apply Z.eqb_eq in E. subst s'. rewrite aget_aset. rewrite Es.
      destruct (p' =? Z.of_nat (jcount sr)); [reflexivity|].
      unfold get_job. cbn [fst snd]. rewrite Es. reflexivity.
    + intros s' k'. rewrite get_search_put. destruct (s' =? s) eqn:E; [|reflexivity].
      apply Z.eqb_eq in E. subst s'. rewrite Es. reflexivity.
  - rewrite (sex_none c s Hwf Es). apply aeq_refl.
Qed.

(* replacing the record of an existing job *)
Lemma abs_put_job : forall c j sr r r', get_search c (fst j) = Some sr -> aget (snd j) (jobs sr) = Some r ->
  let c' := put_search c (fst j) (mkSearch (jcount sr) (aset (snd j) r' (jobs sr)) (svals sr)) in
  a_ns (abs c') = a_ns (abs c) /\ (forall s, a_nj (abs c') s = a_nj (abs c) s)
  /\ (forall s p k, a_cell (abs c') s p k = if (s =? fst j) && (p =? snd j) then aget k r' else a_cell (abs c) s p k)
  /\ (forall s k, a_sval (abs c') s k = a_sval (abs c) s k).
Proof.
  intros c j sr r r' Hs Hp c'. subst c'. unfold abs. cbn [a_ns a_nj a_cell a_sval].
  split; [reflexivity|]. split; [|split].
  - intros s. rewrite get_search_put. destruct (s =? fst j) eqn:E; [|reflexivity].
    apply Z.eqb_eq in E. subst s. rewrite Hs. reflexivity.
  - intros s p k. rewrite get_job_put. cbn [fst snd jobs]. destruct (s =? fst j) eqn:E; cbn [andb]; [|reflexivity].
    rewrite aget_aset. destruct (p =? snd j); [reflexivity|].
    apply Z.eqb_eq in E. subst s. unfold get_job. cbn [fst snd]. rewrite Hs. reflexivity.
  - intros s k. rewrite get_search_put. destruct (s =? fst j) eqn:E; [|reflexivity].
    apply Z.eqb_eq in E. subst s. rewrite Hs. reflexivity.
Qed.

Lemma refine_store_job : forall c j k v, wf c ->
  aeq (abs (fst (store_job c j k v))) (a_store (abs c) j k v).
Proof.
  intros c j k v Hwf. unfold store_job, a_store.
  pose proof (upd_job_cases c j (fun r => Ok (aset k v r))) as H.
  destruct (get_job c j) as [r|] eqn:Ej.
  - destruct H as [sr [Hs [Hp H]]]. rewrite H. cbn [fst]. rewrite (jex_some c j r Hwf Ej).
    destruct (abs_put_job c j sr r (aset k v r) Hs Hp) as [H1 [H2 [H3 H4]]].
    unfold aeq. cbn [a_ns a_nj a_cell a_sval]. split; [assumption|]. split; [assumption|]. split; [|assumption].
    intros s p k'. rewrite H3. unfold upd3.
    destruct ((s =? fst j) && (p =? snd j)) eqn:E; cbn [andb].
    + rewrite aget_aset. destruct (k' =? k); [reflexivity|].
      apply andb_true_iff in E. destruct E as [E1 E2]. apply Z.eqb_eq in E1. apply Z.eqb_eq in E2. subst s p.
      cbn [abs a_cell]. replace (fst j, snd j) with j by (destruct j; reflexivity). rewrite Ej. reflexivity.
    + reflexivity.
  - rewrite H. cbn [fst]. rewrite (jex_none c j Hwf Ej). apply aeq_refl.
Qed.

Lemma refine_store_meta : forall c j k v, wf c ->
  aeq (abs (fst (step c (StoreMeta j k v)))) (anext (StoreMeta j k v) (abs c)).
Proof.
  intros c j k v Hwf. cbn [step anext].
  pose proof (upd_job_cases c j (meta_set k v)) as H.
  destruct (get_job c j) as [r|] eqn:Ej.
  - rewrite (jex_some c j r Hwf Ej).
    assert (Hc : a_cell (abs c) (fst j) (snd j) K_META = aget K_META r).
    { cbn [abs a_cell]. replace (fst j, snd j) with j by (destruct j; reflexivity). rewrite Ej. reflexivity. }
    rewrite Hc. destruct (aget K_META r) as [[v0|m]|] eqn:Em.
    + assert (Hm : meta_set k v r = Er EType) by (unfold meta_set; rewrite Em; reflexivity).
      rewrite Hm in H. rewrite H. apply aeq_refl.
    + assert (Hm : meta_set k v r = Ok (aset K_META (FM (aset k v m)) r)) by (unfold meta_set; rewrite Em; reflexivity).
      rewrite Hm in H. destruct H as [sr [Hs [Hp H]]]. rewrite H. cbn [fst].
      destruct (abs_put_job c j sr r (aset K_META (FM (aset k v m)) r) Hs Hp) as [H1 [H2 [H3 H4]]].
      unfold aeq. cbn [a_ns a_nj a_cell a_sval]. split; [assumption|]. split; [assumption|]. split; [|assumption].
      intros s p k'. rewrite H3. unfold upd3.
      destruct ((s =? fst j) && (p =? snd j)) eqn:E; cbn [andb]; [|reflexivity].
      rewrite aget_aset. destruct (k' =? K_META); [reflexivity|].
      apply andb_true_iff in E. destruct E as [E1 E2]. apply Z.eqb_eq in E1. apply Z.eqb_eq in E2. subst s p.
      cbn [abs a_cell]. replace (fst j, snd j) with j by (destruct j; reflexivity). rewrite Ej. reflexivity.
    + assert (Hm : meta_set k v r = Er EKey) by (unfold meta_set; rewrite Em; reflexivity).
      rewrite Hm in H. rewrite H. apply aeq_refl.
  - rewrite H. cbn [fst]. rewrite (jex_none c j Hwf Ej). apply aeq_refl.
Qed.

Lemma refine_store_sv : forall c s k v, wf c ->
  aeq (abs (fst (step c (StoreSearchValue s k v)))) (anext (StoreSearchValue s k v) (abs c)).
Proof.
  intros c s k v Hwf. cbn [step anext]. destruct (get_search c s) as [sr|] eqn:Es.
  - rewrite (sex_some c s sr Hwf Es). cbn [fst]. unfold aeq, abs. cbn [a_ns a_nj a_cell a_sval].
    split; [reflexivity|]. split; [|split].
    + intros s'. rewrite get_search_put. destruct (s' =? s) eqn:E; [|reflexivity].
      apply Z.eqb_eq in E. subst s'. rewrite Es. reflexivity.
    + intros s' p' k'. rewrite get_job_put. cbn [fst snd jobs]. destruct (s' =? s) eqn:E; [|reflexivity].
      apply Z.eqb_eq in E. subst s'. unfold get_job. cbn [fst snd]. rewrite Es. reflexivity.
    + intros s' k'. rewrite get_search_put. unfold upd2. destruct (s' =? s) eqn:E; cbn [andb svals]; [|reflexivity].
      rewrite aget_aset. destruct (k' =? k); [reflexivity|].
      apply Z.eqb_eq in E. subst s'. rewrite Es. reflexivity.
  - rewrite (sex_none c s Hwf Es). apply aeq_refl.
Qed.

Theorem step_refines_state : forall c o, wf c -> aeq (abs (fst (step c o))) (anext o (abs c)).
Proof.
  intros c o Hwf. destruct (is_load o) eqn:El.
  - rewrite load_pure by assumption. destruct o; try discriminate El; apply aeq_refl.
  - destruct o; try discriminate El.
    + apply refine_create_search; assumption.
    + apply refine_create_job; assumption.
    + apply refine_store_job; assumption.
    + apply refine_store_job; assumption.
    + apply refine_store_job; assumption.
    + apply refine_store_job; assumption.
    + apply refine_store_meta; assumption.
    + apply refine_store_sv; assumption.
Qed.

(* ---------- refinement of the outputs ---------- *)
Lemma abs_cell_job : forall c j k, a_cell (abs c) (fst j) (snd j) k = match get_job c j with Some r => aget k r | None => None end.
Proof. intros. cbn [abs a_cell]. replace (fst j, snd j) with j by (destruct j; reflexivity). reflexivity. Qed.

Lemma rec_of_get : forall c j r, get_job c j = Some r -> rec_of (abs c) j r.
Proof. intros c j r H k. rewrite abs_cell_job, H. reflexivity. Qed.

Lemma out_ok_upd_job : forall c j f, wf c -> (forall r, exists r', f r = Ok r') ->
  if a_jex (abs c) j then snd (upd_job c j f) = ONone else snd (upd_job c j f) = OErr EKey.
Proof.
  intros c j f Hwf Hf. pose proof (upd_job_cases c j f) as H.
  destruct (get_job c j) as [r|] eqn:Ej.
  - rewrite (jex_some c j r Hwf Ej). destruct (Hf r) as [r' Hr]. rewrite Hr in H.
    destruct H as [sr [_ [_ H]]]. rewrite H. reflexivity.
  - rewrite (jex_none c j Hwf Ej). rewrite H. reflexivity.
Qed.

Lemma a_collect_ext : forall A (f g : Z -> res (list A)) ps, (forall p, In p ps -> f p = g p) -> a_collect f ps = a_collect g ps.
Proof.
  induction ps as [|p t IH]; intros H; cbn [a_collect]; [reflexivity|].
  rewrite (H p (or_introl eq_refl)). rewrite IH by (intros q Hq; apply H; right; assumption). reflexivity.
Qed.

Definition g_meta (k : Z) (r : jrec) : res (list val) :=
  match aget K_META r with
  | None => Er EKey
  | Some (FV _) => Er EAttr
  | Some (FM m) => Ok (match aget k m with Some v => if is_none v then [] else [v] | None => [] end)
  end.

Definition g_out (r : jrec) : res (list fval) :=
  match aget K_OUT r with
  | None => Er EKey
  | Some v => Ok (if f_is_none v then [] else [v])
  end.

Definition via {A} (g : jrec -> res (list A)) (l : amap jrec) (p : Z) : res (list A) :=
  match aget p l with Some r => g r | None => Er EKey end.

Lemma via_cons : forall A (g : jrec -> res (list A)) p r t q, q <> p -> via g ((p, r) :: t) q = via g t q.
Proof.
  intros. unfold via. cbn [aget]. destruct (q =? p) eqn:E; [apply Z.eqb_eq in E; contradiction | reflexivity].
Qed.

Lemma meta_all_collect : forall k l, NoDup (map fst l) -> meta_all k l = a_collect (via (g_meta k) l) (map fst l).
Proof.
  induction l as [|[p r] t IH]; intros Hnd; cbn [meta_all map fst a_collect]; [reflexivity|].
  inversion Hnd as [|? ? Hni Hnd']. subst.
  rewrite (a_collect_ext _ (via (g_meta k) ((p, r) :: t)) (via (g_meta k) t) (map fst t)).
  2:{ intros q Hq. apply via_cons. intros ->. contradiction. }
  rewrite <- IH by assumption.
  unfold via at 1. cbn [aget]. rewrite Z.eqb_refl. unfold g_meta.
  destruct (aget K_META r) as [[v0|m]|]; try reflexivity.
  destruct (meta_all k t) as [vs|e]; [|reflexivity].
  destruct (aget k m) as [v|]; [|reflexivity]. destruct (is_none v); reflexivity.
Qed.

Lemma out_all_collect : forall l, NoDup (map fst l) -> out_all l = a_collect (via g_out l) (map fst l).
Proof.
  induction l as [|[p r] t IH]; intros Hnd; cbn [out_all map fst a_collect]; [reflexivity|].
  inversion Hnd as [|? ? Hni Hnd']. subst.
  rewrite (a_collect_ext _ (via g_out ((p, r) :: t)) (via g_out t) (map fst t)).
  2:{ intros q Hq. apply via_cons. intros ->. contradiction. }
  rewrite <- IH by assumption.
  unfold via at 1. cbn [aget]. rewrite Z.eqb_refl. unfold g_out.
  destruct (aget K_OUT r) as [v|]; [|reflexivity].
  destruct (out_all t) as [vs|e]; [|reflexivity]. destruct (f_is_none v); reflexivity.
Qed.

Lemma load_jobs_spec : forall c js, wf c ->
  match load_jobs c js with
  | Ok l => forallb (a_jex (abs c)) js = true /\ map fst l = js /\ Forall (fun jr => rec_of (abs c) (fst jr) (snd jr)) l
  | Er e => e = EKey /\ forallb (a_jex (abs c)) js = false
  end.
Proof.
  intros c js Hwf. induction js as [|j t IH]; cbn [load_jobs forallb].
  - repeat split. constructor.
  - destruct (get_job c j) as [r|] eqn:Ej.
    + rewrite (jex_some c j r Hwf Ej). cbn [andb]. destruct (load_jobs c t) as [l|e].
      * destruct IH as [H1 [H2 H3]]. split; [assumption|]. split; [cbn [map fst]; congruence|].
        constructor; [cbn [fst snd]; apply rec_of_get; assumption | assumption].
      * assumption.
    + rewrite (jex_none c j Hwf Ej). cbn [andb]. split; reflexivity.
Qed.

Theorem step_refines_out : forall c o, wf c -> out_ok (abs c) o (snd (step c o)).
Proof.
  intros c o Hwf. destruct o; cbn [step out_ok].
  - (* CreateSearch *) reflexivity.
  - (* CreateJob *) destruct (get_search c s) as [sr|] eqn:Es.
    + rewrite (sex_some c s sr Hwf Es). cbn [snd abs a_nj]. rewrite Es. reflexivity.
    + rewrite (sex_none c s Hwf Es). reflexivity.
  - apply out_ok_upd_job; [assumption | intros r; eexists; reflexivity].
  - apply out_ok_upd_job; [assumption | intros r; eexists; reflexivity].
  - apply out_ok_upd_job; [assumption | intros r; eexists; reflexivity].
  - apply out_ok_upd_job; [assumption | intros r; eexists; reflexivity].
  - (* StoreMeta *) pose proof (upd_job_cases c j (meta_set k v)) as H.
    destruct (get_job c j) as [r|] eqn:Ej.
    + rewrite (jex_some c j r Hwf Ej). rewrite abs_cell_job, Ej.
      destruct (aget K_META r) as [[v0|m]|] eqn:Em.
      * assert (Hm : meta_set k v r = Er EType) by (unfold meta_set; rewrite Em; reflexivity).
        rewrite Hm in H. rewrite H. reflexivity.
      * assert (Hm : meta_set k v r = Ok (aset K_META (FM (aset k v m)) r)) by (unfold meta_set; rewrite Em; reflexivity).
        rewrite Hm in H. destruct H as [sr [_ [_ H]]]. rewrite H. reflexivity.
      * assert (Hm : meta_set k v r = Er EKey) by (unfold meta_set; rewrite Em; reflexivity).
        rewrite Hm in H. rewrite H. reflexivity.
    + rewrite (jex_none c j Hwf Ej). rewrite H. reflexivity.
  - (* StoreSearchValue *) destruct (get_search c s) as [sr|] eqn:Es.
    + rewrite (sex_some c s sr Hwf Es). reflexivity.
    + rewrite (sex_none c s Hwf Es). reflexivity.
  - (* LoadAllSearchIds *) cbn [snd abs a_ns]. destruct Hwf as [Hk _]. rewrite Hk. reflexivity.
  - (* LoadAllJobIds *) destruct (get_search c s) as [sr|] eqn:Es.
    + rewrite (sex_some c s sr Hwf Es). cbn [snd abs a_nj]. rewrite Es.
      destruct Hwf as [_ Hj]. rewrite <- (Hj s sr Es). rewrite map_map. reflexivity.
    + rewrite (sex_none c s Hwf Es). reflexivity.
  - (* LoadSearch *) destruct (get_search c s) as [sr|] eqn:Es.
    + rewrite (sex_some c s sr Hwf Es). exists (jobs sr). split; [reflexivity|]. split.
      * cbn [abs a_nj]. rewrite Es. destruct Hwf as [_ Hj]. apply (Hj s sr Es).
      * intros p r Hp. apply rec_of_get. unfold get_job. cbn [fst snd]. rewrite Es. assumption.
    + rewrite (sex_none c s Hwf Es). reflexivity.
  - (* LoadJob *) destruct (get_job c j) as [r|] eqn:Ej.
    + rewrite (jex_some c j r Hwf Ej). exists r. split; [reflexivity | apply rec_of_get; assumption].
    + rewrite (jex_none c j Hwf Ej). reflexivity.
  - (* LoadSearchValue *) destruct (get_search c s) as [sr|] eqn:Es.
    + rewrite (sex_some c s sr Hwf Es). cbn [abs a_sval]. rewrite Es.
      destruct (aget k (svals sr)); reflexivity.
    + rewrite (sex_none c s Hwf Es). reflexivity.
  - (* LoadMetaAll *) destruct (get_search c s) as [sr|] eqn:Es.
    + rewrite (sex_some c s sr Hwf Es).
      assert (Hkeys : map fst (jobs sr) = zseq (jcount sr)) by (destruct Hwf as [_ Hj]; apply (Hj s sr Es)).
      assert (Hn : a_nj (abs c) s = jcount sr) by (cbn [abs a_nj]; rewrite Es; reflexivity).
      rewrite Hn, <- Hkeys.
      rewrite (a_collect_ext _ (a_meta_of (abs c) s k) (via (g_meta k) (jobs sr)) (map fst (jobs sr))).
      2:{ intros p _. unfold a_meta_of, via, g_meta. cbn [abs a_cell]. unfold get_job. cbn [fst snd]. rewrite Es.
          destruct (aget p (jobs sr)); reflexivity. }
      rewrite <- meta_all_collect by (rewrite Hkeys; apply nodup_zseq).
      destruct (meta_all k (jobs sr)); reflexivity.
    + rewrite (sex_none c s Hwf Es). reflexivity.
  - (* LoadOutAll *) destruct (get_search c s) as [sr|] eqn:Es.
    + rewrite (sex_some c s sr Hwf Es).
      assert (Hkeys : map fst (jobs sr) = zseq (jcount sr)) by (destruct Hwf as [_ Hj]; apply (Hj s sr Es)).
      assert (Hn : a_nj (abs c) s = jcount sr) by (cbn [abs a_nj]; rewrite Es; reflexivity).
      rewrite Hn, <- Hkeys.
      rewrite (a_collect_ext _ (a_out_of (abs c) s) (via g_out (jobs sr)) (map fst (jobs sr))).
      2:{ intros p _. unfold a_out_of, via, g_out. cbn [abs a_cell]. unfold get_job. cbn [fst snd]. rewrite Es.
          destruct (aget p (jobs sr)); reflexivity. }
      rewrite <- out_all_collect by (rewrite Hkeys; apply nodup_zseq).
      destruct (out_all (jobs sr)); reflexivity.
    + rewrite (sex_none c s Hwf Es). reflexivity.
  - (* LoadJobs *) pose proof (load_jobs_spec c js Hwf) as H. destruct (load_jobs c js) as [l|e].
    + destruct H as [H1 [H2 H3]]. rewrite H1. exists l. auto.
    + destruct H as [H1 H2]. rewrite H2. subst e. reflexivity.
  - (* LoadJobStatus *) destruct (get_job c j) as [r|] eqn:Ej.
    + rewrite (jex_some c j r Hwf Ej). rewrite abs_cell_job, Ej. destruct (aget K_STATUS r); reflexivity.
    + rewrite (jex_none c j Hwf Ej). reflexivity.
Qed.

(* ---------- histories ---------- *)
Lemma outs_cons : forall c o t, outs c (o :: t) = snd (step c o) :: outs (fst (step c o)) t.
Proof.
  intros. unfold outs. cbn [run]. destruct (step c o) as [c1 x]. cbn [fst snd]. destruct (run c1 t) as [c2 xs]. reflexivity.
Qed.

Lemma final_cons : forall c o t, final c (o :: t) = final (fst (step c o)) t.
Proof.
  intros. unfold final. cbn [run]. destruct (step c o) as [c1 x]. cbn [fst snd]. destruct (run c1 t) as [c2 xs]. reflexivity.
Qed.

Lemma final_app : forall a b c, final c (a ++ b) = final (final c a) b.
Proof.
  induction a as [|o t IH]; intros b c; cbn [app]; [reflexivity|].
  rewrite !final_cons. apply IH.
Qed.

Lemma outs_app : forall a b c, outs c (a ++ b) = outs c a ++ outs (final c a) b.
Proof.
  induction a as [|o t IH]; intros b c; cbn [app]; [reflexivity|].
  rewrite !outs_cons, final_cons, IH. reflexivity.
Qed.

Lemma outs_length : forall ops c, length (outs c ops) = length ops.
Proof. induction ops as [|o t IH]; intros c; [reflexivity|]. rewrite outs_cons. cbn [length]. rewrite IH. reflexivity. Qed.

(* ---------- frame: an operation changes only the location it names ---------- *)
Definition target (o : op) : option (jid * Z) :=
  match o with
  | StoreJob j k _ => Some (j, k)
  | StoreJobIn j _ _ => Some (j, K_IN)
  | StoreJobOut j _ => Some (j, K_OUT)
  | StoreJobStatus j _ => Some (j, K_STATUS)
  | StoreMeta j _ _ => Some (j, K_META)
  | _ => None
  end.

Lemma upd3_other : forall f s p k v s' p' k', (s', p', k') <> (s, p, k) -> upd3 f s p k v s' p' k' = f s' p' k'.
Proof.
  intros. unfold upd3. destruct ((s' =? s) && (p' =? p) && (k' =? k)) eqn:E; [|reflexivity].
  apply andb_true_iff in E. destruct E as [E E3]. apply andb_true_iff in E. destruct E as [E1 E2].
  apply Z.eqb_eq in E1. apply Z.eqb_eq in E2. apply Z.eqb_eq in E3. subst. contradiction.
Qed.

Lemma upd3_same : forall f s p k v, upd3 f s p k v s p k = v.
Proof. intros. unfold upd3. rewrite !Z.eqb_refl. reflexivity. Qed.

Lemma a_store_other : forall a j k v s' p' k', (s', p', k') <> (fst j, snd j, k) ->
  a_cell (a_store a j k v) s' p' k' = a_cell a s' p' k'.
Proof.
  intros. unfold a_store. destruct (a_jex a j); [|reflexivity]. cbn [a_cell]. apply upd3_other. assumption.
Qed.

Lemma anext_frame : forall a o j k, a_jex a j = true -> target o <> Some (j, k) ->
  a_cell (anext o a) (fst j) (snd j) k = a_cell a (fst j) (snd j) k.
Proof.
  intros a o j k Hex Ht.
  assert (Hne : forall j' k', Some (j', k') <> Some (j, k) -> (fst j, snd j, k) <> (fst j', snd j', k')).
  { intros j' k' H1 H2. apply H1. inversion H2. destruct j, j'. cbn [fst snd] in *. subst. reflexivity. }
  destruct o; cbn [anext target] in *; try reflexivity.
  - (* CreateJob *) destruct (a_sex a s); [|reflexivity]. cbn [a_cell].
    destruct ((fst j =? s) && (snd j =? Z.of_nat (a_nj a s))) eqn:E; [|reflexivity].
    apply andb_true_iff in E. destruct E as [E1 E2]. apply Z.eqb_eq in E1. apply Z.eqb_eq in E2.
    unfold a_jex in Hex. apply andb_true_iff in Hex. destruct Hex as [_ Hex]. apply in_range_spec in Hex.
    rewrite E1 in Hex. lia.
  - apply a_store_other. apply Hne. assumption.
  - apply a_store_other. apply Hne. assumption.
  - apply a_store_other. apply Hne. assumption.
  - apply a_store_other. apply Hne. assumption.
  - (* StoreMeta *) destruct (a_jex a j0); [|reflexivity].
    destruct (a_cell a (fst j0) (snd j0) K_META) as [[v0|m]|]; try reflexivity.
    cbn [a_cell]. apply upd3_other. apply Hne. assumption.
  - (* StoreSearchValue *) destruct (a_sex a s); reflexivity.
Qed.

Theorem step_frame : forall c o j k, wf c -> a_jex (abs c) j = true -> target o <> Some (j, k) ->
  a_cell (abs (fst (step c o))) (fst j) (snd j) k = a_cell (abs c) (fst j) (snd j) k.
Proof.
  intros c o j k Hwf Hex Ht. destruct (step_refines_state c o Hwf) as [_ [_ [Hc _]]].
  rewrite Hc. apply anext_frame; assumption.
Qed.

(* search values: only store_search_value (s, k) changes the value of (s, k), and it changes nothing else *)
Theorem step_frame_sval : forall c o s k, wf c -> (forall v, o <> StoreSearchValue s k v) ->
  a_sval (abs (fst (step c o))) s k = a_sval (abs c) s k.
Proof.
  intros c o s k Hwf Ht. destruct (step_refines_state c o Hwf) as [_ [_ [_ Hs]]]. rewrite Hs.
  destruct o; cbn [anext]; try reflexivity.
  - destruct (a_sex (abs c) s0); reflexivity.
  - unfold a_store. destruct (a_jex (abs c) j); reflexivity.
  - unfold a_store. destruct (a_jex (abs c) j); reflexivity.
  - unfold a_store. destruct (a_jex (abs c) j); reflexivity.
  - unfold a_store. destruct (a_jex (abs c) j); reflexivity.
  - destruct (a_jex (abs c) j); [|reflexivity]. destruct (a_cell (abs c) (fst j) (snd j) K_META) as [[?|?]|]; reflexivity.
  - destruct (a_sex (abs c) s0); [|reflexivity]. cbn [a_sval]. unfold upd2.
    destruct ((s =? s0) && (k =? k0)) eqn:E; [|reflexivity].
    apply andb_true_iff in E. destruct E as [E1 E2]. apply Z.eqb_eq in E1. apply Z.eqb_eq in E2. subst.
    exfalso. eapply Ht. reflexivity.
Qed.

(* a successful store is read back *)
Theorem store_then_cell : forall c o j k v, wf c -> snd (step c o) = ONone ->
  (o = StoreJob j k v \/ (o = StoreJobOut j v /\ k = K_OUT) \/ (o = StoreJobStatus j v /\ k = K_STATUS)
   \/ (exists a kw, o = StoreJobIn j a kw /\ k = K_IN /\ v = in_value a kw)) ->
  a_cell (abs (fst (step c o))) (fst j) (snd j) k = Some v.
Proof.
  intros c o j k v Hwf Hout Ho.
  destruct (step_refines_state c o Hwf) as [_ [_ [Hc _]]]. rewrite Hc.
  pose proof (step_refines_out c o Hwf) as Hok. rewrite Hout in Hok.
  assert (Hst : a_jex (abs c) j = true -> a_cell (a_store (abs c) j k v) (fst j) (snd j) k = Some v).
  { intros He. unfold a_store. rewrite He. cbn [a_cell]. apply upd3_same. }
  destruct Ho as [-> | [[-> ->] | [[-> ->] | [a [kw [-> [-> ->]]]]]]]; cbn [out_ok anext] in *;
    (destruct (a_jex (abs c) j) eqn:He; [apply Hst; reflexivity | discriminate Hok]).
Qed.

Theorem store_meta_then_cell : forall c j k v, wf c -> snd (step c (StoreMeta j k v)) = ONone ->
  exists m, a_cell (abs c) (fst j) (snd j) K_META = Some (FM m)
            /\ a_cell (abs (fst (step c (StoreMeta j k v)))) (fst j) (snd j) K_META = Some (FM (aset k v m)).
Proof.
  intros c j k v Hwf Hout.
  destruct (step_refines_state c (StoreMeta j k v) Hwf) as [_ [_ [Hc _]]]. rewrite Hc.
  pose proof (step_refines_out c (StoreMeta j k v) Hwf) as Hok. rewrite Hout in Hok. cbn [out_ok anext] in *.
  destruct (a_jex (abs c) j); [|discriminate Hok].
  destruct (a_cell (abs c) (fst j) (snd j) K_META) as [[v0|m]|]; try discriminate Hok.
  exists m. split; [reflexivity|]. cbn [a_cell]. apply upd3_same.
Qed.

Theorem store_sv_then : forall c s k v, wf c -> snd (step c (StoreSearchValue s k v)) = ONone ->
  a_sval (abs (fst (step c (StoreSearchValue s k v)))) s k = Some v.
Proof.
  intros c s k v Hwf Hout.
  destruct (step_refines_state c (StoreSearchValue s k v) Hwf) as [_ [_ [_ Hs]]]. rewrite Hs.
  pose proof (step_refines_out c (StoreSearchValue s k v) Hwf) as Hok. rewrite Hout in Hok. cbn [out_ok anext] in *.
  destruct (a_sex (abs c) s); [|discriminate Hok]. cbn [a_sval]. unfold upd2. rewrite !Z.eqb_refl. reflexivity.
Qed.

(* ---------- ids only grow; a created id is new ---------- *)
Lemma anext_mono : forall o a, (a_ns a <= a_ns (anext o a))%nat /\ forall s, (a_nj a s <= a_nj (anext o a) s)%nat.
Proof.
  intros o a. destruct o; cbn [anext]; try (split; [|intros]; lia).
  - cbn [a_ns a_nj]. split; [|intros]; lia.
  - destruct (a_sex a s); cbn [a_ns a_nj]; split; try lia; intros s'; try lia. destruct (s' =? s) eqn:E; [|lia].
    apply Z.eqb_eq in E. subst. lia.
  - unfold a_store. destruct (a_jex a j); cbn [a_ns a_nj]; split; intros; lia.
  - unfold a_store. destruct (a_jex a j); cbn [a_ns a_nj]; split; intros; lia.
  - unfold a_store. destruct (a_jex a j); cbn [a_ns a_nj]; split; intros; lia.
  - unfold a_store. destruct (a_jex a j); cbn [a_ns a_nj]; split; intros; lia.
  - destruct (a_jex a j); [|split; intros; lia].
    destruct (a_cell a (fst j) (snd j) K_META) as [[?|?]|]; cbn [a_ns a_nj]; split; intros; lia.
  - destruct (a_sex a s); cbn [a_ns a_nj]; split; intros; lia.
Qed.

Lemma step_mono : forall c o, wf c ->
  (a_ns (abs c) <= a_ns (abs (fst (step c o))))%nat /\ forall s, (a_nj (abs c) s <= a_nj (abs (fst (step c o))) s)%nat.
Proof.
  intros c o Hwf. destruct (step_refines_state c o Hwf) as [H1 [H2 _]].
  destruct (anext_mono o (abs c)) as [M1 M2]. split; [lia|]. intros s. rewrite H2. apply M2.
Qed.

Lemma in_range_mono : forall z n m, (n <= m)%nat -> in_range z n = true -> in_range z m = true.
Proof. intros z n m H H1. apply in_range_spec in H1. apply in_range_spec. lia. Qed.

Lemma sex_mono : forall c o s, wf c -> a_sex (abs c) s = true -> a_sex (abs (fst (step c o))) s = true.
Proof.
  intros c o s Hwf H. destruct (step_mono c o Hwf) as [M1 _]. unfold a_sex in *. eapply in_range_mono; eassumption.
Qed.

Lemma jex_mono : forall c o j, wf c -> a_jex (abs c) j = true -> a_jex (abs (fst (step c o))) j = true.
Proof.
  intros c o j Hwf H. destruct (step_mono c o Hwf) as [M1 M2]. unfold a_jex, a_sex in *.
  apply andb_true_iff in H. destruct H as [H1 H2]. apply andb_true_iff. split.
  - eapply in_range_mono; eassumption.
  - eapply in_range_mono; [apply M2 | assumption].
Qed.

Ltac destr_in H :=
  repeat match type of H with
         | context [match ?x with _ => _ end] => destruct x eqn:?
         end.

Lemma step_ojid : forall c o j, snd (step c o) = OJid j -> o = CreateJob (fst j) /\
  exists sr, get_search c (fst j) = Some sr /\ snd j = Z.of_nat (jcount sr).
Proof.
  intros c o j H. destruct o; cbn [step] in H; unfold store_job, upd_job in H; destr_in H; cbn [snd] in H; try discriminate H.
  inversion H. subst. cbn [fst snd]. split; [reflexivity|]. eexists. split; [eassumption | reflexivity].
Qed.

Lemma step_osid : forall c o s, snd (step c o) = OSid s -> o = CreateSearch /\ s = Z.of_nat (scount c).
Proof.
  intros c o s H. destruct o; cbn [step] in H; unfold store_job, upd_job in H; destr_in H; cbn [snd] in H; try discriminate H.
  inversion H. auto.
Qed.

Lemma created_job_new : forall c o j, wf c -> snd (step c o) = OJid j ->
  a_jex (abs c) j = false /\ a_jex (abs (fst (step c o))) j = true.
Proof.
  intros c o j Hwf H. destruct (step_ojid c o j H) as [-> [sr [Hs Hp]]].
  assert (Hwf' : wf (fst (step c (CreateJob (fst j))))) by (apply wf_step; assumption).
  split.
  - apply jex_none; [assumption|]. unfold get_job. rewrite Hs, Hp. apply (get_job_fresh c (fst j) sr Hwf Hs).
  - cbn [step]. rewrite Hs. cbn [fst]. cbn [step] in Hwf'. rewrite Hs in Hwf'. cbn [fst] in Hwf'.
    eapply jex_some; [assumption|]. rewrite get_job_put. rewrite Z.eqb_refl. cbn [jobs]. rewrite Hp. apply aget_aset_same.
Qed.

Lemma created_search_new : forall c o s, wf c -> snd (step c o) = OSid s ->
  a_sex (abs c) s = false /\ a_sex (abs (fst (step c o))) s = true.
Proof.
  intros c o s Hwf H. destruct (step_osid c o s H) as [-> ->]. unfold a_sex. cbn [step fst abs a_ns scount]. split.
  - destruct (in_range (Z.of_nat (scount c)) (scount c)) eqn:E; [|reflexivity]. apply in_range_spec in E. lia.
  - apply in_range_spec. lia.
Qed.

Lemma jids_of_cons : forall x xs, jids_of (x :: xs) = (match x with OJid j => [j] | _ => [] end) ++ jids_of xs.
Proof. reflexivity. Qed.
Lemma sids_of_cons : forall x xs, sids_of (x :: xs) = (match x with OSid s => [s] | _ => [] end) ++ sids_of xs.
Proof. reflexivity. Qed.

Theorem fresh_jids : forall ops c, wf c ->
  NoDup (jids_of (outs c ops)) /\ forall j, In j (jids_of (outs c ops)) -> a_jex (abs c) j = false.
Proof.
  induction ops as [|o t IH]; intros c Hwf.
  - split; [constructor | intros j []].
  - rewrite outs_cons, jids_of_cons.
    assert (Hwf1 : wf (fst (step c o))) by (apply wf_step; assumption).
    destruct (IH _ Hwf1) as [Hnd Hnew].
    assert (Hold : forall j, In j (jids_of (outs (fst (step c o)) t)) -> a_jex (abs c) j = false).
    { intros j Hin. destruct (a_jex (abs c) j) eqn:E; [|reflexivity].
      apply (jex_mono c o j Hwf) in E. rewrite (Hnew j Hin) in E. discriminate E. }
    destruct (snd (step c o)) eqn:Ex; cbn [app]; try (split; assumption).
    destruct (created_job_new c o j Hwf Ex) as [N1 N2]. split.
    + constructor; [|assumption]. intros Hin. rewrite (Hnew j Hin) in N2. discriminate N2.
    + intros j' [<-|Hin]; [assumption | apply Hold; assumption].
Qed.

Theorem fresh_sids : forall ops c, wf c ->
  NoDup (sids_of (outs c ops)) /\ forall s, In s (sids_of (outs c ops)) -> a_sex (abs c) s = false.
Proof.
  induction ops as [|o t IH]; intros c Hwf.
  - split; [constructor | intros j []].
  - rewrite outs_cons, sids_of_cons.
    assert (Hwf1 : wf (fst (step c o))) by (apply wf_step; assumption).
    destruct (IH _ Hwf1) as [Hnd Hnew].
    assert (Hold : forall s, In s (sids_of (outs (fst (step c o)) t)) -> a_sex (abs c) s = false).
    { intros s Hin. destruct (a_sex (abs c) s) eqn:E; [|reflexivity].
      apply (sex_mono c o s Hwf) in E. rewrite (Hnew s Hin) in E. discriminate E. }
    destruct (snd (step c o)) eqn:Ex; cbn [app]; try (split; assumption).
    destruct (created_search_new c o s Hwf Ex) as [N1 N2]. split.
    + constructor; [|assumption]. intros Hin. rewrite (Hnew s Hin) in N2. discriminate N2.
    + intros s' [<-|Hin]; [assumption | apply Hold; assumption].
Qed.

(* ---------- the set of jobs at the end = what existed before + what was created ---------- *)
Lemma anext_counts : forall o a, o <> CreateSearch -> (forall s, o <> CreateJob s) ->
  a_ns (anext o a) = a_ns a /\ forall s, a_nj (anext o a) s = a_nj a s.
Proof.
  intros o a H1 H2. destruct o; cbn [anext]; try (split; reflexivity).
  - contradiction.
  - exfalso. eapply H2. reflexivity.
  - unfold a_store. destruct (a_jex a j); split; reflexivity.
  - unfold a_store. destruct (a_jex a j); split; reflexivity.
  - unfold a_store. destruct (a_jex a j); split; reflexivity.
  - unfold a_store. destruct (a_jex a j); split; reflexivity.
  - destruct (a_jex a j); [|split; reflexivity]. destruct (a_cell a (fst j) (snd j) K_META) as [[?|?]|]; split; reflexivity.
  - destruct (a_sex a s); split; reflexivity.
Qed.

Lemma jex_step_iff : forall c o j, wf c ->
  (a_jex (abs (fst (step c o))) j = true <-> a_jex (abs c) j = true \/ snd (step c o) = OJid j).
Proof.
  intros c o j Hwf. split.
  2:{ intros [H|H]; [apply jex_mono; assumption | apply (created_job_new c o j Hwf H)]. }
  intros H. destruct (step_refines_state c o Hwf) as [Hns [Hnj _]].
  pose proof (step_refines_out c o Hwf) as Hout.
  unfold a_jex, a_sex in *. rewrite Hns, Hnj in H.
  destruct o;
    try (match type of H with context [anext ?o0 _] =>
           destruct (anext_counts o0 (abs c)) as [E1 E2]; [discriminate | intros; discriminate |] end;
         rewrite E1, E2 in H; left; exact H).
  - (* CreateSearch *) cbn [anext a_ns a_nj] in H. left.
    apply andb_true_iff in H. destruct H as [H1 H2]. apply andb_true_iff. split; [|assumption].
    apply in_range_spec in H1. apply in_range_spec.
    assert (fst j <> Z.of_nat (a_ns (abs c))).
    { intros E. rewrite E in H2. cbn [abs a_ns a_nj] in H2. rewrite (get_search_fresh c Hwf) in H2.
      apply in_range_spec in H2. lia. }
    lia.
  - (* CreateJob *) cbn [anext out_ok] in H, Hout.
    destruct (a_sex (abs c) s) eqn:Es.
    + cbn [a_ns a_nj] in H. apply andb_true_iff in H. destruct H as [H1 H2].
      destruct (fst j =? s) eqn:E.
      * apply Z.eqb_eq in E. apply in_range_spec in H2.
        destruct (Z.eq_dec (snd j) (Z.of_nat (a_nj (abs c) s))) as [Ep|Ep].
        -- right. rewrite Hout. destruct j. cbn [fst snd] in *. subst. reflexivity.
        -- left. apply andb_true_iff. split; [assumption|]. apply in_range_spec. rewrite E. lia.
      * left. apply andb_true_iff. split; assumption.
    + left. exact H.
Qed.

Theorem final_jobs_union : forall ops c j, wf c ->
  (a_jex (abs (final c ops)) j = true <-> a_jex (abs c) j = true \/ In j (jids_of (outs c ops))).
Proof.
  induction ops as [|o t IH]; intros c j Hwf.
  - unfold final, outs. cbn [run fst snd jids_of flat_map In]. tauto.
  - rewrite final_cons, outs_cons, jids_of_cons. rewrite IH by (apply wf_step; assumption).
    rewrite jex_step_iff by assumption. rewrite in_app_iff.
    assert (Hx : snd (step c o) = OJid j <-> In j (match snd (step c o) with OJid j0 => [j0] | _ => [] end)).
    { destruct (snd (step c o)); cbn [In]; split; intros Hh; try discriminate Hh; try tauto.
      - inversion Hh. auto.
      - destruct Hh as [->|[]]. reflexivity. }
    tauto.
Qed.

(* ---------- the three micro steps of create_new_job, done without interruption, are the atomic step ---------- *)
Lemma aset_aset : forall A k (a b : A) m, aset k b (aset k a m) = aset k b m.
Proof.
  induction m as [|[k' v'] t IH]; cbn [aset].
  - rewrite Z.eqb_refl. reflexivity.
  - destruct (k =? k') eqn:E; cbn [aset]; rewrite ?Z.eqb_refl, ?E; [reflexivity | rewrite IH; reflexivity].
Qed.

Lemma micro_atomic : forall c s sr, get_search c s = Some sr ->
  let r1 := mstep s c None MRead in
  let r2 := mstep s (fst (fst r1)) (snd (fst r1)) MWrite in
  let r3 := mstep s (fst (fst r2)) (snd (fst r2)) MInit in
  fst (fst r3) = fst (step c (CreateJob s)) /\ option_map OJid (snd r3) = Some (snd (step c (CreateJob s))).
Proof.
  intros c s sr Hs.
  assert (E1 : mstep s c None MRead = (c, Some (jcount sr), None)) by (unfold mstep; rewrite Hs; reflexivity).
  assert (E2 : mstep s c (Some (jcount sr)) MWrite
               = (put_search c s (mkSearch (S (jcount sr)) (jobs sr) (svals sr)), Some (jcount sr), None))
    by (unfold mstep; rewrite Hs; reflexivity).
  cbv zeta. rewrite E1. cbn [fst snd]. rewrite E2. cbn [fst snd].
  unfold mstep. rewrite get_search_put, Z.eqb_refl. cbn [step]. rewrite Hs. cbn [fst snd jcount jobs svals option_map].
  split; [|reflexivity]. unfold put_search. cbn [scount searches]. rewrite aset_aset. reflexivity.
Qed.
