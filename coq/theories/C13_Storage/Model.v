(* C13 - Storage keeps what it was given.   Executable model; NO proofs here (Lemmas*.v).

   Describes deephyper.evaluator.storage._memory_storage.MemoryStorage (SharedMemoryStorage is the same class
   behind a multiprocessing BaseManager proxy: every method call is one atomic operation on this machine).

   [step]        the REPAIRED code (fix F25: store_search_value/load_search_value keep the user's search
                 values in their own dictionary `"values"` of the search record).
   [step_prefix] the code as pinned (snapshot 3919200): user search values share the dictionary that holds the
                 internal "job_id_counter" / "data" entries - see C13_search_value_prefix_refuted.

   Python objects:
     ids          search id "n" = the integer n; job id "s.p" = the pair (s, p)
     keys         integer tokens assigned by the harness (K_* below are fixed; every other token is a user key)
     values       val  = opaque, canonical, flat serialisation of a python value chosen by the harness (list Z)
                  fval = what sits in a slot of a dictionary the storage itself addresses:
                         FV v  : a python object that is not a dict
                         FM m  : a python dict  key -> object  (so that  store_job_metadata  can address it)
   Dictionaries are association lists in python's insertion order ([aset] replaces in place or appends). *)
From Coq Require Import List ZArith Bool Arith.
Import ListNotations.
Open Scope Z_scope.

(* ---------- association lists ---------- *)
Definition amap (A : Type) := list (Z * A).

Fixpoint aget {A} (k : Z) (m : amap A) : option A :=
  match m with
  | [] => None
  | (k', v) :: t => if k =? k' then Some v else aget k t
  end.

Fixpoint aset {A} (k : Z) (v : A) (m : amap A) : amap A :=
  match m with
  | [] => [(k, v)]
  | (k', v') :: t => if k =? k' then (k, v) :: t else (k', v') :: aset k v t
  end.

Definition amem {A} (k : Z) (m : amap A) : bool :=
  match aget k m with Some _ => true | None => false end.

(* ---------- values ---------- *)
Definition val := list Z.
Inductive fval := FV (v : val) | FM (m : amap val).

(* fixed part of the harness' serialisation: None, the integer 0, the empty list *)
Definition v_none : val := [0].
Definition v_int0 : val := [1; 0].
Definition v_nil : val := [3; 0].

Fixpoint val_eqb (a b : val) : bool :=
  match a, b with
  | [], [] => true
  | x :: a', y :: b' => (x =? y) && val_eqb a' b'
  | _, _ => false
  end.

Definition is_none (v : val) : bool := val_eqb v v_none.
Definition f_is_none (f : fval) : bool := match f with FV v => is_none v | FM _ => false end.

(* fixed key tokens *)
Definition K_STATUS := 0.
Definition K_IN := 1.
Definition K_OUT := 2.
Definition K_META := 3.
Definition K_INTER := 4.
Definition K_ARGS := 5.
Definition K_KWARGS := 6.
Definition K_BUDGET := 7.
Definition K_OBJECTIVE := 8.
Definition K_COUNTER := 9.   (* "job_id_counter" : only special in step_prefix *)
Definition K_DATA := 10.     (* "data"           : only special in step_prefix *)

(* ---------- state ---------- *)
Definition jrec := amap fval.
Definition jid := (Z * Z)%type.

Definition init_rec : jrec :=
  [ (K_STATUS, FV v_int0); (K_IN, FV v_none); (K_OUT, FV v_none); (K_META, FM []);
    (K_INTER, FM [(K_BUDGET, v_nil); (K_OBJECTIVE, v_nil)]) ].

Record search := mkSearch { jcount : nat; jobs : amap jrec; svals : amap fval }.
Record state := mkState { scount : nat; searches : amap search }.

Definition init : state := mkState 0 [].

(* ---------- operations and outputs ---------- *)
Inductive op :=
| CreateSearch
| CreateJob (s : Z)
| StoreJob (j : jid) (k : Z) (v : fval)
| StoreJobIn (j : jid) (args kwargs : val)
| StoreJobOut (j : jid) (v : fval)
| StoreJobStatus (j : jid) (v : fval)
| StoreMeta (j : jid) (k : Z) (v : val)
| StoreSearchValue (s : Z) (k : Z) (v : fval)
| LoadAllSearchIds
| LoadAllJobIds (s : Z)
| LoadSearch (s : Z)
| LoadJob (j : jid)
| LoadSearchValue (s : Z) (k : Z)
| LoadMetaAll (s : Z) (k : Z)
| LoadOutAll (s : Z)
| LoadJobs (js : list jid)
| LoadJobStatus (j : jid).

Inductive err := EKey | EType | EAttr | EUnmodelled.

Inductive out :=
| ONone                                  (* the method returned None *)
| OSid (s : Z)
| OJid (j : jid)
| OSids (l : list Z)
| OJids (l : list jid)
| OFval (v : fval)
| OVals (l : list val)
| OFvals (l : list fval)
| ORec (r : jrec)
| ORecs (l : amap jrec)                  (* load_search : partial id -> record *)
| OJobs (l : list (jid * jrec))          (* load_jobs   : job id -> record, in request order *)
| OErr (e : err).

Inductive res (A : Type) := Ok (a : A) | Er (e : err).
Arguments Ok {A} a.
Arguments Er {A} e.

(* ---------- helpers ---------- *)
Definition get_search (c : state) (s : Z) : option search := aget s (searches c).

Definition get_job (c : state) (j : jid) : option jrec :=
  match get_search c (fst j) with
  | Some sr => aget (snd j) (jobs sr)
  | None => None
  end.

Definition put_search (c : state) (s : Z) (sr : search) : state :=
  mkState (scount c) (aset s sr (searches c)).

(* self._data[s]["data"][p] <- f(record) ; KeyError when the search or the job does not exist *)
Definition upd_job (c : state) (j : jid) (f : jrec -> res jrec) : state * out :=
  match get_search c (fst j) with
  | None => (c, OErr EKey)
  | Some sr =>
    match aget (snd j) (jobs sr) with
    | None => (c, OErr EKey)
    | Some r =>
      match f r with
      | Er e => (c, OErr e)
      | Ok r' => (put_search c (fst j) (mkSearch (jcount sr) (aset (snd j) r' (jobs sr)) (svals sr)), ONone)
      end
    end
  end.

Definition store_job (c : state) (j : jid) (k : Z) (v : fval) : state * out :=
  upd_job c j (fun r => Ok (aset k v r)).

(* record["metadata"][k] = v *)
Definition meta_set (k : Z) (v : val) (r : jrec) : res jrec :=
  match aget K_META r with
  | None => Er EKey
  | Some (FM m) => Ok (aset K_META (FM (aset k v m)) r)
  | Some (FV _) => Er EType          (* 'int'/'NoneType'/'str'/'list' object does not support (str) item assignment *)
  end.

Definition in_value (args kwargs : val) : fval := FM [(K_ARGS, args); (K_KWARGS, kwargs)].

(* for job_data_i in data.values(): job_data_i["metadata"].get(key, None), None skipped *)
Fixpoint meta_all (k : Z) (l : amap jrec) : res (list val) :=
  match l with
  | [] => Ok []
  | (_, r) :: t =>
    match aget K_META r with
    | None => Er EKey
    | Some (FV _) => Er EAttr        (* no attribute 'get' *)
    | Some (FM m) =>
      match meta_all k t with
      | Er e => Er e
      | Ok vs =>
        match aget k m with
        | Some v => if is_none v then Ok vs else Ok (v :: vs)
        | None => Ok vs
        end
      end
    end
  end.

Fixpoint out_all (l : amap jrec) : res (list fval) :=
  match l with
  | [] => Ok []
  | (_, r) :: t =>
    match aget K_OUT r with
    | None => Er EKey
    | Some v =>
      match out_all t with
      | Er e => Er e
      | Ok vs => if f_is_none v then Ok vs else Ok (v :: vs)
      end
    end
  end.

Fixpoint load_jobs (c : state) (js : list jid) : res (list (jid * jrec)) :=
  match js with
  | [] => Ok []
  | j :: t =>
    match get_job c j with
    | None => Er EKey
    | Some r =>
      match load_jobs c t with
      | Er e => Er e
      | Ok l => Ok ((j, r) :: l)
      end
    end
  end.

(* ---------- the machine (repaired code) ---------- *)
Definition step (c : state) (o : op) : state * out :=
  match o with
  | CreateSearch =>
    let s := Z.of_nat (scount c) in
    (mkState (S (scount c)) (aset s (mkSearch 0 [] []) (searches c)), OSid s)
  | CreateJob s =>
    match get_search c s with
    | None => (c, OErr EKey)
    | Some sr =>
      let p := Z.of_nat (jcount sr) in
      (put_search c s (mkSearch (S (jcount sr)) (aset p init_rec (jobs sr)) (svals sr)), OJid (s, p))
    end
  | StoreJob j k v => store_job c j k v
  | StoreJobIn j a kw => store_job c j K_IN (in_value a kw)
  | StoreJobOut j v => store_job c j K_OUT v
  | StoreJobStatus j v => store_job c j K_STATUS v
  | StoreMeta j k v => upd_job c j (meta_set k v)
  | StoreSearchValue s k v =>
    match get_search c s with
    | None => (c, OErr EKey)
    | Some sr => (put_search c s (mkSearch (jcount sr) (jobs sr) (aset k v (svals sr))), ONone)
    end
  | LoadAllSearchIds => (c, OSids (map fst (searches c)))
  | LoadAllJobIds s =>
    match get_search c s with
    | None => (c, OErr EKey)
    | Some sr => (c, OJids (map (fun x => (s, fst x)) (jobs sr)))
    end
  | LoadSearch s =>
    match get_search c s with
    | None => (c, OErr EKey)
    | Some sr => (c, ORecs (jobs sr))
    end
  | LoadJob j =>
    match get_job c j with
    | None => (c, OErr EKey)
    | Some r => (c, ORec r)
    end
  | LoadSearchValue s k =>
    match get_search c s with
    | None => (c, OErr EKey)
    | Some sr => match aget k (svals sr) with Some v => (c, OFval v) | None => (c, OErr EKey) end
    end
  | LoadMetaAll s k =>
    match get_search c s with
    | None => (c, OErr EKey)
    | Some sr => match meta_all k (jobs sr) with Ok vs => (c, OVals vs) | Er e => (c, OErr e) end
    end
  | LoadOutAll s =>
    match get_search c s with
    | None => (c, OErr EKey)
    | Some sr => match out_all (jobs sr) with Ok vs => (c, OFvals vs) | Er e => (c, OErr e) end
    end
  | LoadJobs js =>
    match load_jobs c js with Ok l => (c, OJobs l) | Er e => (c, OErr e) end
  | LoadJobStatus j =>
    match get_job c j with
    | None => (c, OErr EKey)
    | Some r => match aget K_STATUS r with Some v => (c, OFval v) | None => (c, OErr EKey) end
    end
  end.

(* run a history, collecting the outputs *)
Fixpoint run (c : state) (ops : list op) : state * list out :=
  match ops with
  | [] => (c, [])
  | o :: t => let (c1, x) := step c o in let (c2, xs) := run c1 t in (c2, x :: xs)
  end.

Definition final (c : state) (ops : list op) : state := fst (run c ops).
Definition outs (c : state) (ops : list op) : list out := snd (run c ops).

(* ids handed out in a list of outputs *)
Definition sids_of (l : list out) : list Z :=
  flat_map (fun o => match o with OSid s => [s] | _ => [] end) l.
Definition jids_of (l : list out) : list jid :=
  flat_map (fun o => match o with OJid j => [j] | _ => [] end) l.

(* ---------- the pinned code: user search values live next to "job_id_counter" and "data" ---------- *)
(* Modelled on the part of the domain that the refutation needs: the key "job_id_counter" with an integer >= 0
   (serialised [1; n]); every other use of the two internal keys answers EUnmodelled. *)
Definition step_prefix (c : state) (o : op) : state * out :=
  match o with
  | StoreSearchValue s k v =>
    if k =? K_COUNTER then
      match get_search c s with
      | None => (c, OErr EKey)
      | Some sr =>
        match v with
        | FV [1; n] => if 0 <=? n then (put_search c s (mkSearch (Z.to_nat n) (jobs sr) (svals sr)), ONone)
                       else (c, OErr EUnmodelled)
        | _ => (c, OErr EUnmodelled)
        end
      end
    else if k =? K_DATA then (c, OErr EUnmodelled)
    else step c o
  | LoadSearchValue s k =>
    if k =? K_COUNTER then
      match get_search c s with
      | None => (c, OErr EKey)
      | Some sr => (c, OFval (FV [1; Z.of_nat (jcount sr)]))
      end
    else if k =? K_DATA then (c, OErr EUnmodelled)
    else step c o
  | _ => step c o
  end.

Fixpoint run_prefix (c : state) (ops : list op) : state * list out :=
  match ops with
  | [] => (c, [])
  | o :: t => let (c1, x) := step_prefix c o in let (c2, xs) := run_prefix c1 t in (c2, x :: xs)
  end.

(* ---------- abstract specification: a simple map  search -> job -> key -> value ---------- *)
Record astate := mkA {
  a_ns : nat;                               (* searches 0 .. a_ns-1 exist *)
  a_nj : Z -> nat;                          (* jobs 0 .. a_nj s - 1 of search s exist *)
  a_cell : Z -> Z -> Z -> option fval;      (* search, job, key *)
  a_sval : Z -> Z -> option fval }.         (* search, key *)

Definition abs (c : state) : astate :=
  mkA (scount c)
      (fun s => match get_search c s with Some sr => jcount sr | None => O end)
      (fun s p k => match get_job c (s, p) with Some r => aget k r | None => None end)
      (fun s k => match get_search c s with Some sr => aget k (svals sr) | None => None end).

Definition in_range (z : Z) (n : nat) : bool := (0 <=? z) && (z <? Z.of_nat n).
Definition a_sex (a : astate) (s : Z) : bool := in_range s (a_ns a).
Definition a_jex (a : astate) (j : jid) : bool := a_sex a (fst j) && in_range (snd j) (a_nj a (fst j)).

Definition upd3 (f : Z -> Z -> Z -> option fval) (s p k : Z) (v : option fval) : Z -> Z -> Z -> option fval :=
  fun s' p' k' => if (s' =? s) && (p' =? p) && (k' =? k) then v else f s' p' k'.
Definition upd2 (f : Z -> Z -> option fval) (s k : Z) (v : option fval) : Z -> Z -> option fval :=
  fun s' k' => if (s' =? s) && (k' =? k) then v else f s' k'.

Definition a_store (a : astate) (j : jid) (k : Z) (v : fval) : astate :=
  if a_jex a j then mkA (a_ns a) (a_nj a) (upd3 (a_cell a) (fst j) (snd j) k (Some v)) (a_sval a) else a.

(* what an operation does to the abstract map: pointwise function update, nothing else *)
Definition anext (o : op) (a : astate) : astate :=
  match o with
  | CreateSearch => mkA (S (a_ns a)) (a_nj a) (a_cell a) (a_sval a)
  | CreateJob s =>
    if a_sex a s then
      let p := Z.of_nat (a_nj a s) in
      mkA (a_ns a) (fun s' => if s' =? s then S (a_nj a s) else a_nj a s')
          (fun s' p' k' => if (s' =? s) && (p' =? p) then aget k' init_rec else a_cell a s' p' k')
          (a_sval a)
    else a
  | StoreJob j k v => a_store a j k v
  | StoreJobIn j ar kw => a_store a j K_IN (in_value ar kw)
  | StoreJobOut j v => a_store a j K_OUT v
  | StoreJobStatus j v => a_store a j K_STATUS v
  | StoreMeta j k v =>
    if a_jex a j then
      match a_cell a (fst j) (snd j) K_META with
      | Some (FM m) => mkA (a_ns a) (a_nj a) (upd3 (a_cell a) (fst j) (snd j) K_META (Some (FM (aset k v m)))) (a_sval a)
      | _ => a
      end
    else a
  | StoreSearchValue s k v =>
    if a_sex a s then mkA (a_ns a) (a_nj a) (a_cell a) (upd2 (a_sval a) s k (Some v)) else a
  | _ => a
  end.

Definition aeq (a b : astate) : Prop :=
  a_ns a = a_ns b /\ (forall s, a_nj a s = a_nj b s)
  /\ (forall s p k, a_cell a s p k = a_cell b s p k) /\ (forall s k, a_sval a s k = a_sval b s k).

Definition zseq (n : nat) : list Z := map Z.of_nat (seq 0 n).

(* what each operation must answer, in terms of the abstract map only *)
Definition rec_of (a : astate) (j : jid) (r : jrec) : Prop :=
  forall k, aget k r = a_cell a (fst j) (snd j) k.

Fixpoint a_collect {A} (f : Z -> res (list A)) (ps : list Z) : res (list A) :=
  match ps with
  | [] => Ok []
  | p :: t =>
    match f p with
    | Er e => Er e
    | Ok l => match a_collect f t with Er e => Er e | Ok l' => Ok (l ++ l') end
    end
  end.

Definition a_meta_of (a : astate) (s k : Z) (p : Z) : res (list val) :=
  match a_cell a s p K_META with
  | None => Er EKey
  | Some (FV _) => Er EAttr
  | Some (FM m) => Ok (match aget k m with Some v => if is_none v then [] else [v] | None => [] end)
  end.

Definition a_out_of (a : astate) (s : Z) (p : Z) : res (list fval) :=
  match a_cell a s p K_OUT with
  | None => Er EKey
  | Some v => Ok (if f_is_none v then [] else [v])
  end.

Definition out_ok (a : astate) (o : op) (x : out) : Prop :=
  match o with
  | CreateSearch => x = OSid (Z.of_nat (a_ns a))
  | CreateJob s => if a_sex a s then x = OJid (s, Z.of_nat (a_nj a s)) else x = OErr EKey
  | StoreJob j _ _ | StoreJobIn j _ _ | StoreJobOut j _ | StoreJobStatus j _ =>
    if a_jex a j then x = ONone else x = OErr EKey
  | StoreMeta j _ _ =>
    if a_jex a j then
      match a_cell a (fst j) (snd j) K_META with
      | Some (FM _) => x = ONone
      | Some (FV _) => x = OErr EType
      | None => x = OErr EKey
      end
    else x = OErr EKey
  | StoreSearchValue s _ _ => if a_sex a s then x = ONone else x = OErr EKey
  | LoadAllSearchIds => x = OSids (zseq (a_ns a))
  | LoadAllJobIds s =>
    if a_sex a s then x = OJids (map (fun p => (s, p)) (zseq (a_nj a s))) else x = OErr EKey
  | LoadSearch s =>
    if a_sex a s then
      exists l, x = ORecs l /\ map fst l = zseq (a_nj a s) /\ (forall p r, aget p l = Some r -> rec_of a (s, p) r)
    else x = OErr EKey
  | LoadJob j => if a_jex a j then exists r, x = ORec r /\ rec_of a j r else x = OErr EKey
  | LoadSearchValue s k =>
    if a_sex a s then match a_sval a s k with Some v => x = OFval v | None => x = OErr EKey end
    else x = OErr EKey
  | LoadMetaAll s k =>
    if a_sex a s then
      match a_collect (a_meta_of a s k) (zseq (a_nj a s)) with Ok l => x = OVals l | Er e => x = OErr e end
    else x = OErr EKey
  | LoadOutAll s =>
    if a_sex a s then
      match a_collect (a_out_of a s) (zseq (a_nj a s)) with Ok l => x = OFvals l | Er e => x = OErr e end
    else x = OErr EKey
  | LoadJobs js =>
    if forallb (a_jex a) js then
      exists l, x = OJobs l /\ map fst l = js /\ Forall (fun jr => rec_of a (fst jr) (snd jr)) l
    else x = OErr EKey
  | LoadJobStatus j =>
    if a_jex a j then match a_cell a (fst j) (snd j) K_STATUS with Some v => x = OFval v | None => x = OErr EKey end
    else x = OErr EKey
  end.

(* ---------- non-atomic create_new_job (what the atomicity assumption excludes) ---------- *)
(* micro steps of one client: read the counter into a local, write local+1, initialise the record and return *)
Inductive micro := MRead | MWrite | MInit.

(* local = the partial id read by the client (None before MRead) *)
Definition mstep (s : Z) (c : state) (loc : option nat) (m : micro) : state * option nat * option jid :=
  match get_search c s with
  | None => (c, loc, None)
  | Some sr =>
    match m, loc with
    | MRead, _ => (c, Some (jcount sr), None)
    | MWrite, Some n => (put_search c s (mkSearch (S n) (jobs sr) (svals sr)), loc, None)
    | MInit, Some n =>
      (put_search c s (mkSearch (jcount sr) (aset (Z.of_nat n) init_rec (jobs sr)) (svals sr)), loc, Some (s, Z.of_nat n))
    | _, None => (c, loc, None)
    end
  end.

(* two clients A (false) and B (true); a schedule says who performs its next micro step *)
Fixpoint mrun (s : Z) (c : state) (la lb : option nat) (pa pb : list micro) (sched : list bool)
  : state * list jid :=
  match sched with
  | [] => (c, [])
  | false :: t =>
    match pa with
    | [] => mrun s c la lb pa pb t
    | m :: pa' =>
      match mstep s c la m with
      | (c', la', r) => let (cf, ids) := mrun s c' la' lb pa' pb t in
                        (cf, match r with Some j => j :: ids | None => ids end)
      end
    end
  | true :: t =>
    match pb with
    | [] => mrun s c la lb pa pb t
    | m :: pb' =>
      match mstep s c lb m with
      | (c', lb', r) => let (cf, ids) := mrun s c' la lb' pa pb' t in
                        (cf, match r with Some j => j :: ids | None => ids end)
      end
    end
  end.

Definition create_micro : list micro := [MRead; MWrite; MInit].
