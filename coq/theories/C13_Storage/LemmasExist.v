(* C13 - what was created stays: in the model an id that was handed out never answers KeyError again
   (records keep the keys they were created with; jobs and searches are never removed). *)
From Coq Require Import List ZArith Bool Arith Lia.
Import ListNotations.
Require Import DH.C13_Storage.Model DH.C13_Storage.LemmasMap DH.C13_Storage.Lemmas DH.C13_Storage.Check.
Open Scope Z_scope.

(* every existing job still has the keys of a fresh record *)
Definition arecs_ok (a : astate) : Prop :=
  forall j k, a_jex a j = true -> amem k init_rec = true -> a_cell a (fst j) (snd j) k <> None.

Lemma target_dec : forall o j k, target o = Some (j, k) \/ target o <> Some (j, k).
Proof.
  intros. destruct (target o) as [[[s p] k']|]; [|right; discriminate]. destruct j as [s0 p0].
  destruct (Z.eq_dec s s0), (Z.eq_dec p p0), (Z.eq_dec k' k); subst; auto; right; intros H; inversion H; contradiction.
Qed.

Lemma anext_cell_some : forall a o j k, a_jex a j = true -> a_cell a (fst j) (snd j) k <> None ->
  a_cell (anext o a) (fst j) (snd j) k <> None.
Proof.
  intros a o j k Hex Hc.
  destruct (target_dec o j k) as [Ht|Ht].
  2:{ rewrite anext_frame; assumption. }
  destruct o; cbn [target] in Ht; try discriminate Ht; inversion Ht; subst; cbn [anext].
  - unfold a_store. rewrite Hex. cbn [a_cell]. rewrite upd3_same. discriminate.
  - unfold a_store. rewrite Hex. cbn [a_cell]. rewrite upd3_same. discriminate.
  - unfold a_store. rewrite Hex. cbn [a_cell]. rewrite upd3_same. discriminate.
  - unfold a_store. rewrite Hex. cbn [a_cell]. rewrite upd3_same. discriminate.
  - rewrite Hex. destruct (a_cell a (fst j) (snd j) K_META) as [[v0|m]|] eqn:E; try (rewrite E; discriminate).
    + cbn [a_cell]. rewrite upd3_same. discriminate.
    + contradiction.
Qed.

Lemma arecs_ok_step : forall c o, wf c -> arecs_ok (abs c) -> arecs_ok (abs (fst (step c o))).
Proof.
  intros c o Hwf Hok j k Hex Hk.
  destruct (step_refines_state c o Hwf) as [_ [_ [Hc _]]]. rewrite Hc.
  apply (jex_step_iff c o j Hwf) in Hex. destruct Hex as [Hex|Hnew].
  - apply anext_cell_some; [assumption | apply Hok; assumption].
  - destruct (step_ojid c o j Hnew) as [-> [sr [Hs Hp]]].
    cbn [anext]. rewrite (sex_some c (fst j) sr Hwf Hs). cbn [a_cell].
    assert (Hn : a_nj (abs c) (fst j) = jcount sr) by (cbn [abs a_nj]; rewrite Hs; reflexivity).
    rewrite Hn, <- Hp, !Z.eqb_refl. cbn [andb]. unfold amem in Hk. destruct (aget k init_rec); [discriminate | discriminate Hk].
Qed.

Lemma arecs_ok_init : arecs_ok (abs init).
Proof. intros j k Hex _. unfold a_jex, a_sex in Hex. cbn [abs a_ns init scount] in Hex. apply andb_true_iff in Hex. destruct Hex as [H _]. apply in_range_spec in H. lia. Qed.

Lemma arecs_ok_final : forall ops c, wf c -> arecs_ok (abs c) -> arecs_ok (abs (final c ops)).
Proof.
  induction ops as [|o t IH]; intros c Hwf Hok; [exact Hok|].
  rewrite final_cons. apply IH; [apply wf_step; assumption | apply arecs_ok_step; assumption].
Qed.

Lemma a_collect_err : forall A (f : Z -> res (list A)) ps e, a_collect f ps = Er e -> exists p, In p ps /\ f p = Er e.
Proof.
  induction ps as [|p t IH]; intros e H; cbn [a_collect] in H; [discriminate H|].
  destruct (f p) as [l|e1] eqn:E1.
  - destruct (a_collect f t) as [l'|e2] eqn:E2; [discriminate H|]. inversion H. subst.
    destruct (IH e eq_refl) as [q [Hq Hf]]. exists q. split; [right; assumption | assumption].
  - inversion H. subst. exists p. split; [left; reflexivity | assumption].
Qed.

Lemma k_meta_init : amem K_META init_rec = true. Proof. reflexivity. Qed.
Lemma k_status_init : amem K_STATUS init_rec = true. Proof. reflexivity. Qed.
Lemma k_out_init : amem K_OUT init_rec = true. Proof. reflexivity. Qed.

(* an operation on an existing job / search does not answer KeyError *)
Lemma exists_no_keyerror : forall c o, wf c -> arecs_ok (abs c) ->
  (forall j, op_job o = Some j -> a_jex (abs c) j = true -> is_ekey (snd (step c o)) = false)
  /\ (forall s, op_search o = Some s -> a_sex (abs c) s = true -> is_ekey (snd (step c o)) = false).
Proof.
  intros c o Hwf Hok. pose proof (step_refines_out c o Hwf) as Hout. split.
  - intros j Hj Hex. destruct o; cbn [op_job] in Hj; try discriminate Hj; inversion Hj; subst; cbn [out_ok] in Hout; rewrite Hex in Hout.
    + rewrite Hout. reflexivity.
    + rewrite Hout. reflexivity.
    + rewrite Hout. reflexivity.
    + rewrite Hout. reflexivity.
    + pose proof (Hok j K_META Hex k_meta_init) as Hm.
      destruct (a_cell (abs c) (fst j) (snd j) K_META) as [[v0|m]|]; [rewrite Hout; reflexivity | rewrite Hout; reflexivity | contradiction].
    + destruct Hout as [r [-> _]]. reflexivity.
    + pose proof (Hok j K_STATUS Hex k_status_init) as Hm.
      destruct (a_cell (abs c) (fst j) (snd j) K_STATUS) as [v0|]; [rewrite Hout; reflexivity | contradiction].
  - intros s Hs Hex. destruct o; cbn [op_search] in Hs; try discriminate Hs; inversion Hs; subst; cbn [out_ok] in Hout; rewrite Hex in Hout.
    + rewrite Hout. reflexivity.
    + rewrite Hout. reflexivity.
    + rewrite Hout. reflexivity.
    + destruct Hout as [l [-> _]]. reflexivity.
    + destruct (a_collect (a_meta_of (abs c) s k) (zseq (a_nj (abs c) s))) as [l|e] eqn:E; [rewrite Hout; reflexivity|].
      rewrite Hout. destruct e; try reflexivity. exfalso.
      destruct (a_collect_err _ _ _ _ E) as [p [Hp Hf]]. unfold a_meta_of in Hf.
      assert (Hj : a_jex (abs c) (s, p) = true).
      { unfold a_jex. cbn [fst snd]. rewrite Hex. cbn [andb]. apply in_range_spec. apply in_zseq. assumption. }
      pose proof (Hok (s, p) K_META Hj k_meta_init) as Hm. cbn [fst snd] in Hm.
      destruct (a_cell (abs c) s p K_META) as [[v0|m]|]; [discriminate Hf | discriminate Hf | contradiction].
    + destruct (a_collect (a_out_of (abs c) s) (zseq (a_nj (abs c) s))) as [l|e] eqn:E; [rewrite Hout; reflexivity|].
      rewrite Hout. destruct e; try reflexivity. exfalso.
      destruct (a_collect_err _ _ _ _ E) as [p [Hp Hf]]. unfold a_out_of in Hf.
      assert (Hj : a_jex (abs c) (s, p) = true).
      { unfold a_jex. cbn [fst snd]. rewrite Hex. cbn [andb]. apply in_range_spec. apply in_zseq. assumption. }
      pose proof (Hok (s, p) K_OUT Hj k_out_init) as Hm. cbn [fst snd] in Hm.
      destruct (a_cell (abs c) s p K_OUT) as [v0|]; [discriminate Hf | contradiction].
Qed.

Theorem model_exist_go : forall ops c ks kj, wf c -> arecs_ok (abs c) ->
  (forall s, In s ks -> a_sex (abs c) s = true) -> (forall j, In j kj -> a_jex (abs c) j = true) ->
  exist_go ks kj (combine ops (outs c ops)) = true.
Proof.
  induction ops as [|o t IH]; intros c ks kj Hwf Hok Hks Hkj; [reflexivity|].
  rewrite outs_cons. cbn [combine exist_go]. apply andb_true_iff. split.
  - unfold exist_ev. apply negb_true_iff. destruct (exists_no_keyerror c o Hwf Hok) as [H1 H2].
    destruct (is_ekey (snd (step c o))) eqn:Ek; [|reflexivity]. cbn [andb]. apply orb_false_iff. split.
    + destruct (op_job o) as [j|] eqn:Ej; [|reflexivity].
      destruct (memb jid_eqb j kj) eqn:Em; [|reflexivity].
      apply (memb_in jid jid_eqb jid_eqb_eq) in Em. pose proof (H1 j eq_refl (Hkj j Em)) as Hc. discriminate Hc.
    + destruct (op_search o) as [s|] eqn:Es; [|reflexivity].
      destruct (memb Z.eqb s ks) eqn:Em; [|reflexivity].
      apply (memb_in Z Z.eqb Z.eqb_eq) in Em. pose proof (H2 s eq_refl (Hks s Em)) as Hc. discriminate Hc.
  - apply IH; [apply wf_step; assumption | apply arecs_ok_step; assumption | |].
    + intros s Hin. unfold known_s in Hin. destruct (snd (step c o)) eqn:Ex; try (apply sex_mono; [assumption | apply Hks; assumption]).
      destruct Hin as [<-|Hin]; [apply (created_search_new c o s0 Hwf Ex) | apply sex_mono; [assumption | apply Hks; assumption]].
    + intros j Hin. unfold known_j in Hin. destruct (snd (step c o)) eqn:Ex; try (apply jex_mono; [assumption | apply Hkj; assumption]).
      destruct Hin as [<-|Hin]; [apply (created_job_new c o j0 Hwf Ex) | apply jex_mono; [assumption | apply Hkj; assumption]].
Qed.

Theorem model_ok_exist : forall ops, ok_exist (combine ops (outs init ops)) = true.
Proof.
  intros. unfold ok_exist. apply model_exist_go; [apply wf_init | apply arecs_ok_init | intros s [] | intros j []].
Qed.
