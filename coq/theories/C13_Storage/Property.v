(* C13 - Storage keeps what it was given.  Property theorems only (stub, being filled). *)
From Coq Require Import List ZArith Bool.
Import ListNotations.
Require Import DH.C13_Storage.Model.
Open Scope Z_scope.

Example C13_example_run :
  outs init [CreateSearch; CreateJob 0; StoreJobOut (0, 0) (FV [1; 7]); LoadJobStatus (0, 0)]
  = [OSid 0; OJid (0, 0); ONone; OFval (FV v_int0)].
Proof. vm_compute. reflexivity. Qed.
