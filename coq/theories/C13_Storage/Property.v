(* C13 - Storage keeps what it was given: unique ids, read-your-writes, isolation.   Property theorems only.
   Model.v = MemoryStorage with fix F25 (search values in their own dictionary); [step_prefix] = the pinned code.
   All statements quantify over ALL histories (lists of operations, any length, any ids / keys / values). *)
From Coq Require Import List ZArith Bool Arith.
Import ListNotations.
Require Import DH.C13_Storage.Model DH.C13_Storage.Lemmas DH.C13_Storage.Check DH.C13_Storage.LemmasRyw DH.C13_Storage.LemmasFinal.
Open Scope Z_scope.

(* every identifier returned by create_new_search / create_new_job differs from all earlier ones *)
Theorem C13_fresh_ids : forall ops,
  NoDup (sids_of (outs init ops)) /\ NoDup (jids_of (outs init ops)).
Proof. exact C13_fresh_ids_proof. Qed.
Print Assumptions C13_fresh_ids.

(* ... also when the history starts from any reachable state: the new ids did not exist before *)
Theorem C13_fresh_ids_from : forall ops0 ops, let c := final init ops0 in
  NoDup (jids_of (outs c ops)) /\ (forall j, In j (jids_of (outs c ops)) -> a_jex (abs c) j = false)
  /\ NoDup (sids_of (outs c ops)) /\ (forall s, In s (sids_of (outs c ops)) -> a_sex (abs c) s = false).
Proof. exact C13_fresh_ids_from_proof. Qed.
Print Assumptions C13_fresh_ids_from.

(* refinement: in every reachable state, each operation of the nested-dictionary machine is the pointwise update
   [anext] of the simple map  search -> job -> key -> value, and answers what the simple map prescribes [out_ok] *)
Theorem C13_read_your_writes : forall ops0 o, let c := final init ops0 in
  aeq (abs (fst (step c o))) (anext o (abs c)) /\ out_ok (abs c) o (snd (step c o)).
Proof. exact C13_read_your_writes_proof. Qed.
Print Assumptions C13_read_your_writes.

(* history form: in every history, after a successful store of v at a location (job field, metadata entry, search
   value) every later load shows v there, until a later successful operation touches that location again *)
Theorem C13_read_your_writes_history : forall ops0 ops,
  Spec_ryw (combine ops (outs (final init ops0) ops)).
Proof. exact C13_read_your_writes_history_proof. Qed.
Print Assumptions C13_read_your_writes_history.

(* frame: an operation changes no location other than the one it names; loads change nothing *)
Theorem C13_isolation : forall ops0 o, let c := final init ops0 in
  (forall j k, a_jex (abs c) j = true -> target o <> Some (j, k) ->
     a_cell (abs (fst (step c o))) (fst j) (snd j) k = a_cell (abs c) (fst j) (snd j) k)
  /\ (forall s k, (forall v, o <> StoreSearchValue s k v) -> a_sval (abs (fst (step c o))) s k = a_sval (abs c) s k)
  /\ (forall j k v, o = StoreMeta j k v -> snd (step c o) = ONone ->
        exists m, a_cell (abs c) (fst j) (snd j) K_META = Some (FM m)
                  /\ a_cell (abs (fst (step c o))) (fst j) (snd j) K_META = Some (FM (aset k v m)))
  /\ (is_load o = true -> fst (step c o) = c).
Proof. exact C13_isolation_proof. Qed.
Print Assumptions C13_isolation.

(* a load can be repeated and interposed anywhere: same answer, and every later answer is unchanged
   (in ANY state, reachable or not: nothing like a cache, a counter or a lazily built index is touched by reading) *)
Theorem C13_load_repeatable : forall c o, is_load o = true ->
  step (fst (step c o)) o = step c o /\ (forall ops, outs (fst (step c o)) ops = outs c ops).
Proof. exact C13_load_repeatable_proof. Qed.
Print Assumptions C13_load_repeatable.

(* the jobs present after a history = the jobs present before + the ones created in it (nothing is lost) *)
Theorem C13_final_union : forall ops0 ops j, let c := final init ops0 in
  a_jex (abs (final c ops)) j = true <-> a_jex (abs c) j = true \/ In j (jids_of (outs c ops)).
Proof. exact C13_final_union_proof. Qed.
Print Assumptions C13_final_union.

(* what was created stays: once an id has been handed out, no later operation on that job / search answers KeyError
   (jobs and searches are never removed, records keep the keys they were created with) *)
Theorem C13_created_stays : forall ops, Spec_exist (combine ops (outs init ops)).
Proof. exact C13_created_stays_proof. Qed.
Print Assumptions C13_created_stays.

(* several clients: any interleaving of atomic client operations is one sequential history H (operations tagged
   with the issuing client).  If every client only touches the jobs it created itself, then every client's own
   view of the run (its projection) passes the read-your-writes oracle, all identifiers are distinct and new. *)
Theorem C13_interleaving : forall ops0 (H : list (nat * op)), let c := final init ops0 in
  let E := events c H in
  (forall y, owned_go [] (proj y E) = true) ->
  (forall y, ok_ryw (proj y E) = true /\ Spec_ryw (proj y E))
  /\ NoDup (jids_of (outs c (map snd H)))
  /\ (forall j, In j (jids_of (outs c (map snd H))) -> a_jex (abs c) j = false)
  /\ (forall j, a_jex (abs (final c (map snd H))) j = true <-> a_jex (abs c) j = true \/ In j (jids_of (outs c (map snd H)))).
Proof. exact C13_interleaving_proof. Qed.
Print Assumptions C13_interleaving.

(* the three micro steps of create_new_job (read counter, write counter, initialise), run without interruption,
   are exactly the atomic operation of the model *)
Theorem C13_atomic_create : forall c s sr, get_search c s = Some sr ->
  let r1 := mstep s c None MRead in
  let r2 := mstep s (fst (fst r1)) (snd (fst r1)) MWrite in
  let r3 := mstep s (fst (fst r2)) (snd (fst r2)) MInit in
  fst (fst r3) = fst (step c (CreateJob s)) /\ option_map OJid (snd r3) = Some (snd (step c (CreateJob s))).
Proof. exact micro_atomic. Qed.
Print Assumptions C13_atomic_create.

(* ... and atomicity is needed: interleaved micro steps of two creators hand out the same id *)
Theorem C13_nonatomic_refuted : exists sched,
  snd (mrun 0 (final init [CreateSearch]) None None create_micro create_micro sched) = [(0, 0); (0, 0)].
Proof. exact C13_nonatomic_refuted_proof. Qed.
Print Assumptions C13_nonatomic_refuted.

(* the pinned code (user search values next to "job_id_counter"): ids repeat and a stored value is lost *)
Theorem C13_search_value_prefix_refuted : exists ops,
  let xs := snd (run_prefix init ops) in
  ids_fresh_b xs = false /\ ok_ryw (combine ops xs) = false.
Proof. exact C13_search_value_prefix_refuted_proof. Qed.
Print Assumptions C13_search_value_prefix_refuted.

(* what the oracles applied to the implementation's outputs decide *)
Theorem C13_oracle_fresh : forall l, ids_fresh_b l = true <-> NoDup (sids_of l) /\ NoDup (jids_of l).
Proof. exact ids_fresh_b_spec. Qed.
Print Assumptions C13_oracle_fresh.

Theorem C13_oracle_ryw : forall h, ok_ryw h = true -> Spec_ryw h.
Proof. exact ok_ryw_sound. Qed.
Print Assumptions C13_oracle_ryw.

Theorem C13_oracle_clients : forall pre hs fin, ok_C13 pre hs fin = true -> Spec_C13 pre hs fin.
Proof. exact ok_C13_sound. Qed.
Print Assumptions C13_oracle_clients.

Theorem C13_oracle_exist : forall h, ok_exist h = true -> Spec_exist h.
Proof. exact ok_exist_sound. Qed.
Print Assumptions C13_oracle_exist.

(* ---------- non-vacuity ---------- *)
Example C13_example_run :
  outs init [CreateSearch; CreateJob 0; StoreJobOut (0, 0) (FV [1; 7]); StoreMeta (0, 0) 100 [2; 5];
             LoadJobStatus (0, 0); LoadJob (0, 1); StoreJob (0, 0) K_META (FV [1; 5]); StoreMeta (0, 0) 100 [1; 1]]
  = [OSid 0; OJid (0, 0); ONone; ONone; OFval (FV v_int0); OErr EKey; ONone; OErr EType].
Proof. vm_compute. reflexivity. Qed.

(* the repaired model on the history that breaks the pinned code: ids stay distinct, the value is read back *)
Example C13_example_fixed :
  let ops := [CreateSearch; CreateJob 0; StoreJobOut (0, 0) (FV [1; 7]); StoreSearchValue 0 K_COUNTER (FV [1; 0]);
              CreateJob 0; LoadJob (0, 0)] in
  ids_fresh_b (outs init ops) = true /\ ok_ryw (combine ops (outs init ops)) = true.
Proof. vm_compute. split; reflexivity. Qed.

(* the read-your-writes oracle is not trivially true: a load that misses the stored value is rejected *)
Example C13_example_oracle_rejects :
  ok_ryw [(StoreJobOut (0, 0) (FV [1; 7]), ONone); (LoadJob (0, 0), ORec init_rec)] = false
  /\ ok_ryw [(StoreJobOut (0, 0) (FV [1; 7]), ONone); (LoadJob (0, 0), OErr EKey)] = false
  /\ ok_C13 [] [[(CreateJob 0, OJid (0, 0))]; [(CreateJob 0, OJid (0, 0))]] [(0, 0)] = false
  /\ ok_exist [(CreateJob 0, OJid (0, 0)); (StoreMeta (0, 0) 100 [1; 1], OErr EKey)] = false.
Proof. vm_compute. repeat split; reflexivity. Qed.

(* the hypothesis of C13_interleaving is satisfiable: two clients, interleaved, each on its own jobs *)
Example C13_example_clients :
  let H := [(0%nat, CreateJob 0); (1%nat, CreateJob 0); (0%nat, StoreJobOut (0, 0) (FV [1; 1]));
            (1%nat, StoreJobOut (0, 1) (FV [1; 2])); (0%nat, LoadJob (0, 0)); (1%nat, LoadJob (0, 1))] in
  let E := events (final init [CreateSearch]) H in
  owned_go [] (proj 0 E) = true /\ owned_go [] (proj 1 E) = true /\ owned_go [] (proj 2 E) = true
  /\ ok_C13 [] [proj 0 E; proj 1 E] [(0, 0); (0, 1)] = true.
Proof. vm_compute. repeat split; reflexivity. Qed.
