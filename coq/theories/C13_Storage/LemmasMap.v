(* C13 - association-list lemmas (python dict with insertion order). *)
From Coq Require Import List ZArith Bool Arith Lia FinFun.
Import ListNotations.
Require Import DH.C13_Storage.Model.
Open Scope Z_scope.

Lemma aget_aset_same : forall A k (v : A) m, aget k (aset k v m) = Some v.
Proof.
  induction m as [|[k' v'] t IH]; cbn [aset aget].
  - rewrite Z.eqb_refl. reflexivity.
  - destruct (k =? k') eqn:E; cbn [aget]; rewrite ?Z.eqb_refl, ?E; auto.
Qed.

Lemma aget_aset_other : forall A k k' (v : A) m, k' <> k -> aget k' (aset k v m) = aget k' m.
Proof.
  induction m as [|[k0 v0] t IH]; intros Hne; cbn [aset aget].
  - destruct (k' =? k) eqn:E; [apply Z.eqb_eq in E; contradiction | reflexivity].
  - destruct (k =? k0) eqn:E; cbn [aget].
    + apply Z.eqb_eq in E. subst k0.
      destruct (k' =? k) eqn:E2; [apply Z.eqb_eq in E2; contradiction | reflexivity].
    + destruct (k' =? k0); auto.
Qed.

Lemma aget_aset : forall A k k' (v : A) m, aget k' (aset k v m) = if k' =? k then Some v else aget k' m.
Proof.
  intros. destruct (k' =? k) eqn:E.
  - apply Z.eqb_eq in E. subst. apply aget_aset_same.
  - apply Z.eqb_neq in E. apply aget_aset_other; auto.
Qed.

Lemma amem_in : forall A k (m : amap A), amem k m = true <-> In k (map fst m).
Proof.
  unfold amem. induction m as [|[k' v'] t IH]; cbn [aget map fst In].
  - split; [discriminate | tauto].
  - destruct (k =? k') eqn:E.
    + apply Z.eqb_eq in E. subst. split; auto.
    + apply Z.eqb_neq in E. rewrite IH. split; [auto | intros [H|H]; [congruence | auto]].
Qed.

Lemma aget_none_notin : forall A k (m : amap A), aget k m = None <-> ~ In k (map fst m).
Proof.
  intros. rewrite <- amem_in. unfold amem. destruct (aget k m); split; intros; try congruence; auto.
Qed.

Lemma aget_some_in : forall A k (v : A) m, aget k m = Some v -> In (k, v) m.
Proof.
  induction m as [|[k' v'] t IH]; cbn [aget In]; [discriminate|].
  destruct (k =? k') eqn:E; intros H.
  - apply Z.eqb_eq in E. inversion H. subst. auto.
  - auto.
Qed.

Lemma in_aget_nodup : forall A k (v : A) m, NoDup (map fst m) -> In (k, v) m -> aget k m = Some v.
Proof.
  induction m as [|[k' v'] t IH]; cbn [aget In map fst]; [tauto|].
  intros Hnd [H|H].
  - inversion H. subst. rewrite Z.eqb_refl. reflexivity.
  - inversion Hnd as [|? ? Hni Hnd']. subst.
    destruct (k =? k') eqn:E.
    + apply Z.eqb_eq in E. subst. exfalso. apply Hni. apply in_map_iff. exists (k', v). auto.
    + auto.
Qed.

Lemma keys_aset : forall A k (v : A) m,
  map fst (aset k v m) = if amem k m then map fst m else map fst m ++ [k].
Proof.
  unfold amem. induction m as [|[k' v'] t IH]; cbn [aset aget map fst app].
  - reflexivity.
  - destruct (k =? k') eqn:E; cbn [map fst].
    + apply Z.eqb_eq in E. subst. reflexivity.
    + rewrite IH. destruct (aget k t); reflexivity.
Qed.

(* zseq *)
Lemma zseq_S : forall n, zseq (S n) = zseq n ++ [Z.of_nat n].
Proof. intros. unfold zseq. rewrite seq_S, map_app. reflexivity. Qed.

Lemma in_zseq : forall z n, In z (zseq n) <-> 0 <= z < Z.of_nat n.
Proof.
  intros. unfold zseq. rewrite in_map_iff. split.
  - intros [x [Hx Hin]]. apply in_seq in Hin. lia.
  - intros H. exists (Z.to_nat z). split; [lia | apply in_seq; lia].
Qed.

Lemma nodup_zseq : forall n, NoDup (zseq n).
Proof.
  intros. unfold zseq. apply Injective_map_NoDup; [intros a b; apply Nat2Z.inj | apply seq_NoDup].
Qed.

Lemma in_range_spec : forall z n, in_range z n = true <-> 0 <= z < Z.of_nat n.
Proof. intros. unfold in_range. rewrite andb_true_iff, Z.leb_le, Z.ltb_lt. tauto. Qed.

Lemma val_eqb_refl : forall v, val_eqb v v = true.
Proof. induction v; cbn [val_eqb]; [reflexivity | rewrite Z.eqb_refl; auto]. Qed.

Lemma val_eqb_eq : forall a b, val_eqb a b = true <-> a = b.
Proof.
  induction a as [|x a IH]; destruct b as [|y b]; cbn [val_eqb]; split; intros H; try discriminate; auto.
  - apply andb_true_iff in H. destruct H as [H1 H2]. apply Z.eqb_eq in H1. apply IH in H2. congruence.
  - inversion H. subst. rewrite Z.eqb_refl. apply IH. reflexivity.
Qed.
