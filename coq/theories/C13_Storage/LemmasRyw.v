(* C13 - the model satisfies the read-your-writes oracle on every history, and under every interleaving of
   clients that keep to the jobs they created. *)
From Coq Require Import List ZArith Bool Arith Lia.
Import ListNotations.
Require Import DH.C13_Storage.Model DH.C13_Storage.LemmasMap DH.C13_Storage.Lemmas DH.C13_Storage.Check.
Open Scope Z_scope.

(* the state really holds what a shadow entry says *)
Definition holds (c : state) (e : loc * fval) : Prop :=
  match fst e with
  | LF j k => a_cell (abs c) (fst j) (snd j) k = Some (snd e)
  | LM j k => exists m v, a_cell (abs c) (fst j) (snd j) K_META = Some (FM m) /\ aget k m = Some v /\ snd e = FV v
  | LS s k => a_sval (abs c) s k = Some (snd e)
  end.

Lemma cell_some_get : forall c j k v, a_cell (abs c) (fst j) (snd j) k = Some v ->
  exists r, get_job c j = Some r /\ aget k r = Some v.
Proof.
  intros c j k v H. rewrite abs_cell_job in H. destruct (get_job c j) as [r|]; [|discriminate H].
  exists r. auto.
Qed.

Lemma holds_job : forall c e j, holds c e -> loc_job (fst e) = Some j -> exists r, get_job c j = Some r.
Proof.
  intros c [l v] j H Hl. unfold holds in H. cbn [fst snd] in *. destruct l as [j' k|j' k|s k]; cbn [loc_job] in Hl.
  - inversion Hl. subst. destruct (cell_some_get _ _ _ _ H) as [r [Hr _]]. eauto.
  - inversion Hl. subst. destruct H as [m [v' [H _]]]. destruct (cell_some_get _ _ _ _ H) as [r [Hr _]]. eauto.
  - discriminate Hl.
Qed.

Lemma holds_jex : forall c e j, wf c -> holds c e -> loc_job (fst e) = Some j -> a_jex (abs c) j = true.
Proof.
  intros c e j Hwf H Hl. destruct (holds_job c e j H Hl) as [r Hr]. eapply jex_some; eassumption.
Qed.

Lemma entry_in_rec_holds : forall c e j r, holds c e -> get_job c j = Some r -> entry_in_rec j r e = true.
Proof.
  intros c [l v] j r H Hr. unfold holds in H. unfold entry_in_rec. cbn [fst snd] in *.
  destruct l as [j' k|j' k|s k]; [| |reflexivity].
  - destruct (jid_eqb j' j) eqn:E; [|reflexivity]. apply jid_eqb_eq in E. subst j'.
    destruct (cell_some_get _ _ _ _ H) as [r' [Hr' Hk]]. rewrite Hr in Hr'. inversion Hr'. subst r'.
    rewrite Hk. apply fval_eqb_refl.
  - destruct (jid_eqb j' j) eqn:E; [|reflexivity]. apply jid_eqb_eq in E. subst j'.
    destruct H as [m [v' [H [Hk ->]]]].
    destruct (cell_some_get _ _ _ _ H) as [r' [Hr' Hm]]. rewrite Hr in Hr'. inversion Hr'. subst r'.
    rewrite Hm, Hk. apply fval_eqb_refl.
Qed.

Lemma load_jobs_in : forall c js l, load_jobs c js = Ok l -> forall jr, In jr l -> get_job c (fst jr) = Some (snd jr).
Proof.
  induction js as [|j t IH]; intros l H jr Hin; cbn [load_jobs] in H.
  - inversion H. subst. destruct Hin.
  - destruct (get_job c j) as [r|] eqn:Ej; [|discriminate H].
    destruct (load_jobs c t) as [l'|]; [|discriminate H]. inversion H. subst.
    destruct Hin as [<-|Hin]; [assumption | eapply IH; eauto].
Qed.

Lemma get_job_unfold : forall c j sr, get_search c (fst j) = Some sr -> get_job c j = aget (snd j) (jobs sr).
Proof. intros c j sr H. unfold get_job. rewrite H. reflexivity. Qed.

Lemma out_all_in : forall l vs p r v, out_all l = Ok vs -> In (p, r) l -> aget K_OUT r = Some v -> f_is_none v = false -> In v vs.
Proof.
  induction l as [|[p0 r0] t IH]; intros vs p r v H Hin Hk Hn; [destruct Hin|].
  cbn [out_all] in H. destruct (aget K_OUT r0) as [v0|] eqn:E0; [|discriminate H].
  destruct (out_all t) as [vs'|] eqn:Et; [|discriminate H].
  destruct Hin as [Heq|Hin].
  - inversion Heq. subst. rewrite Hk in E0. inversion E0. subst v0. rewrite Hn in H. inversion H. left. reflexivity.
  - specialize (IH vs' p r v eq_refl Hin Hk Hn). destruct (f_is_none v0); inversion H; subst; [assumption | right; assumption].
Qed.

Lemma meta_all_in : forall k l vs p r m v, meta_all k l = Ok vs -> In (p, r) l -> aget K_META r = Some (FM m) ->
  aget k m = Some v -> is_none v = false -> In v vs.
Proof.
  induction l as [|[p0 r0] t IH]; intros vs p r m v H Hin Hm Hk Hn; [destruct Hin|].
  cbn [meta_all] in H. destruct (aget K_META r0) as [[v0|m0]|] eqn:E0; try discriminate H.
  destruct (meta_all k t) as [vs'|] eqn:Et; [|discriminate H].
  destruct Hin as [Heq|Hin].
  - inversion Heq. subst. rewrite Hm in E0. inversion E0. subst m0. rewrite Hk, Hn in H. inversion H. left. reflexivity.
  - specialize (IH vs' p r m v eq_refl Hin Hm Hk Hn).
    destruct (aget k m0) as [v1|]; [destruct (is_none v1)|]; inversion H; subst; try assumption. right. assumption.
Qed.

Lemma existsb_in_refl : forall A (eqb : A -> A -> bool) (x : A) l, eqb x x = true -> In x l -> existsb (eqb x) l = true.
Proof. intros A eqb x l Hr Hin. apply existsb_exists. exists x. auto. Qed.

(* the model's answer to any operation agrees with every entry that holds *)
Lemma holds_entry_ok : forall c o e, wf c -> holds c e -> entry_ok o (snd (step c o)) e = true.
Proof.
  intros c o e Hwf H. destruct o; try reflexivity; cbn [step entry_ok].
  - (* LoadSearch *) destruct (get_search c s) as [sr|] eqn:Es; cbn [snd].
    + destruct (loc_job (fst e)) as [j|] eqn:El; [|reflexivity].
      destruct (fst j =? s) eqn:E; [|reflexivity]. apply Z.eqb_eq in E. subst s.
      destruct (holds_job c e j H El) as [r Hr]. rewrite (get_job_unfold c j sr Es) in Hr. rewrite Hr.
      eapply entry_in_rec_holds; [eassumption|]. rewrite (get_job_unfold c j sr Es). assumption.
    + apply negb_true_iff. destruct e as [l v]. cbn [fst] in *. unfold holds in H. cbn [fst snd] in H.
      destruct l as [j k|j k|s' k]; cbn [on_search].
      * destruct (fst j =? s) eqn:E; [|reflexivity]. apply Z.eqb_eq in E. subst s.
        destruct (cell_some_get _ _ _ _ H) as [r [Hr _]]. unfold get_job in Hr. rewrite Es in Hr. discriminate Hr.
      * destruct (fst j =? s) eqn:E; [|reflexivity]. apply Z.eqb_eq in E. subst s.
        destruct H as [m [v' [H _]]].
        destruct (cell_some_get _ _ _ _ H) as [r [Hr _]]. unfold get_job in Hr. rewrite Es in Hr. discriminate Hr.
      * destruct (s' =? s) eqn:E; [|reflexivity]. apply Z.eqb_eq in E. subst s'.
        cbn [abs a_sval] in H. rewrite Es in H. discriminate H.
  - (* LoadJob *) destruct (get_job c j) as [r|] eqn:Ej; cbn [snd].
    + eapply entry_in_rec_holds; eassumption.
    + apply negb_true_iff. unfold on_job. destruct (loc_job (fst e)) as [j'|] eqn:El; [|reflexivity].
      destruct (jid_eqb j' j) eqn:E; [|reflexivity]. apply jid_eqb_eq in E. subst j'.
      destruct (holds_job c e j H El) as [r Hr]. congruence.
  - (* LoadSearchValue *) destruct (get_search c s) as [sr|] eqn:Es; [destruct (aget k (svals sr)) as [v|] eqn:Ek|]; cbn [snd].
    + destruct (loc_eqb (fst e) (LS s k)) eqn:E; [|reflexivity]. apply loc_eqb_eq in E.
      unfold holds in H. rewrite E in H. cbn [abs a_sval] in H. rewrite Es, Ek in H. inversion H. apply fval_eqb_refl.
    + apply negb_true_iff. destruct (loc_eqb (fst e) (LS s k)) eqn:E; [|reflexivity]. apply loc_eqb_eq in E.
      unfold holds in H. rewrite E in H. cbn [abs a_sval] in H. rewrite Es, Ek in H. discriminate H.
    + apply negb_true_iff. destruct (loc_eqb (fst e) (LS s k)) eqn:E; [|reflexivity]. apply loc_eqb_eq in E.
      unfold holds in H. rewrite E in H. cbn [abs a_sval] in H. rewrite Es in H. discriminate H.
  - (* LoadMetaAll *) destruct (get_search c s) as [sr|] eqn:Es; [|reflexivity].
    destruct (meta_all k (jobs sr)) as [vs|] eqn:Em; cbn [snd]; [|reflexivity].
    destruct e as [[j k'|j k'|s' k'] [v|mv]]; try reflexivity.
    destruct ((fst j =? s) && (k' =? k) && negb (is_none v)) eqn:Ec; [|reflexivity].
    apply andb_true_iff in Ec. destruct Ec as [Ec E3]. apply andb_true_iff in Ec. destruct Ec as [E1 E2].
    apply Z.eqb_eq in E1. apply Z.eqb_eq in E2. apply negb_true_iff in E3. subst s k'.
    unfold holds in H. cbn [fst snd] in H. destruct H as [m [v' [Hm [Hk Hv]]]]. inversion Hv. subst v'.
    destruct (cell_some_get _ _ _ _ Hm) as [r [Hr Hmr]]. rewrite (get_job_unfold c j sr Es) in Hr.
    apply existsb_in_refl; [apply val_eqb_refl|].
    eapply meta_all_in; [eassumption | apply aget_some_in; eassumption | eassumption | eassumption | assumption].
  - (* LoadOutAll *) destruct (get_search c s) as [sr|] eqn:Es; [|reflexivity].
    destruct (out_all (jobs sr)) as [vs|] eqn:Em; cbn [snd]; [|reflexivity].
    destruct e as [[j k'|j k'|s' k'] v]; cbn [fst snd]; try reflexivity.
    destruct ((fst j =? s) && (k' =? K_OUT) && negb (f_is_none v)) eqn:Ec; [|reflexivity].
    apply andb_true_iff in Ec. destruct Ec as [Ec E3]. apply andb_true_iff in Ec. destruct Ec as [E1 E2].
    apply Z.eqb_eq in E1. apply Z.eqb_eq in E2. apply negb_true_iff in E3. subst s k'.
    unfold holds in H. cbn [fst snd] in H.
    destruct (cell_some_get _ _ _ _ H) as [r [Hr Hkr]]. rewrite (get_job_unfold c j sr Es) in Hr.
    apply existsb_in_refl; [apply fval_eqb_refl|].
    eapply out_all_in; [eassumption | apply aget_some_in; eassumption | eassumption | assumption].
  - (* LoadJobs *) destruct (load_jobs c js) as [l|] eqn:El; cbn [snd]; [|reflexivity].
    apply forallb_forall. intros jr Hin. eapply entry_in_rec_holds; [eassumption|].
    eapply load_jobs_in; eassumption.
  - (* LoadJobStatus *) destruct (get_job c j) as [r|] eqn:Ej; [destruct (aget K_STATUS r) as [v|] eqn:Ek|]; cbn [snd].
    + destruct (loc_eqb (fst e) (LF j K_STATUS)) eqn:E; [|reflexivity]. apply loc_eqb_eq in E.
      unfold holds in H. rewrite E in H. rewrite abs_cell_job, Ej, Ek in H. inversion H. apply fval_eqb_refl.
    + apply negb_true_iff. destruct (loc_eqb (fst e) (LF j K_STATUS)) eqn:E; [|reflexivity]. apply loc_eqb_eq in E.
      unfold holds in H. rewrite E in H. rewrite abs_cell_job, Ej, Ek in H. discriminate H.
    + apply negb_true_iff. destruct (loc_eqb (fst e) (LF j K_STATUS)) eqn:E; [|reflexivity]. apply loc_eqb_eq in E.
      unfold holds in H. rewrite E in H. rewrite abs_cell_job, Ej in H. discriminate H.
Qed.

(* ---------- how a step treats the entries ---------- *)
Ltac destr_goal :=
  repeat match goal with
         | |- context [match ?x with _ => _ end] => destruct x eqn:?
         end.

Lemma step_out_cases : forall c o,
  (snd (step c o) = ONone /\ written o <> None)
  \/ (snd (step c o) <> ONone /\ (fst (step c o) = c \/ o = CreateSearch \/ exists s, o = CreateJob s)).
Proof.
  intros c o.
  assert (Hupd : forall j f, (snd (upd_job c j f) = ONone) \/ (snd (upd_job c j f) <> ONone /\ fst (upd_job c j f) = c)).
  { intros j f. pose proof (upd_job_cases c j f) as H. destruct (get_job c j) as [r|].
    - destruct (f r) as [r'|e].
      + destruct H as [sr [_ [_ H]]]. rewrite H. left. reflexivity.
      + rewrite H. right. split; [discriminate | reflexivity].
    - rewrite H. right. split; [discriminate | reflexivity]. }
  destruct (is_load o) eqn:El.
  - right. split; [|left; apply load_pure; assumption].
    destruct o; try discriminate El; cbn [step]; destr_goal; cbn [snd]; discriminate.
  - destruct o; try discriminate El; cbn [step].
    + right. split; [discriminate | auto].
    + right. destruct (get_search c s); cbn [snd fst]; split; try discriminate; eauto.
    + destruct (Hupd j (fun r => Ok (aset k v r))) as [H|[H1 H2]]; [left | right]; unfold store_job; cbn [written field_write]; split; auto; discriminate.
    + destruct (Hupd j (fun r => Ok (aset K_IN (in_value args kwargs) r))) as [H|[H1 H2]]; [left | right]; unfold store_job; cbn [written field_write]; split; auto; discriminate.
    + destruct (Hupd j (fun r => Ok (aset K_OUT v r))) as [H|[H1 H2]]; [left | right]; unfold store_job; cbn [written field_write]; split; auto; discriminate.
    + destruct (Hupd j (fun r => Ok (aset K_STATUS v r))) as [H|[H1 H2]]; [left | right]; unfold store_job; cbn [written field_write]; split; auto; discriminate.
    + destruct (Hupd j (meta_set k v)) as [H|[H1 H2]]; [left | right]; cbn [written]; split; auto; discriminate.
    + destruct (get_search c s); cbn [snd fst written]; [left | right]; split; auto; discriminate.
Qed.

Lemma holds_frame : forall c o e, wf c -> holds c e ->
  (forall j k, fst e = LF j k -> target o <> Some (j, k)) ->
  (forall j k, fst e = LM j k -> target o <> Some (j, K_META)) ->
  (forall s k, fst e = LS s k -> forall v, o <> StoreSearchValue s k v) ->
  holds (fst (step c o)) e.
Proof.
  intros c o [l v] Hwf H H1 H2 H3. pose proof (holds_jex c (l, v)) as Hex.
  unfold holds in *. cbn [fst snd] in *. destruct l as [j k|j k|s k].
  - rewrite step_frame; [assumption | assumption | apply (Hex j Hwf H eq_refl) | apply H1; reflexivity].
  - destruct H as [m [v' [Hm Hk]]]. exists m, v'. split; [|assumption].
    rewrite step_frame; [assumption | assumption | apply (Hex j Hwf (ex_intro _ m (ex_intro _ v' (conj Hm Hk))) eq_refl) | apply H2 with (k := k); reflexivity].
  - rewrite step_frame_sval; [assumption | assumption | apply H3; reflexivity].
Qed.

Lemma field_write_facts : forall o j k v, field_write o = Some (j, k, v) ->
  target o = Some (j, k) /\ written o = Some (LF j k, v) /\ (forall s k' v', o <> StoreSearchValue s k' v')
  /\ forall l, affected o l = loc_eqb l (LF j k) || (if k =? K_META then match l with LM j' _ => jid_eqb j' j | _ => false end else false).
Proof.
  intros o j k v H. destruct o; cbn [field_write] in H; try discriminate H; inversion H; subst;
    cbn [target written field_write affected]; repeat split; try discriminate; reflexivity.
Qed.

Lemma loc_neq : forall a b, loc_eqb a b = false -> a <> b.
Proof. intros a b H E. apply loc_eqb_eq in E. congruence. Qed.

Lemma holds_step : forall c o e, wf c -> holds c e ->
  (snd (step c o) = ONone -> affected o (fst e) = false) -> holds (fst (step c o)) e.
Proof.
  intros c o e Hwf H Ha. destruct (step_out_cases c o) as [[Hn Hw] | [Hn [Hs | [-> | [s ->]]]]].
  - specialize (Ha Hn).
    destruct (field_write o) as [[[j k] v]|] eqn:Ef.
    + destruct (field_write_facts o j k v Ef) as [Ht [_ [Hsv Haff]]]. rewrite Haff in Ha.
      apply orb_false_iff in Ha. destruct Ha as [Ha1 Ha2].
      apply holds_frame; try assumption.
      * intros j' k' El. rewrite El in Ha1. rewrite Ht. intros E. inversion E. subst. rewrite loc_eqb_refl in Ha1. discriminate Ha1.
      * intros j' k' El. rewrite El in Ha2. rewrite Ht. intros E. inversion E. subst.
        cbn in Ha2. rewrite jid_eqb_refl in Ha2. discriminate Ha2.
      * intros s k' El v'. apply Hsv.
    + destruct o; cbn [field_write] in Ef; try discriminate Ef; cbn [written field_write] in Hw; try (exfalso; apply Hw; reflexivity).
      * (* StoreMeta *) cbn [affected] in Ha. apply orb_false_iff in Ha. destruct Ha as [Ha1 Ha2].
        destruct e as [l v']. cbn [fst] in *. destruct l as [j' k'|j' k'|s k'].
        -- apply holds_frame; try assumption; cbn [fst target].
           ++ intros j2 k2 El. inversion El. subst. intros E. inversion E. subst. rewrite loc_eqb_refl in Ha2. discriminate Ha2.
           ++ intros j2 k2 El. discriminate El.
           ++ intros s k2 El. discriminate El.
        -- destruct (jid_eqb j' j) eqn:Ej.
           ++ apply jid_eqb_eq in Ej. subst j'.
              assert (Hk : k' <> k).
              { intros ->. rewrite loc_eqb_refl in Ha1. discriminate Ha1. }
              destruct (store_meta_then_cell c j k v Hwf Hn) as [m0 [Hm0 Hm1]].
              unfold holds in *. cbn [fst snd] in *. destruct H as [m [v2 [Hm [Hk2 Hv]]]].
              rewrite Hm in Hm0. inversion Hm0. subst m0.
              exists (aset k v m), v2. split; [assumption|]. split; [|assumption].
              rewrite aget_aset_other; assumption.
           ++ apply holds_frame; try assumption; cbn [fst target].
              ** intros j2 k2 El. discriminate El.
              ** intros j2 k2 El. inversion El. subst. intros E. inversion E. subst. rewrite jid_eqb_refl in Ej. discriminate Ej.
              ** intros s k2 El. discriminate El.
        -- apply holds_frame; try assumption; cbn [fst target].
           ++ intros j2 k2 El. discriminate El.
           ++ intros j2 k2 El. discriminate El.
           ++ intros s2 k2 El v2. discriminate.
      * (* StoreSearchValue *) cbn [affected] in Ha.
        apply holds_frame; try assumption; cbn [target]; try (intros; discriminate).
        intros s2 k2 El v2 E. inversion E. subst. rewrite El, loc_eqb_refl in Ha. discriminate Ha.
  - rewrite Hs. assumption.
  - apply holds_frame; try assumption; cbn [target]; intros; discriminate.
  - apply holds_frame; try assumption; cbn [target]; intros; discriminate.
Qed.

Lemma new_entry_holds : forall c o e, wf c -> snd (step c o) = ONone -> written o = Some e -> holds (fst (step c o)) e.
Proof.
  intros c o e Hwf Hn Hw. destruct (field_write o) as [[[j k] v]|] eqn:Ef.
  - destruct (field_write_facts o j k v Ef) as [_ [Hw' _]]. rewrite Hw' in Hw. inversion Hw. subst e.
    unfold holds. cbn [fst snd]. apply store_then_cell; [assumption | assumption |].
    destruct o; cbn [field_write] in Ef; try discriminate Ef; inversion Ef; subst; eauto 10.
  - destruct o; cbn [field_write] in Ef; try discriminate Ef; cbn [written field_write] in Hw; try discriminate Hw; inversion Hw; subst e.
    + destruct (store_meta_then_cell c j k v Hwf Hn) as [m [_ Hm]].
      unfold holds. cbn [fst snd]. exists (aset k v m), v. split; [assumption|]. split; [apply aget_aset_same | reflexivity].
    + unfold holds. cbn [fst snd]. apply store_sv_then; assumption.
Qed.

Lemma sh_update_holds : forall c o sh, wf c -> Forall (holds c) sh ->
  Forall (holds (fst (step c o))) (sh_update sh o (snd (step c o))).
Proof.
  intros c o sh Hwf H. unfold sh_update. destruct (snd (step c o)) eqn:Ex;
    try (apply Forall_forall; intros e1 Hin; apply holds_step; [assumption | eapply Forall_forall; eassumption | rewrite Ex; intros Hd; discriminate Hd]).
  destruct (written o) as [e0|] eqn:Ew.
  - constructor; [apply new_entry_holds; assumption|].
    apply Forall_forall. intros e Hin. apply filter_In in Hin. destruct Hin as [Hin Hf].
    apply holds_step; [assumption | eapply Forall_forall; eassumption |]. intros _. apply negb_true_iff in Hf. assumption.
  - destruct (step_out_cases c o) as [[_ Hw] | [Hn _]]; [contradiction | congruence].
Qed.

(* ---------- every history of the model passes the oracle ---------- *)
Theorem model_ryw_go : forall ops c sh, wf c -> Forall (holds c) sh -> ryw_go sh (combine ops (outs c ops)) = true.
Proof.
  induction ops as [|o t IH]; intros c sh Hwf Hsh; [reflexivity|].
  rewrite outs_cons. cbn [combine ryw_go]. apply andb_true_iff. split.
  - unfold ev_check. apply forallb_forall. intros e Hin. apply holds_entry_ok; [assumption|].
    eapply Forall_forall; eassumption.
  - apply IH; [apply wf_step; assumption | apply sh_update_holds; assumption].
Qed.

Theorem model_ok_ryw : forall ops0 ops, ok_ryw (combine ops (outs (final init ops0) ops)) = true.
Proof. intros. unfold ok_ryw. apply model_ryw_go; [apply wf_final; apply wf_init | constructor]. Qed.

(* ====================================================================================================== *)
(* Several clients: a global history is a list of operations tagged with the client that issues them.      *)
(* Because every operation is atomic, ANY interleaving of the clients is such a list, run by [run].        *)
(* ====================================================================================================== *)
Definition events (c : state) (H : list (nat * op)) : list (nat * (op * out)) :=
  combine (map fst H) (combine (map snd H) (outs c (map snd H))).

Definition proj (x : nat) (E : list (nat * (op * out))) : list (op * out) :=
  map snd (filter (fun e => Nat.eqb (fst e) x) E).

Lemma events_cons : forall c x o t, events c ((x, o) :: t) = (x, (o, snd (step c o))) :: events (fst (step c o)) t.
Proof. intros. unfold events. cbn [map fst snd]. rewrite outs_cons. reflexivity. Qed.

Lemma proj_cons : forall y x ev t, proj y ((x, ev) :: t) = if Nat.eqb x y then ev :: proj y t else proj y t.
Proof. intros. unfold proj. cbn [filter fst]. destruct (Nat.eqb x y); reflexivity. Qed.

Record Inv (c : state) (own : nat -> list jid) (sh : nat -> shadow) : Prop := {
  inv_wf : wf c;
  inv_holds : forall y, Forall (holds c) (sh y);
  inv_owned : forall y e, In e (sh y) -> exists j, loc_job (fst e) = Some j /\ In j (own y);
  inv_exist : forall y j, In j (own y) -> a_jex (abs c) j = true;
  inv_disj : forall y z j, y <> z -> In j (own y) -> ~ In j (own z) }.

Lemma memb_jid_in : forall j l, memb jid_eqb j l = true <-> In j l.
Proof. intros. apply (memb_in jid jid_eqb jid_eqb_eq). Qed.

Lemma allowed_target : forall own o j k, op_allowed own o = true -> target o = Some (j, k) -> In j own.
Proof.
  intros own o j k Ha Ht. destruct o; cbn [target] in Ht; try discriminate Ht; inversion Ht; subst;
    cbn [op_allowed] in Ha; apply memb_jid_in; assumption.
Qed.

Lemma affected_job : forall o l, affected o l = true ->
  (exists j k, loc_job l = Some j /\ target o = Some (j, k)) \/ (exists s k v, o = StoreSearchValue s k v).
Proof.
  intros o l H. destruct (field_write o) as [[[j k] v]|] eqn:Ef.
  - destruct (field_write_facts o j k v Ef) as [Ht [_ [_ Haff]]]. rewrite Haff in H. left. exists j, k.
    split; [|assumption]. apply orb_true_iff in H. destruct H as [H|H].
    + apply loc_eqb_eq in H. subst l. reflexivity.
    + destruct (k =? K_META); [|discriminate H]. destruct l as [j' k'|j' k'|s k']; try discriminate H.
      apply jid_eqb_eq in H. subst j'. reflexivity.
  - destruct o; cbn [field_write] in Ef; try discriminate Ef; cbn [affected field_write] in H; try discriminate H.
    + left. exists j, K_META. split; [|reflexivity]. apply orb_true_iff in H. destruct H as [H|H]; apply loc_eqb_eq in H; subst l; reflexivity.
    + right. eauto.
Qed.

Lemma allowed_not_sv : forall own o s k v, op_allowed own o = true -> o <> StoreSearchValue s k v.
Proof. intros own o s k v Ha E. subst o. discriminate Ha. Qed.

Lemma written_job : forall own o e, op_allowed own o = true -> written o = Some e ->
  exists j, loc_job (fst e) = Some j /\ In j own.
Proof.
  intros own o e Ha Hw. destruct (field_write o) as [[[j k] v]|] eqn:Ef.
  - destruct (field_write_facts o j k v Ef) as [Ht [Hw' _]]. rewrite Hw' in Hw. inversion Hw. subst e.
    exists j. split; [reflexivity | eapply allowed_target; eassumption].
  - destruct o; cbn [field_write] in Ef; try discriminate Ef; cbn [written field_write] in Hw; try discriminate Hw; inversion Hw; subst e.
    + exists j. split; [reflexivity|]. cbn [op_allowed] in Ha. apply memb_jid_in. assumption.
    + discriminate Ha.
Qed.

Lemma in_sh_update : forall sh o x e, In e (sh_update sh o x) -> In e sh \/ (x = ONone /\ written o = Some e).
Proof.
  intros sh o x e H. unfold sh_update in H. destruct x; auto.
  destruct (written o) as [e0|]; auto. destruct H as [<-|H]; auto.
  apply filter_In in H. tauto.
Qed.

Lemma in_own_update : forall own x j, In j (own_update own x) -> In j own \/ x = OJid j.
Proof. intros own x j H. unfold own_update in H. destruct x; auto. destruct H as [<-|H]; auto. Qed.

Lemma own_update_incl : forall own x j, In j own -> In j (own_update own x).
Proof. intros own x j H. unfold own_update. destruct x; auto. right. assumption. Qed.

Lemma inv_step : forall c own sh x o, Inv c own sh -> op_allowed (own x) o = true ->
  Inv (fst (step c o))
      (fun y => if Nat.eqb x y then own_update (own x) (snd (step c o)) else own y)
      (fun y => if Nat.eqb x y then sh_update (sh x) o (snd (step c o)) else sh y).
Proof.
  intros c own sh x o [Hwf Hh Ho He Hd] Ha. split.
  - apply wf_step. assumption.
  - intros y. destruct (Nat.eqb x y) eqn:E.
    + apply sh_update_holds; [assumption | apply Hh].
    + apply Nat.eqb_neq in E. apply Forall_forall. intros e Hin. apply holds_step; [assumption | eapply Forall_forall; [apply Hh | eassumption] |].
      intros _. destruct (affected o (fst e)) eqn:Eaff; [|reflexivity]. exfalso.
      destruct (Ho y e Hin) as [j [Hl Hj]].
      destruct (affected_job o (fst e) Eaff) as [[j' [k [Hl' Ht]]] | [s [k [v Hsv]]]].
      * rewrite Hl in Hl'. inversion Hl'. subst j'.
        apply (Hd x y j E); [eapply allowed_target; eassumption | assumption].
      * eapply allowed_not_sv; eassumption.
  - intros y e Hin. destruct (Nat.eqb x y) eqn:E.
    + apply Nat.eqb_eq in E. subst y. destruct (in_sh_update _ _ _ _ Hin) as [Hin' | [_ Hw]].
      * destruct (Ho x e Hin') as [j [Hl Hj]]. exists j. split; [assumption | apply own_update_incl; assumption].
      * destruct (written_job _ _ _ Ha Hw) as [j [Hl Hj]]. exists j. split; [assumption | apply own_update_incl; assumption].
    + apply Ho. assumption.
  - intros y j Hin. destruct (Nat.eqb x y) eqn:E.
    + destruct (in_own_update _ _ _ Hin) as [Hin' | Hx].
      * apply jex_mono; [assumption | eapply He; eassumption].
      * apply (created_job_new c o j Hwf Hx).
    + apply jex_mono; [assumption | eapply He; eassumption].
  - intros y z j Hyz Hin Hin2.
    destruct (Nat.eqb x y) eqn:Ey; destruct (Nat.eqb x z) eqn:Ez.
    + apply Nat.eqb_eq in Ey. apply Nat.eqb_eq in Ez. congruence.
    + destruct (in_own_update _ _ _ Hin) as [Hin' | Hx].
      * apply Nat.eqb_eq in Ey. subst y. apply (Hd x z j Hyz Hin' Hin2).
      * destruct (created_job_new c o j Hwf Hx) as [N _]. rewrite (He z j Hin2) in N. discriminate N.
    + destruct (in_own_update _ _ _ Hin2) as [Hin' | Hx].
      * apply Nat.eqb_eq in Ez. subst z. apply (Hd y x j Hyz Hin Hin').
      * destruct (created_job_new c o j Hwf Hx) as [N _]. rewrite (He y j Hin) in N. discriminate N.
    + apply (Hd y z j Hyz Hin Hin2).
Qed.

Theorem interleaved_ryw : forall H c own sh, Inv c own sh ->
  (forall y, owned_go (own y) (proj y (events c H)) = true) ->
  forall y, ryw_go (sh y) (proj y (events c H)) = true.
Proof.
  induction H as [|[x o] t IH]; intros c own sh HI Hown y; [reflexivity|].
  rewrite events_cons in *.
  assert (Hx : op_allowed (own x) o = true /\
               owned_go (own_update (own x) (snd (step c o))) (proj x (events (fst (step c o)) t)) = true).
  { specialize (Hown x). rewrite proj_cons, Nat.eqb_refl in Hown. cbn [owned_go] in Hown.
    apply andb_true_iff in Hown. assumption. }
  destruct Hx as [Ha Hrest].
  pose proof (inv_step c own sh x o HI Ha) as HI'.
  specialize (IH _ _ _ HI').
  assert (Hown' : forall y0, owned_go (if Nat.eqb x y0 then own_update (own x) (snd (step c o)) else own y0)
                                      (proj y0 (events (fst (step c o)) t)) = true).
  { intros y0. destruct (Nat.eqb x y0) eqn:E.
    - apply Nat.eqb_eq in E. subst y0. assumption.
    - specialize (Hown y0). rewrite proj_cons, E in Hown. assumption. }
  specialize (IH Hown' y). cbv beta in IH. rewrite proj_cons. destruct (Nat.eqb x y) eqn:E.
  - apply Nat.eqb_eq in E. subst y. cbn [ryw_go]. apply andb_true_iff. split; [|assumption].
    unfold ev_check. apply forallb_forall. intros e Hin. destruct HI as [Hwf Hh _ _ _].
    apply holds_entry_ok; [assumption | eapply Forall_forall; [apply Hh | eassumption]].
  - assumption.
Qed.

Lemma inv_start : forall c, wf c -> Inv c (fun _ => []) (fun _ => []).
Proof.
  intros c Hwf. split; try assumption.
  - intros y. constructor.
  - intros y e [].
  - intros y j [].
  - intros y z j _ [].
Qed.

(* the statement used in Property.v: from any reachable state, for any tagged history *)
Theorem interleaving_clients : forall ops0 H,
  let c := final init ops0 in
  let E := events c H in
  (forall y, owned_go [] (proj y E) = true) ->
  (forall y, ryw_go [] (proj y E) = true)
  /\ NoDup (jids_of (outs c (map snd H)))
  /\ (forall j, In j (jids_of (outs c (map snd H))) -> a_jex (abs c) j = false).
Proof.
  intros ops0 H c E Hown.
  assert (Hwf : wf c) by (apply wf_final; apply wf_init).
  split.
  - intros y. apply (interleaved_ryw H c (fun _ => []) (fun _ => []) (inv_start c Hwf) Hown y).
  - apply fresh_jids. assumption.
Qed.
