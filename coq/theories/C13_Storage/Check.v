(* C13 - boolean oracles applied to the IMPLEMENTATION's outputs, and what they mean (reflection / soundness).

   ids_fresh_b   every identifier handed out by create_new_search / create_new_job is new
   ok_ryw        "each load returns exactly the last value stored under that search/job/key":
                 one pass over an observed history (operation, output) with a SHADOW = the simple map
                 location -> last value successfully stored there; every load is checked against it
   ok_exist      "what was created stays": an operation on a job / search whose id was handed out earlier in the
                 history does not answer KeyError
   ok_C13        several clients at once: identifiers unique over all clients, every client (that only touches the
                 jobs it created itself - checked) reads its own writes, the final dump of the storage (appended by
                 the harness to every client's history as load_search events) still holds every client's last
                 writes, and the final set of job ids is the union of what existed before and what was created. *)
From Coq Require Import List ZArith Bool Arith Lia.
Import ListNotations.
Require Import DH.C13_Storage.Model.
Open Scope Z_scope.

(* ---------- equality tests ---------- *)
Definition jid_eqb (a b : jid) : bool := (fst a =? fst b) && (snd a =? snd b).

Fixpoint memb {A} (eqb : A -> A -> bool) (x : A) (l : list A) : bool :=
  match l with [] => false | y :: t => eqb x y || memb eqb x t end.

Fixpoint nodupb {A} (eqb : A -> A -> bool) (l : list A) : bool :=
  match l with [] => true | x :: t => negb (memb eqb x t) && nodupb eqb t end.

(* two dictionaries with the same lookups (order of insertion is not compared) *)
Definition amap_eqb (m1 m2 : amap val) : bool :=
  forallb (fun k => match aget k m1, aget k m2 with
                    | Some a, Some b => val_eqb a b
                    | None, None => true
                    | _, _ => false
                    end) (map fst m1 ++ map fst m2).

Definition fval_eqb (a b : fval) : bool :=
  match a, b with
  | FV x, FV y => val_eqb x y
  | FM x, FM y => amap_eqb x y
  | _, _ => false
  end.

(* ---------- fresh identifiers ---------- *)
Definition ids_fresh_b (l : list out) : bool :=
  nodupb Z.eqb (sids_of l) && nodupb jid_eqb (jids_of l).

(* ---------- the shadow map ---------- *)
Inductive loc :=
| LF (j : jid) (k : Z)        (* field k of job j *)
| LM (j : jid) (k : Z)        (* entry k of the metadata dictionary of job j *)
| LS (s : Z) (k : Z).         (* search value k of search s *)

Definition loc_eqb (a b : loc) : bool :=
  match a, b with
  | LF j k, LF j' k' => jid_eqb j j' && (k =? k')
  | LM j k, LM j' k' => jid_eqb j j' && (k =? k')
  | LS s k, LS s' k' => (s =? s') && (k =? k')
  | _, _ => false
  end.

Definition shadow := list (loc * fval).

Definition field_write (o : op) : option (jid * Z * fval) :=
  match o with
  | StoreJob j k v => Some (j, k, v)
  | StoreJobIn j a kw => Some (j, K_IN, in_value a kw)
  | StoreJobOut j v => Some (j, K_OUT, v)
  | StoreJobStatus j v => Some (j, K_STATUS, v)
  | _ => None
  end.

(* the locations whose last-stored value is no longer known after a successful operation *)
Definition affected (o : op) (l : loc) : bool :=
  match o with
  | StoreMeta j k _ => loc_eqb l (LM j k) || loc_eqb l (LF j K_META)
  | StoreSearchValue s k _ => loc_eqb l (LS s k)
  | _ =>
    match field_write o with
    | Some (j, k, _) =>
      loc_eqb l (LF j k) || (if k =? K_META then match l with LM j' _ => jid_eqb j' j | _ => false end else false)
    | None => false
    end
  end.

(* the location and value an operation stores *)
Definition written (o : op) : option (loc * fval) :=
  match o with
  | StoreMeta j k v => Some (LM j k, FV v)
  | StoreSearchValue s k v => Some (LS s k, v)
  | _ => match field_write o with Some (j, k, v) => Some (LF j k, v) | None => None end
  end.

Definition sh_update (sh : shadow) (o : op) (x : out) : shadow :=
  match x, written o with
  | ONone, Some e => e :: filter (fun e' => negb (affected o (fst e'))) sh
  | _, _ => sh
  end.

(* does record r of job j agree with the shadow entry e ? *)
Definition entry_in_rec (j : jid) (r : jrec) (e : loc * fval) : bool :=
  match fst e with
  | LF j' k => if jid_eqb j' j then match aget k r with Some v' => fval_eqb (snd e) v' | None => false end else true
  | LM j' k =>
    if jid_eqb j' j then
      match aget K_META r with
      | Some (FM m) => match aget k m with Some v' => fval_eqb (snd e) (FV v') | None => false end
      | _ => false
      end
    else true
  | LS _ _ => true
  end.

Definition loc_job (l : loc) : option jid :=
  match l with LF j _ => Some j | LM j _ => Some j | LS _ _ => None end.

Definition on_job (j : jid) (l : loc) : bool :=
  match loc_job l with Some j' => jid_eqb j' j | None => false end.
Definition on_search (s : Z) (l : loc) : bool :=
  match l with LF j _ => fst j =? s | LM j _ => fst j =? s | LS s' _ => s' =? s end.

(* one observed event against one shadow entry *)
Definition entry_ok (o : op) (x : out) (e : loc * fval) : bool :=
  match o with
  | LoadJob j =>
    match x with
    | ORec r => entry_in_rec j r e
    | _ => negb (on_job j (fst e))            (* a job that was stored to exists: no error allowed *)
    end
  | LoadSearch s =>
    match x with
    | ORecs l =>
      match loc_job (fst e) with
      | Some j => if fst j =? s then match aget (snd j) l with Some r => entry_in_rec j r e | None => false end else true
      | None => true
      end
    | _ => negb (on_search s (fst e))
    end
  | LoadJobs js =>
    match x with
    | OJobs l => forallb (fun jr => entry_in_rec (fst jr) (snd jr) e) l
    | _ => true
    end
  | LoadJobStatus j =>
    match x with
    | OFval v => if loc_eqb (fst e) (LF j K_STATUS) then fval_eqb (snd e) v else true
    | _ => negb (loc_eqb (fst e) (LF j K_STATUS))
    end
  | LoadSearchValue s k =>
    match x with
    | OFval v => if loc_eqb (fst e) (LS s k) then fval_eqb (snd e) v else true
    | _ => negb (loc_eqb (fst e) (LS s k))
    end
  | LoadOutAll s =>                            (* a stored output that is not None is in the list *)
    match x, fst e with
    | OFvals l, LF j k =>
      if (fst j =? s) && (k =? K_OUT) && negb (f_is_none (snd e)) then existsb (fval_eqb (snd e)) l else true
    | _, _ => true
    end
  | LoadMetaAll s k =>                         (* a stored metadata entry that is not None is in the list *)
    match x, e with
    | OVals l, (LM j k', FV v) =>
      if (fst j =? s) && (k' =? k) && negb (is_none v) then existsb (val_eqb v) l else true
    | _, _ => true
    end
  | _ => true
  end.

Definition ev_check (sh : shadow) (o : op) (x : out) : bool := forallb (entry_ok o x) sh.

Fixpoint ryw_go (sh : shadow) (h : list (op * out)) : bool :=
  match h with
  | [] => true
  | (o, x) :: t => ev_check sh o x && ryw_go (sh_update sh o x) t
  end.

Definition ok_ryw (h : list (op * out)) : bool := ryw_go [] h.

(* ---------- several clients ---------- *)
(* a client may create jobs, and store to / load from the jobs it created itself; read-only listings are free *)
Definition op_allowed (own : list jid) (o : op) : bool :=
  match o with
  | CreateSearch => false
  | StoreSearchValue _ _ _ => false
  | StoreJob j _ _ | StoreJobIn j _ _ | StoreJobOut j _ | StoreJobStatus j _ | StoreMeta j _ _
  | LoadJob j | LoadJobStatus j => memb jid_eqb j own
  | LoadJobs js => forallb (fun j => memb jid_eqb j own) js
  | _ => true
  end.

Definition own_update (own : list jid) (x : out) : list jid :=
  match x with OJid j => j :: own | _ => own end.

Fixpoint owned_go (own : list jid) (h : list (op * out)) : bool :=
  match h with
  | [] => true
  | (o, x) :: t => op_allowed own o && owned_go (own_update own x) t
  end.

Definition created (hs : list (list (op * out))) : list jid := jids_of (map snd (concat hs)).

Definition inclb (a b : list jid) : bool := forallb (fun j => memb jid_eqb j b) a.

(* pre: job ids existing before the clients start;  hs: one observed history per client, each followed by the
   final load_search dumps;  fin: job ids existing at the end *)
Definition ok_C13 (pre : list jid) (hs : list (list (op * out))) (fin : list jid) : bool :=
  nodupb jid_eqb (pre ++ created hs)
  && forallb (fun h => owned_go [] h && ryw_go [] h) hs
  && nodupb jid_eqb fin && inclb fin (pre ++ created hs) && inclb (pre ++ created hs) fin.

(* ---------- what was created stays: no KeyError on an id that was handed out earlier ---------- *)
Definition op_job (o : op) : option jid :=
  match o with
  | StoreJob j _ _ | StoreJobIn j _ _ | StoreJobOut j _ | StoreJobStatus j _ | StoreMeta j _ _
  | LoadJob j | LoadJobStatus j => Some j
  | _ => None
  end.

Definition op_search (o : op) : option Z :=
  match o with
  | CreateJob s | StoreSearchValue s _ _ | LoadAllJobIds s | LoadSearch s | LoadMetaAll s _ | LoadOutAll s => Some s
  | _ => None
  end.

Definition is_ekey (x : out) : bool := match x with OErr EKey => true | _ => false end.

Definition known_s (ks : list Z) (x : out) : list Z := match x with OSid s => s :: ks | _ => ks end.
Definition known_j (kj : list jid) (x : out) : list jid := match x with OJid j => j :: kj | _ => kj end.

Definition exist_ev (ks : list Z) (kj : list jid) (o : op) (x : out) : bool :=
  negb (is_ekey x && (match op_job o with Some j => memb jid_eqb j kj | None => false end
                      || match op_search o with Some s => memb Z.eqb s ks | None => false end)).

Fixpoint exist_go (ks : list Z) (kj : list jid) (h : list (op * out)) : bool :=
  match h with
  | [] => true
  | (o, x) :: t => exist_ev ks kj o x && exist_go (known_s ks x) (known_j kj x) t
  end.

Definition ok_exist (h : list (op * out)) : bool := exist_go [] [] h.

(* ====================================================================================================== *)
(* What the oracles mean                                                                                  *)
(* ====================================================================================================== *)
Require Import DH.C13_Storage.LemmasMap.

Lemma jid_eqb_eq : forall a b, jid_eqb a b = true <-> a = b.
Proof.
  intros [a1 a2] [b1 b2]. unfold jid_eqb. cbn [fst snd]. rewrite andb_true_iff, !Z.eqb_eq.
  split; [intros [-> ->]; reflexivity | intros H; inversion H; auto].
Qed.

Lemma jid_eqb_refl : forall a, jid_eqb a a = true.
Proof. intros. apply jid_eqb_eq. reflexivity. Qed.

Lemma memb_in : forall A (eqb : A -> A -> bool), (forall a b, eqb a b = true <-> a = b) ->
  forall x l, memb eqb x l = true <-> In x l.
Proof.
  intros A eqb Heq x. induction l as [|y t IH]; cbn [memb In]; [split; [discriminate | tauto]|].
  rewrite orb_true_iff, Heq, IH. split; intros [H|H]; auto.
Qed.

Lemma nodupb_spec : forall A (eqb : A -> A -> bool), (forall a b, eqb a b = true <-> a = b) ->
  forall l, nodupb eqb l = true <-> NoDup l.
Proof.
  intros A eqb Heq. induction l as [|x t IH]; cbn [nodupb].
  - split; [constructor | reflexivity].
  - rewrite andb_true_iff, negb_true_iff, IH. split.
    + intros [H1 H2]. constructor; [|assumption]. intros Hin. apply (memb_in A eqb Heq) in Hin. congruence.
    + intros H. inversion H as [|? ? Hni Hnd]. subst. split; [|assumption].
      destruct (memb eqb x t) eqn:E; [|reflexivity]. apply (memb_in A eqb Heq) in E. contradiction.
Qed.

(* fresh identifiers: exactly "no identifier is handed out twice" *)
Theorem ids_fresh_b_spec : forall l, ids_fresh_b l = true <-> NoDup (sids_of l) /\ NoDup (jids_of l).
Proof.
  intros. unfold ids_fresh_b. rewrite andb_true_iff.
  rewrite (nodupb_spec Z Z.eqb Z.eqb_eq), (nodupb_spec jid jid_eqb jid_eqb_eq). tauto.
Qed.

Lemma loc_eqb_eq : forall a b, loc_eqb a b = true <-> a = b.
Proof.
  intros [j k|j k|s k] [j' k'|j' k'|s' k']; cbn [loc_eqb]; try (split; [discriminate | intros H; inversion H]).
  - rewrite andb_true_iff, jid_eqb_eq, Z.eqb_eq. split; [intros [-> ->]; reflexivity | intros H; inversion H; auto].
  - rewrite andb_true_iff, jid_eqb_eq, Z.eqb_eq. split; [intros [-> ->]; reflexivity | intros H; inversion H; auto].
  - rewrite andb_true_iff, !Z.eqb_eq. split; [intros [-> ->]; reflexivity | intros H; inversion H; auto].
Qed.

Lemma loc_eqb_refl : forall a, loc_eqb a a = true.
Proof. intros. apply loc_eqb_eq. reflexivity. Qed.

(* same dictionary *)
Definition same_map (m1 m2 : amap val) : Prop := forall k, aget k m1 = aget k m2.

Lemma amap_eqb_spec : forall m1 m2, amap_eqb m1 m2 = true <-> same_map m1 m2.
Proof.
  intros m1 m2. unfold amap_eqb, same_map. rewrite forallb_forall. split.
  - intros H k. destruct (aget k m1) as [a|] eqn:E1; destruct (aget k m2) as [b|] eqn:E2; auto.
    + assert (Hin : In k (map fst m1 ++ map fst m2)).
      { apply in_or_app. left. apply amem_in. unfold amem. rewrite E1. reflexivity. }
      specialize (H k Hin). rewrite E1, E2 in H. apply val_eqb_eq in H. congruence.
    + assert (Hin : In k (map fst m1 ++ map fst m2)).
      { apply in_or_app. left. apply amem_in. unfold amem. rewrite E1. reflexivity. }
      specialize (H k Hin). rewrite E1, E2 in H. discriminate H.
    + assert (Hin : In k (map fst m1 ++ map fst m2)).
      { apply in_or_app. right. apply amem_in. unfold amem. rewrite E2. reflexivity. }
      specialize (H k Hin). rewrite E1, E2 in H. discriminate H.
  - intros H k _. rewrite (H k). destruct (aget k m2); [apply val_eqb_refl | reflexivity].
Qed.

Definition same_fval (a b : fval) : Prop :=
  match a, b with
  | FV x, FV y => x = y
  | FM x, FM y => same_map x y
  | _, _ => False
  end.

Lemma fval_eqb_spec : forall a b, fval_eqb a b = true <-> same_fval a b.
Proof.
  intros [x|x] [y|y]; cbn [fval_eqb same_fval]; try (split; [discriminate | tauto]).
  - apply val_eqb_eq.
  - apply amap_eqb_spec.
Qed.

Lemma fval_eqb_refl : forall a, fval_eqb a a = true.
Proof. intros. apply fval_eqb_spec. destruct a; cbn [same_fval]; [reflexivity | intros k; reflexivity]. Qed.

(* ---------- read-your-writes over an observed history, stated without the shadow ---------- *)
(* For every successful store of v at location l, and every later event before which no successful operation
   touched l again: the event's answer agrees with (l, v)  [entry_ok: the loaded record / status / search value
   shows v at l, and a load of that job or search is not an error]. *)
Definition quiet (l : loc) (h : list (op * out)) : Prop :=
  forall e, In e h -> snd e = ONone -> affected (fst e) l = false.

Definition Spec_ryw (h : list (op * out)) : Prop :=
  forall h1 o l v h2 o' x h3,
    h = h1 ++ (o, ONone) :: h2 ++ (o', x) :: h3 ->
    written o = Some (l, v) ->
    quiet l h2 ->
    entry_ok o' x (l, v) = true.

Lemma sh_update_keeps : forall sh o x e, In e sh -> (x = ONone -> affected o (fst e) = false) -> In e (sh_update sh o x).
Proof.
  intros sh o x e Hin Hq. unfold sh_update. destruct x; try assumption.
  destruct (written o) as [e0|]; [|assumption]. right. apply filter_In. split; [assumption|].
  rewrite Hq by reflexivity. reflexivity.
Qed.

Lemma ryw_go_entries : forall h sh, ryw_go sh h = true ->
  forall e, In e sh -> forall h2 o' x h3, h = h2 ++ (o', x) :: h3 -> quiet (fst e) h2 -> entry_ok o' x e = true.
Proof.
  induction h as [|[o1 x1] t IH]; intros sh Hgo e Hin h2 o' x h3 Heq Hq.
  - destruct h2; discriminate Heq.
  - cbn [ryw_go] in Hgo. apply andb_true_iff in Hgo. destruct Hgo as [Hc Hgo].
    destruct h2 as [|e2 h2'].
    + cbn [app] in Heq. inversion Heq. subst. unfold ev_check in Hc. rewrite forallb_forall in Hc. apply Hc. assumption.
    + cbn [app] in Heq. inversion Heq. subst.
      eapply (IH _ Hgo e); [|reflexivity|].
      * apply sh_update_keeps; [assumption|]. intros ->. apply (Hq (o1, ONone)); [left; reflexivity | reflexivity].
      * intros e' Hin' He'. apply Hq; [right; assumption | assumption].
Qed.

Theorem ok_ryw_sound : forall h, ok_ryw h = true -> Spec_ryw h.
Proof.
  unfold ok_ryw. intros h. generalize (@nil (loc * fval)) as sh.
  induction h as [|[o1 x1] t IH]; intros sh Hgo h1 o l v h2 o' x h3 Heq Hw Hq.
  - destruct h1; discriminate Heq.
  - cbn [ryw_go] in Hgo. apply andb_true_iff in Hgo. destruct Hgo as [Hc Hgo].
    destruct h1 as [|e1 h1'].
    + cbn [app] in Heq. inversion Heq. subst.
      apply (ryw_go_entries _ _ Hgo (l, v)) with (h2 := h2) (h3 := h3); [|reflexivity|assumption].
      unfold sh_update. rewrite Hw. left. reflexivity.
    + cbn [app] in Heq. inversion Heq. subst. eapply IH; eauto.
Qed.

(* ---------- several clients ---------- *)
Definition Spec_C13 (pre : list jid) (hs : list (list (op * out))) (fin : list jid) : Prop :=
  NoDup (pre ++ created hs)                                      (* identifiers unique over all clients, and new *)
  /\ (forall h, In h hs -> owned_go [] h = true /\ Spec_ryw h)   (* every client reads its own writes; the final dump too *)
  /\ NoDup fin /\ (forall j, In j fin <-> In j (pre ++ created hs)).  (* final job set = the union *)

Lemma inclb_spec : forall a b, inclb a b = true <-> (forall j, In j a -> In j b).
Proof.
  intros. unfold inclb. rewrite forallb_forall. split; intros H j Hj.
  - apply (memb_in jid jid_eqb jid_eqb_eq). apply H. assumption.
  - apply (memb_in jid jid_eqb jid_eqb_eq). apply H. assumption.
Qed.

Theorem ok_C13_sound : forall pre hs fin, ok_C13 pre hs fin = true -> Spec_C13 pre hs fin.
Proof.
  intros pre hs fin H. unfold ok_C13 in H. repeat rewrite andb_true_iff in H.
  destruct H as [[[[H1 H2] H3] H4] H5]. unfold Spec_C13.
  split; [apply (nodupb_spec jid jid_eqb jid_eqb_eq); assumption|].
  split.
  - intros h Hin. rewrite forallb_forall in H2. specialize (H2 h Hin). apply andb_true_iff in H2.
    destruct H2 as [Ho Hr]. split; [assumption | apply ok_ryw_sound; assumption].
  - split; [apply (nodupb_spec jid jid_eqb jid_eqb_eq); assumption|].
    intros j. split; [apply inclb_spec; assumption | apply inclb_spec; assumption].
Qed.

(* ---------- created ids stay ---------- *)
Definition Spec_exist (h : list (op * out)) : Prop :=
  forall h1 o x h2 o' x' h3,
    h = h1 ++ (o, x) :: h2 ++ (o', x') :: h3 ->
    (exists j, x = OJid j /\ op_job o' = Some j) \/ (exists s, x = OSid s /\ op_search o' = Some s) ->
    x' <> OErr EKey.

Lemma is_ekey_spec : forall x, is_ekey x = true <-> x = OErr EKey.
Proof. intros x. destruct x as [| | | | | | | | | | |e]; cbn [is_ekey]; try (split; [discriminate | intros H; inversion H]). destruct e; split; intros H; try discriminate H; try reflexivity; inversion H. Qed.

Lemma known_j_incl : forall kj x j, In j kj -> In j (known_j kj x).
Proof. intros kj x j H. unfold known_j. destruct x; auto. right. assumption. Qed.
Lemma known_s_incl : forall ks x s, In s ks -> In s (known_s ks x).
Proof. intros ks x s H. unfold known_s. destruct x; auto. right. assumption. Qed.

Lemma exist_go_known : forall h ks kj, exist_go ks kj h = true ->
  forall h2 o' x' h3, h = h2 ++ (o', x') :: h3 ->
  ((exists j, In j kj /\ op_job o' = Some j) \/ (exists s, In s ks /\ op_search o' = Some s)) -> x' <> OErr EKey.
Proof.
  induction h as [|[o1 x1] t IH]; intros ks kj Hgo h2 o' x' h3 Heq Hk.
  - destruct h2; discriminate Heq.
  - cbn [exist_go] in Hgo. apply andb_true_iff in Hgo. destruct Hgo as [Hev Hgo].
    destruct h2 as [|e2 h2'].
    + cbn [app] in Heq. inversion Heq. subst. intros Hx. unfold exist_ev in Hev. apply negb_true_iff in Hev.
      apply andb_false_iff in Hev. destruct Hev as [Hev|Hev].
      * rewrite (proj2 (is_ekey_spec _) Hx) in Hev. discriminate Hev.
      * apply orb_false_iff in Hev. destruct Hev as [E1 E2]. destruct Hk as [[j [Hin Hj]] | [s [Hin Hs]]].
        -- rewrite Hj in E1. apply (memb_in jid jid_eqb jid_eqb_eq) in Hin. congruence.
        -- rewrite Hs in E2. apply (memb_in Z Z.eqb Z.eqb_eq) in Hin. congruence.
    + cbn [app] in Heq. inversion Heq. subst. eapply (IH _ _ Hgo); [reflexivity|].
      destruct Hk as [[j [Hin Hj]] | [s [Hin Hs]]]; [left | right].
      * exists j. split; [apply known_j_incl; assumption | assumption].
      * exists s. split; [apply known_s_incl; assumption | assumption].
Qed.

Theorem ok_exist_sound : forall h, ok_exist h = true -> Spec_exist h.
Proof.
  unfold ok_exist. intros h. generalize (@nil Z) as ks. generalize (@nil jid) as kj.
  induction h as [|[o1 x1] t IH]; intros kj ks Hgo h1 o x h2 o' x' h3 Heq Hk.
  - destruct h1; discriminate Heq.
  - cbn [exist_go] in Hgo. apply andb_true_iff in Hgo. destruct Hgo as [_ Hgo].
    destruct h1 as [|e1 h1'].
    + cbn [app] in Heq. inversion Heq. subst.
      eapply (exist_go_known _ _ _ Hgo); [reflexivity|].
      destruct Hk as [[j [-> Hj]] | [s [-> Hs]]]; [left; exists j | right; exists s]; cbn [known_j known_s]; auto with datatypes.
    + cbn [app] in Heq. inversion Heq. subst. eapply IH; eauto.
Qed.
