(* Entry points for the extracted driver: data -> data.   Encodings (harness/vp/props/c13.py mirrors them):
     val   = ( z ... )                         flat canonical serialisation, opaque to the model
     fval  = ( 0 val ) | ( 1 ( (k val) ... ) )
     jid   = ( s p )          jrec = ( (k fval) ... )
     op    = ( tag args... )  out  = ( tag payload )      tags below *)
From Coq Require Import List ZArith Bool.
Import ListNotations.
Require Import DH.Common.Data DH.C13_Storage.Model DH.C13_Storage.Check.
Open Scope Z_scope.

Definition d_val (d : data) : val := dmap dZ d.
Definition d_kv {A} (f : data -> A) (d : data) : Z * A := (dZ (dnth 0 d), f (dnth 1 d)).
Definition d_fval (d : data) : fval :=
  match dZ (dnth 0 d) with
  | 0 => FV (d_val (dnth 1 d))
  | _ => FM (dmap (d_kv d_val) (dnth 1 d))
  end.
Definition d_jid (d : data) : jid := (dZ (dnth 0 d), dZ (dnth 1 d)).
Definition d_rec (d : data) : jrec := dmap (d_kv d_fval) d.

Definition d_op (d : data) : op :=
  let a := fun n => dnth n d in
  match dZ (a 0%nat) with
  | 0 => CreateSearch
  | 1 => CreateJob (dZ (a 1%nat))
  | 2 => StoreJob (d_jid (a 1%nat)) (dZ (a 2%nat)) (d_fval (a 3%nat))
  | 3 => StoreJobIn (d_jid (a 1%nat)) (d_val (a 2%nat)) (d_val (a 3%nat))
  | 4 => StoreJobOut (d_jid (a 1%nat)) (d_fval (a 2%nat))
  | 5 => StoreJobStatus (d_jid (a 1%nat)) (d_fval (a 2%nat))
  | 6 => StoreMeta (d_jid (a 1%nat)) (dZ (a 2%nat)) (d_val (a 3%nat))
  | 7 => StoreSearchValue (dZ (a 1%nat)) (dZ (a 2%nat)) (d_fval (a 3%nat))
  | 8 => LoadAllSearchIds
  | 9 => LoadAllJobIds (dZ (a 1%nat))
  | 10 => LoadSearch (dZ (a 1%nat))
  | 11 => LoadJob (d_jid (a 1%nat))
  | 12 => LoadSearchValue (dZ (a 1%nat)) (dZ (a 2%nat))
  | 13 => LoadMetaAll (dZ (a 1%nat)) (dZ (a 2%nat))
  | 14 => LoadOutAll (dZ (a 1%nat))
  | 15 => LoadJobs (dmap d_jid (a 1%nat))
  | _ => LoadJobStatus (d_jid (a 1%nat))
  end.

Definition d_err (z : Z) : err :=
  match z with 0 => EKey | 1 => EType | 2 => EAttr | _ => EUnmodelled end.

Definition d_out (d : data) : out :=
  let p := dnth 1 d in
  match dZ (dnth 0 d) with
  | 0 => ONone
  | 1 => OSid (dZ p)
  | 2 => OJid (d_jid p)
  | 3 => OSids (dmap dZ p)
  | 4 => OJids (dmap d_jid p)
  | 5 => OFval (d_fval p)
  | 6 => OVals (dmap d_val p)
  | 7 => OFvals (dmap d_fval p)
  | 8 => ORec (d_rec p)
  | 9 => ORecs (dmap (d_kv d_rec) p)
  | 10 => OJobs (dmap (dpair d_jid d_rec) p)
  | _ => OErr (d_err (dZ p))
  end.

Definition e_val (v : val) : data := elist eZ v.
Definition e_kv {A} (f : A -> data) (x : Z * A) : data := L [I (fst x); f (snd x)].
Definition e_fval (f : fval) : data :=
  match f with FV v => L [I 0; e_val v] | FM m => L [I 1; elist (e_kv e_val) m] end.
Definition e_jid (j : jid) : data := L [I (fst j); I (snd j)].
Definition e_rec (r : jrec) : data := elist (e_kv e_fval) r.
Definition e_err (e : err) : Z := match e with EKey => 0 | EType => 1 | EAttr => 2 | EUnmodelled => 3 end.

Definition e_out (o : out) : data :=
  match o with
  | ONone => L [I 0; L []]
  | OSid s => L [I 1; I s]
  | OJid j => L [I 2; e_jid j]
  | OSids l => L [I 3; elist eZ l]
  | OJids l => L [I 4; elist e_jid l]
  | OFval v => L [I 5; e_fval v]
  | OVals l => L [I 6; elist e_val l]
  | OFvals l => L [I 7; elist e_fval l]
  | ORec r => L [I 8; e_rec r]
  | ORecs l => L [I 9; elist (e_kv e_rec) l]
  | OJobs l => L [I 10; elist (epair e_jid e_rec) l]
  | OErr e => L [I 11; I (e_err e)]
  end.

Definition d_hist (d : data) : list (op * out) := dmap (dpair d_op d_out) d.

Definition entries : list (Z * (data -> data)) :=
  [ (1301, fun d => elist e_out (outs init (dmap d_op d)));
    (1302, fun d => elist e_out (snd (run_prefix init (dmap d_op d))));
    (1303, fun d => ebool (ids_fresh_b (dmap d_out d)));
    (1304, fun d => ebool (ok_ryw (d_hist d)));
    (1306, fun d => ebool (ok_exist (d_hist d)));
    (1305, fun d => ebool (ok_C13 (dmap d_jid (dnth 0 d)) (dmap d_hist (dnth 1 d)) (dmap d_jid (dnth 2 d)))) ].
