(* C13 - the statements of Property.v, proved here so that Property.v only says `exact`. *)
From Coq Require Import List ZArith Bool Arith.
Import ListNotations.
Require Import DH.C13_Storage.Model DH.C13_Storage.Lemmas DH.C13_Storage.Check DH.C13_Storage.LemmasRyw DH.C13_Storage.LemmasExist.
Open Scope Z_scope.

Lemma C13_fresh_ids_proof : forall ops,
  NoDup (sids_of (outs init ops)) /\ NoDup (jids_of (outs init ops)).
Proof.
  intros ops. split; [apply (fresh_sids ops init wf_init) | apply (fresh_jids ops init wf_init)].
Qed.

Lemma C13_fresh_ids_from_proof : forall ops0 ops, let c := final init ops0 in
  NoDup (jids_of (outs c ops)) /\ (forall j, In j (jids_of (outs c ops)) -> a_jex (abs c) j = false)
  /\ NoDup (sids_of (outs c ops)) /\ (forall s, In s (sids_of (outs c ops)) -> a_sex (abs c) s = false).
Proof.
  intros ops0 ops c. assert (Hwf : wf c) by (apply wf_final; apply wf_init).
  destruct (fresh_jids ops c Hwf). destruct (fresh_sids ops c Hwf). auto.
Qed.

Lemma C13_read_your_writes_proof : forall ops0 o, let c := final init ops0 in
  aeq (abs (fst (step c o))) (anext o (abs c)) /\ out_ok (abs c) o (snd (step c o)).
Proof.
  intros ops0 o c. assert (Hwf : wf c) by (apply wf_final; apply wf_init).
  split; [apply step_refines_state | apply step_refines_out]; assumption.
Qed.

Lemma C13_read_your_writes_history_proof : forall ops0 ops,
  Spec_ryw (combine ops (outs (final init ops0) ops)).
Proof. intros. apply ok_ryw_sound. apply model_ok_ryw. Qed.

Lemma C13_isolation_proof : forall ops0 o, let c := final init ops0 in
  (forall j k, a_jex (abs c) j = true -> target o <> Some (j, k) ->
     a_cell (abs (fst (step c o))) (fst j) (snd j) k = a_cell (abs c) (fst j) (snd j) k)
  /\ (forall s k, (forall v, o <> StoreSearchValue s k v) -> a_sval (abs (fst (step c o))) s k = a_sval (abs c) s k)
  /\ (forall j k v, o = StoreMeta j k v -> snd (step c o) = ONone ->
        exists m, a_cell (abs c) (fst j) (snd j) K_META = Some (FM m)
                  /\ a_cell (abs (fst (step c o))) (fst j) (snd j) K_META = Some (FM (aset k v m)))
  /\ (is_load o = true -> fst (step c o) = c).
Proof.
  intros ops0 o c. assert (Hwf : wf c) by (apply wf_final; apply wf_init).
  split; [intros; apply step_frame; assumption|].
  split; [intros; apply step_frame_sval; assumption|].
  split; [intros j k v -> Hn; apply store_meta_then_cell; assumption|].
  apply load_pure.
Qed.

Lemma C13_final_union_proof : forall ops0 ops j, let c := final init ops0 in
  a_jex (abs (final c ops)) j = true <-> a_jex (abs c) j = true \/ In j (jids_of (outs c ops)).
Proof. intros. apply final_jobs_union. apply wf_final. apply wf_init. Qed.

Lemma C13_interleaving_proof : forall ops0 (H : list (nat * op)), let c := final init ops0 in
  let E := events c H in
  (forall y, owned_go [] (proj y E) = true) ->
  (forall y, ok_ryw (proj y E) = true /\ Spec_ryw (proj y E))
  /\ NoDup (jids_of (outs c (map snd H)))
  /\ (forall j, In j (jids_of (outs c (map snd H))) -> a_jex (abs c) j = false)
  /\ (forall j, a_jex (abs (final c (map snd H))) j = true <-> a_jex (abs c) j = true \/ In j (jids_of (outs c (map snd H)))).
Proof.
  intros ops0 H c E Hown. destruct (interleaving_clients ops0 H Hown) as [H1 [H2 H3]].
  split; [|split; [assumption | split; [assumption|]]].
  - intros y. split; [apply H1 | apply ok_ryw_sound; apply H1].
  - intros j. apply final_jobs_union. apply wf_final. apply wf_init.
Qed.

Lemma C13_nonatomic_refuted_proof : exists sched,
  snd (mrun 0 (final init [CreateSearch]) None None create_micro create_micro sched) = [(0, 0); (0, 0)].
Proof. exists [false; true; false; true; false; true]. vm_compute. reflexivity. Qed.

Lemma C13_search_value_prefix_refuted_proof : exists ops,
  let xs := snd (run_prefix init ops) in
  ids_fresh_b xs = false /\ ok_ryw (combine ops xs) = false.
Proof.
  exists [CreateSearch; CreateJob 0; StoreJobOut (0, 0) (FV [1; 7]); StoreSearchValue 0 K_COUNTER (FV [1; 0]);
          CreateJob 0; LoadJob (0, 0)].
  vm_compute. split; reflexivity.
Qed.

Lemma C13_created_stays_proof : forall ops, Spec_exist (combine ops (outs init ops)).
Proof. intros. apply ok_exist_sound. apply model_ok_exist. Qed.

(* a load can be repeated: same answer, same state (no cache or counter is disturbed by reading) *)
Lemma C13_load_repeatable_proof : forall c o, is_load o = true ->
  step (fst (step c o)) o = step c o /\ (forall ops, outs (fst (step c o)) ops = outs c ops).
Proof.
  intros c o H. rewrite (load_pure c o H). split; [reflexivity | intros; reflexivity].
Qed.
