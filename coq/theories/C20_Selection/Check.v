(* C20 - boolean oracles applied to the IMPLEMENTATION's outputs, with their reflection lemmas. *)
From Coq Require Import List ZArith QArith Bool Arith Lia Permutation Sorted.
Import ListNotations.
Require Import DH.C20_Selection.Model DH.C20_Selection.LemmasTopk DH.C20_Selection.LemmasGreedy DH.C20_Selection.LemmasFinal.
Open Scope nat_scope.

Fixpoint nodupn (l : list nat) : bool :=
  match l with [] => true | x :: t => negb (memn x t) && nodupn t end.

Lemma nodupn_NoDup l : nodupn l = true <-> NoDup l.
Proof.
  induction l as [|x t IH]; cbn [nodupn]; [split; [constructor|reflexivity]|].
  rewrite andb_true_iff, negb_true_iff, IH, memn_false. split.
  - intros [H1 H2]. constructor; assumption.
  - intros H. inversion H; subst. split; assumption.
Qed.

(* ---------------------------------------------------------------- argsort as an oracle: is it a sorting permutation? *)
Fixpoint sorted_adj (ls : list Q) (l : list nat) : bool :=
  match l with
  | a :: (b :: _) as t => Qle_bool (lossq ls a) (lossq ls b) && sorted_adj ls t
  | _ => true
  end.

Definition ok_sorting_perm (ls : list Q) (order : list nat) : bool :=
  (length order =? length ls) && forallb (fun i => memn i order) (seq 0 (length ls)) && sorted_adj ls order.

Lemma sorted_adj_SS ls l : sorted_adj ls l = true -> StronglySorted (le_loss ls) l.
Proof.
  intros H. apply Sorted_StronglySorted; [intros x y z; apply le_loss_trans|].
  induction l as [|a t IH]; [constructor|]. destruct t as [|b t'].
  - constructor; constructor.
  - cbn [sorted_adj] in H. apply andb_true_iff in H as [H1 H2]. apply Qle_bool_iff in H1.
    constructor; [apply IH; exact H2|]. constructor. exact H1.
Qed.

Lemma ok_sorting_perm_sound ls order : ok_sorting_perm ls order = true -> SortingPerm ls order.
Proof.
  unfold ok_sorting_perm. rewrite !andb_true_iff. intros [[H1 H2] H3]. apply Nat.eqb_eq in H1.
  split; [|apply sorted_adj_SS; exact H3].
  apply Permutation_sym, NoDup_Permutation_bis.
  - apply seq_NoDup.
  - rewrite seq_length. lia.
  - intros i Hi. rewrite forallb_forall in H2. apply memn_In, H2, Hi.
Qed.

(* ---------------------------------------------------------------- TopK *)
Definition ok_topk (ls : list Q) (k : nat) (out : list nat) : bool :=
  (length out =? Nat.min k (length ls)) && nodupn out && forallb (fun i => i <? length ls) out
  && forallb (fun i => forallb (fun j => memn j out || Qle_bool (lossq ls i) (lossq ls j)) (seq 0 (length ls))) out.

Lemma ok_topk_spec ls k out : ok_topk ls k out = true <-> TopkSpec ls k out.
Proof.
  unfold ok_topk, TopkSpec. rewrite !andb_true_iff, Nat.eqb_eq, nodupn_NoDup, !forallb_forall. split.
  - intros [[[H1 H2] H3] H4]. repeat split; try assumption.
    + intros i Hi. apply Nat.ltb_lt, H3, Hi.
    + intros i j Hi Hj Hnj. specialize (H4 i Hi). rewrite forallb_forall in H4.
      assert (Hin : In j (seq 0 (length ls))) by (apply in_seq; lia). specialize (H4 j Hin).
      apply orb_true_iff in H4 as [H4|H4]; [apply memn_In in H4; contradiction|apply Qle_bool_iff; exact H4].
  - intros (H1 & H2 & H3 & H4). repeat split; try assumption.
    + intros i Hi. apply Nat.ltb_lt, H3, Hi.
    + intros i Hi. apply forallb_forall. intros j Hj. apply in_seq in Hj.
      destruct (memn j out) eqn:E; [reflexivity|]. cbn [orb]. apply Qle_bool_iff. apply H4; [exact Hi|lia|].
      apply memn_false. exact E.
Qed.

(* ---------------------------------------------------------------- greedy: the returned (indices, weights) *)
Fixpoint increasing (l : list nat) : bool :=
  match l with
  | a :: (b :: _) as t => (a <? b) && increasing t
  | _ => true
  end.

Lemma increasing_SS l : increasing l = true <-> StronglySorted lt l.
Proof.
  split.
  - intros H. apply Sorted_StronglySorted; [intros x y z; apply Nat.lt_trans|].
    induction l as [|a t IH]; [constructor|]. destruct t as [|b t'].
    + constructor; constructor.
    + cbn [increasing] in H. apply andb_true_iff in H as [H1 H2]. apply Nat.ltb_lt in H1.
      constructor; [apply IH; exact H2|]. constructor. exact H1.
  - intros H. apply StronglySorted_Sorted in H. induction l as [|a t IH]; [reflexivity|]. destruct t as [|b t'].
    + reflexivity.
    + cbn [increasing]. inversion H as [|? ? Hs Hh]; subst. inversion Hh; subst.
      apply andb_true_iff. split; [apply Nat.ltb_lt; assumption|apply IH; exact Hs].
Qed.

Definition ok_idx (n : nat) (idx : list nat) : bool := increasing idx && forallb (fun i => i <? n) idx.
Definition ok_count (bound : nat) (idx : list nat) : bool := (1 <=? length idx) && (length idx <=? bound).
Definition ok_pos (ws : list Q) : bool := forallb (fun w => negb (Qle_bool w 0)) ws.
Definition ok_sum (tol : Q) (ws : list Q) : bool := Qle_bool (1 - tol) (sumQ ws) && Qle_bool (sumQ ws) (1 + tol).

Definition ok_wf (tol : Q) (n bound : nat) (out : list (nat * Q)) : bool :=
  ok_idx n (map fst out) && ok_count bound (map fst out) && ok_pos (map snd out) && ok_sum tol (map snd out).

Lemma ok_wf_spec tol n bound out : ok_wf tol n bound out = true <-> GreedyWF tol n bound out.
Proof.
  unfold ok_wf, GreedyWF, ok_idx, ok_count, ok_pos, ok_sum.
  rewrite !andb_true_iff, increasing_SS, !forallb_forall, !Forall_forall, Nat.leb_le, Nat.leb_le, !Qle_bool_iff, map_length.
  split.
  - intros [[[[H1 H2] [H3 H4]] H5] [H6 H7]]. repeat split; try assumption.
    + intros i Hi. apply Nat.ltb_lt, H2, Hi.
    + intros w Hw. specialize (H5 w Hw). apply negb_true_iff in H5.
      destruct (Qlt_le_dec 0 w) as [Hl|Hl]; [exact Hl|]. apply Qle_bool_iff in Hl. congruence.
  - intros (H1 & H2 & [H3 H4] & H5 & H6 & H7). repeat split; try assumption.
    + intros i Hi. apply Nat.ltb_lt, H2, Hi.
    + intros w Hw. specialize (H5 w Hw). apply negb_true_iff.
      destruct (Qle_bool w 0) eqn:E; [|reflexivity]. apply Qle_bool_iff in E. exfalso. eapply Qlt_not_le; eauto.
Qed.

(* the aggregated loss of the returned ensemble against that of the starting ensemble *)
Definition ok_noworse (tol L0 Lf : Q) : bool := Qle_bool Lf (L0 + tol).
Lemma ok_noworse_spec tol L0 Lf : ok_noworse tol L0 Lf = true <-> (Lf <= L0 + tol)%Q.
Proof. apply Qle_bool_iff. Qed.

(* ---------------------------------------------------------------- EnsemblePredictor: member order *)
Fixpoint eqb_list (a b : list nat) : bool :=
  match a, b with
  | [], [] => true
  | x :: s, y :: t => (x =? y) && eqb_list s t
  | _, _ => false
  end.
Lemma eqb_list_eq a : forall b, eqb_list a b = true <-> a = b.
Proof.
  induction a as [|x s IH]; intros [|y t]; cbn [eqb_list]; try (split; [discriminate|discriminate]); [split; reflexivity|].
  rewrite andb_true_iff, Nat.eqb_eq, IH. split; [intros [-> ->]; reflexivity|intros H; inversion H; auto].
Qed.

(* members returned = [0; 1; ...; n-1] (each member's prediction is tagged with its position) *)
Definition ok_member_order (n : nat) (out : list nat) : bool := eqb_list out (seq 0 n).
Lemma ok_member_order_spec n out : ok_member_order n out = true <-> out = seq 0 n.
Proof. apply eqb_list_eq. Qed.

(* ---------------------------------------------------------------- the model meets the specifications *)
Theorem model_topk_ok ls order k : SortingPerm ls order -> ok_topk ls k (topk k order) = true.
Proof. intros H. apply ok_topk_spec, topk_spec, H. Qed.

Theorem model_greedy_ok fixed o n order L0 L bags fuel sel loss :
  Permutation order (seq 0 n) -> 1 <= n -> 1 <= o_kinit o ->
  greedy fixed o n order L0 L bags fuel = Done sel loss ->
  ok_wf 0 n (Nat.max (o_k o) (Nat.min (o_kinit o) n)) (finalize n sel) = true.
Proof.
  intros Hp Hn Hk H. apply ok_wf_spec.
  destruct (greedy_wellformed fixed o n order L0 L bags fuel sel loss Hp Hn Hk H) as (Hwf & _ & Hl).
  rewrite <- Hl. exact Hwf.
Qed.
