(* C20 - Ensemble selection and prediction are well-formed and order-stable.  Property theorems only.

   Quantification: every number n >= 1 of candidates, every loss oracle L0 / L (the aggregated losses), every sorting
   permutation returned by argsort (numpy's is not stable), every sequence of bootstrap draws, every option record,
   every fuel.  fixed = true is the code after fixes/F19_greedy_no_admissible_candidate.patch, fixed = false the
   code of /repo before it. *)
From Coq Require Import List ZArith QArith Bool Arith Permutation Sorted.
Import ListNotations.
Require Import DH.C20_Selection.Model DH.C20_Selection.LemmasTopk DH.C20_Selection.LemmasGreedy
  DH.C20_Selection.LemmasFinal DH.C20_Selection.LemmasRefute DH.C20_Selection.LemmasOrder DH.C20_Selection.Check.
Open Scope nat_scope.

(* TopK returns min k n distinct valid indices, each with a loss <= that of every candidate not returned -
   whatever sorting permutation argsort chose among ties *)
Theorem C20_topk : forall ls order k, SortingPerm ls order ->
  let out := topk k order in
  length out = Nat.min k (length ls) /\ NoDup out /\ (forall i, In i out -> i < length ls)
  /\ (forall i j, In i out -> j < length ls -> ~ In j out -> (lossq ls i <= lossq ls j)%Q).
Proof. exact topk_spec. Qed.
Print Assumptions C20_topk.

(* the hypothesis of C20_topk is satisfiable for every loss list: a concrete (stable) argsort *)
Theorem C20_argsort_exists : forall ls, SortingPerm ls (argsort ls).
Proof. exact argsort_sorting_perm. Qed.
Print Assumptions C20_argsort_exists.

(* greedy (today's and repaired code alike), whenever it returns: strictly increasing (so distinct) valid indices,
   between 1 and max k |init| of them, weights > 0 summing to exactly 1, the indices being the members selected *)
Theorem C20_greedy_wellformed : forall fixed o n order L0 L bags fuel sel loss,
  Permutation order (seq 0 n) -> 1 <= n -> 1 <= o_kinit o ->
  greedy fixed o n order L0 L bags fuel = Done sel loss ->
  let out := finalize n sel in
  (StronglySorted lt (map fst out) /\ Forall (fun i => i < n) (map fst out)
   /\ 1 <= length out <= Nat.max (o_k o) (length (init_sel o order))
   /\ Forall (fun w => 0 < w)%Q (map snd out)
   /\ (1 - 0 <= sumQ (map snd out) /\ sumQ (map snd out) <= 1 + 0)%Q)
  /\ (forall i, In i (map fst out) <-> In i sel)
  /\ length (init_sel o order) = Nat.min (o_kinit o) n.
Proof. exact greedy_wellformed. Qed.
Print Assumptions C20_greedy_wellformed.

(* "selection never fails": the repaired code never raises and, in each of the three classes of options for which
   the loop has a reason to end (an iteration bound; no replacement; early stopping with eps_tol > 0 and losses >= 0),
   it returns within the stated fuel *)
Theorem C20_greedy_total : forall o n order L0 L bags fuel,
  ((exists m, o_maxit o = Some m /\ m < fuel)
   \/ (o_repl o = false /\ n < fuel)
   \/ (o_es o = true /\ (0 < o_eps o)%Q /\ (forall ms, 0 <= L ms)%Q /\ (0 <= L0)%Q
       /\ (L0 < inject_Z (Z.of_nat fuel) * o_eps o)%Q)) ->
  exists sel loss, greedy true o n order L0 L bags fuel = Done sel loss.
Proof. exact greedy_total. Qed.
Print Assumptions C20_greedy_total.

(* a fuel that satisfies the third class exists for every L0 >= 0 *)
Theorem C20_greedy_total_fuel : forall L0 eps, (0 < eps)%Q -> (0 <= L0)%Q ->
  (L0 < inject_Z (Z.of_nat (fuel_es L0 eps)) * eps)%Q.
Proof. exact fuel_es_enough. Qed.
Print Assumptions C20_greedy_total_fuel.

(* the repaired code has no error outcome at all, for any options and any fuel *)
Theorem C20_greedy_never_raises : forall o n order L0 L bags fuel,
  greedy true o n order L0 L bags fuel <> ErrAllNaN.
Proof. exact greedy_never_raises. Qed.
Print Assumptions C20_greedy_never_raises.

(* with early stopping the aggregated loss of the result is no worse than the starting ensemble's, and it is the
   loss of the returned multiset (or the untouched starting ensemble) *)
Theorem C20_greedy_no_worse : forall fixed o n order L0 L bags fuel sel loss,
  o_es o = true -> (0 <= o_eps o)%Q ->
  greedy fixed o n order L0 L bags fuel = Done sel loss ->
  (loss <= L0)%Q /\ ((sel = init_sel o order /\ loss = L0) \/ loss = L sel).
Proof. exact greedy_no_worse. Qed.
Print Assumptions C20_greedy_no_worse.

(* several select() calls on ONE selector object: the only state that survives a call is the position of the RandomState,
   i.e. which bootstrap draws the next call sees.  Without bagging the draws are never consulted - the answer is a function
   of the call's own inputs (no dependence on earlier calls); with bagging a call that starts [off] draws into the stream
   is the call on the shifted stream, so every theorem above applies to it (they hold for every stream). *)
Theorem C20_greedy_stateless : forall fixed o n order L0 L bags bags' fuel,
  o_bag o = false -> greedy fixed o n order L0 L bags fuel = greedy fixed o n order L0 L bags' fuel.
Proof. exact greedy_stateless. Qed.
Print Assumptions C20_greedy_stateless.

Theorem C20_greedy_stream_position : forall fixed o n L bags off fuel it sel lmin,
  o_maxit o = None ->
  loop fixed o n L bags fuel (off + it) sel lmin = loop fixed o n L (fun j => bags (off + j)) fuel it sel lmin.
Proof. exact loop_shift. Qed.
Print Assumptions C20_greedy_stream_position.

(* every accepted step picks an admissible candidate, a minimal one, and (with early stopping) lowers the loss by more than eps_tol *)
Theorem C20_greedy_step : forall o n sel lmin bag cand i l,
  step o n sel lmin bag cand = SAdd i l ->
  i < length cand /\ masked o sel bag i = false /\ l = nth i cand 0%Q
  /\ (o_es o = true -> (l < lmin - o_eps o)%Q).
Proof. exact step_add. Qed.
Print Assumptions C20_greedy_step.

(* sorting the gathered jobs by id gives back the submitted list, for every completion order *)
Theorem C20_order_by_id : forall (A : Type) (subm done : list (Z * A)),
  StronglySorted Z.lt (map fst subm) -> Permutation done subm -> order_by_id done = subm.
Proof. exact order_by_id_restores. Qed.
Print Assumptions C20_order_by_id.

(* several calls on ONE ensemble: whatever the number [base] of jobs submitted by the earlier calls, the members'
   predictions come back in member order for every completion order of the call *)
Theorem C20_order_by_id_calls : forall (A : Type) (base : Z) (xs : list A) (done : list (Z * A)),
  Permutation done (numbered base xs) -> map snd (order_by_id done) = xs.
Proof. exact @order_by_id_calls. Qed.
Print Assumptions C20_order_by_id_calls.

(* calls that fail: with close() after a failed call (the code of /repo) the evaluator holds no job of an earlier call
   when the next call starts, so in ANY sequence of calls - failed or not, any completion orders - every call that does
   not fail returns its own members' outputs in member order *)
Theorem C20_calls_after_failure : forall (A : Type) (cs : list (callin A)) (st : evst A),
  ev_left st = [] -> calls_wf true st cs ->
  run_calls true st cs = map (fun c => if c_failed c then Raised else Returned (c_xs c)) cs.
Proof. exact @run_calls_clean. Qed.
Print Assumptions C20_calls_after_failure.

(* raising from inside the gather loop without close(): the retry returns outputs of the failed call *)
Theorem C20_no_close_refuted :
  (let c1 := mkCall [10; 11; 12] true 1 [(0, 10); (1, 11); (2, 12)] in
   let c2 := mkCall [20; 21; 22] false 0 [(1, 11); (2, 12); (3, 20); (4, 21); (5, 22)] in
   calls_wf false (mkEv 0 []) [c1; c2]
   /\ run_calls false (mkEv 0 []) [c1; c2] = [Raised; Returned [11; 12; 20]]
   /\ run_calls true (mkEv 0 []) [c1; mkCall [20; 21; 22] false 0 [(5, 22); (3, 20); (4, 21)]] = [Raised; Returned [20; 21; 22]])%Z.
Proof. exact leftovers_witness. Qed.
Print Assumptions C20_no_close_refuted.

(* the ids must be compared as INTEGERS: with the decimal strings of the job numbers 9, 10, 11 (4th call of a 3-member
   ensemble, or any ensemble of more than 10 members) the same sort returns the members in the order 1, 2, 0 *)
Theorem C20_string_ids_refuted :
  let subm := [([9], 0); ([1; 0], 1); ([1; 1], 2)] in
  map (fun p => digits_value (fst p)) subm = [9; 10; 11]
  /\ map snd (order_by_digits subm) = [1; 2; 0]
  /\ map snd (order_by_id (map (fun p => (Z.of_nat (digits_value (fst p)), snd p)) subm)) = [0; 1; 2].
Proof. exact string_ids_witness. Qed.
Print Assumptions C20_string_ids_refuted.

(* ---- today's code (F19) ---- *)
(* one candidate and k > 1 - the first finished job of an online selection - raises; so does selection without
   replacement once fewer candidates than k are left *)
Theorem C20_allnan_refuted :
  (forall eps L0 L bags fuel, greedy false (mkOpts 5 1 None eps true true false) 1 [0] L0 L bags (S fuel) = ErrAllNaN)
  /\ (forall eps L0 L bags fuel, greedy false (mkOpts 5 1 None eps false false false) 2 [0; 1] L0 L bags (S (S fuel)) = ErrAllNaN).
Proof. split; [exact allnan_one_candidate|exact allnan_norepl_fewer_than_k]. Qed.
Print Assumptions C20_allnan_refuted.

(* early_stopping=False, with_replacement=True, 2 candidates < k = 5: no fuel is enough *)
Theorem C20_nontermination_refuted : forall eps L0 bags fuel,
  greedy false (mkOpts 5 1 None eps true false false) 2 [0; 1] L0 (fun _ => 0%Q) bags fuel = OutOfFuel.
Proof. exact nonterm_today. Qed.
Print Assumptions C20_nontermination_refuted.

(* ---- false by design of the options, also after the fix ---- *)
(* without early stopping the result can be worse than the start (F20) *)
Theorem C20_noES_refuted : exists sel loss,
  greedy true (mkOpts 2 1 None (1 # 1000) false false false) 2 [0; 1] 1
         (fun ms => if length ms =? 1 then 1%Q else 4%Q) (fun _ => []) 5 = Done sel loss
  /\ (1 < loss)%Q.
Proof. exact noES_worse. Qed.
Print Assumptions C20_noES_refuted.

(* without early stopping, with replacement and without max_it, a candidate that is never the best one keeps the
   loop running for ever - even with as many candidates as k (3 candidates, k = 3): the class excluded from C20_greedy_total *)
Theorem C20_noES_replacement_nontermination_refuted : forall eps bags fuel,
  greedy true (mkOpts 3 2 None eps true false false) 3 [0; 1; 2] 0
         (fun ms => inject_Z (Z.of_nat (count 2 ms))) bags fuel = OutOfFuel.
Proof. exact nonterm_residual. Qed.
Print Assumptions C20_noES_replacement_nontermination_refuted.

(* the hypothesis eps_tol > 0 of the early-stopping class is needed: with eps_tol = 0 and replacement a loss that keeps
   decreasing (1 / size of the multiset; 2 candidates, k = 3) is followed for ever *)
Theorem C20_eps0_nontermination_refuted : forall bags fuel,
  greedy true (mkOpts 3 2 None 0 true true false) 2 [0; 1] (1 # 2)
         (fun ms => 1 # Pos.of_nat (length ms)) bags fuel = OutOfFuel.
Proof. exact nonterm_eps0. Qed.
Print Assumptions C20_eps0_nontermination_refuted.

(* ---- the oracles applied to the implementation's outputs decide the specifications ---- *)
Theorem C20_oracle_topk : forall ls k out, ok_topk ls k out = true <-> TopkSpec ls k out.
Proof. exact ok_topk_spec. Qed.
Print Assumptions C20_oracle_topk.

Theorem C20_oracle_argsort : forall ls order, ok_sorting_perm ls order = true -> SortingPerm ls order.
Proof. exact ok_sorting_perm_sound. Qed.
Print Assumptions C20_oracle_argsort.

Theorem C20_oracle_greedy : forall tol n bound out, ok_wf tol n bound out = true <-> GreedyWF tol n bound out.
Proof. exact ok_wf_spec. Qed.
Print Assumptions C20_oracle_greedy.

Theorem C20_oracle_member_order : forall n out, ok_member_order n out = true <-> out = seq 0 n.
Proof. exact ok_member_order_spec. Qed.
Print Assumptions C20_oracle_member_order.

(* ---- non-vacuity ---- *)
(* ties: argsort, topk and the hypotheses of C20_topk on a list with equal losses *)
Example C20_example_topk :
  argsort [3#1; 1#1; 3#1; 1#1; 2#1]%Q = [1; 3; 4; 0; 2]
  /\ topk 3 (argsort [3#1; 1#1; 3#1; 1#1; 2#1]%Q) = [1; 3; 4]
  /\ ok_sorting_perm [3#1; 1#1; 3#1; 1#1; 2#1]%Q [3; 1; 4; 2; 0] = true.
Proof. vm_compute. repeat split; reflexivity. Qed.

(* a run of the repaired greedy that accepts steps with replacement and then stops early:
   members at +4, -2, +9 around a target at 0, loss = squared mean *)
Definition ex_pred (i : nat) : Q := match i with 0 => 4#1 | 1 => -2#1 | _ => 9#1 end.
Definition ex_L (ms : list nat) : Q :=
  let m := (fold_right Qplus 0 (map ex_pred ms) / inject_Z (Z.of_nat (length ms)))%Q in Qred (m * m).
Example C20_example_greedy :
  greedy true (mkOpts 5 1 None (1 # 1000) true true false) 3 [1; 0; 2] 4 ex_L (fun _ => []) 20 = Done [1; 0; 1] 0
  /\ map fst (finalize 3 [1; 0; 1]) = [0; 1]
  /\ map snd (finalize 3 [1; 0; 1]) = [1 # 3; 2 # 3]%Q.
Proof. vm_compute. repeat split; reflexivity. Qed.

(* the hypotheses of C20_greedy_total are satisfiable in each class *)
Example C20_example_total :
  (exists m, o_maxit (mkOpts 5 1 (Some 3) 0 true false false) = Some m /\ m < 4)
  /\ (o_repl (mkOpts 5 1 None 0 false false false) = false /\ 3 < 4)
  /\ fuel_es 4 (1 # 1000) = 4001.
Proof. split; [exists 3; split; [reflexivity|repeat constructor]|]. split; [split; [reflexivity|repeat constructor]|]. vm_compute. reflexivity. Qed.

(* completion order 2,0,1 of three jobs with ids 7,8,9 *)
Example C20_example_order :
  order_by_id [(9, 102); (7, 100); (8, 101)]%Z = [(7, 100); (8, 101); (9, 102)]%Z.
Proof. vm_compute. reflexivity. Qed.
