(* C20 - greedy selection: invariants, well-formedness of the result, monotone loss, termination. *)
From Coq Require Import List ZArith QArith Bool Arith Lia Permutation Sorted Lqa.
Import ListNotations.
Require Import DH.Common.ListSet DH.C20_Selection.Model DH.C20_Selection.LemmasTopk.
Open Scope nat_scope.

(* ------------------------------------------------------------ filters, nunique *)
Lemma filter_length_le' {A} (p : A -> bool) l : length (filter p l) <= length l.
Proof. induction l as [|a t IH]; cbn [filter length]; [lia|]. destruct (p a); cbn [length]; lia. Qed.

Lemma nunique_le n sel : nunique n sel <= n.
Proof. unfold nunique. etransitivity; [apply filter_length_le'|]. rewrite seq_length. lia. Qed.

Lemma filter_or_notin (p : nat -> bool) i l :
  ~ In i l -> filter (fun j => p j || (j =? i)) l = filter p l.
Proof.
  intros H. apply filter_ext_in. intros j Hj. destruct (Nat.eqb_spec j i) as [->|Hn]; [contradiction|].
  apply orb_false_r.
Qed.

Lemma filter_or_le (p : nat -> bool) i l :
  NoDup l -> length (filter (fun j => p j || (j =? i)) l) <= S (length (filter p l)).
Proof.
  induction l as [|a t IH]; intros Hnd; cbn [filter length]; [lia|].
  inversion Hnd as [|? ? Ha Ht]; subst.
  destruct (Nat.eqb_spec a i) as [->|Hn].
  - rewrite orb_true_r, (filter_or_notin p i t Ha). destruct (p i); cbn [length]; lia.
  - rewrite orb_false_r. specialize (IH Ht). destruct (p a); cbn [length]; lia.
Qed.

Lemma filter_or_new (p : nat -> bool) i l :
  NoDup l -> In i l -> p i = false -> length (filter (fun j => p j || (j =? i)) l) = S (length (filter p l)).
Proof.
  induction l as [|a t IH]; intros Hnd Hin Hp; [destruct Hin|]. cbn [filter].
  inversion Hnd as [|? ? Ha Ht]; subst.
  destruct (Nat.eqb_spec a i) as [->|Hn].
  - rewrite orb_true_r, Hp, (filter_or_notin p i t Ha). reflexivity.
  - rewrite orb_false_r. destruct Hin as [->|Hin]; [congruence|]. specialize (IH Ht Hin Hp).
    destruct (p a); cbn [length]; lia.
Qed.

Lemma memn_app_one j sel i : memn j (sel ++ [i]) = memn j sel || (j =? i).
Proof. unfold memn. rewrite existsb_app. cbn [existsb]. rewrite orb_false_r. reflexivity. Qed.

Lemma nunique_app_le n sel i : nunique n (sel ++ [i]) <= S (nunique n sel).
Proof.
  unfold nunique. rewrite (filter_ext _ (fun j => memn j sel || (j =? i))); [|intros j; apply memn_app_one].
  apply filter_or_le, seq_NoDup.
Qed.

Lemma nunique_app_new n sel i : i < n -> memn i sel = false -> nunique n (sel ++ [i]) = S (nunique n sel).
Proof.
  intros Hi Hm. unfold nunique.
  rewrite (filter_ext _ (fun j => memn j sel || (j =? i))); [|intros j; apply memn_app_one].
  apply filter_or_new; [apply seq_NoDup|apply in_seq; lia|exact Hm].
Qed.

(* nunique is the number of distinct elements (np.unique) for valid index lists *)
Lemma nunique_nodup n sel : Forall (fun i => i < n) sel -> nunique n sel = length (nodup Nat.eq_dec sel).
Proof.
  intros Hv. unfold nunique. apply Permutation_length. apply NoDup_Permutation.
  - apply NoDup_filter, seq_NoDup.
  - apply NoDup_nodup.
  - intros x. rewrite filter_In, nodup_In, in_seq, memn_In. rewrite Forall_forall in Hv. split.
    + intros [_ H]. exact H.
    + intros H. split; [specialize (Hv x H); lia|exact H].
Qed.

Lemma nunique_of_nodup n sel : Forall (fun i => i < n) sel -> NoDup sel -> nunique n sel = length sel.
Proof. intros Hv Hnd. rewrite (nunique_nodup n sel Hv), (nodup_fixed_point Nat.eq_dec Hnd). reflexivity. Qed.

(* ------------------------------------------------------------ nanargmin, step *)
Lemma nanargmin_spec c : forall s i q, nanargmin s c = Some (i, q) ->
  s <= i /\ i < s + length c /\ nth (i - s) c None = Some q.
Proof.
  induction c as [|x t IH]; intros s i q H; cbn [nanargmin] in H; [discriminate|].
  assert (Hrec : forall i' q', nanargmin (S s) t = Some (i', q') ->
            s <= i' /\ i' < s + length (x :: t) /\ nth (i' - s) (x :: t) None = Some q').
  { intros i' q' E. destruct (IH _ _ _ E) as (H1 & H2 & H3). cbn [length]. repeat split; try lia.
    replace (i' - s) with (S (i' - S s)) by lia. exact H3. }
  assert (Hhere : forall q', x = Some q' -> s <= s /\ s < s + length (x :: t) /\ nth (s - s) (x :: t) None = Some q').
  { intros q' ->. cbn [length]. rewrite Nat.sub_diag. repeat split; lia. }
  destruct x as [q0|].
  - destruct (nanargmin (S s) t) as [[j q']|] eqn:E.
    + destruct (Qle_bool q0 q'); inversion H; subst; [apply Hhere; reflexivity|apply Hrec; reflexivity].
    + inversion H; subst. apply Hhere; reflexivity.
  - apply Hrec. exact H.
Qed.

Lemma nanargmin_none c : forall s, nanargmin s c = None -> Forall (fun x => x = None) c.
Proof.
  induction c as [|x t IH]; intros s H; [constructor|]. cbn [nanargmin] in H.
  destruct x as [q0|].
  - destruct (nanargmin (S s) t) as [[j q']|]; [destruct (Qle_bool q0 q')|]; discriminate.
  - constructor; [reflexivity|eapply IH; exact H].
Qed.

(* the selected candidate is minimal among the unmasked ones *)
Lemma nanargmin_min c : forall s i q, nanargmin s c = Some (i, q) ->
  forall j q', nth j c None = Some q' -> (q <= q')%Q.
Proof.
  induction c as [|x t IH]; intros s i q H j q' Hj; [destruct j; discriminate|].
  cbn [nanargmin] in H. destruct x as [q0|].
  - destruct (nanargmin (S s) t) as [[i1 q1]|] eqn:E.
    + destruct (Qle_bool q0 q1) eqn:Eq; inversion H; subst.
      * apply Qle_bool_iff in Eq. destruct j as [|j]; cbn [nth] in Hj.
        -- inversion Hj; subst. apply Qle_refl.
        -- eapply Qle_trans; [exact Eq|]. eapply IH; eauto.
      * assert (Hlt : (q < q0)%Q).
        { destruct (Qlt_le_dec q q0) as [Hl|Hl]; [exact Hl|]. apply Qle_bool_iff in Hl. congruence. }
        destruct j as [|j]; cbn [nth] in Hj.
        -- inversion Hj; subst. apply Qlt_le_weak. exact Hlt.
        -- eapply IH; eauto.
    + inversion H; subst. destruct j as [|j]; cbn [nth] in Hj.
      * inversion Hj; subst. apply Qle_refl.
      * apply nanargmin_none in E. rewrite Forall_forall in E.
        destruct (Nat.lt_ge_cases j (length t)) as [Hl|Hl].
        -- specialize (E (nth j t None) (nth_In _ _ Hl)). congruence.
        -- rewrite nth_overflow in Hj by exact Hl. discriminate.
  - destruct j as [|j]; cbn [nth] in Hj; [discriminate|]. eapply IH; eauto.
Qed.

Lemma nth_map_combine_seq {B} (f : nat * Q -> B) (d : B) c : forall s i, i < length c ->
  nth i (map f (combine (seq s (length c)) c)) d = f (s + i, nth i c 0%Q).
Proof.
  induction c as [|x t IH]; intros s i Hi; cbn [length] in *; [lia|].
  cbn [seq combine map]. destruct i as [|i]; cbn [nth].
  - rewrite Nat.add_0_r. reflexivity.
  - rewrite IH by lia. f_equal. f_equal. lia.
Qed.

Lemma mask_cands_length o sel bag cand : length (mask_cands o sel bag cand) = length cand.
Proof. unfold mask_cands. rewrite map_length, combine_length, seq_length. lia. Qed.

Lemma mask_cands_nth o sel bag cand i : i < length cand ->
  nth i (mask_cands o sel bag cand) None = if masked o sel bag i then None else Some (nth i cand 0%Q).
Proof. intros Hi. unfold mask_cands. rewrite nth_map_combine_seq by exact Hi. reflexivity. Qed.

Lemma step_add o n sel lmin bag cand i l : step o n sel lmin bag cand = SAdd i l ->
  i < length cand /\ masked o sel bag i = false /\ l = nth i cand 0%Q
  /\ (o_es o = true -> (l < lmin - o_eps o)%Q).
Proof.
  unfold step. intros H.
  destruct (nanargmin 0 (mask_cands o sel bag cand)) as [[i' l']|] eqn:E; [|discriminate].
  destruct (_ || _) eqn:Ec in H; [discriminate|]. inversion H; subst i' l'.
  apply nanargmin_spec in E as (_ & H2 & H3). rewrite mask_cands_length in H2. cbn [plus] in H2.
  rewrite Nat.sub_0_r, mask_cands_nth in H3 by exact H2.
  split; [exact H2|]. destruct (masked o sel bag i); [discriminate|]. inversion H3; subst.
  repeat split. intros Hes. rewrite Hes in Ec. cbn [andb] in Ec. apply orb_false_iff in Ec as [Ec _].
  destruct (Qlt_le_dec (nth i cand 0%Q) (lmin - o_eps o)) as [Hl|Hl]; [exact Hl|].
  apply Qle_bool_iff in Hl. congruence.
Qed.

Lemma cands_length n L sel : length (cands n L sel) = n.
Proof. unfold cands. rewrite map_length, seq_length. reflexivity. Qed.

Lemma cands_nth n L sel i : i < n -> nth i (cands n L sel) 0%Q = L (sel ++ [i]).
Proof.
  intros Hi. unfold cands. rewrite (nth_indep _ 0%Q (L (sel ++ [0]))) by (rewrite map_length, seq_length; exact Hi).
  rewrite (map_nth (fun i => L (sel ++ [i])) (seq 0 n) 0 i), seq_nth by exact Hi. reflexivity.
Qed.

(* ------------------------------------------------------------ the loop: invariants *)
Section LoopFacts.
  Variable fixed : bool.
  Variable o : opts.
  Variable n : nat.
  Variable L : list nat -> Q.
  Variable bags : nat -> list nat.

  Lemma cont_k sel it : cont fixed o n sel it = true -> nunique n sel < o_k o.
  Proof. unfold cont. rewrite !andb_true_iff. intros [[_ H] _]. apply Nat.ltb_lt. exact H. Qed.

  Lemma loop_inv bound : o_k o <= bound -> forall fuel it sel lmin sel' loss',
    sel <> [] -> Forall (fun i => i < n) sel -> nunique n sel <= bound ->
    loop fixed o n L bags fuel it sel lmin = Done sel' loss' ->
    sel' <> [] /\ Forall (fun i => i < n) sel' /\ nunique n sel' <= bound.
  Proof.
    intros Hb. induction fuel as [|f IH]; intros it sel lmin sel' loss' Hne Hv Hu H; cbn [loop] in H; [discriminate|].
    destruct (cont fixed o n sel it) eqn:Ec.
    - destruct (step o n sel lmin (bags it) (cands n L sel)) as [|i l|] eqn:Es.
      + inversion H; subst. auto.
      + apply step_add in Es as (Hi & _). rewrite cands_length in Hi. apply cont_k in Ec.
        eapply IH; [| | |exact H].
        * destruct sel; discriminate.
        * apply Forall_app. split; [exact Hv|constructor; [exact Hi|constructor]].
        * pose proof (nunique_app_le n sel i). lia.
      + destruct fixed; [|discriminate]. inversion H; subst. auto.
    - inversion H; subst. auto.
  Qed.

  (* with early stopping the running loss never increases; the final loss is that of the final multiset *)
  Lemma loop_noworse : o_es o = true -> (0 <= o_eps o)%Q -> forall fuel it sel lmin sel' loss',
    loop fixed o n L bags fuel it sel lmin = Done sel' loss' ->
    (loss' <= lmin)%Q /\ ((sel' = sel /\ loss' = lmin) \/ loss' = L sel').
  Proof.
    intros Hes Heps. induction fuel as [|f IH]; intros it sel lmin sel' loss' H; cbn [loop] in H; [discriminate|].
    assert (Hdone : Done sel lmin = Done sel' loss' -> (loss' <= lmin)%Q /\ ((sel' = sel /\ loss' = lmin) \/ loss' = L sel')).
    { intros E. inversion E; subst. split; [apply Qle_refl|left; auto]. }
    destruct (cont fixed o n sel it).
    - destruct (step o n sel lmin (bags it) (cands n L sel)) as [|i l|] eqn:Es.
      + apply Hdone, H.
      + apply step_add in Es as (Hi & _ & Hl & Hlt). rewrite cands_length in Hi. specialize (Hlt Hes).
        rewrite cands_nth in Hl by exact Hi.
        destruct (IH _ _ _ _ _ H) as (Hle & Hor). split.
        * eapply Qle_trans; [exact Hle|]. lra.
        * right. destruct Hor as [[-> ->]|Hor]; [exact Hl|exact Hor].
      + destruct fixed; [apply Hdone, H|discriminate].
    - apply Hdone, H.
  Qed.

  (* the repaired code never reports the all-NaN error *)
  Lemma loop_no_error : fixed = true -> forall fuel it sel lmin, loop fixed o n L bags fuel it sel lmin <> ErrAllNaN.
  Proof.
    intros ->. induction fuel as [|f IH]; intros it sel lmin; cbn [loop]; [discriminate|].
    destruct (cont true o n sel it); [|discriminate].
    destruct (step o n sel lmin (bags it) (cands n L sel)); try discriminate. apply IH.
  Qed.

  (* ---------------- termination: three classes of options ---------------- *)
  (* (1) an iteration bound max_it >= 0 *)
  Lemma loop_fuel_maxit m : o_maxit o = Some m -> forall fuel it sel lmin,
    m - it < fuel -> loop fixed o n L bags fuel it sel lmin <> OutOfFuel.
  Proof.
    intros Hm. induction fuel as [|f IH]; intros it sel lmin Hf; [lia|]. cbn [loop].
    destruct (cont fixed o n sel it) eqn:Ec; [|discriminate].
    assert (Hit : it < m).
    { unfold cont in Ec. rewrite Hm in Ec. rewrite !andb_true_iff in Ec. destruct Ec as [[Ec _] _].
      apply Nat.ltb_lt. exact Ec. }
    destruct (step o n sel lmin (bags it) (cands n L sel)); try discriminate.
    - apply IH. lia.
    - destruct fixed; discriminate.
  Qed.

  (* (2) selection without replacement: every accepted step adds a new member *)
  Lemma loop_fuel_norepl : o_repl o = false -> forall fuel it sel lmin,
    n - nunique n sel < fuel -> loop fixed o n L bags fuel it sel lmin <> OutOfFuel.
  Proof.
    intros Hr. induction fuel as [|f IH]; intros it sel lmin Hf; [lia|]. cbn [loop].
    destruct (cont fixed o n sel it); [|discriminate].
    destruct (step o n sel lmin (bags it) (cands n L sel)) as [|i l|] eqn:Es; try discriminate.
    - apply step_add in Es as (Hi & Hm & _). rewrite cands_length in Hi.
      assert (Hnew : memn i sel = false).
      { unfold masked in Hm. rewrite Hr in Hm. cbn [negb andb] in Hm.
        apply orb_false_iff in Hm as [Hm _]. apply orb_false_iff in Hm as [_ Hm]. exact Hm. }
      apply IH. rewrite (nunique_app_new n sel i Hi Hnew).
      pose proof (nunique_le n (sel ++ [i])) as Hle. rewrite (nunique_app_new n sel i Hi Hnew) in Hle. lia.
    - destruct fixed; discriminate.
  Qed.

  (* (3) early stopping with a positive tolerance and losses bounded below by 0:
         every accepted step lowers the running loss by more than eps_tol *)
  Lemma loop_fuel_es : o_es o = true -> (0 < o_eps o)%Q -> (forall ms, 0 <= L ms)%Q ->
    forall fuel it sel lmin, (0 <= lmin)%Q -> (lmin < inject_Z (Z.of_nat fuel) * o_eps o)%Q ->
    loop fixed o n L bags fuel it sel lmin <> OutOfFuel.
  Proof.
    intros Hes Heps HL. induction fuel as [|f IH]; intros it sel lmin H0 Hf.
    - exfalso. change (inject_Z (Z.of_nat 0)) with 0%Q in Hf. lra.
    - cbn [loop]. destruct (cont fixed o n sel it); [|discriminate].
      destruct (step o n sel lmin (bags it) (cands n L sel)) as [|i l|] eqn:Es; try discriminate.
      + apply step_add in Es as (Hi & _ & Hl & Hlt). rewrite cands_length in Hi. specialize (Hlt Hes).
        rewrite cands_nth in Hl by exact Hi. apply IH; [rewrite Hl; apply HL|].
        rewrite Nat2Z.inj_succ in Hf. unfold Z.succ in Hf. rewrite inject_Z_plus in Hf.
        change (inject_Z 1) with 1%Q in Hf. lra.
      + destruct fixed; discriminate.
  Qed.
End LoopFacts.

(* ------------------------------------------------------------ state between calls *)
(* The only thing a selector object carries from one select() call to the next is the position of its RandomState,
   i.e. which bootstrap draws [bags] the next call sees.  Without bagging the draws are never looked at: the result is a
   function of the call's own inputs, whatever happened before. *)
Lemma masked_nobag o sel bag bag' i : o_bag o = false -> masked o sel bag i = masked o sel bag' i.
Proof. intros H. unfold masked. rewrite H. reflexivity. Qed.

Lemma mask_cands_nobag o sel bag bag' cand : o_bag o = false -> mask_cands o sel bag cand = mask_cands o sel bag' cand.
Proof.
  intros H. unfold mask_cands. apply map_ext. intros p. rewrite (masked_nobag o sel bag bag' (fst p) H). reflexivity.
Qed.

Lemma step_nobag o n sel lmin bag bag' cand : o_bag o = false -> step o n sel lmin bag cand = step o n sel lmin bag' cand.
Proof. intros H. unfold step. rewrite (mask_cands_nobag o sel bag bag' cand H). reflexivity. Qed.

Lemma loop_nobag fixed o n L bags bags' : o_bag o = false -> forall fuel it it' sel lmin,
  (o_maxit o = None \/ it = it') ->
  loop fixed o n L bags fuel it sel lmin = loop fixed o n L bags' fuel it' sel lmin.
Proof.
  intros H. induction fuel as [|f IH]; intros it it' sel lmin Hit; [reflexivity|]. cbn [loop].
  assert (Hc : cont fixed o n sel it = cont fixed o n sel it').
  { destruct Hit as [Hm| ->]; [|reflexivity]. unfold cont. rewrite Hm. reflexivity. }
  rewrite Hc, (step_nobag o n sel lmin (bags it) (bags' it') _ H).
  destruct (cont fixed o n sel it'); [|reflexivity].
  destruct (step o n sel lmin (bags' it') (cands n L sel)); try reflexivity.
  apply IH. destruct Hit as [Hm| ->]; [left; exact Hm|right; reflexivity].
Qed.

(* with bagging, a call that starts [off] draws into the stream is the call on the shifted stream *)
Lemma loop_shift fixed o n L bags off : forall fuel it sel lmin,
  o_maxit o = None ->
  loop fixed o n L bags fuel (off + it) sel lmin = loop fixed o n L (fun j => bags (off + j)) fuel it sel lmin.
Proof.
  intros fuel it sel lmin Hm. revert it sel lmin. induction fuel as [|f IH]; intros it sel lmin; [reflexivity|]. cbn [loop].
  assert (Hc : cont fixed o n sel (off + it) = cont fixed o n sel it) by (unfold cont; rewrite Hm; reflexivity).
  rewrite Hc. destruct (cont fixed o n sel it); [|reflexivity].
  destruct (step o n sel lmin (bags (off + it)) (cands n L sel)); try reflexivity.
  replace (S (off + it)) with (off + S it) by lia. apply IH.
Qed.
