(* C20 - Ensemble selection and prediction are well-formed and order-stable.

   Executable model of  src/deephyper/ensemble/selector/_topk.py, _greedy.py (GreedySelector.select) and of the sort
   by job id in src/deephyper/ensemble/_ensemble.py (predictions_from_predictors).  No proofs here.

   What is NOT modelled but taken as an explicit input (an oracle), every theorem being quantified over all its values:
     - [order]   the result of np.argsort(losses)   (numpy's argsort is not stable: only "a sorting permutation" is assumed;
                 [argsort] below is one concrete instance, used for non-vacuity)
     - [L0]      the aggregated loss of the starting ensemble (aggregate(..., weights=None))
     - [L ms]    the aggregated loss of the member multiset ms (aggregate(unique(ms), counts/sum))
     - [bags it] the bootstrap draw of iteration it (random_state.randint(0, n, size=n)), only its members matter

   The flag [fixed] selects the code that is modelled:
     fixed = false : the code of /repo today  (np.nanargmin raises on an all-NaN list -> ErrAllNaN)
     fixed = true  : the code after fixes/F19_greedy_no_admissible_candidate.patch
                     (all candidates masked -> the loop stops; without early stopping and without max_it the loop also
                      stops once every predictor is in the ensemble, because "k unique members" can then never be reached) *)
From Coq Require Import List ZArith QArith Bool Arith.
Import ListNotations.
Open Scope nat_scope.

Definition memn (i : nat) (l : list nat) : bool := existsb (Nat.eqb i) l.

(* ------------------------------------------------------------------ TopK *)
(* TopKSelector.select: np.argsort(losses)[:k] *)
Definition topk (k : nat) (order : list nat) : list nat := firstn k order.

Definition lossq (ls : list Q) (i : nat) : Q := nth i ls 0%Q.

(* one concrete argsort (stable insertion sort of the indices by loss) *)
Fixpoint ins (ls : list Q) (i : nat) (l : list nat) : list nat :=
  match l with
  | [] => [i]
  | j :: t => if Qle_bool (lossq ls i) (lossq ls j) then i :: l else j :: ins ls i t
  end.
Definition argsort (ls : list Q) : list nat := fold_right (ins ls) [] (seq 0 (length ls)).

(* ------------------------------------------------------------------ Greedy *)
Record opts := mkOpts {
  o_k : nat;               (* k *)
  o_kinit : nat;           (* k_init *)
  o_maxit : option nat;    (* None: max_it < 0 (no bound) *)
  o_eps : Q;               (* eps_tol *)
  o_repl : bool;           (* with_replacement *)
  o_es : bool;             (* early_stopping *)
  o_bag : bool             (* bagging *)
}.

(* len(np.unique(selected_indices)), for indices below n *)
Definition nunique (n : nat) (sel : list nat) : nat := length (filter (fun i => memn i sel) (seq 0 n)).

(* the three "continue" conditions that put NaN in the candidate list (lines 93-103) *)
Definition masked (o : opts) (sel bag : list nat) (i : nat) : bool :=
  (Nat.eqb (length sel) 1 && memn i sel) || (negb (o_repl o) && memn i sel) || (o_bag o && negb (memn i bag)).

(* np.nanargmin: first index of the minimum among the non-NaN entries; None = "All-NaN slice encountered" *)
Fixpoint nanargmin (i : nat) (c : list (option Q)) : option (nat * Q) :=
  match c with
  | [] => None
  | x :: t =>
    match x, nanargmin (S i) t with
    | None, r => r
    | Some q, None => Some (i, q)
    | Some q, Some (j, q') => if Qle_bool q q' then Some (i, q) else Some (j, q')
    end
  end.

Definition mask_cands (o : opts) (sel bag : list nat) (cand : list Q) : list (option Q) :=
  map (fun p => if masked o sel bag (fst p) then None else Some (snd p)) (combine (seq 0 (length cand)) cand).

Inductive step_out := SStop | SAdd (i : nat) (l : Q) | SAllNaN.

(* one pass through the body of the while loop, given the candidate losses cand[i] = L(sel ++ [i]) *)
Definition step (o : opts) (n : nat) (sel : list nat) (lmin : Q) (bag : list nat) (cand : list Q) : step_out :=
  match nanargmin 0 (mask_cands o sel bag cand) with
  | None => SAllNaN
  | Some (i, l) =>
    if (o_es o && Qle_bool (lmin - o_eps o) l) || (Nat.eqb (nunique n sel) 1 && Nat.eqb (hd 0 sel) i)
    then SStop else SAdd i l
  end.

(* the loop condition *)
Definition cont (fixed : bool) (o : opts) (n : nat) (sel : list nat) (it : nat) : bool :=
  match o_maxit o with None => true | Some m => it <? m end
  && (nunique n sel <? o_k o)
  && negb (fixed && negb (o_es o) && match o_maxit o with None => true | Some _ => false end && (nunique n sel =? n)).

Inductive result := Done (sel : list nat) (loss : Q) | ErrAllNaN | OutOfFuel.

Section Loop.
  Variable fixed : bool.
  Variable o : opts.
  Variable n : nat.
  Variable L : list nat -> Q.
  Variable bags : nat -> list nat.

  Definition cands (sel : list nat) : list Q := map (fun i => L (sel ++ [i])) (seq 0 n).

  Fixpoint loop (fuel it : nat) (sel : list nat) (lmin : Q) : result :=
    match fuel with
    | 0 => OutOfFuel
    | S f =>
      if cont fixed o n sel it then
        match step o n sel lmin (bags it) (cands sel) with
        | SAllNaN => if fixed then Done sel lmin else ErrAllNaN
        | SStop => Done sel lmin
        | SAdd i l => loop f (S it) (sel ++ [i]) l
        end
      else Done sel lmin
    end.
End Loop.

Definition init_sel (o : opts) (order : list nat) : list nat := firstn (o_kinit o) order.

Definition greedy (fixed : bool) (o : opts) (n : nat) (order : list nat) (L0 : Q) (L : list nat -> Q)
           (bags : nat -> list nat) (fuel : nat) : result :=
  loop fixed o n L bags fuel 0 (init_sel o order) L0.

(* np.unique(selected, return_counts=True); weights = counts / sum(counts) *)
Definition count (i : nat) (sel : list nat) : nat := length (filter (Nat.eqb i) sel).
Definition weight (sel : list nat) (i : nat) : Q := Z.of_nat (count i sel) # Pos.of_nat (length sel).
Definition finalize (n : nat) (sel : list nat) : list (nat * Q) :=
  map (fun i => (i, weight sel i)) (filter (fun i => memn i sel) (seq 0 n)).

(* ------------------------------------------------------------------ EnsemblePredictor *)
(* sorted(jobs_done, key=lambda j: int(j.id.split(".")[-1])) - jobs are (numeric id, payload) in completion order *)
Fixpoint ins_id {A} (x : Z * A) (l : list (Z * A)) : list (Z * A) :=
  match l with
  | [] => [x]
  | y :: t => if (fst x <=? fst y)%Z then x :: l else y :: ins_id x t
  end.
Definition order_by_id {A} (jobs : list (Z * A)) : list (Z * A) := fold_right ins_id [] jobs.

(* NOT what the code does (it converts the last id component with int()): the same sort with the ids compared as
   decimal STRINGS, i.e. digit lists in lexicographic order - kept as the witness of why the ids above are integers *)
Fixpoint lex_leb (a b : list nat) : bool :=
  match a, b with
  | [], _ => true
  | _ :: _, [] => false
  | x :: s, y :: t => (x <? y) || ((x =? y) && lex_leb s t)
  end.
Fixpoint ins_lex {A} (x : list nat * A) (l : list (list nat * A)) : list (list nat * A) :=
  match l with
  | [] => [x]
  | y :: t => if lex_leb (fst x) (fst y) then x :: l else y :: ins_lex x t
  end.
Definition order_by_digits {A} (jobs : list (list nat * A)) : list (list nat * A) := fold_right ins_lex [] jobs.
Definition digits_value (ds : list nat) : nat := fold_left (fun a d => 10 * a + d) ds 0.

(* ------------------------------------------------------------------ a long-lived ensemble: calls, failures, leftovers *)
(* The ensemble keeps ONE evaluator: [ev_next] = the number the next submitted job gets, [ev_left] = jobs of earlier
   calls that are still in the evaluator (submitted, never gathered nor cancelled).  A call submits one job per member,
   then takes jobs from the evaluator, in the order [c_order] in which gather() hands them over, until it holds as many
   jobs as it has members, sorts those by id and returns their outputs - unless a member failed ([c_failed]): then it
   raises.  The code of /repo gathers everything, calls close() (which cancels whatever is left) and raises afterwards:
   close_on_failure = true.  close_on_failure = false is the fail-fast variant that raises from inside the gather
   loop, after [c_stop] jobs, without close(): the jobs not gathered yet stay behind. *)
Record evst (A : Type) := mkEv { ev_next : Z; ev_left : list (Z * A) }.
Arguments mkEv {A}. Arguments ev_next {A}. Arguments ev_left {A}.

Fixpoint numbered {A} (base : Z) (xs : list A) : list (Z * A) :=
  match xs with [] => [] | x :: t => (base, x) :: numbered (base + 1)%Z t end.

Inductive outcome (A : Type) := Returned (ys : list A) | Raised.
Arguments Returned {A}. Arguments Raised {A}.

Record callin (A : Type) := mkCall { c_xs : list A; c_failed : bool; c_stop : nat; c_order : list (Z * A) }.
Arguments mkCall {A}. Arguments c_xs {A}. Arguments c_failed {A}. Arguments c_stop {A}. Arguments c_order {A}.

Definition call {A} (close_on_failure : bool) (st : evst A) (c : callin A) : outcome A * evst A :=
  let n := length (c_xs c) in
  let nxt := (ev_next st + Z.of_nat n)%Z in
  if c_failed c
  then (Raised, mkEv nxt (if close_on_failure then [] else skipn (c_stop c) (c_order c)))
  else (Returned (map snd (order_by_id (firstn n (c_order c)))), mkEv nxt []).

Fixpoint run_calls {A} (close_on_failure : bool) (st : evst A) (cs : list (callin A)) : list (outcome A) :=
  match cs with
  | [] => []
  | c :: t => fst (call close_on_failure st c) :: run_calls close_on_failure (snd (call close_on_failure st c)) t
  end.
