(* C20 - TopK and argsort. *)
From Coq Require Import List ZArith QArith Bool Arith Lia Permutation Sorted.
Import ListNotations.
Require Import DH.Common.ListSet DH.C20_Selection.Model.
Open Scope nat_scope.

Definition le_loss (ls : list Q) (i j : nat) : Prop := (lossq ls i <= lossq ls j)%Q.

Lemma le_loss_trans ls i j k : le_loss ls i j -> le_loss ls j k -> le_loss ls i k.
Proof. unfold le_loss. intros H1 H2. eapply Qle_trans; eauto. Qed.

Lemma memn_In i l : memn i l = true <-> In i l.
Proof.
  unfold memn. rewrite existsb_exists. split.
  - intros [x [Hx E]]. apply Nat.eqb_eq in E. subst. exact Hx.
  - intros H. exists i. split; [exact H|apply Nat.eqb_refl].
Qed.

Lemma memn_false i l : memn i l = false <-> ~ In i l.
Proof.
  split.
  - intros H Hin. apply memn_In in Hin. congruence.
  - intros H. destruct (memn i l) eqn:E; [|reflexivity]. apply memn_In in E. contradiction.
Qed.

(* a sorting permutation of the indices 0..n-1 by loss: all that is assumed of np.argsort *)
Definition SortingPerm (ls : list Q) (order : list nat) : Prop :=
  Permutation order (seq 0 (length ls)) /\ StronglySorted (le_loss ls) order.

Lemma SS_app_le {A} (R : A -> A -> Prop) l1 l2 :
  StronglySorted R (l1 ++ l2) -> forall x y, In x l1 -> In y l2 -> R x y.
Proof.
  induction l1 as [|a t IH]; intros H x y Hx Hy; [destruct Hx|].
  cbn [app] in H. inversion H as [|? ? Hs Hf]; subst.
  destruct Hx as [->|Hx].
  - rewrite Forall_forall in Hf. apply Hf. apply in_or_app. right. exact Hy.
  - eapply IH; eauto.
Qed.

Definition TopkSpec (ls : list Q) (k : nat) (out : list nat) : Prop :=
  length out = Nat.min k (length ls) /\ NoDup out /\ (forall i, In i out -> i < length ls)
  /\ (forall i j, In i out -> j < length ls -> ~ In j out -> le_loss ls i j).

Lemma topk_spec ls order k : SortingPerm ls order -> TopkSpec ls k (topk k order).
Proof.
  intros [Hp Hs]. unfold topk, TopkSpec.
  assert (Hlen : length order = length ls).
  { rewrite (Permutation_length Hp). apply seq_length. }
  assert (Hnd : NoDup order).
  { eapply Permutation_NoDup; [apply Permutation_sym; exact Hp|apply seq_NoDup]. }
  rewrite <- (firstn_skipn k order) in Hnd, Hs.
  repeat split.
  - rewrite firstn_length, Hlen. reflexivity.
  - eapply NoDup_app_l; exact Hnd.
  - intros i Hi. assert (Hin : In i order).
    { rewrite <- (firstn_skipn k order). apply in_or_app. left. exact Hi. }
    eapply Permutation_in in Hin; [|exact Hp]. apply in_seq in Hin. lia.
  - intros i j Hi Hj Hnj.
    assert (Hin : In j order).
    { eapply Permutation_in; [apply Permutation_sym; exact Hp|]. apply in_seq. lia. }
    rewrite <- (firstn_skipn k order) in Hin. apply in_app_or in Hin as [Hin|Hin]; [contradiction|].
    eapply SS_app_le; eauto.
Qed.

(* ---- the concrete argsort is a sorting permutation ---- *)
Lemma ins_perm ls i l : Permutation (ins ls i l) (i :: l).
Proof.
  induction l as [|j t IH]; cbn [ins]; [reflexivity|].
  destruct (Qle_bool (lossq ls i) (lossq ls j)); [reflexivity|].
  eapply Permutation_trans; [apply perm_skip; exact IH|apply perm_swap].
Qed.

Lemma ins_sorted ls i l : StronglySorted (le_loss ls) l -> StronglySorted (le_loss ls) (ins ls i l).
Proof.
  induction l as [|j t IH]; intros Hs; cbn [ins].
  - constructor; constructor.
  - inversion Hs as [|? ? Hs' Hf]; subst.
    destruct (Qle_bool (lossq ls i) (lossq ls j)) eqn:E.
    + apply Qle_bool_iff in E. constructor; [exact Hs|]. constructor; [exact E|].
      rewrite Forall_forall in *. intros x Hx. eapply le_loss_trans; [exact E|]. apply Hf, Hx.
    + assert (Hji : le_loss ls j i).
      { unfold le_loss. destruct (Qlt_le_dec (lossq ls j) (lossq ls i)) as [H|H]; [apply Qlt_le_weak; exact H|].
        apply Qle_bool_iff in H. congruence. }
      constructor; [apply IH; exact Hs'|].
      rewrite Forall_forall in *. intros x Hx.
      eapply Permutation_in in Hx; [|apply ins_perm]. destruct Hx as [<-|Hx]; [exact Hji|apply Hf, Hx].
Qed.

Lemma argsort_sorting_perm ls : SortingPerm ls (argsort ls).
Proof.
  unfold SortingPerm, argsort. generalize (seq 0 (length ls)) as l.
  induction l as [|i t [IHp IHs]]; cbn [fold_right].
  - split; [reflexivity|constructor].
  - split.
    + eapply Permutation_trans; [apply ins_perm|]. apply perm_skip. exact IHp.
    + apply ins_sorted. exact IHs.
Qed.
