(* C20 - EnsemblePredictor: sorting the gathered jobs by numeric id restores the submission (member) order. *)
From Coq Require Import List ZArith Bool Lia Permutation Sorted.
Import ListNotations.
Require Import DH.C20_Selection.Model.
Open Scope Z_scope.

Section Order.
  Variable A : Type.
  Notation job := (Z * A)%type.
  Definition le_id (x y : job) : Prop := fst x <= fst y.
  Definition lt_id (x y : job) : Prop := fst x < fst y.

  Lemma ins_id_perm (x : job) l : Permutation (ins_id x l) (x :: l).
  Proof.
    induction l as [|y t IH]; cbn [ins_id]; [reflexivity|].
    destruct (fst x <=? fst y); [reflexivity|].
    eapply Permutation_trans; [apply perm_skip; exact IH|apply perm_swap].
  Qed.

  Lemma ins_id_sorted (x : job) l : StronglySorted le_id l -> StronglySorted le_id (ins_id x l).
  Proof.
    induction l as [|y t IH]; intros Hs; cbn [ins_id].
    - constructor; constructor.
    - inversion Hs as [|? ? Hs' Hf]; subst. destruct (Z.leb_spec (fst x) (fst y)) as [Hle|Hgt].
      + constructor; [exact Hs|]. constructor; [exact Hle|].
        rewrite Forall_forall in *. intros z Hz. specialize (Hf z Hz). unfold le_id in *. lia.
      + constructor; [apply IH; exact Hs'|]. rewrite Forall_forall in *. intros z Hz.
        eapply Permutation_in in Hz; [|apply ins_id_perm]. destruct Hz as [<-|Hz]; [unfold le_id; lia|apply Hf, Hz].
  Qed.

  Lemma order_by_id_perm (jobs : list job) : Permutation (order_by_id jobs) jobs.
  Proof.
    induction jobs as [|x t IH]; cbn [order_by_id fold_right]; [reflexivity|].
    eapply Permutation_trans; [apply ins_id_perm|]. apply perm_skip. exact IH.
  Qed.

  Lemma order_by_id_sorted (jobs : list job) : StronglySorted le_id (order_by_id jobs).
  Proof.
    induction jobs as [|x t IH]; cbn [order_by_id fold_right]; [constructor|]. apply ins_id_sorted. exact IH.
  Qed.

  (* a list sorted by id that is a permutation of a list with strictly increasing ids is that list *)
  Lemma sorted_perm_unique : forall (l2 l1 : list job),
    StronglySorted lt_id l2 -> StronglySorted le_id l1 -> Permutation l1 l2 -> l1 = l2.
  Proof.
    induction l2 as [|b t2 IH]; intros l1 H2 H1 Hp.
    - apply Permutation_nil. apply Permutation_sym. exact Hp.
    - destruct l1 as [|a t1]; [apply Permutation_nil in Hp; discriminate|].
      inversion H2 as [|? ? H2' Hf2]; subst. inversion H1 as [|? ? H1' Hf1]; subst.
      rewrite Forall_forall in Hf1, Hf2.
      assert (Hab : a = b).
      { assert (Ha : In a (b :: t2)) by (eapply Permutation_in; [exact Hp|left; reflexivity]).
        assert (Hb : In b (a :: t1)) by (eapply Permutation_in; [apply Permutation_sym; exact Hp|left; reflexivity]).
        destruct Ha as [Ha|Ha]; [auto|]. destruct Hb as [Hb|Hb]; [auto|].
        specialize (Hf2 a Ha). specialize (Hf1 b Hb). unfold lt_id, le_id in *. lia. }
      subst a. f_equal. apply IH; [exact H2'|exact H1'|]. eapply Permutation_cons_inv. exact Hp.
  Qed.

  Lemma order_by_id_restores (subm done : list job) :
    StronglySorted Z.lt (map fst subm) -> Permutation done subm -> order_by_id done = subm.
  Proof.
    intros Hs Hp. apply sorted_perm_unique.
    - clear -Hs. induction subm as [|x t IH]; [constructor|]. cbn [map] in Hs.
      inversion Hs as [|? ? Hs' Hf]; subst. constructor; [apply IH; exact Hs'|].
      rewrite Forall_forall in *. intros y Hy. apply Hf. apply in_map. exact Hy.
    - apply order_by_id_sorted.
    - eapply Permutation_trans; [apply order_by_id_perm|exact Hp].
  Qed.
End Order.

(* job numbers 9, 10, 11 (the 4th call of a 3-member ensemble) written in decimal: increasing as integers, but sorting the
   digit strings returns the members in the order 1, 2, 0 *)
Lemma string_ids_witness :
  let subm := [([9], 0%nat); ([1; 0], 1%nat); ([1; 1], 2%nat)]%nat in
  map (fun p => digits_value (fst p)) subm = [9; 10; 11]%nat
  /\ map snd (order_by_digits subm) = [1; 2; 0]%nat
  /\ map snd (order_by_id (map (fun p => (Z.of_nat (digits_value (fst p)), snd p)) subm)) = [0; 1; 2]%nat.
Proof. vm_compute. repeat split; reflexivity. Qed.

(* one call on a long-lived ensemble: the jobs of the call carry the job numbers base, base+1, ... in member order
   (base = number of jobs submitted by the earlier calls) *)
Lemma numbered_lb {A} (xs : list A) : forall base k, In k (map fst (numbered base xs)) -> base <= k.
Proof.
  induction xs as [|x t IH]; intros base k H; [destruct H|]. cbn [numbered map fst] in H.
  destruct H as [<-|H]; [lia|]. apply IH in H. lia.
Qed.

Lemma numbered_sorted {A} (xs : list A) : forall base, StronglySorted Z.lt (map fst (numbered base xs)).
Proof.
  induction xs as [|x t IH]; intros base; cbn [numbered map fst]; constructor; [apply IH|].
  rewrite Forall_forall. intros k Hk. apply numbered_lb in Hk. lia.
Qed.

Lemma numbered_snd {A} (xs : list A) : forall base, map snd (numbered base xs) = xs.
Proof. induction xs as [|x t IH]; intros base; cbn [numbered map snd]; [reflexivity|]. rewrite IH. reflexivity. Qed.

Lemma order_by_id_calls {A} (base : Z) (xs : list A) (done : list (Z * A)) :
  Permutation done (numbered base xs) -> map snd (order_by_id done) = xs.
Proof.
  intros Hp. rewrite (order_by_id_restores A (numbered base xs) done (numbered_sorted xs base) Hp). apply numbered_snd.
Qed.

(* ---- several calls on one ensemble, some of them failing ---- *)
(* gather() hands over exactly the jobs that are in the evaluator: the leftovers and the jobs of this call *)
Fixpoint calls_wf {A} (close_on_failure : bool) (st : evst A) (cs : list (callin A)) : Prop :=
  match cs with
  | [] => True
  | c :: t => Permutation (c_order c) (ev_left st ++ numbered (ev_next st) (c_xs c))
              /\ calls_wf close_on_failure (snd (call close_on_failure st c)) t
  end.

Lemma numbered_length {A} (xs : list A) : forall base, length (numbered base xs) = length xs.
Proof. induction xs as [|x t IH]; intros base; cbn [numbered length]; [reflexivity|]. rewrite IH. reflexivity. Qed.

Lemma call_clean {A} (st : evst A) (c : callin A) :
  ev_left st = [] -> Permutation (c_order c) (ev_left st ++ numbered (ev_next st) (c_xs c)) ->
  call true st c = (if c_failed c then Raised else Returned (c_xs c), mkEv (ev_next st + Z.of_nat (length (c_xs c))) []).
Proof.
  intros Hl Hp. rewrite Hl in Hp. cbn [app] in Hp. unfold call. destruct (c_failed c); [reflexivity|].
  assert (Hlen : length (c_order c) = length (c_xs c)) by (rewrite (Permutation_length Hp); apply numbered_length).
  rewrite <- Hlen, firstn_all, (order_by_id_calls (ev_next st) (c_xs c) (c_order c) Hp). reflexivity.
Qed.

(* with close() after a failure the evaluator is empty before every call, so every call that does not fail returns
   its own members' outputs in member order, whatever happened in the earlier calls *)
Lemma run_calls_clean {A} : forall (cs : list (callin A)) (st : evst A),
  ev_left st = [] -> calls_wf true st cs ->
  run_calls true st cs = map (fun c => if c_failed c then Raised else Returned (c_xs c)) cs.
Proof.
  induction cs as [|c t IH]; intros st Hl Hw; [reflexivity|]. cbn [calls_wf] in Hw. destruct Hw as [Hp Hw].
  cbn [run_calls map]. rewrite (call_clean st c Hl Hp) in *. cbn [fst snd] in *. f_equal. apply IH; [reflexivity|exact Hw].
Qed.

(* without close(): a 3-member call whose member 0 fails first (noticed after one gathered job), then a retry with other
   members: the retry is handed the two leftovers first and returns two outputs of the FAILED call *)
Lemma leftovers_witness :
  let c1 := mkCall [10; 11; 12] true 1 [(0, 10); (1, 11); (2, 12)] in
  let c2 := mkCall [20; 21; 22] false 0 [(1, 11); (2, 12); (3, 20); (4, 21); (5, 22)] in
  calls_wf false (mkEv 0 []) [c1; c2]
  /\ run_calls false (mkEv 0 []) [c1; c2] = [Raised; Returned [11; 12; 20]]
  /\ run_calls true (mkEv 0 []) [c1; mkCall [20; 21; 22] false 0 [(5, 22); (3, 20); (4, 21)]] = [Raised; Returned [20; 21; 22]].
Proof. cbn [calls_wf call c_failed c_order c_stop c_xs ev_left ev_next snd skipn app numbered length]. repeat split; try reflexivity. Qed.
