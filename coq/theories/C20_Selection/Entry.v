(* C20 - entry points for the extracted driver: data -> data.
   Rationals arrive as integers over one common power-of-two denominator chosen per case by the harness (every
   comparison of the model is invariant under that scaling), so they are injected as z # 1. *)
From Coq Require Import List ZArith QArith Bool.
Import ListNotations.
Require Import DH.Common.Data DH.C20_Selection.Model DH.C20_Selection.LemmasFinal DH.C20_Selection.Check.
Open Scope Z_scope.

Definition d_q (d : data) : Q := inject_Z (dZ d).
Definition d_nats (d : data) : list nat := dmap dnat d.
Definition d_qs (d : data) : list Q := dmap d_q d.
Definition e_nats (l : list nat) : data := elist enat l.

(* opts = [k, k_init, max_it (negative: no bound), eps, with_replacement, early_stopping, bagging] *)
Definition d_opts (d : data) : opts :=
  mkOpts (dnat (dnth 0 d)) (dnat (dnth 1 d))
         (if dZ (dnth 2 d) <? 0 then None else Some (dnat (dnth 2 d)))
         (d_q (dnth 3 d)) (dbool (dnth 4 d)) (dbool (dnth 5 d)) (dbool (dnth 6 d)).

Definition e_step (s : step_out) : data :=
  match s with
  | SStop => L [I 0; I 0; I 0]
  | SAdd i l => L [I 1; enat i; I (Qnum l)]
  | SAllNaN => L [I 2; I 0; I 0]
  end.

Definition e_result (r : result) : data :=
  match r with
  | Done sel loss => L [I 0; e_nats sel; I (Qnum loss)]
  | ErrAllNaN => L [I 1; L []; I 0]
  | OutOfFuel => L [I 2; L []; I 0]
  end.

(* a finite table of (multiset, loss) as the loss oracle of a complete run *)
Fixpoint lookup_ms (t : list (list nat * Q)) (ms : list nat) : Q :=
  match t with
  | [] => 0%Q
  | (k, v) :: r => if eqb_list k ms then v else lookup_ms r ms
  end.

Definition d_weights (ws scale : data) : list Q := map (fun z => dZ z # Z.to_pos (dZ scale)) (dlist ws).

Definition entries : list (Z * (data -> data)) :=
  [ (2001, fun d => ebool (ok_sorting_perm (d_qs (dnth 0 d)) (d_nats (dnth 1 d))));
    (2002, fun d => e_nats (topk (dnat (dnth 0 d)) (d_nats (dnth 1 d))));
    (2003, fun d => ebool (ok_topk (d_qs (dnth 0 d)) (dnat (dnth 1 d)) (d_nats (dnth 2 d))));
    (2004, fun d => e_nats (init_sel (d_opts (dnth 0 d)) (d_nats (dnth 1 d))));
    (2005, fun d => ebool (cont (dbool (dnth 0 d)) (d_opts (dnth 1 d)) (dnat (dnth 2 d)) (d_nats (dnth 3 d)) (dnat (dnth 4 d))));
    (2006, fun d => e_step (step (d_opts (dnth 0 d)) (dnat (dnth 1 d)) (d_nats (dnth 2 d)) (d_q (dnth 3 d))
                                 (d_nats (dnth 4 d)) (d_qs (dnth 5 d))));
    (2007, fun d => elist (fun p => L [enat (fst p); I (Qnum (snd p)); I (Zpos (Qden (snd p)))])
                          (finalize (dnat (dnth 0 d)) (d_nats (dnth 1 d))));
    (* [n, k, k_init, idx, weights, weight scale, tolerance (same scale)] -> [ok_idx, ok_count, ok_pos, ok_sum, ok_wf] *)
    (2008, fun d =>
       let n := dnat (dnth 0 d) in
       let bound := Nat.max (dnat (dnth 1 d)) (Nat.min (dnat (dnth 2 d)) n) in
       let idx := d_nats (dnth 3 d) in
       let ws := d_weights (dnth 4 d) (dnth 5 d) in
       let tol := (dZ (dnth 6 d) # Z.to_pos (dZ (dnth 5 d)))%Q in
       elist ebool [ok_idx n idx; ok_count bound idx; ok_pos ws; ok_sum tol ws; ok_wf tol n bound (combine idx ws)]);
    (2009, fun d => ebool (ok_noworse (d_q (dnth 0 d)) (d_q (dnth 1 d)) (d_q (dnth 2 d))));
    (* complete run: [fixed, opts, n, order, L0, bags, table, fuel] *)
    (2010, fun d =>
       let bags := dmap d_nats (dnth 5 d) in
       let table := dmap (fun e => (d_nats (dnth 0 e), d_q (dnth 1 e))) (dnth 6 d) in
       e_result (greedy (dbool (dnth 0 d)) (d_opts (dnth 1 d)) (dnat (dnth 2 d)) (d_nats (dnth 3 d)) (d_q (dnth 4 d))
                        (lookup_ms table) (fun it => nth it bags []) (dnat (dnth 7 d))));
    (2011, fun d => elist (fun p => L [I (fst p); I (snd p)])
                          (order_by_id (dmap (fun e => (dZ (dnth 0 e), dZ (dnth 1 e))) d)));
    (2012, fun d => ebool (ok_member_order (dnat (dnth 0 d)) (d_nats (dnth 1 d))));
    (2013, fun d => e_nats (argsort (d_qs d)));
    (* a sequence of calls on one ensemble: [close_on_failure, [[xs, failed, stop, order] ...]] -> [[0, ys] | [1, []] ...] *)
    (2014, fun d =>
       let d_jobs := dmap (fun e => (dZ (dnth 0 e), dZ (dnth 1 e))) in
       let cs := dmap (fun c => mkCall (dmap dZ (dnth 0 c)) (dbool (dnth 1 c)) (dnat (dnth 2 c)) (d_jobs (dnth 3 c))) (dnth 1 d) in
       elist (fun o => match o with Returned ys => L [I 0; elist eZ ys] | Raised => L [I 1; L []] end)
             (run_calls (dbool (dnth 0 d)) (mkEv 0 []) cs)) ].
