(* C20 - witnesses: what today's code does wrong (F19), what stays false by design of the options (F20, and
   non-termination without early stopping, with replacement and without an iteration bound). *)
From Coq Require Import List ZArith QArith Bool Arith Lia.
Import ListNotations.
Require Import DH.C20_Selection.Model DH.C20_Selection.LemmasTopk DH.C20_Selection.LemmasGreedy DH.C20_Selection.LemmasFinal.
Open Scope nat_scope.

(* --- F19a: one candidate, k > 1 (the first job of an online selection): np.nanargmin raises --- *)
Definition o_default (eps : Q) : opts := mkOpts 5 1 None eps true true false.

Lemma allnan_one_candidate eps L0 L bags fuel :
  greedy false (o_default eps) 1 [0] L0 L bags (S fuel) = ErrAllNaN.
Proof. reflexivity. Qed.

(* --- F19a': without replacement and fewer candidates than k, no early stop --- *)
Definition o_norepl (eps : Q) : opts := mkOpts 5 1 None eps false false false.

Lemma allnan_norepl_fewer_than_k eps L0 L bags fuel :
  greedy false (o_norepl eps) 2 [0; 1] L0 L bags (S (S fuel)) = ErrAllNaN.
Proof. reflexivity. Qed.

(* the repaired code returns both members on the same input *)
Lemma allnan_norepl_fixed eps L0 L bags fuel :
  exists loss, greedy true (o_norepl eps) 2 [0; 1] L0 L bags (S (S fuel)) = Done [0; 1] loss.
Proof. eexists. reflexivity. Qed.

(* --- F19b: early_stopping=False, with_replacement=True, fewer candidates than k: today's loop never ends --- *)
Definition o_noes (k kinit : nat) (eps : Q) : opts := mkOpts k kinit None eps true false false.
Definition Lconst : list nat -> Q := fun _ => 0%Q.

Lemma nonterm_today_inv eps bags : forall fuel it sel,
  memn 0 sel = true -> memn 1 sel = true -> 2 <= length sel ->
  loop false (o_noes 5 1 eps) 2 Lconst bags fuel it sel 0 = OutOfFuel.
Proof.
  induction fuel as [|f IH]; intros it sel H0 H1 Hl2; [reflexivity|]. cbn [loop].
  assert (Hl : (length sel =? 1) = false) by (apply Nat.eqb_neq; lia).
  assert (Hnu : nunique 2 sel = 2) by (unfold nunique; cbn [seq filter]; rewrite H0, H1; reflexivity).
  assert (Hc : cont false (o_noes 5 1 eps) 2 sel it = true) by (unfold cont; rewrite Hnu; reflexivity).
  assert (Hs : step (o_noes 5 1 eps) 2 sel 0 (bags it) (cands 2 Lconst sel) = SAdd 0 0).
  { unfold step, mask_cands, masked, cands, Lconst. cbn [map seq length combine fst snd o_noes o_repl o_bag o_es negb].
    rewrite Hl, Hnu. reflexivity. }
  rewrite Hc, Hs. apply IH.
  - rewrite memn_app_one, H0. reflexivity.
  - rewrite memn_app_one, H1. reflexivity.
  - rewrite app_length. cbn [length]. lia.
Qed.

Lemma nonterm_today eps L0 bags : forall fuel,
  greedy false (o_noes 5 1 eps) 2 [0; 1] L0 Lconst bags fuel = OutOfFuel.
Proof.
  intros [|f]; [reflexivity|]. unfold greedy, init_sel. cbn [o_noes o_kinit firstn]. cbn [loop].
  change (cont false (mkOpts 5 1 None eps true false false) 2 [0] 0) with true. cbv iota.
  change (step (mkOpts 5 1 None eps true false false) 2 [0] L0 (bags 0) (cands 2 Lconst [0])) with (SAdd 1 0%Q).
  cbv iota. apply (nonterm_today_inv eps bags f 1 ([0] ++ [1])); [reflexivity|reflexivity|cbn; lia].
Qed.

(* the repaired code stops as soon as both candidates are in the ensemble *)
Lemma nonterm_fixed eps L0 bags fuel :
  greedy true (o_noes 5 1 eps) 2 [0; 1] L0 Lconst bags (S (S fuel)) = Done [0; 1] 0.
Proof. reflexivity. Qed.

(* --- stays false after the fix: no early stopping + replacement + no iteration bound, a candidate that is never
       the best one; here with as many candidates as k --- *)
Definition Lcount2 : list nat -> Q := fun ms => inject_Z (Z.of_nat (count 2 ms)).

Lemma count_app i a b : count i (a ++ b) = count i a + count i b.
Proof. unfold count. rewrite filter_app, app_length. reflexivity. Qed.

Lemma nonterm_residual_inv eps bags : forall fuel it sel,
  memn 0 sel = true -> memn 1 sel = true -> memn 2 sel = false -> 2 <= length sel ->
  loop true (o_noes 3 2 eps) 3 Lcount2 bags fuel it sel 0 = OutOfFuel.
Proof.
  induction fuel as [|f IH]; intros it sel H0 H1 H2 Hl2; [reflexivity|]. cbn [loop].
  assert (Hl : (length sel =? 1) = false) by (apply Nat.eqb_neq; lia).
  assert (Hnu : nunique 3 sel = 2) by (unfold nunique; cbn [seq filter]; rewrite H0, H1, H2; reflexivity).
  assert (Hc : cont true (o_noes 3 2 eps) 3 sel it = true) by (unfold cont; rewrite Hnu; reflexivity).
  assert (Hcd : cands 3 Lcount2 sel = [0%Q; 0%Q; 1%Q]).
  { unfold cands, Lcount2. cbn [map seq]. rewrite !count_app, (count_notin 2 sel H2). reflexivity. }
  assert (Hs : step (o_noes 3 2 eps) 3 sel 0 (bags it) (cands 3 Lcount2 sel) = SAdd 0 0).
  { rewrite Hcd. unfold step, mask_cands, masked. cbn [map seq length combine fst snd o_noes o_repl o_bag o_es negb].
    rewrite Hl, Hnu. reflexivity. }
  rewrite Hc, Hs. apply IH.
  - rewrite memn_app_one, H0. reflexivity.
  - rewrite memn_app_one, H1. reflexivity.
  - rewrite memn_app_one, H2. reflexivity.
  - rewrite app_length. cbn [length]. lia.
Qed.

Lemma nonterm_residual eps bags : forall fuel,
  greedy true (o_noes 3 2 eps) 3 [0; 1; 2] 0 Lcount2 bags fuel = OutOfFuel.
Proof. intros fuel. unfold greedy, init_sel. cbn [o_noes o_kinit firstn]. apply nonterm_residual_inv; try reflexivity. Qed.

(* --- F20: without early stopping the loop keeps adding members although the loss gets worse --- *)
Definition Lsize : list nat -> Q := fun ms => if length ms =? 1 then 1%Q else 4%Q.

Lemma noES_worse : exists sel loss,
  greedy true (mkOpts 2 1 None (1 # 1000) false false false) 2 [0; 1] 1 Lsize (fun _ => []) 5 = Done sel loss
  /\ (1 < loss)%Q.
Proof. exists [0; 1], 4%Q. split; [vm_compute; reflexivity|reflexivity]. Qed.

(* --- why C20_greedy_total asks for eps_tol > 0: with eps_tol = 0, early stopping and replacement, a loss that keeps
       decreasing (here 1 / size of the multiset) is followed for ever --- *)
Definition Linv : list nat -> Q := fun ms => 1 # Pos.of_nat (length ms).

Lemma inv_len_lt m : 1 <= m -> Qle_bool ((1 # Pos.of_nat m) - 0) (1 # Pos.of_nat (m + 1)) = false.
Proof.
  intros Hm. destruct (Qle_bool ((1 # Pos.of_nat m) - 0) (1 # Pos.of_nat (m + 1))) eqn:E; [|reflexivity].
  apply Qle_bool_iff in E. exfalso. revert E.
  replace (m + 1) with (S m) by lia. rewrite Nat2Pos.inj_succ by lia.
  unfold Qle, Qminus, Qplus, Qopp. cbn [Qnum Qden]. rewrite Pos2Z.inj_mul, Pos2Z.inj_succ. lia.
Qed.

Lemma nonterm_eps0_inv bags : forall fuel it sel,
  memn 0 sel = true -> memn 1 sel = true -> 2 <= length sel ->
  loop true (mkOpts 3 2 None 0 true true false) 2 Linv bags fuel it sel (1 # Pos.of_nat (length sel)) = OutOfFuel.
Proof.
  induction fuel as [|f IH]; intros it sel H0 H1 Hl2; [reflexivity|]. cbn [loop].
  assert (Hl : (length sel =? 1) = false) by (apply Nat.eqb_neq; lia).
  assert (Hnu : nunique 2 sel = 2) by (unfold nunique; cbn [seq filter]; rewrite H0, H1; reflexivity).
  assert (Hc : cont true (mkOpts 3 2 None 0 true true false) 2 sel it = true) by (unfold cont; rewrite Hnu; reflexivity).
  assert (Hs : step (mkOpts 3 2 None 0 true true false) 2 sel (1 # Pos.of_nat (length sel)) (bags it) (cands 2 Linv sel)
               = SAdd 0 (1 # Pos.of_nat (length sel + 1))).
  { unfold step, mask_cands, masked, cands, Linv. cbn [map seq length combine fst snd o_repl o_bag o_es o_eps negb].
    rewrite Hl, !app_length. cbn [length andb orb nanargmin].
    assert (Hr : Qle_bool (1 # Pos.of_nat (length sel + 1)) (1 # Pos.of_nat (length sel + 1)) = true)
      by (apply Qle_bool_iff, Qle_refl).
    rewrite Hr, Hnu, inv_len_lt by lia. reflexivity. }
  rewrite Hc, Hs.
  replace (length sel + 1) with (length (sel ++ [0])) by (rewrite app_length; reflexivity).
  apply IH.
  - rewrite memn_app_one, H0. reflexivity.
  - rewrite memn_app_one, H1. reflexivity.
  - rewrite app_length. cbn [length]. lia.
Qed.

Lemma nonterm_eps0 bags : forall fuel,
  greedy true (mkOpts 3 2 None 0 true true false) 2 [0; 1] (1 # 2) Linv bags fuel = OutOfFuel.
Proof. intros fuel. unfold greedy, init_sel. cbn [o_kinit firstn]. apply (nonterm_eps0_inv bags fuel 0 [0; 1]); try reflexivity. Qed.
