(* C20 - the returned (indices, weights) of greedy selection; the theorem-level statements. *)
From Coq Require Import List ZArith QArith Qround Bool Arith Lia Permutation Sorted Lqa.
Import ListNotations.
Require Import DH.Common.ListSet DH.C20_Selection.Model DH.C20_Selection.LemmasTopk DH.C20_Selection.LemmasGreedy.
Open Scope nat_scope.

Definition sumQ (l : list Q) : Q := fold_right Qplus 0%Q l.
Definition sumn (f : nat -> nat) (l : list nat) : nat := fold_right (fun i a => f i + a) 0 l.

(* what "well-formed" means for a returned list of (index, weight); tol = 0 for the model, a rounding allowance for floats *)
Definition GreedyWF (tol : Q) (n bound : nat) (out : list (nat * Q)) : Prop :=
  StronglySorted lt (map fst out)                      (* strictly increasing, hence distinct *)
  /\ Forall (fun i => i < n) (map fst out)             (* valid *)
  /\ 1 <= length out <= bound
  /\ Forall (fun w => 0 < w)%Q (map snd out)
  /\ (1 - tol <= sumQ (map snd out) /\ sumQ (map snd out) <= 1 + tol)%Q.

Lemma SS_lt_NoDup l : StronglySorted lt l -> NoDup l.
Proof.
  induction 1 as [|a t Hs IH Hf]; constructor; [|exact IH].
  intros Hin. rewrite Forall_forall in Hf. specialize (Hf a Hin). lia.
Qed.

Lemma SS_filter {A} (R : A -> A -> Prop) p l : StronglySorted R l -> StronglySorted R (filter p l).
Proof.
  induction 1 as [|a t Hs IH Hf]; cbn [filter]; [constructor|].
  destruct (p a); [|exact IH]. constructor; [exact IH|].
  rewrite Forall_forall in *. intros x Hx. apply filter_In in Hx as [Hx _]. apply Hf, Hx.
Qed.

Lemma SS_seq n : forall s, StronglySorted lt (seq s n).
Proof.
  induction n as [|n IH]; intros s; cbn [seq]; constructor; [apply IH|].
  rewrite Forall_forall. intros x Hx. apply in_seq in Hx. lia.
Qed.

Lemma finalize_fst n sel : map fst (finalize n sel) = filter (fun i => memn i sel) (seq 0 n).
Proof. unfold finalize. rewrite map_map. cbn [fst]. apply map_id. Qed.

Lemma finalize_snd n sel : map snd (finalize n sel) = map (weight sel) (filter (fun i => memn i sel) (seq 0 n)).
Proof. unfold finalize. rewrite map_map. reflexivity. Qed.

Lemma finalize_length n sel : length (finalize n sel) = nunique n sel.
Proof. unfold finalize, nunique. apply map_length. Qed.

(* the returned indices are exactly the distinct members of the selection *)
Lemma finalize_In n sel i : Forall (fun j => j < n) sel -> In i (map fst (finalize n sel)) <-> In i sel.
Proof.
  intros Hv. rewrite finalize_fst, filter_In, in_seq, memn_In. rewrite Forall_forall in Hv. split.
  - intros [_ H]. exact H.
  - intros H. split; [specialize (Hv i H); lia|exact H].
Qed.

Lemma count_cons i x t : count i (x :: t) = (if i =? x then 1 else 0) + count i t.
Proof. unfold count. cbn [filter]. destruct (i =? x); reflexivity. Qed.

Lemma count_pos i sel : In i sel -> 0 < count i sel.
Proof.
  induction sel as [|x t IH]; intros H; [destruct H|]. rewrite count_cons.
  destruct H as [->|H]; [rewrite Nat.eqb_refl; lia|specialize (IH H); lia].
Qed.

Lemma count_notin i sel : memn i sel = false -> count i sel = 0.
Proof.
  induction sel as [|x t IH]; intros H; [reflexivity|]. rewrite count_cons.
  unfold memn in H. cbn [existsb] in H. apply orb_false_iff in H as [H1 H2]. rewrite H1. apply IH, H2.
Qed.

Lemma sumn_plus f g l : sumn (fun i => f i + g i) l = sumn f l + sumn g l.
Proof. induction l as [|a t IH]; cbn [sumn fold_right]; [reflexivity|]. fold (sumn (fun i => f i + g i) t) (sumn f t) (sumn g t). lia. Qed.

Lemma sumn_ext f g l : (forall i, f i = g i) -> sumn f l = sumn g l.
Proof. intros H. induction l as [|a t IH]; cbn [sumn fold_right]; [reflexivity|]. fold (sumn f t) (sumn g t). rewrite H, IH. reflexivity. Qed.

Lemma sumn_ind_notin x l : ~ In x l -> sumn (fun i => if i =? x then 1 else 0) l = 0.
Proof.
  induction l as [|a t IH]; intros H; cbn [sumn fold_right]; [reflexivity|].
  fold (sumn (fun i => if i =? x then 1 else 0) t). rewrite IH by (intros Hin; apply H; right; exact Hin).
  destruct (Nat.eqb_spec a x) as [->|Hn]; [exfalso; apply H; left; reflexivity|reflexivity].
Qed.

Lemma sumn_ind_in x l : NoDup l -> In x l -> sumn (fun i => if i =? x then 1 else 0) l = 1.
Proof.
  induction l as [|a t IH]; intros Hnd Hin; [destruct Hin|]. cbn [sumn fold_right].
  fold (sumn (fun i => if i =? x then 1 else 0) t). inversion Hnd as [|? ? Ha Ht]; subst.
  destruct (Nat.eqb_spec a x) as [->|Hn].
  - rewrite sumn_ind_notin by exact Ha. reflexivity.
  - destruct Hin as [->|Hin]; [congruence|]. rewrite IH by assumption. reflexivity.
Qed.

Lemma sumn_count n sel : Forall (fun i => i < n) sel -> sumn (fun i => count i sel) (seq 0 n) = length sel.
Proof.
  induction sel as [|x t IH]; intros Hv.
  - cbn [length]. clear. induction (seq 0 n) as [|a l IHl]; [reflexivity|]. cbn [sumn fold_right]. exact IHl.
  - inversion Hv as [|? ? Hx Ht]; subst.
    rewrite (sumn_ext _ (fun i => (if i =? x then 1 else 0) + count i t)) by (intros i; apply count_cons).
    rewrite sumn_plus, (IH Ht), sumn_ind_in; [reflexivity|apply seq_NoDup|apply in_seq; lia].
Qed.

Lemma sumn_filter f (p : nat -> bool) l : (forall i, p i = false -> f i = 0) -> sumn f (filter p l) = sumn f l.
Proof.
  intros H. induction l as [|a t IH]; [reflexivity|]. cbn [filter]. destruct (p a) eqn:E; cbn [sumn fold_right].
  - fold (sumn f (filter p t)) (sumn f t). rewrite IH. reflexivity.
  - fold (sumn f t). rewrite (H a E). exact IH.
Qed.

Lemma sumQ_same_den (f : nat -> nat) (P : positive) l :
  (sumQ (map (fun i => Z.of_nat (f i) # P) l) == Z.of_nat (sumn f l) # P)%Q.
Proof.
  induction l as [|a t IH]; cbn [map sumQ sumn fold_right].
  - reflexivity.
  - fold (sumQ (map (fun i => Z.of_nat (f i) # P) t)) (sumn f t). rewrite IH.
    rewrite Nat2Z.inj_add. unfold Qeq, Qplus. cbn [Qnum Qden]. rewrite Pos2Z.inj_mul. ring.
Qed.

Lemma finalize_sum n sel : sel <> [] -> Forall (fun i => i < n) sel -> (sumQ (map snd (finalize n sel)) == 1)%Q.
Proof.
  intros Hne Hv. rewrite finalize_snd. unfold weight. rewrite (sumQ_same_den (fun i => count i sel)).
  rewrite sumn_filter by (intros i; apply count_notin). rewrite sumn_count by exact Hv.
  destruct sel as [|x t]; [congruence|]. cbn [length]. unfold Qeq. cbn [Qnum Qden].
  rewrite <- Pos.of_nat_succ, Zpos_P_of_succ_nat, Nat2Z.inj_succ. ring.
Qed.

Lemma finalize_wf n bound sel : sel <> [] -> Forall (fun i => i < n) sel -> nunique n sel <= bound ->
  GreedyWF 0 n bound (finalize n sel).
Proof.
  intros Hne Hv Hb. unfold GreedyWF. repeat split.
  - rewrite finalize_fst. apply SS_filter, SS_seq.
  - rewrite finalize_fst, Forall_forall. intros i Hi. apply filter_In in Hi as [Hi _]. apply in_seq in Hi. lia.
  - rewrite finalize_length. destruct sel as [|x t]; [congruence|].
    inversion Hv as [|? ? Hx _]; subst. unfold nunique.
    assert (Hin : In x (filter (fun i => memn i (x :: t)) (seq 0 n))).
    { apply filter_In. split; [apply in_seq; lia|apply memn_In; left; reflexivity]. }
    destruct (filter (fun i => memn i (x :: t)) (seq 0 n)); [destruct Hin|cbn [length]; lia].
  - rewrite finalize_length. exact Hb.
  - rewrite finalize_snd, Forall_forall. intros w Hw. apply in_map_iff in Hw as (i & <- & Hi).
    apply filter_In in Hi as [_ Hi]. apply memn_In, count_pos in Hi. unfold weight, Qlt. cbn [Qnum Qden]. lia.
  - rewrite finalize_sum by assumption. lra.
  - rewrite finalize_sum by assumption. lra.
Qed.

(* ------------------------------------------------------------ the starting ensemble *)
Lemma init_facts o n order : Permutation order (seq 0 n) -> 1 <= n -> 1 <= o_kinit o ->
  let init := init_sel o order in
  init <> [] /\ Forall (fun i => i < n) init /\ NoDup init /\ length init = Nat.min (o_kinit o) n
  /\ nunique n init = length init.
Proof.
  intros Hp Hn Hk init. unfold init, init_sel.
  assert (Hlen : length order = n) by (rewrite (Permutation_length Hp); apply seq_length).
  assert (Hnd : NoDup order) by (eapply Permutation_NoDup; [apply Permutation_sym; exact Hp|apply seq_NoDup]).
  assert (Hv : Forall (fun i => i < n) (firstn (o_kinit o) order)).
  { rewrite Forall_forall. intros i Hi.
    assert (Hin : In i order) by (rewrite <- (firstn_skipn (o_kinit o) order); apply in_or_app; left; exact Hi).
    eapply Permutation_in in Hin; [|exact Hp]. apply in_seq in Hin. lia. }
  assert (Hnd' : NoDup (firstn (o_kinit o) order)).
  { rewrite <- (firstn_skipn (o_kinit o) order) in Hnd. eapply NoDup_app_l; exact Hnd. }
  assert (Hl : length (firstn (o_kinit o) order) = Nat.min (o_kinit o) n) by (rewrite firstn_length, Hlen; reflexivity).
  repeat split; try assumption.
  - intros E. rewrite E in Hl. cbn [length] in Hl. lia.
  - apply nunique_of_nodup; assumption.
Qed.

(* ------------------------------------------------------------ theorem-level statements *)
Lemma greedy_wellformed fixed o n order L0 L bags fuel sel loss :
  Permutation order (seq 0 n) -> 1 <= n -> 1 <= o_kinit o ->
  greedy fixed o n order L0 L bags fuel = Done sel loss ->
  GreedyWF 0 n (Nat.max (o_k o) (length (init_sel o order))) (finalize n sel)
  /\ (forall i, In i (map fst (finalize n sel)) <-> In i sel)
  /\ length (init_sel o order) = Nat.min (o_kinit o) n.
Proof.
  intros Hp Hn Hk H. destruct (init_facts o n order Hp Hn Hk) as (Hne & Hv & _ & Hl & Hu).
  unfold greedy in H.
  eapply (loop_inv fixed o n L bags (Nat.max (o_k o) (length (init_sel o order)))) in H; [| lia | exact Hne | exact Hv | lia].
  destruct H as (Hne' & Hv' & Hu'). split; [apply finalize_wf; assumption|].
  split; [intros i; apply finalize_In; exact Hv'|exact Hl].
Qed.

Lemma greedy_no_worse fixed o n order L0 L bags fuel sel loss :
  o_es o = true -> (0 <= o_eps o)%Q ->
  greedy fixed o n order L0 L bags fuel = Done sel loss ->
  (loss <= L0)%Q /\ ((sel = init_sel o order /\ loss = L0) \/ loss = L sel).
Proof. intros Hes He H. unfold greedy in H. eapply loop_noworse; eauto. Qed.

(* the options for which termination is claimed, with the fuel that is enough *)
Definition terminating (o : opts) (n : nat) (L0 : Q) (L : list nat -> Q) (fuel : nat) : Prop :=
  (exists m, o_maxit o = Some m /\ m < fuel)
  \/ (o_repl o = false /\ n < fuel)
  \/ (o_es o = true /\ (0 < o_eps o)%Q /\ (forall ms, 0 <= L ms)%Q /\ (0 <= L0)%Q
      /\ (L0 < inject_Z (Z.of_nat fuel) * o_eps o)%Q).

Lemma greedy_total o n order L0 L bags fuel :
  terminating o n L0 L fuel -> exists sel loss, greedy true o n order L0 L bags fuel = Done sel loss.
Proof.
  intros Ht. unfold greedy.
  assert (Hne : loop true o n L bags fuel 0 (init_sel o order) L0 <> ErrAllNaN) by (apply loop_no_error; reflexivity).
  assert (Hnf : loop true o n L bags fuel 0 (init_sel o order) L0 <> OutOfFuel).
  { destruct Ht as [(m & Hm & Hf)|[(Hr & Hf)|(Hes & He & HL & H0 & Hf)]].
    - eapply loop_fuel_maxit; [exact Hm|lia].
    - apply loop_fuel_norepl; [exact Hr|]. pose proof (nunique_le n (init_sel o order)). lia.
    - apply loop_fuel_es; assumption. }
  destruct (loop true o n L bags fuel 0 (init_sel o order) L0) as [sel loss| |]; [eauto|congruence|congruence].
Qed.

Lemma greedy_never_raises o n order L0 L bags fuel : greedy true o n order L0 L bags fuel <> ErrAllNaN.
Proof. unfold greedy. apply loop_no_error. reflexivity. Qed.

(* a concrete fuel for the early-stopping class *)
Definition fuel_es (L0 eps : Q) : nat := S (Z.to_nat (Qfloor (L0 / eps))).

Lemma fuel_es_enough L0 eps : (0 < eps)%Q -> (0 <= L0)%Q -> (L0 < inject_Z (Z.of_nat (fuel_es L0 eps)) * eps)%Q.
Proof.
  intros He H0. unfold fuel_es.
  assert (Hq : (0 <= L0 / eps)%Q).
  { unfold Qdiv. apply Qmult_le_0_compat; [exact H0|]. apply Qlt_le_weak, Qinv_lt_0_compat. exact He. }
  assert (Hfl : (0 <= Qfloor (L0 / eps))%Z).
  { change 0%Z with (Qfloor 0). apply Qfloor_resp_le. exact Hq. }
  rewrite Nat2Z.inj_succ, Z2Nat.id by exact Hfl. unfold Z.succ.
  pose proof (Qlt_floor (L0 / eps)) as Hlt.
  apply (Qmult_lt_compat_r _ _ eps He) in Hlt.
  assert (E : (L0 / eps * eps == L0)%Q) by (field; intros E0; rewrite E0 in He; apply (Qlt_irrefl 0 He)).
  rewrite E in Hlt. exact Hlt.
Qed.

Lemma greedy_stateless fixed o n order L0 L bags bags' fuel :
  o_bag o = false -> greedy fixed o n order L0 L bags fuel = greedy fixed o n order L0 L bags' fuel.
Proof. intros H. unfold greedy. apply loop_nobag; [exact H|right; reflexivity]. Qed.
