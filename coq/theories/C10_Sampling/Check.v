(* Boolean oracles applied to the IMPLEMENTATION's outputs (converted Space.dimensions, multisets of draws), with their
   reflection lemmas.  The specifications use only Model.spec_of_decl / dim_spec - never Model.check or the table. *)
From Coq Require Import List ZArith QArith Bool Lia Arith.
Import ListNotations.
Require Import DH.C10_Sampling.Model.
Open Scope Z_scope.

(* ------------------------------------------------------------ decidable equalities ------------------------------------------------------------ *)
Lemma Qsame_eq a b : Qsame a b = true <-> a = b.
Proof.
  destruct a as [n d], b as [n' d']. unfold Qsame. cbn [Qnum Qden]. rewrite andb_true_iff, Z.eqb_eq, Pos.eqb_eq.
  split; [intros [-> ->]; reflexivity | intros E; inversion E; auto].
Qed.

Lemma atom_eqb_eq a b : atom_eqb a b = true <-> a = b.
Proof.
  destruct a, b; cbn [atom_eqb]; try (split; [discriminate | intros E; discriminate E]); try (split; reflexivity).
  - rewrite Z.eqb_eq. split; [intros ->; reflexivity | intros E; inversion E; reflexivity].
  - rewrite Qsame_eq. split; [intros ->; reflexivity | intros E; inversion E; reflexivity].
  - rewrite Z.eqb_eq. split; [intros ->; reflexivity | intros E; inversion E; reflexivity].
  - rewrite Bool.eqb_true_iff. split; [intros ->; reflexivity | intros E; inversion E; reflexivity].
Qed.

Fixpoint list_eqb {A} (e : A -> A -> bool) (l1 l2 : list A) : bool :=
  match l1, l2 with
  | [], [] => true
  | x :: t, y :: u => e x y && list_eqb e t u
  | _, _ => false
  end.

Lemma list_eqb_eq {A} (e : A -> A -> bool) (He : forall a b, e a b = true <-> a = b) l1 l2 : list_eqb e l1 l2 = true <-> l1 = l2.
Proof.
  revert l2. induction l1 as [|x t IH]; intros [|y u]; cbn [list_eqb]; try (split; [discriminate | intros E; discriminate E]).
  - split; reflexivity.
  - rewrite andb_true_iff, He, IH. split; [intros [-> ->]; reflexivity | intros E; inversion E; auto].
Qed.

Definition dspec_eqb (a b : dspec) : bool :=
  match a, b with
  | SInt l u g, SInt l' u' g' => (l =? l') && (u =? u') && Bool.eqb g g'
  | SReal l u g, SReal l' u' g' => Qsame l l' && Qsame u u' && Bool.eqb g g'
  | SCats c, SCats c' => list_eqb atom_eqb c c'
  | _, _ => false
  end.

Lemma dspec_eqb_eq a b : dspec_eqb a b = true <-> a = b.
Proof.
  destruct a, b; cbn [dspec_eqb]; try (split; [discriminate | intros E; discriminate E]).
  - rewrite !andb_true_iff, !Z.eqb_eq, Bool.eqb_true_iff. split; [intros [[-> ->] ->]; reflexivity | intros E; inversion E; auto].
  - rewrite !andb_true_iff, !Qsame_eq, Bool.eqb_true_iff. split; [intros [[-> ->] ->]; reflexivity | intros E; inversion E; auto].
  - rewrite (list_eqb_eq atom_eqb atom_eqb_eq). split; [intros ->; reflexivity | intros E; inversion E; auto].
Qed.

(* ------------------------------------------------------------ conversion oracle ------------------------------------------------------------ *)
Fixpoint zmem (x : Z) (l : list Z) : bool := match l with [] => false | y :: t => (x =? y) || zmem x t end.
Fixpoint znodup (l : list Z) : bool := match l with [] => true | x :: t => negb (zmem x t) && znodup t end.
Fixpoint lookup {A} (n : Z) (l : list (Z * A)) : option A :=
  match l with [] => None | (k, v) :: t => if n =? k then Some v else lookup n t end.
Fixpoint forall2b {A B} (f : A -> B -> bool) (l1 : list A) (l2 : list B) : bool :=
  match l1, l2 with
  | [], [] => true
  | x :: t, y :: u => f x y && forall2b f t u
  | _, _ => false
  end.

Lemma zmem_In x l : zmem x l = true <-> In x l.
Proof.
  induction l as [|y t IH]; cbn [zmem In]; [split; [discriminate | tauto]|].
  rewrite orb_true_iff, Z.eqb_eq, IH. split; intros [H|H]; auto.
Qed.
Lemma znodup_NoDup l : znodup l = true <-> NoDup l.
Proof.
  induction l as [|x t IH]; cbn [znodup]; [split; [constructor | reflexivity]|].
  rewrite andb_true_iff, negb_true_iff, IH. split.
  - intros [H1 H2]. constructor; [|exact H2]. intros Hin. apply zmem_In in Hin. congruence.
  - intros H. inversion H as [|? ? H1 H2]; subst. split; [|exact H2].
    destruct (zmem x t) eqn:E; [apply zmem_In in E; contradiction | reflexivity].
Qed.
Lemma forall2b_Forall2 {A B} (f : A -> B -> bool) l1 l2 : forall2b f l1 l2 = true <-> Forall2 (fun a b => f a b = true) l1 l2.
Proof.
  revert l2. induction l1 as [|x t IH]; intros [|y u]; cbn [forall2b].
  - split; [constructor | reflexivity].
  - split; [discriminate | intros H; inversion H].
  - split; [discriminate | intros H; inversion H].
  - rewrite andb_true_iff, IH. split; [intros [H1 H2]; constructor; assumption | intros H; inversion H; subst; auto].
Qed.

(* dimension [dm], standing at the position of name [n], is what was declared under that name *)
Definition DimDeclared (decls : list (Z * decl)) (n : Z) (dm : dim) : Prop :=
  d_name dm = Some n /\ exists d, lookup n decls = Some d /\ spec_of_decl d = Some (dim_spec dm).

Definition dim_ok (decls : list (Z * decl)) (n : Z) (dm : dim) : bool :=
  match d_name dm, lookup n decls with
  | Some n', Some d => (n' =? n) && match spec_of_decl d with Some s => dspec_eqb (dim_spec dm) s | None => false end
  | _, _ => false
  end.

Lemma dim_ok_spec decls n dm : dim_ok decls n dm = true <-> DimDeclared decls n dm.
Proof.
  unfold dim_ok, DimDeclared. destruct (d_name dm) as [n'|]; [|split; [discriminate | intros [E _]; discriminate E]].
  destruct (lookup n decls) as [d|]; [|split; [discriminate | intros [_ [d [E _]]]; discriminate E]].
  rewrite andb_true_iff, Z.eqb_eq. split.
  - intros [-> H]. split; [reflexivity|]. exists d. split; [reflexivity|].
    destruct (spec_of_decl d) as [s|]; [|discriminate]. apply dspec_eqb_eq in H. congruence.
  - intros [E [d' [E1 E2]]]. inversion E; subst. inversion E1; subst. split; [reflexivity|]. rewrite E2. apply dspec_eqb_eq. reflexivity.
Qed.

(* The statement of the conversion clause of the property on OBSERVED data: [order] = problem.hyperparameter_names,
   [dims] = the fields read from Space.dimensions.  Names are kept (none lost, none invented, none twice), the
   dimensions follow the order of the names, and every dimension has the declared bounds / log flag / choices. *)
Definition ConvSpec (decls : list (Z * decl)) (order : list Z) (dims : list dim) : Prop :=
  NoDup order /\ length order = length decls /\ incl order (map fst decls) /\ Forall2 (DimDeclared decls) order dims.

Definition ok_conv (decls : list (Z * decl)) (order : list Z) (dims : list dim) : bool :=
  znodup order && Nat.eqb (length order) (length decls) && forallb (fun n => zmem n (map fst decls)) order
  && forall2b (dim_ok decls) order dims.

Lemma ok_conv_spec decls order dims : ok_conv decls order dims = true <-> ConvSpec decls order dims.
Proof.
  unfold ok_conv, ConvSpec. rewrite !andb_true_iff, znodup_NoDup, Nat.eqb_eq, forallb_forall, forall2b_Forall2.
  assert (HF : Forall2 (fun a b => dim_ok decls a b = true) order dims <-> Forall2 (DimDeclared decls) order dims).
  { split; intros H; induction H; constructor; auto; apply dim_ok_spec; assumption. }
  rewrite HF. split.
  - intros [[[H1 H2] H3] H4]. repeat split; try assumption. intros n Hn. apply zmem_In, H3, Hn.
  - intros (H1 & H2 & H3 & H4). repeat split; try assumption. intros n Hn. apply zmem_In, H3, Hn.
Qed.

(* which clause failed - for the report only (the verdict is ok_conv):
   1 names (duplicate / unknown / lost)   2 number of dimensions   3 name or order   4 kind of dimension
   5 bounds   6 log flag   7 categories   8 declaration not accepted   0 nothing found *)
Definition spec_clause (a b : dspec) : Z :=
  match a, b with
  | SInt l u g, SInt l' u' g' => if negb ((l =? l') && (u =? u')) then 5 else if negb (Bool.eqb g g') then 6 else 0
  | SReal l u g, SReal l' u' g' => if negb (Qsame l l' && Qsame u u') then 5 else if negb (Bool.eqb g g') then 6 else 0
  | SCats c, SCats c' => if list_eqb atom_eqb c c' then 0 else 7
  | _, _ => 4
  end.
Definition dim_clause (decls : list (Z * decl)) (n : Z) (dm : dim) : Z :=
  match d_name dm, lookup n decls with
  | Some n', Some d => if negb (n' =? n) then 3 else match spec_of_decl d with Some s => spec_clause (dim_spec dm) s | None => 8 end
  | None, _ => 3
  | _, None => 1
  end.
Fixpoint first_bad (decls : list (Z * decl)) (i : nat) (order : list Z) (dims : list dim) : Z * nat :=
  match order, dims with
  | [], [] => (0, O)
  | n :: t, dm :: u => let c := dim_clause decls n dm in if c =? 0 then first_bad decls (S i) t u else (c, i)
  | _, _ => (2, i)
  end.
Definition conv_clause (decls : list (Z * decl)) (order : list Z) (dims : list dim) : Z * nat :=
  if negb (znodup order && Nat.eqb (length order) (length decls) && forallb (fun n => zmem n (map fst decls)) order) then (1, O)
  else first_bad decls O order dims.

(* ------------------------------------------------------------ support oracle ------------------------------------------------------------ *)
Definition in_support (s : dspec) (a : atom) : bool :=
  match s, a with
  | SInt lo hi _, AInt z => (lo <=? z) && (z <=? hi)
  | SReal lo hi _, AFloat q => Qle_bool lo q && Qle_bool q hi
  | SCats cats, _ => existsb (py_eq a) cats          (* Python's `in`: == *)
  | _, _ => false
  end.

(* every value is expected at least [cover] times *)
Definition cover : Z := 64.
Definition small (s : dspec) (n : nat) : bool :=
  match s with
  | SInt lo hi false => (hi - lo + 1) * cover <=? Z.of_nat n
  | SCats cats => Z.of_nat (length cats) * cover <=? Z.of_nat n
  | _ => false
  end.
Definition values (s : dspec) : list atom :=
  match s with
  | SInt lo hi _ => map AInt (randint_vals lo (hi + 1))
  | SCats cats => cats
  | SReal _ _ _ => []
  end.

(* closeness to the two ends of a numeric range: within 1/50 of an integer range, 1/100 of a real range - of the
   logarithmic range when the prior is log-uniform (x^100 <= lo^99 * hi  <=>  log x <= log lo + (log hi - log lo)/100) *)
Definition near_lo (s : dspec) (a : atom) : bool :=
  match s, a with
  | SInt lo hi false, AInt z => (z - lo) * 50 <=? hi - lo
  | SInt lo hi true, AInt z => z ^ 50 <=? lo ^ 49 * hi
  | SReal lo hi false, AFloat q => Qle_bool ((q - lo) * 100) (hi - lo)
  | SReal lo hi true, AFloat q => Qle_bool (q ^ 100) (lo ^ 99 * hi)
  | SCats _, _ => true
  | _, _ => false
  end.
Definition near_hi (s : dspec) (a : atom) : bool :=
  match s, a with
  | SInt lo hi false, AInt z => (hi - z) * 50 <=? hi - lo
  | SInt lo hi true, AInt z => lo * hi ^ 49 <=? z ^ 50
  | SReal lo hi false, AFloat q => Qle_bool ((hi - q) * 100) (hi - lo)
  | SReal lo hi true, AFloat q => Qle_bool (lo * hi ^ 99) (q ^ 100)
  | SCats _, _ => true
  | _, _ => false
  end.

(* numeric order on atoms, used to pick the smallest / largest draw *)
Definition aleb (a b : atom) : bool :=
  match a, b with
  | AInt x, AInt y => x <=? y
  | AFloat x, AFloat y => Qle_bool x y
  | _, _ => true
  end.
Fixpoint pick (le : atom -> atom -> bool) (best : atom) (l : list atom) : atom :=
  match l with [] => best | x :: t => pick le (if le x best then x else best) t end.
Definition amin (l : list atom) : option atom := match l with [] => None | x :: t => Some (pick aleb x t) end.
Definition amax (l : list atom) : option atom := match l with [] => None | x :: t => Some (pick (fun a b => aleb b a) x t) end.

Lemma pick_In le best l : pick le best l = best \/ In (pick le best l) l.
Proof.
  revert best. induction l as [|x t IH]; intros best; cbn [pick]; [left; reflexivity|].
  destruct (IH (if le x best then x else best)) as [E|H]; [|right; right; exact H].
  rewrite E. destruct (le x best); [right; left; reflexivity | left; reflexivity].
Qed.
Lemma amin_In l a : amin l = Some a -> In a l.
Proof. destruct l as [|x t]; [discriminate|]. cbn [amin]. intros E. inversion E. destruct (pick_In aleb x t) as [->|H]; [left; reflexivity | right; exact H]. Qed.
Lemma amax_In l a : amax l = Some a -> In a l.
Proof. destruct l as [|x t]; [discriminate|]. cbn [amax]. intros E. inversion E. destruct (pick_In (fun a b => aleb b a) x t) as [->|H]; [left; reflexivity | right; exact H]. Qed.

(* The statement of the support clause on an OBSERVED multiset of draws of one dimension *)
Definition SupportSpec (s : dspec) (draws : list atom) : Prop :=
  (forall a, In a draws -> in_support s a = true)                                        (* inside the inclusive bounds, of the declared kind *)
  /\ (small s (length draws) = true -> forall v, In v (values s) -> exists a, In a draws /\ py_eq v a = true)   (* every category / every integer of a small range occurs *)
  /\ (exists a, In a draws /\ near_lo s a = true) /\ (exists b, In b draws /\ near_hi s b = true).   (* both ends are approached *)

(* None = ok; Some 1: a draw outside the support / of another type, 2: a value never drawn, 3 / 4: lower / upper end not approached, 5: no draws *)
Definition ok_support (s : dspec) (draws : list atom) : option Z :=
  if negb (forallb (in_support s) draws) then Some 1
  else if small s (length draws) && negb (forallb (fun v => existsb (py_eq v) draws) (values s)) then Some 2
  else match amin draws, amax draws with
       | Some a, Some b => if negb (near_lo s a) then Some 3 else if negb (near_hi s b) then Some 4 else None
       | _, _ => Some 5
       end.

Lemma ok_support_sound s draws : ok_support s draws = None -> SupportSpec s draws.
Proof.
  unfold ok_support, SupportSpec. destruct (forallb (in_support s) draws) eqn:E1; cbn [negb]; [|discriminate].
  destruct (small s (length draws) && negb (forallb (fun v => existsb (py_eq v) draws) (values s))) eqn:E2; [discriminate|].
  destruct (amin draws) as [a|] eqn:Ea; [|discriminate]. destruct (amax draws) as [b|] eqn:Eb; [|discriminate].
  destruct (near_lo s a) eqn:E3; cbn [negb]; [|discriminate]. destruct (near_hi s b) eqn:E4; cbn [negb]; [|discriminate].
  intros _. split; [|split; [|split]].
  - rewrite forallb_forall in E1. exact E1.
  - intros Hs v Hv. rewrite Hs in E2. cbn [andb] in E2. apply negb_false_iff in E2. rewrite forallb_forall in E2.
    specialize (E2 v Hv). apply existsb_exists in E2 as [x [Hx Ex]]. exists x. split; assumption.
  - exists a. split; [apply amin_In; exact Ea | exact E3].
  - exists b. split; [apply amax_In; exact Eb | exact E4].
Qed.

(* ------------------------------------------------ chi-square test against a UNIFORM pmf, decided exactly ------------------------------------------------ *)
(* counts O_1..O_k, n = sum, E = n/k.  stat = sum (O_i - E)^2 / E = (k * sum O_i^2 - n^2) / n.
   Threshold (Laurent-Massart tail bound for a chi-square variable with df = k - 1 degrees of freedom):
     P(stat >= df + 2 sqrt(df * x) + 2 x) <= exp(-x),   x = 21  (exp(-21) < 1e-9).
   With t = stat - df - 2x the test accepts iff  t <= 0  or  t^2 <= 4 df x.   A TEST (level `other`), not a theorem about deephyper. *)
Definition chi_x : Z := 21.
Definition sumZ (l : list Z) : Z := fold_right Z.add 0 l.
Definition chi2_num (counts : list Z) : Z :=
  let k := Z.of_nat (length counts) in let n := sumZ counts in
  k * sumZ (map (fun o => o * o) counts) - n * n.                      (* stat = chi2_num / n *)
Definition ok_chi2_uniform (counts : list Z) : bool :=
  let k := Z.of_nat (length counts) in let n := sumZ counts in let df := k - 1 in
  let t := chi2_num counts - n * (df + 2 * chi_x) in                   (* t * n *)
  (0 <? n) && ((t <=? 0) || (t * t <=? 4 * df * chi_x * n * n)).
Definition counts_of (s : dspec) (draws : list atom) : list Z :=
  map (fun v => Z.of_nat (length (filter (py_eq v) draws))) (values s).
