(* C10 - sampling part: the image of every quantile map is exactly the declared support; masses under the uniform measure
   on the quantile argument. *)
From Coq Require Import List ZArith QArith Qround Bool Lia Lqa FinFun.
Import ListNotations.
Require Import DH.C10_Sampling.Model DH.C10_Sampling.Check.
Open Scope Z_scope.

(* ------------------------------------------------------------ integers, uniform ------------------------------------------------------------ *)
Lemma randint_vals_In a b v : In v (randint_vals a b) <-> a <= v < b.
Proof.
  unfold randint_vals. rewrite in_map_iff. split.
  - intros (k & <- & Hk). apply in_seq in Hk. lia.
  - intros H. exists (Z.to_nat (v - a)). split; [lia|]. apply in_seq. lia.
Qed.
Lemma randint_vals_length a b : length (randint_vals a b) = Z.to_nat (b - a).
Proof. unfold randint_vals. rewrite map_length, seq_length. reflexivity. Qed.
Lemma randint_vals_NoDup a b : NoDup (randint_vals a b).
Proof.
  unfold randint_vals. apply Injective_map_NoDup; [|apply seq_NoDup]. intros x y H. lia.
Qed.

Lemma clipZ_id lo hi x : lo <= x <= hi -> clipZ lo hi x = x.
Proof. intros H. unfold clipZ. destruct (x <? lo) eqn:E1; [apply Z.ltb_lt in E1; lia|]. destruct (hi <? x) eqn:E2; [apply Z.ltb_lt in E2; lia | reflexivity]. Qed.
Lemma clipZ_range lo hi x : lo <= hi -> lo <= clipZ lo hi x <= hi.
Proof. intros H. unfold clipZ. destruct (x <? lo) eqn:E1; [lia|]. destruct (hi <? x) eqn:E2; [lia|]. apply Z.ltb_ge in E1, E2. lia. Qed.

Lemma int_uniform_vals_eq lo hi : int_uniform_vals lo hi = randint_vals lo (hi + 1).
Proof.
  unfold int_uniform_vals. rewrite <- (map_id (randint_vals lo (hi + 1))) at 2. apply map_ext_in.
  intros v Hv. apply randint_vals_In in Hv. apply clipZ_id. lia.
Qed.

(* the set of values Integer(low, high).rvs can produce is EXACTLY low .. high: both bounds included, nothing outside *)
Theorem support_int lo hi v : In v (int_uniform_vals lo hi) <-> lo <= v <= hi.
Proof. rewrite int_uniform_vals_eq, randint_vals_In. lia. Qed.

Theorem support_int_quantile lo hi v : lo <= hi -> (exists k, 0 <= k <= hi - lo /\ q_int_uniform lo hi k = v) <-> lo <= v <= hi.
Proof.
  intros Hle. unfold q_int_uniform. split.
  - intros (k & Hk & <-). rewrite clipZ_id; lia.
  - intros H. exists (v - lo). split; [lia|]. rewrite clipZ_id; lia.
Qed.

Lemma count_NoDup {A} (e : A -> A -> bool) (He : forall a b, e a b = true <-> a = b) v l :
  NoDup l -> length (filter (e v) l) = if existsb (e v) l then 1%nat else 0%nat.
Proof.
  induction l as [|x t IH]; intros Hnd; cbn [filter existsb]; [reflexivity|]. inversion Hnd as [|? ? Hx Ht]; subst.
  destruct (e v x) eqn:E.
  - apply He in E. subst x. cbn [length orb]. rewrite (IH Ht).
    destruct (existsb (e v) t) eqn:Ex; [|reflexivity]. apply existsb_exists in Ex as (y & Hy & Ey). apply He in Ey. subst. contradiction.
  - cbn [orb]. apply IH. exact Ht.
Qed.

Lemma Zeqb_refl_iff a b : (a =? b) = true <-> a = b.
Proof. apply Z.eqb_eq. Qed.

(* every value of the range has the same mass 1 / (hi - lo + 1), values outside have mass 0 *)
Theorem pmf_uniform lo hi v : lo <= hi ->
  pmf_int_uniform lo hi v == if (lo <=? v) && (v <=? hi) then 1 / inject_Z (hi - lo + 1) else 0.
Proof.
  intros Hle. unfold pmf_int_uniform, count_val. rewrite int_uniform_vals_eq, randint_vals_length.
  rewrite (count_NoDup Z.eqb Zeqb_refl_iff v _ (randint_vals_NoDup lo (hi + 1))).
  rewrite Z2Nat.id by lia. replace (hi + 1 - lo) with (hi - lo + 1) by lia.
  destruct (existsb (Z.eqb v) (randint_vals lo (hi + 1))) eqn:Ex.
  - apply existsb_exists in Ex as (y & Hy & Ey). apply Z.eqb_eq in Ey. subst y. apply randint_vals_In in Hy.
    replace ((lo <=? v) && (v <=? hi)) with true; [reflexivity|]. symmetry. apply andb_true_iff. split; apply Z.leb_le; lia.
  - replace ((lo <=? v) && (v <=? hi)) with false; [reflexivity|]. symmetry. apply andb_false_iff.
    destruct (lo <=? v) eqn:E1; [|left; reflexivity]. right. destruct (v <=? hi) eqn:E2; [|reflexivity].
    apply Z.leb_le in E1, E2. exfalso. assert (In v (randint_vals lo (hi + 1))) by (apply randint_vals_In; lia).
    assert (existsb (Z.eqb v) (randint_vals lo (hi + 1)) = true) by (apply existsb_exists; exists v; split; [assumption | apply Z.eqb_refl]). congruence.
Qed.

(* ------------------------------------------------------------ categories ------------------------------------------------------------ *)
Theorem support_cat cats a : (exists k, (k < length cats)%nat /\ q_cat cats k = Some a) <-> In a cats.
Proof.
  unfold q_cat. split.
  - intros (k & _ & H). eapply nth_error_In; eauto.
  - intros H. apply In_nth_error in H as [k Hk]. exists k. split; [|exact Hk]. apply nth_error_Some. congruence.
Qed.

Theorem pmf_cat_uniform cats a : NoDup cats -> In a cats -> pmf_cat cats a == 1 / inject_Z (Z.of_nat (length cats)).
Proof.
  intros Hnd Hin. unfold pmf_cat. rewrite (count_NoDup atom_eqb atom_eqb_eq a cats Hnd).
  replace (existsb (atom_eqb a) cats) with true; [reflexivity|]. symmetry. apply existsb_exists. exists a. split; [exact Hin | apply atom_eqb_eq; reflexivity].
Qed.

(* ------------------------------------------------------------ reals, uniform ------------------------------------------------------------ *)
Open Scope Q_scope.

Lemma real_in_bounds lo hi u : lo <= hi -> 0 <= u <= 1 -> lo <= q_real_uniform lo hi u <= hi.
Proof. intros H [H0 H1]. unfold q_real_uniform. split; nra. Qed.
Lemma real_monotone lo hi u u' : lo <= hi -> u <= u' -> q_real_uniform lo hi u <= q_real_uniform lo hi u'.
Proof. intros H Hu. unfold q_real_uniform. nra. Qed.
Lemma real_end_lo lo hi : q_real_uniform lo hi 0 == lo.
Proof. unfold q_real_uniform. ring. Qed.
Lemma real_end_hi lo hi : q_real_uniform lo hi 1 == hi.
Proof. unfold q_real_uniform. ring. Qed.
Lemma real_onto lo hi x : lo < hi -> lo <= x <= hi -> 0 <= cdf_real_uniform lo hi x <= 1 /\ q_real_uniform lo hi (cdf_real_uniform lo hi x) == x.
Proof.
  intros Hlt [Hl Hh]. unfold cdf_real_uniform, q_real_uniform. assert (Hw : 0 < hi - lo) by lra. split; [split|].
  - apply Qle_shift_div_l; [exact Hw | lra].
  - apply Qle_shift_div_r; [exact Hw | lra].
  - field. intros E. rewrite E in Hw. exact (Qlt_irrefl 0 Hw).
Qed.

Theorem support_real lo hi : lo < hi ->
  (forall u, 0 <= u <= 1 -> lo <= q_real_uniform lo hi u <= hi)
  /\ (forall u u', u <= u' -> q_real_uniform lo hi u <= q_real_uniform lo hi u')
  /\ q_real_uniform lo hi 0 == lo /\ q_real_uniform lo hi 1 == hi
  /\ (forall x, lo <= x <= hi -> exists u, 0 <= u <= 1 /\ q_real_uniform lo hi u == x).
Proof.
  intros Hlt. assert (Hle : lo <= hi) by lra. repeat split.
  - apply real_in_bounds; assumption.
  - apply real_in_bounds; assumption.
  - intros u u' Hu. apply real_monotone; assumption.
  - apply real_end_lo.
  - apply real_end_hi.
  - intros x Hx. exists (cdf_real_uniform lo hi x). apply real_onto; assumption.
Qed.

(* ------------------------------------------------------------ rounding ------------------------------------------------------------ *)
Lemma round_he_comp x y : x == y -> round_he x = round_he y.
Proof.
  intros H. unfold round_he. rewrite (Qfloor_comp x y H).
  assert (E : x - inject_Z (Qfloor y) == y - inject_Z (Qfloor y)) by (rewrite H; reflexivity).
  rewrite (Qcompare_comp _ _ E (1 # 2) (1 # 2) (Qeq_refl _)). reflexivity.
Qed.

Lemma round_he_Z z : round_he (inject_Z z) = z.
Proof.
  unfold round_he. rewrite Qfloor_Z.
  assert (E : (inject_Z z - inject_Z z ?= 1 # 2) = Lt).
  { apply (proj1 (Qlt_alt _ _)). generalize (inject_Z z). intros q. lra. }
  rewrite E. reflexivity.
Qed.

Lemma floor_bounds x : inject_Z (Qfloor x) <= x < inject_Z (Qfloor x) + 1.
Proof.
  split; [apply Qfloor_le|]. pose proof (Qlt_floor x) as H. rewrite inject_Z_plus in H. exact H.
Qed.

(* |round_he x - x| <= 1/2 *)
Lemma round_he_close x : x - (1 # 2) <= inject_Z (round_he x) <= x + (1 # 2).
Proof.
  pose proof (floor_bounds x) as [H1 H2]. unfold round_he.
  destruct (x - inject_Z (Qfloor x) ?= 1 # 2) eqn:E.
  - apply Qeq_alt in E. destruct (Z.even (Qfloor x)); [|rewrite inject_Z_plus; change (inject_Z 1) with 1]; split; lra.
  - apply Qlt_alt in E. split; lra.
  - apply Qgt_alt in E. rewrite inject_Z_plus. change (inject_Z 1) with 1. split; lra.
Qed.

Lemma Zle_of_Qlt_half a b : inject_Z a < inject_Z b + (1 # 2) -> (a <= b)%Z.
Proof. unfold Qlt, inject_Z, Qplus. cbn. lia. Qed.
Lemma Zle_of_Qlt_one a b : inject_Z a < inject_Z b + 1 -> (a <= b)%Z.
Proof. unfold Qlt, inject_Z, Qplus. cbn. lia. Qed.
Lemma Zlt_of_Qlt a b : inject_Z a < inject_Z b -> (a < b)%Z.
Proof. rewrite <- Zlt_Qlt. auto. Qed.

(* strictly inside a rounding cell the result is the centre of the cell *)
Lemma round_he_near x z : inject_Z z - (1 # 2) < x < inject_Z z + (1 # 2) -> round_he x = z.
Proof.
  intros [H1 H2]. pose proof (round_he_close x) as [H3 H4].
  assert (Ha : (round_he x <= z)%Z) by (apply Zle_of_Qlt_one; lra).
  assert (Hb : (z <= round_he x)%Z) by (apply Zle_of_Qlt_one; lra).
  lia.
Qed.

Lemma inject_Z_sub a b : inject_Z (a - b) == inject_Z a - inject_Z b.
Proof. unfold Z.sub. rewrite inject_Z_plus, inject_Z_opp. reflexivity. Qed.

Lemma inject_Z_nonzero z : (z <> 0)%Z -> ~ inject_Z z == 0.
Proof. intros H E. apply H. unfold Qeq, inject_Z in E. cbn in E. lia. Qed.

(* ------------------------------------------------------------ log-uniform prior ------------------------------------------------------------ *)
Section LogPrior.
  Variables (lg pw : Q -> Q) (lo hi : Q).
  (* what is assumed of the library functions log10(.)/log10(base) and base ** . : *)
  Hypothesis pw_mono : forall x y, x <= y -> pw x <= pw y.
  Hypothesis pw_lg_lo : pw (lg lo) == lo.
  Hypothesis pw_lg_hi : pw (lg hi) == hi.
  Hypothesis lg_order : lg lo <= lg hi.

  Lemma pw_proper x y : x == y -> pw x == pw y.
  Proof. intros H. apply Qle_antisym; apply pw_mono; rewrite H; apply Qle_refl. Qed.

  Lemma real_log_in_bounds u : 0 <= u <= 1 -> lo <= q_real_log lg pw lo hi u <= hi.
  Proof.
    intros Hu. unfold q_real_log. destruct (real_in_bounds (lg lo) (lg hi) u lg_order Hu) as [H1 H2]. split.
    - rewrite <- pw_lg_lo at 1. apply pw_mono. exact H1.
    - rewrite <- pw_lg_hi at 2. apply pw_mono. exact H2.
  Qed.
  Lemma real_log_monotone u u' : u <= u' -> q_real_log lg pw lo hi u <= q_real_log lg pw lo hi u'.
  Proof. intros Hu. unfold q_real_log. apply pw_mono. apply real_monotone; assumption. Qed.
  Lemma real_log_end_lo : q_real_log lg pw lo hi 0 == lo.
  Proof. unfold q_real_log. rewrite (pw_proper _ _ (real_end_lo (lg lo) (lg hi))). exact pw_lg_lo. Qed.
  Lemma real_log_end_hi : q_real_log lg pw lo hi 1 == hi.
  Proof. unfold q_real_log. rewrite (pw_proper _ _ (real_end_hi (lg lo) (lg hi))). exact pw_lg_hi. Qed.
End LogPrior.

Lemma clipQ_range lo hi x : lo <= hi -> lo <= clipQ lo hi x <= hi.
Proof.
  intros H. unfold clipQ, Qltb. destruct (Qle_bool lo x) eqn:E1; cbn [negb].
  - destruct (Qle_bool x hi) eqn:E2; cbn [negb]; [apply Qle_bool_iff in E1, E2; lra | lra].
  - lra.
Qed.
Lemma clipQ_id lo hi x : lo <= x <= hi -> clipQ lo hi x == x.
Proof.
  intros [H1 H2]. unfold clipQ, Qltb. apply Qle_bool_iff in H1, H2. rewrite H1, H2. cbn [negb]. reflexivity.
Qed.

(* rounding a rational of [lo, hi] (integer bounds) stays in [lo, hi] *)
Lemma round_he_range lo hi x : inject_Z lo <= x <= inject_Z hi -> (lo <= round_he x <= hi)%Z.
Proof.
  intros [H1 H2]. pose proof (floor_bounds x) as [F1 F2].
  assert (Hf1 : (lo <= Qfloor x)%Z) by (rewrite <- (Qfloor_Z lo); apply Qfloor_resp_le; exact H1).
  assert (Hf2 : (Qfloor x <= hi)%Z) by (rewrite <- (Qfloor_Z hi); apply Qfloor_resp_le; exact H2).
  unfold round_he. destruct (x - inject_Z (Qfloor x) ?= 1 # 2) eqn:E.
  - apply Qeq_alt in E. assert ((Qfloor x < hi)%Z) by (apply Zlt_of_Qlt; lra). destruct (Z.even (Qfloor x)); lia.
  - lia.
  - apply Qgt_alt in E. assert ((Qfloor x < hi)%Z) by (apply Zlt_of_Qlt; lra). lia.
Qed.

Section LogInt.
  Variables (lg pw : Q -> Q) (lo hi : Z).
  Hypothesis pw_mono : forall x y, x <= y -> pw x <= pw y.
  Hypothesis pw_lg_lo : pw (lg (inject_Z lo)) == inject_Z lo.
  Hypothesis pw_lg_hi : pw (lg (inject_Z hi)) == inject_Z hi.
  Hypothesis lg_order : lg (inject_Z lo) <= lg (inject_Z hi).
  Hypothesis lo_le_hi : (lo <= hi)%Z.

  Lemma int_log_in_bounds u : (lo <= q_int_log lg pw lo hi u <= hi)%Z.
  Proof. unfold q_int_log. apply round_he_range. apply clipQ_range. rewrite <- Zle_Qle. exact lo_le_hi. Qed.
  Lemma int_log_end_lo : q_int_log lg pw lo hi 0 = lo.
  Proof.
    unfold q_int_log. rewrite <- (round_he_Z lo) at 3. apply round_he_comp.
    pose proof (real_log_end_lo lg pw (inject_Z lo) (inject_Z hi) pw_mono pw_lg_lo) as E.
    rewrite clipQ_id; [exact E|]. rewrite E. split; [apply Qle_refl | rewrite <- Zle_Qle; exact lo_le_hi].
  Qed.
  Lemma int_log_end_hi : q_int_log lg pw lo hi 1 = hi.
  Proof.
    unfold q_int_log. rewrite <- (round_he_Z hi) at 3. apply round_he_comp.
    pose proof (real_log_end_hi lg pw (inject_Z lo) (inject_Z hi) pw_mono pw_lg_hi) as E.
    rewrite clipQ_id; [exact E|]. rewrite E. split; [rewrite <- Zle_Qle; exact lo_le_hi | apply Qle_refl].
  Qed.
  Lemma int_log_monotone u u' : u <= u' -> (q_int_log lg pw lo hi u <= q_int_log lg pw lo hi u')%Z.
  Proof.
    intros Hu. unfold q_int_log.
    pose proof (real_log_monotone lg pw (inject_Z lo) (inject_Z hi) pw_mono lg_order u u' Hu) as Hm.
    set (a := q_real_log lg pw (inject_Z lo) (inject_Z hi) u) in *. set (b := q_real_log lg pw (inject_Z lo) (inject_Z hi) u') in *.
    assert (Hc : clipQ (inject_Z lo) (inject_Z hi) a <= clipQ (inject_Z lo) (inject_Z hi) b).
    { assert (Hlh : inject_Z lo <= inject_Z hi) by (rewrite <- Zle_Qle; exact lo_le_hi).
      unfold clipQ, Qltb.
      destruct (Qle_bool (inject_Z lo) a) eqn:A1; destruct (Qle_bool (inject_Z lo) b) eqn:B1; cbn [negb];
        try (destruct (Qle_bool a (inject_Z hi)) eqn:A2); try (destruct (Qle_bool b (inject_Z hi)) eqn:B2); cbn [negb];
        repeat match goal with
               | H : Qle_bool _ _ = true |- _ => apply Qle_bool_iff in H
               | H : Qle_bool ?x ?y = false |- _ => assert (y < x) by (apply Qnot_le_lt; intros C; apply Qle_bool_iff in C; congruence); clear H
               end; lra. }
    (* round_he is monotone *)
    set (p := clipQ (inject_Z lo) (inject_Z hi) a) in *. set (q := clipQ (inject_Z lo) (inject_Z hi) b) in *.
    destruct (Z_le_gt_dec (round_he p) (round_he q)) as [H|H]; [exact H|]. exfalso.
    pose proof (round_he_close p) as [P1 P2]. pose proof (round_he_close q) as [Q1 Q2].
    assert (H' : (round_he q + 1 <= round_he p)%Z) by lia. rewrite Zle_Qle in H'. rewrite inject_Z_plus in H'. change (inject_Z 1) with 1 in H'.
    (* then p - q >= 0 forces p = q + ... : p >= r_p - 1/2 >= r_q + 1/2 >= q, so p == q and both are ties: the same tie rounds the same way *)
    assert (Epq : p == q) by lra.
    rewrite (round_he_comp p q Epq) in H. lia.
  Qed.
End LogInt.

(* ------------------------------------------------------------ the "normalize" transform ------------------------------------------------------------ *)
Lemma normalized_in_bounds lo hi u : (lo <= hi)%Z -> (lo <= q_int_normalized lo hi u <= hi)%Z.
Proof. intros H. unfold q_int_normalized. apply clipZ_range. exact H. Qed.

(* the cell of the lower bound is at most HALF a cell wide ... *)
Lemma normalized_cell_lo lo hi u : (lo < hi)%Z -> 0 <= u -> q_int_normalized lo hi u = lo -> u * inject_Z (hi - lo) <= 1 # 2.
Proof.
  intros Hlt Hu Hq. apply Qnot_lt_le. intros Hc. unfold q_int_normalized in Hq.
  set (t := u * inject_Z (hi - lo)) in *. clearbody t.
  set (y := t + inject_Z lo) in *. pose proof (round_he_close y) as [H1 _].
  assert (Hr : (lo < round_he y)%Z) by (apply Zlt_of_Qlt; subst y; lra).
  unfold clipZ in Hq. destruct (round_he y <? lo) eqn:E1; [apply Z.ltb_lt in E1; lia|].
  destruct (hi <? round_he y) eqn:E2; lia.
Qed.
(* ... while the cell of every inner value is a FULL cell *)
Lemma normalized_cell_inner lo hi v u : (lo <= v <= hi)%Z ->
  inject_Z (v - lo) - (1 # 2) < u * inject_Z (hi - lo) < inject_Z (v - lo) + (1 # 2) -> q_int_normalized lo hi u = v.
Proof.
  intros Hv [H1 H2]. unfold q_int_normalized. rewrite (inject_Z_sub v lo) in H1, H2.
  set (t := u * inject_Z (hi - lo)) in *. clearbody t.
  rewrite (round_he_near _ v); [apply clipZ_id; exact Hv|]. split; lra.
Qed.

(* the repaired sampler: draw the integer, transform, inverse-transform - the identity on lo .. hi *)
Lemma normalized_fixed_id lo hi k : (lo < hi)%Z -> (0 <= k <= hi - lo)%Z -> q_int_normalized_fixed lo hi k = (lo + k)%Z.
Proof.
  intros Hlt Hk. unfold q_int_normalized_fixed, q_int_normalized, norm_fwd.
  replace (lo + k - lo)%Z with k by lia.
  assert (E : inject_Z k / inject_Z (hi - lo) * inject_Z (hi - lo) + inject_Z lo == inject_Z (lo + k)).
  { rewrite inject_Z_plus. field. apply inject_Z_nonzero. lia. }
  rewrite (round_he_comp _ _ E), round_he_Z. apply clipZ_id. lia.
Qed.

(* today's normalized sampler is NOT uniform on the integers: the lower bound owns at most half a cell of the quantile
   argument, its neighbour a full one *)
Lemma normalized_ends_half lo hi : (lo + 2 <= hi)%Z ->
  (forall u, 0 <= u -> q_int_normalized lo hi u = lo -> u * inject_Z (hi - lo) <= 1 # 2)
  /\ (forall u, 1 # 2 < u * inject_Z (hi - lo) < 3 # 2 -> q_int_normalized lo hi u = (lo + 1)%Z).
Proof.
  intros H. split.
  - intros u Hu. apply normalized_cell_lo; [lia | exact Hu].
  - intros u [H1 H2]. apply normalized_cell_inner; [lia|]. replace (lo + 1 - lo)%Z with 1%Z by lia. change (inject_Z 1) with 1.
    set (t := u * inject_Z (hi - lo)) in *. clearbody t. split; lra.
Qed.

(* ------------------------------------------------------------ oracle <-> model ------------------------------------------------------------ *)
(* the support the oracle checks draws against is the image of the model's quantile maps *)
Lemma oracle_support_int lo hi g v : in_support (SInt lo hi g) (AInt v) = true <-> In v (int_uniform_vals lo hi).
Proof. cbn [in_support]. rewrite andb_true_iff, !Z.leb_le, support_int. tauto. Qed.

Lemma oracle_support_real lo hi g x : lo < hi ->
  in_support (SReal lo hi g) (AFloat x) = true <-> exists u, 0 <= u <= 1 /\ q_real_uniform lo hi u == x.
Proof.
  intros Hlt. cbn [in_support]. rewrite andb_true_iff, !Qle_bool_iff. split.
  - intros H. exists (cdf_real_uniform lo hi x). apply real_onto; assumption.
  - intros (u & Hu & E). rewrite <- E. apply real_in_bounds; [lra | exact Hu].
Qed.

Lemma oracle_support_cat cats a : in_support (SCats cats) a = true <-> exists k x, q_cat cats k = Some x /\ py_eq a x = true.
Proof.
  cbn [in_support]. rewrite existsb_exists. split.
  - intros (x & Hx & E). apply In_nth_error in Hx as [k Hk]. exists k, x. auto.
  - intros (k & x & Hk & E). exists x. split; [eapply nth_error_In; exact Hk | exact E].
Qed.

Lemma values_int lo hi g : values (SInt lo hi g) = map AInt (int_uniform_vals lo hi).
Proof. cbn [values]. rewrite int_uniform_vals_eq. reflexivity. Qed.

Lemma ok_chi2_spec counts :
  ok_chi2_uniform counts = true <->
  let k := Z.of_nat (length counts) in let n := sumZ counts in let df := (k - 1)%Z in
  let t := (chi2_num counts - n * (df + 2 * chi_x))%Z in
  (0 < n)%Z /\ ((t <= 0)%Z \/ (t * t <= 4 * df * chi_x * n * n)%Z).
Proof. unfold ok_chi2_uniform. cbv zeta. rewrite andb_true_iff, orb_true_iff, Z.ltb_lt, !Z.leb_le. reflexivity. Qed.

Lemma normalized_fixed_uniform lo hi k : (lo < hi)%Z -> (0 <= k <= hi - lo)%Z -> q_int_normalized_fixed lo hi k = q_int_uniform lo hi k.
Proof. intros H1 H2. rewrite (normalized_fixed_id lo hi k H1 H2). unfold q_int_uniform. symmetry. apply clipZ_id. lia. Qed.

(* ------------------------------------------------------------ points of the ConfigSpace path ------------------------------------------------------------ *)
Open Scope Z_scope.
Lemma cs_point_length names specs conf : length (cs_point names specs conf) = length names.
Proof. unfold cs_point. apply map_length. Qed.

(* an ACTIVE value is handed out unchanged, whatever it is *)
Lemma cs_point_active names specs conf i n v :
  nth_error names i = Some n -> lookup_atom n conf = Some v -> nth_error (cs_point names specs conf) i = Some (Some v).
Proof. intros Hn Hv. unfold cs_point. rewrite nth_error_map, Hn. cbn [option_map]. unfold cs_value. rewrite Hv. reflexivity. Qed.

(* an inactive hyperparameter carries the lower bound / the first category, which is a member of the declared support *)
Lemma cs_point_inactive names specs conf i n s :
  nth_error names i = Some n -> lookup_atom n conf = None -> specs n = Some s ->
  nth_error (cs_point names specs conf) i = Some (inactive_value s).
Proof. intros Hn Hv Hs. unfold cs_point. rewrite nth_error_map, Hn. cbn [option_map]. unfold cs_value. rewrite Hv, Hs. reflexivity. Qed.

Lemma py_eq_refl_valid a : a <> ANone \/ a = ANone -> py_eq a a = true.
Proof.
  intros _. destruct a as [z|q|t|b|]; cbn [py_eq is_num is_int is_float qval ival orb andb]; try apply Z.eqb_refl; try reflexivity;
    apply Qeq_bool_iff; reflexivity.
Qed.

Lemma inactive_value_in_support s a : spec_valid s = true -> inactive_value s = Some a -> in_support s a = true.
Proof.
  destruct s as [lo hi g|lo hi g|c]; cbn [spec_valid inactive_value in_support]; intros Hv E.
  - inversion E; subst. apply andb_true_iff in Hv as [Hv _]. apply Z.ltb_lt in Hv. apply andb_true_iff. split; apply Z.leb_le; lia.
  - inversion E; subst. apply andb_true_iff in Hv as [Hv _]. unfold Qltb in Hv. apply negb_true_iff in Hv.
    apply andb_true_iff. split; apply Qle_bool_iff; [apply Qle_refl|].
    destruct (Qlt_le_dec lo hi) as [H|H]; [apply Qlt_le_weak; exact H|]. apply Qle_bool_iff in H. congruence.
  - destruct c as [|x t]; [discriminate|]. inversion E; subst. cbn [existsb]. rewrite py_eq_refl_valid; [reflexivity | destruct a; auto; left; discriminate].
Qed.

(* names zipped with the point give every name ITS value - provided the names are the container order the point was built in *)
Lemma to_dict_aligned names specs conf n : In n names ->
  lookup_opt n (to_dict names (cs_point names specs conf)) = Some (cs_value specs conf n).
Proof.
  unfold to_dict, cs_point. induction names as [|k t IH]; intros Hin; [destruct Hin|]. cbn [map combine lookup_opt].
  destruct (n =? k) eqn:E; [apply Z.eqb_eq in E; subst; reflexivity|].
  destruct Hin as [->|Hin]; [rewrite Z.eqb_refl in E; discriminate | apply IH; exact Hin].
Qed.

(* with a STALE list of names (two different names exchanged) the values are exchanged too: the alignment is not robust *)
Lemma to_dict_stale specs conf a b : a <> b ->
  lookup_opt a (to_dict [b; a] (cs_point [a; b] specs conf)) = Some (cs_value specs conf b).
Proof. intros H. cbn. destruct (a =? b) eqn:E; [apply Z.eqb_eq in E; contradiction|]. rewrite Z.eqb_refl. reflexivity. Qed.

(* many calls on one object: judging the union of the draws is judging every call *)
Lemma support_chunks s (chunks : list (list atom)) :
  (forall a, In a (concat chunks) -> in_support s a = true) <-> (forall c, In c chunks -> forall a, In a c -> in_support s a = true).
Proof.
  split.
  - intros H c Hc a Ha. apply H. apply in_concat. exists c. auto.
  - intros H a Ha. apply in_concat in Ha as (c & Hc & Hac). eapply H; eauto.
Qed.

(* ------------------------------------------------------------ de-duplication of the candidates ------------------------------------------------------------ *)
Lemma zin_In x l : zin x l = true <-> In x l.
Proof.
  induction l as [|y t IH]; cbn [zin In]; [split; [discriminate | tauto]|].
  rewrite orb_true_iff, Z.eqb_eq, IH. split; intros [H|H]; auto.
Qed.

(* a candidate survives iff it is fresh: EVERY fresh candidate stays a candidate (one copy of it), nothing else does *)
Lemma dedup_first_In seen l x : In x (dedup_first seen l) <-> In x l /\ ~ In x seen.
Proof.
  revert seen. induction l as [|y t IH]; intros seen; cbn [dedup_first]; [cbn; tauto|].
  destruct (zin y seen) eqn:E.
  - rewrite IH. apply zin_In in E. cbn [In]. split; [tauto|]. intros [[->|H] Hn]; [contradiction | tauto].
  - assert (Hy : ~ In y seen) by (intros H; apply zin_In in H; congruence). cbn [In]. rewrite IH. cbn [In]. split.
    + intros [->|[H Hn]]; [tauto|]. split; [tauto|]. intros Hs. apply Hn. right. exact Hs.
    + intros [[->|H] Hn]; [left; reflexivity|]. destruct (Z.eq_dec y x) as [->|Hne]; [left; reflexivity|].
      right. split; [exact H|]. intros [->|Hs]; [apply Hne; reflexivity | contradiction].
Qed.

Lemma dedup_first_NoDup seen l : NoDup (dedup_first seen l).
Proof.
  revert seen. induction l as [|y t IH]; intros seen; cbn [dedup_first]; [constructor|].
  destruct (zin y seen); [apply IH|]. constructor; [|apply IH]. rewrite dedup_first_In. cbn [In]. tauto.
Qed.

(* the configuration handed out by a single ask = the first candidate of the batch that has not been handed out yet *)
Lemma dedup_first_head seen l : hd_error (dedup_first seen l) = find (fun y => negb (zin y seen)) l.
Proof.
  induction l as [|y t IH]; cbn [dedup_first find hd_error]; [reflexivity|].
  destruct (zin y seen); cbn [negb hd_error]; [exact IH | reflexivity].
Qed.

Lemma filter_dup_fresh hist batch x : In x batch -> ~ In x hist -> In x (filter_dup hist batch) /\ NoDup (filter_dup hist batch)
  /\ hd_error (filter_dup hist batch) = find (fun y => negb (zin y hist)) batch.
Proof.
  intros Hb Hh. unfold filter_dup. assert (Hin : In x (dedup_first hist batch)) by (apply dedup_first_In; auto).
  pose proof (dedup_first_NoDup hist batch) as Hnd. pose proof (dedup_first_head hist batch) as Hhd.
  destruct (dedup_first hist batch) as [|r0 r]; [destruct Hin|]. auto.
Qed.
