(* C10 - conversion part: check_hyperparameter / convert_to_skopt_dim / convert_to_skopt_space preserve what was declared. *)
From Coq Require Import List ZArith QArith Bool Lia Permutation.
Import ListNotations.
Require Import DH.C10_Sampling.Model DH.C10_Sampling.Check.
Open Scope Z_scope.

(* ------------------------------------------------ which rows of the behaviour table preserve the declaration ------------------------------------------------ *)
(* bounds from lower / upper, log flag from .log, name from .name, all categories in order; the transform is free;
   classes that have no reading as a dimension must be refused *)
Definition row_ok (c : hclass) (r : row) : bool :=
  match c, r with
  | CInt, RInteger FromLower FromUpper FromLog FromName _ => true
  | CFloat, RReal FromLower FromUpper FromLog FromName _ => true
  | CCat, RCategorical CatsAll FromName _ => true
  | COrdNum, RCategorical CatsAll FromName _ => true
  | COrdOther, RCategorical CatsAll FromName _ => true
  | CConst, RCategorical CatsAll FromName _ => true
  | COther, RError => true
  | _, _ => false
  end.
Definition table_ok (T : table) : Prop := forall fam c, row_ok c (T fam c) = true.

Lemma std_table_ok : table_ok std_table.
Proof. intros fam c. destruct fam, c; reflexivity. Qed.

Definition decl_wf (d : decl) : Prop := match d with DObject h => hp_valid h = true | _ => True end.

Lemma guard_some h h' : guard h = Some h' -> h' = h /\ hp_valid h = true.
Proof. unfold guard. destruct (hp_valid h) eqn:E; [intros H; inversion H; auto | discriminate]. Qed.
Lemma guard_valid h : hp_valid h = true -> guard h = Some h.
Proof. unfold guard. intros ->. reflexivity. Qed.
Lemma ok_spec_some s s' : ok_spec s = Some s' -> s' = s /\ spec_valid s = true.
Proof. unfold ok_spec. destruct (spec_valid s) eqn:E; [intros H; inversion H; auto | discriminate]. Qed.

Lemma kind_not_none a : (is_num a || is_str_or_bool a) = negb (atom_eqb a ANone).
Proof. destruct a as [z|q|t|b|]; reflexivity. Qed.

Lemma forallb_ext_in {A} (f g : A -> bool) l : (forall x, In x l -> f x = g x) -> forallb f l = forallb g l.
Proof.
  induction l as [|x t IH]; intros H; cbn [forallb]; [reflexivity|].
  rewrite (H x (or_introl eq_refl)), IH; [reflexivity|]. intros y Hy. apply H. right. exact Hy.
Qed.

Lemma no_strbool_num l : existsb is_str_or_bool l = false -> forallb (fun a => is_num a || is_str_or_bool a) l = forallb is_num l.
Proof.
  intros H. apply forallb_ext_in. intros x Hx.
  destruct (is_str_or_bool x) eqn:E; [|apply orb_false_r].
  exfalso. assert (existsb is_str_or_bool l = true) by (apply existsb_exists; exists x; auto). congruence.
Qed.

(* the range branch: check and the declared reading coincide *)
Lemma range_agree a b log :
  (if is_int a && is_int b then guard (HInt (ival a) (ival b) log)
   else if (is_float a || is_float b) && is_num a && is_num b then guard (HFloat (qval a) (qval b) log) else None)
  = match declared_range a b log with Some s => match s with SInt l u g => Some (HInt l u g) | SReal l u g => Some (HFloat l u g) | SCats _ => None end | None => None end.
Proof.
  unfold declared_range, guard, ok_spec. destruct (is_int a && is_int b).
  - cbn [hp_valid spec_valid]. destruct ((ival a <? ival b) && (negb log || (1 <=? ival a))); reflexivity.
  - destruct ((is_float a || is_float b) && is_num a && is_num b); [|reflexivity].
    cbn [hp_valid spec_valid]. destruct (Qltb (qval a) (qval b) && (negb log || Qltb 0 (qval a))); reflexivity.
Qed.

Lemma declared_range_not_cats a b log c : declared_range a b log <> Some (SCats c).
Proof.
  unfold declared_range, ok_spec. destruct (is_int a && is_int b).
  - destruct (spec_valid _); discriminate.
  - destruct ((is_float a || is_float b) && is_num a && is_num b); [destruct (spec_valid _)|]; discriminate.
Qed.

Lemma tuple_agree items :
  match tuple_parts items with Some (a, b, log) => Some (a, b, log) | None => None end
  = match declared_prior items, items with Some log, a :: b :: _ => Some (a, b, log) | _, _ => None end.
Proof.
  destruct items as [|a [|b [|c [|e t]]]]; try reflexivity.
  - cbn [tuple_parts declared_prior]. destruct c as [z|q|p|bb|]; try reflexivity. destruct (p =? tok_uniform); [reflexivity|]. destruct (p =? tok_log); reflexivity.
  - cbn [tuple_parts declared_prior]. destruct c; reflexivity.
Qed.

(* ------------------------------------------------------------ check_hyperparameter ------------------------------------------------------------ *)
(* what check produces has the declared meaning *)
Lemma check_meaning d : decl_wf d ->
  match check d with
  | Some h => hp_valid h = true /\ spec_of_decl d = spec_of_hp h
  | None => spec_of_decl d = None
  end.
Proof.
  destruct d as [items|items|a|h]; intros Hwf.
  - (* tuple *)
    cbn [check spec_of_decl]. pose proof (tuple_agree items) as Ht.
    destruct (tuple_parts items) as [[[a b] log]|].
    + destruct (declared_prior items) as [log'|]; [|destruct items as [|? [|? ?]]; discriminate].
      destruct items as [|a' [|b' rest]]; try discriminate. inversion Ht; subst a' b' log'.
      rewrite range_agree. destruct (declared_range a b log) as [s|] eqn:Es; [|reflexivity].
      destruct s as [l u g|l u g|c]; [| |exfalso; eapply declared_range_not_cats; eauto].
      * unfold declared_range in Es. destruct (is_int a && is_int b).
        -- apply ok_spec_some in Es as [E1 E2]. inversion E1; subst. split; [exact E2 | reflexivity].
        -- destruct ((is_float a || is_float b) && is_num a && is_num b); [apply ok_spec_some in Es as [E1 _]; discriminate | discriminate].
      * unfold declared_range in Es. destruct (is_int a && is_int b).
        -- apply ok_spec_some in Es as [E1 _]. discriminate.
        -- destruct ((is_float a || is_float b) && is_num a && is_num b); [|discriminate].
           apply ok_spec_some in Es as [E1 E2]. inversion E1; subst. split; [exact E2 | reflexivity].
    + destruct (declared_prior items) as [log'|]; [|reflexivity]. destruct items as [|a' [|b' rest]]; try reflexivity. discriminate.
  - (* list *)
    cbn [check spec_of_decl].
    destruct (existsb is_str_or_bool items) eqn:Ex.
    + rewrite (forallb_ext_in _ _ items (fun a _ => kind_not_none a)).
      destruct (forallb (fun a => negb (atom_eqb a ANone)) items); [|reflexivity].
      unfold guard, ok_spec. change (spec_valid (SCats items)) with (hp_valid (HCat items)).
      destruct (hp_valid (HCat items)) eqn:Ev; [split; [exact Ev | reflexivity] | reflexivity].
    + rewrite (no_strbool_num items Ex). destruct (forallb is_num items); [|reflexivity].
      unfold guard, ok_spec. change (spec_valid (SCats items)) with (hp_valid (HOrd items)).
      destruct (hp_valid (HOrd items)) eqn:Ev; [split; [exact Ev | reflexivity] | reflexivity].
  - (* scalar *)
    cbn [check spec_of_decl]. destruct a as [z|q|t|[|]|]; cbn; first [split; reflexivity | reflexivity].
  - (* ConfigSpace object *)
    cbn [check spec_of_decl decl_wf] in *. rewrite Hwf. split; reflexivity.
Qed.

Lemma spec_some_wf d s : spec_of_decl d = Some s -> decl_wf d.
Proof. destruct d; cbn [decl_wf spec_of_decl]; auto. destruct (hp_valid h); [reflexivity | discriminate]. Qed.

Lemma check_of_spec d s : spec_of_decl d = Some s -> exists h, check d = Some h /\ hp_valid h = true /\ spec_of_hp h = Some s.
Proof.
  intros Hs. pose proof (check_meaning d (spec_some_wf d s Hs)) as H. destruct (check d) as [h|].
  - destruct H as [Hv He]. exists h. repeat split; [exact Hv | congruence].
  - congruence.
Qed.

(* ------------------------------------------------------------ convert_to_skopt_dim ------------------------------------------------------------ *)
Lemma apply_row_preserves r n h s :
  row_ok (class_of h) r = true -> hp_valid h = true -> spec_of_hp h = Some s ->
  exists dm, apply_row r n h = Some dm /\ d_name dm = Some n /\ dim_spec dm = s.
Proof.
  intros Hr Hv Hs. destruct h as [l u g|l u g|c|sq|v|]; cbn [spec_of_hp] in Hs; inversion Hs; subst; clear Hs; cbn [class_of] in Hr.
  - destruct r as [lo hi p nn tr|lo hi p nn tr|cc nn tr|]; try discriminate. destruct lo, hi, p, nn; try discriminate.
    cbn [apply_row sel selp seln]. cbn [hp_valid] in Hv. apply andb_true_iff in Hv as [Hv _]. rewrite Hv. eexists; repeat split.
  - destruct r as [lo hi p nn tr|lo hi p nn tr|cc nn tr|]; try discriminate. destruct lo, hi, p, nn; try discriminate.
    cbn [apply_row sel selp seln]. cbn [hp_valid] in Hv. apply andb_true_iff in Hv as [Hv _]. rewrite Hv. eexists; repeat split.
  - destruct r as [lo hi p nn tr|lo hi p nn tr|cc nn tr|]; try discriminate. destruct cc, nn; try discriminate.
    cbn [apply_row cats_of seln]. eexists; repeat split.
  - destruct (all_num sq); destruct r as [lo hi p nn tr|lo hi p nn tr|cc nn tr|]; try discriminate; destruct cc, nn; try discriminate;
      cbn [apply_row cats_of seln]; eexists; repeat split.
  - destruct r as [lo hi p nn tr|lo hi p nn tr|cc nn tr|]; try discriminate. destruct cc, nn; try discriminate.
    cbn [apply_row cats_of seln]. eexists; repeat split.
Qed.

(* declaration -> dimension: every accepted declaration becomes a dimension with the declared name, bounds, log flag, choices *)
Theorem conversion_preserves T fam n d s :
  table_ok T -> spec_of_decl d = Some s ->
  exists dm, conv_decl T fam n d = Some dm /\ d_name dm = Some n /\ dim_spec dm = s.
Proof.
  intros HT Hs. destruct (check_of_spec d s Hs) as (h & Hc & Hv & Hh).
  unfold conv_decl, convert_dim. rewrite Hc. cbn [fst snd]. apply apply_row_preserves; auto.
Qed.

(* and nothing else does: a declaration without a reading is refused, by check_hyperparameter or by the conversion *)
Theorem conversion_rejects T fam n d :
  table_ok T -> decl_wf d -> spec_of_decl d = None -> conv_decl T fam n d = None.
Proof.
  intros HT Hwf Hs. pose proof (check_meaning d Hwf) as H. unfold conv_decl. destruct (check d) as [h|]; [|reflexivity].
  destruct H as [Hv He]. rewrite Hs in He. destruct h; try discriminate.
  unfold convert_dim. cbn [fst snd class_of]. specialize (HT fam COther). destruct (T fam COther); try discriminate. reflexivity.
Qed.

(* ------------------------------------------------------------ convert_to_skopt_space ------------------------------------------------------------ *)
Lemma map_opt_Forall2 {A B} (f : A -> option B) (P : A -> B -> Prop) l :
  (forall x, In x l -> exists y, f x = Some y /\ P x y) -> exists r, map_opt f l = Some r /\ Forall2 P l r.
Proof.
  induction l as [|x t IH]; intros H; cbn [map_opt]; [exists []; split; [reflexivity | constructor]|].
  destruct (H x (or_introl eq_refl)) as (y & Ey & Py). destruct IH as (r & Er & Pr); [intros z Hz; apply H; right; exact Hz|].
  rewrite Ey, Er. exists (y :: r). split; [reflexivity | constructor; assumption].
Qed.

Lemma map_opt_some_Forall2 {A B} (f : A -> option B) l r : map_opt f l = Some r -> Forall2 (fun x y => f x = Some y) l r.
Proof.
  revert r. induction l as [|x t IH]; intros r; cbn [map_opt]; [intros E; inversion E; constructor|].
  destruct (f x) as [y|] eqn:Ey; [|discriminate]. destruct (map_opt f t) as [r'|]; [|discriminate].
  intros E; inversion E; subst. constructor; [exact Ey | apply IH; reflexivity].
Qed.

Lemma lookup_In {A} n (v : A) l : NoDup (map fst l) -> In (n, v) l -> lookup n l = Some v.
Proof.
  induction l as [|[k w] t IH]; intros Hnd Hin; [destruct Hin|]. cbn [lookup]. cbn [map fst] in Hnd. inversion Hnd as [|? ? Hk Ht]; subst.
  destruct Hin as [E|Hin].
  - inversion E; subst. rewrite Z.eqb_refl. reflexivity.
  - destruct (n =? k) eqn:E; [|apply IH; assumption]. apply Z.eqb_eq in E. subst. exfalso. apply Hk. apply in_map_iff. exists (k, v). auto.
Qed.

(* check_all keeps names and positions *)
Lemma check_all_Forall2 decls hps : check_all decls = Some hps ->
  Forall2 (fun nd nh => fst nh = fst nd /\ check (snd nd) = Some (snd nh)) decls hps.
Proof.
  unfold check_all. intros H. apply map_opt_some_Forall2 in H.
  induction H as [|nd nh l r E]; constructor; [|assumption].
  destruct (check (snd nd)) as [h|]; [|discriminate]. inversion E; subst. cbn [fst snd]. auto.
Qed.

Lemma Forall2_map_fst decls hps :
  Forall2 (fun (nd : Z * decl) (nh : Z * hp) => fst nh = fst nd /\ check (snd nd) = Some (snd nh)) decls hps -> map fst hps = map fst decls.
Proof. intros H. induction H as [|nd nh l r [E _]]; cbn [map]; [reflexivity | rewrite E; f_equal; assumption]. Qed.

Lemma F2_length {A B} (P : A -> B -> Prop) l r : Forall2 P l r -> length l = length r.
Proof. intros H. induction H; cbn [length]; congruence. Qed.

Lemma Forall2_In_r {A B} (P : A -> B -> Prop) l r y : Forall2 P l r -> In y r -> exists x, In x l /\ P x y.
Proof.
  intros H. induction H as [|a b l r Hab]; intros Hin; [destruct Hin|].
  destruct Hin as [->|Hin]; [exists a; split; [left; reflexivity | exact Hab]|].
  destruct (IHForall2 Hin) as (x & Hx & Px). exists x. split; [right; exact Hx | exact Px].
Qed.

(* The whole path for a problem: declarations (in any order of declaration) -> ConfigSpace container (its order [ord] is an
   ORACLE: any permutation) -> one dimension per hyperparameter, in container order, each as declared.  The conclusion is
   the same predicate ConvSpec that the extracted oracle ok_conv decides on the implementation's Space.dimensions. *)
Theorem conversion_space T fam decls hps ord :
  table_ok T -> NoDup (map fst decls) -> (forall nd, In nd decls -> spec_of_decl (snd nd) <> None) ->
  check_all decls = Some hps -> Permutation ord hps ->
  exists dims, convert_space T fam ord = Some dims /\ ConvSpec decls (map fst ord) dims.
Proof.
  intros HT Hnd Hspec Hc Hp.
  pose proof (check_all_Forall2 _ _ Hc) as HF. pose proof (Forall2_map_fst _ _ HF) as Hnames.
  assert (Hper : Permutation (map fst ord) (map fst decls)) by (rewrite <- Hnames; apply Permutation_map; exact Hp).
  destruct (map_opt_Forall2 (convert_dim T fam) (fun nh dm => DimDeclared decls (fst nh) dm) ord) as (dims & Ed & Fd).
  { intros [n h] Hin. assert (Hin' : In (n, h) hps) by (eapply Permutation_in; eauto).
    destruct (Forall2_In_r _ _ _ _ HF Hin') as ([n' d] & Hd & En & Ech). cbn [fst snd] in En, Ech. subst n'.
    destruct (spec_of_decl d) as [s|] eqn:Es; [|exfalso; apply (Hspec (n, d) Hd); exact Es].
    destruct (check_of_spec d s Es) as (h' & Hc' & Hv & Hh). rewrite Ech in Hc'. inversion Hc'; subst h'.
    destruct (apply_row_preserves (T fam (class_of h)) n h s (HT fam _) Hv Hh) as (dm & Ea & En & Edm).
    exists dm. split; [exact Ea|]. cbn [fst]. split; [exact En|]. exists d. split; [apply lookup_In; assumption | congruence]. }
  exists dims. split; [exact Ed|]. repeat split.
  - eapply Permutation_NoDup; [apply Permutation_sym; exact Hper | exact Hnd].
  - rewrite map_length. rewrite (Permutation_length Hp). apply F2_length in HF. congruence.
  - intros n Hn. eapply Permutation_in; eauto.
  - clear -Fd. induction Fd; cbn [map]; constructor; assumption.
Qed.

(* names and order: the dimensions carry exactly the container's names, in its order *)
Corollary conversion_names_order T fam decls hps ord dims :
  table_ok T -> NoDup (map fst decls) -> (forall nd, In nd decls -> spec_of_decl (snd nd) <> None) ->
  check_all decls = Some hps -> Permutation ord hps -> convert_space T fam ord = Some dims ->
  map d_name dims = map (fun nh => Some (fst nh)) ord.
Proof.
  intros HT Hnd Hspec Hc Hp Hcv. destruct (conversion_space T fam decls hps ord HT Hnd Hspec Hc Hp) as (dims' & E & (_ & _ & _ & F)).
  rewrite Hcv in E. inversion E; subst dims'. clear -F. remember (map fst ord) as names eqn:En. revert ord En.
  induction F as [|n dm l r [Hn _] _ IH]; intros ord En; destruct ord as [|nh t]; try discriminate; cbn [map] in *; [reflexivity|].
  inversion En; subst. rewrite Hn. f_equal. apply IH. reflexivity.
Qed.

(* ------------------------------------------------------------ the table check is complete ------------------------------------------------------------ *)
(* a row that is not row_ok loses something of some declaration: the witness replayed on the code is a finding *)
Definition candidates (c : hclass) : list hp :=
  match c with
  | CInt => [HInt 1 2 true; HInt 1 2 false]
  | CFloat => [HFloat 1 2 true; HFloat 1 2 false]
  | CCat => [HCat [AStr 5; AStr 6]]
  | COrdNum => [HOrd [AInt 1; AInt 2]]
  | COrdOther => [HOrd [AStr 5; AStr 6]]
  | CConst => [HConst (AInt 3)]
  | COther => []
  end.
Definition preserved_b (r : row) (h : hp) : bool :=
  match apply_row r 7 h, spec_of_hp h with
  | Some dm, Some s => match d_name dm with Some n => (n =? 7) && dspec_eqb (dim_spec dm) s | None => false end
  | _, _ => false
  end.
Definition row_witness (c : hclass) (r : row) : option hp := find (fun h => negb (preserved_b r h)) (candidates c).

Lemma candidates_good c : forallb (fun h => hp_valid h && match spec_of_hp h with Some _ => true | None => false end) (candidates c) = true.
Proof. destruct c; vm_compute; reflexivity. Qed.
Lemma candidates_class c h : In h (candidates c) -> class_of h = c.
Proof. destruct c; cbn [candidates]; intros H; repeat (destruct H as [<-|H]; [reflexivity|]); destruct H. Qed.

Lemma row_witness_exists c r : c <> COther -> row_ok c r = false -> exists h, row_witness c r = Some h.
Proof.
  intros Hc Hr. unfold row_witness.
  destruct c; try (exfalso; apply Hc; reflexivity);
    destruct r as [lo hi p nn tr|lo hi p nn tr|cc nn tr|];
    try destruct lo; try destruct hi; try destruct p; try destruct nn; try destruct cc; try discriminate Hr;
    vm_compute; eexists; reflexivity.
Qed.

Theorem row_ok_complete c r : c <> COther -> row_ok c r = false ->
  exists h, class_of h = c /\ hp_valid h = true /\
    ~ (exists dm s, apply_row r 7 h = Some dm /\ spec_of_hp h = Some s /\ d_name dm = Some 7 /\ dim_spec dm = s).
Proof.
  intros Hc Hr. destruct (row_witness_exists c r Hc Hr) as (h & Hw). unfold row_witness in Hw.
  apply find_some in Hw as [Hin Hp]. exists h. split; [apply candidates_class; exact Hin|].
  pose proof (candidates_good c) as Hg. rewrite forallb_forall in Hg. specialize (Hg h Hin). apply andb_true_iff in Hg as [Hv _].
  split; [exact Hv|]. intros (dm & s & Ea & Es & En & Ed). apply negb_true_iff in Hp. unfold preserved_b in Hp. rewrite Ea, Es, En in Hp.
  rewrite Z.eqb_refl in Hp. cbn [andb] in Hp. assert (dspec_eqb (dim_spec dm) s = true) by (apply dspec_eqb_eq; exact Ed). congruence.
Qed.
