(* Entry points for the extracted driver: data -> data.   Encodings (harness/vp/props/c10.py mirrors them):
   atom   (0 z) int | (1 num den) float | (2 tok) str | (3 b) bool | (4) None
   hp     (0 lo hi log) | (1 (num den) (num den) log) | (2 atoms) categorical | (3 atoms) ordinal | (4 atom) constant | (5) other
   decl   (0 atoms) tuple | (1 atoms) list | (2 atom) scalar | (3 hp) ConfigSpace object
   dspec  (0 lo hi log) | (1 (num den) (num den) log) | (2 atoms)
   dim    (nameopt 0 lo hi log tr) | (nameopt 1 (num den) (num den) log tr) | (nameopt 2 atoms tr)       tr: 0 identity 1 label 2 onehot 3 normalize 9 other *)
From Coq Require Import List ZArith QArith Bool.
Import ListNotations.
Require Import DH.Common.Data DH.C10_Sampling.Model DH.C10_Sampling.Check.
Open Scope Z_scope.

Definition d_Q (d : data) : Q := Qmake (dZ (dnth 0 d)) (Z.to_pos (dZ (dnth 1 d))).
Definition e_Q (q : Q) : data := L [I (Qnum q); I (Zpos (Qden q))].

Definition d_atom (d : data) : atom :=
  let k := dZ (dnth 0 d) in
  if k =? 0 then AInt (dZ (dnth 1 d)) else if k =? 1 then AFloat (Qmake (dZ (dnth 1 d)) (Z.to_pos (dZ (dnth 2 d))))
  else if k =? 2 then AStr (dZ (dnth 1 d)) else if k =? 3 then ABool (dbool (dnth 1 d)) else ANone.
Definition e_atom (a : atom) : data :=
  match a with
  | AInt z => L [I 0; I z] | AFloat q => L [I 1; I (Qnum q); I (Zpos (Qden q))] | AStr t => L [I 2; I t]
  | ABool b => L [I 3; ebool b] | ANone => L [I 4]
  end.

Definition d_hp (d : data) : hp :=
  let k := dZ (dnth 0 d) in
  if k =? 0 then HInt (dZ (dnth 1 d)) (dZ (dnth 2 d)) (dbool (dnth 3 d))
  else if k =? 1 then HFloat (d_Q (dnth 1 d)) (d_Q (dnth 2 d)) (dbool (dnth 3 d))
  else if k =? 2 then HCat (dmap d_atom (dnth 1 d)) else if k =? 3 then HOrd (dmap d_atom (dnth 1 d))
  else if k =? 4 then HConst (d_atom (dnth 1 d)) else HOther.
Definition e_hp (h : hp) : data :=
  match h with
  | HInt l u g => L [I 0; I l; I u; ebool g] | HFloat l u g => L [I 1; e_Q l; e_Q u; ebool g]
  | HCat c => L [I 2; elist e_atom c] | HOrd s => L [I 3; elist e_atom s] | HConst v => L [I 4; e_atom v] | HOther => L [I 5]
  end.

Definition d_decl (d : data) : decl :=
  let k := dZ (dnth 0 d) in
  if k =? 0 then DTuple (dmap d_atom (dnth 1 d)) else if k =? 1 then DList (dmap d_atom (dnth 1 d))
  else if k =? 2 then DScalar (d_atom (dnth 1 d)) else DObject (d_hp (dnth 1 d)).

Definition d_spec (d : data) : dspec :=
  let k := dZ (dnth 0 d) in
  if k =? 0 then SInt (dZ (dnth 1 d)) (dZ (dnth 2 d)) (dbool (dnth 3 d))
  else if k =? 1 then SReal (d_Q (dnth 1 d)) (d_Q (dnth 2 d)) (dbool (dnth 3 d))
  else SCats (dmap d_atom (dnth 1 d)).
Definition e_spec (s : dspec) : data :=
  match s with
  | SInt l u g => L [I 0; I l; I u; ebool g] | SReal l u g => L [I 1; e_Q l; e_Q u; ebool g] | SCats c => L [I 2; elist e_atom c]
  end.

Definition d_tr (d : data) : transform :=
  let k := dZ d in if k =? 0 then TIdentity else if k =? 1 then TLabel else if k =? 2 then TOneHot else if k =? 3 then TNormalize else TOtherTr.
Definition e_tr (t : transform) : data :=
  I (match t with TIdentity => 0 | TLabel => 1 | TOneHot => 2 | TNormalize => 3 | TOtherTr => 9 end).
Definition d_dim (d : data) : dim :=
  let k := dZ (dnth 1 d) in
  mkDim (dopt dZ (dnth 0 d))
    (if k =? 0 then KInt (dZ (dnth 2 d)) (dZ (dnth 3 d)) (dbool (dnth 4 d)) (d_tr (dnth 5 d))
     else if k =? 1 then KReal (d_Q (dnth 2 d)) (d_Q (dnth 3 d)) (dbool (dnth 4 d)) (d_tr (dnth 5 d))
     else KCat (dmap d_atom (dnth 2 d)) (d_tr (dnth 3 d))).
Definition e_dim (dm : dim) : data :=
  match d_kind dm with
  | KInt l u g t => L [eopt eZ (d_name dm); I 0; I l; I u; ebool g; e_tr t]
  | KReal l u g t => L [eopt eZ (d_name dm); I 1; e_Q l; e_Q u; ebool g; e_tr t]
  | KCat c t => L [eopt eZ (d_name dm); I 2; elist e_atom c; e_tr t]
  end.
Definition d_fam (d : data) : family := if dZ d =? 0 then RuleBased else DistanceBased.

Definition e_ok_conv (d : data) : data :=
  let decls := dmap (dpair dZ d_decl) (dnth 0 d) in let order := dmap dZ (dnth 1 d) in let dims := dmap d_dim (dnth 2 d) in
  if ok_conv decls order dims then L [I 1; I 0; I 0]
  else let c := conv_clause decls order dims in L [I 0; I (fst c); enat (snd c)].

Definition e_chi2 (d : data) : data :=
  let s := d_spec (dnth 0 d) in let draws := dmap d_atom (dnth 1 d) in
  if small s (length draws) then
    let counts := counts_of s draws in
    L [I 1; ebool (ok_chi2_uniform counts); I (chi2_num counts); I (sumZ counts); enat (length counts); elist eZ counts]
  else L [I 0; I 0; I 0; I 0; I 0; L []].

Definition entries : list (Z * (data -> data)) :=
  [ (1001, fun d => eopt e_hp (check (d_decl d)));
    (1002, fun d => eopt e_dim (conv_decl std_table (d_fam (dnth 0 d)) (dZ (dnth 1 d)) (d_decl (dnth 2 d))));
    (1003, e_ok_conv);
    (1004, fun d => match ok_support (d_spec (dnth 0 d)) (dmap d_atom (dnth 1 d)) with None => I 0 | Some c => I c end);
    (1005, fun d => eopt e_spec (spec_of_decl (d_decl d)));
    (1006, e_chi2);
    (1007, fun d => eopt (elist e_dim) (convert_space std_table (d_fam (dnth 0 d)) (dmap (dpair dZ d_hp) (dnth 1 d))));
    (1008, fun d => elist e_atom (values (d_spec d)));
    (1009, fun d => L [I (q_int_normalized (dZ (dnth 0 d)) (dZ (dnth 1 d)) (d_Q (dnth 2 d)))]);
    (1010, fun d => eopt e_atom (q_cat_normalized (dmap d_atom (dnth 0 d)) (d_Q (dnth 1 d))));
    (1011, fun d => eopt e_atom (inactive_value (d_spec d)));
    (1012, fun d => elist eZ (filter_dup (dmap dZ (dnth 0 d)) (dmap dZ (dnth 1 d)))) ].
