(* C10 - reading of the GENERATED behaviour table of convert_to_skopt_dim (Generated/Facts_C10.v, rewritten from the
   source on every run) into the model's [row]s.  Not reachable from Entry.v (strings). *)
From Coq Require Import List ZArith Bool String.
Import ListNotations.
Require Import DH.C10_Sampling.Model DH.C10_Sampling.Check DH.C10_Sampling.Lemmas.
Require DH.Generated.Facts_C10.
Open Scope string_scope.

Definition tr_of (s : string) : transform :=
  if s =? "identity" then TIdentity else if s =? "label" then TLabel else if s =? "onehot" then TOneHot
  else if s =? "normalize" then TNormalize else TOtherTr.
Definition bsrc_of (s : string) : option bsrc :=
  if s =? "lower" then Some FromLower else if s =? "upper" then Some FromUpper else None.
Definition psrc_of (s : string) : option psrc :=
  if s =? "log" then Some FromLog else if s =? "const-uniform" then Some ConstUniform
  else if s =? "const-log" then Some ConstLog else if s =? "neg-log" then Some NegLog else None.
Definition nsrc_of (s : string) : option nsrc :=
  if s =? "name" then Some FromName else if s =? "none" then Some NoName else None.
Definition csrc_of (s : string) : csrc := if s =? "all" then CatsAll else CatsOther.

(* [dimension class; transform; low; high; prior; name; categories]  or  ["TypeError"];  anything else is not understood *)
Definition row_of (l : list string) : option row :=
  match l with
  | [c; tr; lo; hi; p; n; cats] =>
      if (c =? "Integer") || (c =? "Real") then
        match bsrc_of lo, bsrc_of hi, psrc_of p, nsrc_of n with
        | Some a, Some b, Some q, Some m => Some (if c =? "Integer" then RInteger a b q m (tr_of tr) else RReal a b q m (tr_of tr))
        | _, _, _, _ => None
        end
      else if c =? "Categorical" then
        match nsrc_of n with Some m => Some (RCategorical (csrc_of cats) m (tr_of tr)) | None => None end
      else None
  | [e] => if e =? "TypeError" then Some RError else None
  | _ => None
  end.

Definition class_of_name (s : string) : option hclass :=
  if s =? "UniformInteger" then Some CInt else if s =? "UniformFloat" then Some CFloat else if s =? "Categorical" then Some CCat
  else if s =? "OrdinalNumeric" then Some COrdNum else if s =? "OrdinalOther" then Some COrdOther
  else if s =? "Constant" then Some CConst else if s =? "Other" then Some COther else None.

Definition decode_entry (e : string * string * list string) : option (string * hclass * row) :=
  match class_of_name (snd (fst e)), row_of (snd e) with
  | Some c, Some r => Some (fst (fst e), c, r)
  | _, _ => None
  end.
Definition decode (t : list (string * string * list string)) : option (list (string * hclass * row)) := map_opt decode_entry t.

Scheme Equality for transform.
Scheme Equality for bsrc.
Scheme Equality for psrc.
Scheme Equality for nsrc.
Scheme Equality for csrc.
Scheme Equality for hclass.
Definition row_eqb (a b : row) : bool :=
  match a, b with
  | RInteger l h p n t, RInteger l' h' p' n' t' => bsrc_beq l l' && bsrc_beq h h' && psrc_beq p p' && nsrc_beq n n' && transform_beq t t'
  | RReal l h p n t, RReal l' h' p' n' t' => bsrc_beq l l' && bsrc_beq h h' && psrc_beq p p' && nsrc_beq n n' && transform_beq t t'
  | RCategorical c n t, RCategorical c' n' t' => csrc_beq c c' && nsrc_beq n n' && transform_beq t t'
  | RError, RError => true
  | _, _ => false
  end.

Definition all_classes : list hclass := [CInt; CFloat; CCat; COrdNum; COrdOther; CConst; COther].
Fixpoint dedup (l : list string) : list string :=
  match l with [] => [] | x :: t => if existsb (String.eqb x) t then dedup t else x :: dedup t end.
Definition surrogates (rows : list (string * hclass * row)) : list string := dedup (map (fun e => fst (fst e)) rows).

Definition find_row (rows : list (string * hclass * row)) (s : string) (c : hclass) : option row :=
  match find (fun e => (fst (fst e) =? s) && hclass_beq (snd (fst e)) c) rows with Some e => Some (snd e) | None => None end.

(* the table the code implements for surrogate name [s] (the family argument is already decided by the name) *)
Definition table_of (rows : list (string * hclass * row)) (s : string) : table :=
  fun _ c => match find_row rows s c with Some r => r | None => RCategorical CatsOther NoName TOtherTr end.

(* every (surrogate, class) pair has exactly one row and that row preserves the declaration *)
Definition rows_ok (rows : list (string * hclass * row)) : bool :=
  Nat.eqb (List.length rows) (List.length (surrogates rows) * List.length all_classes)
  && forallb (fun s => forallb (fun c => match find_row rows s c with Some r => row_ok c r | None => false end) all_classes) (surrogates rows).

(* ... and is the row of the hand-written model for one of the two families, the same family for all classes of a name *)
Definition rows_are_model (rows : list (string * hclass * row)) : bool :=
  forallb (fun s => existsb (fun fam => forallb (fun c => match find_row rows s c with Some r => row_eqb r (std_table fam c) | None => false end) all_classes)
                            [RuleBased; DistanceBased]) (surrogates rows).

Definition generated_rows : list (string * hclass * row) :=
  match decode DH.Generated.Facts_C10.convert_table with Some r => r | None => [] end.

Lemma rows_ok_table_ok rows s : rows_ok rows = true -> In s (surrogates rows) -> table_ok (table_of rows s).
Proof.
  unfold rows_ok. intros H Hs. apply andb_true_iff in H as [_ H]. rewrite forallb_forall in H. specialize (H s Hs).
  rewrite forallb_forall in H. intros fam c. unfold table_of. assert (Hc : In c all_classes) by (destruct c; cbn; tauto).
  specialize (H c Hc). destruct (find_row rows s c); [exact H | discriminate].
Qed.

(* ------------------------------------------------ the obligations on the regenerated table (vm_compute) ------------------------------------------------ *)
Lemma generated_ok :
  DH.Generated.Facts_C10.srcfacts_ok = true
  /\ decode DH.Generated.Facts_C10.convert_table = Some generated_rows
  /\ rows_ok generated_rows = true
  /\ List.length (surrogates generated_rows) = DH.Generated.Facts_C10.surrogate_count.
Proof. vm_compute. repeat split; reflexivity. Qed.

Lemma generated_is_model : rows_are_model generated_rows = true.
Proof. vm_compute. reflexivity. Qed.

(* the conversion AS THE SOURCE DOES IT TODAY (row by row of the regenerated table), for every surrogate name CBO accepts *)
Lemma generated_preserves sname fam n d s :
  In sname (surrogates generated_rows) -> spec_of_decl d = Some s ->
  exists dm, conv_decl (table_of generated_rows sname) fam n d = Some dm /\ d_name dm = Some n /\ dim_spec dm = s.
Proof.
  intros Hs Hd. apply conversion_preserves; [|exact Hd]. apply rows_ok_table_ok; [|exact Hs]. apply generated_ok.
Qed.
