(* placeholder *)
From Coq Require Import List ZArith.
Require Import DH.C10_Sampling.Model.
Theorem C10_placeholder : True.
Proof. exact I. Qed.
Print Assumptions C10_placeholder.
