(* C10 - Sampling honours the declared support and prior of every hyperparameter.  Property theorems only.
   Level: PROOF for the conversion and support clauses; the DISTRIBUTION clause of the property is a statistical test
   (harness/vp/props/c10.py, level `other`) - the pmf theorems below state what the model's masses are, under the
   assumption that the library generators deliver a uniform quantile argument. *)
From Coq Require Import List ZArith QArith Bool Permutation.
Import ListNotations.
Require Import DH.C10_Sampling.Model DH.C10_Sampling.Check DH.C10_Sampling.Lemmas DH.C10_Sampling.Lemmas2 DH.C10_Sampling.Facts.
Require DH.Generated.Facts_C10.
Open Scope Z_scope.

(* ------------------------------------------------------------------ conversion ------------------------------------------------------------------ *)
(* FACT (regenerated on every run by CALLING convert_to_skopt_dim on representatives of every hyperparameter class x every
   surrogate name): the table is understood, complete (one row per surrogate name and class) and every row takes the bounds
   from lower / upper, the log flag from .log, the name from .name and all categories in order; non-convertible classes raise. *)
Theorem C10_convert_table_preserves :
  DH.Generated.Facts_C10.srcfacts_ok = true
  /\ decode DH.Generated.Facts_C10.convert_table = Some generated_rows
  /\ rows_ok generated_rows = true
  /\ List.length (surrogates generated_rows) = DH.Generated.Facts_C10.surrogate_count.
Proof. exact generated_ok. Qed.
Print Assumptions C10_convert_table_preserves.

(* FACT: every row is the row of the executable model (Model.std_table) for the label or the one-hot family, one family per surrogate name *)
Theorem C10_convert_table_is_model : rows_are_model generated_rows = true.
Proof. exact generated_is_model. Qed.
Print Assumptions C10_convert_table_is_model.

(* check_hyperparameter: what it returns is a valid hyperparameter with exactly the declared meaning (the reading spec_of_decl of the
   shorthand is written independently of check); it raises exactly on declarations without a reading *)
Theorem C10_check_meaning : forall d, decl_wf d ->
  match check d with
  | Some h => hp_valid h = true /\ spec_of_decl d = spec_of_hp h
  | None => spec_of_decl d = None
  end.
Proof. exact check_meaning. Qed.
Print Assumptions C10_check_meaning.

(* every declaration with a reading (tuple int / float +- log-uniform, list categorical / ordinal, constant, ConfigSpace
   object) becomes ONE dimension carrying the declared name, bounds, log flag and choices - for every table whose rows pass
   row_ok, every surrogate family, every name *)
Theorem C10_conversion_preserves : forall T fam n d s,
  table_ok T -> spec_of_decl d = Some s ->
  exists dm, conv_decl T fam n d = Some dm /\ d_name dm = Some n /\ dim_spec dm = s.
Proof. exact conversion_preserves. Qed.
Print Assumptions C10_conversion_preserves.

(* ... in particular for the table regenerated from today's source, for every surrogate name CBO accepts *)
Theorem C10_conversion_preserves_generated : forall sname fam n d s,
  In sname (surrogates generated_rows) -> spec_of_decl d = Some s ->
  exists dm, conv_decl (table_of generated_rows sname) fam n d = Some dm /\ d_name dm = Some n /\ dim_spec dm = s.
Proof. exact generated_preserves. Qed.
Print Assumptions C10_conversion_preserves_generated.

(* declarations without a reading never become a dimension *)
Theorem C10_conversion_rejects : forall T fam n d,
  table_ok T -> decl_wf d -> spec_of_decl d = None -> conv_decl T fam n d = None.
Proof. exact conversion_rejects. Qed.
Print Assumptions C10_conversion_rejects.

(* whole problems: names (none lost, none invented), ORDER (= the order [ord] of the ConfigSpace container, an oracle: any
   permutation of the declarations), bounds, log flags, choices.  ConvSpec is the predicate the extracted oracle decides on
   the implementation's Space.dimensions (C10_oracle_conversion). *)
Theorem C10_conversion_space : forall T fam decls hps ord,
  table_ok T -> NoDup (map fst decls) -> (forall nd, In nd decls -> spec_of_decl (snd nd) <> None) ->
  check_all decls = Some hps -> Permutation ord hps ->
  exists dims, convert_space T fam ord = Some dims /\ ConvSpec decls (map fst ord) dims.
Proof. exact conversion_space. Qed.
Print Assumptions C10_conversion_space.

Theorem C10_conversion_names_order : forall T fam decls hps ord dims,
  table_ok T -> NoDup (map fst decls) -> (forall nd, In nd decls -> spec_of_decl (snd nd) <> None) ->
  check_all decls = Some hps -> Permutation ord hps -> convert_space T fam ord = Some dims ->
  map d_name dims = map (fun nh => Some (fst nh)) ord.
Proof. exact conversion_names_order. Qed.
Print Assumptions C10_conversion_names_order.

(* the row check is complete: a row that fails it loses something of a concrete valid hyperparameter (dropped log flag,
   swapped bound, lost name, other categories) - the witness replayed on the code is a finding *)
Theorem C10_table_check_complete : forall c r, c <> COther -> row_ok c r = false ->
  exists h, class_of h = c /\ hp_valid h = true /\
    ~ (exists dm s, apply_row r 7 h = Some dm /\ spec_of_hp h = Some s /\ d_name dm = Some 7 /\ dim_spec dm = s).
Proof. exact row_ok_complete. Qed.
Print Assumptions C10_table_check_complete.

(* ------------------------------------------------------------------ support ------------------------------------------------------------------ *)
(* Integer(low, high), uniform: randint(low, high + 1) produces EXACTLY low .. high (both inclusions: nothing outside, both bounds inside) *)
Theorem C10_support_int : forall lo hi v, In v (int_uniform_vals lo hi) <-> lo <= v <= hi.
Proof. exact support_int. Qed.
Print Assumptions C10_support_int.

Theorem C10_support_int_quantile : forall lo hi v, lo <= hi -> (exists k, 0 <= k <= hi - lo /\ q_int_uniform lo hi k = v) <-> lo <= v <= hi.
Proof. exact support_int_quantile. Qed.
Print Assumptions C10_support_int_quantile.

(* under the uniform measure on k every value of the range has mass 1/(hi - lo + 1), values outside mass 0 *)
Theorem C10_pmf_uniform : forall lo hi v, lo <= hi ->
  (pmf_int_uniform lo hi v == if (lo <=? v) && (v <=? hi) then 1 / inject_Z (hi - lo + 1) else 0)%Q.
Proof. exact pmf_uniform. Qed.
Print Assumptions C10_pmf_uniform.

Theorem C10_support_cat : forall cats a, (exists k, (k < length cats)%nat /\ q_cat cats k = Some a) <-> In a cats.
Proof. exact support_cat. Qed.
Print Assumptions C10_support_cat.

Theorem C10_pmf_cat : forall cats a, NoDup cats -> In a cats -> (pmf_cat cats a == 1 / inject_Z (Z.of_nat (length cats)))%Q.
Proof. exact pmf_cat_uniform. Qed.
Print Assumptions C10_pmf_cat.

(* Real, uniform: [0,1] is mapped ONTO [lo, hi], monotonically, both ends attained *)
Theorem C10_support_real : forall lo hi : Q, (lo < hi)%Q ->
  (forall u, (0 <= u <= 1)%Q -> (lo <= q_real_uniform lo hi u <= hi)%Q)
  /\ (forall u u', (u <= u')%Q -> (q_real_uniform lo hi u <= q_real_uniform lo hi u')%Q)
  /\ (q_real_uniform lo hi 0 == lo)%Q /\ (q_real_uniform lo hi 1 == hi)%Q
  /\ (forall x, (lo <= x <= hi)%Q -> exists u, (0 <= u <= 1)%Q /\ (q_real_uniform lo hi u == x)%Q).
Proof. exact support_real. Qed.
Print Assumptions C10_support_real.

(* log-uniform prior, for EVERY pair of library functions lg / pw that is monotone and inverse at the two bounds *)
Theorem C10_support_real_log : forall (lg pw : Q -> Q) (lo hi : Q),
  (forall x y, (x <= y)%Q -> (pw x <= pw y)%Q) -> (pw (lg lo) == lo)%Q -> (pw (lg hi) == hi)%Q -> (lg lo <= lg hi)%Q ->
  (forall u, (0 <= u <= 1)%Q -> (lo <= q_real_log lg pw lo hi u <= hi)%Q)
  /\ (forall u u', (u <= u')%Q -> (q_real_log lg pw lo hi u <= q_real_log lg pw lo hi u')%Q)
  /\ (q_real_log lg pw lo hi 0 == lo)%Q /\ (q_real_log lg pw lo hi 1 == hi)%Q.
Proof.
  exact (fun lg pw lo hi Hm Hl Hh Ho => conj (real_log_in_bounds lg pw lo hi Hm Hl Hh Ho)
         (conj (real_log_monotone lg pw lo hi Hm Ho) (conj (real_log_end_lo lg pw lo hi Hm Hl) (real_log_end_hi lg pw lo hi Hm Hh)))).
Qed.
Print Assumptions C10_support_real_log.

(* Integer with a log-uniform prior: 10 ** U, clip, round - inside low .. high, monotone, both bounds attained *)
Theorem C10_support_int_log : forall (lg pw : Q -> Q) (lo hi : Z),
  (forall x y, (x <= y)%Q -> (pw x <= pw y)%Q) -> (pw (lg (inject_Z lo)) == inject_Z lo)%Q -> (pw (lg (inject_Z hi)) == inject_Z hi)%Q ->
  (lg (inject_Z lo) <= lg (inject_Z hi))%Q -> lo <= hi ->
  (forall u, lo <= q_int_log lg pw lo hi u <= hi)
  /\ (forall u u', (u <= u')%Q -> q_int_log lg pw lo hi u <= q_int_log lg pw lo hi u')
  /\ q_int_log lg pw lo hi 0 = lo /\ q_int_log lg pw lo hi 1 = hi.
Proof.
  exact (fun lg pw lo hi Hm Hl Hh Ho Hle => conj (int_log_in_bounds lg pw lo hi Hle)
         (conj (int_log_monotone lg pw lo hi Hm Ho Hle) (conj (int_log_end_lo lg pw lo hi Hm Hl Hle) (int_log_end_hi lg pw lo hi Hm Hh Hle)))).
Qed.
Print Assumptions C10_support_int_log.

(* "normalize" transform (GP / Mondrian-forest surrogates).  REPAIRED sampler (fixes/F25): the integer itself is drawn and sent
   through transform / inverse_transform - the identity on low .. high, hence uniform by C10_pmf_uniform *)
Theorem C10_normalized_repaired_uniform : forall lo hi k, lo < hi -> 0 <= k <= hi - lo -> q_int_normalized_fixed lo hi k = q_int_uniform lo hi k.
Proof. exact normalized_fixed_uniform. Qed.
Print Assumptions C10_normalized_repaired_uniform.

(* the sampler of the pinned code: support still low .. high ... *)
Theorem C10_normalized_in_bounds : forall lo hi u, lo <= hi -> lo <= q_int_normalized lo hi u <= hi.
Proof. exact normalized_in_bounds. Qed.
Print Assumptions C10_normalized_in_bounds.

(* ... but NOT the declared uniform prior: the lower bound is reached only from an interval of the quantile argument of length
   <= 1/(2w), its neighbour from the whole interval (1/(2w), 3/(2w)) of length 1/w  (w = hi - lo >= 2) *)
Theorem C10_prefix_normalized_uniform_refuted : forall lo hi, lo + 2 <= hi ->
  (forall u, (0 <= u)%Q -> q_int_normalized lo hi u = lo -> (u * inject_Z (hi - lo) <= 1 # 2)%Q)
  /\ (forall u, (1 # 2 < u * inject_Z (hi - lo) < 3 # 2)%Q -> q_int_normalized lo hi u = lo + 1).
Proof. exact normalized_ends_half. Qed.
Print Assumptions C10_prefix_normalized_uniform_refuted.

(* ------------------------------------------------ ConfigSpace path, dict hand-over, many calls ------------------------------------------------ *)
(* Space.rvs on the ConfigSpace path / RandomSearch._ask: an ACTIVE sampled value is handed out unchanged - for EVERY value, the
   falsy ones (0, 0.0, False, "") included; one entry per name, in container order *)
Theorem C10_cs_point_active_value_unchanged : forall names specs conf i n v,
  nth_error names i = Some n -> lookup_atom n conf = Some v ->
  nth_error (cs_point names specs conf) i = Some (Some v) /\ length (cs_point names specs conf) = length names.
Proof. exact (fun names specs conf i n v Hn Hv => conj (cs_point_active names specs conf i n v Hn Hv) (cs_point_length names specs conf)). Qed.
Print Assumptions C10_cs_point_active_value_unchanged.

(* an inactive hyperparameter carries the lower bound / first category - a member of the declared support *)
Theorem C10_cs_point_inactive_value : forall names specs conf i n s a,
  nth_error names i = Some n -> lookup_atom n conf = None -> specs n = Some s -> spec_valid s = true -> inactive_value s = Some a ->
  nth_error (cs_point names specs conf) i = Some (Some a) /\ in_support s a = true.
Proof.
  exact (fun names specs conf i n s a Hn Hv Hs Hval Ha =>
           conj (eq_trans (cs_point_inactive names specs conf i n s Hn Hv Hs) (f_equal Some Ha)) (inactive_value_in_support s a Hval Ha)).
Qed.
Print Assumptions C10_cs_point_inactive_value.

(* the dictionary handed out (names zipped with the point) gives every name its own value when the names are the order the point
   was built in; with a stale order (two names exchanged) the values are exchanged *)
Theorem C10_to_dict_aligned : forall names specs conf n, In n names ->
  lookup_opt n (to_dict names (cs_point names specs conf)) = Some (cs_value specs conf n).
Proof. exact to_dict_aligned. Qed.
Print Assumptions C10_to_dict_aligned.

Theorem C10_to_dict_stale_names_refuted : forall specs conf a b, a <> b ->
  lookup_opt a (to_dict [b; a] (cs_point [a; b] specs conf)) = Some (cs_value specs conf b).
Proof. exact to_dict_stale. Qed.
Print Assumptions C10_to_dict_stale_names_refuted.

(* many calls on one Space / Optimizer / search object: the support clause of the union of the draws is the clause of every call *)
Theorem C10_support_many_calls : forall s (chunks : list (list atom)),
  (forall a, In a (concat chunks) -> in_support s a = true) <-> (forall c, In c chunks -> forall a, In a c -> in_support s a = true).
Proof. exact support_chunks. Qed.
Print Assumptions C10_support_many_calls.

(* Optimizer._filter_duplicated, through which every random ask goes: whatever the history, EVERY candidate that has not been handed
   out yet stays a candidate (exactly one copy), and a single ask hands out the first such candidate of the batch - so asks 2, 3, ...
   draw from the same law as the first one, restricted to the points not handed out yet *)
Theorem C10_filter_keeps_every_fresh_candidate : forall hist batch x, In x batch -> ~ In x hist ->
  In x (filter_dup hist batch) /\ NoDup (filter_dup hist batch)
  /\ hd_error (filter_dup hist batch) = find (fun y => negb (zin y hist)) batch.
Proof. exact filter_dup_fresh. Qed.
Print Assumptions C10_filter_keeps_every_fresh_candidate.

Theorem C10_filter_candidates_are_fresh : forall hist batch x, In x (dedup_first hist batch) <-> In x batch /\ ~ In x hist.
Proof. exact (fun hist batch x => dedup_first_In hist batch x). Qed.
Print Assumptions C10_filter_candidates_are_fresh.

(* ------------------------------------------------------------------ oracles ------------------------------------------------------------------ *)
Theorem C10_oracle_conversion : forall decls order dims, ok_conv decls order dims = true <-> ConvSpec decls order dims.
Proof. exact ok_conv_spec. Qed.
Print Assumptions C10_oracle_conversion.

Theorem C10_oracle_support_sound : forall s draws, ok_support s draws = None -> SupportSpec s draws.
Proof. exact ok_support_sound. Qed.
Print Assumptions C10_oracle_support_sound.

(* the support the oracle judges draws against is the image of the model's quantile maps *)
Theorem C10_oracle_support_is_model_support :
  (forall lo hi g v, in_support (SInt lo hi g) (AInt v) = true <-> In v (int_uniform_vals lo hi))
  /\ (forall lo hi g x, (lo < hi)%Q -> in_support (SReal lo hi g) (AFloat x) = true <-> exists u, (0 <= u <= 1)%Q /\ (q_real_uniform lo hi u == x)%Q)
  /\ (forall cats a, in_support (SCats cats) a = true <-> exists k x, q_cat cats k = Some x /\ py_eq a x = true).
Proof. exact (conj oracle_support_int (conj oracle_support_real oracle_support_cat)). Qed.
Print Assumptions C10_oracle_support_is_model_support.

(* the chi-square TEST decided by the extracted checker is exactly: statistic <= df + 2 sqrt(21 df) + 42 *)
Theorem C10_oracle_chi2 : forall counts,
  ok_chi2_uniform counts = true <->
  let k := Z.of_nat (length counts) in let n := sumZ counts in let df := k - 1 in
  let t := chi2_num counts - n * (df + 2 * chi_x) in
  0 < n /\ (t <= 0 \/ t * t <= 4 * df * chi_x * n * n).
Proof. exact ok_chi2_spec. Qed.
Print Assumptions C10_oracle_chi2.

(* ------------------------------------------------------------------ non-vacuity ------------------------------------------------------------------ *)
(* a problem with every kind of declaration, declared in one order, stored by ConfigSpace in another (sorted by name) *)
Example C10_example_conversion :
  let decls := [ (3, DTuple [AInt 1; AInt 100; AStr 1]); (0, DTuple [AFloat (1#2); AInt 4]); (2, DList [AStr 7; AStr 8; ABool true]);
                 (1, DList [AInt 1; AFloat (5#2); AInt 4]); (4, DScalar (AStr 9)); (5, DObject (HInt (-3) 3 false)) ] in
  match check_all decls with
  | Some hps =>
      let ord := [nth 1 hps (0, HOther); nth 3 hps (0, HOther); nth 2 hps (0, HOther); nth 0 hps (0, HOther); nth 4 hps (0, HOther); nth 5 hps (0, HOther)] in
      match convert_space std_table RuleBased ord with
      | Some dims => ok_conv decls (map fst ord) dims = true
                     /\ map dim_spec dims = [SReal (1#2) 4 false; SCats [AInt 1; AFloat (5#2); AInt 4]; SCats [AStr 7; AStr 8; ABool true]; SInt 1 100 true; SCats [AStr 9]; SInt (-3) 3 false]
      | None => False
      end
  | None => False
  end.
Proof. vm_compute. split; reflexivity. Qed.

(* the oracle refuses a dropped log flag, a swapped bound, a lost category, a wrong order *)
Example C10_example_oracle_rejects :
  let decls := [ (0, DTuple [AInt 1; AInt 100; AStr 1]); (1, DList [AStr 7; AStr 8]) ] in
  ok_conv decls [0; 1] [mkDim (Some 0) (KInt 1 100 true TIdentity); mkDim (Some 1) (KCat [AStr 7; AStr 8] TLabel)] = true
  /\ ok_conv decls [0; 1] [mkDim (Some 0) (KInt 1 100 false TIdentity); mkDim (Some 1) (KCat [AStr 7; AStr 8] TLabel)] = false
  /\ ok_conv decls [0; 1] [mkDim (Some 0) (KInt 100 1 true TIdentity); mkDim (Some 1) (KCat [AStr 7; AStr 8] TLabel)] = false
  /\ ok_conv decls [0; 1] [mkDim (Some 0) (KInt 1 100 true TIdentity); mkDim (Some 1) (KCat [AStr 7] TLabel)] = false
  /\ ok_conv decls [0; 1] [mkDim (Some 1) (KCat [AStr 7; AStr 8] TLabel); mkDim (Some 0) (KInt 1 100 true TIdentity)] = false.
Proof. vm_compute. repeat split; reflexivity. Qed.

(* support oracle: accepts a sample that covers 0..3, refuses one that never reaches the upper bound (randint(low, high)) *)
Example C10_example_support :
  let cyc := fun l => concat (repeat l 70) in
  ok_support (SInt 0 3 false) (map AInt (cyc [0; 1; 2; 3])) = None
  /\ ok_support (SInt 0 3 false) (map AInt (cyc [0; 1; 2; 2])) = Some 2
  /\ ok_support (SInt 0 3 false) (map AInt (cyc [0; 1; 2; 4])) = Some 1
  /\ ok_chi2_uniform [70; 70; 70; 70] = true /\ ok_chi2_uniform [35; 105; 105; 35] = false.
Proof. vm_compute. repeat split; reflexivity. Qed.

(* the pinned normalized sampler on twelve equally spaced quantile arguments of (0, 3): masses 2 4 4 2, not 3 3 3 3 *)
Example C10_example_normalized_half_cells :
  map (q_int_normalized 0 3) [1#24; 3#24; 5#24; 7#24; 9#24; 11#24; 13#24; 15#24; 17#24; 19#24; 21#24; 23#24]%Q = [0; 0; 1; 1; 1; 1; 2; 2; 2; 2; 3; 3]
  /\ map (q_int_normalized_fixed 0 3) [0; 1; 2; 3] = [0; 1; 2; 3].
Proof. vm_compute. split; reflexivity. Qed.

(* the hypotheses of the log theorems are satisfiable (base 2 on the grid of powers: lg = log2 on {1, 2, 4}, pw piecewise) *)
Example C10_example_log_oracles :
  let lg := fun x : Q => if Qle_bool x 1 then 0%Q else if Qle_bool x 2 then 1%Q else 2%Q in
  let pw := fun x : Q => if Qle_bool x 0 then 1%Q else if Qle_bool x 1 then 2%Q else 4%Q in
  q_int_log lg pw 1 4 0 = 1 /\ q_int_log lg pw 1 4 (1#2) = 2 /\ q_int_log lg pw 1 4 1 = 4.
Proof. vm_compute. repeat split; reflexivity. Qed.

(* falsy values survive the ConfigSpace path: names [3; 1; 2], hyperparameter 2 inactive *)
Example C10_example_cs_point :
  cs_point [3; 1; 2] (fun n => if n =? 2 then Some (SInt (-3) 3 false) else Some (SCats [ABool true; ABool false]))
           [(1, ABool false); (3, AInt 0)] = [Some (AInt 0); Some (ABool false); Some (AInt (-3))].
Proof. vm_compute. reflexivity. Qed.

(* repeated candidates keep one copy, also with a history (5 occurs three times, 7 was handed out before) *)
Example C10_example_filter : filter_dup [7] [5; 7; 5; 9; 5; 9; 2] = [5; 9; 2] /\ filter_dup [5; 9] [5; 9; 5] = [5; 9; 5].
Proof. vm_compute. split; reflexivity. Qed.
