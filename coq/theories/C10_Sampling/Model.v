(* C10 - Sampling honours the declared support and prior of every hyperparameter.      Executable model, NO proofs.
   Describes /repo at 5f31b5a:
     src/deephyper/hpo/_problem.py      check_hyperparameter, convert_to_skopt_dim, convert_to_skopt_space
     src/deephyper/skopt/space/space.py Integer/Real/Categorical.set_transformer (the _rvs objects) + Dimension.rvs,
                                        Normalize.inverse_transform (transformers.py)
   Names and string values are Z tokens assigned by the harness (token 0 = "uniform", token 1 = "log-uniform").
   Floats are exact rationals (float.as_integer_ratio), never computed with in the conversion part - only copied. *)
From Coq Require Import List ZArith QArith Qround Bool.
Import ListNotations.
Open Scope Z_scope.

(* ------------------------------------------------------------------ values ------------------------------------------------------------------ *)
Inductive atom := AInt (z : Z) | AFloat (q : Q) | AStr (t : Z) | ABool (b : bool) | ANone.

Definition Qltb (a b : Q) : bool := negb (Qle_bool b a).
Definition Qsame (a b : Q) : bool := (Qnum a =? Qnum b) && Pos.eqb (Qden a) (Qden b).     (* same representation *)
Definition atom_eqb (a b : atom) : bool :=                                              (* same type AND same value *)
  match a, b with
  | AInt x, AInt y => x =? y
  | AFloat x, AFloat y => Qsame x y
  | AStr x, AStr y => x =? y
  | ABool x, ABool y => Bool.eqb x y
  | ANone, ANone => true
  | _, _ => false
  end.
(* Python:  isinstance(p, int) (bool is an int), isinstance(p, float), isinstance(p, (str, bool)) *)
Definition is_int (a : atom) : bool := match a with AInt _ | ABool _ => true | _ => false end.
Definition is_float (a : atom) : bool := match a with AFloat _ => true | _ => false end.
Definition is_str_or_bool (a : atom) : bool := match a with AStr _ | ABool _ => true | _ => false end.
Definition is_num (a : atom) : bool := is_int a || is_float a.
Definition ival (a : atom) : Z := match a with AInt z => z | ABool true => 1 | _ => 0 end.
Definition qval (a : atom) : Q := match a with AFloat q => q | _ => inject_Z (ival a) end.
(* Python ==  (1 == 1.0 == True): ConfigSpace rejects choices / sequences with two == elements *)
Definition py_eq (a b : atom) : bool :=
  match a, b with
  | AStr x, AStr y => x =? y
  | ANone, ANone => true
  | _, _ => is_num a && is_num b && Qeq_bool (qval a) (qval b)
  end.
Fixpoint py_unique (l : list atom) : bool :=
  match l with [] => true | x :: t => negb (existsb (py_eq x) t) && py_unique t end.

(* --------------------------------------------------- ConfigSpace hyperparameters (what deephyper reads of them) --------------------------------------------------- *)
Inductive hp :=
| HInt (lo hi : Z) (log : bool)          (* UniformIntegerHyperparameter  .lower .upper .log *)
| HFloat (lo hi : Q) (log : bool)        (* UniformFloatHyperparameter *)
| HCat (choices : list atom)             (* CategoricalHyperparameter     .choices *)
| HOrd (seq : list atom)                 (* OrdinalHyperparameter         .sequence *)
| HConst (v : atom)                      (* Constant                      .value *)
| HOther.                                (* Normal* / Beta* hyperparameters: accepted by add_hyperparameter, not convertible *)

(* ConfigSpace's own validation (an oracle, re-checked by the correspondence stream): *)
Definition hp_valid (h : hp) : bool :=
  match h with
  | HInt lo hi log => (lo <? hi) && (negb log || (1 <=? lo))
  | HFloat lo hi log => Qltb lo hi && (negb log || Qltb 0 lo)
  | HCat c => negb (match c with [] => true | _ => false end) && py_unique c
  | HOrd s => negb (match s with [] => true | _ => false end) && py_unique s
  | HConst v => is_num v || match v with AStr _ => true | _ => false end
  | HOther => true
  end.

(* ------------------------------------------------------- declarations: HpProblem.add_hyperparameter(value, name) ------------------------------------------------------- *)
Inductive decl :=
| DTuple (items : list atom)   (* (lo, hi) or (lo, hi, prior) - the prior is the string token 0 / 1 *)
| DList (items : list atom)
| DScalar (a : atom)
| DObject (h : hp).            (* a ConfigSpace hyperparameter passed as is *)

Definition tok_uniform : Z := 0.
Definition tok_log : Z := 1.

(* the tuple branch of check_hyperparameter: Some (body, log) or None = AssertionError / UnboundLocalError *)
Definition tuple_parts (items : list atom) : option (atom * atom * bool) :=
  match items with
  | [a; b] => Some (a, b, false)
  | [a; b; AStr p] => if p =? tok_uniform then Some (a, b, false) else if p =? tok_log then Some (a, b, true) else None
  | _ => None
  end.

Definition guard (h : hp) : option hp := if hp_valid h then Some h else None.

(* check_hyperparameter: None = an exception is raised *)
Definition check (d : decl) : option hp :=
  match d with
  | DObject h => Some h
  | DScalar a => match a with ANone => None | _ => guard (HConst a) end            (* int, float, str -> Constant *)
  | DTuple items =>
      match tuple_parts items with
      | None => None
      | Some (a, b, log) =>
          if is_int a && is_int b then guard (HInt (ival a) (ival b) log)
          else if (is_float a || is_float b) && is_num a && is_num b then guard (HFloat (qval a) (qval b) log)
          else None
      end
  | DList items =>
      if existsb is_str_or_bool items then (if forallb (fun a => negb (atom_eqb a ANone)) items then guard (HCat items) else None)
      else if forallb is_num items then guard (HOrd items)
      else None
  end.

(* --------------------------------------------------------------- skopt dimensions --------------------------------------------------------------- *)
Inductive transform := TIdentity | TLabel | TOneHot | TNormalize | TOtherTr.
Inductive dkind :=
| KInt (lo hi : Z) (log : bool) (tr : transform)
| KReal (lo hi : Q) (log : bool) (tr : transform)
| KCat (cats : list atom) (tr : transform).
Record dim := mkDim { d_name : option Z; d_kind : dkind }.

(* ------------------------------------------------- convert_to_skopt_dim as a BEHAVIOUR TABLE ------------------------------------------------- *)
(* The table is regenerated from the source on every run (Generated/Facts_C10.v); [apply_row] gives every row a meaning,
   so a changed row (dropped log flag, swapped bound ...) is a different, still executable, model. *)
Inductive family := RuleBased | DistanceBased.        (* surrogate_model_type in convert_to_skopt_dim *)
Inductive hclass := CInt | CFloat | CCat | COrdNum | COrdOther | CConst | COther.
Inductive bsrc := FromLower | FromUpper.              (* which field of the hyperparameter a bound is copied from *)
Inductive psrc := FromLog | ConstUniform | ConstLog | NegLog.
Inductive nsrc := FromName | NoName.
Inductive csrc := CatsAll | CatsOther.                (* categories = choices / sequence / [value], complete and in order | anything else *)
Inductive row :=
| RInteger (lo hi : bsrc) (p : psrc) (n : nsrc) (tr : transform)
| RReal (lo hi : bsrc) (p : psrc) (n : nsrc) (tr : transform)
| RCategorical (c : csrc) (n : nsrc) (tr : transform)
| RError.                                             (* TypeError: cannot convert *)
Definition table := family -> hclass -> row.

Definition all_num (l : list atom) : bool := forallb is_num l.
Definition class_of (h : hp) : hclass :=
  match h with
  | HInt _ _ _ => CInt | HFloat _ _ _ => CFloat | HCat _ => CCat
  | HOrd s => if all_num s then COrdNum else COrdOther
  | HConst _ => CConst | HOther => COther
  end.

Definition sel {A} (s : bsrc) (lower upper : A) : A := match s with FromLower => lower | FromUpper => upper end.
Definition selp (p : psrc) (log : bool) : bool :=
  match p with FromLog => log | ConstUniform => false | ConstLog => true | NegLog => negb log end.
Definition seln (n : nsrc) (name : Z) : option Z := match n with FromName => Some name | NoName => None end.
Definition cats_of (h : hp) : option (list atom) :=
  match h with HCat c => Some c | HOrd s => Some s | HConst v => Some [v] | _ => None end.

(* skopt's Integer / Real constructors raise when high <= low *)
Definition apply_row (r : row) (name : Z) (h : hp) : option dim :=
  match r, h with
  | RInteger lo hi p n tr, HInt l u g =>
      if sel lo l u <? sel hi l u then Some (mkDim (seln n name) (KInt (sel lo l u) (sel hi l u) (selp p g) tr)) else None
  | RReal lo hi p n tr, HFloat l u g =>
      if Qltb (sel lo l u) (sel hi l u) then Some (mkDim (seln n name) (KReal (sel lo l u) (sel hi l u) (selp p g) tr)) else None
  | RCategorical CatsAll n tr, _ =>
      match cats_of h with Some c => Some (mkDim (seln n name) (KCat c tr)) | None => None end
  | _, _ => None
  end.

(* the behaviour of the code as read at 5f31b5a *)
Definition std_table : table := fun fam c =>
  match c with
  | CInt => RInteger FromLower FromUpper FromLog FromName TIdentity
  | CFloat => RReal FromLower FromUpper FromLog FromName TIdentity
  | CCat => RCategorical CatsAll FromName (match fam with RuleBased => TLabel | DistanceBased => TOneHot end)
  | COrdNum => RCategorical CatsAll FromName TIdentity
  | COrdOther => RCategorical CatsAll FromName TLabel
  | CConst => RCategorical CatsAll FromName TLabel
  | COther => RError
  end.

Definition convert_dim (T : table) (fam : family) (nh : Z * hp) : option dim :=
  apply_row (T fam (class_of (snd nh))) (fst nh) (snd nh).

Fixpoint map_opt {A B} (f : A -> option B) (l : list A) : option (list B) :=
  match l with
  | [] => Some []
  | x :: t => match f x, map_opt f t with Some y, Some r => Some (y :: r) | _, _ => None end
  end.

(* convert_to_skopt_space: one dimension per hyperparameter, in the order of the ConfigSpace container (an ORACLE: the
   list [hps] is given in container order - ConfigSpace >= 1.0 keeps it sorted by name) *)
Definition convert_space (T : table) (fam : family) (hps : list (Z * hp)) : option (list dim) :=
  map_opt (convert_dim T fam) hps.

(* add_hyperparameter for a list of (name, declaration) *)
Definition check_all (decls : list (Z * decl)) : option (list (Z * hp)) :=
  map_opt (fun nd => match check (snd nd) with Some h => Some (fst nd, h) | None => None end) decls.

(* ---------------- what the user DECLARED (reading of the shorthand per the documentation) - independent of [check] ---------------- *)
Inductive dspec :=
| SInt (lo hi : Z) (log : bool)
| SReal (lo hi : Q) (log : bool)
| SCats (cats : list atom).

Definition spec_of_hp (h : hp) : option dspec :=
  match h with
  | HInt l u g => Some (SInt l u g) | HFloat l u g => Some (SReal l u g)
  | HCat c => Some (SCats c) | HOrd s => Some (SCats s) | HConst v => Some (SCats [v]) | HOther => None
  end.
Definition spec_valid (s : dspec) : bool :=
  match s with
  | SInt lo hi log => (lo <? hi) && (negb log || (1 <=? lo))
  | SReal lo hi log => Qltb lo hi && (negb log || Qltb 0 lo)
  | SCats c => negb (match c with [] => true | _ => false end) && py_unique c
  end.
Definition ok_spec (s : dspec) : option dspec := if spec_valid s then Some s else None.

(* a tuple declares a range: (lo, hi) uniform, (lo, hi, "uniform"), (lo, hi, "log-uniform") *)
Definition declared_prior (items : list atom) : option bool :=
  match items with
  | [_; _] => Some false
  | [_; _; AStr p] => if p =? tok_uniform then Some false else if p =? tok_log then Some true else None
  | _ => None
  end.
Definition declared_range (a b : atom) (log : bool) : option dspec :=
  if is_int a && is_int b then ok_spec (SInt (ival a) (ival b) log)
  else if (is_float a || is_float b) && is_num a && is_num b then ok_spec (SReal (qval a) (qval b) log)
  else None.

Definition spec_of_decl (d : decl) : option dspec :=
  match d with
  | DObject h => if hp_valid h then spec_of_hp h else None
  | DScalar a => match a with ANone => None | _ => Some (SCats [a]) end
  | DTuple items =>
      match declared_prior items, items with
      | Some log, a :: b :: _ => declared_range a b log
      | _, _ => None
      end
  | DList items =>
      if forallb (fun a => is_num a || is_str_or_bool a) items then ok_spec (SCats items) else None
  end.

Definition dim_spec (d : dim) : dspec :=
  match d_kind d with KInt l u g _ => SInt l u g | KReal l u g _ => SReal l u g | KCat c _ => SCats c end.

(* the whole path add_hyperparameter -> convert_to_skopt_dim for one declaration *)
Definition conv_decl (T : table) (fam : family) (name : Z) (d : decl) : option dim :=
  match check d with Some h => convert_dim T fam (name, h) | None => None end.

(* ------------------------------------------------------------------ sampling ------------------------------------------------------------------ *)
(* scipy.stats.randint(a, b) takes the values a .. b-1, each with mass 1/(b-a) *)
Definition randint_vals (a b : Z) : list Z := map (fun k => a + Z.of_nat k) (seq 0 (Z.to_nat (b - a))).
(* Integer, identity transform, uniform prior:  _rvs = randint(low, high + 1);  Identity; clip; round  *)
Definition clipZ (lo hi x : Z) : Z := if x <? lo then lo else if hi <? x then hi else x.
Definition int_uniform_vals (lo hi : Z) : list Z := map (clipZ lo hi) (randint_vals lo (hi + 1)).
Definition q_int_uniform (lo hi k : Z) : Z := clipZ lo hi (lo + k).                  (* quantile map: k-th value, 0 <= k <= hi - lo *)

(* Categorical (label / onehot / identity / string transforms): rv_discrete over range(len(categories)), prior 1/len *)
Definition q_cat (cats : list atom) (k : nat) : option atom := nth_error cats k.

(* Real, uniform prior: loc + u * scale, u in [0, 1] (the code widens the scale by one ulp to make the upper end reachable) *)
Definition q_real_uniform (lo hi u : Q) : Q := lo + u * (hi - lo).
Definition clipQ (lo hi x : Q) : Q := if Qltb x lo then lo else if Qltb hi x then hi else x.

(* numpy.round: half to even *)
Definition round_he (x : Q) : Z :=
  let f := Qfloor x in
  match Qcompare (x - inject_Z f) (1 # 2) with
  | Lt => f
  | Gt => f + 1
  | Eq => if Z.even f then f else f + 1
  end.

(* log-uniform prior: uniform in log space, then base ** x  (lg = log10(.)/log10(base), pw = base ** . are library ORACLES) *)
Section LogPrior.
  Variables (lg pw : Q -> Q).
  Definition q_real_log (lo hi u : Q) : Q := pw (q_real_uniform (lg lo) (lg hi) u).
  (* Integer.inverse_transform: clip to [low, high], then round *)
  Definition q_int_log (lo hi : Z) (u : Q) : Z := round_he (clipQ (inject_Z lo) (inject_Z hi) (q_real_log (inject_Z lo) (inject_Z hi) u)).
End LogPrior.

(* "normalize" transform (Optimizer with a GP / Mondrian forest surrogate) AS THE CODE IS AT 5f31b5a (before fixes/F25): u uniform on [0, 1],
   Normalize(low, high, is_int=True).inverse_transform = round(u * (high - low) + low); clip; round.
   The two bounds get half a rounding cell each. *)
Definition q_int_normalized (lo hi : Z) (u : Q) : Z := clipZ lo hi (round_he (u * inject_Z (hi - lo) + inject_Z lo)).
(* [cats] in the order of the label encoder (np.unique order for categories of one type - an oracle) *)
Definition q_cat_normalized (cats : list atom) (u : Q) : option atom :=
  nth_error cats (Z.to_nat (round_he (u * inject_Z (Z.of_nat (length cats) - 1)))).

(* the REPAIRED normalized path (fixes/F25): draw the integer / the category index uniformly, send it through
   transform and inverse_transform *)
Definition norm_fwd (lo hi k : Z) : Q := (inject_Z (k - lo)) / inject_Z (hi - lo).       (* Normalize.transform, is_int *)
Definition q_int_normalized_fixed (lo hi k : Z) : Z := q_int_normalized lo hi (norm_fwd lo hi (lo + k)).

(* probability mass functions of the model: uniform measure on the quantile argument *)
Definition count_val (v : Z) (l : list Z) : nat := length (filter (Z.eqb v) l).
Definition pmf_int_uniform (lo hi v : Z) : Q := inject_Z (Z.of_nat (count_val v (int_uniform_vals lo hi))) / inject_Z (Z.of_nat (length (int_uniform_vals lo hi))).
Definition pmf_cat (cats : list atom) (a : atom) : Q :=
  inject_Z (Z.of_nat (length (filter (atom_eqb a) cats))) / inject_Z (Z.of_nat (length cats)).
Definition cdf_real_uniform (lo hi x : Q) : Q := (x - lo) / (hi - lo).

(* ---------------------------------------------- ConfigSpace path of Space.rvs, RandomSearch._ask, CBO._to_dict ---------------------------------------------- *)
(* A sampled configuration [conf] holds values for the ACTIVE hyperparameters only.  The point handed out has one entry per name of
   the container, in its order: the sampled value when there is one - WHATEVER it is (0, 0.0, False, "" included) - else the
   inactive value: lower bound / first category. *)
Definition inactive_value (s : dspec) : option atom :=
  match s with SInt lo _ _ => Some (AInt lo) | SReal lo _ _ => Some (AFloat lo) | SCats (c :: _) => Some c | SCats [] => None end.
Fixpoint lookup_atom (n : Z) (conf : list (Z * atom)) : option atom :=
  match conf with [] => None | (k, v) :: t => if n =? k then Some v else lookup_atom n t end.
Definition cs_value (specs : Z -> option dspec) (conf : list (Z * atom)) (n : Z) : option atom :=
  match lookup_atom n conf with
  | Some v => Some v
  | None => match specs n with Some s => inactive_value s | None => None end
  end.
Definition cs_point (names : list Z) (specs : Z -> option dspec) (conf : list (Z * atom)) : list (option atom) :=
  map (cs_value specs conf) names.
(* CBO._to_dict / the harness: names zipped with the point *)
Definition to_dict (names : list Z) (point : list (option atom)) : list (Z * option atom) := combine names point.
Fixpoint lookup_opt (n : Z) (d : list (Z * option atom)) : option (option atom) :=
  match d with [] => None | (k, v) :: t => if n =? k then Some v else lookup_opt n t end.

(* ---------------------------------------------- Optimizer._filter_duplicated (initial random phase of ask) ---------------------------------------------- *)
(* Every random ask draws a batch of candidates, removes the repeated ones (keeping the FIRST copy) and the ones already handed
   out, and hands out the first survivors; when nothing survives the unfiltered batch is used.  Points are Z tokens. *)
Fixpoint zin (x : Z) (l : list Z) : bool := match l with [] => false | y :: t => (x =? y) || zin x t end.
Fixpoint dedup_first (seen : list Z) (l : list Z) : list Z :=
  match l with
  | [] => []
  | x :: t => if zin x seen then dedup_first seen t else x :: dedup_first (x :: seen) t
  end.
Definition filter_dup (hist batch : list Z) : list Z :=
  match dedup_first hist batch with [] => batch | r => r end.
