(* Universal data exchanged with the OCaml driver: integers and nested lists.
   Every extracted entry point is a function [data -> data]; the decoders below are total
   (ill-formed input decodes to a default), and every entry point re-encodes a result. *)
From Coq Require Import List ZArith Bool.
Import ListNotations.
Open Scope Z_scope.

Inductive data := I (z : Z) | L (l : list data).

Definition dZ (d : data) : Z := match d with I z => z | L _ => 0 end.
Definition dnat (d : data) : nat := Z.to_nat (dZ d).
Definition dbool (d : data) : bool := negb (dZ d =? 0).
Definition dlist (d : data) : list data := match d with L l => l | I _ => [] end.
Definition dmap {A} (f : data -> A) (d : data) : list A := map f (dlist d).
Definition dnth (n : nat) (d : data) : data := nth n (dlist d) (I 0).
Definition dpair {A B} (f : data -> A) (g : data -> B) (d : data) : A * B := (f (dnth 0 d), g (dnth 1 d)).
Definition dopt {A} (f : data -> A) (d : data) : option A :=
  match dlist d with [] => None | x :: _ => Some (f x) end.

Definition eZ (z : Z) : data := I z.
Definition enat (n : nat) : data := I (Z.of_nat n).
Definition ebool (b : bool) : data := I (if b then 1 else 0).
Definition elist {A} (f : A -> data) (l : list A) : data := L (map f l).
Definition epair {A B} (f : A -> data) (g : B -> data) (p : A * B) : data := L [f (fst p); g (snd p)].
Definition eopt {A} (f : A -> data) (o : option A) : data :=
  match o with None => L [] | Some x => L [f x] end.
