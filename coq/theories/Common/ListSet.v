(* Small list lemmas missing from the 8.16 standard library *)
From Coq Require Import List Arith Lia Permutation.
Import ListNotations.

Lemma NoDup_app_l {A} (l l' : list A) : NoDup (l ++ l') -> NoDup l.
Proof.
  induction l as [|x l IH]; cbn; intros H; [constructor|].
  inversion H as [|? ? Hx Hl]; subst. constructor; [|apply IH; exact Hl].
  intros Hin. apply Hx. apply in_or_app; left; exact Hin.
Qed.

Lemma NoDup_app_r {A} (l l' : list A) : NoDup (l ++ l') -> NoDup l'.
Proof. induction l as [|x l IH]; cbn; intros H; [exact H|]. inversion H; subst. auto. Qed.

Lemma NoDup_app_disj {A} (l l' : list A) x : NoDup (l ++ l') -> In x l -> In x l' -> False.
Proof.
  induction l as [|y l IH]; cbn; intros H Hx Hx'; [destruct Hx|].
  inversion H as [|? ? Hy Hl]; subst. destruct Hx as [->|Hx]; [apply Hy, in_or_app; right; exact Hx'|].
  exact (IH Hl Hx Hx').
Qed.

Lemma NoDup_app_intro {A} (l l' : list A) : NoDup l -> NoDup l' -> (forall x, In x l -> In x l' -> False) -> NoDup (l ++ l').
Proof.
  induction l as [|y l IH]; cbn; intros H H' Hd; [exact H'|].
  inversion H as [|? ? Hy Hl]; subst. constructor.
  - intros Hin. apply in_app_or in Hin as [Hin|Hin]; [contradiction| eapply Hd; [left; reflexivity| exact Hin]].
  - apply IH; [exact Hl| exact H'|]. intros x Hx Hx'. eapply Hd; [right; exact Hx| exact Hx'].
Qed.

Lemma app_inj_pivot_len {A} : forall (l1 l1' : list A) y y' l2 l2',
  l1 ++ y :: l2 = l1' ++ y' :: l2' -> length l1 = length l1' -> l1 = l1' /\ y = y' /\ l2 = l2'.
Proof.
  induction l1 as [|a l1 IH]; intros [|a' l1'] y y' l2 l2' E L; cbn in *; try discriminate.
  - injection E as -> ->. auto.
  - injection E as -> E. injection L as L. destruct (IH _ _ _ _ _ E L) as (-> & -> & ->). auto.
Qed.
