(* Vectors of integers under the componentwise order (minimisation). *)
From Coq Require Import List ZArith Bool Lia Arith.
Import ListNotations.
Open Scope Z_scope.

Definition vec := list Z.

(* exists a coordinate where a < b  (numpy: np.any(a < b)) *)
Fixpoint some_lt (a b : vec) : bool :=
  match a, b with
  | x :: a', y :: b' => (x <? y) || some_lt a' b'
  | _, _ => false
  end.

(* weak dominance: same length and a <= b in every coordinate *)
Fixpoint wdom (a b : vec) : bool :=
  match a, b with
  | x :: a', y :: b' => (x <=? y) && wdom a' b'
  | [], [] => true
  | _, _ => false
  end.

Fixpoint veqb (a b : vec) : bool :=
  match a, b with
  | x :: a', y :: b' => (x =? y) && veqb a' b'
  | [], [] => true
  | _, _ => false
  end.

Definition sdom (a b : vec) : Prop := wdom a b = true /\ a <> b.
Definition sdomb (a b : vec) : bool := wdom a b && negb (veqb a b).
Definition SameLen (m : nat) (l : list vec) := Forall (fun v => length v = m) l.

Lemma veqb_eq a b : veqb a b = true <-> a = b.
Proof.
  revert b; induction a as [|x a IH]; intros [|y b]; cbn [veqb]; split; intros H; try discriminate; try reflexivity.
  - apply andb_true_iff in H as [H1 H2]. apply Z.eqb_eq in H1. apply IH in H2. congruence.
  - injection H as -> ->. rewrite Z.eqb_refl. apply IH. reflexivity.
Qed.

Lemma veqb_refl a : veqb a a = true. Proof. apply veqb_eq; reflexivity. Qed.

Lemma sdomb_spec a b : sdomb a b = true <-> sdom a b.
Proof.
  unfold sdomb, sdom. rewrite andb_true_iff, negb_true_iff. split; intros [H1 H2]; split; try assumption.
  - intros ->. rewrite veqb_refl in H2. discriminate.
  - destruct (veqb a b) eqn:E; [apply veqb_eq in E; contradiction|reflexivity].
Qed.

Definition vec_eq_dec (a b : vec) : {a = b} + {a <> b} := list_eq_dec Z.eq_dec a b.

Lemma wdom_refl a : wdom a a = true.
Proof. induction a as [|x a IH]; cbn [wdom]; [reflexivity|]. rewrite IH, Z.leb_refl. reflexivity. Qed.

Lemma wdom_length a b : wdom a b = true -> length a = length b.
Proof.
  revert b; induction a as [|x a IH]; intros [|y b] H; cbn [wdom] in H; try discriminate; [reflexivity|].
  apply andb_true_iff in H as [_ H]. cbn [length]. f_equal. auto.
Qed.

Lemma wdom_trans a b c : wdom a b = true -> wdom b c = true -> wdom a c = true.
Proof.
  revert b c; induction a as [|x a IH]; intros [|y b] [|z c] H1 H2; cbn [wdom] in *; try discriminate; [reflexivity|].
  apply andb_true_iff in H1 as [H1 H1']. apply andb_true_iff in H2 as [H2 H2'].
  apply andb_true_iff; split; [apply Z.leb_le in H1, H2; apply Z.leb_le; lia| eauto].
Qed.

Lemma wdom_antisym a b : wdom a b = true -> wdom b a = true -> a = b.
Proof.
  revert b; induction a as [|x a IH]; intros [|y b] H1 H2; cbn [wdom] in *; try discriminate; [reflexivity|].
  apply andb_true_iff in H1 as [H1 H1']. apply andb_true_iff in H2 as [H2 H2'].
  apply Z.leb_le in H1, H2. f_equal; [lia|auto].
Qed.

(* duality for equal lengths: "no coordinate of c strictly below r" = "r weakly dominates c" *)
Lemma some_lt_wdom a b : length a = length b -> some_lt a b = negb (wdom b a).
Proof.
  revert b; induction a as [|x a IH]; intros [|y b] H; cbn [length] in H; try discriminate; [reflexivity|].
  cbn [some_lt wdom]. injection H as H. rewrite (IH _ H).
  destruct (x <? y) eqn:E1, (y <=? x) eqn:E2; cbn; try reflexivity;
  apply Z.ltb_lt in E1 || apply Z.ltb_ge in E1; apply Z.leb_le in E2 || apply Z.leb_gt in E2; lia.
Qed.

Lemma samelen_in m l v : SameLen m l -> In v l -> length v = m.
Proof. intros H Hin. eapply Forall_forall in H; eauto. Qed.

Lemma samelen_incl m l l' : SameLen m l -> incl l' l -> SameLen m l'.
Proof. intros H Hi. apply Forall_forall. intros v Hv. eapply samelen_in; eauto. Qed.
