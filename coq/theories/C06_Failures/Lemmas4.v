(* C06 - proofs, part 4: several search() calls on one object; restart from a checkpoint (CBO.fit_surrogate). *)
From Coq Require Import List ZArith QArith Bool Arith Lia.
Import ListNotations.
Require Import DH.C06_Failures.Model DH.C06_Failures.Lemmas DH.C06_Failures.Lemmas2 DH.C06_Failures.Lemmas3.

(* the optimizer's state after several search() calls is the run over the concatenated history: nothing is reset between
   calls, so every theorem about [run] holds at every point of every call *)
Lemma calls_compose fixed p n0 h1 h2 : run fixed p n0 (h1 ++ h2) = run_from fixed p (run fixed p n0 h1) h2.
Proof. unfold run, run_from. apply fold_left_app. Qed.

Lemma calls_compose_many fixed p n0 calls : run fixed p n0 (concat calls) = fold_left (run_from fixed p) calls (mkO [] n0).
Proof.
  unfold run. generalize (mkO [] n0) as st. induction calls as [|c cs IH]; intros st; cbn; [reflexivity|].
  rewrite fold_left_app. apply IH.
Qed.

Lemma run_from_inv p st hist : Inv p st -> Inv p (run_from true p st hist).
Proof. apply fold_inv. Qed.

(* ---------- restart ---------- *)
Lemma succ_of_clean ys : Forall (fun t => clean t = true) ys -> Forall (fun t => clean t = true) (succ_of ys).
Proof. intros H. apply Forall_forall. intros t Ht. apply (succ_clean ys t H Ht). Qed.

Lemma succ_of_no_fail ys : Forall (fun t => is_fail t = false) (succ_of ys).
Proof.
  apply Forall_forall. intros t Ht. unfold succ_of in Ht. apply filter_In in Ht. destruct Ht as [_ H].
  destruct (is_fail t); [discriminate | reflexivity].
Qed.

Lemma fails_clean ys : Forall (fun t => clean t = true) (filter is_fail ys).
Proof. apply Forall_forall. intros t Ht. apply filter_In in Ht. destruct Ht as [_ H]. destruct t; try discriminate. reflexivity. Qed.

Lemma checkpoint_clean raw : Forall (fun t => clean t = true) (filter_map (cbo_tell_one false) (map (on_done true) raw)).
Proof.
  apply Forall_forall. intros t Ht. apply in_filter_map in Ht. destruct Ht as (o & Ho & Hf).
  apply in_map_iff in Ho. destruct Ho as (o0 & <- & _). eapply told_clean. exact Hf.
Qed.

Lemma restart_told_inv p raw :
  Forall (fun t => clean t = true) (restart_told true p (map (on_done true) raw)) /\
  (ignores p = true -> Forall (fun t => is_fail t = false) (restart_told true p (map (on_done true) raw))).
Proof.
  unfold restart_told. cbn [andb]. pose proof (checkpoint_clean raw) as Hc. split.
  - apply Forall_app. split; [apply succ_of_clean; exact Hc|]. destruct (ignores p); [constructor | apply fails_clean].
  - intros ->. rewrite app_nil_r. apply succ_of_no_fail.
Qed.

Lemma restart_inv p n0 raw : Inv p (restart true p n0 (map (on_done true) raw)).
Proof.
  unfold restart. destruct (restart_told_inv p raw) as [Hc Hi].
  destruct (restart_told true p (map (on_done true) raw)) as [|y ys]; [split; [constructor | intros _; constructor]|].
  unfold opt_tell. cbn [yi app]. split; assumption.
Qed.

Section Restart.
  Variable sc : list fnum -> list fnum.
  Variable scal : list (list fnum) -> list fnum.
  Hypothesis Hsc : scaler_ok sc.
  Hypothesis Hscal : scalarizer_ok scal.

  (* a search continued from a checkpoint that holds failed rows (any number, any position, possibly nothing else) *)
  Theorem restart_fit_inputs_finite ff p maxf n0 raw hist :
    let st := run_from true p (restart true p n0 (map (on_done true) raw)) hist in
    has_success (yi st) = true \/ (length (yi st) < maxf)%nat ->
    exists ys, fit_input sc scal ff (opt_policy p) maxf (yi st) = Some ys /\ fit_ok ys = true /\ length ys = length (yi st).
  Proof. intros st. apply (fit_inputs_finite_inv sc scal Hsc Hscal). apply run_from_inv, restart_inv. Qed.
End Restart.

(* pinned fit_surrogate under "ignore": the marker of a failed row of the checkpoint reaches the estimator (F72) *)
Lemma restart_ignore_refuted :
  let st := restart false PIgnore 10 [OScal (ENum (Fin 1)); OScal (EStr 0 true)] in
  fit_due st = true /\
  exists ys, fit_input sc_id (scal_lin []) false (opt_policy PIgnore) 100 (yi st) = Some ys /\ fit_ok ys = false /\ In TFail ys.
Proof. cbn zeta. split; [reflexivity|]. eexists. vm_compute. repeat split; auto. Qed.

(* labels of the checkpoint's failed rows are irrelevant too *)
Lemma told_relabelled_raw ign o o' : relabelled o o' -> cbo_tell_one ign o = cbo_tell_one ign o'.
Proof.
  destruct o as [[x|t [|]]|l]; cbn [relabelled]; try (intros <-; reflexivity).
  destruct o' as [[x'|t' [|]]|l']; try (intros H; rewrite <- H; reflexivity). intros _. reflexivity.
Qed.

Lemma restart_label_irrelevant fixed p n0 objs objs' : Forall2 relabelled objs objs' -> restart fixed p n0 objs = restart fixed p n0 objs'.
Proof.
  intros H. unfold restart, restart_told.
  assert (E : filter_map (cbo_tell_one false) objs = filter_map (cbo_tell_one false) objs').
  { induction H as [|o o' l l' Ho Hl IH]; cbn; [reflexivity|]. rewrite (told_relabelled_raw false o o' Ho), IH. reflexivity. }
  rewrite E. reflexivity.
Qed.
