(* C06 - Failed evaluations are contained.  Executable model of the failure-sanitising pipeline

     run-function output --Evaluator._on_done--> job.objective --CBO._tell--> Optimizer.tell --> Optimizer._tell:
        _moo_scalarize / objective_scaler (failures excluded) --> _filter_failures (imputation) --> estimator.fit(X, y)

   (src/deephyper/evaluator/_evaluator.py _on_done; src/deephyper/hpo/_cbo.py CBO._tell, MAP_filter_failures;
    src/deephyper/skopt/optimizer/optimizer.py Optimizer._tell, _filter_failures, _moo_scalarize, the constant-liar lie of
    Optimizer.ask; src/deephyper/hpo/_regevo.py RegularizedEvolution._tell; the objective cells of
    Evaluator._dump_jobs_done_to_csv_as_hpo_format).

   Numbers are extended numbers [fnum]; strings are integer tokens carrying the one attribute the code looks at
   ("starts with F"), supplied by the harness.  Token 0 is the failure marker OBJECTIVE_VALUE_FAILURE ("F").

   [fixed] = false: the pinned code.  [fixed] = true: the code after the two repairs proposed with this property:
     F08  _on_done rewrites a tuple/list objective with a non-finite element to the failure marker (pinned: scalars only);
     F25  _filter_failures imputes per objective (np.mean/np.max with axis=0) when the told values are vectors, so the
          constant-liar lie of a multi-point ask is well shaped (pinned: one scalar over all objectives -> ragged list).

   External behaviour is input: the objective scaler [sc] and the scaler+penalty+scalarisation [scal] are Section
   variables (the theorems hold for every length-preserving, finiteness-preserving instance); the concrete instances used
   for the correspondence are the identity scaler and the linear scalarisation with given weights.
   Assumed about inputs (harness generates only these): strings are non-empty; the run-function returns one fixed number of
   objectives. *)
From Coq Require Import List ZArith QArith Bool Arith.
Import ListNotations.

(* ---------- extended numbers ---------- *)
Inductive fnum := Fin (q : Q) | NaN | PInf | NInf.

Definition finite (x : fnum) : bool := match x with Fin _ => true | _ => false end.
Definition fneg (x : fnum) : fnum :=
  match x with Fin q => Fin (- q) | NaN => NaN | PInf => NInf | NInf => PInf end.
Definition fadd (a b : fnum) : fnum :=
  match a, b with
  | NaN, _ => NaN | _, NaN => NaN
  | Fin p, Fin q => Fin (p + q)
  | PInf, NInf => NaN | NInf, PInf => NaN
  | PInf, _ => PInf | _, PInf => PInf
  | NInf, _ => NInf | _, NInf => NInf
  end.
Definition fscale (w : Q) (a : fnum) : fnum :=
  match a with
  | Fin q => Fin (w * q)
  | NaN => NaN
  | PInf => if Qeq_bool w 0 then NaN else if Qle_bool 0 w then PInf else NInf
  | NInf => if Qeq_bool w 0 then NaN else if Qle_bool 0 w then NInf else PInf
  end.
(* np.maximum / np.minimum: NaN propagates *)
Definition fmax (a b : fnum) : fnum :=
  match a, b with
  | NaN, _ => NaN | _, NaN => NaN
  | PInf, _ => PInf | _, PInf => PInf
  | NInf, x => x | x, NInf => x
  | Fin p, Fin q => if Qle_bool p q then Fin q else Fin p
  end.
Definition fmin (a b : fnum) : fnum :=
  match a, b with
  | NaN, _ => NaN | _, NaN => NaN
  | NInf, _ => NInf | _, NInf => NInf
  | PInf, x => x | x, PInf => x
  | Fin p, Fin q => if Qle_bool p q then Fin p else Fin q
  end.
Definition fdivn (a : fnum) (n : nat) : fnum :=
  match a with Fin q => Fin (q / inject_Z (Z.of_nat n)) | x => x end.
Definition fsum (l : list fnum) : fnum := fold_left fadd l (Fin 0).
Definition fmean (l : list fnum) : fnum := fdivn (fsum l) (length l).
Definition fmaxl (l : list fnum) : fnum := match l with [] => NaN | x :: r => fold_left fmax r x end.
Definition fminl (l : list fnum) : fnum := match l with [] => NaN | x :: r => fold_left fmin r x end.

(* ---------- objectives as the run-function returns them (after HPOJob.standardize_output) ---------- *)
Inductive elem := ENum (x : fnum) | EStr (tok : Z) (isF : bool).
Inductive obj := OScal (e : elem) | OTup (l : list elem).

Definition MARK : elem := EStr 0 true.      (* Evaluator.FAIL_RETURN_VALUE = OBJECTIVE_VALUE_FAILURE = "F" *)

Definition nonfinite_num (e : elem) : bool := match e with ENum x => negb (finite x) | EStr _ _ => false end.
Definition is_num (e : elem) : bool := match e with ENum _ => true | EStr _ _ => false end.
Definition is_F (e : elem) : bool := match e with ENum _ => false | EStr _ f => f end.
Definition num_of_elem (e : elem) : fnum := match e with ENum x => x | EStr _ _ => NaN end.

(* the four ways an evaluation reports failure: a string starting with "F"; nan; +-inf; a non-finite number inside a tuple *)
Definition reported_failure (o : obj) : bool :=
  match o with
  | OScal e => is_F e || nonfinite_num e
  | OTup l => existsb nonfinite_num l
  end.

(* Evaluator._on_done: np.isscalar(objective) and np.isreal(objective) and not np.isfinite(objective) -> "F" *)
Definition on_done (fixed : bool) (o : obj) : obj :=
  match o with
  | OScal e => if nonfinite_num e then OScal MARK else o
  | OTup l => if fixed && existsb nonfinite_num l then OScal MARK else o
  end.

(* objective cell(s) of the row written for the job, [k] = Evaluator.num_objective:
   a tuple/list gives one cell per element; a scalar is replicated in objective_0..objective_{k-1} when k > 1 *)
Definition cells (k : nat) (o : obj) : list elem :=
  match o with
  | OTup l => l
  | OScal e => if (1 <? k)%nat then repeat e k else [e]
  end.

(* ---------- CBO._tell ---------- *)
Inductive told := TNum (x : fnum) | TVec (v : list fnum) | TFail.

Definition cbo_tell_one (ignore : bool) (o : obj) : option told :=
  match o with
  | OScal (ENum x) => Some (TNum (fneg x))
  | OScal (EStr _ f) => if f then (if ignore then None else Some TFail) else None
  | OTup l =>
      if forallb is_num l then Some (TVec (map (fun e => fneg (num_of_elem e)) l))
      else if existsb is_F l then (if ignore then None else Some TFail)
      else None
  end.

Fixpoint filter_map {A B} (f : A -> option B) (l : list A) : list B :=
  match l with
  | [] => []
  | x :: r => match f x with Some y => y :: filter_map f r | None => filter_map f r end
  end.

(* the three documented values of CBO(filter_failures=...) *)
Inductive policy := PMin | PMean | PIgnore.
(* what the optimizer is configured with: MAP_filter_failures.get(name, name); Optimizer._filter_failures imputes for
   "mean" and "max" and returns its input unchanged for anything else *)
Inductive opolicy := OMean | OMax | OOther.
Definition ignores (p : policy) : bool := match p with PIgnore => true | _ => false end.
Definition opt_policy (p : policy) : opolicy := match p with PMin => OMax | PMean => OMean | PIgnore => OOther end.

Definition cbo_tell (p : policy) (batch : list obj) : list told := filter_map (cbo_tell_one (ignores p)) batch.

(* ---------- Optimizer state: yi and the remaining number of initial points ---------- *)
Record ostate := mkO { yi : list told; ninit : Z }.

Definition is_fail (t : told) : bool := match t with TFail => true | _ => false end.
Definition is_vec (t : told) : bool := match t with TVec _ => true | _ => false end.
Definition succ_of (ys : list told) : list told := filter (fun t => negb (is_fail t)) ys.
Definition has_success (ys : list told) : bool := existsb (fun t => negb (is_fail t)) ys.

(* Optimizer._tell, batch branch: n_new_points = len([v for v in y if v != "F"]) *)
Definition opt_tell (st : ostate) (ys : list told) : ostate :=
  mkO (yi st ++ ys) (ninit st - Z.of_nat (length (succ_of ys)))%Z.

(* gather (every finished job goes through _on_done) then CBO._tell; tell is called only when something is left *)
Definition cbo_step (fixed : bool) (p : policy) (st : ostate) (batch : list obj) : ostate :=
  match cbo_tell p (map (on_done fixed) batch) with
  | [] => st
  | ys => opt_tell st ys
  end.

Definition run (fixed : bool) (p : policy) (n0 : Z) (hist : list (list obj)) : ostate :=
  fold_left (cbo_step fixed p) hist (mkO [] n0).

(* ---------- CBO.fit_surrogate(checkpoint): a second way failures reach the optimizer ----------
   [objs]: the objectives of the rows of an earlier results table (after that search's _on_done).  The rows without a
   failure are told first (negated), then one marker per failed row; n_initial_points becomes 0, so a fit follows at once.
   pinned: the markers are told whatever the policy (under "ignore" the marker then reaches the estimator: F72), and the
   tell happens even when nothing is left.  fixed: failed rows are dropped under "ignore", like CBO._tell does; with
   nothing to tell the search starts from scratch (n0 initial points). *)
Definition restart_told (fixed : bool) (p : policy) (objs : list obj) : list told :=
  let ys := filter_map (cbo_tell_one false) objs in
  succ_of ys ++ (if fixed && ignores p then [] else filter is_fail ys).
Definition restart (fixed : bool) (p : policy) (n0 : Z) (objs : list obj) : ostate :=
  match restart_told fixed p objs with
  | [] => mkO [] (if fixed then n0 else 0%Z)
  | ys => opt_tell (mkO [] 0%Z) ys
  end.
(* the search continued after the restart *)
Definition run_from (fixed : bool) (p : policy) (st : ostate) (hist : list (list obj)) : ostate :=
  fold_left (cbo_step fixed p) hist st.

(* a surrogate is fitted when: fit and self._n_initial_points <= 0 (and there is a base estimator) *)
Definition fit_due (st : ostate) : bool := (ninit st <=? 0)%Z.

(* ---------- Optimizer._filter_failures ---------- *)
Definition vec_of (t : told) : list fnum := match t with TNum x => [x] | TVec v => v | TFail => [] end.
Definition num_of (t : told) : fnum := match t with TNum x => x | _ => NaN end.
Definition col (j : nat) (vs : list (list fnum)) : list fnum := map (fun v => nth j v NaN) vs.

Definition agg_of (pol : opolicy) : list fnum -> fnum := match pol with OMean => fmean | _ => fmaxl end.

(* pinned: np.mean(yi_no_failure) / np.max(yi_no_failure) - ONE number over everything;
   fixed : axis=0 - one number per objective when the told values are vectors *)
Definition imputed (fixed : bool) (pol : opolicy) (ss : list told) : told :=
  if fixed && existsb is_vec ss
  then TVec (map (fun j => agg_of pol (col j (map vec_of ss))) (seq 0 (length (vec_of (hd TFail ss)))))
  else TNum (agg_of pol (flat_map vec_of ss)).

Definition replace_fail (v : told) (ys : list told) : list told := map (fun t => if is_fail t then v else t) ys.

(* None = ExhaustedFailures raised *)
Definition filter_failures (fixed : bool) (pol : opolicy) (maxf : nat) (ys : list told) : option (list told) :=
  match pol with
  | OOther => Some ys
  | _ =>
    match succ_of ys with
    | [] => if (maxf <=? length ys)%nat then None else Some (replace_fail (TNum (Fin 0)) ys)
    | ss => Some (replace_fail (imputed fixed pol ss) ys)
    end
  end.

(* ---------- what the surrogate is fitted on ---------- *)
(* put the transformed successes back at their positions (yi[mask_no_failures] = ...) *)
Fixpoint scatter (ys : list told) (vals : list fnum) : list told :=
  match ys with
  | [] => []
  | TFail :: r => TFail :: scatter r vals
  | t :: r => match vals with v :: vs => TNum v :: scatter r vs | [] => t :: scatter r [] end
  end.

Section Fit.
  Variable sc : list fnum -> list fnum.            (* objective_scaler.fit_transform on the successful values *)
  Variable scal : list (list fnum) -> list fnum.   (* _moo_scalarize on the successful vectors: scaler, penalty, scalarisation *)

  (* when every observation is a failure there is nothing to scale: [scatter] does not look at the values then.  The
     pinned _tell still calls objective_scaler.fit_transform on the EMPTY array, which sklearn's QuantileTransformer /
     MinMaxScaler reject (F73, reachable with n_initial_points = 0, i.e. after fit_surrogate on an all-failed checkpoint);
     the repaired code skips the call.  The theorems assume nothing about sc [] / scal []. *)
  Definition scalarized (ys : list told) : list told :=
    if existsb is_vec ys then scatter ys (scal (map vec_of (succ_of ys)))
    else scatter ys (sc (map num_of (succ_of ys))).

  (* the y handed to estimator.fit; None = ExhaustedFailures *)
  Definition fit_input (fixed : bool) (pol : opolicy) (maxf : nat) (ys : list told) : option (list told) :=
    filter_failures fixed pol maxf (scalarized ys).
End Fit.

(* the surrogate fit succeeds exactly on finite numbers *)
Definition fit_ok (ys : list told) : bool := forallb (fun t => match t with TNum x => finite x | _ => false end) ys.

(* concrete instances used by the extracted driver *)
Definition sc_id (l : list fnum) : list fnum := l.
Fixpoint dot (w : list Q) (v : list fnum) : fnum :=
  match w, v with
  | a :: w', x :: v' => fadd (fscale a x) (dot w' v')
  | _, _ => Fin 0
  end.
Definition scal_lin (w : list Q) (vs : list (list fnum)) : list fnum := map (dot w) vs.
(* /repo HEAD after the repair of F07: MoScalarFunction.scalarize works relative to the utopia point = the column-wise
   minimum of the successful vectors (normalize()); for the linear function w.(y - u) = w.y - w.u *)
Definition colz (j : nat) (vs : list (list fnum)) : list fnum := map (fun v => nth j v (Fin 0)) vs.
Definition utopia (vs : list (list fnum)) : list fnum := map (fun j => fminl (colz j vs)) (seq 0 (length (hd [] vs))).
Definition scal_lin_u (w : list Q) (vs : list (list fnum)) : list fnum :=
  map (fun v => fadd (dot w v) (fneg (dot w (utopia vs)))) vs.

(* ---------- constant-liar lie of Optimizer.ask(n_points > 1) ---------- *)
Inductive liar := CLMin | CLMean | CLMax.
(* shape: 0 = scalar, S k = vector of length k *)
Definition shape (t : told) : option nat := match t with TNum _ => Some O | TVec v => Some (S (length v)) | TFail => None end.
Definition shape_is (s : nat) (t : told) : bool := match shape t with Some s' => Nat.eqb s s' | None => false end.
(* np.min/np.mean/np.max(opt_yi, axis=0) needs a rectangular array *)
Definition well_shaped (ys : list told) : bool :=
  match ys with [] => true | t :: _ => match shape t with Some s => forallb (shape_is s) ys | None => false end end.
Definition lagg (s : liar) : list fnum -> fnum := match s with CLMin => fminl | CLMean => fmean | CLMax => fmaxl end.
Definition lie_of (s : liar) (ys : list told) : told :=
  match ys with
  | [] => TNum (Fin 0)
  | TVec v :: _ => TVec (map (fun j => lagg s (col j (map vec_of ys))) (seq 0 (length v)))
  | _ => TNum (lagg s (map num_of ys))
  end.
Inductive lie_result := LieOk (y : told) | LieExhausted | LieShapeError.
Definition ask_lie (fixed : bool) (pol : opolicy) (maxf : nat) (s : liar) (ys : list told) : lie_result :=
  match filter_failures fixed pol maxf ys with
  | None => LieExhausted
  | Some zs => if well_shaped zs then LieOk (lie_of s zs) else LieShapeError
  end.

(* ---------- RegularizedEvolution._tell: string objectives are skipped; the population is a deque(maxlen=cap) ---------- *)
Definition is_str (o : obj) : bool := match o with OScal (EStr _ _) => true | _ => false end.
Definition lastn {A} (n : nat) (l : list A) : list A := skipn (length l - n) l.
Definition regevo_tell (cap : nat) (pop : list (Z * obj)) (results : list (Z * obj)) : list (Z * obj) :=
  lastn cap (pop ++ filter (fun r => negb (is_str (snd r))) results).
Definition regevo_step (fixed : bool) (cap : nat) (pop : list (Z * obj)) (batch : list (Z * obj)) : list (Z * obj) :=
  regevo_tell cap pop (map (fun r => (fst r, on_done fixed (snd r))) batch).
Definition regevo_run (fixed : bool) (cap : nat) (hist : list (list (Z * obj))) : list (Z * obj) :=
  fold_left (regevo_step fixed cap) hist [].
