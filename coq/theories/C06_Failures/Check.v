(* Oracles applied to what the IMPLEMENTATION produced, with their reflection lemmas. *)
From Coq Require Import List ZArith Bool Arith Lia.
Import ListNotations.
Require Import DH.C06_Failures.Model.

(* ---------- a failed evaluation's row carries failure strings in its objective cell(s) ---------- *)
Definition all_F (cs : list elem) : bool := match cs with [] => false | _ => forallb is_F cs end.

Definition row_marked (cs : list elem) : Prop := cs <> [] /\ Forall (fun c => is_F c = true) cs.

Lemma all_F_spec cs : all_F cs = true <-> row_marked cs.
Proof.
  unfold all_F, row_marked. destruct cs as [|c r].
  - split; [discriminate | intros [H _]; congruence].
  - rewrite forallb_forall, Forall_forall. split; [intros H; split; [discriminate | exact H] | intros [_ H]; exact H].
Qed.

(* o: what the run-function returned; o': job.objective after the implementation's _on_done; k = num_objective *)
Definition ok_row (k : nat) (o o' : obj) : bool := if reported_failure o then all_F (cells k o') else true.

Lemma ok_row_spec k o o' : ok_row k o o' = true <-> (reported_failure o = true -> row_marked (cells k o')).
Proof.
  unfold ok_row. destruct (reported_failure o).
  - rewrite all_F_spec. tauto.
  - split; [intros _ H; discriminate | reflexivity].
Qed.

(* ---------- the y an estimator was fitted on ---------- *)
Definition ok_fit (ys : list told) : bool := fit_ok ys.

Lemma ok_fit_spec ys : ok_fit ys = true <-> Forall (fun t => exists x, t = TNum x /\ finite x = true) ys.
Proof.
  unfold ok_fit, fit_ok. rewrite forallb_forall, Forall_forall. split; intros H t Ht.
  - specialize (H t Ht). destruct t; try discriminate. eauto.
  - destruct (H t Ht) as (x & -> & Hx). exact Hx.
Qed.

(* ---------- the list the constant-liar lie is computed from: rectangular, finite, no failure left ---------- *)
Definition finite_told (t : told) : bool := negb (is_fail t) && forallb finite (vec_of t).
Definition ok_lie_inputs (ys : list told) : bool := well_shaped ys && forallb finite_told ys.

(* ---------- search level: the observed outcome of a search whose run-function replays a pattern ---------- *)
Record sobs := mkS {
  s_raised : bool;                       (* search() raised *)
  s_failed : list nat;                   (* job ids whose evaluation reported a failure *)
  s_rows : list (nat * list bool);       (* returned table: job id, objective cells ("is a string starting with F") *)
  s_bounds : list (Z * Z);               (* the space: one interval per hyperparameter (numbers scaled, categories indexed) *)
  s_props : list (list Z);               (* configurations proposed (in evaluation order), labelling 1 *)
  s_props2 : list (list Z) }.            (* the same pattern with other failure labels, same seed *)

Definition marked (cs : list bool) : bool := match cs with [] => false | _ => forallb (fun b => b) cs end.
Definition rows_of (j : nat) (rows : list (nat * list bool)) := filter (fun r => Nat.eqb (fst r) j) rows.
Definition job_marked (rows : list (nat * list bool)) (j : nat) : bool :=
  match rows_of j rows with [] => false | rs => forallb (fun r => marked (snd r)) rs end.

Fixpoint in_box (bs : list (Z * Z)) (x : list Z) : bool :=
  match bs, x with
  | [], [] => true
  | (lo, hi) :: bs', v :: x' => (lo <=? v)%Z && (v <=? hi)%Z && in_box bs' x'
  | _, _ => false
  end.

Fixpoint eq_props (a b : list (list Z)) : bool :=
  match a, b with
  | [], [] => true
  | x :: a', y :: b' => (if list_eq_dec Z.eq_dec x y then true else false) && eq_props a' b'
  | _, _ => false
  end.

(* 0 = ok; 1 raised; 2 failed row missing or not marked; 3 proposal outside the space; 4 labels changed the proposals *)
Definition ok_search (o : sobs) : nat :=
  if s_raised o then 1
  else if negb (forallb (job_marked (s_rows o)) (s_failed o)) then 2
  else if negb (forallb (in_box (s_bounds o)) (s_props o) && forallb (in_box (s_bounds o)) (s_props2 o)) then 3
  else if negb (eq_props (s_props o) (s_props2 o)) then 4
  else 0.

Fixpoint In_box (bs : list (Z * Z)) (x : list Z) : Prop :=
  match bs, x with
  | [], [] => True
  | (lo, hi) :: bs', v :: x' => (lo <= v <= hi)%Z /\ In_box bs' x'
  | _, _ => False
  end.

Record search_spec (o : sobs) : Prop := mkSpec {
  sp_returns : s_raised o = false;
  sp_marked : forall j, In j (s_failed o) ->
      (exists cs, In (j, cs) (s_rows o)) /\
      (forall cs, In (j, cs) (s_rows o) -> cs <> [] /\ Forall (fun b => b = true) cs);
  sp_valid : forall x, In x (s_props o) \/ In x (s_props2 o) -> In_box (s_bounds o) x;
  sp_labels : s_props o = s_props2 o }.

Lemma marked_spec cs : marked cs = true <-> cs <> [] /\ Forall (fun b => b = true) cs.
Proof.
  unfold marked. destruct cs as [|c r].
  - split; [discriminate | intros [H _]; congruence].
  - rewrite forallb_forall, Forall_forall. split; [intros H; split; [discriminate | exact H] | intros [_ H]; exact H].
Qed.

Lemma job_marked_spec rows j : job_marked rows j = true <->
  (exists cs, In (j, cs) rows) /\ (forall cs, In (j, cs) rows -> cs <> [] /\ Forall (fun b => b = true) cs).
Proof.
  unfold job_marked.
  assert (Hin : forall r, In r (rows_of j rows) <-> In r rows /\ fst r = j).
  { intros r. unfold rows_of. rewrite filter_In, Nat.eqb_eq. tauto. }
  destruct (rows_of j rows) as [|r0 rs] eqn:E.
  - split; [discriminate|]. intros [[cs Hcs] _]. exfalso.
    assert (H : In (j, cs) []) by (apply Hin; split; [exact Hcs | reflexivity]). exact H.
  - rewrite forallb_forall. split.
    + intros H. split.
      * exists (snd r0). destruct (proj1 (Hin r0) (or_introl eq_refl)) as [Hr Hj]. destruct r0 as [a b]. cbn in *. subst a. exact Hr.
      * intros cs Hcs. apply marked_spec. apply (H (j, cs)). apply Hin. split; [exact Hcs | reflexivity].
    + intros [_ H] r Hr. apply Hin in Hr. destruct Hr as [Hr Hj]. destruct r as [a b]. cbn in *. subst a.
      apply marked_spec. apply H. exact Hr.
Qed.

Lemma in_box_spec bs x : in_box bs x = true <-> In_box bs x.
Proof.
  revert x. induction bs as [|[lo hi] bs IH]; intros [|v x]; cbn; try (split; [discriminate | tauto]); try tauto.
  rewrite !andb_true_iff, !Z.leb_le, IH. tauto.
Qed.

Lemma eq_props_spec a b : eq_props a b = true <-> a = b.
Proof.
  revert b. induction a as [|x a IH]; intros [|y b]; cbn; try (split; [discriminate | congruence]); try tauto.
  destruct (list_eq_dec Z.eq_dec x y) as [->|Hn]; cbn.
  - rewrite IH. split; [intros ->; reflexivity | intros H; injection H; auto].
  - split; [discriminate | intros H; injection H; intros; contradiction].
Qed.

Theorem ok_search_spec o : ok_search o = 0 <-> search_spec o.
Proof.
  unfold ok_search. split.
  - destruct (s_raised o) eqn:Er; [discriminate|].
    destruct (forallb (job_marked (s_rows o)) (s_failed o)) eqn:Em; cbn [negb]; [|discriminate].
    destruct (forallb (in_box (s_bounds o)) (s_props o) && forallb (in_box (s_bounds o)) (s_props2 o)) eqn:Eb; cbn [negb]; [|discriminate].
    destruct (eq_props (s_props o) (s_props2 o)) eqn:Ee; cbn [negb]; [|discriminate].
    intros _. apply andb_true_iff in Eb. destruct Eb as [Eb1 Eb2]. rewrite forallb_forall in Em, Eb1, Eb2.
    constructor.
    + exact Er.
    + intros j Hj. apply job_marked_spec. apply Em. exact Hj.
    + intros x [Hx|Hx]; apply in_box_spec; [apply Eb1 | apply Eb2]; exact Hx.
    + apply eq_props_spec. exact Ee.
  - intros [Hr Hm Hv Hl]. rewrite Hr.
    replace (forallb (job_marked (s_rows o)) (s_failed o)) with true.
    2:{ symmetry. apply forallb_forall. intros j Hj. apply job_marked_spec. apply Hm. exact Hj. }
    cbn [negb].
    replace (forallb (in_box (s_bounds o)) (s_props o)) with true.
    2:{ symmetry. apply forallb_forall. intros x Hx. apply in_box_spec. apply Hv. left. exact Hx. }
    replace (forallb (in_box (s_bounds o)) (s_props2 o)) with true.
    2:{ symmetry. apply forallb_forall. intros x Hx. apply in_box_spec. apply Hv. right. exact Hx. }
    cbn [andb negb].
    replace (eq_props (s_props o) (s_props2 o)) with true by (symmetry; apply eq_props_spec; exact Hl).
    reflexivity.
Qed.
