(* C06 - proofs, part 3: labels and failure kinds are irrelevant; failed rows are marked; RegularizedEvolution;
   the constant-liar lie. *)
From Coq Require Import List ZArith QArith Bool Arith Lia.
Import ListNotations.
Require Import DH.C06_Failures.Model DH.C06_Failures.Lemmas DH.C06_Failures.Lemmas2 DH.C06_Failures.Check.

(* ---------- relabelling ---------- *)
(* o' is o with its failure label (a string objective starting with "F") replaced by any other such string *)
Definition relabelled (o o' : obj) : Prop :=
  match o, o' with
  | OScal (EStr _ true), OScal (EStr _ true) => True
  | _, _ => o = o'
  end.
(* more generally: both evaluations reported a failure, of whatever kind and text *)
Definition fail_equiv (o o' : obj) : Prop := (reported_failure o = true /\ reported_failure o' = true) \/ o = o'.

Definition relabel (rho : Z -> Z) (o : obj) : obj :=
  match o with OScal (EStr t true) => OScal (EStr (rho t) true) | _ => o end.

Lemma relabel_relabelled rho o : relabelled o (relabel rho o).
Proof. destruct o as [[x|t [|]]|l]; cbn; auto. Qed.

Lemma relabelled_fail_equiv o o' : relabelled o o' -> fail_equiv o o'.
Proof.
  destruct o as [[x|t [|]]|l]; cbn; try (intros <-; right; reflexivity).
  destruct o' as [[x'|t' [|]]|l']; try (intros H; right; exact H). intros _. left. split; reflexivity.
Qed.

Lemma told_relabelled fixed ign o o' : relabelled o o' ->
  cbo_tell_one ign (on_done fixed o) = cbo_tell_one ign (on_done fixed o').
Proof.
  destruct o as [[x|t [|]]|l]; cbn [relabelled]; try (intros <-; reflexivity).
  destruct o' as [[x'|t' [|]]|l']; try (intros H; rewrite <- H; reflexivity). intros _. reflexivity.
Qed.

Lemma told_equiv ign o o' : fail_equiv o o' -> cbo_tell_one ign (on_done true o) = cbo_tell_one ign (on_done true o').
Proof. intros [[H H']| <-]; [rewrite !reported_failure_told by assumption|]; reflexivity. Qed.

Section Rel.
  Variable fixed : bool.
  Variable p : policy.
  Variable R : obj -> obj -> Prop.
  Hypothesis HR : forall o o', R o o' -> cbo_tell_one (ignores p) (on_done fixed o) = cbo_tell_one (ignores p) (on_done fixed o').

  Lemma batch_rel b b' : Forall2 R b b' -> cbo_tell p (map (on_done fixed) b) = cbo_tell p (map (on_done fixed) b').
  Proof.
    unfold cbo_tell. induction 1 as [|o o' b b' Ho Hb IH]; cbn; [reflexivity|]. rewrite (HR o o' Ho), IH. reflexivity.
  Qed.

  Lemma fold_rel h h' : Forall2 (Forall2 R) h h' -> forall st,
    fold_left (cbo_step fixed p) h st = fold_left (cbo_step fixed p) h' st.
  Proof.
    induction 1 as [|b b' h h' Hb Hh IH]; intros st; cbn; [reflexivity|].
    unfold cbo_step at 2 4. rewrite (batch_rel b b' Hb). apply IH.
  Qed.
End Rel.

Theorem label_irrelevant fixed p n0 h h' : Forall2 (Forall2 relabelled) h h' -> run fixed p n0 h = run fixed p n0 h'.
Proof. intros H. unfold run. apply (fold_rel fixed p relabelled); [intros o o'; apply told_relabelled | exact H]. Qed.

Theorem failure_kind_irrelevant p n0 h h' : Forall2 (Forall2 fail_equiv) h h' -> run true p n0 h = run true p n0 h'.
Proof. intros H. unfold run. apply (fold_rel true p fail_equiv); [intros o o'; apply told_equiv | exact H]. Qed.

Lemma Forall2_map_r {A} (R : A -> A -> Prop) (f : A -> A) l : (forall x, R x (f x)) -> Forall2 R l (map f l).
Proof. intros H. induction l; cbn; constructor; auto. Qed.

Theorem relabel_irrelevant rho fixed p n0 h : run fixed p n0 (map (map (relabel rho)) h) = run fixed p n0 h.
Proof.
  symmetry. apply label_irrelevant. apply Forall2_map_r. intros b. apply Forall2_map_r. apply relabel_relabelled.
Qed.

(* ---------- rows ---------- *)
Lemma repeat_marked e k : (1 < k)%nat -> is_F e = true -> row_marked (repeat e k).
Proof.
  intros Hk He. split.
  - destruct k; [lia | cbn; discriminate].
  - apply Forall_forall. intros c Hc. apply repeat_spec in Hc. subst c. exact He.
Qed.

Theorem rows_marked_failed k o : reported_failure o = true -> row_marked (cells k (on_done true o)).
Proof.
  intros H. destruct (on_done_failure o H) as (t & ->). cbn [cells]. destruct (1 <? k)%nat eqn:E.
  - apply repeat_marked; [apply Nat.ltb_lt; exact E | reflexivity].
  - split; [discriminate | repeat constructor].
Qed.

Theorem rows_marked_pinned_scalar k e : reported_failure (OScal e) = true -> row_marked (cells k (on_done false (OScal e))).
Proof.
  intros H. destruct (on_done_pinned_scalar e H) as (t & ->). cbn [cells]. destruct (1 <? k)%nat eqn:E.
  - apply repeat_marked; [apply Nat.ltb_lt; exact E | reflexivity].
  - split; [discriminate | repeat constructor].
Qed.

Lemma tuple_row_refuted : exists k o, reported_failure o = true /\ ~ row_marked (cells k (on_done false o)).
Proof.
  exists 2%nat, (OTup [ENum (Fin 2); ENum NaN]). split; [reflexivity|]. cbn. intros [_ H]. inversion H as [|? ? H1 _]. discriminate.
Qed.

(* ---------- RegularizedEvolution ---------- *)
Lemma in_lastn {A} n (l : list A) x : In x (lastn n l) -> In x l.
Proof.
  unfold lastn. generalize (length l - n)%nat as k. intros k. revert l. induction k as [|k IH]; intros [|a l]; cbn; auto.
Qed.

Lemma on_done_not_str o : is_str (on_done true o) = false -> on_done true o = o /\ reported_failure o = false.
Proof.
  intros H. destruct (reported_failure o) eqn:E.
  - destruct (on_done_failure o E) as (t & Ht). rewrite Ht in H. discriminate.
  - split; [|reflexivity]. destruct o as [e|l]; cbn in *.
    + apply orb_false_iff in E. destruct E as [_ E]. rewrite E. reflexivity.
    + rewrite E. reflexivity.
Qed.

Definition member_ok (r : Z * obj) : Prop := is_str (snd r) = false /\ reported_failure (snd r) = false.

Lemma regevo_step_ok cap pop batch : Forall member_ok pop -> Forall member_ok (regevo_step true cap pop batch).
Proof.
  intros Hp. apply Forall_forall. intros r Hr. unfold regevo_step, regevo_tell in Hr. apply in_lastn in Hr.
  apply in_app_or in Hr. destruct Hr as [Hr|Hr]; [rewrite Forall_forall in Hp; apply Hp; exact Hr|].
  apply filter_In in Hr. destruct Hr as [Hr Hs]. apply in_map_iff in Hr. destruct Hr as ((i & o) & <- & _). cbn in *.
  assert (Hn : is_str (on_done true o) = false) by (destruct (is_str (on_done true o)); [discriminate | reflexivity]).
  destruct (on_done_not_str o Hn) as [He Hf]. unfold member_ok. cbn. rewrite He in *. split; assumption.
Qed.

Theorem regevo_population_ok cap hist : Forall member_ok (regevo_run true cap hist).
Proof.
  unfold regevo_run. assert (H : forall pop, Forall member_ok pop -> Forall member_ok (fold_left (regevo_step true cap) hist pop)).
  { induction hist as [|b h IH]; intros pop Hp; cbn; [exact Hp | apply IH, regevo_step_ok, Hp]. }
  apply H. constructor.
Qed.

Definition res_equiv (r r' : Z * obj) : Prop := fst r = fst r' /\ fail_equiv (snd r) (snd r').

Lemma regevo_batch_equiv b b' : Forall2 res_equiv b b' ->
  filter (fun r => negb (is_str (snd r))) (map (fun r => (fst r, on_done true (snd r))) b) =
  filter (fun r => negb (is_str (snd r))) (map (fun r => (fst r, on_done true (snd r))) b').
Proof.
  induction 1 as [|[i o] [i' o'] b b' [Hi Ho] Hb IH]; cbn in *; [reflexivity|]. subst i'.
  destruct Ho as [[H H']| <-].
  - destruct (on_done_failure o H) as (t & ->). destruct (on_done_failure o' H') as (t' & ->). cbn. exact IH.
  - rewrite IH. reflexivity.
Qed.

Theorem regevo_kind_irrelevant cap h h' : Forall2 (Forall2 res_equiv) h h' -> regevo_run true cap h = regevo_run true cap h'.
Proof.
  intros H. unfold regevo_run. generalize (@nil (Z * obj)) as pop. induction H as [|b b' h h' Hb Hh IH]; intros pop; cbn; [reflexivity|].
  unfold regevo_step at 2 4. unfold regevo_tell. rewrite (regevo_batch_equiv b b' Hb). apply IH.
Qed.

(* ---------- the constant-liar lie ---------- *)
Definition uniform (s : nat) (ys : list told) : bool := forallb (fun t => is_fail t || shape_is s t) ys.

Lemma shape_is_spec s t : shape_is s t = true <-> shape t = Some s.
Proof.
  unfold shape_is. destruct (shape t) as [s'|]; [|split; discriminate]. rewrite Nat.eqb_eq. split; congruence.
Qed.

Lemma finite_nth v j : forallb finite v = true -> (j < length v)%nat -> finite (nth j v NaN) = true.
Proof. intros H Hj. rewrite forallb_forall in H. apply H. apply nth_In. exact Hj. Qed.

(* columns of a non-empty list of finite vectors of length k *)
Lemma finite_col (f : list fnum -> fnum) k j (ts : list told) :
  (forall l, l <> [] -> forallb finite l = true -> finite (f l) = true) ->
  ts <> [] -> (forall t, In t ts -> exists v, t = TVec v /\ length v = k /\ forallb finite v = true) -> (j < k)%nat ->
  finite (f (col j (map vec_of ts))) = true.
Proof.
  intros Hf Hne Hts Hj. apply Hf.
  - destruct ts; [congruence | cbn; discriminate].
  - unfold col. rewrite !forallb_map. apply forallb_forall. intros t Ht. destruct (Hts t Ht) as (v & -> & Hl & Hv).
    cbn. apply finite_nth; [exact Hv | lia].
Qed.

Lemma vec_aggregate (f : list fnum -> fnum) k (ts : list told) :
  (forall l, l <> [] -> forallb finite l = true -> finite (f l) = true) ->
  ts <> [] -> (forall t, In t ts -> exists v, t = TVec v /\ length v = k /\ forallb finite v = true) ->
  let y := TVec (map (fun j => f (col j (map vec_of ts))) (seq 0 k)) in
  shape y = Some (S k) /\ finite_told y = true.
Proof.
  intros Hf Hne Hts. cbn. rewrite map_length, seq_length. split; [reflexivity|].
  rewrite forallb_map. apply forallb_forall. intros j Hj. apply in_seq in Hj.
  apply (finite_col f k j ts Hf Hne Hts). lia.
Qed.

Lemma succ_uniform s ys t : Forall (fun t => clean t = true) ys -> uniform s ys = true -> In t (succ_of ys) ->
  shape t = Some s /\ clean t = true /\ is_fail t = false.
Proof.
  intros Hc Hu Ht. destruct (succ_clean ys t Hc Ht) as [Hct Hnf]. unfold succ_of in Ht. apply filter_In in Ht.
  destruct Ht as [Hi _]. unfold uniform in Hu. rewrite forallb_forall in Hu. specialize (Hu t Hi). rewrite Hnf in Hu. cbn in Hu.
  apply shape_is_spec in Hu. auto.
Qed.

Lemma imputed_shape pol s ys : Forall (fun t => clean t = true) ys -> uniform s ys = true -> succ_of ys <> [] ->
  shape (imputed true pol (succ_of ys)) = Some s /\ finite_told (imputed true pol (succ_of ys)) = true.
Proof.
  intros Hc Hu Hne. pose proof (fun t => succ_uniform s ys t Hc Hu) as Hs. unfold imputed. cbn [andb].
  destruct s as [|k].
  - (* scalars *)
    assert (Hall : forall t, In t (succ_of ys) -> exists x, t = TNum x /\ finite x = true).
    { intros t Ht. destruct (Hs t Ht) as (Hsh & Hct & _). destruct t; cbn in *; try discriminate. eauto. }
    assert (Hv : existsb is_vec (succ_of ys) = false).
    { destruct (existsb is_vec (succ_of ys)) eqn:E; [|reflexivity]. apply existsb_exists in E. destruct E as (t & Ht & Hvt).
      destruct (Hall t Ht) as (x & -> & _). discriminate. }
    rewrite Hv. split; [reflexivity|]. cbn. rewrite andb_true_r. apply finite_agg.
    + destruct (succ_of ys) as [|t ss]; [congruence|]. destruct (Hall t (or_introl eq_refl)) as (x & -> & _). cbn. discriminate.
    + apply forallb_forall. intros x Hx. apply in_flat_map in Hx. destruct Hx as (t & Ht & Hx).
      destruct (Hall t Ht) as (y & -> & Hy). cbn in Hx. destruct Hx as [<-|[]]. exact Hy.
  - (* vectors of length k *)
    assert (Hall : forall t, In t (succ_of ys) -> exists v, t = TVec v /\ length v = k /\ forallb finite v = true).
    { intros t Ht. destruct (Hs t Ht) as (Hsh & Hct & _). destruct t; cbn in *; try discriminate. injection Hsh as Hl. eauto. }
    destruct (succ_of ys) as [|t0 ss] eqn:E; [congruence|].
    destruct (Hall t0 (or_introl eq_refl)) as (v0 & -> & Hl0 & Hf0). cbn [existsb is_vec orb hd vec_of]. rewrite Hl0.
    apply (vec_aggregate (agg_of pol) k (TVec v0 :: ss)); [apply finite_agg | discriminate | exact Hall].
Qed.

Lemma all_shape_well_shaped s zs : (forall t, In t zs -> shape t = Some s) -> well_shaped zs = true.
Proof.
  intros H. unfold well_shaped. destruct zs as [|t r]; [reflexivity|]. rewrite (H t (or_introl eq_refl)).
  apply forallb_forall. intros u Hu. apply shape_is_spec. apply H. exact Hu.
Qed.

(* the repaired _filter_failures hands the lie computation a rectangular, finite list *)
Theorem lie_inputs_well_shaped pol maxf s ys :
  pol <> OOther -> Forall (fun t => clean t = true) ys -> uniform s ys = true -> has_success ys = true ->
  exists zs, filter_failures true pol maxf ys = Some zs /\ ok_lie_inputs zs = true /\ length zs = length ys /\
             (forall t, In t zs -> shape t = Some s).
Proof.
  intros Hp Hc Hu Hs. apply has_success_succ in Hs. destruct (imputed_shape pol s ys Hc Hu Hs) as [Hsh Hfin].
  exists (replace_fail (imputed true pol (succ_of ys)) ys).
  assert (Hall : forall t, In t (replace_fail (imputed true pol (succ_of ys)) ys) -> shape t = Some s /\ finite_told t = true).
  { intros t Ht. unfold replace_fail in Ht. apply in_map_iff in Ht. destruct Ht as (u & <- & Hu').
    destruct (is_fail u) eqn:Ef; [split; assumption|].
    assert (Hin : In u (succ_of ys)) by (unfold succ_of; apply filter_In; rewrite Ef; auto).
    destruct (succ_uniform s ys u Hc Hu Hin) as (A & B & C). split; [exact A|]. unfold finite_told. rewrite C. cbn.
    destruct u; cbn in *; [rewrite B; reflexivity | exact B | discriminate]. }
  repeat split.
  - unfold filter_failures. destruct pol; [| |congruence]; destruct (succ_of ys) eqn:E; try congruence; reflexivity.
  - unfold ok_lie_inputs. apply andb_true_iff. split.
    + apply (all_shape_well_shaped s). intros t Ht. apply Hall. exact Ht.
    + apply forallb_forall. intros t Ht. apply Hall. exact Ht.
  - unfold replace_fail. apply map_length.
  - intros t Ht. apply Hall. exact Ht.
Qed.

Lemma well_shaped_all zs t0 r : zs = t0 :: r -> well_shaped zs = true ->
  exists s, shape t0 = Some s /\ forall t, In t zs -> shape t = Some s.
Proof.
  intros -> H. unfold well_shaped in H. destruct (shape t0) as [s|] eqn:E; [|discriminate]. exists s. split; [reflexivity|].
  intros t Ht. rewrite forallb_forall in H. apply shape_is_spec. apply H. exact Ht.
Qed.

Theorem lie_finite strat zs : zs <> [] -> ok_lie_inputs zs = true ->
  finite_told (lie_of strat zs) = true /\ shape (lie_of strat zs) = shape (hd TFail zs).
Proof.
  intros Hne H. unfold ok_lie_inputs in H. apply andb_true_iff in H. destruct H as [Hw Hf].
  destruct zs as [|t0 r]; [congruence|].
  destruct (well_shaped_all (t0 :: r) t0 r eq_refl Hw) as (s & Hs0 & Hall). rewrite forallb_forall in Hf.
  cbn [hd]. destruct t0 as [x|v|]; [| |discriminate].
  - (* scalars *)
    cbn in Hs0. injection Hs0 as <-. split; [|reflexivity].
    change (lie_of strat (TNum x :: r)) with (TNum (lagg strat (map num_of (TNum x :: r)))).
    unfold finite_told. cbn [is_fail negb vec_of forallb andb]. rewrite andb_true_r. apply finite_lagg; [discriminate|].
    rewrite forallb_map. apply forallb_forall. intros t Ht. specialize (Hf t Ht). specialize (Hall t Ht).
    destruct t; cbn in *; try discriminate. unfold finite_told in Hf. cbn in Hf. rewrite andb_true_r in Hf. exact Hf.
  - cbn in Hs0. injection Hs0 as <-.
    change (lie_of strat (TVec v :: r)) with (TVec (map (fun j => lagg strat (col j (map vec_of (TVec v :: r)))) (seq 0 (length v)))).
    assert (Hts : forall t, In t (TVec v :: r) -> exists w, t = TVec w /\ length w = length v /\ forallb finite w = true).
    { intros t Ht. specialize (Hf t Ht). specialize (Hall t Ht). destruct t; cbn in Hall; try discriminate.
      injection Hall as Hl. unfold finite_told in Hf. cbn in Hf. eauto. }
    destruct (vec_aggregate (lagg strat) (length v) (TVec v :: r) (finite_lagg strat)) as [A B]; [discriminate | exact Hts|].
    split; [exact B | exact A].
Qed.

(* the pinned _filter_failures: one scalar for a vector objective - np.min/mean/max(opt_yi, axis=0) is given a ragged list *)
Lemma cl_lie_refuted : ask_lie false OMean 100 CLMean [TVec [Fin 1; Fin 2]; TFail] = LieShapeError.
Proof. vm_compute. reflexivity. Qed.

Theorem ask_lie_ok pol maxf strat s ys :
  pol <> OOther -> Forall (fun t => clean t = true) ys -> uniform s ys = true -> has_success ys = true ->
  exists y, ask_lie true pol maxf strat ys = LieOk y /\ finite_told y = true /\ shape y = Some s.
Proof.
  intros Hp Hc Hu Hs. destruct (lie_inputs_well_shaped pol maxf s ys Hp Hc Hu Hs) as (zs & Hz & Hok & Hl & Hsh).
  assert (Hne : zs <> []).
  { intros ->. cbn in Hl. destruct ys; [discriminate | discriminate]. }
  destruct (lie_finite strat zs Hne Hok) as [A B].
  exists (lie_of strat zs). unfold ask_lie. rewrite Hz.
  unfold ok_lie_inputs in Hok. apply andb_true_iff in Hok. destruct Hok as [Hw _]. rewrite Hw.
  repeat split; [exact A|]. rewrite B. destruct zs as [|t r]; [congruence|]. cbn. apply Hsh. left. reflexivity.
Qed.

(* ---------- the model passes its own oracles ---------- *)
Lemma model_rows_ok k o : ok_row k o (on_done true o) = true.
Proof. apply ok_row_spec. intros H. apply rows_marked_failed. exact H. Qed.

Lemma pinned_row_oracle_refuted : exists k o, ok_row k o (on_done false o) = false.
Proof. exists 2%nat, (OTup [ENum (Fin 2); ENum NaN]). reflexivity. Qed.
