(* Entry points for the extracted driver: data -> data.
   fnum : [0; num; den] Fin (num/den) (den missing or 0 = 1) | [1] NaN | [2] +inf | [3] -inf
   elem : [0; fnum] number | [1; token; isF] string            obj : [0; elem] scalar | [1; [elem...]] tuple/list
   told : [0; fnum] | [1; [fnum...]] | [2] the failure marker *)
From Coq Require Import List ZArith QArith Bool.
Import ListNotations.
Require Import DH.Common.Data DH.C06_Failures.Model DH.C06_Failures.Check.
Open Scope Z_scope.

Definition d_Q (n d : data) : Q := Qmake (dZ n) (if dZ d <=? 0 then 1%positive else Z.to_pos (dZ d)).
Definition d_fnum (d : data) : fnum :=
  let k := dZ (dnth 0 d) in
  if k =? 0 then Fin (d_Q (dnth 1 d) (dnth 2 d)) else if k =? 1 then NaN else if k =? 2 then PInf else NInf.
Definition e_fnum (x : fnum) : data :=
  match x with
  | Fin q => L [I 0; I (Qnum q); I (Zpos (Qden q))]
  | NaN => L [I 1] | PInf => L [I 2] | NInf => L [I 3]
  end.
Definition d_elem (d : data) : elem :=
  if dZ (dnth 0 d) =? 0 then ENum (d_fnum (dnth 1 d)) else EStr (dZ (dnth 1 d)) (dbool (dnth 2 d)).
Definition e_elem (e : elem) : data :=
  match e with ENum x => L [I 0; e_fnum x] | EStr t f => L [I 1; I t; ebool f] end.
Definition d_obj (d : data) : obj :=
  if dZ (dnth 0 d) =? 0 then OScal (d_elem (dnth 1 d)) else OTup (dmap d_elem (dnth 1 d)).
Definition e_obj (o : obj) : data :=
  match o with OScal e => L [I 0; e_elem e] | OTup l => L [I 1; elist e_elem l] end.
Definition d_told (d : data) : told :=
  let k := dZ (dnth 0 d) in
  if k =? 0 then TNum (d_fnum (dnth 1 d)) else if k =? 1 then TVec (dmap d_fnum (dnth 1 d)) else TFail.
Definition e_told (t : told) : data :=
  match t with TNum x => L [I 0; e_fnum x] | TVec v => L [I 1; elist e_fnum v] | TFail => L [I 2] end.

Definition d_policy (d : data) : policy := let k := dZ d in if k =? 0 then PMin else if k =? 1 then PMean else PIgnore.
Definition d_opolicy (d : data) : opolicy := let k := dZ d in if k =? 0 then OMean else if k =? 1 then OMax else OOther.
Definition d_liar (d : data) : liar := let k := dZ d in if k =? 0 then CLMin else if k =? 1 then CLMean else CLMax.
Definition d_weights (d : data) : list Q := dmap (fun x => d_Q (dnth 0 x) (dnth 1 x)) d.
Definition e_optl {A} (f : A -> data) (o : option (list A)) : data := eopt (elist f) o.

(* 605: the optimizer alone, told values given: after every tell [ninit; fit due; fit input ([] = ExhaustedFailures)] *)
Fixpoint opt_trace (fixed : bool) (pol : opolicy) (maxf : nat) (w : list Q) (st : ostate) (batches : list (list told)) : list data :=
  match batches with
  | [] => []
  | b :: r =>
    let st' := opt_tell st b in
    L [I (ninit st'); ebool (fit_due st'); e_optl e_told (fit_input sc_id (scal_lin_u w) fixed pol maxf (yi st'))]
      :: opt_trace fixed pol maxf w st' r
  end.

Definition d_sobs (d : data) : sobs :=
  mkS (dbool (dnth 0 d)) (dmap dnat (dnth 1 d)) (dmap (dpair dnat (dmap dbool)) (dnth 2 d))
      (dmap (dpair dZ dZ) (dnth 3 d)) (dmap (dmap dZ) (dnth 4 d)) (dmap (dmap dZ) (dnth 5 d)).

Definition e_ostate (st : ostate) : data := L [I (ninit st); elist e_told (yi st)].
Definition d_pop (d : data) : list (Z * obj) := dmap (dpair dZ d_obj) d.

Definition entries : list (Z * (data -> data)) :=
  [ (601, fun d => e_obj (on_done (dbool (dnth 0 d)) (d_obj (dnth 1 d))));
    (602, fun d => ebool (ok_row (dnat (dnth 0 d)) (d_obj (dnth 1 d)) (d_obj (dnth 2 d))));
    (603, fun d => elist e_told (cbo_tell (d_policy (dnth 0 d)) (dmap d_obj (dnth 1 d))));
    (604, fun d => e_optl e_told (filter_failures (dbool (dnth 0 d)) (d_opolicy (dnth 1 d)) (dnat (dnth 2 d)) (dmap d_told (dnth 3 d))));
    (605, fun d => L (opt_trace (dbool (dnth 0 d)) (d_opolicy (dnth 1 d)) (dnat (dnth 2 d)) (d_weights (dnth 4 d))
                                (mkO [] (dZ (dnth 3 d))) (dmap (dmap d_told) (dnth 5 d))));
    (606, fun d => ebool (ok_fit (dmap d_told d)));
    (607, fun d => ebool (ok_lie_inputs (dmap d_told d)));
    (608, fun d => enat (ok_search (d_sobs d)));
    (609, fun d => elist (epair eZ e_obj) (regevo_run (dbool (dnth 0 d)) (dnat (dnth 1 d)) (dmap d_pop (dnth 2 d))));
    (* 610: the composition on real histories: [fixed; policy; n0; history of gathered batches] -> [ninit; yi] *)
    (610, fun d => e_ostate (run (dbool (dnth 0 d)) (d_policy (dnth 1 d)) (dZ (dnth 2 d)) (dmap (dmap d_obj) (dnth 3 d))));
    (* 611: [fixed; opolicy; maxf; liar; told...] -> [0; lie] | [1] ExhaustedFailures | [2] shape error *)
    (611, fun d => match ask_lie (dbool (dnth 0 d)) (d_opolicy (dnth 1 d)) (dnat (dnth 2 d)) (d_liar (dnth 3 d)) (dmap d_told (dnth 4 d)) with
                   | LieOk y => L [I 0; e_told y] | LieExhausted => L [I 1] | LieShapeError => L [I 2] end);
    (612, fun d => ebool (reported_failure (d_obj d)));
    (* 613: [fixed; policy; n0; checkpoint objectives; history of gathered batches] -> [ninit; yi] after fit_surrogate + the batches *)
    (613, fun d => e_ostate (run_from (dbool (dnth 0 d)) (d_policy (dnth 1 d))
                                      (restart (dbool (dnth 0 d)) (d_policy (dnth 1 d)) (dZ (dnth 2 d)) (dmap d_obj (dnth 3 d)))
                                      (dmap (dmap d_obj) (dnth 4 d)))) ].
