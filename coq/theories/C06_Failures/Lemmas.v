(* C06 - proofs, part 1: refutation witnesses for the pinned code. *)
From Coq Require Import List ZArith QArith Bool Arith Lia.
Import ListNotations.
Require Import DH.C06_Failures.Model.

(* F08: the run-function returns (1, 2) and then (2, nan); pinned _on_done leaves the tuple alone; with n_initial_points = 1,
   policy "min", identity scaler and the linear scalarisation with weights (1, 1) the estimator is fitted on a NaN. *)
Definition f08_hist : list (list obj) :=
  [ [OTup [ENum (Fin 1); ENum (Fin 2)]]; [OTup [ENum (Fin 2); ENum NaN]] ].

Lemma tuple_nan_refuted :
  exists ys, fit_input sc_id (scal_lin [1; 1]) false (opt_policy PMin) 100 (yi (run false PMin 1 f08_hist)) = Some ys /\
             fit_due (run false PMin 1 f08_hist) = true /\ fit_ok ys = false /\ In (TNum NaN) ys.
Proof. eexists. vm_compute. repeat split; auto. Qed.
