(* C06 - proofs, part 1: extended numbers, sanitising (on_done, CBO._tell), the invariant of the optimizer's yi. *)
From Coq Require Import List ZArith QArith Bool Arith Lia.
Import ListNotations.
Require Import DH.C06_Failures.Model.

(* ---------- fnum ---------- *)
Lemma finite_fneg x : finite (fneg x) = finite x.
Proof. destruct x; reflexivity. Qed.

Lemma finite_fadd a b : finite a = true -> finite b = true -> finite (fadd a b) = true.
Proof. destruct a, b; cbn; congruence. Qed.

Lemma finite_fmax a b : finite a = true -> finite b = true -> finite (fmax a b) = true.
Proof. destruct a, b; cbn; try congruence. intros _ _. destruct (Qle_bool q q0); reflexivity. Qed.

Lemma finite_fmin a b : finite a = true -> finite b = true -> finite (fmin a b) = true.
Proof. destruct a, b; cbn; try congruence. intros _ _. destruct (Qle_bool q q0); reflexivity. Qed.

Lemma finite_fscale w a : finite a = true -> finite (fscale w a) = true.
Proof. destruct a; cbn; congruence. Qed.

Lemma finite_fdivn a n : finite a = true -> finite (fdivn a n) = true.
Proof. destruct a; cbn; congruence. Qed.

Lemma finite_fold (f : fnum -> fnum -> fnum) :
  (forall a b, finite a = true -> finite b = true -> finite (f a b) = true) ->
  forall l a, finite a = true -> forallb finite l = true -> finite (fold_left f l a) = true.
Proof.
  intros Hf l. induction l as [|x l IH]; intros a Ha Hl; cbn in *; [exact Ha|].
  apply andb_true_iff in Hl. destruct Hl as [Hx Hl]. apply IH; [apply Hf; assumption | exact Hl].
Qed.

Lemma finite_fsum l : forallb finite l = true -> finite (fsum l) = true.
Proof. intros H. unfold fsum. apply finite_fold; [exact finite_fadd | reflexivity | exact H]. Qed.

Lemma finite_fmean l : forallb finite l = true -> finite (fmean l) = true.
Proof. intros H. unfold fmean. apply finite_fdivn. apply finite_fsum. exact H. Qed.

Lemma finite_fmaxl l : l <> [] -> forallb finite l = true -> finite (fmaxl l) = true.
Proof.
  destruct l as [|x l]; [congruence|]. intros _ H. cbn in H. apply andb_true_iff in H. destruct H as [Hx Hl].
  cbn. apply finite_fold; [exact finite_fmax | exact Hx | exact Hl].
Qed.

Lemma finite_fminl l : l <> [] -> forallb finite l = true -> finite (fminl l) = true.
Proof.
  destruct l as [|x l]; [congruence|]. intros _ H. cbn in H. apply andb_true_iff in H. destruct H as [Hx Hl].
  cbn. apply finite_fold; [exact finite_fmin | exact Hx | exact Hl].
Qed.

Lemma finite_agg pol l : l <> [] -> forallb finite l = true -> finite (agg_of pol l) = true.
Proof. intros Hn H. destruct pol; cbn; [apply finite_fmean; exact H | apply finite_fmaxl; assumption | apply finite_fmaxl; assumption]. Qed.

Lemma finite_lagg s l : l <> [] -> forallb finite l = true -> finite (lagg s l) = true.
Proof. intros Hn H. destruct s; cbn; [apply finite_fminl | apply finite_fmean | apply finite_fmaxl]; assumption. Qed.

(* ---------- filter_map ---------- *)
Lemma in_filter_map {A B} (f : A -> option B) l y : In y (filter_map f l) <-> exists x, In x l /\ f x = Some y.
Proof.
  induction l as [|a l IH]; cbn.
  - split; [tauto | intros (x & [] & _)].
  - destruct (f a) eqn:E; cbn; rewrite IH; split.
    + intros [<-|(x & Hx & Hf)]; [exists a; auto | exists x; auto].
    + intros (x & [<-|Hx] & Hf); [left; congruence | right; exists x; auto].
    + intros (x & Hx & Hf); exists x; auto.
    + intros (x & [<-|Hx] & Hf); [congruence | exists x; auto].
Qed.

Lemma filter_map_app {A B} (f : A -> option B) l1 l2 : filter_map f (l1 ++ l2) = filter_map f l1 ++ filter_map f l2.
Proof. induction l1 as [|a l IH]; cbn; [reflexivity|]. destruct (f a); cbn; rewrite IH; reflexivity. Qed.

(* ---------- what a reported failure becomes ---------- *)
(* the objective of a job that reported a failure is, after the repaired _on_done, a string starting with "F" *)
Lemma on_done_failure o : reported_failure o = true -> exists t, on_done true o = OScal (EStr t true).
Proof.
  destruct o as [e|l]; cbn.
  - destruct e as [x|t f]; cbn.
    + intros H. rewrite H. exists 0%Z. reflexivity.
    + rewrite orb_false_r. intros ->. exists t. reflexivity.
  - intros ->. exists 0%Z. reflexivity.
Qed.

Lemma reported_failure_told ign o : reported_failure o = true ->
  cbo_tell_one ign (on_done true o) = if ign then None else Some TFail.
Proof. intros H. destruct (on_done_failure o H) as (t & ->). reflexivity. Qed.

(* the pinned _on_done handles the scalar kinds *)
Lemma on_done_pinned_scalar e : reported_failure (OScal e) = true -> exists t, on_done false (OScal e) = OScal (EStr t true).
Proof.
  destruct e as [x|t f]; cbn.
  - intros H. rewrite H. exists 0%Z. reflexivity.
  - rewrite orb_false_r. intros ->. exists t. reflexivity.
Qed.

(* ---------- told values are clean ---------- *)
Definition clean (t : told) : bool :=
  match t with TNum x => finite x | TVec v => forallb finite v | TFail => true end.

Lemma forallb_map {A B} (f : A -> B) (p : B -> bool) l : forallb p (map f l) = forallb (fun x => p (f x)) l.
Proof. induction l as [|a l IH]; cbn; [reflexivity | rewrite IH; reflexivity]. Qed.

Lemma told_clean ign o t : cbo_tell_one ign (on_done true o) = Some t -> clean t = true.
Proof.
  destruct o as [e|l]; cbn.
  - destruct e as [x|tok f]; cbn.
    + destruct (finite x) eqn:Ex; cbn.
      * intros H. injection H as <-. cbn. rewrite finite_fneg. exact Ex.
      * destruct ign; intros H; [discriminate | injection H as <-; reflexivity].
    + destruct f; [destruct ign|]; intros H; try discriminate. injection H as <-. reflexivity.
  - destruct (existsb nonfinite_num l) eqn:Ex; cbn.
    + destruct ign; intros H; [discriminate | injection H as <-; reflexivity].
    + destruct (forallb is_num l) eqn:En.
      * intros H. injection H as <-. cbn. rewrite forallb_map. apply forallb_forall. intros e He.
        rewrite finite_fneg.
        assert (Hn : nonfinite_num e = false).
        { destruct (nonfinite_num e) eqn:E; [|reflexivity]. exfalso.
          assert (existsb nonfinite_num l = true) by (apply existsb_exists; exists e; auto). congruence. }
        rewrite forallb_forall in En. specialize (En e He). destruct e; cbn in *; [|discriminate].
        destruct (finite x); [reflexivity | discriminate].
      * destruct (existsb is_F l); [destruct ign|]; intros H; try discriminate. injection H as <-. reflexivity.
Qed.

Lemma told_not_fail_when_ignoring o t : cbo_tell_one true o = Some t -> is_fail t = false.
Proof.
  destruct o as [e|l]; cbn.
  - destruct e as [x|tok f]; [|destruct f]; intros H; try discriminate. injection H as <-. reflexivity.
  - destruct (forallb is_num l); [|destruct (existsb is_F l)]; intros H; try discriminate. injection H as <-. reflexivity.
Qed.

Definition Inv (p : policy) (st : ostate) : Prop :=
  Forall (fun t => clean t = true) (yi st) /\ (ignores p = true -> Forall (fun t => is_fail t = false) (yi st)).

Lemma cbo_tell_inv p batch :
  Forall (fun t => clean t = true) (cbo_tell p (map (on_done true) batch)) /\
  (ignores p = true -> Forall (fun t => is_fail t = false) (cbo_tell p (map (on_done true) batch))).
Proof.
  unfold cbo_tell. split.
  - apply Forall_forall. intros t Ht. apply in_filter_map in Ht. destruct Ht as (o & Ho & Hf).
    apply in_map_iff in Ho. destruct Ho as (o0 & <- & _). eapply told_clean. exact Hf.
  - intros Hi. rewrite Hi. apply Forall_forall. intros t Ht. apply in_filter_map in Ht. destruct Ht as (o & _ & Hf).
    eapply told_not_fail_when_ignoring. exact Hf.
Qed.

Lemma cbo_step_inv p st batch : Inv p st -> Inv p (cbo_step true p st batch).
Proof.
  intros [Hc Hi]. unfold cbo_step. destruct (cbo_tell_inv p batch) as [Hc' Hi'].
  destruct (cbo_tell p (map (on_done true) batch)) as [|y ys] eqn:E; [split; assumption|].
  unfold opt_tell. split; cbn [yi].
  - apply Forall_app. split; assumption.
  - intros H. apply Forall_app. split; auto.
Qed.

Lemma fold_inv p hist : forall st, Inv p st -> Inv p (fold_left (cbo_step true p) hist st).
Proof. induction hist as [|b h IH]; intros st H; cbn; [exact H | apply IH, cbo_step_inv, H]. Qed.

Lemma run_inv p n0 hist : Inv p (run true p n0 hist).
Proof. unfold run. apply fold_inv. split; [constructor | intros _; constructor]. Qed.

(* ---------- n_initial_points accounting ---------- *)
Lemma succ_of_app a b : succ_of (a ++ b) = succ_of a ++ succ_of b.
Proof. unfold succ_of. apply filter_app. Qed.

Definition counted (st : ostate) (n0 : Z) : Prop := ninit st = (n0 - Z.of_nat (length (succ_of (yi st))))%Z.

Lemma cbo_step_counted fixed p n0 st batch : counted st n0 -> counted (cbo_step fixed p st batch) n0.
Proof.
  unfold counted, cbo_step. intros H. destruct (cbo_tell p (map (on_done fixed) batch)) as [|y ys]; [exact H|].
  unfold opt_tell. cbn [yi ninit]. rewrite succ_of_app, app_length, H. lia.
Qed.

Lemma fold_counted fixed p n0 hist : forall st, counted st n0 -> counted (fold_left (cbo_step fixed p) hist st) n0.
Proof. induction hist as [|b h IH]; intros st H; cbn; [exact H | apply IH, cbo_step_counted, H]. Qed.

Lemma run_counted fixed p n0 hist : counted (run fixed p n0 hist) n0.
Proof. unfold run. apply fold_counted. unfold counted. cbn. lia. Qed.

(* yi is the told image of the whole history, in order *)
Lemma cbo_step_yi fixed p st batch : yi (cbo_step fixed p st batch) = yi st ++ cbo_tell p (map (on_done fixed) batch).
Proof.
  unfold cbo_step. destruct (cbo_tell p (map (on_done fixed) batch)) as [|y ys]; [rewrite app_nil_r; reflexivity | reflexivity].
Qed.

Lemma fold_yi fixed p hist : forall st,
  yi (fold_left (cbo_step fixed p) hist st) = yi st ++ cbo_tell p (map (on_done fixed) (concat hist)).
Proof.
  induction hist as [|b h IH]; intros st; cbn.
  - unfold cbo_tell. cbn. rewrite app_nil_r. reflexivity.
  - rewrite IH, cbo_step_yi, map_app. unfold cbo_tell. rewrite filter_map_app, app_assoc. reflexivity.
Qed.

Lemma run_yi fixed p n0 hist : yi (run fixed p n0 hist) = cbo_tell p (map (on_done fixed) (concat hist)).
Proof. unfold run. rewrite fold_yi. reflexivity. Qed.

(* an objective counts as a success for the optimizer when it is a number or a tuple of numbers *)
Definition success_obj (o : obj) : bool :=
  match o with OScal (ENum _) => true | OScal (EStr _ _) => false | OTup l => forallb is_num l end.

Lemma told_success ign o : success_obj o = true -> exists t, cbo_tell_one ign o = Some t /\ is_fail t = false.
Proof.
  destruct o as [[x|tok f]|l]; cbn; try discriminate.
  - intros _. eexists. split; reflexivity.
  - intros ->. eexists. split; reflexivity.
Qed.

Lemma told_not_success ign o t : success_obj o = false -> cbo_tell_one ign o = Some t -> is_fail t = true.
Proof.
  destruct o as [[x|tok f]|l]; cbn; try discriminate.
  - intros _. destruct f; [destruct ign|]; intros H; try discriminate. injection H as <-. reflexivity.
  - intros ->. destruct (existsb is_F l); [destruct ign|]; intros H; try discriminate. injection H as <-. reflexivity.
Qed.

Lemma succ_count ign l : length (succ_of (filter_map (cbo_tell_one ign) l)) = length (filter success_obj l).
Proof.
  unfold succ_of. induction l as [|o l IH]; cbn [filter_map filter length]; [reflexivity|].
  destruct (success_obj o) eqn:Es.
  - destruct (told_success ign o Es) as (t & Ht & Hf). rewrite Ht. cbn [filter]. rewrite Hf. cbn [negb length]. rewrite IH. reflexivity.
  - destruct (cbo_tell_one ign o) as [t|] eqn:Et; [|exact IH].
    cbn [filter]. rewrite (told_not_success ign o t Es Et). cbn [negb]. exact IH.
Qed.

Lemma failure_not_success o : reported_failure o = true -> success_obj (on_done true o) = false.
Proof. intros H. destruct (on_done_failure o H) as (t & ->). reflexivity. Qed.

(* ---------- refutation witnesses for the pinned code ---------- *)
(* F08: the run-function returns (1, 2) and then (2, nan); pinned _on_done leaves the tuple alone; with n_initial_points = 1,
   policy "min", identity scaler and the linear scalarisation with weights (1, 1) the estimator is fitted on a NaN. *)
Definition f08_hist : list (list obj) :=
  [ [OTup [ENum (Fin 1); ENum (Fin 2)]]; [OTup [ENum (Fin 2); ENum NaN]] ].

Lemma tuple_nan_refuted :
  exists ys, fit_input sc_id (scal_lin [1; 1]) false (opt_policy PMin) 100 (yi (run false PMin 1 f08_hist)) = Some ys /\
             fit_due (run false PMin 1 f08_hist) = true /\ fit_ok ys = false /\ In (TNum NaN) ys.
Proof. eexists. vm_compute. repeat split; auto. Qed.
