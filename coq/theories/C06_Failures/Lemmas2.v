(* C06 - proofs, part 2: what the surrogate is fitted on (scalarisation / scaling with failures excluded, imputation). *)
From Coq Require Import List ZArith QArith Bool Arith Lia.
Import ListNotations.
Require Import DH.C06_Failures.Model DH.C06_Failures.Lemmas.

(* the assumed behaviour of the library parts: same length, finite in -> finite out *)
Definition scaler_ok (sc : list fnum -> list fnum) : Prop :=
  forall l, l <> [] -> length (sc l) = length l /\ (forallb finite l = true -> forallb finite (sc l) = true).
Definition scalarizer_ok (scal : list (list fnum) -> list fnum) : Prop :=
  forall vs, vs <> [] -> length (scal vs) = length vs /\ (forallb (forallb finite) vs = true -> forallb finite (scal vs) = true).

Lemma sc_id_ok : scaler_ok sc_id.
Proof. intros l _. split; [reflexivity | auto]. Qed.

Lemma finite_dot w v : forallb finite v = true -> finite (dot w v) = true.
Proof.
  revert v. induction w as [|a w IH]; intros [|x v] H; cbn; try reflexivity.
  cbn in H. apply andb_true_iff in H. destruct H as [Hx Hv].
  apply finite_fadd; [apply finite_fscale; exact Hx | apply IH; exact Hv].
Qed.

Lemma scal_lin_ok w : scalarizer_ok (scal_lin w).
Proof.
  intros vs _. unfold scal_lin. split; [apply map_length|]. intros H. rewrite forallb_map.
  apply forallb_forall. intros v Hv. apply finite_dot. rewrite forallb_forall in H. apply H. exact Hv.
Qed.

Lemma finite_fmin a b : finite a = true -> finite b = true -> finite (fmin a b) = true.
Proof. destruct a, b; cbn; try discriminate; intros _ _. destruct (Qle_bool q q0); reflexivity. Qed.

Lemma finite_fold_fmin l : forall a, finite a = true -> forallb finite l = true -> finite (fold_left fmin l a) = true.
Proof.
  induction l as [|x l IH]; intros a Ha H; [exact Ha|]. cbn in H. apply andb_true_iff in H as [Hx Hl].
  cbn. apply IH; [apply finite_fmin; assumption| exact Hl].
Qed.

Lemma finite_utopia vs : vs <> [] -> forallb (forallb finite) vs = true -> forallb finite (utopia vs) = true.
Proof.
  intros Hne H. unfold utopia. rewrite forallb_map. apply forallb_forall. intros j _.
  destruct vs as [|v vs]; [congruence|]. unfold colz. cbn [map fminl].
  assert (Hn : forall u, In u (v :: vs) -> finite (nth j u (Fin 0)) = true).
  { intros u Hu. rewrite forallb_forall in H. specialize (H u Hu). destruct (Nat.lt_ge_cases j (length u)) as [L|L].
    - rewrite forallb_forall in H. apply H. apply nth_In. exact L.
    - rewrite nth_overflow by exact L. reflexivity. }
  apply finite_fold_fmin; [apply Hn; left; reflexivity|].
  rewrite forallb_map. apply forallb_forall. intros u Hu. apply Hn. right. exact Hu.
Qed.

Lemma finite_fneg a : finite a = true -> finite (fneg a) = true.
Proof. destruct a; cbn; auto. Qed.

Lemma scal_lin_u_ok w : scalarizer_ok (scal_lin_u w).
Proof.
  intros vs Hne. unfold scal_lin_u. split; [apply map_length|]. intros H.
  rewrite forallb_map. apply forallb_forall. intros v Hv.
  apply finite_fadd; [apply finite_dot; rewrite forallb_forall in H; apply H; exact Hv|].
  apply finite_fneg, finite_dot, finite_utopia; assumption.
Qed.

(* after scalarisation every entry is the marker or one finite number *)
Definition scalar_clean (t : told) : bool := match t with TNum x => finite x | TFail => true | TVec _ => false end.

Lemma scatter_spec ys : forall vals, length vals = length (succ_of ys) -> forallb finite vals = true ->
  forallb scalar_clean (scatter ys vals) = true /\ map is_fail (scatter ys vals) = map is_fail ys.
Proof.
  unfold succ_of. induction ys as [|t ys IH]; intros vals Hl Hf; [split; reflexivity|].
  destruct t as [x|v|]; cbn [scatter filter is_fail negb length] in *.
  - destruct vals as [|a vals]; [discriminate|]. cbn in Hf. apply andb_true_iff in Hf. destruct Hf as [Ha Hf].
    injection Hl as Hl. destruct (IH vals Hl Hf) as [I1 I2]. cbn. rewrite Ha, I1, I2. split; reflexivity.
  - destruct vals as [|a vals]; [discriminate|]. cbn in Hf. apply andb_true_iff in Hf. destruct Hf as [Ha Hf].
    injection Hl as Hl. destruct (IH vals Hl Hf) as [I1 I2]. cbn. rewrite Ha, I1, I2. split; reflexivity.
  - destruct (IH vals Hl Hf) as [I1 I2]. cbn. rewrite I1, I2. split; reflexivity.
Qed.

Lemma scatter_nosucc ys vals : succ_of ys = [] ->
  forallb scalar_clean (scatter ys vals) = true /\ map is_fail (scatter ys vals) = map is_fail ys.
Proof.
  unfold succ_of. induction ys as [|t ys IH]; intros H; [split; reflexivity|].
  destruct t as [x|v|]; cbn [filter is_fail negb] in H; try discriminate.
  destruct (IH H) as [I1 I2]. cbn. rewrite I1, I2. split; reflexivity.
Qed.

Lemma succ_clean ys t : Forall (fun t => clean t = true) ys -> In t (succ_of ys) -> clean t = true /\ is_fail t = false.
Proof.
  intros H Ht. unfold succ_of in Ht. apply filter_In in Ht. destruct Ht as [Hi Hn].
  rewrite Forall_forall in H. split; [apply H; exact Hi | destruct (is_fail t); [discriminate | reflexivity]].
Qed.

Section Fit.
  Variable sc : list fnum -> list fnum.
  Variable scal : list (list fnum) -> list fnum.
  Hypothesis Hsc : scaler_ok sc.
  Hypothesis Hscal : scalarizer_ok scal.

  Lemma scalarized_spec ys : Forall (fun t => clean t = true) ys ->
    forallb scalar_clean (scalarized sc scal ys) = true /\ map is_fail (scalarized sc scal ys) = map is_fail ys.
  Proof.
    intros Hc. destruct (succ_of ys) as [|s0 ss] eqn:Es.
    - (* only failures: nothing is scaled, whatever the scaler returns for the empty list *)
      unfold scalarized. destruct (existsb is_vec ys); apply scatter_nosucc; exact Es.
    - assert (Hne : succ_of ys <> []) by (rewrite Es; discriminate). clear Es.
      unfold scalarized. destruct (existsb is_vec ys) eqn:Ev.
      + assert (Hne' : map vec_of (succ_of ys) <> []) by (destruct (succ_of ys); [congruence | discriminate]).
        destruct (Hscal (map vec_of (succ_of ys)) Hne') as [Hl Hf]. apply scatter_spec.
        * rewrite Hl. apply map_length.
        * apply Hf. rewrite forallb_map. apply forallb_forall. intros t Ht.
          destruct (succ_clean ys t Hc Ht) as [Hct Hnf]. destruct t; cbn in *; [rewrite Hct; reflexivity | exact Hct | discriminate].
      + assert (Hne' : map num_of (succ_of ys) <> []) by (destruct (succ_of ys); [congruence | discriminate]).
        destruct (Hsc (map num_of (succ_of ys)) Hne') as [Hl Hf]. apply scatter_spec.
        * rewrite Hl. apply map_length.
        * apply Hf. rewrite forallb_map. apply forallb_forall. intros t Ht.
          destruct (succ_clean ys t Hc Ht) as [Hct Hnf].
          assert (Hv : is_vec t = false).
          { destruct (is_vec t) eqn:E; [|reflexivity]. exfalso.
            assert (existsb is_vec ys = true).
            { apply existsb_exists. exists t. split; [|exact E]. unfold succ_of in Ht. apply filter_In in Ht. tauto. }
            congruence. }
          destruct t; cbn in *; [exact Hct | discriminate | discriminate].
  Qed.
End Fit.

(* ---------- imputation on scalar entries ---------- *)
Lemma same_fail_map a : forall b, map is_fail a = map is_fail b ->
  length a = length b /\ length (succ_of a) = length (succ_of b) /\ has_success a = has_success b /\
  existsb is_fail a = existsb is_fail b.
Proof.
  unfold succ_of, has_success. induction a as [|x a IH]; intros [|y b] H; try discriminate; [repeat split|].
  cbn in H. injection H as Hxy H. destruct (IH b H) as (I1 & I2 & I3 & I4). cbn. rewrite Hxy, I3, I4.
  destruct (is_fail y); cbn; rewrite ?I1, ?I2; repeat split; reflexivity.
Qed.

Lemma has_success_succ ys : has_success ys = true <-> succ_of ys <> [].
Proof.
  unfold has_success, succ_of. induction ys as [|t ys IH]; cbn; [split; [discriminate | congruence]|].
  destruct (is_fail t); cbn; [exact IH | split; [discriminate | reflexivity]].
Qed.

Lemma scalar_clean_succ zs t : forallb scalar_clean zs = true -> In t (succ_of zs) -> exists x, t = TNum x /\ finite x = true.
Proof.
  intros H Ht. unfold succ_of in Ht. apply filter_In in Ht. destruct Ht as [Hi Hn].
  rewrite forallb_forall in H. specialize (H t Hi). destruct t; cbn in *; try discriminate. eauto.
Qed.

Lemma replace_fail_ok v zs : forallb scalar_clean zs = true -> finite v = true ->
  fit_ok (replace_fail (TNum v) zs) = true /\ length (replace_fail (TNum v) zs) = length zs.
Proof.
  intros H Hv. unfold replace_fail, fit_ok. split; [|apply map_length]. rewrite forallb_map.
  apply forallb_forall. intros t Ht. rewrite forallb_forall in H. specialize (H t Ht).
  destruct t; cbn in *; [exact H | discriminate | exact Hv].
Qed.

Lemma imputed_scalar fixed pol ss : ss <> [] -> (forall t, In t ss -> exists x, t = TNum x /\ finite x = true) ->
  exists v, imputed fixed pol ss = TNum v /\ finite v = true.
Proof.
  intros Hne Hs. unfold imputed.
  assert (Hv : existsb is_vec ss = false).
  { destruct (existsb is_vec ss) eqn:E; [|reflexivity]. apply existsb_exists in E. destruct E as (t & Ht & Hvt).
    destruct (Hs t Ht) as (x & -> & _). discriminate. }
  rewrite Hv, andb_false_r. eexists. split; [reflexivity|]. apply finite_agg.
  - destruct ss as [|t ss]; [congruence|]. destruct (Hs t (or_introl eq_refl)) as (x & -> & _). cbn. discriminate.
  - apply forallb_forall. intros x Hx. apply in_flat_map in Hx. destruct Hx as (t & Ht & Hx).
    destruct (Hs t Ht) as (y & -> & Hy). cbn in Hx. destruct Hx as [<-|[]]. exact Hy.
Qed.

Lemma filter_imputes fixed pol maxf zs : pol <> OOther -> succ_of zs <> [] -> forallb scalar_clean zs = true ->
  exists r, filter_failures fixed pol maxf zs = Some r /\ fit_ok r = true /\ length r = length zs.
Proof.
  intros Hp Hs Hc.
  destruct (imputed_scalar fixed pol (succ_of zs) Hs (fun t Ht => scalar_clean_succ zs t Hc Ht)) as (v & Hv & Hfv).
  destruct (replace_fail_ok v zs Hc Hfv) as [Hok Hlen].
  unfold filter_failures. destruct pol; [| |congruence]; destruct (succ_of zs) as [|t ss] eqn:E; try congruence;
    rewrite Hv; eexists; repeat split; assumption.
Qed.

Lemma filter_all_failed fixed pol maxf zs : pol <> OOther -> succ_of zs = [] -> forallb scalar_clean zs = true ->
  (length zs < maxf)%nat ->
  exists r, filter_failures fixed pol maxf zs = Some r /\ fit_ok r = true /\ length r = length zs.
Proof.
  intros Hp Hs Hc Hl. destruct (replace_fail_ok (Fin 0) zs Hc eq_refl) as [Hok Hlen].
  unfold filter_failures. rewrite Hs. replace (maxf <=? length zs)%nat with false by (symmetry; apply Nat.leb_gt; exact Hl).
  destruct pol; [| |congruence]; eexists; repeat split; assumption.
Qed.

Lemma filter_exhausted fixed pol maxf zs :
  filter_failures fixed pol maxf zs = None <-> pol <> OOther /\ succ_of zs = [] /\ (maxf <= length zs)%nat.
Proof.
  unfold filter_failures. destruct pol.
  - destruct (succ_of zs) as [|t ss]; [|split; [discriminate | intros (_ & H & _); discriminate]].
    destruct (maxf <=? length zs)%nat eqn:E.
    + apply Nat.leb_le in E. split; [intros _; repeat split; [discriminate | exact E] | reflexivity].
    + apply Nat.leb_gt in E. split; [discriminate | intros (_ & _ & H); lia].
  - destruct (succ_of zs) as [|t ss]; [|split; [discriminate | intros (_ & H & _); discriminate]].
    destruct (maxf <=? length zs)%nat eqn:E.
    + apply Nat.leb_le in E. split; [intros _; repeat split; [discriminate | exact E] | reflexivity].
    + apply Nat.leb_gt in E. split; [discriminate | intros (_ & _ & H); lia].
  - split; [discriminate | intros (H & _); congruence].
Qed.

Lemma no_fail_fit_ok zs : forallb scalar_clean zs = true -> existsb is_fail zs = false -> fit_ok zs = true.
Proof.
  intros Hc Hf. unfold fit_ok. apply forallb_forall. intros t Ht. rewrite forallb_forall in Hc. specialize (Hc t Ht).
  destruct t; cbn in *; [exact Hc | discriminate |]. exfalso.
  assert (existsb is_fail zs = true) by (apply existsb_exists; exists TFail; auto). congruence.
Qed.

(* after scalarisation both versions of _filter_failures coincide (F25 only concerns the vector case) *)
Lemma imputed_fixed_irrelevant pol ss : existsb is_vec ss = false -> imputed true pol ss = imputed false pol ss.
Proof. intros H. unfold imputed. rewrite H. reflexivity. Qed.

(* ---------- the theorems about the whole pipeline ---------- *)
Section Pipeline.
  Variable sc : list fnum -> list fnum.
  Variable scal : list (list fnum) -> list fnum.
  Hypothesis Hsc : scaler_ok sc.
  Hypothesis Hscal : scalarizer_ok scal.

  Lemma opt_policy_other p : opt_policy p = OOther <-> ignores p = true.
  Proof. destruct p; cbn; split; congruence. Qed.

  (* for every optimizer state whose told values are clean (and hold no failure under "ignore") *)
  Theorem fit_inputs_finite_inv ff p maxf st : Inv p st ->
    has_success (yi st) = true \/ (length (yi st) < maxf)%nat ->
    exists ys, fit_input sc scal ff (opt_policy p) maxf (yi st) = Some ys /\ fit_ok ys = true /\ length ys = length (yi st).
  Proof.
    intros [Hc Hi] H.
    destruct (scalarized_spec sc scal Hsc Hscal (yi st) Hc) as [Hz Hm].
    destruct (same_fail_map _ _ Hm) as (L1 & L2 & L3 & L4).
    unfold fit_input. destruct (ignores p) eqn:Eg.
    - (* "ignore": nothing to impute, no failure ever reached the optimizer *)
      assert (Hp : opt_policy p = OOther) by (apply opt_policy_other; exact Eg). rewrite Hp. cbn [filter_failures].
      eexists. split; [reflexivity|]. split; [|exact L1]. apply no_fail_fit_ok; [exact Hz|]. rewrite L4.
      specialize (Hi eq_refl). destruct (existsb is_fail (yi st)) eqn:E; [|reflexivity].
      apply existsb_exists in E. destruct E as (t & Ht & Hft). rewrite Forall_forall in Hi. rewrite (Hi t Ht) in Hft. discriminate.
    - assert (Hp : opt_policy p <> OOther) by (intros E; apply opt_policy_other in E; congruence).
      destruct (has_success (yi st)) eqn:Es.
      + assert (Hs : succ_of (scalarized sc scal (yi st)) <> []) by (apply has_success_succ; exact L3).
        destruct (filter_imputes ff _ maxf _ Hp Hs Hz) as (r & Hr & Hok & Hl). exists r. repeat split; [exact Hr | exact Hok | lia].
      + destruct H as [H|H]; [discriminate|].
        assert (Hs : succ_of (scalarized sc scal (yi st)) = []).
        { destruct (succ_of (scalarized sc scal (yi st))) eqn:E; [reflexivity|]. exfalso.
          assert (has_success (scalarized sc scal (yi st)) = true) by (apply has_success_succ; rewrite E; discriminate). congruence. }
        assert (Hlt : (length (scalarized sc scal (yi st)) < maxf)%nat) by lia.
        destruct (filter_all_failed ff _ maxf _ Hp Hs Hz Hlt) as (r & Hr & Hok & Hl). exists r. repeat split; [exact Hr | exact Hok | lia].
  Qed.

  Theorem fit_inputs_finite ff p maxf n0 hist :
    let st := run true p n0 hist in
    has_success (yi st) = true \/ (length (yi st) < maxf)%nat ->
    exists ys, fit_input sc scal ff (opt_policy p) maxf (yi st) = Some ys /\ fit_ok ys = true /\ length ys = length (yi st).
  Proof. intros st. apply fit_inputs_finite_inv. apply run_inv. Qed.

  (* the one documented exception *)
  Theorem fit_exhausted_iff_inv ff p maxf st : Inv p st ->
    (fit_input sc scal ff (opt_policy p) maxf (yi st) = None <->
     ignores p = false /\ has_success (yi st) = false /\ (maxf <= length (yi st))%nat).
  Proof.
    intros [Hc Hi].
    destruct (scalarized_spec sc scal Hsc Hscal (yi st) Hc) as [Hz Hm].
    destruct (same_fail_map _ _ Hm) as (L1 & L2 & L3 & L4).
    unfold fit_input. rewrite filter_exhausted, L1. split.
    - intros (Hp & Hs & Hl). repeat split; [| |exact Hl].
      + destruct (ignores p) eqn:E; [|reflexivity]. exfalso. apply Hp. apply opt_policy_other. exact E.
      + rewrite <- L3. destruct (has_success (scalarized sc scal (yi st))) eqn:E; [|reflexivity].
        apply has_success_succ in E. congruence.
    - intros (Hp & Hs & Hl). repeat split; [| |exact Hl].
      + intros E. apply opt_policy_other in E. congruence.
      + destruct (succ_of (scalarized sc scal (yi st))) eqn:E; [reflexivity|]. exfalso.
        assert (has_success (scalarized sc scal (yi st)) = true) by (apply has_success_succ; rewrite E; discriminate). congruence.
  Qed.

  Theorem fit_exhausted_iff ff p maxf n0 hist :
    let st := run true p n0 hist in
    fit_input sc scal ff (opt_policy p) maxf (yi st) = None <->
    ignores p = false /\ has_success (yi st) = false /\ (maxf <= length (yi st))%nat.
  Proof. intros st. apply fit_exhausted_iff_inv. apply run_inv. Qed.
End Pipeline.

(* failures do not count toward n_initial_points; with at least one initial point a fit only happens after a success,
   so ExhaustedFailures cannot be raised by a fit *)
Theorem initial_points_count fixed p n0 hist :
  ninit (run fixed p n0 hist) = (n0 - Z.of_nat (length (filter success_obj (map (on_done fixed) (concat hist)))))%Z.
Proof.
  pose proof (run_counted fixed p n0 hist) as H. unfold counted in H. rewrite H, run_yi. unfold cbo_tell. rewrite succ_count. reflexivity.
Qed.

Theorem no_exhaustion fixed p n0 hist :
  (1 <= n0)%Z -> fit_due (run fixed p n0 hist) = true -> has_success (yi (run fixed p n0 hist)) = true.
Proof.
  intros Hn Hd. unfold fit_due in Hd. apply Z.leb_le in Hd.
  pose proof (run_counted fixed p n0 hist) as H. unfold counted in H.
  apply has_success_succ. intros E. rewrite E in H. cbn in H. lia.
Qed.
