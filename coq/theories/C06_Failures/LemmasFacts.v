(* C06 - the translator facts (Generated/Facts_C06.v, regenerated from the source on every run) against the model. *)
From Coq Require Import List ZArith Bool String Ascii.
Import ListNotations.
Require Import DH.C06_Failures.Model.
Require DH.Generated.Facts_C06.
Module F := DH.Generated.Facts_C06.
Open Scope string_scope.

Definition starts_with_F (s : string) : bool :=
  match s with String c _ => Ascii.eqb c "F"%char | EmptyString => false end.
Definition smem (s : string) (l : list string) : bool := existsb (String.eqb s) l.
Fixpoint slookup (s : string) (m : list (string * string)) : string :=
  match m with [] => s | (k, v) :: r => if String.eqb s k then v else slookup s r end.

(* what the code does with CBO(filter_failures = n): the optimizer is configured with m = MAP_filter_failures.get(n, n);
   Optimizer._filter_failures imputes the mean when m is the "mean" literal, the max when m is another member of its
   option list, and returns its input unchanged otherwise; CBO._tell drops failures when m is the "ignore" literal *)
Definition resolve (n : string) : opolicy * bool :=
  let m := slookup n F.map_filter_failures in
  (if smem m F.opt_impute_names then (if smem m F.opt_mean_literals then OMean else OMax) else OOther,
   smem m F.cbo_ignore_literals).

Definition policy_name (p : policy) : string := match p with PMin => "min" | PMean => "mean" | PIgnore => "ignore" end.
Definition policies : list policy := [PMin; PMean; PIgnore].
Definition opol_eqb (a b : opolicy) : bool :=
  match a, b with OMean, OMean => true | OMax, OMax => true | OOther, OOther => true | _, _ => false end.
Definition behaves_as (n : string) (p : policy) : bool :=
  opol_eqb (fst (resolve n)) (opt_policy p) && Bool.eqb (snd (resolve n)) (ignores p).
(* every option value the code distinguishes *)
Definition distinguished_names : list string := map fst F.map_filter_failures ++ F.opt_impute_names ++ F.cbo_ignore_literals.
Definition nonempty {A} (l : list A) : bool := match l with [] => false | _ => true end.

Lemma markers :
  F.srcfacts_ok = true /\
  (* one marker: Evaluator.FAIL_RETURN_VALUE, what CBO._tell hands to the optimizer, what the optimizer tests for *)
  F.fail_return_value = F.objective_value_failure /\
  nonempty F.cbo_tell_told = true /\ nonempty F.opt_failure_literals = true /\
  forallb (String.eqb F.objective_value_failure) (F.cbo_tell_told ++ F.opt_failure_literals) = true /\
  (* the marker itself is recognised as a failure by the prefix test of CBO._tell, which is "starts with F" *)
  starts_with_F F.objective_value_failure = true /\
  nonempty F.cbo_tell_prefixes = true /\ forallb (String.eqb "F") F.cbo_tell_prefixes = true /\
  (* the three policies of the model are the documented option values, and every value the code distinguishes
     behaves as one of them *)
  forallb (fun p => behaves_as (policy_name p) p) policies = true /\
  forallb (fun n => existsb (behaves_as n) policies) distinguished_names = true /\
  F.cbo_default_filter_failures = policy_name PMin /\
  (* CBO.fit_surrogate tells the same marker for the failed rows of a checkpoint and tests the policy with the same literal *)
  nonempty F.fit_surrogate_told = true /\ forallb (String.eqb F.objective_value_failure) F.fit_surrogate_told = true /\
  forallb (fun s => smem s F.cbo_ignore_literals) F.fit_surrogate_policy_literals = true.
Proof. vm_compute. repeat split; reflexivity. Qed.
