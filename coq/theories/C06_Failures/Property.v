(* C06 - Failed evaluations are contained: recorded as failures, never fatal.  Property theorems only.

   [run fixed p n0 hist]: the optimizer's state (yi, remaining initial points) after the gathered batches [hist] went through
   Evaluator._on_done, CBO._tell (policy p) and Optimizer.tell.  fixed = true is the code with the repairs F08 / F25,
   fixed = false the pinned code.  [fit_input sc scal ff pol maxf yi]: the y handed to the surrogate's fit
   (None = ExhaustedFailures), for ANY objective scaler sc and scalarisation scal that keep lengths and finiteness. *)
From Coq Require Import List ZArith QArith Bool Arith String.
Import ListNotations.
Require Import DH.C06_Failures.Model DH.C06_Failures.Lemmas DH.C06_Failures.Lemmas2 DH.C06_Failures.Check DH.C06_Failures.Lemmas3 DH.C06_Failures.Lemmas4.
Require DH.C06_Failures.LemmasFacts.
Module LF := DH.C06_Failures.LemmasFacts.
Module F := DH.Generated.Facts_C06.

(* ---- translator facts: the markers and option tables of the source are the ones the model is written for ---- *)
Theorem C06_markers :
  F.srcfacts_ok = true /\
  F.fail_return_value = F.objective_value_failure /\
  LF.nonempty F.cbo_tell_told = true /\ LF.nonempty F.opt_failure_literals = true /\
  forallb (String.eqb F.objective_value_failure) (F.cbo_tell_told ++ F.opt_failure_literals) = true /\
  LF.starts_with_F F.objective_value_failure = true /\
  LF.nonempty F.cbo_tell_prefixes = true /\ forallb (String.eqb "F") F.cbo_tell_prefixes = true /\
  forallb (fun p => LF.behaves_as (LF.policy_name p) p) LF.policies = true /\
  forallb (fun n => existsb (LF.behaves_as n) LF.policies) LF.distinguished_names = true /\
  F.cbo_default_filter_failures = LF.policy_name PMin /\
  LF.nonempty F.fit_surrogate_told = true /\ forallb (String.eqb F.objective_value_failure) F.fit_surrogate_told = true /\
  forallb (fun s => LF.smem s F.cbo_ignore_literals) F.fit_surrogate_policy_literals = true.
Proof. exact LF.markers. Qed.
Print Assumptions C06_markers.

(* ---- every value handed to the surrogate is a finite number: all histories, all three policies, single / multi
        objective; the one exception (only failures so far, at least max_failures of them) is in the hypothesis ---- *)
Theorem C06_fit_inputs_finite :
  forall sc scal, scaler_ok sc -> scalarizer_ok scal ->
  forall (ff : bool) p maxf n0 hist,
    let st := run true p n0 hist in
    has_success (yi st) = true \/ (List.length (yi st) < maxf)%nat ->
    exists ys, fit_input sc scal ff (opt_policy p) maxf (yi st) = Some ys /\ fit_ok ys = true /\
               List.length ys = List.length (yi st).
Proof. exact fit_inputs_finite. Qed.
Print Assumptions C06_fit_inputs_finite.

(* ExhaustedFailures is raised exactly in the documented case *)
Theorem C06_exhausted_iff :
  forall sc scal, scaler_ok sc -> scalarizer_ok scal ->
  forall (ff : bool) p maxf n0 hist,
    let st := run true p n0 hist in
    fit_input sc scal ff (opt_policy p) maxf (yi st) = None <->
    ignores p = false /\ has_success (yi st) = false /\ (maxf <= List.length (yi st))%nat.
Proof. exact fit_exhausted_iff. Qed.
Print Assumptions C06_exhausted_iff.

(* ... and it is unreachable from a fit when the search has at least one initial point *)
Theorem C06_no_exhaustion : forall fixed p n0 hist,
  (1 <= n0)%Z -> fit_due (run fixed p n0 hist) = true -> has_success (yi (run fixed p n0 hist)) = true.
Proof. exact no_exhaustion. Qed.
Print Assumptions C06_no_exhaustion.

(* the hypotheses on the library parts are satisfiable: the instances used by the correspondence *)
Theorem C06_instances : scaler_ok sc_id /\ (forall w, scalarizer_ok (scal_lin w)) /\ (forall w, scalarizer_ok (scal_lin_u w)).
Proof. exact (conj sc_id_ok (conj scal_lin_ok scal_lin_u_ok)). Qed.
Print Assumptions C06_instances.

(* ---- a job that reported a failure of any of the four kinds has a failure string in its objective cell(s) ---- *)
Theorem C06_rows_marked_failed : forall k o, reported_failure o = true ->
  cells k (on_done true o) <> [] /\ Forall (fun c => is_F c = true) (cells k (on_done true o)).
Proof. exact rows_marked_failed. Qed.
Print Assumptions C06_rows_marked_failed.

(* the pinned code does so for the scalar kinds *)
Theorem C06_rows_marked_pinned_scalar : forall k e, reported_failure (OScal e) = true ->
  cells k (on_done false (OScal e)) <> [] /\ Forall (fun c => is_F c = true) (cells k (on_done false (OScal e))).
Proof. exact rows_marked_pinned_scalar. Qed.
Print Assumptions C06_rows_marked_pinned_scalar.

(* ---- the text of a failure label does not influence the optimizer's inputs (hence nothing proposed later) ---- *)
Theorem C06_label_irrelevant : forall fixed p n0 h h',
  Forall2 (Forall2 relabelled) h h' -> run fixed p n0 h = run fixed p n0 h'.
Proof. exact label_irrelevant. Qed.
Print Assumptions C06_label_irrelevant.

Theorem C06_relabel_irrelevant : forall rho fixed p n0 h,
  run fixed p n0 (map (map (relabel rho)) h) = run fixed p n0 h.
Proof. exact relabel_irrelevant. Qed.
Print Assumptions C06_relabel_irrelevant.

(* neither does the kind of failure (string, nan, +-inf, non-finite inside a tuple) *)
Theorem C06_failure_kind_irrelevant : forall p n0 h h',
  Forall2 (Forall2 fail_equiv) h h' -> run true p n0 h = run true p n0 h'.
Proof. exact failure_kind_irrelevant. Qed.
Print Assumptions C06_failure_kind_irrelevant.

(* ---- failures do not count toward n_initial_points ---- *)
Theorem C06_initial_points_count : forall fixed p n0 hist,
  ninit (run fixed p n0 hist) = (n0 - Z.of_nat (List.length (filter success_obj (map (on_done fixed) (List.concat hist)))))%Z.
Proof. exact initial_points_count. Qed.
Print Assumptions C06_initial_points_count.

Theorem C06_failure_is_not_counted : forall o, reported_failure o = true -> success_obj (on_done true o) = false.
Proof. exact failure_not_success. Qed.
Print Assumptions C06_failure_is_not_counted.

(* ---- RegularizedEvolution: no failure enters the population; failure kinds and labels are irrelevant ---- *)
Theorem C06_regevo_population_ok : forall cap hist,
  Forall (fun r => is_str (snd r) = false /\ reported_failure (snd r) = false) (regevo_run true cap hist).
Proof. exact regevo_population_ok. Qed.
Print Assumptions C06_regevo_population_ok.

Theorem C06_regevo_kind_irrelevant : forall cap h h',
  Forall2 (Forall2 (fun r r' => fst r = fst r' /\ fail_equiv (snd r) (snd r'))) h h' -> regevo_run true cap h = regevo_run true cap h'.
Proof. exact regevo_kind_irrelevant. Qed.
Print Assumptions C06_regevo_kind_irrelevant.

(* ---- the constant-liar lie of a multi-point ask is computed from a rectangular finite list and is finite ---- *)
Theorem C06_ask_lie_ok : forall pol maxf strat s ys,
  pol <> OOther -> Forall (fun t => clean t = true) ys -> uniform s ys = true -> has_success ys = true ->
  exists y, ask_lie true pol maxf strat ys = LieOk y /\ finite_told y = true /\ shape y = Some s.
Proof. exact ask_lie_ok. Qed.
Print Assumptions C06_ask_lie_ok.

Theorem C06_lie_inputs_well_shaped : forall pol maxf s ys,
  pol <> OOther -> Forall (fun t => clean t = true) ys -> uniform s ys = true -> has_success ys = true ->
  exists zs, filter_failures true pol maxf ys = Some zs /\ ok_lie_inputs zs = true /\ List.length zs = List.length ys /\
             (forall t, In t zs -> shape t = Some s).
Proof. exact lie_inputs_well_shaped. Qed.
Print Assumptions C06_lie_inputs_well_shaped.

(* ---- several search() calls on one object: the state is the run over the concatenated histories (nothing is reset),
        so the theorems above hold at every point of every call ---- *)
Theorem C06_calls_compose : forall fixed p n0 calls,
  run fixed p n0 (List.concat calls) = fold_left (run_from fixed p) calls (mkO [] n0).
Proof. exact calls_compose_many. Qed.
Print Assumptions C06_calls_compose.

(* ---- a search continued from a checkpoint with failed rows (CBO.fit_surrogate, n_initial_points = 0): finite fit
        inputs at every later point, for every policy; the exception is again in the hypothesis ---- *)
Theorem C06_restart_fit_inputs_finite :
  forall sc scal, scaler_ok sc -> scalarizer_ok scal ->
  forall (ff : bool) p maxf n0 raw hist,
    let st := run_from true p (restart true p n0 (map (on_done true) raw)) hist in
    has_success (yi st) = true \/ (List.length (yi st) < maxf)%nat ->
    exists ys, fit_input sc scal ff (opt_policy p) maxf (yi st) = Some ys /\ fit_ok ys = true /\
               List.length ys = List.length (yi st).
Proof. exact restart_fit_inputs_finite. Qed.
Print Assumptions C06_restart_fit_inputs_finite.

Theorem C06_restart_label_irrelevant : forall fixed p n0 objs objs',
  Forall2 relabelled objs objs' -> restart fixed p n0 objs = restart fixed p n0 objs'.
Proof. exact restart_label_irrelevant. Qed.
Print Assumptions C06_restart_label_irrelevant.

(* ---- the pinned code ---- *)
(* F08: (1, 2) then (2, nan), n_initial_points = 1, "min", identity scaler, linear scalarisation: the fit receives NaN *)
Theorem C06_tuple_nan_refuted :
  exists ys, fit_input sc_id (scal_lin [1; 1]) false (opt_policy PMin) 100 (yi (run false PMin 1 f08_hist)) = Some ys /\
             fit_due (run false PMin 1 f08_hist) = true /\ fit_ok ys = false /\ In (TNum NaN) ys.
Proof. exact tuple_nan_refuted. Qed.
Print Assumptions C06_tuple_nan_refuted.

Theorem C06_tuple_row_refuted : exists k o, reported_failure o = true /\
  ~ (cells k (on_done false o) <> [] /\ Forall (fun c => is_F c = true) (cells k (on_done false o))).
Proof. exact tuple_row_refuted. Qed.
Print Assumptions C06_tuple_row_refuted.

(* F25: a failed point among 2-objective points: the list the lie is computed from is ragged *)
Theorem C06_cl_lie_refuted : ask_lie false OMean 100 CLMean [TVec [Fin 1; Fin 2]; TFail] = LieShapeError.
Proof. exact cl_lie_refuted. Qed.
Print Assumptions C06_cl_lie_refuted.

(* F72: pinned fit_surrogate under "ignore": checkpoint rows 1.0 and 'F': the marker is handed to the estimator *)
Theorem C06_restart_ignore_refuted :
  let st := restart false PIgnore 10 [OScal (ENum (Fin 1)); OScal (EStr 0 true)] in
  fit_due st = true /\
  exists ys, fit_input sc_id (scal_lin []) false (opt_policy PIgnore) 100 (yi st) = Some ys /\ fit_ok ys = false /\ In TFail ys.
Proof. exact restart_ignore_refuted. Qed.
Print Assumptions C06_restart_ignore_refuted.

(* ---- the oracles applied to observed runs ---- *)
Theorem C06_oracle_search : forall o, ok_search o = 0%nat <-> search_spec o.
Proof. exact ok_search_spec. Qed.
Print Assumptions C06_oracle_search.

Theorem C06_oracle_row : forall k o o', ok_row k o o' = true <->
  (reported_failure o = true -> cells k o' <> [] /\ Forall (fun c => is_F c = true) (cells k o')).
Proof. exact ok_row_spec. Qed.
Print Assumptions C06_oracle_row.

Theorem C06_oracle_fit : forall ys, ok_fit ys = true <-> Forall (fun t => exists x, t = TNum x /\ finite x = true) ys.
Proof. exact ok_fit_spec. Qed.
Print Assumptions C06_oracle_fit.

Theorem C06_model_rows_ok : forall k o, ok_row k o (on_done true o) = true.
Proof. exact model_rows_ok. Qed.
Print Assumptions C06_model_rows_ok.

(* ---- non-vacuity ---- *)
(* single objective, "mean": success, 'F_x', nan, +inf, success: a fit is due and receives five finite numbers *)
Example C06_example_single :
  let h := [[OScal (ENum (Fin 1))]; [OScal (EStr 7 true)]; [OScal (ENum NaN)]; [OScal (ENum PInf)]; [OScal (ENum (Fin 3))]] in
  fit_due (run true PMean 2 h) = true /\ has_success (yi (run true PMean 2 h)) = true /\
  exists ys, fit_input sc_id (scal_lin []) true (opt_policy PMean) 100 (yi (run true PMean 2 h)) = Some ys /\
             fit_ok ys = true /\ List.length ys = 5%nat.
Proof. cbn zeta. split; [reflexivity|]. split; [reflexivity|]. eexists. vm_compute. auto. Qed.

(* two objectives, "min", failures first (string, then nan inside a tuple), then two successes *)
Example C06_example_multi :
  let h := [[OScal (EStr 3 true)]; [OTup [ENum (Fin 2); ENum NaN]]; [OTup [ENum (Fin 1); ENum (Fin 2)]; OTup [ENum (Fin 3); ENum (Fin 1)]]] in
  fit_due (run true PMin 2 h) = true /\
  exists ys, fit_input sc_id (scal_lin [1 # 2; 1 # 2]) true (opt_policy PMin) 100 (yi (run true PMin 2 h)) = Some ys /\
             fit_ok ys = true /\ List.length ys = 4%nat.
Proof. cbn zeta. split; [reflexivity|]. eexists. vm_compute. auto. Qed.

(* only failures, fewer than max_failures, no initial point left (n_initial_points = 0): the fit receives zeros;
   with max_failures reached the documented exception is raised *)
Example C06_example_only_failures :
  let h := [[OScal (EStr 3 true)]; [OScal (ENum NInf)]] in
  (exists ys, fit_input sc_id (scal_lin []) true (opt_policy PMin) 3 (yi (run true PMin 0 h)) = Some ys /\ fit_ok ys = true) /\
  fit_input sc_id (scal_lin []) true (opt_policy PMin) 2 (yi (run true PMin 0 h)) = None.
Proof. cbn zeta. split; [eexists; vm_compute; auto | reflexivity]. Qed.

(* relabelling: two histories that differ in the text of the labels only *)
Example C06_example_relabel :
  Forall2 (Forall2 relabelled) [[OScal (EStr 1 true); OScal (ENum (Fin 2))]] [[OScal (EStr 9 true); OScal (ENum (Fin 2))]].
Proof. repeat constructor. Qed.

(* the lie of a 2-point ask: 2-objective points with a failure in between *)
Example C06_example_lie :
  exists y, ask_lie true OMax 100 CLMin [TVec [Fin 1; Fin 2]; TFail; TVec [Fin 3; Fin 0]] = LieOk y /\ finite_told y = true.
Proof. eexists. vm_compute. auto. Qed.

(* a checkpoint holding only failed rows, "min": the repaired code fits on zeros (no scaler call) and carries on *)
Example C06_example_restart_all_failed :
  let st := restart true PMin 10 (map (on_done true) [OScal (EStr 4 true); OScal (ENum NaN)]) in
  fit_due st = true /\ has_success (yi st) = false /\
  exists ys, fit_input sc_id (scal_lin []) true (opt_policy PMin) 100 (yi st) = Some ys /\ fit_ok ys = true /\ List.length ys = 2%nat.
Proof. cbn zeta. split; [reflexivity|]. split; [reflexivity|]. eexists. vm_compute. auto. Qed.
