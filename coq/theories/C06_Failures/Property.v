(* C06 - Failed evaluations are contained.  Property theorems only. *)
From Coq Require Import List ZArith QArith Bool Arith.
Import ListNotations.
Require Import DH.C06_Failures.Model DH.C06_Failures.Lemmas DH.C06_Failures.Check.

Theorem C06_tuple_nan_refuted :
  exists ys, fit_input sc_id (scal_lin [1; 1]) false (opt_policy PMin) 100 (yi (run false PMin 1 f08_hist)) = Some ys /\
             fit_due (run false PMin 1 f08_hist) = true /\ fit_ok ys = false /\ In (TNum NaN) ys.
Proof. exact tuple_nan_refuted. Qed.
Print Assumptions C06_tuple_nan_refuted.
