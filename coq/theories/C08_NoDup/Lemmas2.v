(* C08: every accepted event whose hypothesis code is 0 or 1 extends [sampled] by a chain of admissible picks *)
From Coq Require Import List ZArith Bool Arith Lia Permutation.
Import ListNotations.
Require Import DH.Common.ListSet DH.C08_NoDup.Model DH.C08_NoDup.Check DH.C08_NoDup.Lemmas.
Open Scope Z_scope.

Definition Gh (Q : list Z -> Prop) (h : nat) : list Z -> list Z -> Prop :=
  fun s c => Q c /\ (h = 0%nat -> has_new s c = true).

(* what is known about a pending _next_x: its candidate sample satisfies Q; if no ask happened since, the history it was
   filtered against is the current one *)
Definition InvS (Q : list Z -> Prop) (s : st) : Prop :=
  forall c sf, next s = Pending c sf -> Q c /\ (fresh s = true -> sf = sampled s).

Lemma worst_le1 a b : (worst a b <= 1)%nat -> (a <= 1)%nat /\ (b <= 1)%nat.
Proof.
  unfold worst. destruct (Nat.leb 2 a) eqn:Ea; [apply Nat.leb_le in Ea; lia|].
  destruct (Nat.leb 2 b) eqn:Eb; [apply Nat.leb_le in Eb; lia|].
  apply Nat.leb_gt in Ea, Eb. lia.
Qed.

Lemma worst_0 a b : worst a b = 0%nat -> a = 0%nat /\ b = 0%nat.
Proof.
  unfold worst. destruct (Nat.leb 2 a) eqn:Ea; [apply Nat.leb_le in Ea; lia|].
  destruct (Nat.leb 2 b) eqn:Eb; [apply Nat.leb_le in Eb; lia|]. lia.
Qed.

Lemma worst_le1_intro a b : (a <= 1)%nat -> (b <= 1)%nat -> (worst a b <= 1)%nat.
Proof.
  intros Ha Hb. unfold worst. destruct (Nat.leb 2 a) eqn:Ea; [apply Nat.leb_le in Ea; lia|].
  destruct (Nat.leb 2 b) eqn:Eb; [apply Nat.leb_le in Eb; lia|]. lia.
Qed.

Lemma hyp_pick_le1 c s cand : (hyp_pick c s cand <= 1)%nat -> free_opt c && negb (fixed c) = false.
Proof. unfold hyp_pick. destruct (free_opt c && negb (fixed c)); [lia| reflexivity]. Qed.

Lemma hyp_pick_0 c s cand : hyp_pick c s cand = 0%nat -> has_new s cand = true.
Proof. unfold hyp_pick. destruct (free_opt c && negb (fixed c)); [discriminate|]. destruct (has_new s cand); [reflexivity| discriminate]. Qed.

Lemma hyp_pick_le1_intro c s cand : free_opt c && negb (fixed c) = false -> (hyp_pick c s cand <= 1)%nat.
Proof. intros H. unfold hyp_pick. rewrite H. destruct (has_new s cand); lia. Qed.

Lemma pick_ok_sound c s cand x : free_opt c && negb (fixed c) = false -> pick_ok c s cand x = true -> PickOK s cand x.
Proof.
  intros Hf. unfold pick_ok. intros H. apply orb_true_iff in H as [H|H]; [left; apply memz_In; exact H|].
  right. apply andb_true_iff in H as [H1 H2]. rewrite H1 in Hf. cbn in Hf. rewrite Hf in H2. cbn in H2.
  apply memz_false. destruct (memz x s); [discriminate| reflexivity].
Qed.

Lemma chain_fn_sound c (Q : list Z -> Prop) : forall xs s cs h, chain c s cs xs = Some h -> (h <= 1)%nat -> Forall Q cs -> Chain (Gh Q h) s xs.
Proof.
  induction xs as [|x xs IH]; intros s cs h H Hle HQ; destruct cs as [|cand cs]; cbn [chain] in H; try discriminate.
  - constructor.
  - destruct (pick_ok c s cand x) eqn:Ep; [|discriminate].
    destruct (chain c (s ++ [x]) cs xs) as [h'|] eqn:Ec; [|discriminate]. injection H as <-.
    apply worst_le1 in Hle as [H1 H2]. inversion HQ as [|? ? Hq HQ']; subst.
    apply (Chain_cons _ s cand).
    + apply (pick_ok_sound c); [exact (hyp_pick_le1 _ _ _ H1)| exact Ep].
    + split; [exact Hq|]. intros E. apply worst_0 in E as [E _]. exact (hyp_pick_0 _ _ _ E).
    + apply (chain_weaken (Gh Q h')); [|exact (IH _ _ _ Ec H2 HQ')].
      intros s0 c0 [A B]. split; [exact A|]. intros E. apply worst_0 in E as [_ E]. exact (B E).
Qed.

Lemma chain_fn_le1 c : free_opt c && negb (fixed c) = false -> forall xs s cs h, chain c s cs xs = Some h -> (h <= 1)%nat.
Proof.
  intros Hf. induction xs as [|x xs IH]; intros s cs h H; destruct cs as [|cand cs]; cbn [chain] in H; try discriminate.
  - injection H as <-. lia.
  - destruct (pick_ok c s cand x); [|discriminate].
    destruct (chain c (s ++ [x]) cs xs) as [h'|] eqn:Ec; [|discriminate]. injection H as <-.
    apply worst_le1_intro; [apply hyp_pick_le1_intro; exact Hf| exact (IH _ _ _ Ec)].
Qed.

Lemma eqlz_eq : forall a b, eqlz a b = true -> a = b.
Proof.
  induction a as [|x a IH]; intros [|y b] H; cbn in H; try discriminate; [reflexivity|].
  apply andb_true_iff in H as [H1 H2]. apply Z.eqb_eq in H1. rewrite (IH _ H2), H1. reflexivity.
Qed.

(* the head of the filtered sample, and more generally any prefix of it, is a chain *)
Lemma chain_news_prefix (Q : list Z -> Prop) (h : nat) c : Q c -> forall l s, NoDup l -> (forall x, In x l -> In x c /\ ~ In x s) -> Chain (Gh Q h) s l.
Proof.
  intros Hq. induction l as [|x l IH]; intros s Hnd H; [constructor|].
  inversion Hnd as [|? ? Hx Hl]; subst. destruct (H x (or_introl eq_refl)) as [H1 H2].
  apply (Chain_cons _ s c).
  - right. exact H2.
  - split; [exact Hq|]. intros _. apply has_new_true. exists x. split; assumption.
  - apply IH; [exact Hl|]. intros y Hy. destruct (H y (or_intror Hy)) as [A B]. split; [exact A|].
    intros Hin. apply in_app_or in Hin as [Hin|[<-|[]]]; [exact (B Hin)| exact (Hx Hy)].
Qed.

Lemma chain_fallback (Q : list Z -> Prop) c : Q c -> forall l s, has_new s c = false -> incl l c -> Chain (Gh Q 1) s l.
Proof.
  intros Hq. induction l as [|x l IH]; intros s Hn Hi; [constructor|].
  apply (Chain_cons _ s c).
  - left. rewrite (filter_dup_old _ _ Hn). apply Hi. left; reflexivity.
  - split; [exact Hq| discriminate].
  - apply IH; [|intros y Hy; apply Hi; right; exact Hy].
    apply (has_new_mono s); [|exact Hn]. intros y Hy. apply in_or_app. left; exact Hy.
Qed.

Lemma firstn_incl {A} n (l : list A) : incl (firstn n l) l.
Proof. intros x Hx. rewrite <- (firstn_skipn n l). apply in_or_app. left; exact Hx. Qed.

Lemma chain_firstn_filter (Q : list Z -> Prop) c s m : Q c ->
  Chain (Gh Q (if has_new s c then 0 else 1)%nat) s (firstn m (filter_dup s c)).
Proof.
  intros Hq. destruct (has_new s c) eqn:Hn.
  - destruct (filter_dup_new s c Hn) as [-> _]. apply (chain_news_prefix Q 0%nat c Hq); [apply NoDup_firstn, news_NoDup|].
    intros x Hx. apply news_In. exact (firstn_incl _ _ _ Hx).
  - rewrite (filter_dup_old _ _ Hn). apply (chain_fallback Q c Hq); [exact Hn| apply firstn_incl].
Qed.

Lemma use_next_sound c (Q : list Z -> Prop) s x nx h : use_next c s x = Some (nx, h) -> (h <= 1)%nat -> InvS Q s ->
  nx = Known x /\ exists cand, PickOK (sampled s) cand x /\ Gh Q h (sampled s) cand.
Proof.
  unfold use_next. intros H Hle Hinv. destruct (next s) as [|cand sf|y] eqn:En; [discriminate| |].
  - destruct (pick_ok c sf cand x) eqn:Ep; [|discriminate]. injection H as <- <-.
    destruct (fresh s) eqn:Ef; [|lia]. destruct (Hinv _ _ En) as [Hq Hsf]. specialize (Hsf Ef). subst sf.
    split; [reflexivity|]. exists cand. split.
    + apply (pick_ok_sound c); [exact (hyp_pick_le1 _ _ _ Hle)| exact Ep].
    + split; [exact Hq| apply hyp_pick_0].
  - destruct (Z.eqb x y); [|discriminate]. injection H as <- <-. lia.
Qed.

Lemma InvS_known (Q : list Z -> Prop) sa ni ins hm x fr ca : InvS Q (mkSt sa ni ins hm (Known x) fr ca).
Proof. intros c sf E. cbn in E. discriminate. Qed.

Lemma InvS_stale (Q : list Z -> Prop) s sa ni ins hm ca : InvS Q s -> InvS Q (mkSt sa ni ins hm (next s) false ca).
Proof. intros H c sf E. cbn in E. destruct (H _ _ E) as [A _]. split; [exact A| cbn; discriminate]. Qed.

Lemma Forall_repeat {A} (P : A -> Prop) x n : P x -> Forall P (repeat x n).
Proof. intros H. apply Forall_forall. intros y Hy. apply repeat_spec in Hy. subst. exact H. Qed.

Theorem accept_step c (Q : list Z -> Prop) s e s' h b : fixed c = true -> accept c s e = inl (s', h, b) -> (h <= 1)%nat ->
  InvS Q s -> Forall Q (cands e) ->
  Chain (Gh Q h) (sampled s) (ret e) /\ sampled s' = sampled s ++ ret e /\ InvS Q s'.
Proof.
  intros Hfix H Hle Hinv HQ. destruct e as [n strat cl out|n_ok cl|cl]; unfold accept in H; cbn [ret cands] in *.
  - destruct (Nat.leb n 1).
    + destruct (initial_phase c s).
      * destruct (inits s) as [|i0 rest].
        -- destruct cl as [|cand [|? ?]]; try discriminate.
           destruct (filter_dup (sampled s) cand) as [|x0 fl] eqn:Ef; destruct out as [|x [|? ?]]; try discriminate.
           destruct (Z.eqb x x0) eqn:Ex; [|discriminate]. apply Z.eqb_eq in Ex. subst x0. injection H as <- <- <-.
           inversion HQ as [|? ? Hq _]; subst. split; [|split; [reflexivity| apply InvS_stale; exact Hinv]].
           pose proof (chain_firstn_filter Q cand (sampled s) 1 Hq) as C. rewrite Ef in C. exact C.
        -- destruct cl; destruct out as [|x [|? ?]]; try discriminate.
           destruct (Z.eqb x i0); [|discriminate]. injection H as <- <- <-. lia.
      * destruct cl; destruct out as [|x [|? ?]]; try discriminate.
        all: destruct (next s) eqn:En; try discriminate.
        all: destruct (use_next c s x) as [[nx h0]|] eqn:Eu; [|discriminate]; injection H as <- <- <-;
          destruct (use_next_sound c Q s x nx h0 Eu Hle Hinv) as [-> [cand [P G]]];
          (split; [apply (Chain_cons _ _ cand); [exact P| exact G| constructor]| split; [reflexivity| apply InvS_known]]).
    + destruct (initial_phase c s).
      * destruct cl as [|cand [|? ?]]; try discriminate. cbv zeta in H.
        destruct (eqlz out _) eqn:Eq; [|discriminate]. apply eqlz_eq in Eq. injection H as <- <- <-.
        destruct (Nat.ltb 0 (Nat.min (length (inits s)) n)) eqn:Ek; [lia|]. apply Nat.ltb_ge in Ek.
        assert (E0 : Nat.min (length (inits s)) n = 0%nat) by lia. rewrite E0 in Eq. cbn [firstn app] in Eq. rewrite Nat.sub_0_r in Eq.
        inversion HQ as [|? ? Hq _]; subst. split; [apply chain_firstn_filter; exact Hq|]. split; [reflexivity|].
        intros cq sq E. cbn in E. destruct (Hinv _ _ E) as [A _]. split; [exact A| cbn; discriminate].
      * destruct (is_oneshot strat && match next s with NoNext => false | _ => true end).
        { destruct cl; [|discriminate]. injection H as <- <- <-. lia. }
        destruct (is_qlcb strat && has_model s).
        { destruct cl as [|cand [|? ?]]; destruct out as [|x0 rest]; try discriminate.
          destruct (negb (Nat.eqb (length (x0 :: rest)) n)); [discriminate|].
          destruct (use_next c s x0) as [[nx h0]|] eqn:Eu; [|destruct (next s); discriminate].
          rewrite Hfix in H.
          destruct (chain _ (sampled s ++ [x0]) (repeat cand (length rest)) rest) as [h1|] eqn:Ec; [|discriminate].
          injection H as <- <- <-. apply worst_le1 in Hle as [Hle0 Hle1].
          destruct (use_next_sound c Q s x0 nx h0 Eu Hle0 Hinv) as [-> [cand0 [P [Gq Gn]]]].
          inversion HQ as [|? ? Hq _]; subst.
          split; [|split; [reflexivity| apply InvS_known]].
          apply (Chain_cons _ _ cand0); [exact P| |].
          - split; [exact Gq|]. intros E. apply worst_0 in E as [E _]. exact (Gn E).
          - apply (chain_weaken (Gh Q h1)).
            + intros s0 c0 [A B]. split; [exact A|]. intros E. apply worst_0 in E as [_ E]. exact (B E).
            + apply (chain_fn_sound _ Q _ _ _ _ Ec Hle1). apply Forall_repeat. exact Hq. }
        destruct (cache_hit s n strat) as [X|].
        { destruct cl; [|discriminate]. destruct (eqlz out X); [|discriminate]. injection H as <- <- <-. lia. }
        destruct (next s) eqn:En; [discriminate| |].
        all: destruct (negb (Nat.eqb (length out) n)); [discriminate|];
          destruct (negb (Nat.eqb (length cl) n)); [discriminate|];
          destruct (chain c (sampled s) cl out) as [h1|] eqn:Ec; [|discriminate]; injection H as <- <- <-;
          (split; [exact (chain_fn_sound c Q _ _ _ _ Ec Hle HQ)| split; [reflexivity|]]);
          rewrite <- En; apply InvS_stale; exact Hinv.
  - cbv zeta in H. destruct ((n_init s - Z.of_nat n_ok <=? 0) && negb (dummy c)).
    + destruct cl as [|cand [|? ?]]; try discriminate. injection H as <- <- <-.
      split; [constructor|]. split; [cbn; rewrite app_nil_r; reflexivity|].
      intros cq sq E. cbn in E. injection E as <- <-. inversion HQ; subst. split; [assumption| reflexivity].
    + destruct cl; [|discriminate]. injection H as <- <- <-.
      split; [constructor|]. split; [cbn; rewrite app_nil_r; reflexivity|].
      intros cq sq E. cbn in E. exact (Hinv _ _ E).
  - destruct (next s) eqn:En.
    + destruct cl; [|discriminate]. injection H as <- <- <-.
      split; [constructor|]. split; [cbn; rewrite app_nil_r; reflexivity|]. intros cq sq E. cbn in E. discriminate.
    + destruct cl as [|cand [|? ?]]; try discriminate. injection H as <- <- <-.
      split; [constructor|]. split; [cbn; rewrite app_nil_r; reflexivity|].
      intros cq sq E. cbn in E. injection E as <- <-. inversion HQ; subst. split; [assumption| reflexivity].
    + destruct cl as [|cand [|? ?]]; try discriminate. injection H as <- <- <-.
      split; [constructor|]. split; [cbn; rewrite app_nil_r; reflexivity|].
      intros cq sq E. cbn in E. injection E as <- <-. inversion HQ; subst. split; [assumption| reflexivity].
Qed.
