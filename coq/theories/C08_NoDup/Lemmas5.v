(* C08: state that survives between calls - the ask cache only holds points that are already recorded; the CBO wrapper keeps
   the ask / tell alternation for every sequence of CBO-level calls; warm start (fit_surrogate) *)
From Coq Require Import List ZArith Bool Arith Lia Permutation.
Import ListNotations.
Require Import DH.Common.ListSet DH.C08_NoDup.Model DH.C08_NoDup.Check DH.C08_NoDup.Lemmas DH.C08_NoDup.Lemmas2 DH.C08_NoDup.Lemmas3.
Open Scope Z_scope.

(* ---------------- wrapper ---------------- *)
Theorem wrap_alternates : forall ops flag prev, (prev = true -> flag = true) -> alt_k prev (wrap flag ops) = true.
Proof.
  induction ops as [|o t IH]; intros flag prev H; cbn [wrap]; [reflexivity|]. destruct o as [|told ne|].
  - destruct flag.
    + cbn [app alt_k]. destruct prev; cbn [negb andb]; apply IH; reflexivity.
    + destruct prev; [specialize (H eq_refl); discriminate|]. cbn [app alt_k negb andb]. apply IH. reflexivity.
  - destruct told; [destruct prev; cbn [alt_k]; apply IH; discriminate|].
    destruct ne; [destruct prev; cbn [alt_k]; apply IH; discriminate|]. apply IH. exact H.
  - destruct prev; cbn [alt_k]; apply IH; discriminate.
Qed.

Lemma alternating_kinds : forall tr prev, alternating prev tr = alt_k prev (map kind_of tr).
Proof. induction tr as [|e t IH]; intros prev; [reflexivity|]. destruct e; cbn [map kind_of alternating alt_k]; rewrite IH; reflexivity. Qed.

Lemma kinds_eqb_eq : forall a b, kinds_eqb a b = true -> a = b.
Proof.
  induction a as [|x a IH]; intros [|y b] H; cbn in H; try discriminate; [reflexivity|].
  apply andb_true_iff in H as [H1 H2]. rewrite (IH _ H2). destruct x, y; try discriminate; reflexivity.
Qed.

Theorem wrapper_history_alternates tr ops : kinds_eqb (map kind_of tr) (wrap false ops) = true -> alternating false tr = true.
Proof. intros H. apply kinds_eqb_eq in H. rewrite alternating_kinds, H. apply wrap_alternates. discriminate. Qed.

(* ---------------- warm start: n_initial_points = 0 and a first tell of the checkpointed results ---------------- *)
Theorem cbo_schedule_warm c n0 k cl tr sf hs : free_opt c && negb (fixed c) = false -> n0 <= 0 -> dummy c = false ->
  run c (init_st n0 []) (Tell k cl :: tr) = Some (sf, hs) -> alternating false tr = true -> strategies_ok tr = true ->
  Forall (fun h => (h <= 1)%nat) hs.
Proof.
  intros Hf Hn Hd H Ha Hs. cbn [run] in H.
  destruct (accept c (init_st n0 []) (Tell k cl)) as [[[s' h] b]|code] eqn:Ea; [|discriminate].
  destruct (run c s' tr) as [[sf' hs']|] eqn:Er; [|discriminate]. injection H as <- <-.
  unfold accept in Ea. cbv zeta in Ea. cbn [n_init init_st] in Ea.
  assert (E : (n0 - Z.of_nat k <=? 0) && negb (dummy c) = true).
  { rewrite Hd. cbn. rewrite andb_true_r. apply Z.leb_le. lia. }
  rewrite E in Ea. destruct cl as [|cand [|? ?]]; try discriminate. injection Ea as <- <- <-.
  constructor; [lia|]. apply (sched_run c Hf tr _ false sf' hs' Er); [|exact Ha| exact Hs].
  unfold SchedInv. cbn. repeat split; try discriminate. exists cand, []. reflexivity.
Qed.

(* ---------------- cache coherence ---------------- *)
Definition CacheOK (s : st) : Prop := forall n strat X, cache s = Some (n, strat, X) -> incl X (sampled s).

Lemma cache_ok_mono s sa ni ins hm nx fr : CacheOK s -> incl (sampled s) sa -> CacheOK (mkSt sa ni ins hm nx fr (cache s)).
Proof. intros H Hi n strat X E. cbn in *. intros x Hx. apply Hi. exact (H _ _ _ E x Hx). Qed.

Lemma cache_ok_none sa ni ins hm nx fr : CacheOK (mkSt sa ni ins hm nx fr None).
Proof. intros n strat X E. cbn in E. discriminate. Qed.

Lemma incl_app_self (a b : list Z) : incl a (a ++ b).
Proof. intros x Hx. apply in_or_app. left; exact Hx. Qed.

(* whatever is in the ask cache has been recorded in sampled: answering from the cache always repeats proposals (code 3) *)
Theorem accept_cache_ok c s e s' h b : accept c s e = inl (s', h, b) -> CacheOK s -> CacheOK s'.
Proof.
  intros H Hc. destruct e as [n strat cl out|n_ok cl|cl]; unfold accept in H.
  - destruct (Nat.leb n 1).
    + destruct (initial_phase c s).
      * destruct (inits s) as [|i0 rest].
        -- destruct cl as [|cand [|? ?]]; try discriminate.
           destruct (filter_dup (sampled s) cand) as [|x0 fl]; destruct out as [|x [|? ?]]; try discriminate.
           destruct (Z.eqb x x0); [|discriminate]. injection H as <- _ _. apply cache_ok_mono; [exact Hc| apply incl_app_self].
        -- destruct cl; destruct out as [|x [|? ?]]; try discriminate.
           destruct (Z.eqb x i0); [|discriminate]. injection H as <- _ _. apply cache_ok_mono; [exact Hc| apply incl_app_self].
      * destruct cl; destruct out as [|x [|? ?]]; try discriminate.
        destruct (next s); try discriminate.
        all: destruct (use_next c s x) as [[nx h0]|]; [|discriminate]; injection H as <- _ _;
          apply cache_ok_mono; [exact Hc| apply incl_app_self].
    + destruct (initial_phase c s).
      * destruct cl as [|cand [|? ?]]; try discriminate. cbv zeta in H.
        destruct (eqlz out _); [|discriminate]. injection H as <- _ _. apply cache_ok_mono; [exact Hc| apply incl_app_self].
      * destruct (is_oneshot strat && match next s with NoNext => false | _ => true end).
        { destruct cl; [|discriminate]. injection H as <- _ _. apply cache_ok_mono; [exact Hc| apply incl_app_self]. }
        destruct (is_qlcb strat && has_model s).
        { destruct cl as [|cand [|? ?]]; destruct out as [|x0 rest]; try discriminate.
          destruct (negb (Nat.eqb (length (x0 :: rest)) n)); [discriminate|].
          destruct (use_next c s x0) as [[nx h0]|]; [|destruct (next s); discriminate].
          destruct (fixed c).
          - destruct (chain _ (sampled s ++ [x0]) (repeat cand (length rest)) rest); [|discriminate].
            injection H as <- _ _. apply cache_ok_mono; [exact Hc| apply incl_app_self].
          - destruct (forallb _ rest); [|discriminate]. injection H as <- _ _. apply cache_ok_mono; [exact Hc| apply incl_refl]. }
        destruct (cache_hit s n strat) as [X|].
        { destruct cl; [|discriminate]. destruct (eqlz out X); [|discriminate]. injection H as <- _ _.
          apply cache_ok_mono; [exact Hc| apply incl_refl]. }
        destruct (next s); [discriminate| |].
        all: destruct (negb (Nat.eqb (length out) n)); [discriminate|];
          destruct (negb (Nat.eqb (length cl) n)); [discriminate|];
          destruct (chain c (sampled s) cl out); [|discriminate]; injection H as <- _ _;
          intros n1 st1 X E; cbn in E; injection E as _ _ <-; cbn; intros xq Hq; apply in_or_app; right; exact Hq.
  - cbv zeta in H. destruct ((n_init s - Z.of_nat n_ok <=? 0) && negb (dummy c)).
    + destruct cl as [|cand [|? ?]]; try discriminate. injection H as <- _ _. apply cache_ok_none.
    + destruct cl; [|discriminate]. injection H as <- _ _. apply cache_ok_none.
  - destruct (next s).
    + destruct cl; [|discriminate]. injection H as <- _ _. apply cache_ok_none.
    + destruct cl as [|cand [|? ?]]; try discriminate. injection H as <- _ _. apply cache_ok_none.
    + destruct cl as [|cand [|? ?]]; try discriminate. injection H as <- _ _. apply cache_ok_none.
Qed.

Theorem run_cache_ok c : forall tr s sf hs, run c s tr = Some (sf, hs) -> CacheOK s -> CacheOK sf.
Proof.
  induction tr as [|e t IH]; intros s sf hs H Hc; cbn [run] in H; [injection H as <- _; exact Hc|].
  destruct (accept c s e) as [[[s' h] b]|code] eqn:Ea; [|discriminate].
  destruct (run c s' t) as [[sf' hs']|] eqn:Er; [|discriminate]. injection H as <- _.
  exact (IH _ _ _ Er (accept_cache_ok _ _ _ _ _ _ Ea Hc)).
Qed.

Theorem cache_coherent c n0 ini tr sf hs n strat X : run c (init_st n0 ini) tr = Some (sf, hs) ->
  cache sf = Some (n, strat, X) -> incl X (sampled sf).
Proof. intros H. apply (run_cache_ok c tr _ sf hs H). intros ? ? ? E. cbn in E. discriminate. Qed.

(* ---------------- nothing ever leaves sampled: whatever was handed out stays known to the duplicate filter, also across a warm start
   (fit_surrogate = a tell) in the middle of a history ---------------- *)
Theorem accept_sampled_ext c s e s' h b : accept c s e = inl (s', h, b) -> exists l, sampled s' = sampled s ++ l.
Proof.
  intros H. destruct e as [n strat cl out|n_ok cl|cl]; unfold accept in H.
  - destruct (Nat.leb n 1).
    + destruct (initial_phase c s).
      * destruct (inits s) as [|i0 rest].
        -- destruct cl as [|cand [|? ?]]; try discriminate.
           destruct (filter_dup (sampled s) cand) as [|x0 fl]; destruct out as [|x [|? ?]]; try discriminate.
           destruct (Z.eqb x x0); [|discriminate]. injection H as <- _ _. eexists; reflexivity.
        -- destruct cl; destruct out as [|x [|? ?]]; try discriminate.
           destruct (Z.eqb x i0); [|discriminate]. injection H as <- _ _. eexists; reflexivity.
      * destruct cl; destruct out as [|x [|? ?]]; try discriminate.
        destruct (next s); try discriminate.
        all: destruct (use_next c s x) as [[nx h0]|]; [|discriminate]; injection H as <- _ _; eexists; reflexivity.
    + destruct (initial_phase c s).
      * destruct cl as [|cand [|? ?]]; try discriminate. cbv zeta in H.
        destruct (eqlz out _); [|discriminate]. injection H as <- _ _. eexists; reflexivity.
      * destruct (is_oneshot strat && match next s with NoNext => false | _ => true end).
        { destruct cl; [|discriminate]. injection H as <- _ _. eexists; reflexivity. }
        destruct (is_qlcb strat && has_model s).
        { destruct cl as [|cand [|? ?]]; destruct out as [|x0 rest]; try discriminate.
          destruct (negb (Nat.eqb (length (x0 :: rest)) n)); [discriminate|].
          destruct (use_next c s x0) as [[nx h0]|]; [|destruct (next s); discriminate].
          destruct (fixed c).
          - destruct (chain _ (sampled s ++ [x0]) (repeat cand (length rest)) rest); [|discriminate].
            injection H as <- _ _. eexists; reflexivity.
          - destruct (forallb _ rest); [|discriminate]. injection H as <- _ _. exists []. cbn. rewrite app_nil_r. reflexivity. }
        destruct (cache_hit s n strat) as [X|].
        { destruct cl; [|discriminate]. destruct (eqlz out X); [|discriminate]. injection H as <- _ _.
          exists []. cbn. rewrite app_nil_r. reflexivity. }
        destruct (next s); [discriminate| |].
        all: destruct (negb (Nat.eqb (length out) n)); [discriminate|];
          destruct (negb (Nat.eqb (length cl) n)); [discriminate|];
          destruct (chain c (sampled s) cl out); [|discriminate]; injection H as <- _ _; eexists; reflexivity.
  - cbv zeta in H. destruct ((n_init s - Z.of_nat n_ok <=? 0) && negb (dummy c)).
    + destruct cl as [|cand [|? ?]]; try discriminate. injection H as <- _ _. exists []. cbn. rewrite app_nil_r. reflexivity.
    + destruct cl; [|discriminate]. injection H as <- _ _. exists []. cbn. rewrite app_nil_r. reflexivity.
  - destruct (next s).
    + destruct cl; [|discriminate]. injection H as <- _ _. exists []. cbn. rewrite app_nil_r. reflexivity.
    + destruct cl as [|cand [|? ?]]; try discriminate. injection H as <- _ _. exists []. cbn. rewrite app_nil_r. reflexivity.
    + destruct cl as [|cand [|? ?]]; try discriminate. injection H as <- _ _. exists []. cbn. rewrite app_nil_r. reflexivity.
Qed.

(* a tell (also the tell of a checkpoint by fit_surrogate) leaves sampled exactly as it is *)
Theorem tell_keeps_sampled c s k cl s' h b : accept c s (Tell k cl) = inl (s', h, b) -> sampled s' = sampled s.
Proof.
  unfold accept. cbv zeta. destruct ((n_init s - Z.of_nat k <=? 0) && negb (dummy c)).
  - destruct cl as [|cand [|? ?]]; try discriminate. intros H. injection H as <- _ _. reflexivity.
  - destruct cl; [|discriminate]. intros H. injection H as <- _ _. reflexivity.
Qed.

Theorem run_sampled_ext c : forall tr s sf hs, run c s tr = Some (sf, hs) -> exists l, sampled sf = sampled s ++ l.
Proof.
  induction tr as [|e t IH]; intros s sf hs H; cbn [run] in H.
  - injection H as <- _. exists []. rewrite app_nil_r. reflexivity.
  - destruct (accept c s e) as [[[s' h] b]|code] eqn:Ea; [|discriminate].
    destruct (run c s' t) as [[sf' hs']|] eqn:Er; [|discriminate]. injection H as <- _.
    destruct (accept_sampled_ext _ _ _ _ _ _ Ea) as [l1 E1]. destruct (IH _ _ _ Er) as [l2 E2].
    exists (l1 ++ l2). rewrite E2, E1, app_assoc. reflexivity.
Qed.

(* everything handed out by a first part of the history (codes <= 1) is still in sampled after ANY accepted continuation -
   in particular after a warm start in the middle followed by further asks *)
Theorem proposed_survive c n0 ini tr1 s1 hs1 tr2 s2 hs2 : fixed c = true ->
  run c (init_st n0 ini) tr1 = Some (s1, hs1) -> Forall (fun h => (h <= 1)%nat) hs1 ->
  run c s1 tr2 = Some (s2, hs2) -> incl (returned tr1) (sampled s2).
Proof.
  intros Hfix H1 Hle H2.
  destruct (run_chain c (fun _ => True) (fun _ _ => True) Hfix tr1 _ s1 hs1 H1 Hle) as [_ Es].
  - intros; exact I.
  - apply InvS_init.
  - apply Forall_true.
  - destruct (run_sampled_ext c tr2 s1 s2 hs2 H2) as [l El]. rewrite El, Es. cbn [init_st sampled app].
    intros x Hx. apply in_or_app. left; exact Hx.
Qed.
