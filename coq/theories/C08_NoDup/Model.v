(* C08 - No configuration is proposed twice until the space is exhausted.
   Executable model of the bookkeeping of deephyper.skopt.optimizer.Optimizer that decides which points may be returned by
   ask(): the list [sampled], _filter_duplicated, the five return paths of ask(), copy() (sampled[:]) in the constant-liar
   loop, the choice of _next_x in _tell, the ask cache, update_next().  NO proofs in this file.

   Points are opaque tokens (Z) assigned by the harness (tuple of values -> int).  What the surrogate / acquisition function
   chooses among the candidates is NOT modelled: the model is an acceptance automaton that replays OBSERVED events (the
   candidate lists drawn by Space.rvs during the call and the points returned) and demands, branch by branch, what the code
   guarantees.  The theorems hold for every accepted history, i.e. for every choice.

   The model describes /repo at 5f31b5a PLUS the repairs fixes/F10_qlcb_record_sampled.patch and
   fixes/F12_acq_optimizer_duplicate_fallback.patch when [fixed cfg = true]; with [fixed cfg = false] it describes the
   pinned code (qLCB: returned points neither recorded nor excluded within the batch; lbfgs/ga result unconstrained). *)
From Coq Require Import List ZArith Bool Arith.
Import ListNotations.
Open Scope Z_scope.

Fixpoint memz (x : Z) (l : list Z) : bool :=
  match l with [] => false | y :: t => Z.eqb x y || memz x t end.

(* candidates of [c] that are not in [s], first occurrences only, in the order of [c]
   (pandas: drop duplicated(keep="first"), then remove the rows that also occur in the history) *)
Fixpoint news (s c : list Z) : list Z :=
  match c with
  | [] => []
  | x :: t => if memz x s then news s t else x :: news (x :: s) t
  end.

Definition has_new (s c : list Z) : bool := existsb (fun x => negb (memz x s)) c.

(* Optimizer._filter_duplicated (filter_duplicated=True): the unfiltered sample is returned only when nothing new is left *)
Definition filter_dup (s c : list Z) : list Z :=
  match news s c with [] => c | l => l end.

(* ---- configuration of one optimizer ---- *)
Record cfg := mkCfg {
  dummy : bool;      (* base_estimator is None (surrogate "DUMMY"): every ask is a random ask *)
  free_opt : bool;   (* acq_optimizer is not "sampling" (lbfgs / ga / mixedga): _next_x need not be one of the candidates *)
  fixed : bool       (* repaired code (F10, F12) *)
}.

(* _next_x: unknown until it is first returned.  [Pending c sf]: chosen by the last fit among filter_dup sf c (sf = sampled at
   that time); [Known x]: already returned once, returned again by every ask that uses it until the next fit. *)
Inductive nxt := NoNext | Pending (c sf : list Z) | Known (x : Z).

Record st := mkSt {
  sampled : list Z;                       (* Optimizer.sampled *)
  n_init : Z;                             (* Optimizer._n_initial_points *)
  inits : list Z;                         (* Optimizer._initial_samples *)
  has_model : bool;                       (* len(Optimizer.models) > 0 *)
  next : nxt;
  fresh : bool;                           (* no ask since the fit that chose _next_x *)
  cache : option (nat * nat * list Z)     (* Optimizer.cache_ : (n_points, strategy) -> X *)
}.

Definition init_st (n0 : Z) (ini : list Z) : st := mkSt [] n0 ini false NoNext false None.

(* strategies: 0 cl_min, 1 cl_mean, 2 cl_max, 3 topk, 4 boltzmann, 5 qLCB, 6 qLCBd *)
Inductive event :=
| Ask (n : nat) (strat : nat) (cl : list (list Z)) (out : list Z)  (* n = 0: ask() ; n = 1: ask(1) ; cl: the samples drawn by Space.rvs during the call *)
| Tell (n_ok : nat) (cl : list (list Z))                           (* n_ok: number of told objectives that are not failures *)
| UpdateNext (cl : list (list Z)).

Definition ret (e : event) : list Z := match e with Ask _ _ _ out => out | _ => [] end.
Definition cands (e : event) : list (list Z) := match e with Ask _ _ cl _ => cl | Tell _ cl => cl | UpdateNext cl => cl end.

Definition initial_phase (c : cfg) (s : st) : bool := (0 <? n_init s) || dummy c.

(* may x be returned as the result of a fit that saw the candidates c with history sf ? *)
Definition pick_ok (c : cfg) (sf cand : list Z) (x : Z) : bool :=
  memz x (filter_dup sf cand) || (free_opt c && (negb (fixed c) || negb (memz x sf))).

(* hypothesis codes of the theorems (0 = all hold for this event):
   1 a candidate list without any unproposed point was used (space exhausted as far as the sampling can tell)
   2 _next_x used although an ask happened since the fit that chose it (no tell in between)
   3 the ask cache answered (same (n_points, strategy) asked again without tell)
   4 one-shot strategy topk / boltzmann
   5 pinned code only: _next_x produced by lbfgs / ga (not one of the filtered candidates)
   6 user-supplied initial points handed out *)
Definition hyp_pick (c : cfg) (sf cand : list Z) : nat :=
  if free_opt c && negb (fixed c) then 5%nat else if has_new sf cand then 0%nat else 1%nat.

Definition worst (a b : nat) : nat :=   (* schedule problems (>= 2) win over exhaustion (1) *)
  if Nat.leb 2 a then a else if Nat.leb 2 b then b else Nat.max a b.

(* x_i must be an admissible choice among filter_dup (s ++ [x_0 .. x_(i-1)]) c_i  (constant-liar loop: the copy's sampled) *)
Fixpoint chain (c : cfg) (s : list Z) (cs : list (list Z)) (xs : list Z) : option nat :=
  match xs, cs with
  | [], [] => Some 0%nat
  | x :: xs', cand :: cs' =>
      if pick_ok c s cand x then
        match chain c (s ++ [x]) cs' xs' with
        | Some h => Some (worst (hyp_pick c s cand) h)
        | None => None
        end
      else None
  | _, _ => None
  end.

(* using _next_x: (new value of next, hypothesis code) *)
Definition use_next (c : cfg) (s : st) (x : Z) : option (nxt * nat) :=
  match next s with
  | NoNext => None
  | Pending cand sf =>
      if pick_ok c sf cand x then Some (Known x, if fresh s then hyp_pick c sf cand else 2%nat) else None
  | Known y => if Z.eqb x y then Some (Known y, 2%nat) else None
  end.

Fixpoint eqlz (a b : list Z) : bool :=
  match a, b with [], [] => true | x :: a', y :: b' => Z.eqb x y && eqlz a' b' | _, _ => false end.

Definition is_qlcb (strat : nat) : bool := Nat.eqb strat 5 || Nat.eqb strat 6.
Definition is_oneshot (strat : nat) : bool := Nat.eqb strat 3 || Nat.eqb strat 4.

Definition cache_hit (s : st) (n strat : nat) : option (list Z) :=
  match cache s with
  | Some (n', strat', X) => if Nat.eqb n n' && Nat.eqb strat strat' then Some X else None
  | None => None
  end.

(* rejection codes (the observed call is not a behaviour of the model):
   1 wrong number of Space.rvs calls for this branch      2 random ask: not the head of the filtered sample
   3 initial point expected                               4 no _next_x (the code raises)
   5 returned point is not an admissible _next_x          6 multi ask in the initial phase: not initial points ++ head of the filtered sample
   7 qLCB: wrong batch size                               8 qLCB: a point that is not an admissible choice (already proposed / repeated in the batch / not a candidate)
   9 cached batch expected                                10 constant liar: wrong batch size
   11 constant liar: a point that is not an admissible choice *)
(* branch codes: 1 single random, 2 single initial point, 3 single _next_x, 4 multi initial, 5 one-shot, 6 qLCB, 7 cache, 8 constant liar,
   9 tell without fit, 10 tell with fit, 11 update_next without fit, 12 update_next with fit *)
Definition result := (st * nat * nat + nat)%type.

Definition set_sampled (s : st) (l : list Z) : st :=
  mkSt l (n_init s) (inits s) (has_model s) (next s) false (cache s).

Definition accept (c : cfg) (s : st) (e : event) : result :=
  match e with
  | Ask n strat cl out =>
      if Nat.leb n 1 then
        (* x = self._ask(); self.sampled.append(x) *)
        if initial_phase c s then
          match inits s with
          | [] =>
              match cl with
              | [cand] =>
                  match filter_dup (sampled s) cand, out with
                  | x0 :: _, [x] =>
                      if Z.eqb x x0 then inl (set_sampled s (sampled s ++ [x]), (if has_new (sampled s) cand then 0 else 1)%nat, 1%nat)
                      else inr 2%nat
                  | _, _ => inr 2%nat
                  end
              | _ => inr 1%nat
              end
          | i0 :: rest =>
              match cl, out with
              | [], [x] =>
                  if Z.eqb x i0 then
                    inl (mkSt (sampled s ++ [x]) (n_init s) rest (has_model s) (next s) false (cache s), 6%nat, 2%nat)
                  else inr 3%nat
              | [], _ => inr 3%nat
              | _, _ => inr 1%nat
              end
          end
        else
          match cl, out with
          | [], [x] =>
              match next s with
              | NoNext => inr 4%nat
              | _ =>
                match use_next c s x with
                | Some (nx, h) => inl (mkSt (sampled s ++ [x]) (n_init s) (inits s) (has_model s) nx false (cache s), h, 3%nat)
                | None => inr 5%nat
                end
              end
          | [], _ => inr 5%nat
          | _, _ => inr 1%nat
          end
      else if initial_phase c s then
        (* X = initial_samples[:k] + _ask_random_points(size=n-k); self.sampled.extend(X) *)
        match cl with
        | [cand] =>
            let k := Nat.min (length (inits s)) n in
            let X := firstn k (inits s) ++ firstn (n - k) (filter_dup (sampled s) cand) in
            if eqlz out X then
              inl (mkSt (sampled s ++ out) (n_init s) (skipn k (inits s)) (has_model s) (next s) false (cache s),
                   (if Nat.ltb 0 k then 6 else if has_new (sampled s) cand then 0 else 1)%nat, 4%nat)
            else inr 6%nat
        | _ => inr 1%nat
        end
      else if is_oneshot strat && (match next s with NoNext => false | _ => true end) then
        (* points of the transformed space (F03); topk records all of them, boltzmann all but the first *)
        match cl with
        | [] => inl (set_sampled s (sampled s ++ (if Nat.eqb strat 3 then out else tl out)), 4%nat, 5%nat)
        | _ => inr 1%nat
        end
      else if is_qlcb strat && has_model s then
        match cl, out with
        | [cand], x0 :: rest =>
            if negb (Nat.eqb (length out) n) then inr 7%nat else
            match use_next c s x0 with
            | None => match next s with NoNext => inr 4%nat | _ => inr 5%nat end
            | Some (nx, h0) =>
                if fixed c then
                  (* repaired: X = [_next_x] recorded first, every further point chosen among the candidates that are neither
                     proposed before nor already in the batch (as long as some remain); all recorded *)
                  match chain (mkCfg (dummy c) false true) (sampled s ++ [x0]) (repeat cand (length rest)) rest with
                  | Some h => inl (mkSt (sampled s ++ out) (n_init s) (inits s) (has_model s) nx false (cache s), worst h0 h, 6%nat)
                  | None => inr 8%nat
                  end
                else
                  (* pinned: every further point is some filtered candidate; nothing is recorded *)
                  if forallb (fun x => memz x (filter_dup (sampled s) cand)) rest then
                    inl (mkSt (sampled s) (n_init s) (inits s) (has_model s) nx false (cache s),
                         worst h0 (if has_new (sampled s) cand then 0 else 1)%nat, 6%nat)
                  else inr 8%nat
            end
        | [_], [] => inr 7%nat
        | _, _ => inr 1%nat
        end
      else
        match cache_hit s n strat with
        | Some X =>
            match cl with
            | [] => if eqlz out X then inl (set_sampled s (sampled s), 3%nat, 7%nat) else inr 9%nat
            | _ => inr 1%nat
            end
        | None =>
            (* opt = self.copy(): refit on the real data; x = opt.ask(); self.sampled.append(x); opt._tell(x, lie): refit *)
            match next s with
            | NoNext => inr 4%nat
            | _ =>
              if negb (Nat.eqb (length out) n) then inr 10%nat
              else if negb (Nat.eqb (length cl) n) then inr 1%nat
              else match chain c (sampled s) cl out with
                   | Some h => inl (mkSt (sampled s ++ out) (n_init s) (inits s) (has_model s) (next s) false (Some (n, strat, out)), h, 8%nat)
                   | None => inr 11%nat
                   end
            end
        end
  | Tell n_ok cl =>
      let ni := n_init s - Z.of_nat n_ok in
      if (ni <=? 0) && negb (dummy c) then
        match cl with
        | [cand] => inl (mkSt (sampled s) ni (inits s) true (Pending cand (sampled s)) true None, 0%nat, 10%nat)
        | _ => inr 1%nat
        end
      else
        match cl with
        | [] => inl (mkSt (sampled s) ni (inits s) (has_model s) (next s) (fresh s) None, 0%nat, 9%nat)
        | _ => inr 1%nat
        end
  | UpdateNext cl =>
      match next s with
      | NoNext =>
          match cl with
          | [] => inl (mkSt (sampled s) (n_init s) (inits s) (has_model s) NoNext (fresh s) None, 0%nat, 11%nat)
          | _ => inr 1%nat
          end
      | _ =>
          match cl with
          | [cand] => inl (mkSt (sampled s) (n_init s) (inits s) (has_model s) (Pending cand (sampled s)) true None, 0%nat, 12%nat)
          | _ => inr 1%nat
          end
      end
  end.

(* replay of a whole history: Some (final state, hypothesis codes per event) when every event is accepted *)
Fixpoint run (c : cfg) (s : st) (tr : list event) : option (st * list nat) :=
  match tr with
  | [] => Some (s, [])
  | e :: t =>
      match accept c s e with
      | inl (s', h, _) => match run c s' t with Some (sf, hs) => Some (sf, h :: hs) | None => None end
      | inr _ => None
      end
  end.

Definition returned (tr : list event) : list Z := flat_map ret tr.

(* the loop of CBO.search: ask, tell (or update_next), ask, ... : never two asks in a row *)
Fixpoint alternating (prev_ask : bool) (tr : list event) : bool :=
  match tr with
  | [] => true
  | Ask _ _ _ _ :: t => negb prev_ask && alternating true t
  | _ :: t => alternating false t
  end.

Definition strategies_ok (tr : list event) : bool :=
  forallb (fun e => match e with Ask _ strat _ _ => negb (is_oneshot strat) | _ => true end) tr.

(* ---------------- the CBO wrapper around the optimizer (hpo/_cbo.py: CBO._ask / CBO._tell with the flag _asked_not_told) ----------------
   CBO-level calls, in ANY order (several search() calls, calls that end between an ask and its tell, the public ask / tell
   interface driven by the user): what reaches the optimizer. *)
Inductive cop :=
| CAsk                              (* Search.ask(n) *)
| CTell (told nonempty : bool)      (* Search.tell(results): told = some result is kept (a number, or a failure unless filter_failures="ignore");
                                       nonempty = results is not empty *)
| CDirectTell.                      (* fit_surrogate: Optimizer.tell called directly *)

Inductive kind := KAsk | KTell | KUpd.

Definition kind_of (e : event) : kind := match e with Ask _ _ _ _ => KAsk | Tell _ _ => KTell | UpdateNext _ => KUpd end.

Fixpoint wrap (flag : bool) (ops : list cop) : list kind :=
  match ops with
  | [] => []
  | CAsk :: t => (if flag then [KUpd; KAsk] else [KAsk]) ++ wrap true t
  | CTell told ne :: t => if told then KTell :: wrap false t else if ne then KUpd :: wrap false t else wrap flag t
  | CDirectTell :: t => KTell :: wrap flag t
  end.

Fixpoint alt_k (prev_ask : bool) (ks : list kind) : bool :=
  match ks with
  | [] => true
  | KAsk :: t => negb prev_ask && alt_k true t
  | _ :: t => alt_k false t
  end.

Definition kind_eqb (a b : kind) : bool :=
  match a, b with KAsk, KAsk => true | KTell, KTell => true | KUpd, KUpd => true | _, _ => false end.
Fixpoint kinds_eqb (a b : list kind) : bool :=
  match a, b with [] , [] => true | x :: a', y :: b' => kind_eqb x y && kinds_eqb a' b' | _, _ => false end.
