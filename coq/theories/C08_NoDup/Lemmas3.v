(* C08: whole histories - NoDup, finite spaces, the ask/tell alternation of CBO.search, the pinned qLCB branch *)
From Coq Require Import List ZArith Bool Arith Lia Permutation.
Import ListNotations.
Require Import DH.Common.ListSet DH.C08_NoDup.Model DH.C08_NoDup.Check DH.C08_NoDup.Lemmas DH.C08_NoDup.Lemmas2.
Open Scope Z_scope.

Lemma run_chain c (Q : list Z -> Prop) (G : list Z -> list Z -> Prop) : fixed c = true ->
  forall tr s sf hs, run c s tr = Some (sf, hs) -> Forall (fun h => (h <= 1)%nat) hs ->
  (forall h, In h hs -> forall s0 c0, Gh Q h s0 c0 -> G s0 c0) ->
  InvS Q s -> Forall Q (flat_map cands tr) ->
  Chain G (sampled s) (returned tr) /\ sampled sf = sampled s ++ returned tr.
Proof.
  intros Hfix. induction tr as [|e t IH]; intros s sf hs H Hle HG Hinv HQ; cbn [run] in H.
  - injection H as <- <-. cbn. rewrite app_nil_r. split; [constructor| reflexivity].
  - destruct (accept c s e) as [[[s' h] b]|code] eqn:Ea; [|discriminate].
    destruct (run c s' t) as [[sf' hs']|] eqn:Er; [|discriminate]. injection H as <- <-.
    inversion Hle as [|? ? Hh Hle']; subst. cbn [flat_map] in HQ. apply Forall_app in HQ as [HQ1 HQ2].
    destruct (accept_step c Q s e s' h b Hfix Ea Hh Hinv HQ1) as [C [Es Hinv']].
    destruct (IH s' sf' hs' Er Hle' (fun h0 Hin => HG h0 (or_intror Hin)) Hinv' HQ2) as [C' Es'].
    unfold returned. cbn [flat_map]. fold (returned t). split.
    + apply chain_app; [apply (chain_weaken (Gh Q h)); [apply HG; left; reflexivity| exact C]|].
      rewrite <- Es. exact C'.
    + rewrite Es', Es, app_assoc. reflexivity.
Qed.

Lemma InvS_init (Q : list Z -> Prop) n0 ini : InvS Q (init_st n0 ini).
Proof. intros c sf E. cbn in E. discriminate. Qed.

Lemma Forall_true {A} (l : list A) : Forall (fun _ => True) l.
Proof. apply Forall_forall. intros; exact I. Qed.

(* from any state: what is returned by a history whose hypothesis codes are all 0 is new and pairwise distinct *)
Theorem nodup_from c s tr sf hs : fixed c = true -> InvS (fun _ => True) s -> NoDup (sampled s) ->
  run c s tr = Some (sf, hs) -> Forall (fun h => h = 0%nat) hs ->
  NoDup (sampled s ++ returned tr) /\ sampled sf = sampled s ++ returned tr.
Proof.
  intros Hfix Hinv Hnd H H0.
  destruct (run_chain c (fun _ => True) (fun s c => has_new s c = true) Hfix tr s sf hs H) as [C Es].
  - apply Forall_forall. intros h Hh. rewrite Forall_forall in H0. rewrite (H0 h Hh). lia.
  - intros h Hh s0 c0 [_ B]. rewrite Forall_forall in H0. exact (B (H0 h Hh)).
  - exact Hinv.
  - apply Forall_true.
  - split; [exact (chain_nodup _ _ C Hnd)| exact Es].
Qed.

Theorem nodup_main c n0 ini tr sf hs : fixed c = true -> run c (init_st n0 ini) tr = Some (sf, hs) ->
  Forall (fun h => h = 0%nat) hs -> NoDup (returned tr) /\ sampled sf = returned tr.
Proof.
  intros Hfix H H0. destruct (nodup_from c (init_st n0 ini) tr sf hs Hfix (InvS_init _ _ _) (NoDup_nil _) H H0) as [A B].
  exact (conj A B).
Qed.

Theorem finite_main c n0 ini U tr sf hs : fixed c = true -> NoDup U -> run c (init_st n0 ini) tr = Some (sf, hs) ->
  Forall (fun h => (h <= 1)%nat) hs -> Forall (incl U) (flat_map cands tr) -> incl (returned tr) U ->
  NoDup (firstn (length U) (returned tr))
  /\ ((length U <= length (returned tr))%nat -> Permutation (firstn (length U) (returned tr)) U).
Proof.
  intros Hfix HU H Hle Hc Hin.
  destruct (run_chain c (incl U) (fun _ c => incl U c) Hfix tr _ sf hs H Hle) as [C _].
  - intros h _ s0 c0 [A _]. exact A.
  - apply InvS_init.
  - exact Hc.
  - assert (Hnd : NoDup (firstn (length U) (returned tr))).
    { apply (chain_finite U HU [] (returned tr) C); [cbn; rewrite firstn_nil; constructor| exact Hin]. }
    split; [exact Hnd|]. intros Hlen. apply NoDup_Permutation_bis; [exact Hnd| rewrite firstn_length; lia|].
    intros x Hx. apply Hin. exact (firstn_incl _ _ _ Hx).
Qed.

(* ---------------- the ask / tell alternation ---------------- *)
Definition is_ask (e : event) : bool := match e with Ask _ _ _ _ => true | _ => false end.
Definition strat_ok (e : event) : bool := match e with Ask _ strat _ _ => negb (is_oneshot strat) | _ => true end.

Definition SchedInv (c : cfg) (s : st) (prev_ask : bool) : Prop :=
  inits s = [] /\ (initial_phase c s = false -> next s <> NoNext) /\
  (prev_ask = false -> cache s = None /\
     (initial_phase c s = false -> fresh s = true /\ exists cand sf, next s = Pending cand sf)).

Lemma use_next_sched c s x nx h : free_opt c && negb (fixed c) = false -> use_next c s x = Some (nx, h) ->
  fresh s = true -> (exists cand sf, next s = Pending cand sf) -> (h <= 1)%nat /\ nx = Known x.
Proof.
  intros Hf H Hfr [cand [sf En]]. unfold use_next in H. rewrite En, Hfr in H.
  destruct (pick_ok c sf cand x); [|discriminate]. injection H as <- <-. split; [apply hyp_pick_le1_intro; exact Hf| reflexivity].
Qed.

Theorem sched_step c s e s' h b prev : free_opt c && negb (fixed c) = false -> accept c s e = inl (s', h, b) ->
  SchedInv c s prev -> (is_ask e = true -> prev = false) -> strat_ok e = true ->
  (h <= 1)%nat /\ SchedInv c s' (is_ask e).
Proof.
  intros Hf H [Hini [Hnx Hpa]] Hprev Hst. destruct e as [n strat cl out|n_ok cl|cl]; unfold accept in H; cbn [is_ask strat_ok] in *.
  - specialize (Hpa (Hprev eq_refl)). destruct Hpa as [Hca Hfr].
    destruct (Nat.leb n 1).
    + destruct (initial_phase c s) eqn:Eph.
      * rewrite Hini in H. destruct cl as [|cand [|? ?]]; try discriminate.
        destruct (filter_dup (sampled s) cand) as [|x0 fl]; destruct out as [|x [|? ?]]; try discriminate.
        destruct (Z.eqb x x0); [|discriminate]. injection H as <- <- <-.
        split; [destruct (has_new (sampled s) cand); lia|].
        unfold SchedInv, initial_phase in *. cbn. rewrite Eph. repeat split; try discriminate. exact Hini.
      * destruct cl; destruct out as [|x [|? ?]]; try discriminate.
        destruct (Hfr eq_refl) as [Hfresh Hpend].
        assert (Hne : next s <> NoNext) by (apply Hnx; reflexivity).
        destruct (next s) eqn:En; [contradiction| |].
        all: destruct (use_next c s x) as [[nx h0]|] eqn:Eu; [|discriminate]; injection H as <- <- <-;
          assert (Hp' : exists cand sf, next s = Pending cand sf) by (rewrite En; exact Hpend);
          destruct (use_next_sched c s x nx h0 Hf Eu Hfresh Hp') as [Hle ->];
          (split; [exact Hle|]); unfold SchedInv, initial_phase in *; cbn; rewrite Eph; repeat split; try discriminate; exact Hini.
    + destruct (initial_phase c s) eqn:Eph.
      * destruct cl as [|cand [|? ?]]; try discriminate. cbv zeta in H. rewrite Hini in H. cbn [length Nat.min firstn app skipn] in H.
        destruct (eqlz out _); [|discriminate]. injection H as <- <- <-. cbn [Nat.ltb Nat.leb].
        split; [destruct (has_new (sampled s) cand); lia|].
        unfold SchedInv, initial_phase in *. cbn. rewrite Eph. repeat split; try discriminate.
      * apply negb_true_iff in Hst. rewrite Hst in H. cbn [andb] in H.
        destruct (Hfr eq_refl) as [Hfresh Hpend].
        destruct (is_qlcb strat && has_model s).
        { destruct cl as [|cand [|? ?]]; destruct out as [|x0 rest]; try discriminate.
          destruct (negb (Nat.eqb (length (x0 :: rest)) n)); [discriminate|].
          destruct (use_next c s x0) as [[nx h0]|] eqn:Eu; [|destruct (next s); discriminate].
          destruct (use_next_sched c s x0 nx h0 Hf Eu Hfresh Hpend) as [Hle0 ->].
          destruct (fixed c) eqn:Efx.
          - destruct (chain _ (sampled s ++ [x0]) (repeat cand (length rest)) rest) as [h1|] eqn:Ec; [|discriminate].
            injection H as <- <- <-. split.
            + apply worst_le1_intro; [exact Hle0|]. apply (chain_fn_le1 (mkCfg (dummy c) false true) eq_refl _ _ _ _ Ec).
            + unfold SchedInv, initial_phase in *. cbn. rewrite Eph. repeat split; try discriminate. exact Hini.
          - destruct (forallb _ rest); [|discriminate]. injection H as <- <- <-. split.
            + apply worst_le1_intro; [exact Hle0| destruct (has_new (sampled s) cand); lia].
            + unfold SchedInv, initial_phase in *. cbn. rewrite Eph. repeat split; try discriminate. exact Hini. }
        unfold cache_hit in H. rewrite Hca in H.
        assert (Hne : next s <> NoNext) by (apply Hnx; reflexivity).
        destruct (next s) eqn:En; [contradiction| |].
        all: destruct (negb (Nat.eqb (length out) n)); [discriminate|];
          destruct (negb (Nat.eqb (length cl) n)); [discriminate|];
          destruct (chain c (sampled s) cl out) as [h1|] eqn:Ec; [|discriminate]; injection H as <- <- <-;
          (split; [exact (chain_fn_le1 c Hf _ _ _ _ Ec)|]);
          unfold SchedInv, initial_phase in *; cbn; rewrite Eph; repeat split; try discriminate; exact Hini.
  - cbv zeta in H. destruct ((n_init s - Z.of_nat n_ok <=? 0) && negb (dummy c)) eqn:Efit.
    + destruct cl as [|cand [|? ?]]; try discriminate. injection H as <- <- <-. split; [lia|].
      unfold SchedInv. cbn. repeat split; try discriminate; try exact Hini. exists cand, (sampled s). reflexivity.
    + destruct cl; [|discriminate]. injection H as <- <- <-. split; [lia|].
      assert (Eph : initial_phase c (mkSt (sampled s) (n_init s - Z.of_nat n_ok) (inits s) (has_model s) (next s) (fresh s) None) = true).
      { unfold initial_phase. cbn. apply andb_false_iff in Efit as [E|E].
        - apply Z.leb_gt in E. apply orb_true_iff. left. apply Z.ltb_lt. exact E.
        - apply negb_false_iff in E. rewrite E. apply orb_true_r. }
      unfold SchedInv. rewrite Eph. cbn. repeat split; try discriminate; exact Hini.
  - destruct (next s) eqn:En.
    + destruct cl; [|discriminate]. injection H as <- <- <-. split; [lia|].
      assert (Eph : initial_phase c s = true).
      { destruct (initial_phase c s) eqn:E; [reflexivity|]. exfalso. apply (Hnx eq_refl). reflexivity. }
      unfold SchedInv, initial_phase in *. cbn. rewrite Eph. repeat split; try discriminate; exact Hini.
    + destruct cl as [|cand [|? ?]]; try discriminate. injection H as <- <- <-. split; [lia|].
      unfold SchedInv. cbn. repeat split; try discriminate; try exact Hini. exists cand, (sampled s). reflexivity.
    + destruct cl as [|cand [|? ?]]; try discriminate. injection H as <- <- <-. split; [lia|].
      unfold SchedInv. cbn. repeat split; try discriminate; try exact Hini. exists cand, (sampled s). reflexivity.
Qed.

Lemma alternating_cons prev e t : alternating prev (e :: t) = true ->
  (is_ask e = true -> prev = false) /\ alternating (is_ask e) t = true.
Proof.
  destruct e; cbn [alternating is_ask]; intros H.
  - apply andb_true_iff in H as [H1 H2]. split; [intros _; apply negb_true_iff; exact H1| exact H2].
  - split; [discriminate| exact H].
  - split; [discriminate| exact H].
Qed.

Lemma strategies_ok_cons e t : strategies_ok (e :: t) = true -> strat_ok e = true /\ strategies_ok t = true.
Proof. unfold strategies_ok. cbn [forallb]. intros H. apply andb_true_iff in H as [H1 H2]. split; [destruct e; exact H1| exact H2]. Qed.

Theorem sched_run c : free_opt c && negb (fixed c) = false -> forall tr s prev sf hs,
  run c s tr = Some (sf, hs) -> SchedInv c s prev -> alternating prev tr = true -> strategies_ok tr = true ->
  Forall (fun h => (h <= 1)%nat) hs.
Proof.
  intros Hf. induction tr as [|e t IH]; intros s prev sf hs H Hinv Halt Hst; cbn [run] in H.
  - injection H as <- <-. constructor.
  - destruct (accept c s e) as [[[s' h] b]|code] eqn:Ea; [|discriminate].
    destruct (run c s' t) as [[sf' hs']|] eqn:Er; [|discriminate]. injection H as <- <-.
    apply alternating_cons in Halt as [Hp Halt]. apply strategies_ok_cons in Hst as [Hs1 Hst].
    destruct (sched_step c s e s' h b prev Hf Ea Hinv Hp Hs1) as [Hle Hinv'].
    constructor; [exact Hle| exact (IH _ _ _ _ Er Hinv' Halt Hst)].
Qed.

Lemma SchedInv_init c n0 : (0 < n0 \/ dummy c = true) -> SchedInv c (init_st n0 []) false.
Proof.
  intros H. assert (E : initial_phase c (init_st n0 []) = true).
  { unfold initial_phase. cbn. destruct H as [H|H]; [apply orb_true_iff; left; apply Z.ltb_lt; exact H| rewrite H; apply orb_true_r]. }
  unfold SchedInv. rewrite E. cbn. repeat split; try discriminate.
Qed.

Theorem cbo_schedule c n0 tr sf hs : free_opt c && negb (fixed c) = false -> (0 < n0 \/ dummy c = true) ->
  run c (init_st n0 []) tr = Some (sf, hs) -> alternating false tr = true -> strategies_ok tr = true ->
  Forall (fun h => (h <= 1)%nat) hs.
Proof. intros Hf H0 H Ha Hs. exact (sched_run c Hf tr _ false sf hs H (SchedInv_init c n0 H0) Ha Hs). Qed.

Lemma fixed_no_free c : fixed c = true -> free_opt c && negb (fixed c) = false.
Proof. intros ->. cbn. apply andb_false_r. Qed.

Theorem tell_between_asks c n0 tr sf hs : fixed c = true -> (0 < n0 \/ dummy c = true) ->
  run c (init_st n0 []) tr = Some (sf, hs) -> alternating false tr = true -> strategies_ok tr = true ->
  Forall (fun h => h <> 1%nat) hs -> NoDup (returned tr) /\ sampled sf = returned tr.
Proof.
  intros Hfix H0 H Ha Hs Hn. apply (nodup_main c n0 [] tr sf hs Hfix H).
  pose proof (cbo_schedule c n0 tr sf hs (fixed_no_free c Hfix) H0 H Ha Hs) as Hle.
  rewrite Forall_forall in *. intros h Hh. specialize (Hle h Hh). specialize (Hn h Hh). lia.
Qed.

Theorem finite_space_cbo c n0 U tr sf hs : fixed c = true -> NoDup U -> (0 < n0 \/ dummy c = true) ->
  run c (init_st n0 []) tr = Some (sf, hs) -> alternating false tr = true -> strategies_ok tr = true ->
  Forall (incl U) (flat_map cands tr) -> incl (returned tr) U ->
  NoDup (firstn (length U) (returned tr))
  /\ ((length U <= length (returned tr))%nat -> Permutation (firstn (length U) (returned tr)) U).
Proof.
  intros Hfix HU H0 H Ha Hs Hc Hin.
  exact (finite_main c n0 [] U tr sf hs Hfix HU H (cbo_schedule c n0 tr sf hs (fixed_no_free c Hfix) H0 H Ha Hs) Hc Hin).
Qed.

(* without a tell in between, two single asks of the model phase return the same point: the schedule hypothesis is needed *)
Theorem ask_twice c s n1 st1 cl1 out1 s1 h1 b1 n2 st2 cl2 out2 s2 h2 b2 :
  initial_phase c s = false -> (n1 <= 1)%nat -> (n2 <= 1)%nat ->
  accept c s (Ask n1 st1 cl1 out1) = inl (s1, h1, b1) -> accept c s1 (Ask n2 st2 cl2 out2) = inl (s2, h2, b2) ->
  out2 = out1 /\ h2 = 2%nat.
Proof.
  intros Eph Hn1 Hn2 H1 H2. unfold accept in H1. apply Nat.leb_le in Hn1, Hn2. rewrite Hn1, Eph in H1.
  destruct cl1; destruct out1 as [|x [|? ?]]; try discriminate.
  assert (Es1 : exists sa fr ca, s1 = mkSt sa (n_init s) (inits s) (has_model s) (Known x) fr ca).
  { destruct (next s) eqn:En; [discriminate| |].
    all: unfold use_next in H1; rewrite En in H1.
    - destruct (pick_ok c sf c0 x); [|discriminate]. injection H1 as <- _ _. eexists _, _, _. reflexivity.
    - destruct (Z.eqb x x0) eqn:E; [|discriminate]. apply Z.eqb_eq in E. subst x0. injection H1 as <- _ _. eexists _, _, _. reflexivity. }
  destruct Es1 as [sa [fr [ca ->]]]. unfold accept in H2. rewrite Hn2 in H2.
  unfold initial_phase in *. cbn [n_init] in H2. rewrite Eph in H2.
  destruct cl2; destruct out2 as [|y [|? ?]]; try discriminate. cbn [next] in H2. unfold use_next in H2. cbn [next] in H2.
  destruct (Z.eqb y x) eqn:E; [|discriminate]. apply Z.eqb_eq in E. subst y. injection H2 as _ <- _. split; reflexivity.
Qed.

(* ---------------- the pinned code ---------------- *)
Definition pinned_cfg := mkCfg false false false.
Definition fixed_cfg := mkCfg false false true.
Definition qlcb_witness : list event :=
  [ Ask 2 5 [[1;2;3;4;5;6]] [1;2]; Tell 2 [[1;2;3;4;5;6]]; Ask 3 5 [[4;3;2;1;3;5;6]] [3;4;4]; Tell 3 [[1;2;3;4;5;6]]; Ask 0 5 [] [3] ].

Theorem qlcb_refuted :
  (exists sf, run pinned_cfg (init_st 2 []) qlcb_witness = Some (sf, [0;0;0;0;0]%nat) /\ sampled sf = [1;2;3])
  /\ alternating false qlcb_witness = true /\ strategies_ok qlcb_witness = true
  /\ returned qlcb_witness = [1;2;3;4;4;3] /\ ~ NoDup (returned qlcb_witness)
  /\ run fixed_cfg (init_st 2 []) qlcb_witness = None.
Proof.
  split; [eexists; vm_compute; split; reflexivity|]. split; [reflexivity|]. split; [reflexivity|]. split; [reflexivity|].
  split; [|vm_compute; reflexivity]. intros H. apply nodupb_spec in H. vm_compute in H. discriminate.
Qed.

Definition lbfgs_witness : list event := [ Ask 2 2 [[1;2;3]] [1;2]; Tell 2 [[1;2;3]]; Ask 0 2 [] [1] ].

Theorem lbfgs_refuted :
  (exists sf, run (mkCfg false true false) (init_st 2 []) lbfgs_witness = Some (sf, [0;0;5]%nat))
  /\ alternating false lbfgs_witness = true /\ ~ NoDup (returned lbfgs_witness)
  /\ run (mkCfg false true true) (init_st 2 []) lbfgs_witness = None.
Proof.
  split; [eexists; vm_compute; reflexivity|]. split; [reflexivity|].
  split; [|vm_compute; reflexivity]. intros H. apply nodupb_spec in H. vm_compute in H. discriminate.
Qed.

(* boolean inclusion, for the non-vacuity examples *)
Definition inclb (a b : list Z) : bool := forallb (fun x => memz x b) a.
Lemma inclb_incl a b : inclb a b = true -> incl a b.
Proof. unfold inclb. rewrite forallb_forall. intros H x Hx. apply memz_In, H, Hx. Qed.
Lemma forallb_Forall {A} (f : A -> bool) (P : A -> Prop) l : (forall x, f x = true -> P x) -> forallb f l = true -> Forall P l.
Proof. intros H. rewrite forallb_forall. intros H1. apply Forall_forall. intros x Hx. apply H, H1, Hx. Qed.
