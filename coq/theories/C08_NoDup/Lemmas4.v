(* C08: the automaton is not blocking - in every state of the model phase a constant-liar batch and a repaired qLCB batch of any
   size are accepted for some choice of points (the head of each filtered sample), whatever the candidate samples are *)
From Coq Require Import List ZArith Bool Arith Lia.
Import ListNotations.
Require Import DH.C08_NoDup.Model DH.C08_NoDup.Check DH.C08_NoDup.Lemmas.
Open Scope Z_scope.

Fixpoint first_picks (s : list Z) (cs : list (list Z)) : list Z :=
  match cs with
  | [] => []
  | c :: t => let x := hd 0 (filter_dup s c) in x :: first_picks (s ++ [x]) t
  end.

Lemma filter_dup_nonempty s c : c <> [] -> filter_dup s c <> [].
Proof. unfold filter_dup. destruct (news s c) eqn:E; [intros H; exact H| discriminate]. Qed.

Lemma hd_In (l : list Z) : l <> [] -> In (hd 0 l) l.
Proof. destruct l; [contradiction| left; reflexivity]. Qed.

Lemma first_picks_length : forall cs s, length (first_picks s cs) = length cs.
Proof. induction cs as [|c t IH]; intros s; cbn; [reflexivity| rewrite IH; reflexivity]. Qed.

Lemma chain_first_picks c : forall cs s, Forall (fun cand => cand <> []) cs -> exists h, chain c s cs (first_picks s cs) = Some h.
Proof.
  induction cs as [|cand t IH]; intros s H; cbn [first_picks chain]; [eexists; reflexivity|].
  inversion H as [|? ? Hc Ht]; subst.
  assert (Hp : pick_ok c s cand (hd 0 (filter_dup s cand)) = true).
  { unfold pick_ok. apply orb_true_iff. left. apply memz_In, hd_In, filter_dup_nonempty, Hc. }
  rewrite Hp. destruct (IH (s ++ [hd 0 (filter_dup s cand)]) Ht) as [h ->]. eexists; reflexivity.
Qed.

Theorem cl_enabled c s n strat cl : (2 <= n)%nat -> initial_phase c s = false -> is_oneshot strat = false -> is_qlcb strat = false ->
  cache s = None -> next s <> NoNext -> length cl = n -> Forall (fun cand => cand <> []) cl ->
  exists s' h, accept c s (Ask n strat cl (first_picks (sampled s) cl)) = inl (s', h, 8%nat).
Proof.
  intros Hn Eph Eo Eq Eca Hnx Hl Hc. unfold accept.
  assert (E1 : Nat.leb n 1 = false) by (apply Nat.leb_gt; lia). rewrite E1, Eph, Eo, Eq. cbn [andb].
  unfold cache_hit. rewrite Eca. destruct (next s) eqn:En; [contradiction| |].
  all: rewrite first_picks_length, Hl, Nat.eqb_refl; cbn [negb];
    destruct (chain_first_picks c cl (sampled s) Hc) as [h ->]; eexists _, _; reflexivity.
Qed.

Theorem qlcb_enabled c s n strat cand0 sf cand : fixed c = true -> (2 <= n)%nat -> initial_phase c s = false -> is_oneshot strat = false ->
  is_qlcb strat = true -> has_model s = true -> next s = Pending cand0 sf -> cand0 <> [] -> cand <> [] ->
  let x0 := hd 0 (filter_dup sf cand0) in
  exists s' h, accept c s (Ask n strat [cand] (x0 :: first_picks (sampled s ++ [x0]) (repeat cand (n - 1)))) = inl (s', h, 6%nat).
Proof.
  intros Hfix Hn Eph Eo Eq Hm En Hc0 Hc x0. unfold accept.
  assert (E1 : Nat.leb n 1 = false) by (apply Nat.leb_gt; lia). rewrite E1, Eph, Eo, Eq, Hm. cbn [andb].
  cbn [length]. rewrite first_picks_length, repeat_length. replace (S (n - 1)) with n by lia. rewrite Nat.eqb_refl. cbn [negb].
  unfold use_next. rewrite En.
  assert (Hp : pick_ok c sf cand0 x0 = true).
  { unfold pick_ok. apply orb_true_iff. left. apply memz_In, hd_In, filter_dup_nonempty, Hc0. }
  rewrite Hp, Hfix.
  destruct (chain_first_picks (mkCfg (dummy c) false true) (repeat cand (n - 1)) (sampled s ++ [x0])) as [h Hh].
  { apply Forall_forall. intros y Hy. apply repeat_spec in Hy. subst. exact Hc. }
  rewrite Hh. eexists _, _; reflexivity.
Qed.
