(* Oracles applied to the IMPLEMENTATION's outputs, and the replay of observed histories on the acceptance automaton. *)
From Coq Require Import List ZArith Bool Arith Lia.
Import ListNotations.
Require Import DH.C08_NoDup.Model.
Open Scope Z_scope.

(* index of the first element that repeats an earlier one *)
Fixpoint first_dup_aux (seen : list Z) (i : nat) (l : list Z) : option nat :=
  match l with
  | [] => None
  | x :: t => if memz x seen then Some i else first_dup_aux (x :: seen) (S i) t
  end.
Definition first_dup (l : list Z) : option nat := first_dup_aux [] 0 l.
Definition nodupb (l : list Z) : bool := match first_dup l with None => true | Some _ => false end.

(* the property on a space of N configurations: the first N proposals are pairwise distinct
   (for an infinite space the harness passes N = number of proposals) *)
Definition ok_prefix (N : nat) (l : list Z) : bool := nodupb (firstn N l).

(* replay of an observed history: (first rejected event: index, code) , (hypothesis code, branch) of the accepted events, state reached *)
Fixpoint replay (c : cfg) (s : st) (i : nat) (tr : list event) : option (nat * nat) * list (nat * nat) * st :=
  match tr with
  | [] => (None, [], s)
  | e :: t =>
      match accept c s e with
      | inl (s', h, b) => let '(r, l, sf) := replay c s' (S i) t in (r, (h, b) :: l, sf)
      | inr code => (Some (i, code), [], s)
      end
  end.

(* ---------------- reflection ---------------- *)
Lemma memz_In x l : memz x l = true <-> In x l.
Proof.
  induction l as [|y t IH]; cbn; [split; [discriminate|tauto]|].
  rewrite orb_true_iff, IH, Z.eqb_eq. split; intros [H|H]; auto.
Qed.

Lemma memz_false x l : memz x l = false <-> ~ In x l.
Proof. rewrite <- memz_In. destruct (memz x l); split; intros H; try discriminate; try reflexivity; exfalso; apply H; reflexivity. Qed.

Lemma first_dup_aux_none seen i l : first_dup_aux seen i l = None <-> (NoDup l /\ forall x, In x l -> ~ In x seen).
Proof.
  revert seen i. induction l as [|x t IH]; intros seen i; cbn [first_dup_aux].
  - split; [intros _; split; [constructor| intros x []]| reflexivity].
  - destruct (memz x seen) eqn:E.
    + split; [discriminate|]. intros [_ H]. apply memz_In in E. exfalso. apply (H x); [left; reflexivity| exact E].
    + apply memz_false in E. rewrite IH. split.
      * intros [Hnd H]. split.
        -- constructor; [|exact Hnd]. intros Hin. apply (H x Hin). left; reflexivity.
        -- intros y [<-|Hy]; [exact E|]. intros Hs. apply (H y Hy). right; exact Hs.
      * intros [Hnd H]. inversion Hnd as [|? ? Hx Ht]; subst. split; [exact Ht|].
        intros y Hy [<-|Hs]; [contradiction|]. apply (H y); [right; exact Hy| exact Hs].
Qed.

Theorem nodupb_spec l : nodupb l = true <-> NoDup l.
Proof.
  unfold nodupb, first_dup. destruct (first_dup_aux [] 0 l) eqn:E.
  - split; [discriminate|]. intros H. assert (X : first_dup_aux [] 0 l = None) by (apply first_dup_aux_none; split; [exact H| intros x _ []]).
    congruence.
  - apply first_dup_aux_none in E. split; [intros _; apply E| reflexivity].
Qed.

Theorem ok_prefix_spec N l : ok_prefix N l = true <-> NoDup (firstn N l).
Proof. apply nodupb_spec. Qed.

(* replay accepts exactly the histories that [run] accepts, with the same hypothesis codes *)
Lemma replay_run c : forall tr s i l sf, replay c s i tr = (None, l, sf) -> run c s tr = Some (sf, map fst l).
Proof.
  induction tr as [|e t IH]; intros s i l sf; cbn [replay run].
  - intros E. injection E as <- <-. reflexivity.
  - destruct (accept c s e) as [[[s' h] b]|code]; [|discriminate].
    destruct (replay c s' (S i) t) as [[r l'] sf'] eqn:E. intros X. injection X as -> <- ->.
    rewrite (IH _ _ _ _ E). reflexivity.
Qed.
