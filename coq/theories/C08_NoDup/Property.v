(* C08 - No configuration is proposed twice until the space is exhausted.  Property theorems only. *)
From Coq Require Import List ZArith Bool Arith.
Import ListNotations.
Require Import DH.C08_NoDup.Model DH.C08_NoDup.Check.
Open Scope Z_scope.

Theorem C08_oracle_prefix : forall N l, ok_prefix N l = true <-> NoDup (firstn N l).
Proof. exact ok_prefix_spec. Qed.
Print Assumptions C08_oracle_prefix.
