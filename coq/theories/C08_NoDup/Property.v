(* C08 - No configuration is proposed twice until the space is exhausted.  Property theorems only.

   Model.accept: acceptance automaton of the observable calls of one Optimizer (ask / tell / update_next with the candidate
   samples drawn by Space.rvs during the call and the points returned).  [run c s tr = Some (sf, hs)]: every event of the
   history tr is a behaviour of the model; hs are the hypothesis codes per event (Model.v): 0 = all hypotheses hold,
   1 = a candidate sample without any unproposed point was used (exhausted as far as the sampling can tell), >= 2 = schedule /
   option outside the property (stale _next_x, cache hit, one-shot strategy, pinned lbfgs, user initial points).
   [fixed c = true]: the code with fixes/F10 and fixes/F12 (the qLCB branch records what it returns and excludes it within the
   batch; an lbfgs/ga result that is already sampled is replaced by the best filtered candidate). *)
From Coq Require Import List ZArith Bool Arith Permutation.
Import ListNotations.
Require Import DH.C08_NoDup.Model DH.C08_NoDup.Check DH.C08_NoDup.Lemmas DH.C08_NoDup.Lemmas2 DH.C08_NoDup.Lemmas3 DH.C08_NoDup.Lemmas4 DH.C08_NoDup.Lemmas5.
Open Scope Z_scope.

(* _filter_duplicated: when the sample contains a point outside the history, exactly the new points of the sample, once each;
   otherwise (nothing new left - the only case in which a repeat is allowed) the sample unchanged *)
Theorem C08_filter_spec : forall s c,
  ((exists x, In x c /\ ~ In x s) ->
     filter_dup s c <> [] /\ NoDup (filter_dup s c) /\ (forall x, In x (filter_dup s c) <-> In x c /\ ~ In x s))
  /\ ((forall x, In x c -> In x s) -> filter_dup s c = c).
Proof. exact filter_spec. Qed.
Print Assumptions C08_filter_spec.

(* every accepted history, of any length, any strategies, any batch sizes, any surrogate choices, any told results:
   if every hypothesis code is 0 the returned points are pairwise distinct, and sampled is exactly the list of returned points *)
Theorem C08_nodup : forall c n0 ini tr sf hs, fixed c = true ->
  run c (init_st n0 ini) tr = Some (sf, hs) -> Forall (fun h => h = 0%nat) hs ->
  NoDup (returned tr) /\ sampled sf = returned tr.
Proof. exact nodup_main. Qed.
Print Assumptions C08_nodup.

(* the same from any reachable state: nothing already in sampled is returned again *)
Theorem C08_nodup_from : forall c s tr sf hs, fixed c = true -> InvS (fun _ => True) s -> NoDup (sampled s) ->
  run c s tr = Some (sf, hs) -> Forall (fun h => h = 0%nat) hs ->
  NoDup (sampled s ++ returned tr) /\ sampled sf = sampled s ++ returned tr.
Proof. exact nodup_from. Qed.
Print Assumptions C08_nodup_from.

(* finite space U of N tokens, every candidate sample covers U: the first N proposals are N distinct tokens (all of U) *)
Theorem C08_finite_space : forall c n0 ini U tr sf hs, fixed c = true -> NoDup U ->
  run c (init_st n0 ini) tr = Some (sf, hs) -> Forall (fun h => (h <= 1)%nat) hs ->
  Forall (incl U) (flat_map cands tr) -> incl (returned tr) U ->
  NoDup (firstn (length U) (returned tr))
  /\ ((length U <= length (returned tr))%nat -> Permutation (firstn (length U) (returned tr)) U).
Proof. exact finite_main. Qed.
Print Assumptions C08_finite_space.

(* the loop of CBO.search never asks twice in a row (a tell or update_next in between): then the schedule hypotheses hold by
   themselves - only "exhausted" (1) can occur *)
Theorem C08_cbo_schedule : forall c n0 tr sf hs, free_opt c && negb (fixed c) = false -> (0 < n0 \/ dummy c = true) ->
  run c (init_st n0 []) tr = Some (sf, hs) -> alternating false tr = true -> strategies_ok tr = true ->
  Forall (fun h => (h <= 1)%nat) hs.
Proof. exact cbo_schedule. Qed.
Print Assumptions C08_cbo_schedule.

(* asks separated by tells are pairwise distinct as long as every candidate sample used contains an unproposed point *)
Theorem C08_tell_between_asks : forall c n0 tr sf hs, fixed c = true -> (0 < n0 \/ dummy c = true) ->
  run c (init_st n0 []) tr = Some (sf, hs) -> alternating false tr = true -> strategies_ok tr = true ->
  Forall (fun h => h <> 1%nat) hs -> NoDup (returned tr) /\ sampled sf = returned tr.
Proof. exact tell_between_asks. Qed.
Print Assumptions C08_tell_between_asks.

Theorem C08_finite_space_cbo : forall c n0 U tr sf hs, fixed c = true -> NoDup U -> (0 < n0 \/ dummy c = true) ->
  run c (init_st n0 []) tr = Some (sf, hs) -> alternating false tr = true -> strategies_ok tr = true ->
  Forall (incl U) (flat_map cands tr) -> incl (returned tr) U ->
  NoDup (firstn (length U) (returned tr))
  /\ ((length U <= length (returned tr))%nat -> Permutation (firstn (length U) (returned tr)) U).
Proof. exact finite_space_cbo. Qed.
Print Assumptions C08_finite_space_cbo.

(* ---- state that survives between calls ----
   the CBO wrapper (CBO._ask / CBO._tell with the flag _asked_not_told, F50): for EVERY sequence of CBO-level calls - several
   search() calls, calls that stop between an ask and its tell, the public ask / tell interface in any order, fit_surrogate -
   what reaches the optimizer never has two asks in a row *)
Theorem C08_wrapper_alternates : forall ops flag prev, (prev = true -> flag = true) -> alt_k prev (wrap flag ops) = true.
Proof. exact wrap_alternates. Qed.
Print Assumptions C08_wrapper_alternates.

(* hence every observed history whose event kinds are the wrapper's output satisfies the hypothesis of C08_cbo_schedule,
   C08_tell_between_asks and C08_finite_space_cbo, whatever the calls were *)
Theorem C08_wrapper_history_alternates : forall tr ops, kinds_eqb (map kind_of tr) (wrap false ops) = true -> alternating false tr = true.
Proof. exact wrapper_history_alternates. Qed.
Print Assumptions C08_wrapper_history_alternates.

(* warm start (fit_surrogate): n_initial_points = 0 and a first tell of the checkpoint - the schedule hypotheses hold as well *)
Theorem C08_cbo_schedule_warm : forall c n0 k cl tr sf hs, free_opt c && negb (fixed c) = false -> n0 <= 0 -> dummy c = false ->
  run c (init_st n0 []) (Tell k cl :: tr) = Some (sf, hs) -> alternating false tr = true -> strategies_ok tr = true ->
  Forall (fun h => (h <= 1)%nat) hs.
Proof. exact cbo_schedule_warm. Qed.
Print Assumptions C08_cbo_schedule_warm.

(* cache coherence: in every reachable state the ask cache only holds points that are recorded in sampled (so a cache hit, code 3,
   is always a repeat - the reason why CBO has to renew the suggestions instead of asking again) *)
Theorem C08_cache_coherent : forall c n0 ini tr sf hs n strat X, run c (init_st n0 ini) tr = Some (sf, hs) ->
  cache sf = Some (n, strat, X) -> incl X (sampled sf).
Proof. exact cache_coherent. Qed.
Print Assumptions C08_cache_coherent.

(* nothing ever leaves sampled; a tell - also the tell of a checkpoint by fit_surrogate in the MIDDLE of a history - leaves it exactly
   as it is; hence everything handed out before a warm start is still known to the duplicate filter after it, whatever follows.
   (The automaton replays the calls on ONE optimizer state: an implementation that rebuilds the optimizer at fit_surrogate and forgets
   sampled is rejected as soon as it hands out an old configuration.) *)
Theorem C08_tell_keeps_sampled : forall c s k cl s' h b, accept c s (Tell k cl) = inl (s', h, b) -> sampled s' = sampled s.
Proof. exact tell_keeps_sampled. Qed.
Print Assumptions C08_tell_keeps_sampled.

Theorem C08_sampled_only_grows : forall c tr s sf hs, run c s tr = Some (sf, hs) -> exists l, sampled sf = sampled s ++ l.
Proof. exact run_sampled_ext. Qed.
Print Assumptions C08_sampled_only_grows.

Theorem C08_proposed_survive : forall c n0 ini tr1 s1 hs1 tr2 s2 hs2, fixed c = true ->
  run c (init_st n0 ini) tr1 = Some (s1, hs1) -> Forall (fun h => (h <= 1)%nat) hs1 ->
  run c s1 tr2 = Some (s2, hs2) -> incl (returned tr1) (sampled s2).
Proof. exact proposed_survive. Qed.
Print Assumptions C08_proposed_survive.

(* the precondition is needed: two single asks of the model phase without a tell in between return the same point
   (what CBO did when a tell dropped every result, F11) *)
Theorem C08_ask_twice_repeats : forall c s n1 st1 cl1 out1 s1 h1 b1 n2 st2 cl2 out2 s2 h2 b2,
  initial_phase c s = false -> (n1 <= 1)%nat -> (n2 <= 1)%nat ->
  accept c s (Ask n1 st1 cl1 out1) = inl (s1, h1, b1) -> accept c s1 (Ask n2 st2 cl2 out2) = inl (s2, h2, b2) ->
  out2 = out1 /\ h2 = 2%nat.
Proof. exact ask_twice. Qed.
Print Assumptions C08_ask_twice_repeats.

(* the pinned qLCB branch (F10): an accepted ask/tell history of the pinned model with every hypothesis code 0 in which a point
   is returned twice within a batch (4, 4) and again in a later batch (3) - nothing was recorded in sampled; the repaired model
   rejects it *)
Theorem C08_qlcb_refuted :
  (exists sf, run pinned_cfg (init_st 2 []) qlcb_witness = Some (sf, [0;0;0;0;0]%nat) /\ sampled sf = [1;2;3])
  /\ alternating false qlcb_witness = true /\ strategies_ok qlcb_witness = true
  /\ returned qlcb_witness = [1;2;3;4;4;3] /\ ~ NoDup (returned qlcb_witness)
  /\ run fixed_cfg (init_st 2 []) qlcb_witness = None.
Proof. exact qlcb_refuted. Qed.
Print Assumptions C08_qlcb_refuted.

(* the pinned lbfgs / ga step (F12): its result is unconstrained (code 5) and may repeat; the repaired model rejects the repeat *)
Theorem C08_prefix_lbfgs_refuted :
  (exists sf, run (mkCfg false true false) (init_st 2 []) lbfgs_witness = Some (sf, [0;0;5]%nat))
  /\ alternating false lbfgs_witness = true /\ ~ NoDup (returned lbfgs_witness)
  /\ run (mkCfg false true true) (init_st 2 []) lbfgs_witness = None.
Proof. exact lbfgs_refuted. Qed.
Print Assumptions C08_prefix_lbfgs_refuted.

(* the automaton does not block (its requirements are satisfiable in every state): whatever the candidate samples, a constant-liar
   batch and a repaired qLCB batch of any size are accepted for the choice "head of each filtered sample" *)
Theorem C08_cl_enabled : forall c s n strat cl, (2 <= n)%nat -> initial_phase c s = false -> is_oneshot strat = false ->
  is_qlcb strat = false -> cache s = None -> next s <> NoNext -> length cl = n -> Forall (fun cand => cand <> []) cl ->
  exists s' h, accept c s (Ask n strat cl (first_picks (sampled s) cl)) = inl (s', h, 8%nat).
Proof. exact cl_enabled. Qed.
Print Assumptions C08_cl_enabled.

Theorem C08_qlcb_enabled : forall c s n strat cand0 sf cand, fixed c = true -> (2 <= n)%nat -> initial_phase c s = false ->
  is_oneshot strat = false -> is_qlcb strat = true -> has_model s = true -> next s = Pending cand0 sf -> cand0 <> [] -> cand <> [] ->
  let x0 := hd 0 (filter_dup sf cand0) in
  exists s' h, accept c s (Ask n strat [cand] (x0 :: first_picks (sampled s ++ [x0]) (repeat cand (n - 1)))) = inl (s', h, 6%nat).
Proof. exact qlcb_enabled. Qed.
Print Assumptions C08_qlcb_enabled.

(* the oracles applied to the implementation's outputs *)
Theorem C08_oracle_prefix : forall N l, ok_prefix N l = true <-> NoDup (firstn N l).
Proof. exact ok_prefix_spec. Qed.
Print Assumptions C08_oracle_prefix.

Theorem C08_replay_is_run : forall c tr s i l sf, replay c s i tr = (None, l, sf) -> run c s tr = Some (sf, map fst l).
Proof. exact replay_run. Qed.
Print Assumptions C08_replay_is_run.

(* non-vacuity: an accepted history through the initial batch, tell with fit, repaired qLCB batch, constant-liar batch, update_next,
   single ask, with every hypothesis code 0 - then, the space being exhausted, a repeat with code 1 *)
Definition u8 := [1;2;3;4;5;6;7;8].
Definition example_history : list event :=
  [ Ask 2 5 [u8] [1;2]; Tell 2 [[8;7;6;5;4;3;2;1]]; Ask 3 5 [u8] [8;3;4]; Tell 1 [u8]; Ask 2 2 [u8; u8] [5;6];
    UpdateNext [u8]; Ask 1 2 [] [7] ].

Example C08_example :
  (exists sf, run fixed_cfg (init_st 2 []) example_history = Some (sf, [0;0;0;0;0;0;0]%nat) /\ sampled sf = [1;2;8;3;4;5;6;7])
  /\ alternating false example_history = true /\ strategies_ok example_history = true
  /\ (exists sf, run fixed_cfg (init_st 2 []) (example_history ++ [Tell 1 [u8]; Ask 1 2 [] [3]]) = Some (sf, [0;0;0;0;0;0;0;0;1]%nat)).
Proof. split; [eexists; vm_compute; split; reflexivity|]. split; [reflexivity|]. split; [reflexivity|]. eexists; vm_compute; reflexivity. Qed.

(* the hypotheses of C08_finite_space_cbo are satisfiable by that history *)
Example C08_example_finite : Forall (incl u8) (flat_map cands example_history) /\ incl (returned example_history) u8 /\ NoDup u8.
Proof.
  split; [|split].
  - apply (forallb_Forall (inclb u8)); [intros c; apply inclb_incl| reflexivity].
  - apply inclb_incl. reflexivity.
  - apply nodupb_spec. reflexivity.
Qed.
