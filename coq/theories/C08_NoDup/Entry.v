(* Entry points for the extracted driver: data -> data *)
From Coq Require Import List ZArith Bool.
Import ListNotations.
Require Import DH.Common.Data DH.C08_NoDup.Model DH.C08_NoDup.Check.
Open Scope Z_scope.

Definition d_zl (d : data) : list Z := dmap dZ d.
Definition d_cl (d : data) : list (list Z) := dmap d_zl d.

(* [0; n; strat; cl; out] | [1; n_ok; cl] | [2; cl] *)
Definition d_event (d : data) : event :=
  let k := dZ (dnth 0 d) in
  if k =? 0 then Ask (dnat (dnth 1 d)) (dnat (dnth 2 d)) (d_cl (dnth 3 d)) (d_zl (dnth 4 d))
  else if k =? 1 then Tell (dnat (dnth 1 d)) (d_cl (dnth 2 d))
  else UpdateNext (d_cl (dnth 1 d)).

Definition d_cfg (d : data) : cfg := mkCfg (dbool (dnth 0 d)) (dbool (dnth 1 d)) (dbool (dnth 2 d)).

(* 801: [[dummy; free_opt; fixed]; n_initial_points; initial points; history]
        -> [accepted; index of the rejected event; rejection code; [(hypothesis code, branch)] of the accepted events; sampled reached] *)
Definition e_replay (d : data) : data :=
  let c := d_cfg (dnth 0 d) in
  let s := init_st (dZ (dnth 1 d)) (d_zl (dnth 2 d)) in
  let '(r, l, sf) := replay c s 0 (dmap d_event (dnth 3 d)) in
  L [ ebool (match r with None => true | _ => false end);
      enat (match r with Some (i, _) => i | None => 0%nat end);
      enat (match r with Some (_, code) => code | None => 0%nat end);
      elist (epair enat enat) l;
      elist eZ (sampled sf) ].

(* 802: [N; proposals] -> [first N proposals pairwise distinct; index of the first repeated proposal or -1] *)
Definition e_prefix (d : data) : data :=
  let l := d_zl (dnth 1 d) in
  L [ ebool (ok_prefix (dnat (dnth 0 d)) l); match first_dup l with Some i => enat i | None => I (-1) end ].

Definition d_cop (d : data) : cop :=
  let k := dZ (dnth 0 d) in
  if k =? 0 then CAsk else if k =? 1 then CTell (dbool (dnth 1 d)) (dbool (dnth 2 d)) else CDirectTell.
Definition d_kind (d : data) : kind := let k := dZ d in if k =? 0 then KAsk else if k =? 1 then KTell else KUpd.
Definition e_kind (k : kind) : data := I (match k with KAsk => 0 | KTell => 1 | KUpd => 2 end).

(* 805: [CBO-level calls; observed kinds of the optimizer-level events] -> [observed = wrap false calls; wrap false calls; observed alternates] *)
Definition e_wrap (d : data) : data :=
  let ops := dmap d_cop (dnth 0 d) in
  let ks := dmap d_kind (dnth 1 d) in
  L [ ebool (kinds_eqb ks (wrap false ops)); elist e_kind (wrap false ops); ebool (alt_k false ks) ].

Definition entries : list (Z * (data -> data)) :=
  [ (801, e_replay);
    (802, e_prefix);
    (803, fun d => elist eZ (filter_dup (d_zl (dnth 0 d)) (d_zl (dnth 1 d))));
    (804, fun d => ebool (has_new (d_zl (dnth 0 d)) (d_zl (dnth 1 d))));
    (805, e_wrap) ].
