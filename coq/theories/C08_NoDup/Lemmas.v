(* C08: _filter_duplicated, chains of picks, NoDup of every chain whose candidate samples contain something new *)
From Coq Require Import List ZArith Bool Arith Lia Permutation.
Import ListNotations.
Require Import DH.Common.ListSet DH.C08_NoDup.Model DH.C08_NoDup.Check.
Open Scope Z_scope.

(* ---------------- news / has_new / filter_dup ---------------- *)
Lemma news_In : forall c s x, In x (news s c) <-> In x c /\ ~ In x s.
Proof.
  induction c as [|y t IH]; intros s x; cbn [news].
  - split; [intros []| intros [[] _]].
  - destruct (memz y s) eqn:E.
    + apply memz_In in E. rewrite IH. split.
      * intros [H1 H2]. split; [right; exact H1| exact H2].
      * intros [[<-|H1] H2]; [contradiction| split; assumption].
    + apply memz_false in E. cbn [In]. rewrite IH. split.
      * intros [<-|[H1 H2]]; [split; [left; reflexivity| exact E]|].
        split; [right; exact H1| intros H; apply H2; right; exact H].
      * intros [[<-|H1] H2]; [left; reflexivity|].
        destruct (Z.eq_dec y x) as [->|Hne]; [left; reflexivity|].
        right. split; [exact H1| intros [H|H]; [contradiction| contradiction]].
Qed.

Lemma news_NoDup : forall c s, NoDup (news s c).
Proof.
  induction c as [|y t IH]; intros s; cbn [news]; [constructor|].
  destruct (memz y s); [apply IH|]. constructor; [|apply IH].
  intros H. apply news_In in H. apply (proj2 H). left; reflexivity.
Qed.

Lemma has_new_true s c : has_new s c = true <-> exists x, In x c /\ ~ In x s.
Proof.
  unfold has_new. rewrite existsb_exists. split; intros [x [H1 H2]]; exists x; split; try exact H1.
  - apply memz_false. destruct (memz x s); [discriminate| reflexivity].
  - apply memz_false in H2. rewrite H2. reflexivity.
Qed.

Lemma has_new_false s c : has_new s c = false <-> forall x, In x c -> In x s.
Proof.
  split.
  - intros H x Hx. destruct (memz x s) eqn:E; [apply memz_In; exact E|].
    exfalso. assert (X : has_new s c = true) by (apply has_new_true; exists x; split; [exact Hx| apply memz_false; exact E]). congruence.
  - intros H. destruct (has_new s c) eqn:E; [|reflexivity]. apply has_new_true in E as [x [H1 H2]]. exfalso. apply H2, H, H1.
Qed.

Lemma news_nil s c : news s c = [] <-> has_new s c = false.
Proof.
  rewrite has_new_false. split.
  - intros H x Hx. destruct (memz x s) eqn:E; [apply memz_In; exact E|]. apply memz_false in E.
    assert (X : In x (news s c)) by (apply news_In; split; assumption). rewrite H in X. destruct X.
  - intros H. destruct (news s c) as [|y l] eqn:E; [reflexivity|].
    assert (X : In y (news s c)) by (rewrite E; left; reflexivity). apply news_In in X as [X1 X2]. exfalso. apply X2, H, X1.
Qed.

Lemma filter_dup_new s c : has_new s c = true -> filter_dup s c = news s c /\ news s c <> [].
Proof.
  intros H. unfold filter_dup. destruct (news s c) eqn:E; [|split; [reflexivity| discriminate]].
  apply news_nil in E. congruence.
Qed.

Lemma filter_dup_old s c : has_new s c = false -> filter_dup s c = c.
Proof. intros H. unfold filter_dup. apply news_nil in H. rewrite H. reflexivity. Qed.

Theorem filter_spec s c :
  ((exists x, In x c /\ ~ In x s) ->
     filter_dup s c <> [] /\ NoDup (filter_dup s c) /\ (forall x, In x (filter_dup s c) <-> In x c /\ ~ In x s))
  /\ ((forall x, In x c -> In x s) -> filter_dup s c = c).
Proof.
  split.
  - intros H. apply has_new_true in H. destruct (filter_dup_new s c H) as [-> Hne].
    split; [exact Hne|]. split; [apply news_NoDup| intros x; apply news_In].
  - intros H. apply filter_dup_old, has_new_false, H.
Qed.

Lemma filter_dup_In_new s c x : has_new s c = true -> In x (filter_dup s c) -> In x c /\ ~ In x s.
Proof. intros H. destruct (filter_dup_new s c H) as [-> _]. apply news_In. Qed.

Lemma has_new_mono s s' c : (forall x, In x s -> In x s') -> has_new s c = false -> has_new s' c = false.
Proof. rewrite !has_new_false. intros H H1 x Hx. apply H, H1, Hx. Qed.

(* ---------------- chains of picks ---------------- *)
(* x may be returned when the history is s and the candidate sample is c *)
Definition PickOK (s c : list Z) (x : Z) : Prop := In x (filter_dup s c) \/ ~ In x s.

Inductive Chain (G : list Z -> list Z -> Prop) : list Z -> list Z -> Prop :=
| Chain_nil s : Chain G s []
| Chain_cons s c x xs : PickOK s c x -> G s c -> Chain G (s ++ [x]) xs -> Chain G s (x :: xs).

Lemma chain_weaken (G G' : list Z -> list Z -> Prop) : (forall s c, G s c -> G' s c) -> forall s xs, Chain G s xs -> Chain G' s xs.
Proof. intros H s xs C. induction C as [s|s c x xs P Hg C IH]; [constructor| econstructor; eauto]. Qed.

Lemma chain_app G : forall xs s ys, Chain G s xs -> Chain G (s ++ xs) ys -> Chain G s (xs ++ ys).
Proof.
  induction xs as [|x xs IH]; intros s ys C1 C2; cbn.
  - rewrite app_nil_r in C2. exact C2.
  - inversion C1 as [|? c ? ? P Hg C]; subst. econstructor; [exact P| exact Hg|].
    apply IH; [exact C|]. rewrite <- app_assoc. exact C2.
Qed.

(* every pick made while the candidate sample contains something new is new *)
Lemma pick_new s c x : PickOK s c x -> has_new s c = true -> ~ In x s.
Proof. intros [H|H] Hn; [apply (filter_dup_In_new s c x Hn H)| exact H]. Qed.

Theorem chain_nodup : forall s xs, Chain (fun s c => has_new s c = true) s xs -> NoDup s -> NoDup (s ++ xs).
Proof.
  intros s xs C. induction C as [s|s c x xs P Hg C IH]; intros Hnd; [rewrite app_nil_r; exact Hnd|].
  replace (s ++ x :: xs) with ((s ++ [x]) ++ xs) by (rewrite <- app_assoc; reflexivity).
  apply IH. apply NoDup_app_intro; [exact Hnd| constructor; [intros []| constructor]|].
  intros y Hy [E|[]]. subst y. exact (pick_new s c x P Hg Hy).
Qed.

(* finite space U: as long as fewer than |U| distinct points were proposed every covering sample contains a new one *)
Lemma pigeon (U s : list Z) : NoDup U -> (length s < length U)%nat -> exists u, In u U /\ ~ In u s.
Proof.
  intros Hnd Hlen. destruct (existsb (fun u => negb (memz u s)) U) eqn:E.
  - apply existsb_exists in E as [u [H1 H2]]. exists u. split; [exact H1|]. apply memz_false. destruct (memz u s); [discriminate| reflexivity].
  - exfalso. assert (Hincl : incl U s).
    { intros u Hu. destruct (memz u s) eqn:M; [apply memz_In; exact M|].
      assert (X : existsb (fun u => negb (memz u s)) U = true) by (apply existsb_exists; exists u; split; [exact Hu| rewrite M; reflexivity]). congruence. }
    pose proof (NoDup_incl_length Hnd Hincl). lia.
Qed.

Lemma firstn_app_short {A} (n : nat) (l l' : list A) : (length l < n)%nat -> firstn n (l ++ l') = l ++ firstn (n - length l) l'.
Proof. intros H. rewrite firstn_app. rewrite firstn_all2 by lia. reflexivity. Qed.

Lemma firstn_app_long {A} (n : nat) (l l' : list A) : (n <= length l)%nat -> firstn n (l ++ l') = firstn n l.
Proof. intros H. rewrite firstn_app. replace (n - length l)%nat with 0%nat by lia. cbn. apply app_nil_r. Qed.

Lemma NoDup_firstn {A} (n : nat) (l : list A) : NoDup l -> NoDup (firstn n l).
Proof. intros H. rewrite <- (firstn_skipn n l) in H. exact (NoDup_app_l _ _ H). Qed.

Theorem chain_finite (U : list Z) : NoDup U -> forall s xs, Chain (fun _ c => incl U c) s xs ->
  NoDup (firstn (length U) s) -> incl (s ++ xs) U -> NoDup (firstn (length U) (s ++ xs)).
Proof.
  intros HU s xs C. induction C as [s|s c x xs P Hg C IH]; intros Hnd Hin; [rewrite app_nil_r; exact Hnd|].
  replace (s ++ x :: xs) with ((s ++ [x]) ++ xs) in * by (rewrite <- app_assoc; reflexivity).
  apply IH; [|exact Hin].
  destruct (Nat.lt_ge_cases (length s) (length U)) as [Hlt|Hge].
  - rewrite firstn_all2 in Hnd by lia.
    destruct (pigeon U s HU Hlt) as [u [Hu1 Hu2]].
    assert (Hn : has_new s c = true) by (apply has_new_true; exists u; split; [apply Hg, Hu1| exact Hu2]).
    apply NoDup_firstn. apply NoDup_app_intro; [exact Hnd| constructor; [intros []| constructor]|].
    intros y Hy [E|[]]. subst y. exact (pick_new s c x P Hn Hy).
  - rewrite firstn_app_long by exact Hge. exact Hnd.
Qed.
