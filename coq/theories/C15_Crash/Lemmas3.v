(* C15: statements at every crash point for the repaired code, today's append phase, and the refutations for today's code. *)
From Coq Require Import List ZArith Bool Arith Lia.
Import ListNotations.
Require Import DH.C04_Results.Model DH.C04_Results.Check DH.C04_Results.Lemmas DH.C04_Results.Lemmas2 DH.C04_Results.Lemmas3.
Require Import DH.C15_Crash.Model DH.C15_Crash.Check DH.C15_Crash.Lemmas DH.C15_Crash.Lemmas2.
Open Scope Z_scope.

Lemma trace_unfold v fs acts : trace v fs acts = snd (fold_left (act v) acts (sinit, fs, [])).
Proof. reflexivity. Qed.

(* ---------- repaired code, log_dir without results.csv ---------- *)
Theorem fixed_session d0 acts known :
  fget d0 fresults = None -> cands_ok (sinit, mkFs d0 None, []) acts -> incl (act_ids acts) known ->
  let tr := trace Fixed (mkFs d0 None) acts in
  (forall k, Good known (crash (mkFs d0 None) tr k))
  /\ (forall j k, (j <= k)%nat -> NoLoss (crash (mkFs d0 None) tr j) (crash (mkFs d0 None) tr k)).
Proof.
  intros H0 Hc Hk. cbn zeta. rewrite trace_unfold.
  assert (J0 : J sinit (mkFs d0 None) []).
  { split; [reflexivity|]. left. repeat split; try reflexivity. exact H0. }
  assert (G0 : Good known d0) by (left; exact H0).
  destruct (session_from acts sinit (mkFs d0 None) [] [] known J0 G0 Hk Hc) as (tr' & E1 & _ & _ & [S1 S2] & _).
  cbn zeta in E1. rewrite E1. cbn [app]. split.
  - intros k. pose proof (crash_in (mkFs d0 None) tr' k) as Hin. unfold disks in Hin. destruct Hin as [<-|Hin]; [exact G0|].
    rewrite Forall_forall in S1. apply S1. exact Hin.
  - intros j k Hjk. apply (chain_crash NoLoss NoLoss_refl NoLoss_trans); assumption.
Qed.

(* ---------- repaired code, restart on ANY surviving directory: the new search renames results.csv to a free name ---------- *)
Theorem fixed_restart d0 cands rest known :
  cands_ok (sinit, mkFs d0 None, []) (ANew cands :: rest) -> incl (act_ids rest) known ->
  let tr := trace Fixed (mkFs d0 None) (ANew cands :: rest) in
  (forall k, crash (mkFs d0 None) tr k = d0 \/ Good known (crash (mkFs d0 None) tr k))
  /\ (forall j k, (j <= k)%nat -> NoLoss (crash (mkFs d0 None) tr j) (crash (mkFs d0 None) tr k)).
Proof.
  intros [Hca Hcr] Hk. cbn zeta. rewrite trace_unfold. cbn [fold_left act fst snd disk]. cbn [act fst snd disk] in Hca, Hcr.
  destruct (new_ops_fixed d0 cands known Hca) as (J1 & G1 & C1 & _ & _). cbn zeta in *.
  set (ops := new_ops Fixed d0 cands) in *.
  assert (Hg1 : Good known (disk (exec (mkFs d0 None) ops))).
  { destruct J1 as [_ [(_ & _ & _ & _ & H0)|(Hst & _)]]; [left; exact H0|cbn in Hst; discriminate]. }
  destruct (session_from rest sinit (exec (mkFs d0 None) ops) ([] ++ ops) [] known J1 Hg1 Hk Hcr) as (tr' & E1 & _ & _ & [S1 S2] & _).
  cbn zeta in E1. rewrite E1. cbn [app].
  assert (HS : Forall (Good known) (steps (mkFs d0 None) (ops ++ tr')) /\ chain_from NoLoss d0 (steps (mkFs d0 None) (ops ++ tr'))).
  { rewrite steps_app. split; [apply Forall_app; split; assumption|]. apply chain_from_app. split; [exact C1|]. rewrite last_steps. exact S2. }
  destruct HS as [HF HC]. split.
  - intros k. pose proof (crash_in (mkFs d0 None) (ops ++ tr') k) as Hin. unfold disks in Hin. cbn [disk] in Hin.
    destruct Hin as [E|Hin]; [left; symmetry; exact E|right]. rewrite Forall_forall in HF. apply HF. exact Hin.
  - intros j k Hjk. apply (chain_crash NoLoss NoLoss_refl NoLoss_trans); assumption.
Qed.

(* what the rename does: every other file keeps its content, results.csv moves to a name that did not exist *)
Theorem rename_distinct d cands : cands_free d cands ->
  let d' := disk (exec (mkFs d None) (new_ops Fixed d cands)) in
  fget d' fresults = None
  /\ (forall f c, f <> fresults -> fget d f = Some c -> fget d' f = Some c)
  /\ (forall c, fget d fresults = Some c -> exists f, In f cands /\ fget d f = None /\ fget d' f = Some c).
Proof.
  intros Hc. destruct (new_ops_fixed d cands [] Hc) as (J1 & _ & _ & Hkeep & Hmove). cbn zeta in *.
  split; [|split].
  - destruct J1 as [_ [(_ & _ & _ & _ & H0)|(Hst & _)]]; [exact H0|cbn in Hst; discriminate].
  - exact Hkeep.
  - intros c H0. destruct (Hmove c H0) as [H1 H2]. exists (pick_name Fixed d cands). split; [|split; assumption].
    apply pick_free. exact Hc.
Qed.

(* ---------- today's code: the append phase ---------- *)
(* once the header is on disk, every crash point of a dump leaves a well-formed file that has all the rows it had *)
Theorem today_append_phase s seen new fl known fs :
  J s fs seen -> started (fst s) = true -> incl (map jid (seen ++ new)) known ->
  let r := dump_ops Today s (new, fl) in
  J (fst r) (exec fs (snd r)) (seen ++ new) /\ Steps known fs (snd r).
Proof.
  destruct s as [st tbl]. destruct fs as [d hd]. unfold J. cbn [fst snd handle disk].
  intros [Hh HJ] Hst Hk. subst hd. unfold dump_ops. cbn [fst snd infer_of].
  set (st1 := mkD (columns st) (started st) (nobj st) (pending st ++ new)).
  destruct HJ as [(Hs & _)|(Hs & h & c & n & Hc & Hh & Hid & Hp & Hlen & Hrid & Hf & Hn & Hrows & Hids)]; [congruence|].
  destruct (pending st1) as [|j t] eqn:Ep.
  - rewrite (dump_nil infer_pinned st1 fl Ep). cbn [fst snd exec fold_left handle disk append].
    assert (Hnew : new = []). { subst st1. cbn [pending] in Ep. rewrite Hp in Ep. exact Ep. }
    subst new. rewrite !app_nil_r.
    split; [|apply Steps_nil]. split; [reflexivity|]. right. subst st1. cbn [pending started columns] in *.
    split; [exact Hs|]. exists h, c, n. repeat split; assumption.
  - rewrite (dump_started infer_pinned st1 fl j t h Ep Hs Hc). cbn [fst snd columns append].
    assert (Hst1 : started st1 = true) by exact Hs. rewrite Hst1.
    set (m := infer_pinned (nobj st1) (pending st1)).
    set (rows := map (project h) (map (mkresult m) (pending st1))).
    assert (Hp1 : pending st1 = new). { subst st1. cbn [pending]. rewrite Hp. reflexivity. }
    assert (Hrid2 : map (row_id h) rows = map jid new).
    { unfold rows. rewrite Hp1, !map_map. apply map_ext. intros j1. apply row_id_project. exact Hid. }
    assert (Hlen2 : Forall (fun r => length r = length h) rows).
    { unfold rows. apply Forall_forall. intros r Hr. apply in_map_iff in Hr as [x [<- _]]. apply project_length. }
    change ([OpenA fresults] ++ map (fun l => Write fresults [l]) ([] ++ lines_of h rows) ++ [Close fresults])
      with (via_append (lines_of h rows)).
    pose proof (in_cid_pos h Hid) as Hpos.
    assert (Hrk : forallb (row_ok n) (lines_of h rows) = true) by (apply rows_ok_lines; assumption).
    destruct (Steps_via_append known d n c (lines_of h rows) Hf ltac:(lia) Hrows Hrk) as (S1 & S2 & S3).
    { rewrite Hids, ids_lines, Hrid2, <- map_app. exact Hk. }
    split; [|exact S1].
    split; [exact S3|]. right. cbn [started columns pending]. split; [reflexivity|].
    exists h, (c ++ lines_of h rows), n. cbn [fst snd append].
    repeat split; try assumption; try reflexivity; try (apply Forall_app; split; assumption);
      try (rewrite !map_app, Hrid, Hrid2; reflexivity); try (rewrite forallb_app, Hrows, Hrk; reflexivity);
      try (rewrite ids_app, Hids, ids_lines, Hrid2, map_app; reflexivity).
Qed.

(* ---------- refutations for today's code ---------- *)
Definition jS (i : Z) : job := mkJob i [(1, Num 0)] (Plain (PObj (ONum (Fin i)))) 3 [] [].
Definition jF (i : Z) : job := mkJob i [(1, Num 0)] (Plain (PObj (OStr 9))) 3 [] [].
Definition jT (i : Z) : job := mkJob i [(1, Num 0)] (Plain (PObj (OTup [i; 1]))) 3 [] [].

(* F22: the first dump opens results.csv with "w": a kill before the close leaves a zero-byte file (nothing is lost, but
   it is not a results file); and while every evaluation failed the file stays empty after the close as well *)
Theorem zero_byte_refuted :
  let tr := trace Today fs0 [ANew [7]; ADump ([jS 1], false)] in
  tr = [OpenW fresults; Write fresults [LH 4]; Write fresults [LR 1 4]; Close fresults]
  /\ crash fs0 tr 1 = [(fresults, [])] /\ ok_survivors [1] (crash fs0 tr 1) = false
  /\ ok_survivors [1] (crash fs0 tr 4) = true
  /\ (let tr2 := trace Today fs0 [ANew [7]; ADump ([jF 1], false)] in
      tr2 = [OpenW fresults; Close fresults] /\ crash fs0 tr2 2 = [(fresults, [])] /\ ok_survivors [1] (crash fs0 tr2 2) = false)
  /\ ok_trace [1] (trace Fixed fs0 [ANew [7]; ADump ([jS 1], false)]) = true
  /\ trace Fixed fs0 [ANew [7]; ADump ([jF 1], false)] = [].
Proof. vm_compute. repeat split; reflexivity. Qed.

(* F14: the Pareto rewrite truncates results.csv in place: a kill inside the window destroys the durable rows *)
Theorem rewrite_refuted :
  let tr := trace Today fs0 [ANew [7]; ADump ([jT 1], false); ADump ([], true); AEnd] in
  tr = [OpenW fresults; Write fresults [LH 5]; Write fresults [LR 1 5]; Close fresults;
        OpenW fresults; Write fresults [LH 6; LR 1 6]; Close fresults]
  /\ csv_ids (crash fs0 tr 4) = [1] /\ csv_ids (crash fs0 tr 5) = [] /\ csv_ids (crash fs0 tr 6) = []
  /\ csv_ids (crash fs0 tr 7) = [1]
  /\ ok_trace [1] tr = false
  /\ ok_trace [1] (trace Fixed fs0 [ANew [7]; ADump ([jT 1], false); ADump ([], true); AEnd]) = true.
Proof. vm_compute. repeat split; reflexivity. Qed.

(* F15: the name of the renamed file depends on the second only: the third search created within one second overwrites
   the results of the first; with a free name (Fixed, candidates 7, 8, ...) nothing is lost *)
Definition three_searches (c1 c2 c3 : list fname) : list action :=
  [ANew c1; ADump ([jS 1], true); AEnd; ANew c2; ADump ([jS 1001], true); AEnd; ANew c3; ADump ([jS 2001], true); AEnd].

Theorem rename_refuted :
  let tr := trace Today fs0 (three_searches [7; 8] [7; 8] [7; 8]) in
  csv_ids (disk (exec fs0 tr)) = [2001; 1001]
  /\ ok_trace [1; 1001; 2001] tr = false
  /\ first_loss (disk fs0) (steps fs0 tr) 1 = Some 10%nat
  /\ nth_error tr 9 = Some (Rename fresults 7)
  /\ (let trf := trace Fixed fs0 (three_searches [7; 8] [7; 8] [7; 8]) in
      ok_trace [1; 1001; 2001] trf = true /\ csv_ids (disk (exec fs0 trf)) = [2001; 1001; 1]).
Proof. vm_compute. repeat split; reflexivity. Qed.

(* ---------- completeness after a restart: what the new search gathered is in the new results.csv ---------- *)
Lemma dump_flush_pending v s seen fs new : J s fs seen -> pending (fst (fst (dump_ops v s (new, true)))) = [].
Proof.
  destruct s as [st tbl]. unfold J. cbn [fst snd]. intros [_ HJ]. unfold dump_ops. cbn [fst snd].
  set (st1 := mkD (columns st) (started st) (nobj st) (pending st ++ new)).
  assert (Hp : pending (fst (dump (infer_of v) st1 true)) = []).
  { destruct HJ as [(Hs & Hc & _)|(Hs & h & c & n & Hc & _)].
    - destruct (pending st1) as [|j t] eqn:Ep; [rewrite (dump_nil _ st1 true Ep); exact Ep|].
      destruct (find (fun r => is_success r || true) (map (mkresult (infer_of v (nobj st1) (pending st1))) (pending st1))) as [r|] eqn:Ef.
      + rewrite (dump_first _ st1 true j t r Ep Hs Ef). reflexivity.
      + exfalso. rewrite Ep in Ef. cbn [map find] in Ef. rewrite orb_true_r in Ef. discriminate.
    - destruct (pending st1) as [|j t] eqn:Ep; [rewrite (dump_nil _ st1 true Ep); exact Ep|].
      rewrite (dump_started _ st1 true j t h Ep Hs Hc). reflexivity. }
  destruct (pending st1); [exact Hp|]. destruct (columns (fst (dump (infer_of v) st1 true))); [|exact Hp].
  destruct (started st1); [exact Hp|]. destruct v; exact Hp.
Qed.

Lemma J_complete s fs seen : J s fs seen -> pending (fst s) = [] ->
  seen = [] \/ exists n c, fget (disk fs) fresults = Some (LH n :: c) /\ ids c = map jid seen.
Proof.
  intros [_ [(_ & _ & _ & Hp & _)|(_ & h & c & n & _ & _ & _ & _ & _ & _ & Hf & _ & _ & Hi)]] H0.
  - left. rewrite <- Hp. exact H0.
  - right. exists n, c. split; assumption.
Qed.

Lemma cands_ok_app a : forall x b, cands_ok x (a ++ b) -> cands_ok x a /\ cands_ok (fold_left (act Fixed) a x) b.
Proof.
  induction a as [|y t IH]; intros x b H; cbn [app cands_ok fold_left] in *; [split; [exact I|exact H]|].
  destruct H as [H1 H2]. destruct (IH _ _ H2) as [H3 H4]. repeat split; assumption.
Qed.

Lemma seen_after_app a : forall seen b, seen_after seen (a ++ b) = seen_after (seen_after seen a) b.
Proof. induction a as [|[c|e|] t IH]; intros seen b; cbn [app seen_after]; [reflexivity|apply IH..]. Qed.

Lemma act_ids_app a b : act_ids (a ++ b) = act_ids a ++ act_ids b.
Proof.
  induction a as [|[c|e|] t IH]; cbn [app act_ids]; [reflexivity|exact IH| |exact IH]. rewrite IH. apply app_assoc.
Qed.

(* a restart whose new search ends with its forced dump (optionally followed by the Pareto step): results.csv holds exactly
   the evaluations the new search gathered - whatever the kill left in the directory, stale temporary file included *)
Theorem fixed_restart_complete d0 cands pre new tail :
  cands_ok (sinit, mkFs d0 None, []) (ANew cands :: pre ++ ADump (new, true) :: tail) -> (tail = [] \/ tail = [AEnd]) ->
  let acts := ANew cands :: pre ++ ADump (new, true) :: tail in
  let seen := seen_after [] (pre ++ ADump (new, true) :: tail) in
  let d := disk (exec (mkFs d0 None) (trace Fixed (mkFs d0 None) acts)) in
  seen = [] \/ exists n c, fget d fresults = Some (LH n :: c) /\ ids c = map jid seen.
Proof.
  intros [Hca Hcr] Htail. cbn zeta. rewrite trace_unfold. cbn [fold_left act fst snd disk]. cbn [act fst snd disk] in Hca, Hcr.
  set (known := act_ids (pre ++ ADump (new, true) :: tail)).
  destruct (new_ops_fixed d0 cands known Hca) as (J1 & _ & _ & _ & _). cbn zeta in *.
  set (ops := new_ops Fixed d0 cands) in *.
  assert (Hg1 : Good known (disk (exec (mkFs d0 None) ops))).
  { destruct J1 as [_ [(_ & _ & _ & _ & H0)|(Hst & _)]]; [left; exact H0|cbn in Hst; discriminate]. }
  (* the whole rest: trace and final state *)
  destruct (session_from (pre ++ ADump (new, true) :: tail) sinit (exec (mkFs d0 None) ops) ([] ++ ops) [] known J1 Hg1
              (incl_refl _) Hcr) as (tr' & E1 & E2 & J2 & _ & _).
  cbn zeta in E1, E2, J2. rewrite E1. cbn [app]. rewrite exec_app, <- E2.
  apply (J_complete _ _ _ J2).
  (* nothing is pending at the end *)
  destruct (cands_ok_app pre _ _ Hcr) as [Hc1 Hc2].
  assert (Hk1 : incl (map jid [] ++ act_ids pre) known).
  { unfold known. rewrite act_ids_app. cbn [map app]. apply incl_appl, incl_refl. }
  destruct (session_from pre sinit (exec (mkFs d0 None) ops) ([] ++ ops) [] known J1 Hg1 Hk1 Hc1) as (tr1 & _ & _ & J3 & _ & _).
  cbn zeta in J3. rewrite fold_left_app. cbn [fold_left].
  destruct (fold_left (act Fixed) pre (sinit, exec (mkFs d0 None) ops, [] ++ ops)) as [[s1 fs1] t1]. cbn [fst snd] in J3.
  assert (Hp : pending (fst (fst (dump_ops Fixed s1 (new, true)))) = []) by (apply (dump_flush_pending Fixed s1 _ fs1 new J3)).
  destruct Htail as [->| ->]; cbn [fold_left act fst snd]; exact Hp.
Qed.
