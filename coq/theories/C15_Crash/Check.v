(* C15: boolean oracles applied to what the crash-injection harness observes, and their specifications.
   - ok_survivors: the files found after the kill (the REAL bytes, parsed into lines by the harness);
   - ok_trace: the recorded operation sequence of an un-crashed run, replayed in the file-system model:
     at EVERY crash point every *.csv file is well formed and no durable row id is ever lost. *)
From Coq Require Import List ZArith Bool Arith Lia.
Import ListNotations.
Require Import DH.C04_Results.Model DH.C15_Crash.Model.
Open Scope Z_scope.

Definition zmem (z : Z) (l : list Z) : bool := existsb (Z.eqb z) l.
Fixpoint znodup (l : list Z) : bool := match l with [] => true | x :: t => negb (zmem x t) && znodup t end.

(* a results file: header line, complete rows, rows of evaluations that finished, no evaluation twice *)
Definition ok_file (finished : list Z) (c : content) : bool :=
  wellformed c && forallb (fun i => zmem i finished) (ids c) && znodup (ids c).

Definition FileSpec (finished : list Z) (c : content) : Prop :=
  (exists n rows, c = LH n :: rows /\ (1 <= n)%nat
     /\ Forall (fun l => exists i m, l = LR i m /\ (1 <= m <= n)%nat) rows)
  /\ incl (ids c) finished /\ NoDup (ids c).

(* every *.csv file that exists (results.csv: "absent or well formed") *)
Definition ok_survivors (finished : list Z) (d : files) : bool :=
  forallb (fun fc => if is_csv (fst fc) then ok_file finished (snd fc) else true) d.

Definition csv_ids (d : files) : list Z := flat_map (fun fc => if is_csv (fst fc) then ids (snd fc) else []) d.

(* the disks after every operation of a trace; with the initial disk in front: the disks at all crash points *)
Fixpoint steps (s : fsys) (tr : list op) : list files :=
  match tr with [] => [] | o :: t => disk (exec_op s o) :: steps (exec_op s o) t end.
Definition disks (s : fsys) (tr : list op) : list files := disk s :: steps s tr.

(* no row id present in a *.csv file before is missing after *)
Definition no_loss (d d' : files) : bool := forallb (fun i => zmem i (csv_ids d')) (csv_ids d).
Fixpoint chainb (d : files) (l : list files) : bool :=
  match l with [] => true | x :: t => no_loss d x && chainb x t end.

Definition fs0 : fsys := mkFs [] None.

(* first crash point at which a *.csv file is not a well-formed results file / at which a row id has been lost, if any *)
Fixpoint first_bad {A} (f : A -> bool) (l : list A) (i : nat) : option nat :=
  match l with [] => None | x :: t => if f x then first_bad f t (S i) else Some i end.
Fixpoint first_loss (d : files) (l : list files) (i : nat) : option nat :=
  match l with [] => None | x :: t => if no_loss d x then first_loss x t (S i) else Some i end.

Definition ok_trace (finished : list Z) (tr : list op) : bool :=
  forallb (ok_survivors finished) (disks fs0 tr) && chainb (disk fs0) (steps fs0 tr).

(* ---------- restart: a new search was created and run in the directory a kill left behind ---------- *)
Definition line_eqb (a b : line) : bool :=
  match a, b with
  | LH n, LH m => Nat.eqb n m
  | LR i n, LR j m => (i =? j) && Nat.eqb n m
  | _, _ => false
  end.
Fixpoint content_eqb (a b : content) : bool :=
  match a, b with
  | [], [] => true
  | x :: a', y :: b' => line_eqb x y && content_eqb a' b'
  | _, _ => false
  end.

Definition keys_nodup (d : files) : bool := znodup (map fst d).

(* the new evaluations are rows of the new results.csv *)
Definition new_in_results (newfin : list Z) (after : files) : bool :=
  match fget after fresults with
  | Some c => forallb (fun i => zmem i (ids c)) newfin
  | None => match newfin with [] => true | _ => false end
  end.

(* every *.csv file found before the restart exists afterwards, content unchanged, under a name that is not results.csv *)
Definition kept_aside (before after : files) : bool :=
  forallb (fun fc => if is_csv (fst fc)
                     then existsb (fun gc => negb (fst gc =? fresults) && is_csv (fst gc) && content_eqb (snd fc) (snd gc)) after
                     else true) before.

(* 0 = fine; 1 = a *.csv file is not a well-formed results file (or two files with one name); 2 = a row id was lost;
   3 = an evaluation of the new search is not in results.csv; 4 = earlier results are not intact under a distinct name *)
Definition clause_restart (finished newfin : list Z) (before after : files) : Z :=
  if negb (keys_nodup after && ok_survivors (finished ++ newfin) after) then 1
  else if negb (no_loss before after) then 2
  else if negb (new_in_results newfin after) then 3
  else if negb (kept_aside before after) then 4
  else 0.
Definition ok_restart (finished newfin : list Z) (before after : files) : bool :=
  clause_restart finished newfin before after =? 0.
