(* C15: the file-system model - get/set/delete laws, crash points as the list of disks, chains, row ids. *)
From Coq Require Import List ZArith Bool Arith Lia.
Import ListNotations.
Require Import DH.C04_Results.Model DH.C15_Crash.Model DH.C15_Crash.Check.
Open Scope Z_scope.

(* ---------- get / set / delete ---------- *)
Lemma fget_fdel_same d f : fget (fdel d f) f = None.
Proof.
  induction d as [|[g c] t IH]; cbn [fdel fget]; [reflexivity|].
  destruct (f =? g) eqn:E; [exact IH|]. cbn [fget]. rewrite E. exact IH.
Qed.

Lemma fget_fdel_other d f g : f <> g -> fget (fdel d f) g = fget d g.
Proof.
  intros H. induction d as [|[x c] t IH]; cbn [fdel fget]; [reflexivity|].
  destruct (f =? x) eqn:E.
  - apply Z.eqb_eq in E. subst x. destruct (g =? f) eqn:E2; [apply Z.eqb_eq in E2; congruence|exact IH].
  - cbn [fget]. rewrite IH. reflexivity.
Qed.

Lemma fget_fset_same d f c : fget (fset d f c) f = Some c.
Proof. unfold fset. cbn [fget]. rewrite Z.eqb_refl. reflexivity. Qed.

Lemma fget_fset_other d f g c : f <> g -> fget (fset d f c) g = fget d g.
Proof.
  intros H. unfold fset. cbn [fget]. destruct (g =? f) eqn:E; [apply Z.eqb_eq in E; congruence|].
  apply fget_fdel_other. exact H.
Qed.

(* ---------- row ids that are durable in some *.csv file ---------- *)
Definition InCsv (d : files) (i : Z) : Prop := exists f c, is_csv f = true /\ fget d f = Some c /\ In i (ids c).
Definition NoLoss (d d' : files) : Prop := forall i, InCsv d i -> InCsv d' i.

Lemma NoLoss_refl d : NoLoss d d.
Proof. intros i H. exact H. Qed.
Lemma NoLoss_trans a b c : NoLoss a b -> NoLoss b c -> NoLoss a c.
Proof. intros H1 H2 i H. apply H2, H1, H. Qed.

Lemma ids_app a b : ids (a ++ b) = ids a ++ ids b.
Proof. induction a as [|[n|i m] t IH]; cbn [app ids]; [reflexivity|exact IH|rewrite IH; reflexivity]. Qed.

(* writing a file that is not a *.csv file loses nothing *)
Lemma NoLoss_fset_noncsv d f c : is_csv f = false -> NoLoss d (fset d f c).
Proof.
  intros Hf i (g & cg & Hg & Hget & Hin). exists g, cg. split; [exact Hg|]. split; [|exact Hin].
  rewrite fget_fset_other; [exact Hget|]. intros ->. congruence.
Qed.

(* replacing the content of f by one that has all the previous ids loses nothing *)
Lemma NoLoss_fset_grow d f c : (forall c0, fget d f = Some c0 -> incl (ids c0) (ids c)) -> NoLoss d (fset d f c).
Proof.
  intros H i (g & cg & Hg & Hget & Hin). destruct (Z.eq_dec f g) as [->|Hne].
  - exists g, c. split; [exact Hg|]. split; [apply fget_fset_same|]. apply (H cg Hget). exact Hin.
  - exists g, cg. split; [exact Hg|]. split; [|exact Hin]. rewrite fget_fset_other; assumption.
Qed.

(* moving a onto b: nothing is lost when b did not hold ids that a does not hold, and a non-csv b only receives a non-csv a *)
Lemma NoLoss_move d a b c : fget d a = Some c ->
  (is_csv a = true -> is_csv b = true) ->
  (forall c0, fget d b = Some c0 -> incl (ids c0) (ids c)) ->
  NoLoss d (fset (fdel d a) b c).
Proof.
  intros Ha Hcsv Hb i (g & cg & Hg & Hget & Hin). destruct (Z.eq_dec b g) as [->|Hbg].
  - exists g, c. split; [exact Hg|]. split; [apply fget_fset_same|]. apply (Hb cg Hget). exact Hin.
  - destruct (Z.eq_dec a g) as [->|Hag].
    + exists b, c. split; [apply Hcsv; exact Hg|]. split; [apply fget_fset_same|]. congruence.
    + exists g, cg. split; [exact Hg|]. split; [|exact Hin].
      rewrite fget_fset_other by exact Hbg. rewrite fget_fdel_other by exact Hag. exact Hget.
Qed.

(* ---------- crash points ---------- *)
Lemma steps_app s a b : steps s (a ++ b) = steps s a ++ steps (exec s a) b.
Proof.
  revert s; induction a as [|o t IH]; intros s; cbn [app steps exec fold_left]; [reflexivity|].
  rewrite IH. reflexivity.
Qed.

Lemma exec_app s a b : exec s (a ++ b) = exec (exec s a) b.
Proof. unfold exec. apply fold_left_app. Qed.

Lemma last_cons_default {A} (l : list A) : forall x d, last (x :: l) d = last l x.
Proof.
  induction l as [|y t IH]; intros x d; [reflexivity|]. change (last (x :: y :: t) d) with (last (y :: t) d).
  rewrite (IH y d), (IH y x). reflexivity.
Qed.

Lemma last_steps s tr : last (steps s tr) (disk s) = disk (exec s tr).
Proof.
  revert s; induction tr as [|o t IH]; intros s; [reflexivity|].
  cbn [steps exec fold_left]. rewrite last_cons_default. specialize (IH (exec_op s o)). unfold exec in IH. exact IH.
Qed.

Lemma crash_in s tr : forall k, In (crash s tr k) (disks s tr).
Proof.
  unfold disks, crash. revert s; induction tr as [|o t IH]; intros s k.
  - rewrite firstn_nil. left. reflexivity.
  - destruct k as [|k]; [left; reflexivity|]. right. cbn [firstn exec fold_left steps].
    specialize (IH (exec_op s o) k). unfold exec in IH. cbn [In] in IH. exact IH.
Qed.

Fixpoint chain_from {A} (R : A -> A -> Prop) (d : A) (l : list A) : Prop :=
  match l with [] => True | x :: t => R d x /\ chain_from R x t end.

Lemma chain_from_app {A} (R : A -> A -> Prop) l1 : forall d l2,
  chain_from R d (l1 ++ l2) <-> chain_from R d l1 /\ chain_from R (last l1 d) l2.
Proof.
  induction l1 as [|x t IH]; intros d l2; cbn [app chain_from].
  - cbn [last]. tauto.
  - rewrite IH. rewrite last_cons_default. tauto.
Qed.

Lemma chain_reach {A} (R : A -> A -> Prop) (Hrefl : forall a, R a a) (Htrans : forall a b c, R a b -> R b c -> R a c) l :
  forall d, chain_from R d l -> forall x, In x (d :: l) -> R d x.
Proof.
  induction l as [|y t IH]; intros d H x Hin.
  - destruct Hin as [<-|[]]. apply Hrefl.
  - destruct H as [H1 H2]. destruct Hin as [<-|Hin]; [apply Hrefl|]. eapply Htrans; [exact H1|]. apply IH; assumption.
Qed.

Lemma chain_crash (R : files -> files -> Prop) (Hrefl : forall a, R a a) (Htrans : forall a b c, R a b -> R b c -> R a c) tr :
  forall s, chain_from R (disk s) (steps s tr) -> forall j k, (j <= k)%nat -> R (crash s tr j) (crash s tr k).
Proof.
  induction tr as [|o t IH]; intros s H j k Hjk.
  - unfold crash. rewrite !firstn_nil. apply Hrefl.
  - destruct j as [|j].
    + unfold crash at 1. cbn [firstn exec fold_left]. apply (chain_reach R Hrefl Htrans _ _ H). apply crash_in.
    + destruct k as [|k]; [lia|]. cbn [steps chain_from] in H. destruct H as [_ H].
      specialize (IH (exec_op s o) H j k ltac:(lia)). unfold crash in *. cbn [firstn exec fold_left]. exact IH.
Qed.

(* a block of writes does not touch the disk *)
Lemma exec_writes d f ls : forall buf,
  exec (mkFs d (Some (f, buf))) (map (fun l => Write f [l]) ls) = mkFs d (Some (f, buf ++ ls)).
Proof.
  unfold exec. induction ls as [|l t IH]; intros buf; cbn [map fold_left].
  - rewrite app_nil_r. reflexivity.
  - change (exec_op (mkFs d (Some (f, buf))) (Write f [l])) with (mkFs d (Some (f, buf ++ [l]))).
    rewrite IH. rewrite <- app_assoc. reflexivity.
Qed.

Lemma steps_writes d f ls : forall buf,
  steps (mkFs d (Some (f, buf))) (map (fun l => Write f [l]) ls) = repeat d (length ls).
Proof.
  induction ls as [|l t IH]; intros buf; cbn [map steps exec_op handle disk length repeat]; [reflexivity|].
  rewrite IH. reflexivity.
Qed.

Lemma chain_repeat {A} (R : A -> A -> Prop) d n : R d d -> chain_from R d (repeat d n).
Proof. intros H. induction n; cbn [repeat chain_from]; auto. Qed.

Lemma last_repeat {A} (d : A) n : last (repeat d n) d = d.
Proof. induction n as [|n IH]; [reflexivity|]. cbn [repeat]. destruct n; [reflexivity|exact IH]. Qed.

Lemma Forall_repeat {A} (P : A -> Prop) d n : P d -> Forall P (repeat d n).
Proof. intros H. induction n; cbn [repeat]; constructor; auto. Qed.

(* ---------- the two write patterns of the repaired code ---------- *)
(* through the temporary file:  open(tmp,"w"); writes; close; os.replace(tmp, results.csv) *)
Definition via_tmp (ls : content) : list op :=
  [OpenW ftmp] ++ map (fun l => Write ftmp [l]) ls ++ [Close ftmp; Replace ftmp fresults].

Lemma via_tmp_exec d ls :
  exec (mkFs d None) (via_tmp ls) = mkFs (fset (fdel (fset (fset d ftmp []) ftmp ls) ftmp) fresults ls) None.
Proof.
  unfold via_tmp. rewrite !exec_app.
  change (exec (mkFs d None) [OpenW ftmp]) with (mkFs (fset d ftmp []) (Some (ftmp, []))).
  rewrite exec_writes. cbn [app exec fold_left exec_op handle disk].
  rewrite fget_fset_same. cbn [odfl app]. rewrite fget_fset_same. reflexivity.
Qed.

Lemma via_tmp_steps d ls :
  steps (mkFs d None) (via_tmp ls) =
  [fset d ftmp []] ++ repeat (fset d ftmp []) (length ls)
  ++ [fset (fset d ftmp []) ftmp ls; fset (fdel (fset (fset d ftmp []) ftmp ls) ftmp) fresults ls].
Proof.
  unfold via_tmp. rewrite !steps_app.
  change (exec (mkFs d None) [OpenW ftmp]) with (mkFs (fset d ftmp []) (Some (ftmp, []))).
  change (steps (mkFs d None) [OpenW ftmp]) with [fset d ftmp []].
  rewrite steps_writes, exec_writes. cbn [app steps exec_op handle disk].
  rewrite fget_fset_same. cbn [odfl app]. rewrite fget_fset_same. reflexivity.
Qed.

(* appending:  open(results.csv,"a"); writes; close *)
Definition via_append (ls : content) : list op :=
  [OpenA fresults] ++ map (fun l => Write fresults [l]) ls ++ [Close fresults].

Lemma open_append d c0 : fget d fresults = Some c0 ->
  exec (mkFs d None) [OpenA fresults] = mkFs (fset d fresults c0) (Some (fresults, [])).
Proof. intros H. cbn [exec fold_left exec_op disk]. rewrite H. reflexivity. Qed.

Lemma via_append_exec d c0 ls : fget d fresults = Some c0 ->
  exec (mkFs d None) (via_append ls) = mkFs (fset (fset d fresults c0) fresults (c0 ++ ls)) None.
Proof.
  intros H0. unfold via_append. rewrite !exec_app. rewrite (open_append d c0 H0).
  rewrite exec_writes. cbn [app exec fold_left exec_op handle disk].
  rewrite fget_fset_same. reflexivity.
Qed.

Lemma via_append_steps d c0 ls : fget d fresults = Some c0 ->
  steps (mkFs d None) (via_append ls) =
  [fset d fresults c0] ++ repeat (fset d fresults c0) (length ls) ++ [fset (fset d fresults c0) fresults (c0 ++ ls)].
Proof.
  intros H0. unfold via_append. rewrite !steps_app. rewrite (open_append d c0 H0).
  assert (E : steps (mkFs d None) [OpenA fresults] = [fset d fresults c0]).
  { cbn [steps exec_op disk]. rewrite H0. reflexivity. }
  rewrite E. rewrite steps_writes, exec_writes. cbn [app steps exec_op handle disk].
  rewrite fget_fset_same. reflexivity.
Qed.
