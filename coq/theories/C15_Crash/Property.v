(* C15 - Results on disk survive crashes and are never destroyed by a new search.  Property theorems only.

   A session `acts : list action` is ANY sequence of: ANew cands (a search is created with a new evaluator; an existing
   results.csv is renamed, cands = the candidate names in the order the code tries them), ADump (new, flush) (a gather that
   returned the finished jobs `new`, followed by one dump call) and AEnd (end of a search() call: the Pareto rewrite).
   `trace v fs acts` is the sequence of file operations (v = Today: the pinned tree; v = Fixed: fixes/F14 + fixes/F15),
   `crash fs tr k` the files found after a process kill right after operation k (unflushed buffers are lost).
   Good known d : results.csv is absent from d, or a header followed by complete rows whose ids are in `known`
                  (a zero-byte file is NOT good).
   NoLoss d d'  : every row id held by some *.csv file of d is held by some *.csv file of d'. *)
From Coq Require Import List ZArith Bool Arith Lia.
Import ListNotations.
Require Import DH.C04_Results.Model DH.C15_Crash.Model DH.C15_Crash.Check DH.C15_Crash.Lemmas DH.C15_Crash.Lemmas2
  DH.C15_Crash.Lemmas3 DH.C15_Crash.Lemmas4.
Open Scope Z_scope.

(* REPAIRED code, any session started in a log_dir without results.csv, any crash point:
   results.csv is absent or well formed with rows of finished evaluations (those gathered in the session), and the rows
   durable at an earlier crash point are still there at every later one (rewrites, renames and restarts included).
   cands_ok = every rename finds a free candidate name. *)
Theorem C15_prefix_wellformed : forall d0 acts known,
  fget d0 fresults = None -> cands_ok (sinit, mkFs d0 None, []) acts -> incl (act_ids acts) known ->
  let tr := trace Fixed (mkFs d0 None) acts in
  (forall k, Good known (crash (mkFs d0 None) tr k))
  /\ (forall j k, (j <= k)%nat -> NoLoss (crash (mkFs d0 None) tr j) (crash (mkFs d0 None) tr k)).
Proof. exact fixed_session. Qed.
Print Assumptions C15_prefix_wellformed.

(* REPAIRED code, restart on ANY surviving directory d0 (whatever the kill left): the first thing a new process does is to
   create a search; at every crash point the directory is still untouched or results.csv is absent / well formed, and no
   row id of d0 is ever lost. *)
Theorem C15_restart : forall d0 cands rest known,
  cands_ok (sinit, mkFs d0 None, []) (ANew cands :: rest) -> incl (act_ids rest) known ->
  let tr := trace Fixed (mkFs d0 None) (ANew cands :: rest) in
  (forall k, crash (mkFs d0 None) tr k = d0 \/ Good known (crash (mkFs d0 None) tr k))
  /\ (forall j k, (j <= k)%nat -> NoLoss (crash (mkFs d0 None) tr j) (crash (mkFs d0 None) tr k)).
Proof. exact fixed_restart. Qed.
Print Assumptions C15_restart.

(* ... and when the new search ends with its forced dump (optionally followed by the Pareto step), results.csv holds exactly
   the evaluations the new search gathered - whatever the kill left behind (a stale results.csv.tmp included: d0 is ANY
   set of files; the model opens the temporary file with "w", which truncates an existing one) *)
Theorem C15_restart_complete : forall d0 cands pre new tail,
  cands_ok (sinit, mkFs d0 None, []) (ANew cands :: pre ++ ADump (new, true) :: tail) -> (tail = [] \/ tail = [AEnd]) ->
  let acts := ANew cands :: pre ++ ADump (new, true) :: tail in
  let seen := seen_after [] (pre ++ ADump (new, true) :: tail) in
  let d := disk (exec (mkFs d0 None) (trace Fixed (mkFs d0 None) acts)) in
  seen = [] \/ exists n c, fget d fresults = Some (LH n :: c) /\ ids c = map jid seen.
Proof. exact fixed_restart_complete. Qed.
Print Assumptions C15_restart_complete.

(* REPAIRED rename (given a candidate that does not exist): results.csv moves to a name that did not exist, every other
   file keeps its content *)
Theorem C15_rename_distinct : forall d cands, cands_free d cands ->
  let d' := disk (exec (mkFs d None) (new_ops Fixed d cands)) in
  fget d' fresults = None
  /\ (forall f c, f <> fresults -> fget d f = Some c -> fget d' f = Some c)
  /\ (forall c, fget d fresults = Some c -> exists f, In f cands /\ fget d f = None /\ fget d' f = Some c).
Proof. exact rename_distinct. Qed.
Print Assumptions C15_rename_distinct.

(* TODAY's code, append phase: once the header is on disk (state J with started = true), every crash point of a
   gather + dump leaves results.csv well formed with all the rows it had (Steps = Good at every step + NoLoss chain) *)
Theorem C15_append_phase : forall s seen new fl known fs,
  J s fs seen -> started (fst s) = true -> incl (map jid (seen ++ new)) known ->
  let r := dump_ops Today s (new, fl) in
  J (fst r) (exec fs (snd r)) (seen ++ new) /\ Steps known fs (snd r).
Proof. exact today_append_phase. Qed.
Print Assumptions C15_append_phase.

(* F22 - TODAY: zero-byte results.csv after a kill inside the first open("w") .. close window, and after every dump
   while all evaluations failed; the repaired code writes nothing / passes the oracle *)
Theorem C15_zero_byte_refuted :
  let tr := trace Today fs0 [ANew [7]; ADump ([jS 1], false)] in
  tr = [OpenW fresults; Write fresults [LH 4]; Write fresults [LR 1 4]; Close fresults]
  /\ crash fs0 tr 1 = [(fresults, [])] /\ ok_survivors [1] (crash fs0 tr 1) = false
  /\ ok_survivors [1] (crash fs0 tr 4) = true
  /\ (let tr2 := trace Today fs0 [ANew [7]; ADump ([jF 1], false)] in
      tr2 = [OpenW fresults; Close fresults] /\ crash fs0 tr2 2 = [(fresults, [])] /\ ok_survivors [1] (crash fs0 tr2 2) = false)
  /\ ok_trace [1] (trace Fixed fs0 [ANew [7]; ADump ([jS 1], false)]) = true
  /\ trace Fixed fs0 [ANew [7]; ADump ([jF 1], false)] = [].
Proof. exact zero_byte_refuted. Qed.
Print Assumptions C15_zero_byte_refuted.

(* F14 - TODAY: the in-place Pareto rewrite: the durable row (crash point 4) is gone at crash points 5 and 6 *)
Theorem C15_rewrite_refuted :
  let tr := trace Today fs0 [ANew [7]; ADump ([jT 1], false); ADump ([], true); AEnd] in
  tr = [OpenW fresults; Write fresults [LH 5]; Write fresults [LR 1 5]; Close fresults;
        OpenW fresults; Write fresults [LH 6; LR 1 6]; Close fresults]
  /\ csv_ids (crash fs0 tr 4) = [1] /\ csv_ids (crash fs0 tr 5) = [] /\ csv_ids (crash fs0 tr 6) = []
  /\ csv_ids (crash fs0 tr 7) = [1]
  /\ ok_trace [1] tr = false
  /\ ok_trace [1] (trace Fixed fs0 [ANew [7]; ADump ([jT 1], false); ADump ([], true); AEnd]) = true.
Proof. exact rewrite_refuted. Qed.
Print Assumptions C15_rewrite_refuted.

(* F15 - TODAY: three searches whose rename picks the same name (same second): operation 10 (the third rename) overwrites
   the results of the first search; with a free name all three survive *)
Theorem C15_rename_refuted :
  let tr := trace Today fs0 (three_searches [7; 8] [7; 8] [7; 8]) in
  csv_ids (disk (exec fs0 tr)) = [2001; 1001]
  /\ ok_trace [1; 1001; 2001] tr = false
  /\ first_loss (disk fs0) (steps fs0 tr) 1 = Some 10%nat
  /\ nth_error tr 9 = Some (Rename fresults 7)
  /\ (let trf := trace Fixed fs0 (three_searches [7; 8] [7; 8] [7; 8]) in
      ok_trace [1; 1001; 2001] trf = true /\ csv_ids (disk (exec fs0 trf)) = [2001; 1001; 1]).
Proof. exact rename_refuted. Qed.
Print Assumptions C15_rename_refuted.

(* the oracles: on the real surviving bytes, and on a recorded operation sequence replayed from an empty log_dir *)
Theorem C15_oracle_survivors : forall fin d, ok_survivors fin d = true ->
  forall f c, is_csv f = true -> fget d f = Some c -> FileSpec fin c.
Proof. exact ok_survivors_sound. Qed.
Print Assumptions C15_oracle_survivors.

Theorem C15_oracle_trace : forall finished tr, ok_trace finished tr = true ->
  (forall k f c, is_csv f = true -> fget (crash fs0 tr k) f = Some c -> FileSpec finished c)
  /\ (forall j k, (j <= k)%nat -> NoLoss (crash fs0 tr j) (crash fs0 tr k)).
Proof. exact ok_trace_sound. Qed.
Print Assumptions C15_oracle_trace.

(* the restart clause decided on the real bytes before / after a new search ran in the directory a kill left behind *)
Theorem C15_oracle_restart : forall finished newfin before after,
  ok_restart finished newfin before after = true ->
  (forall f c, is_csv f = true -> fget after f = Some c -> FileSpec (finished ++ newfin) c)
  /\ NoLoss before after
  /\ (forall i, In i newfin -> exists c, fget after fresults = Some c /\ In i (ids c))
  /\ (forall f c, is_csv f = true -> In (f, c) before ->
        exists g, g <> fresults /\ is_csv g = true /\ fget after g = Some c).
Proof. exact ok_restart_sound. Qed.
Print Assumptions C15_oracle_restart.

(* non-vacuity: a two-call two-objective search followed by a second search, candidates with a free name *)
Example C15_example :
  let acts := [ANew [7; 8]; ADump ([jF 1; jT 2], false); ADump ([jT 3], false); ADump ([], true); AEnd;
               ADump ([jT 4], false); ADump ([], true); AEnd; ANew [7; 8]; ADump ([jS 1001], true); AEnd] in
  cands_ok (sinit, fs0, []) acts
  /\ length (trace Fixed fs0 acts) = 26%nat
  /\ ok_trace [1; 2; 3; 4; 1001] (trace Fixed fs0 acts) = true
  /\ disk (exec fs0 (trace Fixed fs0 acts)) =
       [(fresults, [LH 4; LR 1001 4]); (7, [LH 6; LR 1 6; LR 2 6; LR 3 6; LR 4 6])].
Proof.
  cbn zeta. split; [|vm_compute; repeat split; reflexivity].
  vm_compute. repeat split; try (exists 7; split; [left; reflexivity|reflexivity]); repeat constructor.
Qed.
