(* C15 - placeholder while the harness is being built *)
From Coq Require Import List ZArith Bool.
Require Import DH.C15_Crash.Model DH.C15_Crash.Check.
Example C15_placeholder : fresults = 0%Z. Proof. reflexivity. Qed.
