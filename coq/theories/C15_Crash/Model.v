(* C15 - Results on disk survive crashes and are never destroyed by a new search.

   Model of the FILE OPERATIONS performed on log_dir by
     Evaluator._dump_jobs_done_to_csv_as_hpo_format      (open "w" | "a", header once, rows, close)
     Search.extend_results_with_pareto_efficient_indicator (df.to_csv(path): rewrite, multi-objective only)
     Search.__init__                                       (os.rename(results.csv, results_<stamp>.csv))
   in two variants: Today (pinned tree) and Fixed (fixes/F14_*.patch: first write and rewrite through a temporary
   file + os.replace, nothing opened while no header is known; fixes/F15_*.patch: a free name for the rename),
   over a small file-system model with buffering: what is written reaches the file when the handle is closed
   (python's buffered writer; the rows of one dump are far below the 8 KiB buffer), opening with "w" truncates at once.
   `crash tr k` = the files after the first k operations, unflushed buffers dropped (process kill).

   Which jobs every dump writes and when the header is written is C04's dump (DH.C04_Results.Model.dump).
   Executable definitions only. *)
From Coq Require Import List ZArith Bool Arith.
Import ListNotations.
Require Import DH.C04_Results.Model.
Open Scope Z_scope.

(* ---- file contents: lines ---- *)
Inductive line := LH (ncols : nat) | LR (id : Z) (ncells : nat).
Definition content := list line.

Definition fname := Z.
Definition fresults : fname := 0.          (* results.csv *)
Definition ftmp : fname := -1.             (* results.csv.tmp (not a *.csv file) *)
Definition is_csv (f : fname) : bool := 0 <=? f.   (* results.csv and the renamed results_<...>.csv: tokens >= 0 *)

(* ---- file system ---- *)
Definition files := list (fname * content).
Fixpoint fget (fs : files) (f : fname) : option content :=
  match fs with [] => None | (g, c) :: t => if f =? g then Some c else fget t f end.
Fixpoint fdel (fs : files) (f : fname) : files :=
  match fs with [] => [] | (g, c) :: t => if f =? g then fdel t f else (g, c) :: fdel t f end.
Definition fset (fs : files) (f : fname) (c : content) : files := (f, c) :: fdel fs f.

(* at most one handle is open at a time in this code: (file, buffered lines) *)
Record fsys := mkFs { disk : files; handle : option (fname * content) }.

Inductive op :=
| OpenW (f : fname) | OpenA (f : fname) | Write (f : fname) (l : content) | Close (f : fname)
| Rename (src dst : fname)     (* os.rename: silently replaces dst *)
| Replace (src dst : fname).   (* os.replace: the same on POSIX *)

Definition odfl (o : option content) : content := match o with Some c => c | None => [] end.

Definition exec_op (s : fsys) (o : op) : fsys :=
  match o with
  | OpenW f => mkFs (fset (disk s) f []) (Some (f, []))
  | OpenA f => mkFs (fset (disk s) f (odfl (fget (disk s) f))) (Some (f, []))
  | Write f l => match handle s with
                 | Some (g, buf) => mkFs (disk s) (Some (g, buf ++ l))
                 | None => s
                 end
  | Close f => match handle s with
               | Some (g, buf) => mkFs (fset (disk s) g (odfl (fget (disk s) g) ++ buf)) None
               | None => s
               end
  | Rename a b | Replace a b =>
      match fget (disk s) a with
      | Some c => mkFs (fset (fdel (disk s) a) b c) (handle s)
      | None => s
      end
  end.

Definition exec (s : fsys) (tr : list op) : fsys := fold_left exec_op tr s.
(* process kill after the first k operations: buffers are lost *)
Definition crash (s0 : fsys) (tr : list op) (k : nat) : files := disk (exec s0 (firstn k tr)).

(* ---- what a well-formed results file is (strict reading: a zero-byte file is NOT well formed) ---- *)
Definition row_ok (n : nat) (l : line) : bool :=
  match l with LH _ => false | LR _ m => (1 <=? m)%nat && (m <=? n)%nat end.
Definition wellformed (c : content) : bool :=
  match c with
  | LH n :: rows => (1 <=? n)%nat && forallb (row_ok n) rows
  | _ => false
  end.
Fixpoint ids (c : content) : list Z :=
  match c with [] => [] | LR i _ :: t => i :: ids t | LH _ :: t => ids t end.

(* ---- the code ---- *)
Inductive variant := Today | Fixed.

Definition row_id (h : list col) (r : list cell) : Z := match cell_at h CId r with Num z => z | _ => -1 end.
Definition lines_of (h : list col) (rows : list (list cell)) : content :=
  map (fun r => LR (row_id h r) (length r)) rows.

(* the state of one Search + its evaluator: C04's dump state and the table dumped so far *)
Definition sstate := (dstate * table)%type.
Definition sinit : sstate := (dinit, tinit).

Definition infer_of (v : variant) := match v with Today => infer_pinned | Fixed => infer_fixed end.

(* one gather + dump call: new state and the file operations *)
Definition dump_ops (v : variant) (s : sstate) (e : event) : sstate * list op :=
  let st := fst s in
  let st1 := mkD (columns st) (started st) (nobj st) (pending st ++ fst e) in
  let r := dump (infer_of v) st1 (snd e) in
  let s' := (fst r, append (snd s) (snd r)) in
  let chunk := snd r in
  match pending st1 with
  | [] => (s', [])
  | _ =>
    match columns (fst r) with
    | None =>                                   (* only failures so far: nothing to write *)
      (s', match v with Today => [OpenW fresults; Close fresults] | Fixed => [] end)
    | Some h =>
      let hdr := match fst chunk with Some hh => [LH (length hh)] | None => [] end in
      let body := lines_of h (snd chunk) in
      if started st1 then
        (s', [OpenA fresults] ++ map (fun l => Write fresults [l]) (hdr ++ body) ++ [Close fresults])
      else
        (s', match v with
             | Today => [OpenW fresults] ++ map (fun l => Write fresults [l]) (hdr ++ body) ++ [Close fresults]
             | Fixed => [OpenW ftmp] ++ map (fun l => Write ftmp [l]) (hdr ++ body) ++ [Close ftmp; Replace ftmp fresults]
             end)
    end
  end.

(* end of search(): the Pareto rewrite (multi-objective tables only; nothing is written otherwise or when the step raises) *)
Definition end_ops (v : variant) (s : sstate) : list op :=
  match fst (snd s) with
  | None => []
  | Some h =>
    if (length (objcols h) <=? 1)%nat then []
    else match pareto_pass (h, snd (snd s)) with
         | None => []
         | Some (h', rows') =>
           let c := LH (length h') :: lines_of h' rows' in
           match v with
           | Today => [OpenW fresults; Write fresults c; Close fresults]
           | Fixed => [OpenW ftmp; Write ftmp c; Close ftmp; Replace ftmp fresults]
           end
         end
  end.

(* Search.__init__ (with a new evaluator): an existing results.csv is renamed.  cands = the candidate names:
   Today the first one (results_<YYYYmmdd-HHMMSS>.csv) whatever exists; Fixed the first one that does not exist *)
Definition pick_name (v : variant) (d : files) (cands : list fname) : fname :=
  match v with
  | Today => hd 1 cands
  | Fixed => match find (fun f => match fget d f with None => true | Some _ => false end) cands with
             | Some f => f
             | None => hd 1 cands
             end
  end.
Definition new_ops (v : variant) (d : files) (cands : list fname) : list op :=
  match fget d fresults with
  | None => []
  | Some _ => [Rename fresults (pick_name v d cands)]
  end.

Inductive action := ANew (cands : list fname) | ADump (e : event) | AEnd.

(* the trace of a session (no crash): state of the current search, file system, operations so far *)
Definition act (v : variant) (x : sstate * fsys * list op) (a : action) : sstate * fsys * list op :=
  let '(s, fs, tr) := x in
  match a with
  | ANew cands => let ops := new_ops v (disk fs) cands in (sinit, exec fs ops, tr ++ ops)
  | ADump e => let r := dump_ops v s e in (fst r, exec fs (snd r), tr ++ snd r)
  | AEnd => let ops := end_ops v s in (s, exec fs ops, tr ++ ops)
  end.
Definition session (v : variant) (fs0 : fsys) (acts : list action) : sstate * fsys * list op :=
  fold_left (act v) acts (sinit, fs0, []).
Definition trace (v : variant) (fs0 : fsys) (acts : list action) : list op := snd (session v fs0 acts).
