(* C15: the REPAIRED code (variant Fixed): invariant of a session and what holds at every crash point. *)
From Coq Require Import List ZArith Bool Arith Lia.
Import ListNotations.
Require Import DH.C04_Results.Model DH.C04_Results.Check DH.C04_Results.Lemmas DH.C04_Results.Lemmas2 DH.C04_Results.Lemmas3.
Require Import DH.C15_Crash.Model DH.C15_Crash.Check DH.C15_Crash.Lemmas.
Open Scope Z_scope.

(* ---------- lines of rows ---------- *)
Lemma ids_lines h rows : ids (lines_of h rows) = map (row_id h) rows.
Proof. induction rows as [|r t IH]; cbn [lines_of map ids]; [reflexivity|]. unfold lines_of in IH. rewrite IH. reflexivity. Qed.

Lemma rows_ok_lines h rows n : (1 <= length h)%nat -> (length h <= n)%nat -> Forall (fun r => length r = length h) rows ->
  forallb (row_ok n) (lines_of h rows) = true.
Proof.
  intros H1 Hn HF. induction HF as [|r t Hr Ht IH]; cbn [lines_of map forallb]; [reflexivity|].
  unfold lines_of in IH. rewrite IH. cbn [row_ok]. rewrite Hr.
  destruct (Nat.leb_spec 1 (length h)); [|lia]. destruct (Nat.leb_spec (length h) n); [reflexivity|lia].
Qed.

Lemma row_id_project h n j : In CId h -> row_id h (project h (mkresult n j)) = jid j.
Proof. intros H. unfold row_id. rewrite cell_at_project by exact H. rewrite lookup_CId. reflexivity. Qed.

Lemma project_length h r : length (project h r) = length h.
Proof. unfold project. apply map_length. Qed.

Lemma in_cid_pos h : In CId h -> (1 <= length h)%nat.
Proof. destruct h; [intros []|cbn [length]; lia]. Qed.

(* ---------- what a disk must look like ---------- *)
(* results.csv is absent, or a header followed by complete rows whose ids are known evaluations *)
Definition Good (known : list Z) (d : files) : Prop :=
  fget d fresults = None \/ exists c, fget d fresults = Some c /\ wellformed c = true /\ incl (ids c) known.

Lemma Good_incl k k' d : incl k k' -> Good k d -> Good k' d.
Proof. intros Hi [H|(c & H1 & H2 & H3)]; [left; exact H|right]. exists c. repeat split; try assumption. eapply incl_tran; eauto. Qed.

(* invariant between two actions: no handle is open; nothing written and no results.csv, or the header is fixed and
   results.csv = header + one complete row per job dumped so far *)
Definition J (s : sstate) (fs : fsys) (seen : list job) : Prop :=
  handle fs = None /\
  ( (started (fst s) = false /\ columns (fst s) = None /\ snd s = (None, []) /\ pending (fst s) = seen
       /\ fget (disk fs) fresults = None)
    \/ (started (fst s) = true /\ exists h c n, columns (fst s) = Some h /\ fst (snd s) = Some h /\ In CId h
          /\ pending (fst s) = [] /\ Forall (fun r => length r = length h) (snd (snd s))
          /\ map (row_id h) (snd (snd s)) = map jid seen
          /\ fget (disk fs) fresults = Some (LH n :: c) /\ (length h <= n)%nat /\ forallb (row_ok n) c = true
          /\ ids c = map jid seen) ).

Definition Steps (known : list Z) (fs : fsys) (ops : list op) : Prop :=
  Forall (Good known) (steps fs ops) /\ chain_from NoLoss (disk fs) (steps fs ops).

Lemma Steps_nil known fs : Steps known fs [].
Proof. split; [constructor|exact I]. Qed.

Lemma Steps_app known fs a b : Steps known fs a -> Steps known (exec fs a) b -> Steps known fs (a ++ b).
Proof.
  intros [A1 A2] [B1 B2]. split; rewrite steps_app.
  - apply Forall_app. split; assumption.
  - apply chain_from_app. split; [exact A2|]. rewrite last_steps. exact B2.
Qed.

Lemma ftmp_ne : ftmp <> fresults. Proof. discriminate. Qed.

(* writing the temporary file does not change what results.csv looks like *)
Lemma Good_fset_tmp known d c : Good known d -> Good known (fset d ftmp c).
Proof.
  intros [H|(c1 & H1 & H2 & H3)].
  - left. rewrite fget_fset_other by exact ftmp_ne. exact H.
  - right. exists c1. split; [|split; assumption]. rewrite fget_fset_other by exact ftmp_ne. exact H1.
Qed.

(* the temporary-file pattern on a disk where results.csv holds c0 (or nothing), new content ls *)
Lemma Steps_via_tmp known d ls : Good known d -> wellformed ls = true -> incl (ids ls) known ->
  (forall c0, fget d fresults = Some c0 -> incl (ids c0) (ids ls)) ->
  Steps known (mkFs d None) (via_tmp ls)
  /\ fget (disk (exec (mkFs d None) (via_tmp ls))) fresults = Some ls
  /\ handle (exec (mkFs d None) (via_tmp ls)) = None.
Proof.
  intros Hg Hw Hk Hold. rewrite via_tmp_exec. cbn [disk handle]. split; [|split; [apply fget_fset_same|reflexivity]].
  unfold Steps. rewrite via_tmp_steps. cbn [disk].
  set (d1 := fset d ftmp []). set (d2 := fset d1 ftmp ls). set (d3 := fset (fdel d2 ftmp) fresults ls).
  assert (G1 : Good known d1) by (apply Good_fset_tmp; exact Hg).
  assert (G2 : Good known d2) by (apply Good_fset_tmp; exact G1).
  assert (G3 : Good known d3).
  { right. exists ls. split; [unfold d3; apply fget_fset_same|split; assumption]. }
  split.
  - apply Forall_app. split; [constructor; [exact G1|constructor]|]. apply Forall_app. split; [apply Forall_repeat; exact G1|].
    constructor; [exact G2|constructor; [exact G3|constructor]].
  - cbn [app chain_from]. split; [apply NoLoss_fset_noncsv; reflexivity|].
    apply chain_from_app. split; [apply chain_repeat; apply NoLoss_refl|]. rewrite last_repeat. cbn [chain_from].
    split; [apply NoLoss_fset_noncsv; reflexivity|]. split; [|exact I].
    unfold d3. apply NoLoss_move.
    + unfold d2. apply fget_fset_same.
    + discriminate.
    + intros c0 H0. apply Hold. unfold d2, d1 in H0. rewrite !fget_fset_other in H0 by exact ftmp_ne. exact H0.
Qed.

Lemma wellformed_app n c ls : forallb (row_ok n) c = true -> forallb (row_ok n) ls = true -> (1 <= n)%nat ->
  wellformed (LH n :: c ++ ls) = true.
Proof.
  intros H1 H2 Hn. cbn [wellformed]. rewrite forallb_app, H1, H2. destruct (Nat.leb_spec 1 n); [reflexivity|lia].
Qed.

Lemma Steps_via_append known d n c ls : fget d fresults = Some (LH n :: c) -> (1 <= n)%nat ->
  forallb (row_ok n) c = true -> forallb (row_ok n) ls = true -> incl (ids c ++ ids ls) known ->
  Steps known (mkFs d None) (via_append ls)
  /\ fget (disk (exec (mkFs d None) (via_append ls))) fresults = Some (LH n :: c ++ ls)
  /\ handle (exec (mkFs d None) (via_append ls)) = None.
Proof.
  intros H0 Hn Hc Hls Hk. rewrite (via_append_exec d _ ls H0). cbn [disk handle].
  split; [|split; [apply fget_fset_same|reflexivity]].
  unfold Steps. rewrite (via_append_steps d _ ls H0). cbn [disk].
  set (c0 := LH n :: c). set (d1 := fset d fresults c0). set (d2 := fset d1 fresults (c0 ++ ls)).
  assert (W0 : wellformed c0 = true).
  { unfold c0. rewrite <- (app_nil_r c). apply wellformed_app; [exact Hc|reflexivity|exact Hn]. }
  assert (G1 : Good known d1).
  { right. exists c0. split; [apply fget_fset_same|split; [exact W0|]]. unfold c0. cbn [ids]. eapply incl_tran; [|exact Hk]. apply incl_appl, incl_refl. }
  assert (G2 : Good known d2).
  { right. exists (c0 ++ ls). split; [apply fget_fset_same|split; [unfold c0; cbn [app]; apply wellformed_app; assumption|]].
    unfold c0. cbn [app ids]. rewrite ids_app. exact Hk. }
  split.
  - apply Forall_app. split; [constructor; [exact G1|constructor]|]. apply Forall_app. split; [apply Forall_repeat; exact G1|].
    constructor; [exact G2|constructor].
  - cbn [app chain_from]. split.
    + apply NoLoss_fset_grow. intros c1 H1. rewrite H0 in H1. injection H1 as <-. apply incl_refl.
    + apply chain_from_app. split; [apply chain_repeat; apply NoLoss_refl|]. rewrite last_repeat. cbn [chain_from].
      split; [|exact I]. apply NoLoss_fset_grow. intros c1 H1. unfold d1 in H1. rewrite fget_fset_same in H1. injection H1 as <-.
      rewrite ids_app. apply incl_appl, incl_refl.
Qed.

(* ---------- one gather + dump ---------- *)
Lemma dump_ops_fixed s seen new fl known fs :
  J s fs seen -> incl (map jid (seen ++ new)) known -> Good known (disk fs) ->
  let r := dump_ops Fixed s (new, fl) in
  J (fst r) (exec fs (snd r)) (seen ++ new) /\ Steps known fs (snd r) /\ Good known (disk (exec fs (snd r))).
Proof.
  destruct s as [st tbl]. destruct fs as [d hd]. unfold J. cbn [fst snd handle disk].
  intros [Hh HJ] Hk Hg. subst hd. unfold dump_ops. cbn [fst snd infer_of].
  set (st1 := mkD (columns st) (started st) (nobj st) (pending st ++ new)).
  destruct HJ as [(Hs & Hc & Ht & Hp & Hf)|(Hs & h & c & n & Hc & Hh & Hid & Hp & Hlen & Hrid & Hf & Hn & Hrows & Hids)].
  - (* nothing written yet *)
    subst tbl. destruct (pending st1) as [|j t] eqn:Ep.
    + rewrite (dump_nil infer_fixed st1 fl Ep). cbn [fst snd exec fold_left handle disk append app].
      split; [|split; [apply Steps_nil|exact Hg]]. split; [reflexivity|]. left. subst st1. cbn [pending started columns] in *.
      repeat split; try assumption. rewrite Hp. reflexivity.
    + set (n := infer_fixed (nobj st1) (pending st1)).
      destruct (find (fun r => is_success r || fl) (map (mkresult n) (pending st1))) as [r0|] eqn:Ef.
      * (* first write: through the temporary file *)
        rewrite (dump_first infer_fixed st1 fl j t r0 Ep Hs Ef). cbn [fst snd columns append app]. fold n.
        assert (Hst1 : started st1 = false) by exact Hs. rewrite Hst1.
        set (h := map fst r0). set (rows := map (project h) (map (mkresult n) (pending st1))).
        assert (Hid : In CId h).
        { apply find_some in Ef as [Hin _]. apply in_map_iff in Hin as [j0 [<- _]]. apply mkresult_has_id. }
        assert (Hp1 : pending st1 = seen ++ new). { subst st1. cbn [pending]. rewrite Hp. reflexivity. }
        assert (Hrid : map (row_id h) rows = map jid (seen ++ new)).
        { unfold rows. rewrite Hp1, !map_map. apply map_ext. intros j1. apply row_id_project. exact Hid. }
        assert (Hlen : Forall (fun r => length r = length h) rows).
        { unfold rows. apply Forall_forall. intros r Hr. apply in_map_iff in Hr as [x [<- _]]. apply project_length. }
        change ([OpenW ftmp] ++ map (fun l => Write ftmp [l]) ([LH (length h)] ++ lines_of h rows) ++ [Close ftmp; Replace ftmp fresults])
          with (via_tmp (LH (length h) :: lines_of h rows)).
        assert (Hw : wellformed (LH (length h) :: lines_of h rows) = true).
        { cbn [wellformed]. rewrite (rows_ok_lines h rows (length h) (in_cid_pos h Hid) (le_n _) Hlen).
          destruct (Nat.leb_spec 1 (length h)); [reflexivity|]. pose proof (in_cid_pos h Hid). lia. }
        assert (Hi : ids (LH (length h) :: lines_of h rows) = map jid (seen ++ new)).
        { cbn [ids]. rewrite ids_lines. exact Hrid. }
        destruct (Steps_via_tmp known d (LH (length h) :: lines_of h rows) Hg Hw) as (S1 & S2 & S3).
        { rewrite Hi. exact Hk. }
        { intros c0 H0. rewrite Hf in H0. discriminate. }
        split; [|split; [exact S1|]].
        -- split; [exact S3|]. right. cbn [started columns pending]. split; [reflexivity|].
           exists h, (lines_of h rows), (length h). cbn [fst snd append app].
           repeat split; try assumption; try reflexivity; try (rewrite ids_lines; exact Hrid);
             try (apply rows_ok_lines; [apply in_cid_pos; exact Hid|apply le_n|exact Hlen]).
        -- right. exists (LH (length h) :: lines_of h rows). split; [exact S2|split; [exact Hw|rewrite Hi; exact Hk]].
      * (* only failures so far: the file is not touched *)
        rewrite (dump_wait infer_fixed st1 fl j t Ep Hs Hc Ef). cbn [fst snd columns append app exec fold_left handle disk].
        split; [|split; [apply Steps_nil|exact Hg]]. split; [reflexivity|]. left. cbn [started columns pending].
        repeat split; try reflexivity; try assumption. subst st1. cbn [pending]. rewrite Hp. reflexivity.
  - (* header fixed: append *)
    destruct (pending st1) as [|j t] eqn:Ep.
    + rewrite (dump_nil infer_fixed st1 fl Ep). cbn [fst snd exec fold_left handle disk append].
      assert (Hnew : new = []). { subst st1. cbn [pending] in Ep. rewrite Hp in Ep. exact Ep. }
      subst new. rewrite !app_nil_r.
      split; [|split; [apply Steps_nil|exact Hg]]. split; [reflexivity|]. right. subst st1. cbn [pending started columns] in *.
      split; [exact Hs|]. exists h, c, n. repeat split; assumption.
    + rewrite (dump_started infer_fixed st1 fl j t h Ep Hs Hc). cbn [fst snd columns append].
      assert (Hst1 : started st1 = true) by exact Hs. rewrite Hst1.
      set (m := infer_fixed (nobj st1) (pending st1)).
      set (rows := map (project h) (map (mkresult m) (pending st1))).
      assert (Hp1 : pending st1 = new). { subst st1. cbn [pending]. rewrite Hp. reflexivity. }
      assert (Hrid2 : map (row_id h) rows = map jid new).
      { unfold rows. rewrite Hp1, !map_map. apply map_ext. intros j1. apply row_id_project. exact Hid. }
      assert (Hlen2 : Forall (fun r => length r = length h) rows).
      { unfold rows. apply Forall_forall. intros r Hr. apply in_map_iff in Hr as [x [<- _]]. apply project_length. }
      change ([OpenA fresults] ++ map (fun l => Write fresults [l]) ([] ++ lines_of h rows) ++ [Close fresults])
        with (via_append (lines_of h rows)).
      pose proof (in_cid_pos h Hid) as Hpos.
      assert (Hrk : forallb (row_ok n) (lines_of h rows) = true) by (apply rows_ok_lines; assumption).
      destruct (Steps_via_append known d n c (lines_of h rows) Hf ltac:(lia) Hrows Hrk) as (S1 & S2 & S3).
      { rewrite Hids, ids_lines, Hrid2, <- map_app. exact Hk. }
      split; [|split; [exact S1|]].
      * split; [exact S3|]. right. cbn [started columns pending]. split; [reflexivity|].
        exists h, (c ++ lines_of h rows), n. cbn [fst snd append].
        repeat split; try assumption; try reflexivity; try (apply Forall_app; split; assumption);
          try (rewrite !map_app, Hrid, Hrid2; reflexivity); try (rewrite forallb_app, Hrows, Hrk; reflexivity);
          try (rewrite ids_app, Hids, ids_lines, Hrid2, map_app; reflexivity).
      * right. exists (LH n :: c ++ lines_of h rows). split; [exact S2|split; [apply wellformed_app; try assumption; lia|]].
        cbn [ids]. rewrite ids_app, Hids, ids_lines, Hrid2, <- map_app. exact Hk.
Qed.

(* ---------- end of search(): the Pareto rewrite ---------- *)
Lemma assign_shape h rows : forall mask, Forall2 (fun r r' => exists b, r' = r ++ [bcell b]) rows (assign h rows mask).
Proof.
  induction rows as [|r t IH]; intros mask; cbn [assign]; [constructor|].
  destruct (row_failed h r); [constructor; [exists false; reflexivity|apply IH]|].
  destruct mask as [|b mk]; (constructor; [|apply IH]); [exists false|exists b]; reflexivity.
Qed.

Lemma row_id_ext h r x : In CId h -> length r = length h -> row_id (h ++ [CPareto]) (r ++ [x]) = row_id h r.
Proof. intros Hid Hl. unfold row_id. rewrite cell_at_ext_old by assumption. reflexivity. Qed.

Lemma end_ops_fixed s seen known fs :
  J s fs seen -> incl (map jid seen) known -> Good known (disk fs) ->
  let ops := end_ops Fixed s in
  J s (exec fs ops) seen /\ Steps known fs ops /\ Good known (disk (exec fs ops)).
Proof.
  destruct s as [st tbl]. destruct fs as [d hd]. unfold J. cbn [fst snd handle disk].
  intros [Hh HJ] Hk Hg. subst hd. cbn zeta.
  remember (end_ops Fixed (st, tbl)) as ops eqn:Eops. unfold end_ops in Eops. cbn [fst snd] in Eops.
  destruct HJ as [(Hs & Hc & Ht & Hp & Hf)|(Hs & h & c & n & Hc & Hh & Hid & Hp & Hlen & Hrid & Hf & Hn & Hrows & Hids)].
  - subst tbl. cbn [fst] in Eops. subst ops. cbn [exec fold_left].
    split; [|split; [apply Steps_nil|exact Hg]]. split; [reflexivity|]. left. repeat split; assumption.
  - rewrite Hh in Eops. assert (Keep : J (st, tbl) (mkFs d None) seen /\ Steps known (mkFs d None) [] /\ Good known d).
    { split; [|split; [apply Steps_nil|exact Hg]]. split; [reflexivity|]. right. split; [exact Hs|]. exists h, c, n. repeat split; assumption. }
    unfold J in Keep. cbn [fst snd handle disk] in Keep.
    destruct (length (objcols h) <=? 1)%nat eqn:E1; [subst ops; exact Keep|].
    unfold pareto_pass in Eops. cbn [fst snd] in Eops. rewrite E1 in Eops.
    destruct (traverse (row_vec h) (filter (fun r => negb (row_failed h r)) (snd tbl))) as [pts|]; [|subst ops; exact Keep].
    clear Keep. subst ops.
    set (h' := h ++ [CPareto]). set (rows' := assign h (snd tbl) (nds_mask pts)).
    change ([OpenW ftmp; Write ftmp (LH (length h') :: lines_of h' rows'); Close ftmp; Replace ftmp fresults])
      with ([OpenW ftmp] ++ [Write ftmp (LH (length h') :: lines_of h' rows')] ++ [Close ftmp; Replace ftmp fresults]).
    (* one write of the whole content has the same effect on the disk as one write per line *)
    pose proof (assign_shape h (snd tbl) (nds_mask pts)) as Hshape. fold rows' in Hshape.
    assert (Hlen' : Forall (fun r => length r = length h') rows').
    { clear - Hshape Hlen. induction Hshape as [|r r' t t' [b ->] _ IH]; constructor.
      - inversion Hlen; subst. unfold h'. rewrite !app_length. cbn [length]. lia.
      - apply IH. inversion Hlen; assumption. }
    assert (Hrid' : map (row_id h') rows' = map jid seen).
    { rewrite <- Hrid. clear - Hshape Hlen Hid. induction Hshape as [|r r' t t' [b ->] _ IH]; cbn [map]; [reflexivity|].
      inversion Hlen; subst. rewrite IH by assumption. f_equal. apply row_id_ext; assumption. }
    assert (Hlh : length h' = S (length h)). { unfold h'. rewrite app_length. cbn [length]. lia. }
    set (ls := LH (length h') :: lines_of h' rows').
    assert (Hw : wellformed ls = true).
    { unfold ls. cbn [wellformed]. rewrite (rows_ok_lines h' rows' (length h')); [|lia|apply le_n|exact Hlen'].
      destruct (Nat.leb_spec 1 (length h')); [reflexivity|lia]. }
    assert (Hi : ids ls = map jid seen). { unfold ls. cbn [ids]. rewrite ids_lines. exact Hrid'. }
    (* the effect of the four operations *)
    assert (Hexec : exec (mkFs d None) ([OpenW ftmp] ++ [Write ftmp ls] ++ [Close ftmp; Replace ftmp fresults])
                    = mkFs (fset (fdel (fset (fset d ftmp []) ftmp ls) ftmp) fresults ls) None).
    { cbn [app exec fold_left exec_op handle disk]. rewrite fget_fset_same. cbn [odfl app]. rewrite fget_fset_same. reflexivity. }
    assert (Hsteps : steps (mkFs d None) ([OpenW ftmp] ++ [Write ftmp ls] ++ [Close ftmp; Replace ftmp fresults])
                     = [fset d ftmp []; fset d ftmp []; fset (fset d ftmp []) ftmp ls;
                        fset (fdel (fset (fset d ftmp []) ftmp ls) ftmp) fresults ls]).
    { cbn [app steps exec_op handle disk]. rewrite fget_fset_same. cbn [odfl app]. rewrite fget_fset_same. reflexivity. }
    fold ls. rewrite Hexec. cbn [disk handle].
    set (d1 := fset d ftmp []) in *. set (d2 := fset d1 ftmp ls) in *. set (d3 := fset (fdel d2 ftmp) fresults ls) in *.
    assert (G1 : Good known d1).
    { right. exists (LH n :: c). unfold d1. rewrite fget_fset_other by exact ftmp_ne. split; [exact Hf|split].
      - rewrite <- (app_nil_r c). apply wellformed_app; [exact Hrows|reflexivity|]. pose proof (in_cid_pos h Hid). lia.
      - cbn [ids]. rewrite Hids. exact Hk. }
    assert (G2 : Good known d2) by (apply Good_fset_tmp; exact G1).
    assert (G3 : Good known d3).
    { right. exists ls. split; [unfold d3; apply fget_fset_same|split; [exact Hw|rewrite Hi; exact Hk]]. }
    split; [|split; [|exact G3]].
    + split; [reflexivity|]. right. split; [exact Hs|]. exists h, (lines_of h' rows'), (length h').
      repeat split; try assumption; try (unfold d3; apply fget_fset_same); try lia;
        try (apply rows_ok_lines; [lia|apply le_n|exact Hlen']); try (rewrite ids_lines; exact Hrid').
    + unfold Steps. rewrite Hsteps. cbn [disk]. split; [constructor; [exact G1|constructor; [exact G1|constructor; [exact G2|constructor; [exact G3|constructor]]]]|].
      cbn [chain_from]. repeat split.
      * apply NoLoss_fset_noncsv. reflexivity.
      * apply NoLoss_refl.
      * apply NoLoss_fset_noncsv. reflexivity.
      * unfold d3. apply NoLoss_move; [unfold d2; apply fget_fset_same|discriminate|].
        intros c0 H0. unfold d2, d1 in H0. rewrite !fget_fset_other in H0 by exact ftmp_ne. rewrite Hf in H0. injection H0 as <-.
        cbn [ids]. rewrite Hids, Hi. apply incl_refl.
Qed.

(* ---------- a new search: results.csv is renamed to a FREE name ---------- *)
Definition cands_free (d : files) (cands : list fname) : Prop :=
  (exists f, In f cands /\ fget d f = None) /\ Forall (fun f => 0 < f) cands.

Lemma pick_free d cands : cands_free d cands ->
  fget d (pick_name Fixed d cands) = None /\ 0 < pick_name Fixed d cands /\ In (pick_name Fixed d cands) cands.
Proof.
  intros [(f & Hin & Hf) Hpos]. unfold pick_name.
  destruct (find (fun f0 => match fget d f0 with None => true | Some _ => false end) cands) as [g|] eqn:E.
  - apply find_some in E as [Hg1 Hg2]. rewrite Forall_forall in Hpos. split; [|split; [apply Hpos; exact Hg1|exact Hg1]].
    destruct (fget d g); [discriminate|reflexivity].
  - exfalso. pose proof (find_none _ _ E f Hin) as H. cbn beta in H. rewrite Hf in H. discriminate.
Qed.

Lemma new_ops_fixed d cands known : cands_free d cands ->
  let ops := new_ops Fixed d cands in
  let fs' := exec (mkFs d None) ops in
  J sinit fs' [] /\ Forall (Good known) (steps (mkFs d None) ops) /\ chain_from NoLoss d (steps (mkFs d None) ops)
  /\ (forall f c, f <> fresults -> fget d f = Some c -> fget (disk fs') f = Some c)
  /\ (forall c, fget d fresults = Some c -> fget (disk fs') (pick_name Fixed d cands) = Some c /\ fget d (pick_name Fixed d cands) = None).
Proof.
  intros Hc. destruct (pick_free d cands Hc) as (Hfree & Hpos & _). unfold new_ops.
  destruct (fget d fresults) as [c0|] eqn:E0.
  - set (nm := pick_name Fixed d cands) in *. cbn [exec fold_left exec_op disk handle steps]. rewrite E0. cbn [disk handle].
    assert (Hne : nm <> fresults) by (unfold fresults; lia).
    assert (H0 : fget (fset (fdel d fresults) nm c0) fresults = None).
    { rewrite fget_fset_other by exact Hne. apply fget_fdel_same. }
    split; [|split; [|split; [|split]]].
    + split; [reflexivity|]. left. repeat split; try reflexivity. exact H0.
    + constructor; [left; exact H0|constructor].
    + cbn [chain_from]. split; [|exact I]. apply NoLoss_move; [exact E0|intros _; unfold is_csv; apply Z.leb_le; lia|].
      intros c1 H1. rewrite Hfree in H1. discriminate.
    + intros f c Hf Hget. destruct (Z.eq_dec nm f) as [<-|Hn]; [congruence|].
      rewrite fget_fset_other by exact Hn. rewrite fget_fdel_other by (intros H; apply Hf; symmetry; exact H). exact Hget.
    + intros c Hcc. injection Hcc as <-. split; [apply fget_fset_same|exact Hfree].
  - cbn [exec fold_left steps disk]. split; [|split; [constructor|split; [exact I|split]]].
    + split; [reflexivity|]. left. repeat split; try reflexivity. exact E0.
    + intros f c _ H. exact H.
    + intros c Hcc. discriminate.
Qed.

(* ---------- a whole session ---------- *)
Fixpoint seen_after (seen : list job) (acts : list action) : list job :=
  match acts with
  | [] => seen
  | ANew _ :: t => seen_after [] t
  | ADump e :: t => seen_after (seen ++ fst e) t
  | AEnd :: t => seen_after seen t
  end.
Fixpoint act_ids (acts : list action) : list Z :=
  match acts with
  | [] => []
  | ADump e :: t => map jid (fst e) ++ act_ids t
  | _ :: t => act_ids t
  end.

(* every rename finds a free candidate name (fixes/F15: the code tries results_<stamp>.csv, results_<stamp>_1.csv, ...) *)
Fixpoint cands_ok (x : sstate * fsys * list op) (acts : list action) : Prop :=
  match acts with
  | [] => True
  | a :: t => (match a with ANew cands => cands_free (disk (snd (fst x))) cands | _ => True end) /\ cands_ok (act Fixed x a) t
  end.

Lemma session_from acts : forall s fs tr0 seen known,
  J s fs seen -> Good known (disk fs) -> incl (map jid seen ++ act_ids acts) known -> cands_ok (s, fs, tr0) acts ->
  let x := fold_left (act Fixed) acts (s, fs, tr0) in
  exists tr', snd x = tr0 ++ tr' /\ snd (fst x) = exec fs tr' /\ J (fst (fst x)) (snd (fst x)) (seen_after seen acts)
    /\ Steps known fs tr' /\ Good known (disk (snd (fst x))).
Proof.
  induction acts as [|a rest IH]; intros s fs tr0 seen known HJ Hg Hk Hc; cbn [fold_left seen_after].
  - exists []. cbn [fst snd exec fold_left]. rewrite app_nil_r.
    split; [reflexivity|split; [reflexivity|split; [exact HJ|split; [apply Steps_nil|exact Hg]]]].
  - destruct Hc as [Hca Hcr]. destruct a as [cands|e|].
    + (* new search *)
      cbn [act] in *. cbn [fst snd] in Hca. destruct HJ as [Hh _]. destruct fs as [d hd]. cbn [handle disk] in *. subst hd.
      destruct (new_ops_fixed d cands known Hca) as (J1 & G1 & C1 & _ & _). cbn zeta in *.
      set (ops := new_ops Fixed d cands) in *.
      assert (Hg1 : Good known (disk (exec (mkFs d None) ops))).
      { destruct J1 as [_ [(_ & _ & _ & _ & H0)|(Hst & _)]]; [left; exact H0|cbn in Hst; discriminate]. }
      destruct (IH sinit (exec (mkFs d None) ops) (tr0 ++ ops) [] known J1 Hg1) as (tr' & E1 & E2 & J2 & [S2a S2b] & G2).
      { cbn [map app]. cbn [act_ids] in Hk. eapply incl_tran; [|exact Hk]. apply incl_appr, incl_refl. }
      { exact Hcr. }
      exists (ops ++ tr'). split; [rewrite E1, <- app_assoc; reflexivity|]. split; [rewrite E2, exec_app; reflexivity|].
      split; [exact J2|]. split; [|exact G2]. apply Steps_app; [split; assumption|split; assumption].
    + (* gather + dump *)
      cbn [act] in *. destruct e as [new fl].
      assert (Hk1 : incl (map jid (seen ++ new)) known).
      { cbn [act_ids fst] in Hk. rewrite map_app. intros i Hi. apply Hk. apply in_app_or in Hi as [Hi|Hi]; apply in_or_app; [left; exact Hi|right; apply in_or_app; left; exact Hi]. }
      destruct (dump_ops_fixed s seen new fl known fs HJ Hk1 Hg) as (J1 & [S1a S1b] & G1). cbn zeta in *.
      set (r := dump_ops Fixed s (new, fl)) in *.
      destruct (IH (fst r) (exec fs (snd r)) (tr0 ++ snd r) (seen ++ new) known J1 G1) as (tr' & E1 & E2 & J2 & [S2a S2b] & G2).
      { cbn [act_ids fst] in Hk. rewrite map_app, <- app_assoc. exact Hk. }
      { exact Hcr. }
      exists (snd r ++ tr'). split; [rewrite E1, <- app_assoc; reflexivity|]. split; [rewrite E2, exec_app; reflexivity|].
      split; [exact J2|]. split; [|exact G2]. apply Steps_app; [split; assumption|split; assumption].
    + (* end of search() *)
      cbn [act] in *.
      assert (Hk1 : incl (map jid seen) known). { eapply incl_tran; [|exact Hk]. apply incl_appl, incl_refl. }
      destruct (end_ops_fixed s seen known fs HJ Hk1 Hg) as (J1 & [S1a S1b] & G1). cbn zeta in *.
      set (ops := end_ops Fixed s) in *.
      destruct (IH s (exec fs ops) (tr0 ++ ops) seen known J1 G1) as (tr' & E1 & E2 & J2 & [S2a S2b] & G2).
      { cbn [act_ids] in Hk. exact Hk. }
      { exact Hcr. }
      exists (ops ++ tr'). split; [rewrite E1, <- app_assoc; reflexivity|]. split; [rewrite E2, exec_app; reflexivity|].
      split; [exact J2|]. split; [|exact G2]. apply Steps_app; [split; assumption|split; assumption].
Qed.
