(* Entry points for the extracted driver: data -> data *)
From Coq Require Import List ZArith Bool.
Import ListNotations.
Require Import DH.Common.Data DH.C04_Results.Model DH.C04_Results.Entry DH.C15_Crash.Model DH.C15_Crash.Check.
Open Scope Z_scope.

(* line: (0 n) header | (1 id m) row *)
Definition d_line (d : data) : line :=
  match dZ (dnth 0 d) with 0 => LH (dnat (dnth 1 d)) | _ => LR (dZ (dnth 1 d)) (dnat (dnth 2 d)) end.
Definition e_line (l : line) : data :=
  match l with LH n => L [I 0; enat n] | LR i m => L [I 1; I i; enat m] end.
(* op: (0 f) open w | (1 f) open a | (2 f lines) write | (3 f) close | (4 a b) rename | (5 a b) replace *)
Definition d_op (d : data) : op :=
  match dZ (dnth 0 d) with
  | 0 => OpenW (dZ (dnth 1 d)) | 1 => OpenA (dZ (dnth 1 d)) | 2 => Write (dZ (dnth 1 d)) (dmap d_line (dnth 2 d))
  | 3 => Close (dZ (dnth 1 d)) | 4 => Rename (dZ (dnth 1 d)) (dZ (dnth 2 d)) | _ => Replace (dZ (dnth 1 d)) (dZ (dnth 2 d))
  end.
Definition e_op (o : op) : data :=
  match o with
  | OpenW f => L [I 0; I f] | OpenA f => L [I 1; I f] | Write f l => L [I 2; I f; elist e_line l] | Close f => L [I 3; I f]
  | Rename a b => L [I 4; I a; I b] | Replace a b => L [I 5; I a; I b]
  end.
(* action: (0 cands) new search | (1 event) gather + dump | (2) end of search() *)
Definition d_action (d : data) : action :=
  match dZ (dnth 0 d) with 0 => ANew (dmap dZ (dnth 1 d)) | 1 => ADump (d_event (dnth 1 d)) | _ => AEnd end.
Definition d_variant (d : data) : variant := if dbool d then Fixed else Today.
Definition e_files (d : files) : data := elist (epair eZ (elist e_line)) d.
Definition d_files (d : data) : files := dmap (dpair dZ (dmap d_line)) d.
Definition e_optnat (o : option nat) : data := match o with Some n => enat n | None => I (-1) end.

Definition entries : list (Z * (data -> data)) :=
  [ (* 1501: (fixed? actions) -> the operations of the session from an empty log_dir *)
    (1501, fun d => elist e_op (trace (d_variant (dnth 0 d)) fs0 (dmap d_action (dnth 1 d))));
    (* 1502: (finished ops) -> (ok  first crash point with a bad file | -1   first crash point that loses a row | -1) *)
    (1502, fun d => let fin := dmap dZ (dnth 0 d) in let tr := dmap d_op (dnth 1 d) in
                    L [ebool (ok_trace fin tr); e_optnat (first_bad (ok_survivors fin) (disks fs0 tr) 0);
                       e_optnat (first_loss (disk fs0) (steps fs0 tr) 1)]);
    (* 1503: (ops k) -> the files after a kill at operation k *)
    (1503, fun d => e_files (crash fs0 (dmap d_op (dnth 0 d)) (dnat (dnth 1 d))));
    (* 1504: (finished files) -> ok_survivors *)
    (1504, fun d => ebool (ok_survivors (dmap dZ (dnth 0 d)) (d_files (dnth 1 d))));
    (* 1505: (finished new-finished files-before files-after) -> (ok clause) : the restart clause *)
    (1505, fun d => let fin := dmap dZ (dnth 0 d) in let nf := dmap dZ (dnth 1 d) in
                    let b := d_files (dnth 2 d) in let a := d_files (dnth 3 d) in
                    L [ebool (ok_restart fin nf b a); I (clause_restart fin nf b a)]) ].
