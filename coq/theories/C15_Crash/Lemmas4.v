(* C15: soundness of the oracles.  ok_survivors on the real bytes; ok_trace on a recorded operation sequence:
   at EVERY crash point every *.csv file is a well-formed results file and no durable row id is ever lost. *)
From Coq Require Import List ZArith Bool Arith Lia.
Import ListNotations.
Require Import DH.C04_Results.Model DH.C15_Crash.Model DH.C15_Crash.Check DH.C15_Crash.Lemmas.
Open Scope Z_scope.

Lemma zmem_In z l : zmem z l = true <-> In z l.
Proof.
  unfold zmem. rewrite existsb_exists. split.
  - intros [x [Hx E]]. apply Z.eqb_eq in E. subst. exact Hx.
  - intros H. exists z. split; [exact H|apply Z.eqb_refl].
Qed.

Lemma znodup_NoDup l : znodup l = true -> NoDup l.
Proof.
  induction l as [|x t IH]; cbn [znodup]; intros H; constructor.
  - apply andb_true_iff in H as [H _]. apply negb_true_iff in H. intros Hin. apply zmem_In in Hin. congruence.
  - apply IH. apply andb_true_iff in H. tauto.
Qed.

Lemma ok_file_sound fin c : ok_file fin c = true -> FileSpec fin c.
Proof.
  unfold ok_file, FileSpec. intros H. apply andb_true_iff in H as [H Hnd]. apply andb_true_iff in H as [Hw Hin].
  split; [|split].
  - destruct c as [|[n|i m] rows]; cbn [wellformed] in Hw; try discriminate.
    apply andb_true_iff in Hw as [Hn Hrows]. apply Nat.leb_le in Hn. exists n, rows. split; [reflexivity|]. split; [exact Hn|].
    apply Forall_forall. intros l Hl. rewrite forallb_forall in Hrows. specialize (Hrows l Hl).
    destruct l as [n'|i m]; cbn [row_ok] in Hrows; [discriminate|]. apply andb_true_iff in Hrows as [H1 H2].
    apply Nat.leb_le in H1, H2. exists i, m. split; [reflexivity|lia].
  - intros i Hi. rewrite forallb_forall in Hin. apply zmem_In. apply Hin. exact Hi.
  - apply znodup_NoDup. exact Hnd.
Qed.

Lemma fget_In d f c : fget d f = Some c -> In (f, c) d.
Proof.
  induction d as [|[g x] t IH]; cbn [fget]; [discriminate|]. destruct (f =? g) eqn:E.
  - intros H. injection H as <-. apply Z.eqb_eq in E. subst. left. reflexivity.
  - intros H. right. apply IH. exact H.
Qed.

(* every *.csv file found after the kill is a well-formed results file; in particular results.csv is absent or well formed *)
Theorem ok_survivors_sound fin d : ok_survivors fin d = true ->
  forall f c, is_csv f = true -> fget d f = Some c -> FileSpec fin c.
Proof.
  unfold ok_survivors. rewrite forallb_forall. intros H f c Hf Hget. specialize (H (f, c) (fget_In d f c Hget)).
  cbn [fst snd] in H. rewrite Hf in H. apply ok_file_sound. exact H.
Qed.

(* ---------- distinct names on the disks the model produces ---------- *)
Definition NoDupKeys (d : files) : Prop := NoDup (map fst d).

Lemma fdel_keys d f g : In g (map fst (fdel d f)) -> In g (map fst d) /\ g <> f.
Proof.
  induction d as [|[x c] t IH]; cbn [fdel map fst]; [intros []|]. destruct (f =? x) eqn:E.
  - intros H. destruct (IH H) as [H1 H2]. split; [right; exact H1|exact H2].
  - cbn [map fst In]. intros [<-|H].
    + split; [left; reflexivity|]. apply Z.eqb_neq in E. congruence.
    + destruct (IH H) as [H1 H2]. split; [right; exact H1|exact H2].
Qed.

Lemma fdel_nodup d f : NoDupKeys d -> NoDupKeys (fdel d f).
Proof.
  unfold NoDupKeys. induction d as [|[x c] t IH]; cbn [fdel map fst]; intros H; [constructor|].
  inversion H as [|? ? Hx Ht]; subst. destruct (f =? x); [apply IH; exact Ht|]. cbn [map fst]. constructor; [|apply IH; exact Ht].
  intros Hin. apply fdel_keys in Hin as [Hin _]. contradiction.
Qed.

Lemma fset_nodup d f c : NoDupKeys d -> NoDupKeys (fset d f c).
Proof.
  intros H. unfold NoDupKeys, fset. cbn [map fst]. constructor; [|apply fdel_nodup; exact H].
  intros Hin. apply fdel_keys in Hin as [_ Hne]. congruence.
Qed.

Lemma exec_op_nodup s o : NoDupKeys (disk s) -> NoDupKeys (disk (exec_op s o)).
Proof.
  intros H. destruct o as [f|f|f l|f|a b|a b]; cbn [exec_op].
  - apply fset_nodup. exact H.
  - apply fset_nodup. exact H.
  - destruct (handle s) as [[g buf]|]; exact H.
  - destruct (handle s) as [[g buf]|]; [apply fset_nodup|]; exact H.
  - destruct (fget (disk s) a); [apply fset_nodup, fdel_nodup|]; exact H.
  - destruct (fget (disk s) a); [apply fset_nodup, fdel_nodup|]; exact H.
Qed.

Lemma steps_nodup tr : forall s, NoDupKeys (disk s) -> Forall NoDupKeys (steps s tr).
Proof.
  induction tr as [|o t IH]; intros s H; cbn [steps]; constructor.
  - apply exec_op_nodup. exact H.
  - apply IH. apply exec_op_nodup. exact H.
Qed.

Lemma In_fget d f c : NoDupKeys d -> In (f, c) d -> fget d f = Some c.
Proof.
  unfold NoDupKeys. induction d as [|[g x] t IH]; cbn [map fst fget]; intros Hnd Hin; [contradiction|].
  inversion Hnd as [|? ? Hg Ht]; subst. destruct Hin as [E|Hin].
  - injection E as -> ->. rewrite Z.eqb_refl. reflexivity.
  - destruct (f =? g) eqn:E; [|apply IH; assumption]. apply Z.eqb_eq in E. subst g. exfalso. apply Hg.
    apply in_map_iff. exists (f, c). split; [reflexivity|exact Hin].
Qed.

Lemma csv_ids_InCsv d i : NoDupKeys d -> In i (csv_ids d) -> InCsv d i.
Proof.
  intros Hnd H. unfold csv_ids in H. apply in_flat_map in H as [[f c] [Hin Hi]]. cbn [fst snd] in Hi.
  destruct (is_csv f) eqn:E; [|contradiction]. exists f, c. split; [exact E|]. split; [apply In_fget; assumption|exact Hi].
Qed.

Lemma InCsv_csv_ids d i : InCsv d i -> In i (csv_ids d).
Proof.
  intros (f & c & Hf & Hget & Hi). unfold csv_ids. apply in_flat_map. exists (f, c). split; [apply fget_In; exact Hget|].
  cbn [fst snd]. rewrite Hf. exact Hi.
Qed.

Lemma no_loss_sound d d' : NoDupKeys d' -> no_loss d d' = true -> NoLoss d d'.
Proof.
  intros Hnd H i Hi. unfold no_loss in H. rewrite forallb_forall in H.
  apply csv_ids_InCsv; [exact Hnd|]. apply zmem_In. apply H. apply InCsv_csv_ids. exact Hi.
Qed.

Lemma chainb_sound l : forall d, Forall NoDupKeys l -> chainb d l = true -> chain_from NoLoss d l.
Proof.
  induction l as [|x t IH]; intros d HF H; cbn [chainb chain_from] in *; [exact I|].
  inversion HF as [|? ? Hx Ht]; subst. apply andb_true_iff in H as [H1 H2]. split; [apply no_loss_sound; assumption|].
  apply IH; assumption.
Qed.

(* the statement about a recorded operation sequence, replayed from an empty log_dir *)
Definition TraceSpec (finished : list Z) (tr : list op) : Prop :=
  (forall k f c, is_csv f = true -> fget (crash fs0 tr k) f = Some c -> FileSpec finished c)
  /\ (forall j k, (j <= k)%nat -> NoLoss (crash fs0 tr j) (crash fs0 tr k)).

Theorem ok_trace_sound finished tr : ok_trace finished tr = true -> TraceSpec finished tr.
Proof.
  unfold ok_trace, TraceSpec. intros H. apply andb_true_iff in H as [H1 H2]. split.
  - intros k f c Hf Hget. rewrite forallb_forall in H1. apply (ok_survivors_sound finished (crash fs0 tr k) (H1 _ (crash_in fs0 tr k)) f c Hf Hget).
  - intros j k Hjk. apply (chain_crash NoLoss NoLoss_refl NoLoss_trans); [|exact Hjk].
    apply chainb_sound; [|exact H2]. apply steps_nodup. cbn. constructor.
Qed.

(* ---------- the restart clause ---------- *)
Lemma line_eqb_eq a b : line_eqb a b = true -> a = b.
Proof.
  destruct a as [n|i n], b as [m|j m]; cbn [line_eqb]; intros H; try discriminate.
  - apply Nat.eqb_eq in H. congruence.
  - apply andb_true_iff in H as [H1 H2]. apply Z.eqb_eq in H1. apply Nat.eqb_eq in H2. congruence.
Qed.

Lemma content_eqb_eq a : forall b, content_eqb a b = true -> a = b.
Proof.
  induction a as [|x t IH]; intros [|y u] H; cbn [content_eqb] in H; try discriminate; [reflexivity|].
  apply andb_true_iff in H as [H1 H2]. apply line_eqb_eq in H1. apply IH in H2. congruence.
Qed.

(* what must hold after a new search was created and run in the directory a kill left behind *)
Definition RestartSpec (finished newfin : list Z) (before after : files) : Prop :=
  (forall f c, is_csv f = true -> fget after f = Some c -> FileSpec (finished ++ newfin) c)
  /\ NoLoss before after
  /\ (forall i, In i newfin -> exists c, fget after fresults = Some c /\ In i (ids c))
  /\ (forall f c, is_csv f = true -> In (f, c) before ->
        exists g, g <> fresults /\ is_csv g = true /\ fget after g = Some c).

Theorem ok_restart_sound finished newfin before after :
  ok_restart finished newfin before after = true -> RestartSpec finished newfin before after.
Proof.
  unfold ok_restart, clause_restart. intros H.
  destruct (keys_nodup after && ok_survivors (finished ++ newfin) after) eqn:E1; cbn [negb] in H; [|discriminate].
  destruct (no_loss before after) eqn:E2; cbn [negb] in H; [|discriminate].
  destruct (new_in_results newfin after) eqn:E3; cbn [negb] in H; [|discriminate].
  destruct (kept_aside before after) eqn:E4; cbn [negb] in H; [|discriminate].
  apply andb_true_iff in E1 as [Hk Hs]. assert (Hnd : NoDupKeys after) by (apply znodup_NoDup; exact Hk).
  split; [|split; [|split]].
  - apply ok_survivors_sound. exact Hs.
  - apply no_loss_sound; assumption.
  - intros i Hi. unfold new_in_results in E3. destruct (fget after fresults) as [c|].
    + exists c. split; [reflexivity|]. rewrite forallb_forall in E3. apply zmem_In. apply E3. exact Hi.
    + destruct newfin; [contradiction|discriminate].
  - intros f c Hf Hin. unfold kept_aside in E4. rewrite forallb_forall in E4. specialize (E4 (f, c) Hin).
    cbn [fst snd] in E4. rewrite Hf in E4. apply existsb_exists in E4 as [[g cg] [Hg E]]. cbn [fst snd] in E.
    apply andb_true_iff in E as [E Hc]. apply andb_true_iff in E as [Hne Hcsv]. apply content_eqb_eq in Hc. subst cg.
    exists g. split; [|split; [exact Hcsv|apply In_fget; assumption]].
    apply negb_true_iff in Hne. apply Z.eqb_neq in Hne. exact Hne.
Qed.
