(* Model of the per-job status machine of the evaluator backends under a timeout
   (src/deephyper/evaluator/_serial.py / _thread_pool.py / _process_pool.py execute(); _evaluator.py _on_launch, _on_done, close).

   Observable events of ONE job, in the order they happen:
     W s      a status write through the storage (Job.status = s)
     FStart   the run-function begins
     Poll s   the run-function reads job.status and sees s
     FReturn  the run-function returns (its value is kept by the harness and compared with the results table)
   [jstep] is the automaton of what the code can do:
     _on_launch            : W READY                                 (first event)
     execute, semaphore    : W RUNNING            from READY
     run-function          : FStart, Poll*, FReturn                  after RUNNING was written
     wait_for TimeoutError : W CANCELLING         from RUNNING
     after the await       : W CANCELLED          from CANCELLING, once the run-function has returned
     _on_done              : W DONE               from RUNNING, once the run-function has returned
     close                 : W CANCELLED          from READY / RUNNING of a job whose run-function has not returned
   A Poll always sees the status written last (the status lives in the storage). *)
From Coq Require Import List ZArith Bool Arith.
Import ListNotations.

Inductive st := READY | RUNNING | DONE | CANCELLING | CANCELLED.

Definition st_code (s : st) : Z := match s with READY => 0 | RUNNING => 1 | DONE => 2 | CANCELLING => 3 | CANCELLED => 4 end%Z.
Definition st_of_code (z : Z) : option st :=
  (if z =? 0 then Some READY else if z =? 1 then Some RUNNING else if z =? 2 then Some DONE
   else if z =? 3 then Some CANCELLING else if z =? 4 then Some CANCELLED else None)%Z.

Definition st_eqb (a b : st) : bool := Z.eqb (st_code a) (st_code b).

Inductive jev := W (s : st) | FStart | Poll (s : st) | FReturn.

Record jst := mkJ { cur : option st; started : bool; returned : bool; writes : list st }.
Definition jinit : jst := mkJ None false false [].

Definition terminal (s : st) : bool := match s with DONE | CANCELLED => true | _ => false end.

(* the status graph *)
Definition edge (a b : st) : bool :=
  match a, b with
  | READY, RUNNING | RUNNING, DONE | RUNNING, CANCELLING | CANCELLING, CANCELLED | READY, CANCELLED | RUNNING, CANCELLED => true
  | _, _ => false
  end.

Definition jstep (s : jst) (e : jev) : option jst :=
  match e with
  | W x =>
      match cur s with
      | None => match x with READY => Some (mkJ (Some READY) (started s) (returned s) (writes s ++ [READY])) | _ => None end
      | Some c =>
          let ok := match c, x with
                    | READY, RUNNING => true
                    | RUNNING, CANCELLING => true
                    | CANCELLING, CANCELLED => returned s
                    | RUNNING, DONE => returned s
                    | READY, CANCELLED => negb (started s)
                    | RUNNING, CANCELLED => negb (returned s)
                    | _, _ => false
                    end in
          if ok then Some (mkJ (Some x) (started s) (returned s) (writes s ++ [x])) else None
      end
  | FStart =>
      match cur s with
      | Some RUNNING | Some CANCELLING => if started s then None else Some (mkJ (cur s) true (returned s) (writes s))
      | _ => None
      end
  | Poll x =>
      match cur s with
      | Some c => if started s && negb (returned s) && st_eqb c x then Some s else None
      | None => None
      end
  | FReturn =>
      match cur s with
      | Some RUNNING | Some CANCELLING => if started s && negb (returned s) then Some (mkJ (cur s) true true (writes s)) else None
      | _ => None
      end
  end.

Fixpoint jrun (s : jst) (tr : list jev) : option jst :=
  match tr with
  | [] => Some s
  | e :: t => match jstep s e with Some s' => jrun s' t | None => None end
  end.

(* the specification side: a list of statuses is a path of the status graph starting at READY *)
Fixpoint is_path (l : list st) : bool :=
  match l with
  | a :: ((b :: _) as t) => edge a b && is_path t
  | _ => true
  end.
Definition starts_ready (l : list st) : bool := match l with READY :: _ => true | [] => true | _ => false end.

(* the statuses written by a trace, and whether the run-function has returned in it *)
Fixpoint ws_of (tr : list jev) : list st :=
  match tr with [] => [] | W x :: t => x :: ws_of t | _ :: t => ws_of t end.
Definition is_return (e : jev) : bool := match e with FReturn => true | _ => false end.
