From Coq Require Import List ZArith Bool Arith Lia.
Import ListNotations.
Require Import DH.C14_Timeout.Model DH.C14_Timeout.Lemmas DH.C14_Timeout.Check.

Lemma first_bad_none f js : first_bad f js = None -> forall j, In j js -> f j = 0.
Proof.
  induction js as [|a t IH]; intros H j Hj; [destruct Hj|]. cbn in H. destruct (f a) eqn:E; [|discriminate].
  destruct Hj as [<-|Hj]; [exact E| apply IH; assumption].
Qed.

Lemma mem_st_In x l : mem_st x l = true <-> In x l.
Proof.
  unfold mem_st. rewrite existsb_exists. split.
  - intros [y [Hy E]]. apply st_eqb_eq in E. subst. exact Hy.
  - intros H. exists x. split; [exact H| apply st_eqb_eq; reflexivity].
Qed.

(* what an accepted observation guarantees for every submitted job *)
Theorem ok_C14_sound njobs tr vals table fc late : ok_C14 njobs tr vals table fc late = None ->
  late = 0 /\ length table = njobs /\
  forall j, j < njobs -> exists s c ro,
    jrun jinit (proj j tr) = Some s /\                                   (* the job's events are a run of the status machine *)
    is_path (ws_of (proj j tr)) = true /\ starts_ready (ws_of (proj j tr)) = true /\   (* forward only, from READY *)
    cur s = Some c /\ terminal c = true /\                               (* ends in a terminal status *)
    lookup_row j table = [(c, ro)] /\                                    (* exactly one row, with that status *)
    (straddles j tr = true -> told_before_s2 j tr = true) /\           (* running across the deadline: told to cancel in time *)
    (In CANCELLING (ws_of (proj j tr)) -> c = CANCELLED) /\              (* ... and reported CANCELLED *)
    born_after_s2 j tr = false /\                                        (* not submitted long after the expiry *)
    (returned s = true -> lookup_val j vals = Some ro).                  (* the value it returned is the one in the table *)
Proof.
  unfold ok_C14. destruct (first_bad _ _) eqn:F; [discriminate|].
  destruct (negb (Nat.eqb (length table) njobs)) eqn:E1; [discriminate|].
  destruct (negb (Nat.eqb late 0)) eqn:E2; [discriminate|]. intros _.
  apply negb_false_iff, Nat.eqb_eq in E1, E2. split; [exact E2|]. split; [exact E1|].
  intros j Hj. pose proof (first_bad_none _ _ F j ltac:(apply in_seq; lia)) as H. unfold ok_job in H.
  destruct (jrun jinit (proj j tr)) as [s|] eqn:R; [|discriminate].
  destruct (cur s) as [c|] eqn:Ec; [|discriminate].
  destruct (terminal c) eqn:Et; cbn [negb] in H; [|discriminate].
  destruct (lookup_row j table) as [|[rs ro] [|? ?]] eqn:L; try discriminate.
  destruct (st_eqb rs c) eqn:Es; cbn [negb] in H; [|discriminate]. apply st_eqb_eq in Es. subst rs.
  destruct (forward_only _ _ R) as (W1 & W2 & W3). rewrite <- W1 in H.
  destruct (straddles j tr && negb (told_before_s2 j tr)) eqn:S6; [discriminate|].
  destruct (mem_st CANCELLING (ws_of (proj j tr)) && st_eqb c DONE) eqn:S7; [discriminate|].
  destruct (born_after_s2 j tr) eqn:S9; [discriminate|].
  exists s, c, ro. repeat split; try assumption.
  - intros Hs. rewrite Hs in S6. cbn in S6. apply negb_false_iff in S6. exact S6.
  - intros Hc. apply mem_st_In in Hc. rewrite Hc in S7. cbn in S7.
    destruct c; try discriminate; try reflexivity.
  - intros Hr. rewrite Hr in H. destruct (lookup_val j vals) as [v|]; [|discriminate].
    destruct (Z.eqb ro v) eqn:Ev; [|discriminate]. apply Z.eqb_eq in Ev. congruence.
Qed.
