(* Acceptance of an OBSERVED global trace by the global model (executable, extracted; no proofs here).

   The harness logs, in one total order: every status write, run-function start / status poll / return (with the value),
   the two sentinels and an early sentinel, and - through wrappers on the evaluator INSTANCE, /repo is not edited -
   the calls of submit / gather / close, _update_job_when_done (execute() is about to return) and _on_done (the job was
   collected), plus the return of search() and the start of a further search() call.
   [accept] maps every observed event to the model events that explain it ([infer]: the two unobservable ones, the expiry
   of the budget and the stop test, are placed as late as possible: the expiry just before the first CANCELLING it must
   explain, the test right after gather returns), executes them with [gstep] and compares what the model says is
   observable ([obs]) with what was observed.  It fails at the first observed event that the model cannot do. *)
From Coq Require Import List ZArith Bool Arith.
Import ListNotations.
Require Import DH.C14_Timeout.Model DH.C14_Timeout.Check DH.C14_Timeout.Global.

Inductive oev :=
  | OW (j : nat) (s : st) | OStart (j : nat) | OPoll (j : nat) (s : st) | ORet (j : nat) (v : Z)
  | OFin (j : nat)            (* _update_job_when_done(job j): execute() returns *)
  | OCollected (j : nat)      (* _on_done(job j) returned *)
  | OSubmitCall | OGatherIn | OGatherOut | OCloseIn | OCloseOut | OReturn
  | OAgain (b : option budget)
  | OSent | OSent0
  | OCounts (d : nat).        (* evaluator.num_jobs_submitted - evaluator.num_jobs_gathered, read when close() / search() returned *)

Definition infer (g : gst) (o : oev) : option (list ev) :=
  match o with
  | OW j READY => Some [ESubmit]
  | OW j RUNNING => Some [EAcquire j]
  | OW j CANCELLING => Some (if timed g && negb (expired g) then [EExpire; ETell j] else [ETell j])
  | OW j CANCELLED => Some (match phase g with PClosing => [EKill j] | _ => [EFinishC j] end)
  | OW j DONE => Some [ECollect j]
  | OStart j => Some [EStart j]
  | OPoll j _ => Some [EPoll j]
  | ORet j v => Some [ERet j v]
  | OFin j =>
      match getj g j with
      | Some jb => match jph jb with TWaiting => Some [EFinish j] | TFinished => Some [] | _ => None end
      | None => None
      end
  | OCollected j =>
      match getj g j with
      | Some jb => match jph jb with
                   | TFinished => if st_eqb (jstat jb) RUNNING then None (* DONE was not written *) else Some [ECollect j]
                   | TGathered | TKilled => Some []
                   | _ => None
                   end
      | None => None
      end
  | OSubmitCall => match phase g with POut => Some [] | _ => None end
  | OGatherIn => Some [EGatherIn]
  | OGatherOut => Some [EGatherOut; ETest]
  | OCloseIn => Some [ECloseIn]
  | OCloseOut => Some [ECloseOut]
  | OReturn => Some [EReturn]
  | OAgain b => Some [EAgain b]
  | OSent => Some [ESentinel]
  | OSent0 => Some [ESentinel0]
  | OCounts d =>
      (* the evaluator's own counters agree with the model: jobs without a row = submitted but not gathered *)
      if Nat.eqb (length (jobs g) - length (rows g)) d then Some [] else None
  end.

(* the part of an observed event that the per-job oracle of Check.v sees *)
Definition oobs (o : oev) : list gev :=
  match o with
  | OW j s => [J j (W s)] | OStart j => [J j FStart] | OPoll j s => [J j (Poll s)] | ORet j _ => [J j FReturn]
  | OSent => [Sentinel]
  | _ => []
  end.

Definition jev_eqb (a b : jev) : bool :=
  match a, b with
  | W x, W y => st_eqb x y | FStart, FStart => true | Poll x, Poll y => st_eqb x y | FReturn, FReturn => true
  | _, _ => false
  end.
Definition gev_eqb (a b : gev) : bool :=
  match a, b with J j x, J k y => Nat.eqb j k && jev_eqb x y | Sentinel, Sentinel => true | _, _ => false end.
Fixpoint gevs_eqb (l1 l2 : list gev) : bool :=
  match l1, l2 with [], [] => true | a :: t, b :: u => gev_eqb a b && gevs_eqb t u | _, _ => false end.

(* failure codes: 1 the observed event has no explanation in this state; 2 the model cannot do the explaining events here;
   3 the model does them but observes something else (e.g. a poll sees another status than the one written last) *)
Definition accept_step (c : cfg) (g : gst) (o : oev) : gst + nat :=
  match infer g o with
  | None => inr 1
  | Some es =>
      match grun c g es with
      | None => inr 2
      | Some g' => if gevs_eqb (otrace c g es) (oobs o) then inl g' else inr 3
      end
  end.

Fixpoint accept (c : cfg) (g : gst) (os : list oev) (pos : nat) : gst * option (nat * nat) :=
  match os with
  | [] => (g, None)
  | o :: t => match accept_step c g o with inl g' => accept c g' t (S pos) | inr code => (g, Some (pos, code)) end
  end.

(* the results table the model predicts = the one observed: row by row, for every job *)
Fixpoint rows_eqb (l1 l2 : list (st * Z)) : bool :=
  match l1, l2 with
  | [], [] => true
  | (s, v) :: t, (s', v') :: u => st_eqb s s' && Z.eqb v v' && rows_eqb t u
  | _, _ => false
  end.
Definition tables_agree (n : nat) (r1 r2 : list (nat * st * Z)) : bool :=
  Nat.eqb (length r1) (length r2) && forallb (fun j => rows_eqb (lookup_row j r1) (lookup_row j r2)) (seq 0 n).

Definition lphase_code (p : lphase) : nat :=
  match p with POut => 0 | PIn _ => 1 | PTest => 2 | PClosing => 3 | PClosed => 4 | PDone => 5 end.

(* the configuration used for observed runs: both outcomes allowed for a job finishing at the deadline; repaired close() *)
Definition observed_cfg (fcode : Z) : cfg := mkCfg false true fcode.
