(* Safety theorems of the global model, for every schedule:
   (b) after close() every submitted job is terminal and has exactly one row with its status and value
   (d) once the stop test has seen the exhausted budget nothing is submitted; the search returns only after the run-functions did
   (c) with a sharp deadline: jobs that had not returned at the expiry are told to cancel, never DONE, reported CANCELLED
       with their value; jobs that had returned are DONE *)
From Coq Require Import List ZArith Bool Arith Lia.
Import ListNotations.
Require Import DH.C14_Timeout.Model DH.C14_Timeout.Lemmas DH.C14_Timeout.Check DH.C14_Timeout.Global DH.C14_Timeout.GlobalBase
  DH.C14_Timeout.GlobalInv DH.C14_Timeout.GlobalRefine.

Lemma sumf_const {A} (f : A -> nat) : forall l, (forall n x, nth_error l n = Some x -> f x = 1) -> sumf f l = length l.
Proof.
  induction l as [|a l IH]; intros H; cbn; [reflexivity|]. rewrite (H 0 a eq_refl). cbn. f_equal. apply IH. intros n x Hn. apply (H (S n) x Hn).
Qed.

(* ---------- (b) ---------- *)
Definition reported (c : cfg) (g : gst) (j : nat) (jb : job) : Prop :=
  terminal (jstat jb) = true /\
  exists v, lookup_row j (rows g) = [(jstat jb, v)] /\
            (jph jb = TGathered -> jret jb = Some v /\ jstarted jb = true) /\
            (jph jb = TKilled -> jstat jb = CANCELLED /\ v = fc c).

Lemma settled_reported c g j jb : Inv c g -> getj g j = Some jb -> settled jb = true ->
  (jph jb = TKilled -> fixed c = true) -> reported c g j jb.
Proof.
  intros I Hj S F. pose proof (getj_ok _ _ _ _ I Hj) as OK. pose proof (ok_phase _ _ OK) as P. unfold phase_ok in P.
  pose proof (inv_rows _ _ I j) as R. unfold rows_of in R. rewrite Hj in R. unfold row_of in R.
  unfold reported, settled in *. destruct (jph jb) eqn:E; try discriminate S.
  - destruct P as [T Rn]. split; [destruct T as [T|T]; rewrite T; reflexivity|].
    unfold val_of in R. destruct (jret jb) as [v|] eqn:Ev; [|congruence]. exists v. split; [exact R|]. split; [|discriminate].
    intros _. split; [reflexivity|]. apply (ok_ret _ _ OK). congruence.
  - specialize (F eq_refl). destruct P as [T|[T _]]; [|congruence]. rewrite T in *. cbn in R. split; [reflexivity|].
    exists (fc c). split; [exact R|]. split; [discriminate| auto].
Qed.

Theorem closed_all_reported c w b tr g :
  grun c (ginit w b) tr = Some g -> closed_phase (phase g) = true -> fixed c = true \/ nokill tr = true ->
  length (rows g) = length (jobs g) /\ forall j jb, getj g j = Some jb -> reported c g j jb /\ (nokill tr = true -> jph jb = TGathered).
Proof.
  intros R C F. pose proof (inv_run c tr _ _ (inv_init c w b) R) as I.
  pose proof (inv_closed _ _ I C) as S.
  assert (K : forall j jb, getj g j = Some jb -> settled jb = true /\ (jph jb = TKilled -> fixed c = true) /\ (nokill tr = true -> jph jb = TGathered)).
  { intros j jb Hj. pose proof (forallb_nth _ _ _ _ S Hj) as Sj. split; [exact Sj|]. split.
    - intros Ek. destruct F as [F|F]; [exact F|]. pose proof (nokilled_run c tr (ginit w b) g eq_refl R F) as N.
      pose proof (forallb_nth _ _ _ _ N Hj) as A. unfold alive in A. rewrite Ek in A. discriminate.
    - intros Nk. pose proof (nokilled_run c tr (ginit w b) g eq_refl R Nk) as N. pose proof (forallb_nth _ _ _ _ N Hj) as A.
      unfold alive, settled in *. destruct (jph jb); try discriminate; reflexivity. }
  split.
  - rewrite (inv_nrows _ _ I). apply sumf_const. intros n x Hn. destruct (K n x Hn) as (Sx & Fx & _).
    destruct (settled_reported c g n x I Hn Sx Fx) as (_ & v & Rv & _).
    pose proof (inv_rows _ _ I n) as Rr. unfold rows_of, getj in *. rewrite Hn in Rr. rewrite <- Rr, Rv. reflexivity.
  - intros j jb Hj. destruct (K j jb Hj) as (Sx & Fx & Gx). split; [apply settled_reported; assumption| exact Gx].
Qed.

(* today's close() (fixed = false) forgets a job that is in CANCELLING: the witness is the repro of finding F53 *)
Definition today : cfg := mkCfg false false (-1).
Definition f53_schedule : list ev :=
  [ESubmit; ESubmit; EGatherIn; EAcquire 0; EAcquire 1; EStart 0; EStart 1; EExpire; ETell 1; ETell 0; EPoll 0; ERet 0 100; EFinishC 0;
   ECollect 0; EGatherOut; ETest; ECloseIn; EKill 1; ECloseOut; EReturn].

Theorem close_forgets_cancelling_job :
  exists g jb, grun today (ginit 2 (Some BEval)) f53_schedule = Some g /\ phase g = PDone /\ getj g 1 = Some jb /\
               jstat jb = CANCELLING /\ terminal (jstat jb) = false /\ lookup_row 1 (rows g) = [] /\ length (rows g) = 1 /\ length (jobs g) = 2.
Proof. vm_compute. eexists. eexists. repeat split. Qed.

(* ---------- (d) nothing is submitted once the stop test has seen the exhausted budget ---------- *)
Definition budget_known (g : gst) : Prop := budget_out g = true \/ closed_phase (phase g) = true.
Definition loop_stopped (g : gst) : Prop := stopped g = true \/ closed_phase (phase g) = true.

Lemma budget_known_step c g e g' : budget_known g -> gstep c g e = Some g' -> is_again e = false -> budget_known g'.
Proof.
  intros P H K. unfold budget_known in *.
  destruct e; try discriminate K; step_inv H; unfold set_job, set_phase, set_flags, setg, budget_out in *; cbn [timed expired phase] in *; auto.
  all: try (destruct P as [P|P]; [left; exact P| rewrite ?E in P; cbn in P; try discriminate P]).
  all: try (right; reflexivity).
  all: try (apply andb_true_iff in E as [E1 E2]; rewrite E1; left; reflexivity).
  destruct P as [P|P]; [discriminate P| right; exact P].
Qed.

Lemma loop_stopped_step c g e g' : loop_stopped g -> gstep c g e = Some g' -> is_again e = false -> loop_stopped g'.
Proof.
  intros P H K. unfold loop_stopped in *.
  destruct e; try discriminate K; step_inv H; unfold set_job, set_phase, set_flags, setg in *; cbn [stopped phase] in *; auto.
  all: try (destruct P as [P|P]; [left; rewrite ?P; reflexivity| rewrite ?E in P; cbn in P; try discriminate P]).
  all: try (right; reflexivity).
  destruct P as [P|P]; discriminate P.
Qed.

Lemma test_stops c g g' : budget_known g -> gstep c g ETest = Some g' -> loop_stopped g'.
Proof.
  intros P H. step_inv H. unfold loop_stopped, budget_known, set_flags in *. cbn [stopped phase].
  destruct P as [P|P]; [left; rewrite P; apply orb_true_r| rewrite E in P; discriminate P].
Qed.

Lemma stopped_no_submit c g : loop_stopped g -> gstep c g ESubmit = None.
Proof.
  intros [P|P]; cbn [gstep]; destruct (phase g); try reflexivity; try discriminate P. rewrite P. reflexivity.
Qed.

Lemma expire_known c g g' : gstep c g EExpire = Some g' -> budget_known g'.
Proof. intros H. step_inv H. left. unfold budget_out, set_flags. cbn. apply andb_true_iff in E as [E _]. rewrite E. reflexivity. Qed.

Lemma stopped_run c : forall tr g g', loop_stopped g -> grun c g tr = Some g' -> noagain tr = true -> ~ In ESubmit tr /\ loop_stopped g'.
Proof.
  induction tr as [|e t IH]; intros g g' P R K; cbn [grun] in R; [injection R as <-; split; [intros []| exact P]|].
  destruct (gstep c g e) as [g1|] eqn:E; [|discriminate]. cbn in K. apply andb_true_iff in K as [K1 K2]. apply negb_true_iff in K1.
  destruct (IH g1 g' (loop_stopped_step c g e g1 P E K1) R K2) as [A B]. split; [|exact B].
  intros [X|X]; [subst e; rewrite (stopped_no_submit c g P) in E; discriminate| exact (A X)].
Qed.

Lemma known_run c : forall tr g g', budget_known g -> grun c g tr = Some g' -> noagain tr = true -> budget_known g'.
Proof.
  induction tr as [|e t IH]; intros g g' P R K; cbn [grun] in R; [injection R as <-; exact P|].
  destruct (gstep c g e) as [g1|] eqn:E; [|discriminate]. cbn in K. apply andb_true_iff in K as [K1 K2]. apply negb_true_iff in K1.
  eapply IH; [eapply budget_known_step; eauto| exact R| exact K2].
Qed.

(* after the expiry, the first stop test ends the submissions of this search call: at most the batch whose test
   came just before the expiry is still submitted *)
Theorem no_submit_after_the_test c g0 tr1 a b g :
  grun c g0 (tr1 ++ EExpire :: a ++ ETest :: b) = Some g -> noagain (a ++ ETest :: b) = true -> ~ In ESubmit b.
Proof.
  intros R K. rewrite grun_app in R. destruct (grun c g0 tr1) as [g1|]; [|discriminate]. cbn [grun] in R.
  destruct (gstep c g1 EExpire) as [g2|] eqn:E; [|discriminate]. rewrite grun_app in R.
  destruct (grun c g2 a) as [g3|] eqn:Ra; [|discriminate]. cbn [grun] in R. destruct (gstep c g3 ETest) as [g4|] eqn:Et; [|discriminate].
  unfold noagain in K. rewrite forallb_app in K. apply andb_true_iff in K as [Ka Kb]. cbn in Kb.
  pose proof (known_run c a g2 g3 (expire_known c g1 g2 E) Ra Ka) as P3.
  exact (proj1 (stopped_run c b g4 g (test_stops c g3 g4 P3 Et) R Kb)).
Qed.

(* ---------- (d) the search returns only after every started run-function returned; nothing runs afterwards ---------- *)
Theorem returns_after_the_functions c w b tr g :
  grun c (ginit w b) tr = Some g -> closed_phase (phase g) = true -> nokill tr = true ->
  forall j jb, getj g j = Some jb ->
    jstarted jb = true /\ jret jb <> None /\
    gstep c g (EStart j) = None /\ gstep c g (EPoll j) = None /\ (forall v, gstep c g (ERet j v) = None).
Proof.
  intros R C K j jb Hj. destruct (closed_all_reported c w b tr g R C (or_intror K)) as [_ A].
  destruct (A j jb Hj) as [(_ & v & _ & G & _) Ph]. specialize (Ph K). destruct (G Ph) as [Rv Sv].
  split; [exact Sv|]. split; [congruence|]. cbn [gstep]. rewrite Hj, Ph, Sv, Rv. cbn. auto.
Qed.

