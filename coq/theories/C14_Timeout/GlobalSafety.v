(* Safety theorems of the global model, for every schedule:
   (b) after close() every submitted job is terminal and has exactly one row with its status and value
   (d) once the stop test has seen the exhausted budget nothing is submitted; the search returns only after the run-functions did
   (c) with a sharp deadline: jobs that had not returned at the expiry are told to cancel, never DONE, reported CANCELLED
       with their value; jobs that had returned are DONE *)
From Coq Require Import List ZArith Bool Arith Lia.
Import ListNotations.
Require Import DH.C14_Timeout.Model DH.C14_Timeout.Lemmas DH.C14_Timeout.Check DH.C14_Timeout.Global DH.C14_Timeout.GlobalBase
  DH.C14_Timeout.GlobalInv DH.C14_Timeout.GlobalRefine.

Lemma sumf_const {A} (f : A -> nat) : forall l, (forall n x, nth_error l n = Some x -> f x = 1) -> sumf f l = length l.
Proof.
  induction l as [|a l IH]; intros H; cbn; [reflexivity|]. rewrite (H 0 a eq_refl). cbn. f_equal. apply IH. intros n x Hn. apply (H (S n) x Hn).
Qed.

(* ---------- (b) ---------- *)
Definition reported (c : cfg) (g : gst) (j : nat) (jb : job) : Prop :=
  terminal (jstat jb) = true /\
  exists v, lookup_row j (rows g) = [(jstat jb, v)] /\
            (jph jb = TGathered -> jret jb = Some v /\ jstarted jb = true) /\
            (jph jb = TKilled -> jstat jb = CANCELLED /\ v = fc c).

Lemma settled_reported c g j jb : Inv c g -> getj g j = Some jb -> settled jb = true ->
  (jph jb = TKilled -> fixed c = true) -> reported c g j jb.
Proof.
  intros I Hj S F. pose proof (getj_ok _ _ _ _ I Hj) as OK. pose proof (ok_phase _ _ OK) as P. unfold phase_ok in P.
  pose proof (inv_rows _ _ I j) as R. unfold rows_of in R. rewrite Hj in R. unfold row_of in R.
  unfold reported, settled in *. destruct (jph jb) eqn:E; try discriminate S.
  - destruct P as [T Rn]. split; [destruct T as [T|T]; rewrite T; reflexivity|].
    unfold val_of in R. destruct (jret jb) as [v|] eqn:Ev; [|congruence]. exists v. split; [exact R|]. split; [|discriminate].
    intros _. split; [reflexivity|]. apply (ok_ret _ _ OK). congruence.
  - specialize (F eq_refl). destruct P as [T|[T _]]; [|congruence]. rewrite T in *. cbn in R. split; [reflexivity|].
    exists (fc c). split; [exact R|]. split; [discriminate| auto].
Qed.

Theorem closed_all_reported c w b tr g :
  grun c (ginit w b) tr = Some g -> closed_phase (phase g) = true -> fixed c = true \/ nokill tr = true ->
  length (rows g) = length (jobs g) /\ forall j jb, getj g j = Some jb -> reported c g j jb /\ (nokill tr = true -> jph jb = TGathered).
Proof.
  intros R C F. pose proof (inv_run c tr _ _ (inv_init c w b) R) as I.
  pose proof (inv_closed _ _ I C) as S.
  assert (K : forall j jb, getj g j = Some jb -> settled jb = true /\ (jph jb = TKilled -> fixed c = true) /\ (nokill tr = true -> jph jb = TGathered)).
  { intros j jb Hj. pose proof (forallb_nth _ _ _ _ S Hj) as Sj. split; [exact Sj|]. split.
    - intros Ek. destruct F as [F|F]; [exact F|]. pose proof (nokilled_run c tr (ginit w b) g eq_refl R F) as N.
      pose proof (forallb_nth _ _ _ _ N Hj) as A. unfold alive in A. rewrite Ek in A. discriminate.
    - intros Nk. pose proof (nokilled_run c tr (ginit w b) g eq_refl R Nk) as N. pose proof (forallb_nth _ _ _ _ N Hj) as A.
      unfold alive, settled in *. destruct (jph jb); try discriminate; reflexivity. }
  split.
  - rewrite (inv_nrows _ _ I). apply sumf_const. intros n x Hn. destruct (K n x Hn) as (Sx & Fx & _).
    destruct (settled_reported c g n x I Hn Sx Fx) as (_ & v & Rv & _).
    pose proof (inv_rows _ _ I n) as Rr. unfold rows_of, getj in *. rewrite Hn in Rr. rewrite <- Rr, Rv. reflexivity.
  - intros j jb Hj. destruct (K j jb Hj) as (Sx & Fx & Gx). split; [apply settled_reported; assumption| exact Gx].
Qed.

(* today's close() (fixed = false) forgets a job that is in CANCELLING: the witness is the repro of finding F53 *)
Definition today : cfg := mkCfg false false (-1).
Definition f53_schedule : list ev :=
  [ESubmit; ESubmit; EGatherIn; EAcquire 0; EAcquire 1; EStart 0; EStart 1; EExpire; ETell 1; ETell 0; EPoll 0; ERet 0 100; EFinishC 0;
   ECollect 0; EGatherOut; ETest; ECloseIn; EKill 1; ECloseOut; EReturn].

Theorem close_forgets_cancelling_job :
  exists g jb, grun today (ginit 2 (Some BEval)) f53_schedule = Some g /\ phase g = PDone /\ getj g 1 = Some jb /\
               jstat jb = CANCELLING /\ terminal (jstat jb) = false /\ lookup_row 1 (rows g) = [] /\ length (rows g) = 1 /\ length (jobs g) = 2.
Proof. vm_compute. eexists. eexists. repeat split. Qed.

(* ---------- (d) nothing is submitted once the stop test has seen the exhausted budget ---------- *)
Definition budget_known (g : gst) : Prop := budget_out g = true \/ closed_phase (phase g) = true.
Definition loop_stopped (g : gst) : Prop := stopped g = true \/ closed_phase (phase g) = true.

Lemma budget_known_step c g e g' : budget_known g -> gstep c g e = Some g' -> is_again e = false -> budget_known g'.
Proof.
  intros P H K. unfold budget_known in *.
  destruct e; try discriminate K; step_inv H; unfold set_job, set_phase, set_flags, setg, budget_out in *; cbn [timed expired phase] in *; auto.
  all: try (destruct P as [P|P]; [left; exact P| rewrite ?E in P; cbn in P; try discriminate P]).
  all: try (right; reflexivity).
  all: try (apply andb_true_iff in E as [E1 E2]; rewrite E1; left; reflexivity).
Qed.

Lemma loop_stopped_step c g e g' : loop_stopped g -> gstep c g e = Some g' -> is_again e = false -> loop_stopped g'.
Proof.
  intros P H K. unfold loop_stopped in *.
  destruct e; try discriminate K; step_inv H; unfold set_job, set_phase, set_flags, setg in *; cbn [stopped phase] in *; auto.
  all: try (destruct P as [P|P]; [left; rewrite ?P; reflexivity| rewrite ?E in P; cbn in P; try discriminate P]).
  all: try (right; reflexivity).
  destruct P as [P|P]; discriminate P.
Qed.

Lemma test_stops c g g' : budget_known g -> gstep c g ETest = Some g' -> loop_stopped g'.
Proof.
  intros P H. step_inv H. unfold loop_stopped, budget_known, set_flags in *. cbn [stopped phase].
  destruct P as [P|P]; [left; rewrite P; apply orb_true_r| rewrite E in P; discriminate P].
Qed.

Lemma stopped_no_submit c g : loop_stopped g -> gstep c g ESubmit = None.
Proof.
  intros [P|P]; cbn [gstep]; destruct (phase g); try reflexivity; try discriminate P. rewrite P. reflexivity.
Qed.

Lemma expire_known c g g' : gstep c g EExpire = Some g' -> budget_known g'.
Proof. intros H. step_inv H. left. unfold budget_out, set_flags. cbn. apply andb_true_iff in E as [E _]. rewrite E. reflexivity. Qed.

Lemma stopped_run c : forall tr g g', loop_stopped g -> grun c g tr = Some g' -> noagain tr = true -> ~ In ESubmit tr /\ loop_stopped g'.
Proof.
  induction tr as [|e t IH]; intros g g' P R K; cbn [grun] in R; [injection R as <-; split; [intros []| exact P]|].
  destruct (gstep c g e) as [g1|] eqn:E; [|discriminate]. cbn in K. apply andb_true_iff in K as [K1 K2]. apply negb_true_iff in K1.
  destruct (IH g1 g' (loop_stopped_step c g e g1 P E K1) R K2) as [A B]. split; [|exact B].
  intros [X|X]; [subst e; rewrite (stopped_no_submit c g P) in E; discriminate| exact (A X)].
Qed.

Lemma known_run c : forall tr g g', budget_known g -> grun c g tr = Some g' -> noagain tr = true -> budget_known g'.
Proof.
  induction tr as [|e t IH]; intros g g' P R K; cbn [grun] in R; [injection R as <-; exact P|].
  destruct (gstep c g e) as [g1|] eqn:E; [|discriminate]. cbn in K. apply andb_true_iff in K as [K1 K2]. apply negb_true_iff in K1.
  eapply IH; [eapply budget_known_step; eauto| exact R| exact K2].
Qed.

(* after the expiry, the first stop test ends the submissions of this search call: at most the batch whose test
   came just before the expiry is still submitted *)
Theorem no_submit_after_the_test c g0 tr1 a b g :
  grun c g0 (tr1 ++ EExpire :: a ++ ETest :: b) = Some g -> noagain (a ++ ETest :: b) = true -> ~ In ESubmit b.
Proof.
  intros R K. rewrite grun_app in R. destruct (grun c g0 tr1) as [g1|]; [|discriminate]. cbn [grun] in R.
  destruct (gstep c g1 EExpire) as [g2|] eqn:E; [|discriminate]. rewrite grun_app in R.
  destruct (grun c g2 a) as [g3|] eqn:Ra; [|discriminate]. cbn [grun] in R. destruct (gstep c g3 ETest) as [g4|] eqn:Et; [|discriminate].
  unfold noagain in K. rewrite forallb_app in K. apply andb_true_iff in K as [Ka Kb]. cbn in Kb.
  pose proof (known_run c a g2 g3 (expire_known c g1 g2 E) Ra Ka) as P3.
  exact (proj1 (stopped_run c b g4 g (test_stops c g3 g4 P3 Et) R Kb)).
Qed.

(* ---------- (d) the search returns only after every started run-function returned; nothing runs afterwards ---------- *)
Theorem returns_after_the_functions c w b tr g :
  grun c (ginit w b) tr = Some g -> closed_phase (phase g) = true -> nokill tr = true ->
  forall j jb, getj g j = Some jb ->
    jstarted jb = true /\ jret jb <> None /\
    gstep c g (EStart j) = None /\ gstep c g (EPoll j) = None /\ (forall v, gstep c g (ERet j v) = None).
Proof.
  intros R C K j jb Hj. destruct (closed_all_reported c w b tr g R C (or_intror K)) as [_ A].
  destruct (A j jb Hj) as [(_ & v & _ & G & _) Ph]. specialize (Ph K). destruct (G Ph) as [Rv Sv].
  split; [exact Sv|]. split; [congruence|]. cbn [gstep]. rewrite Hj, Ph, Sv, Rv. cbn. auto.
Qed.


(* ---------- (c) the sharp deadline (strict = true) ---------- *)
(* a waiting job whose run-function returned after the budget ran out knows the budget is out *)
Definition pre_ok (bo : bool) (jb : job) : Prop :=
  jph jb = TWaiting -> jret jb <> None -> jpre jb = false -> bo = true.

(* a job that had not returned when the budget ran out: only the TimeoutError branch is left to it *)
Definition doomed (bo : bool) (jb : job) : Prop :=
  match jph jb with
  | TQueued => bo = true
  | TWaiting => bo = true /\ (jret jb <> None -> jpre jb = false)
  | TCancelling => True
  | TFinished | TGathered => jstat jb = CANCELLED /\ In CANCELLING (jhist jb)
  | TKilled => True
  end.

(* a job whose run-function returned in time and that was not told to cancel: only the normal completion is left *)
Definition blessed (jb : job) : Prop :=
  match jph jb with
  | TWaiting => jret jb <> None /\ jpre jb = true
  | TFinished => jstat jb = RUNNING
  | TGathered => jstat jb = DONE
  | TKilled => True
  | TQueued | TCancelling => False
  end.

Definition PreInv (g : gst) : Prop := Forall (pre_ok (budget_out g)) (jobs g).

Lemma late_doomed g jb : doomed (budget_out g) jb -> jph jb = TWaiting -> late g jb = true.
Proof.
  unfold doomed, late. intros D E. rewrite E in D. destruct D as [B R]. rewrite B. cbn. destruct (jret jb); [|reflexivity].
  rewrite R; [reflexivity| congruence].
Qed.

Lemma late_blessed g jb : blessed jb -> jph jb = TWaiting -> late g jb = false.
Proof.
  unfold blessed, late. intros D E. rewrite E in D. destruct D as [B R]. destruct (jret jb); [|congruence]. rewrite R. apply andb_false_r.
Qed.

Lemma last_st_in l x : last_st l = Some x -> In x l.
Proof.
  unfold last_st. intros H. destruct (rev l) as [|y t] eqn:E; [discriminate|]. injection H as ->.
  apply in_rev. rewrite E. left. reflexivity.
Qed.

Lemma settled_doomed bo bo' jb : settled jb = true -> doomed bo jb -> doomed bo' jb.
Proof. unfold settled, doomed. destruct (jph jb); try discriminate; auto. Qed.

Ltac view j :=
  unfold set_job, set_phase, set_flags, setg, getj, budget_out in *; cbn [jobs timed expired phase] in *;
  try match goal with Hk : nth_error (jobs ?g) ?k = Some ?x |- context [upd ?k ?y _] =>
    rewrite (nth_upd _ j _ _ _ Hk); let Ekj := fresh "Ekj" in destruct (Nat.eqb k j) eqn:Ekj; [apply Nat.eqb_eq in Ekj; subst k|] end.

Lemma doomed_step c g e g' j jb : strict c = true -> Inv c g -> gstep c g e = Some g' -> getj g j = Some jb ->
  doomed (budget_out g) jb -> exists jb', getj g' j = Some jb' /\ doomed (budget_out g') jb'.
Proof.
  intros St I H Hj D.
  pose proof (ok_phase _ _ (getj_ok _ _ _ _ I Hj)) as P. unfold phase_ok in P.
  destruct e; step_inv H; view j.
  all: try (exists jb; split; [exact Hj| exact D]).
  all: try match goal with Hk : nth_error (jobs ?g) ?jj = Some ?x, Hj' : nth_error (jobs ?g) ?jj = Some ?y |- _ => rewrite Hj' in Hk; injection Hk as <- end.
  all: try (eexists; split; [reflexivity|]).
  all: repeat match goal with Hp : jph ?x = _ |- _ => rewrite Hp in P end.
  all: try (unfold doomed in D |- *; cbn [jph jstat jret jpre jhist job_write job_phase job_start job_ret];
            repeat match goal with Hp : jph ?x = _ |- _ => rewrite Hp in D |- * end; first [exact Logic.I | exact D]).
  - (* submit *) rewrite nth_app_new. destruct (Nat.eqb j (length (jobs g))) eqn:Ej.
    + apply Nat.eqb_eq in Ej. apply nth_some_lt in Hj. lia.
    + exists jb. split; [exact Hj| exact D].
  - (* close returns *) exists jb. split; [exact Hj|]. apply (settled_doomed (timed g && expired g)); [exact (forallb_nth _ _ _ _ E0 Hj)| exact D].
  - (* a budget armed between calls: nothing is in flight *) exists jb. split; [exact Hj|]. apply (settled_doomed (timed g && expired g)); [exact (forallb_nth _ _ _ _ E0 Hj)| exact D].
  - (* again *) exists jb. split; [exact Hj|]. apply (settled_doomed (timed g && expired g)); [|exact D].
    refine (forallb_nth _ _ _ _ (inv_closed _ _ I _) Hj). rewrite E. reflexivity.
  - (* acquire *) unfold doomed in *. rewrite E1 in D. cbn. destruct P as (_ & _ & R). split; [exact D| intros X; congruence].
  - (* finish: not for a doomed job *) exfalso. match goal with Hg : is_some _ && _ = true |- _ => apply andb_true_iff in Hg as [_ X] end. rewrite St in X.
    rewrite (late_doomed g jb D E1) in X. discriminate X.
  - (* finish after cancelling *) unfold doomed. cbn. split; [reflexivity|]. apply in_or_app. left.
    destruct (ok_hist _ _ (getj_ok _ _ _ _ I Hj)) as [Hc _ _]. cbn in Hc. apply last_st_in. rewrite <- Hc, P. reflexivity.
  - (* collect *) unfold doomed in D. rewrite E1 in D. destruct D as [S Hi]. unfold collect_job, doomed. rewrite S. cbn. rewrite S. auto.
  - unfold doomed in D. rewrite E1 in D. destruct D as [S Hi]. unfold collect_job, doomed. rewrite S. cbn. rewrite S. auto.
  - (* return *) unfold doomed in *. cbn. destruct (jph jb); auto. destruct D as [B R]. split; [exact B|]. intros _. rewrite B. reflexivity.
  - (* expire *) exists jb. split; [exact Hj|]. apply andb_true_iff in E as [E1 E2]. apply negb_true_iff in E2. unfold doomed in *. rewrite E1, E2 in *. cbn in *.
    destruct (jph jb); auto. destruct D as [D _]. discriminate D.
Qed.

Lemma doomed_run c j : strict c = true -> forall tr g g' jb, Inv c g -> grun c g tr = Some g' -> getj g j = Some jb ->
  doomed (budget_out g) jb -> exists jb', getj g' j = Some jb' /\ doomed (budget_out g') jb'.
Proof.
  intros St. induction tr as [|e t IH]; intros g g' jb I R Hj D; cbn [grun] in R; [injection R as <-; eauto|].
  destruct (gstep c g e) as [g1|] eqn:E; [|discriminate].
  destruct (doomed_step c g e g1 j jb St I E Hj D) as (jb1 & H1 & D1).
  exact (IH g1 g' jb1 (inv_step c g e g1 I E) R H1 D1).
Qed.

Lemma blessed_step c g e g' j jb : strict c = true -> Inv c g -> gstep c g e = Some g' -> getj g j = Some jb ->
  blessed jb -> exists jb', getj g' j = Some jb' /\ blessed jb'.
Proof.
  intros St I H Hj D.
  pose proof (ok_phase _ _ (getj_ok _ _ _ _ I Hj)) as P. unfold phase_ok in P.
  destruct e; step_inv H; view j.
  all: try (exists jb; split; [exact Hj| exact D]).
  all: try match goal with Hk : nth_error (jobs ?g) ?jj = Some ?x, Hj' : nth_error (jobs ?g) ?jj = Some ?y |- _ => rewrite Hj' in Hk; injection Hk as <- end.
  all: try (eexists; split; [reflexivity|]).
  all: repeat match goal with Hp : jph ?x = _ |- _ => rewrite Hp in P end.
  all: try (unfold blessed in D |- *; cbn [jph jstat jret jpre jhist job_write job_phase job_start job_ret];
            repeat match goal with Hp : jph ?x = _ |- _ => rewrite Hp in D |- * end; first [exact Logic.I | exact D | contradiction D]).
  - rewrite nth_app_new. destruct (Nat.eqb j (length (jobs g))) eqn:Ej.
    + apply Nat.eqb_eq in Ej. apply nth_some_lt in Hj. lia.
    + exists jb. split; [exact Hj| exact D].
  - unfold blessed in D. rewrite E1 in D. contradiction D.
  - (* tell: not for a job that returned in time *) exfalso. rewrite St, (late_blessed g jb D E1) in E2. discriminate E2.
  - unfold blessed. cbn. exact P.
  - unfold blessed in D. rewrite E1 in D. contradiction D.
  - unfold blessed in D. rewrite E1 in D. unfold collect_job, blessed. rewrite D. reflexivity.
  - unfold blessed in D. rewrite E1 in D. unfold collect_job, blessed. rewrite D. reflexivity.
  - (* a second return is impossible *) match goal with Hg : jstarted _ && negb (is_some _) = true |- _ => apply andb_true_iff in Hg as [_ X] end.
    unfold blessed in *. cbn. destruct (jph jb); auto; try (destruct P as [_ R]); try (destruct D as [R _]); destruct (jret jb); try discriminate X; congruence.
Qed.

Lemma blessed_run c j : strict c = true -> forall tr g g' jb, Inv c g -> grun c g tr = Some g' -> getj g j = Some jb ->
  blessed jb -> exists jb', getj g' j = Some jb' /\ blessed jb'.
Proof.
  intros St. induction tr as [|e t IH]; intros g g' jb I R Hj D; cbn [grun] in R; [injection R as <-; eauto|].
  destruct (gstep c g e) as [g1|] eqn:E; [|discriminate].
  destruct (blessed_step c g e g1 j jb St I E Hj D) as (jb1 & H1 & D1).
  exact (IH g1 g' jb1 (inv_step c g e g1 I E) R H1 D1).
Qed.

(* PreInv *)
Lemma settled_pre bo g : all_settled g = true -> Forall (pre_ok bo) (jobs g).
Proof.
  unfold all_settled. intros S. apply Forall_forall. intros x Hx. rewrite forallb_forall in S. specialize (S x Hx).
  unfold settled, pre_ok in *. intros E. rewrite E in S. discriminate.
Qed.

Lemma pre_step c g e g' : Inv c g -> PreInv g -> gstep c g e = Some g' -> PreInv g'.
Proof.
  intros I Pr H. unfold PreInv in *.
  destruct e; step_inv H; unfold set_job, set_phase, set_flags, setg, budget_out in *; cbn [jobs timed expired] in *; try exact Pr.
  all: try (apply Forall_upd; [exact Pr|]; unfold pre_ok; cbn [jph jret jpre job_write job_phase job_start job_ret]; try (intros; discriminate)).
  - apply Forall_app. split; [exact Pr| constructor; [|constructor]]. unfold pre_ok. cbn. discriminate.
  - apply settled_pre. exact E0.
  - apply settled_pre. exact E0.
  - apply settled_pre. apply (inv_closed _ _ I). rewrite E. reflexivity.
  - (* acquire: nothing returned yet *) intros _ R. pose proof (ok_phase _ _ (getj_ok _ _ _ _ I E0)) as P. unfold phase_ok in P. rewrite E1 in P.
    destruct P as (_ & _ & P). congruence.
  - unfold collect_job. destruct (st_eqb (jstat j0) RUNNING); cbn; discriminate.
  - unfold collect_job. destruct (st_eqb (jstat j0) RUNNING); cbn; discriminate.
  - exact (Forall_nth _ _ _ _ Pr E).
  - exact (Forall_nth _ _ _ _ Pr E).
  - exact (Forall_nth _ _ _ _ Pr E).
  - intros _ _ X. apply negb_false_iff in X. exact X.
  - apply andb_true_iff in E as [E1 _]. rewrite E1. apply Forall_forall. intros x _ _ _ _. reflexivity.
Qed.

Lemma pre_run c : forall tr g g', Inv c g -> PreInv g -> grun c g tr = Some g' -> PreInv g'.
Proof.
  induction tr as [|e t IH]; intros g g' I P R; cbn [grun] in R; [injection R as <-; exact P|].
  destruct (gstep c g e) as [g1|] eqn:E; [|discriminate]. eapply IH; [eapply inv_step; eauto| eapply pre_step; eauto| exact R].
Qed.

(* the returned value never changes *)
Lemma ret_step c g e g' j jb v : gstep c g e = Some g' -> getj g j = Some jb -> jret jb = Some v ->
  exists jb', getj g' j = Some jb' /\ jret jb' = Some v.
Proof.
  intros H Hj D.
  destruct e; step_inv H; view j.
  all: try (exists jb; split; [exact Hj| exact D]).
  all: try match goal with Hk : nth_error (jobs ?g) ?jj = Some ?x, Hj' : nth_error (jobs ?g) ?jj = Some ?y |- _ => rewrite Hj' in Hk; injection Hk as <- end.
  all: try (eexists; split; [reflexivity|]; cbn [jret job_write job_phase job_start]; exact D).
  - rewrite nth_app_new. destruct (Nat.eqb j (length (jobs g))) eqn:Ej.
    + apply Nat.eqb_eq in Ej. apply nth_some_lt in Hj. lia.
    + exists jb. split; [exact Hj| exact D].
  - eexists; split; [reflexivity|]. unfold collect_job. destruct (st_eqb (jstat jb) RUNNING); exact D.
  - eexists; split; [reflexivity|]. unfold collect_job. destruct (st_eqb (jstat jb) RUNNING); exact D.
  - rewrite D in E0. cbn in E0. rewrite andb_false_r in E0. discriminate E0.
Qed.

Lemma ret_run c j v : forall tr g g' jb, grun c g tr = Some g' -> getj g j = Some jb -> jret jb = Some v ->
  exists jb', getj g' j = Some jb' /\ jret jb' = Some v.
Proof.
  induction tr as [|e t IH]; intros g g' jb R Hj D; cbn [grun] in R; [injection R as <-; eauto|].
  destruct (gstep c g e) as [g1|] eqn:E; [|discriminate].
  destruct (ret_step c g e g1 j jb v E Hj D) as (jb1 & H1 & D1). exact (IH g1 g' jb1 R H1 D1).
Qed.

(* the only forward path that contains CANCELLING and ends CANCELLED *)
Lemma cancelled_path l : starts_ready l = true -> is_path l = true -> In CANCELLING l -> last_st l = Some CANCELLED ->
  l = [READY; RUNNING; CANCELLING; CANCELLED].
Proof.
  intros S P C L.
  destruct l as [|a l]; [destruct C|]. destruct a; try discriminate S.
  destruct l as [|b l]; [destruct C as [C|[]]; discriminate C|]. cbn [is_path] in P. apply andb_true_iff in P as [E1 P].
  destruct b; try discriminate E1.
  - destruct l as [|d l]; [destruct C as [C|[C|[]]]; discriminate C|]. cbn [is_path] in P. apply andb_true_iff in P as [E2 P].
    destruct d; try discriminate E2.
    + destruct l as [|x l]; [destruct C as [C|[C|[C|[]]]]; discriminate C|]. cbn [is_path] in P. apply andb_true_iff in P as [E3 _]. destruct x; discriminate E3.
    + destruct l as [|x l]; [discriminate L|]. cbn [is_path] in P. apply andb_true_iff in P as [E3 P]. destruct x; try discriminate E3.
      destruct l as [|y l]; [reflexivity|]. cbn [is_path] in P. apply andb_true_iff in P as [E4 _]. destruct y; discriminate E4.
    + destruct l as [|x l]; [destruct C as [C|[C|[C|[]]]]; discriminate C|]. cbn [is_path] in P. apply andb_true_iff in P as [E3 _]. destruct x; discriminate E3.
  - destruct l as [|x l]; [destruct C as [C|[C|[]]]; discriminate C|]. cbn [is_path] in P. apply andb_true_iff in P as [E3 _]. destruct x; discriminate E3.
Qed.

(* (c1)+(c3): a job whose run-function had not returned when the budget ran out - holding a worker, or still queued - *)
Theorem not_returned_at_expiry c w b tr1 tr2 g1 g j jb1 :
  strict c = true ->
  grun c (ginit w b) tr1 = Some g1 -> grun c g1 (EExpire :: tr2) = Some g ->
  getj g1 j = Some jb1 -> jret jb1 = None -> jph jb1 = TQueued \/ jph jb1 = TWaiting ->
  exists jb, getj g j = Some jb /\
    jstat jb <> DONE /\                                                    (* never finalised DONE *)
    (jph jb = TGathered ->                                                 (* once collected (always, without close()-kills): *)
       jhist jb = [READY; RUNNING; CANCELLING; CANCELLED] /\               (*  told to cancel, then reported CANCELLED *)
       jstat jb = CANCELLED /\ jstarted jb = true /\                       (*  its run-function did run *)
       exists v, jret jb = Some v /\ lookup_row j (rows g) = [(CANCELLED, v)]).  (*  and the value it returned is in its row *)
Proof.
  intros St R1 R2 Hj Rn Ph. cbn [grun] in R2. destruct (gstep c g1 EExpire) as [g2|] eqn:E; [|discriminate].
  pose proof (inv_run c tr1 _ _ (inv_init c w b) R1) as I1. pose proof (inv_step c _ _ _ I1 E) as I2.
  assert (Hj2 : getj g2 j = Some jb1) by (step_inv E; exact Hj).
  assert (B2 : budget_out g2 = true) by (step_inv E; unfold budget_out, set_flags; cbn; apply andb_true_iff in E0 as [-> _]; reflexivity).
  assert (D2 : doomed (budget_out g2) jb1).
  { unfold doomed. rewrite B2. destruct Ph as [Ph|Ph]; rewrite Ph; [reflexivity|]. split; [reflexivity| intros X; congruence]. }
  destruct (doomed_run c j St tr2 g2 g jb1 I2 R2 Hj2 D2) as (jb & Hg & Dg). exists jb. split; [exact Hg|].
  pose proof (inv_run c tr2 _ _ I2 R2) as I. pose proof (getj_ok _ _ _ _ I Hg) as OK. pose proof (ok_phase _ _ OK) as P. unfold phase_ok in P.
  split.
  - unfold doomed in Dg. destruct (jph jb); try (destruct P as [P|[_ P]]); try (destruct Dg as [Dg _]); try (destruct P as (P & _)); congruence.
  - intros G. unfold doomed in Dg. rewrite G in *. destruct Dg as [S C]. destruct (ok_hist _ _ OK) as [Hc Hp Hr]. cbn in Hc, Hp, Hr.
    split; [apply cancelled_path; auto; rewrite <- Hc, S; reflexivity|]. split; [exact S|].
    destruct P as [_ Rv]. split; [apply (ok_ret _ _ OK Rv)|]. destruct (jret jb) as [v|] eqn:Ev; [|congruence]. exists v. split; [reflexivity|].
    rewrite (inv_rows _ _ I j). unfold rows_of. rewrite Hg. unfold row_of, val_of. rewrite G, Ev, S. reflexivity.
Qed.

(* (c2): a job whose run-function had returned when the budget ran out, and that had not been told to cancel, ends DONE *)
Theorem returned_before_expiry c w b tr1 tr2 g1 g j jb1 v :
  strict c = true ->
  grun c (ginit w b) tr1 = Some g1 -> grun c g1 (EExpire :: tr2) = Some g ->
  getj g1 j = Some jb1 -> jret jb1 = Some v -> jstat jb1 = RUNNING \/ jstat jb1 = DONE ->
  exists jb, getj g j = Some jb /\ jret jb = Some v /\
    (jph jb <> TKilled -> jstat jb = RUNNING \/ jstat jb = DONE) /\              (* never told to cancel, never reported CANCELLED *)
    (jph jb = TGathered -> jstat jb = DONE /\ ~ In CANCELLING (jhist jb) /\ lookup_row j (rows g) = [(DONE, v)]).
Proof.
  intros St R1 R2 Hj Rv Sv. cbn [grun] in R2. destruct (gstep c g1 EExpire) as [g2|] eqn:E; [|discriminate].
  pose proof (inv_run c tr1 _ _ (inv_init c w b) R1) as I1. pose proof (inv_step c _ _ _ I1 E) as I2.
  assert (Pr1 : PreInv g1). { apply (pre_run c tr1 _ _ (inv_init c w b)); [constructor| exact R1]. }
  assert (Hj2 : getj g2 j = Some jb1) by (step_inv E; exact Hj).
  assert (B1 : budget_out g1 = false). { step_inv E. unfold budget_out. apply andb_true_iff in E0 as [_ X]. apply negb_true_iff in X. rewrite X. apply andb_false_r. }
  pose proof (ok_phase _ _ (getj_ok _ _ _ _ I1 Hj)) as P1. unfold phase_ok in P1.
  assert (D2 : blessed jb1).
  { unfold blessed. pose proof (Forall_nth _ _ _ _ Pr1 Hj) as Pk. unfold pre_ok in Pk. rewrite B1 in Pk.
    destruct (jph jb1) eqn:Ep.
    - destruct P1 as (_ & _ & X). congruence.
    - split; [congruence|]. destruct (jpre jb1); [reflexivity|]. assert (X : false = true) by (apply Pk; congruence). discriminate X.
    - destruct Sv; congruence.
    - destruct P1 as [[X|X] _]; [exact X| destruct Sv; congruence].
    - destruct P1 as [[X|X] _]; [exact X| destruct Sv; congruence].
    - exact Logic.I. }
  destruct (blessed_run c j St tr2 g2 g jb1 I2 R2 Hj2 D2) as (jb & Hg & Dg).
  destruct (ret_run c j v tr2 g2 g jb1 R2 Hj2 Rv) as (jb' & Hg' & Rg). rewrite Hg in Hg'. injection Hg' as <-.
  exists jb. split; [exact Hg|]. split; [exact Rg|].
  pose proof (inv_run c tr2 _ _ I2 R2) as I. pose proof (getj_ok _ _ _ _ I Hg) as OK. pose proof (ok_phase _ _ OK) as P. unfold phase_ok in P.
  unfold blessed in Dg. split.
  - intros Nk. destruct (jph jb); try contradiction Dg; try congruence; auto.
  - intros G. rewrite G in *. split; [exact Dg|]. destruct (ok_hist _ _ OK) as [Hc Hp Hr]. cbn in Hc, Hp, Hr. split.
    + intros X. apply (cancelling_excludes_done _ Hp X). apply last_st_in. rewrite <- Hc, Dg. reflexivity.
    + rewrite (inv_rows _ _ I j). unfold rows_of. rewrite Hg. unfold row_of, val_of. rewrite G, Rg, Dg. reflexivity.
Qed.

(* (c3, close() before the job got a worker): a job killed while queued never starts its run-function: READY -> CANCELLED *)
Definition dead (jb : job) : Prop := jph jb = TKilled /\ jstarted jb = false /\ jhist jb = [READY; CANCELLED].

Lemma dead_step c g e g' j jb : gstep c g e = Some g' -> getj g j = Some jb -> dead jb -> exists jb', getj g' j = Some jb' /\ dead jb'.
Proof.
  intros H Hj D. destruct D as (D1 & D2 & D3).
  destruct e; step_inv H; view j.
  all: try (exists jb; split; [exact Hj| split; [exact D1| split; [exact D2| exact D3]]]).
  all: try match goal with Hk : nth_error (jobs ?g) ?jj = Some ?x, Hj' : nth_error (jobs ?g) ?jj = Some ?y |- _ => rewrite Hj' in Hk; injection Hk as <- end.
  all: try congruence.
  - rewrite nth_app_new. destruct (Nat.eqb j (length (jobs g))) eqn:Ej.
    + apply Nat.eqb_eq in Ej. apply nth_some_lt in Hj. lia.
    + exists jb. split; [exact Hj| split; [exact D1| split; [exact D2| exact D3]]].
  - (* it was never launched *) match goal with Hm : mem_st RUNNING _ && _ = true |- _ => rewrite D3 in Hm; discriminate Hm end.
  - rewrite D2 in E0. discriminate E0.
Qed.

Theorem killed_while_queued_never_starts c w b tr1 tr2 g1 g j jb1 :
  grun c (ginit w b) tr1 = Some g1 -> getj g1 j = Some jb1 -> jph jb1 = TQueued -> grun c g1 (EKill j :: tr2) = Some g ->
  exists jb, getj g j = Some jb /\ jstarted jb = false /\ jhist jb = [READY; CANCELLED] /\ jstat jb = CANCELLED.
Proof.
  intros R1 Hj Ph R2. cbn [grun] in R2. destruct (gstep c g1 (EKill j)) as [g2|] eqn:E; [|discriminate].
  pose proof (inv_run c tr1 _ _ (inv_init c w b) R1) as I1. pose proof (getj_ok _ _ _ _ I1 Hj) as OK.
  pose proof (ok_phase _ _ OK) as P. unfold phase_ok in P. rewrite Ph in P. destruct P as (S & St & Rn).
  assert (Hh : jhist jb1 = [READY]).
  { destruct (ok_hist _ _ OK) as [Hc Hp Hr]. cbn in Hc, Hp, Hr. rewrite S in Hc.
    destruct (jhist jb1) as [|a l]; [discriminate Hc|]. destruct a; try discriminate Hr. destruct l as [|x l]; [reflexivity|].
    exfalso. cbn [is_path] in Hp. apply andb_true_iff in Hp as [E1 Hp]. destruct x; try discriminate E1.
    - destruct l as [|y l]; [discriminate Hc|]. cbn [is_path] in Hp. apply andb_true_iff in Hp as [E2 Hp]. destruct y; try discriminate E2.
      + destruct l as [|z l]; [discriminate Hc|]. cbn [is_path] in Hp. apply andb_true_iff in Hp as [E3 _]. destruct z; discriminate E3.
      + destruct l as [|z l]; [discriminate Hc|]. cbn [is_path] in Hp. apply andb_true_iff in Hp as [E3 Hp]. destruct z; try discriminate E3.
        destruct l as [|u l]; [discriminate Hc|]. cbn [is_path] in Hp. apply andb_true_iff in Hp as [E4 _]. destruct u; discriminate E4.
      + destruct l as [|z l]; [discriminate Hc|]. cbn [is_path] in Hp. apply andb_true_iff in Hp as [E3 _]. destruct z; discriminate E3.
    - destruct l as [|y l]; [discriminate Hc|]. cbn [is_path] in Hp. apply andb_true_iff in Hp as [E2 _]. destruct y; discriminate E2. }
  assert (D2 : exists jb2, getj g2 j = Some jb2 /\ dead jb2).
  { step_inv E; injection Hj as Hj; subst; try congruence. unfold getj, setg. cbn [jobs]. rewrite (nth_upd _ j _ _ _ E1), Nat.eqb_refl.
    eexists. split; [reflexivity|]. unfold dead. cbn. rewrite St, Hh. auto. }
  destruct D2 as (jb2 & H2 & D2).
  assert (Run : forall tr g2 g jb2, grun c g2 tr = Some g -> getj g2 j = Some jb2 -> dead jb2 -> exists jb, getj g j = Some jb /\ dead jb).
  { induction tr as [|e t IH]; intros ga gb jba Ra Ha Da; cbn [grun] in Ra; [injection Ra as <-; eauto|].
    destruct (gstep c ga e) as [gc|] eqn:Ec; [|discriminate]. destruct (dead_step c ga e gc j jba Ec Ha Da) as (jbc & Hc & Dc). eapply IH; eauto. }
  destruct (Run tr2 g2 g jb2 R2 H2 D2) as (jb & Hg & (Dk & Ds & Dh)). exists jb. split; [exact Hg|]. split; [exact Ds|]. split; [exact Dh|].
  pose proof (inv_run c tr2 _ _ (inv_step c _ _ _ I1 E) R2) as I. destruct (ok_hist _ _ (getj_ok _ _ _ _ I Hg)) as [Hc _ _]. cbn in Hc.
  rewrite Dh in Hc. cbn in Hc. congruence.
Qed.

(* ---------- never more run-functions in flight than workers ---------- *)
Lemma workers_run c : forall tr g g', grun c g tr = Some g' -> workers g' = workers g.
Proof.
  induction tr as [|e t IH]; intros g g' R; cbn [grun] in R; [injection R as <-; reflexivity|].
  destruct (gstep c g e) as [g1|] eqn:E; [|discriminate]. rewrite (IH g1 g' R). clear -E. destruct e; step_inv E; reflexivity.
Qed.

Theorem workers_bound c w b tr g : grun c (ginit w b) tr = Some g -> free g + sumf holds (jobs g) = w.
Proof.
  intros R. pose proof (inv_free _ _ (inv_run c tr _ _ (inv_init c w b) R)) as F. rewrite (workers_run c tr _ _ R) in F. exact F.
Qed.

(* ---------- a run without deadline races is a run of the sharp-deadline model ----------
   [races] counts the finalisations against the order of the deadline (normal completion of a job that returned after the
   expiry, TimeoutError for one that had returned before it); the observed configuration allows them, the strict one does not *)
Lemma races_mono c g e g' : gstep c g e = Some g' -> races g <= races g'.
Proof. intros H. destruct e; step_inv H; unfold set_job, set_phase, set_flags, setg; cbn [races]; lia. Qed.

Lemma races_mono_run c : forall tr g g', grun c g tr = Some g' -> races g <= races g'.
Proof.
  induction tr as [|e t IH]; intros g g' R; cbn [grun] in R; [injection R as <-; lia|].
  destruct (gstep c g e) as [g1|] eqn:E; [|discriminate]. pose proof (races_mono c g e g1 E). pose proof (IH g1 g' R). lia.
Qed.

Lemma relaxed_step_strict f k g e g' : gstep (mkCfg false f k) g e = Some g' -> races g' = races g -> gstep (mkCfg true f k) g e = Some g'.
Proof.
  intros H Rc. destruct e; try exact H.
  - (* tell *) cbn [gstep strict] in *. destruct (in_gather g && budget_out g); [|discriminate]. destruct (getj g j) as [jb|]; [|discriminate].
    destruct (jph jb); try discriminate. cbn [andb] in H. injection H as <-. unfold setg in Rc. cbn [races] in Rc.
    destruct (late g jb); [reflexivity| lia].
  - (* finish *) cbn [gstep strict] in *. destruct (in_gather g); [|discriminate]. destruct (getj g j) as [jb|]; [|discriminate].
    destruct (jph jb); try discriminate. destruct (is_some (jret jb)); [|discriminate]. cbn [andb negb] in H. injection H as <-.
    unfold setg in Rc. cbn [races] in Rc. destruct (late g jb); [lia| reflexivity].
Qed.

Theorem race_free_run_is_strict f k : forall tr g g', grun (mkCfg false f k) g tr = Some g' -> races g' = races g ->
  grun (mkCfg true f k) g tr = Some g' /\ otrace (mkCfg true f k) g tr = otrace (mkCfg false f k) g tr.
Proof.
  induction tr as [|e t IH]; intros g g' R Rc; cbn [grun otrace] in *; [auto|].
  destruct (gstep (mkCfg false f k) g e) as [g1|] eqn:E; [|discriminate].
  pose proof (races_mono _ _ _ _ E) as M1. pose proof (races_mono_run _ _ _ _ R) as M2.
  rewrite (relaxed_step_strict f k g e g1 E ltac:(lia)). destruct (IH g1 g' R ltac:(lia)) as [A B]. split; [exact A|].
  rewrite B. reflexivity.
Qed.

(* ---------- zombies: a job given up by close() may still run in a pool worker, but nothing it does is reported ----------
   On the thread / process / loky backends close() cannot interrupt (or recall) the run-function of a job that has a worker:
   it may still start, poll and return after the job was written CANCELLED.  These events change neither the job's status
   nor its history nor its row. *)
Definition zombie_of (jb0 jb : job) : Prop := jph jb = TKilled /\ jstat jb = jstat jb0 /\ jhist jb = jhist jb0.

Lemma zombie_step c g e g' j jb0 jb : gstep c g e = Some g' -> getj g j = Some jb -> zombie_of jb0 jb ->
  exists jb', getj g' j = Some jb' /\ zombie_of jb0 jb'.
Proof.
  intros H Hj D. destruct D as (D1 & D2 & D3).
  destruct e; step_inv H; view j.
  all: try (exists jb; split; [exact Hj| split; [exact D1| split; [exact D2| exact D3]]]).
  all: try match goal with Hk : nth_error (jobs ?g) ?jj = Some ?x, Hj' : nth_error (jobs ?g) ?jj = Some ?y |- _ => rewrite Hj' in Hk; injection Hk as <- end.
  all: try congruence.
  all: try (eexists; split; [reflexivity|]; split; [exact D1| split; [exact D2| exact D3]]).
  rewrite nth_app_new. destruct (Nat.eqb j (length (jobs g))) eqn:Ej.
  - apply Nat.eqb_eq in Ej. apply nth_some_lt in Hj. lia.
  - exists jb. split; [exact Hj| split; [exact D1| split; [exact D2| exact D3]]].
Qed.

Theorem killed_job_is_final c w b tr1 tr2 g1 g j jb1 :
  grun c (ginit w b) tr1 = Some g1 -> getj g1 j = Some jb1 -> jph jb1 = TKilled -> grun c g1 tr2 = Some g ->
  exists jb, getj g j = Some jb /\ jph jb = TKilled /\ jstat jb = jstat jb1 /\ jhist jb = jhist jb1 /\
             lookup_row j (rows g) = lookup_row j (rows g1).
Proof.
  intros R1 Hj Ph R2.
  assert (Run : forall tr ga gb jba, grun c ga tr = Some gb -> getj ga j = Some jba -> zombie_of jb1 jba -> exists jbb, getj gb j = Some jbb /\ zombie_of jb1 jbb).
  { induction tr as [|e t IH]; intros ga gb jba Ra Ha Da; cbn [grun] in Ra; [injection Ra as <-; eauto|].
    destruct (gstep c ga e) as [gc|] eqn:Ec; [|discriminate]. destruct (zombie_step c ga e gc j jb1 jba Ec Ha Da) as (jbc & Hc & Dc). eapply IH; eauto. }
  destruct (Run tr2 g1 g jb1 R2 Hj (conj Ph (conj eq_refl eq_refl))) as (jb & Hg & (Z1 & Z2 & Z3)).
  exists jb. split; [exact Hg|]. split; [exact Z1|]. split; [exact Z2|]. split; [exact Z3|].
  pose proof (inv_run c tr1 _ _ (inv_init c w b) R1) as I1. pose proof (inv_run c tr2 _ _ I1 R2) as I.
  rewrite (inv_rows _ _ I j), (inv_rows _ _ I1 j). unfold rows_of. rewrite Hg, Hj. unfold row_of. rewrite Z1, Ph, Z2. reflexivity.
Qed.
