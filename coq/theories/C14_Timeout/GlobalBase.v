(* list / record plumbing for the global model: positional update, sums over the jobs, the step inversion tactic *)
From Coq Require Import List ZArith Bool Arith Lia.
Import ListNotations.
Require Import DH.C14_Timeout.Model DH.C14_Timeout.Lemmas DH.C14_Timeout.Check DH.C14_Timeout.Global.

Lemma upd_length {A} : forall n (x : A) l, length (upd n x l) = length l.
Proof. induction n as [|n IH]; intros x [|a l]; cbn; auto. Qed.

Lemma nth_upd_same {A} : forall n (x : A) l, n < length l -> nth_error (upd n x l) n = Some x.
Proof. induction n as [|n IH]; intros x [|a l] H; cbn in *; try lia; auto. apply IH. lia. Qed.

Lemma nth_upd_other {A} : forall n m (x : A) l, n <> m -> nth_error (upd n x l) m = nth_error l m.
Proof.
  induction n as [|n IH]; intros m x [|a l] H; cbn; auto.
  - destruct m; [lia|reflexivity].
  - destruct m; [reflexivity|]. cbn. apply IH. lia.
Qed.

Lemma nth_some_lt {A} (l : list A) n x : nth_error l n = Some x -> n < length l.
Proof. intros H. apply nth_error_Some. congruence. Qed.

Lemma nth_upd {A} n m (x y : A) l : nth_error l n = Some y ->
  nth_error (upd n x l) m = if Nat.eqb n m then Some x else nth_error l m.
Proof.
  intros H. destruct (Nat.eqb n m) eqn:E.
  - apply Nat.eqb_eq in E. subst. apply nth_upd_same. eapply nth_some_lt; eauto.
  - apply Nat.eqb_neq in E. apply nth_upd_other. exact E.
Qed.

Lemma Forall_upd {A} (P : A -> Prop) : forall n x l, Forall P l -> P x -> Forall P (upd n x l).
Proof.
  induction n as [|n IH]; intros x [|a l] F Hx; cbn; auto; inversion F; subst; constructor; auto.
Qed.

Lemma Forall_nth {A} (P : A -> Prop) l n x : Forall P l -> nth_error l n = Some x -> P x.
Proof. intros F H. rewrite Forall_forall in F. apply F. eapply nth_error_In; eauto. Qed.

Lemma nth_app_new {A} (l : list A) x m : nth_error (l ++ [x]) m = if Nat.eqb m (length l) then Some x else nth_error l m.
Proof.
  destruct (Nat.eqb m (length l)) eqn:E.
  - apply Nat.eqb_eq in E. subst. rewrite nth_error_app2 by lia. rewrite Nat.sub_diag. reflexivity.
  - apply Nat.eqb_neq in E. destruct (Nat.lt_ge_cases m (length l)) as [Hl|Hl].
    + apply nth_error_app1. exact Hl.
    + rewrite nth_error_app2 by lia. destruct (m - length l) as [|k] eqn:Ek; [lia|]. cbn.
      destruct k; cbn; symmetry; apply nth_error_None; lia.
Qed.

(* sums of a per-job quantity *)
Fixpoint sumf {A} (f : A -> nat) (l : list A) : nat := match l with [] => 0 | a :: t => f a + sumf f t end.

Lemma sumf_app {A} (f : A -> nat) l1 l2 : sumf f (l1 ++ l2) = sumf f l1 + sumf f l2.
Proof. induction l1 as [|a l IH]; cbn; [reflexivity| rewrite IH; lia]. Qed.

Lemma sumf_upd {A} (f : A -> nat) : forall n x y l, nth_error l n = Some y -> sumf f (upd n x l) + f y = sumf f l + f x.
Proof.
  induction n as [|n IH]; intros x y [|a l] H; cbn in *; try discriminate.
  - injection H as ->. lia.
  - specialize (IH x y l H). lia.
Qed.

Lemma sumf_pos {A} (f : A -> nat) : forall l, 0 < sumf f l -> exists n x, nth_error l n = Some x /\ 0 < f x.
Proof.
  induction l as [|a l IH]; cbn; intros H; [lia|].
  destruct (f a) eqn:E.
  - destruct (IH H) as (n & x & Hn & Hx). exists (S n), x. auto.
  - exists 0, a. cbn. split; [reflexivity| lia].
Qed.

Lemma sumf_zero {A} (f : A -> nat) : forall l, sumf f l = 0 -> forall n x, nth_error l n = Some x -> f x = 0.
Proof.
  induction l as [|a l IH]; intros H n x Hn; [destruct n; discriminate|]. cbn in H.
  destruct n; cbn in Hn; [injection Hn as <-; lia| eapply IH; eauto; lia].
Qed.

Lemma forallb_nth {A} (f : A -> bool) l n x : forallb f l = true -> nth_error l n = Some x -> f x = true.
Proof. intros F H. rewrite forallb_forall in F. apply F. eapply nth_error_In; eauto. Qed.

Lemma forallb_upd {A} (f : A -> bool) : forall n x l, forallb f l = true -> f x = true -> forallb f (upd n x l) = true.
Proof.
  induction n as [|n IH]; intros x [|a l] F Hx; cbn in *; auto; apply andb_true_iff in F as [F1 F2]; apply andb_true_iff; split; auto.
Qed.

(* rows *)
Lemma lookup_row_app j t1 t2 : lookup_row j (t1 ++ t2) = lookup_row j t1 ++ lookup_row j t2.
Proof.
  induction t1 as [|[[k s] o] t IH]; cbn; [reflexivity|]. destruct (Nat.eqb j k); cbn; rewrite IH; reflexivity.
Qed.

Lemma lookup_row_one j k s o : lookup_row j [(k, s, o)] = if Nat.eqb j k then [(s, o)] else [].
Proof. cbn. destruct (Nat.eqb j k); reflexivity. Qed.

(* inversion of one step: one goal per enabled branch, with the successor state explicit *)
Ltac step_inv H :=
  unfold gstep in H;
  repeat match type of H with
  | match ?x with _ => _ end = Some _ => let E := fresh "E" in destruct x eqn:E; try discriminate H
  end;
  try (injection H as H; subst).

Ltac gsimpl :=
  unfold set_job, set_phase, set_flags, setg, getj, budget_out in *;
  cbn [workers free timed expired calltimed stopped phase jobs rows races] in *.
