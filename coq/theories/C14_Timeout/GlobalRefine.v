(* (a) Refinement: every run of the global model without close()-kills projects, job by job, to a run of the per-job
   status automaton of Model.v ([jrun]); the abstraction of a job is (status, started, returned, history of writes). *)
From Coq Require Import List ZArith Bool Arith Lia.
Import ListNotations.
Require Import DH.C14_Timeout.Model DH.C14_Timeout.Lemmas DH.C14_Timeout.Check DH.C14_Timeout.Global DH.C14_Timeout.GlobalBase
  DH.C14_Timeout.GlobalInv.

Lemma proj_app j t1 t2 : proj j (t1 ++ t2) = proj j t1 ++ proj j t2.
Proof.
  induction t1 as [|[k e|] t IH]; cbn; [reflexivity| |exact IH]. destruct (Nat.eqb j k); cbn; rewrite IH; reflexivity.
Qed.

Lemma jrun_compose : forall t1 s s1 t2, jrun s t1 = Some s1 -> jrun s (t1 ++ t2) = jrun s1 t2.
Proof.
  induction t1 as [|e t IH]; intros s s1 t2 R; cbn [jrun app] in *; [injection R as <-; reflexivity|].
  destruct (jstep s e) as [s'|]; [|discriminate]. apply IH. exact R.
Qed.

Lemma abs_upd g fr ph rs rc k jb jb' j : getj g k = Some jb ->
  abs (setg g fr ph (upd k jb' (jobs g)) rs rc) j = if Nat.eqb k j then abs_job jb' else abs g j.
Proof. intros H. unfold abs, getj in *. cbn [jobs setg]. rewrite (nth_upd _ _ _ _ _ H). destruct (Nat.eqb k j); reflexivity. Qed.

Lemma abs_push g fr ph rs rc x j :
  abs (setg g fr ph (jobs g ++ [x]) rs rc) j = if Nat.eqb j (length (jobs g)) then abs_job x else abs g j.
Proof. unfold abs, getj. cbn [jobs setg]. rewrite nth_app_new. destruct (Nat.eqb j (length (jobs g))); reflexivity. Qed.

Lemma abs_beyond g j : length (jobs g) <= j -> abs g j = jinit.
Proof. intros H. unfold abs, getj. replace (nth_error (jobs g) j) with (@None job); [reflexivity|]. symmetry. apply nth_error_None. exact H. Qed.

(* no job was killed by close() *)
Definition alive (jb : job) : bool := match jph jb with TKilled => false | _ => true end.
Definition nokilled (g : gst) : bool := forallb alive (jobs g).

Lemma nokilled_step c g e g' : nokilled g = true -> gstep c g e = Some g' -> is_kill e = false -> nokilled g' = true.
Proof.
  intros N H K. unfold nokilled in *.
  destruct e; try discriminate K; step_inv H; unfold set_job, set_phase, set_flags, setg; cbn [jobs]; try exact N.
  all: try (apply forallb_upd; [exact N| reflexivity]).
  - rewrite forallb_app, N. reflexivity.
  - apply forallb_upd; [exact N|]. unfold collect_job. destruct (st_eqb (jstat j0) RUNNING); reflexivity.
  - apply forallb_upd; [exact N|]. unfold collect_job. destruct (st_eqb (jstat j0) RUNNING); reflexivity.
  - apply forallb_upd; [exact N|]. unfold alive. cbn. rewrite E0. reflexivity.
  - apply forallb_upd; [exact N|]. unfold alive. cbn. rewrite E0. reflexivity.
  - exfalso. pose proof (forallb_nth _ _ _ _ N E) as A. unfold alive in A. rewrite E0 in A. discriminate A.
  - apply forallb_upd; [exact N|]. pose proof (forallb_nth _ _ _ _ N E) as A. exact A.
Qed.

Lemma sim_collect c jb : JobOK c jb -> jph jb = TFinished ->
  jrun (abs_job jb) (if st_eqb (jstat jb) RUNNING then [W DONE] else []) = Some (abs_job (collect_job jb)).
Proof.
  intros OK E. pose proof (ok_phase _ _ OK) as P. unfold phase_ok in P. rewrite E in P. destruct P as [[S|S] R].
  - unfold collect_job, abs_job. rewrite S. cbn. destruct (jret jb); [reflexivity| congruence].
  - unfold collect_job, abs_job. rewrite S. cbn. rewrite S. reflexivity.
Qed.

Lemma sim_step c g e g' j : Inv c g -> nokilled g = true -> gstep c g e = Some g' -> is_kill e = false ->
  jrun (abs g j) (proj j (obs c g e)) = Some (abs g' j).
Proof.
  intros I N H K.
  destruct e; try discriminate K; step_inv H; unfold set_job, set_phase.
  all: try reflexivity.
  all: repeat match goal with Hb : _ && _ = true |- _ => apply andb_true_iff in Hb; destruct Hb end.
  all: try match goal with Hj : getj ?g ?k = Some ?jb |- _ =>
         let OK := fresh "OK" in pose proof (getj_ok _ _ _ _ I Hj) as OK;
         let P := fresh "P" in pose proof (ok_phase _ _ OK) as P; unfold phase_ok in P;
         let A := fresh "A" in pose proof (forallb_nth _ _ _ _ N Hj) as A; unfold alive in A;
         repeat match goal with Hp : jph _ = _ |- _ => rewrite Hp in P end;
         try (cbn [obs]; rewrite Hj);
         try match goal with |- context [collect_job _] => destruct P as [[S|S] R]; unfold collect_job; rewrite S; cbn [st_eqb st_code Z.eqb Pos.eqb] end;
         cbn [obs proj]; try rewrite (abs_upd _ _ _ _ _ _ _ _ j Hj); try rewrite (Nat.eqb_sym j k);
         destruct (Nat.eqb k j) eqn:Ej;
         [apply Nat.eqb_eq in Ej; subst k; unfold abs; rewrite Hj| try reflexivity]
       end.
  - (* submit *)
    cbn [obs proj]. rewrite abs_push. destruct (Nat.eqb j (length (jobs g))) eqn:Ej; [|reflexivity].
    apply Nat.eqb_eq in Ej. subst j. rewrite abs_beyond by lia. reflexivity.
  - destruct P as (S & _ & _). unfold abs_job. cbn. rewrite S. reflexivity.
  - unfold abs_job. cbn. rewrite P. reflexivity.
  - reflexivity.
  - unfold abs_job. cbn. rewrite P. cbn. rewrite E2. reflexivity.
  - cbn [obs]. rewrite E0. rewrite (abs_upd _ _ _ _ _ _ _ _ j E0). pose proof (sim_collect c j1 (getj_ok _ _ _ _ I E0) E1) as SC.
    destruct (Nat.eqb j0 j) eqn:Ej.
    + apply Nat.eqb_eq in Ej. subst j0. unfold abs. rewrite E0. rewrite <- SC. f_equal.
      destruct (st_eqb (jstat j1) RUNNING); cbn [proj]; rewrite ?Nat.eqb_refl; reflexivity.
    + destruct (st_eqb (jstat j1) RUNNING); cbn [proj]; rewrite ?(Nat.eqb_sym j j0), ?Ej; reflexivity.
  - cbn [obs]. rewrite E0. rewrite (abs_upd _ _ _ _ _ _ _ _ j E0). pose proof (sim_collect c j1 (getj_ok _ _ _ _ I E0) E1) as SC.
    destruct (Nat.eqb j0 j) eqn:Ej.
    + apply Nat.eqb_eq in Ej. subst j0. unfold abs. rewrite E0. rewrite <- SC. f_equal.
      destruct (st_eqb (jstat j1) RUNNING); cbn [proj]; rewrite ?Nat.eqb_refl; reflexivity.
    + destruct (st_eqb (jstat j1) RUNNING); cbn [proj]; rewrite ?(Nat.eqb_sym j j0), ?Ej; reflexivity.
  - unfold abs_job. cbn. rewrite P. cbn. match goal with Hs : jstarted _ = false |- _ => rewrite Hs end. reflexivity.
  - unfold abs_job. cbn. rewrite P. cbn. match goal with Hs : jstarted _ = false |- _ => rewrite Hs end. reflexivity.
  - (* a killed job: excluded here *) exfalso. match goal with Hp : jph _ = TKilled |- _ => rewrite Hp in A end. discriminate A.
  - unfold abs_job. cbn. rewrite H, H0. cbn. destruct (jstat j1); reflexivity.
  - assert (S : jstat j1 = RUNNING \/ jstat j1 = CANCELLING).
    { destruct (jph j1); try discriminate A; auto.
      - destruct P as (_ & B & _). congruence.
      - destruct P as [_ R]. destruct (jret j1); [discriminate H0| congruence].
      - destruct P as [_ R]. destruct (jret j1); [discriminate H0| congruence]. }
    unfold abs_job. cbn. destruct S as [S|S]; rewrite S, H, H0; reflexivity.
Qed.

Lemma otrace_app c : forall t1 g g1 t2, grun c g t1 = Some g1 -> otrace c g (t1 ++ t2) = otrace c g t1 ++ otrace c g1 t2.
Proof.
  induction t1 as [|e t IH]; intros g g1 t2 R; cbn [grun otrace app] in *; [injection R as <-; reflexivity|].
  destruct (gstep c g e) as [g'|]; [|discriminate]. rewrite <- app_assoc. f_equal. apply IH. exact R.
Qed.

Lemma grun_app c : forall t1 g t2, grun c g (t1 ++ t2) = match grun c g t1 with Some g1 => grun c g1 t2 | None => None end.
Proof.
  induction t1 as [|e t IH]; intros g t2; cbn [grun app]; [reflexivity|]. destruct (gstep c g e); [apply IH| reflexivity].
Qed.

Lemma nokilled_run c : forall tr g g', nokilled g = true -> grun c g tr = Some g' -> nokill tr = true -> nokilled g' = true.
Proof.
  induction tr as [|e t IH]; intros g g' N R K; cbn [grun] in R; [injection R as <-; exact N|].
  destruct (gstep c g e) as [g1|] eqn:E; [|discriminate]. cbn in K. apply andb_true_iff in K as [K1 K2].
  apply negb_true_iff in K1. eapply IH; [eapply nokilled_step; eauto| exact R| exact K2].
Qed.

(* the projection of a run on job j is a run of the per-job automaton, ending in the abstraction of the job *)
Theorem sim_run c j : forall tr g g', Inv c g -> nokilled g = true -> grun c g tr = Some g' -> nokill tr = true ->
  jrun (abs g j) (proj j (otrace c g tr)) = Some (abs g' j).
Proof.
  induction tr as [|e t IH]; intros g g' I N R K; cbn [grun otrace] in *; [injection R as <-; reflexivity|].
  destruct (gstep c g e) as [g1|] eqn:E; [|discriminate]. cbn in K. apply andb_true_iff in K as [K1 K2]. apply negb_true_iff in K1.
  rewrite proj_app. rewrite (jrun_compose _ _ _ _ (sim_step c g e g1 j I N E K1)).
  apply IH; [eapply inv_step; eauto| eapply nokilled_step; eauto| exact R| exact K2].
Qed.

Theorem refinement c w b tr g j : grun c (ginit w b) tr = Some g -> nokill tr = true ->
  jrun jinit (proj j (otrace c (ginit w b) tr)) = Some (abs g j).
Proof.
  intros R K. pose proof (sim_run c j tr (ginit w b) g (inv_init c w b) eq_refl R K) as S.
  rewrite abs_beyond in S by (cbn; lia). exact S.
Qed.


(* ---------- every run, close()-kills included: the observed writes of a job are its history, a forward path ---------- *)
Definition hist (g : gst) (j : nat) : list st := match getj g j with Some jb => jhist jb | None => [] end.

Lemma hist_upd g fr ph rs rc k jb jb' j : getj g k = Some jb ->
  hist (setg g fr ph (upd k jb' (jobs g)) rs rc) j = if Nat.eqb k j then jhist jb' else hist g j.
Proof. intros H. unfold hist, getj in *. cbn [jobs setg]. rewrite (nth_upd _ _ _ _ _ H). destruct (Nat.eqb k j); reflexivity. Qed.

Lemma ws_proj_one j k e : ws_of (proj j [J k e]) = if Nat.eqb k j then ws_of [e] else [].
Proof. cbn [proj]. rewrite (Nat.eqb_sym j k). destruct (Nat.eqb k j); reflexivity. Qed.

Lemma hist_step c g e g' j : Inv c g -> gstep c g e = Some g' -> hist g' j = hist g j ++ ws_of (proj j (obs c g e)).
Proof.
  intros I H.
  destruct e; step_inv H; unfold set_job, set_phase.
  all: try (cbn [obs proj ws_of]; rewrite app_nil_r; reflexivity).
  all: try match goal with Hj : getj ?g ?k = Some ?jb |- _ =>
         rewrite (hist_upd _ _ _ _ _ _ _ _ j Hj); cbn [obs]; try rewrite Hj;
         pose proof (ok_phase _ _ (getj_ok _ _ _ _ I Hj)) as P; unfold phase_ok in P;
         repeat match goal with Hp : jph _ = _ |- _ => rewrite Hp in P; try rewrite Hp end
       end.
  all: try (rewrite ws_proj_one; destruct (Nat.eqb _ j) eqn:Ej; [apply Nat.eqb_eq in Ej; subst; unfold hist; rewrite E0; reflexivity| rewrite app_nil_r; reflexivity]).
  all: try (rewrite ws_proj_one; destruct (Nat.eqb _ j) eqn:Ej; [apply Nat.eqb_eq in Ej; subst; unfold hist; rewrite E; cbn; rewrite ?app_nil_r; reflexivity| rewrite app_nil_r; reflexivity]).
  - cbn [obs]. rewrite ws_proj_one. unfold hist, getj. cbn [jobs setg]. rewrite nth_app_new, (Nat.eqb_sym j).
    destruct (Nat.eqb (length (jobs g)) j) eqn:Ej; [|rewrite app_nil_r; reflexivity].
    apply Nat.eqb_eq in Ej. subst j. replace (nth_error (jobs g) (length (jobs g))) with (@None job); [reflexivity|].
    symmetry. apply nth_error_None. lia.
  - cbn. rewrite app_nil_r. destruct (Nat.eqb j0 j) eqn:Ej; [|reflexivity]. apply Nat.eqb_eq in Ej. subst. unfold hist. rewrite E0. reflexivity.
  - unfold collect_job. destruct (st_eqb (jstat j1) RUNNING).
    + rewrite ws_proj_one. destruct (Nat.eqb j0 j) eqn:Ej; [|rewrite app_nil_r; reflexivity]. apply Nat.eqb_eq in Ej. subst. unfold hist. rewrite E0. reflexivity.
    + cbn. rewrite app_nil_r. destruct (Nat.eqb j0 j) eqn:Ej; [|reflexivity]. apply Nat.eqb_eq in Ej. subst. unfold hist. rewrite E0. reflexivity.
  - unfold collect_job. destruct (st_eqb (jstat j1) RUNNING).
    + rewrite ws_proj_one. destruct (Nat.eqb j0 j) eqn:Ej; [|rewrite app_nil_r; reflexivity]. apply Nat.eqb_eq in Ej. subst. unfold hist. rewrite E0. reflexivity.
    + cbn. rewrite app_nil_r. destruct (Nat.eqb j0 j) eqn:Ej; [|reflexivity]. apply Nat.eqb_eq in Ej. subst. unfold hist. rewrite E0. reflexivity.
  - rewrite E2. rewrite ws_proj_one. destruct (Nat.eqb j0 j) eqn:Ej; [|rewrite app_nil_r; reflexivity]. apply Nat.eqb_eq in Ej. subst. unfold hist. rewrite E0. reflexivity.
  - rewrite E2. cbn. rewrite app_nil_r. destruct (Nat.eqb j0 j) eqn:Ej; [|reflexivity]. apply Nat.eqb_eq in Ej. subst. unfold hist. rewrite E0. reflexivity.
  - cbn [obs]. rewrite E. rewrite ws_proj_one. destruct (Nat.eqb j0 j); cbn; rewrite app_nil_r; reflexivity.
Qed.

Theorem hist_run c j : forall tr g g', Inv c g -> grun c g tr = Some g' -> hist g' j = hist g j ++ ws_of (proj j (otrace c g tr)).
Proof.
  induction tr as [|e t IH]; intros g g' I R; cbn [grun otrace] in *; [injection R as <-; cbn; rewrite app_nil_r; reflexivity|].
  destruct (gstep c g e) as [g1|] eqn:E; [|discriminate]. rewrite proj_app.
  assert (Wapp : forall a b, ws_of (a ++ b) = ws_of a ++ ws_of b).
  { induction a as [|x a IHa]; intros b0; cbn; [reflexivity|]. destruct x; cbn; rewrite ?IHa; reflexivity. }
  rewrite Wapp, app_assoc, <- (hist_step c g e g1 j I E). apply IH; [eapply inv_step; eauto| exact R].
Qed.

(* (a') for every schedule, close()-kills included: the writes observed for a job start with READY and follow the status graph *)
Theorem writes_forward c w b tr g j : grun c (ginit w b) tr = Some g ->
  let ws := ws_of (proj j (otrace c (ginit w b) tr)) in is_path ws = true /\ starts_ready ws = true.
Proof.
  intros R ws. pose proof (hist_run c j tr _ _ (inv_init c w b) R) as H. fold ws in H.
  assert (H0 : hist (ginit w b) j = []) by (unfold hist, getj; cbn; destruct j; reflexivity).
  rewrite H0 in H. cbn [app] in H. rewrite <- H. unfold hist. destruct (getj g j) as [jb|] eqn:E; [|split; reflexivity].
  pose proof (inv_run c tr _ _ (inv_init c w b) R) as I. destruct (ok_hist _ _ (getj_ok _ _ _ _ I E)) as [_ P S]. split; assumption.
Qed.
