From Coq Require Import List ZArith Bool.
Import ListNotations.
Require Import DH.Common.Data DH.C14_Timeout.Model DH.C14_Timeout.Check DH.C14_Timeout.Global DH.C14_Timeout.Accept.
Open Scope Z_scope.

Definition d_st (d : data) : st := match st_of_code (dZ d) with Some s => s | None => READY end.
(* event: [job; kind; arg]  kind 0 W status, 1 FStart, 2 Poll status, 3 FReturn, 9 sentinel *)
Definition d_gev (d : data) : gev :=
  let j := dnat (dnth 0 d) in let k := dZ (dnth 1 d) in
  if k =? 0 then J j (W (d_st (dnth 2 d))) else if k =? 1 then J j FStart
  else if k =? 2 then J j (Poll (d_st (dnth 2 d))) else if k =? 3 then J j FReturn else Sentinel.
(* a status code outside 0..4 in the input is reported as clause 1 for its job by sending the poll of a wrong status;
   the harness checks codes before (they come from the enum) *)

(* 1401: [njobs; trace; vals; table; fail_code; late] -> [ok; job; clause] *)
Definition e_check (d : data) : data :=
  let r := ok_C14 (dnat (dnth 0 d)) (dmap d_gev (dnth 1 d)) (dmap (dpair dnat dZ) (dnth 2 d))
                  (dmap (fun x => (dnat (dnth 0 x), d_st (dnth 1 x), dZ (dnth 2 x))) (dnth 3 d)) (dZ (dnth 4 d)) (dnat (dnth 5 d)) in
  match r with None => L [I 1; I 0; I 0] | Some (j, c) => L [I 0; enat j; enat c] end.

(* ---- acceptance of the observed GLOBAL trace by the global model (Accept.v) ----
   event: [job; kind; arg]   kind 0 W status, 1 FStart, 2 Poll status, 3 FReturn (arg = returned value), 4 execute() returns,
   5 submit called, 6 gather entered, 7 gather returned, 8 early sentinel, 9 sentinel, 10 close entered, 11 close returned,
   12 search() returned, 13 another search() call (arg: 0 budget untouched, 1 search(timeout=), 2 evaluator.timeout set), 14 _on_done returned,
   15 the evaluator's counters (arg = num_jobs_submitted - num_jobs_gathered) *)
Definition d_budget (z : Z) : option budget := if z =? 1 then Some BSearch else if z =? 2 then Some BEval else None.
Definition d_oev (d : data) : oev :=
  let j := dnat (dnth 0 d) in let k := dZ (dnth 1 d) in let a := dnth 2 d in
  if k =? 0 then OW j (d_st a) else if k =? 1 then OStart j else if k =? 2 then OPoll j (d_st a) else if k =? 3 then ORet j (dZ a)
  else if k =? 4 then OFin j else if k =? 5 then OSubmitCall else if k =? 6 then OGatherIn else if k =? 7 then OGatherOut
  else if k =? 8 then OSent0 else if k =? 9 then OSent else if k =? 10 then OCloseIn else if k =? 11 then OCloseOut
  else if k =? 12 then OReturn else if k =? 13 then OAgain (d_budget (dZ a)) else if k =? 14 then OCollected j else OCounts (dnat a).

(* 1402: [workers; budget; events; table; fail_code] -> [accepted; position; code; races; phase; tables agree; jobs; strict violations] *)
Definition e_accept (d : data) : data :=
  let c := observed_cfg (dZ (dnth 4 d)) in
  let g0 := ginit (dnat (dnth 0 d)) (d_budget (dZ (dnth 1 d))) in
  let table := dmap (fun x => (dnat (dnth 0 x), d_st (dnth 1 x), dZ (dnth 2 x))) (dnth 3 d) in
  let '(g, r) := accept c g0 (dmap d_oev (dnth 2 d)) 0 in
  L [ebool (match r with None => true | Some _ => false end);
     enat (match r with Some (p, _) => p | None => 0 end);
     enat (match r with Some (_, k) => k | None => 0 end);
     enat (races g); enat (lphase_code (phase g));
     ebool (tables_agree (length (jobs g)) (rows g) table); enat (length (jobs g))].

Definition entries : list (Z * (data -> data)) := [ (1401, e_check); (1402, e_accept) ].
