From Coq Require Import List ZArith Bool.
Import ListNotations.
Require Import DH.Common.Data DH.C14_Timeout.Model DH.C14_Timeout.Check.
Open Scope Z_scope.

Definition d_st (d : data) : st := match st_of_code (dZ d) with Some s => s | None => READY end.
(* event: [job; kind; arg]  kind 0 W status, 1 FStart, 2 Poll status, 3 FReturn, 9 sentinel *)
Definition d_gev (d : data) : gev :=
  let j := dnat (dnth 0 d) in let k := dZ (dnth 1 d) in
  if k =? 0 then J j (W (d_st (dnth 2 d))) else if k =? 1 then J j FStart
  else if k =? 2 then J j (Poll (d_st (dnth 2 d))) else if k =? 3 then J j FReturn else Sentinel.
(* a status code outside 0..4 in the input is reported as clause 1 for its job by sending the poll of a wrong status;
   the harness checks codes before (they come from the enum) *)

(* 1401: [njobs; trace; vals; table; fail_code; late] -> [ok; job; clause] *)
Definition e_check (d : data) : data :=
  let r := ok_C14 (dnat (dnth 0 d)) (dmap d_gev (dnth 1 d)) (dmap (dpair dnat dZ) (dnth 2 d))
                  (dmap (fun x => (dnat (dnth 0 x), d_st (dnth 1 x), dZ (dnth 2 x))) (dnth 3 d)) (dZ (dnth 4 d)) (dnat (dnth 5 d)) in
  match r with None => L [I 1; I 0; I 0] | Some (j, c) => L [I 0; enat j; enat c] end.

Definition entries : list (Z * (data -> data)) := [ (1401, e_check) ].
