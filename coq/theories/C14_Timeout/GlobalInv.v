(* Invariants of the global model, for EVERY schedule (list of events) and both switches. *)
From Coq Require Import List ZArith Bool Arith Lia.
Import ListNotations.
Require Import DH.C14_Timeout.Model DH.C14_Timeout.Lemmas DH.C14_Timeout.Check DH.C14_Timeout.Global DH.C14_Timeout.GlobalBase.

(* ---------- per job: status by task position, history ---------- *)
Definition phase_ok (c : cfg) (jb : job) : Prop :=
  match jph jb with
  | TQueued => jstat jb = READY /\ jstarted jb = false /\ jret jb = None
  | TWaiting => jstat jb = RUNNING
  | TCancelling => jstat jb = CANCELLING
  | TFinished => (jstat jb = RUNNING \/ jstat jb = CANCELLED) /\ jret jb <> None
  | TGathered => (jstat jb = DONE \/ jstat jb = CANCELLED) /\ jret jb <> None
  | TKilled => jstat jb = CANCELLED \/ (fixed c = false /\ jstat jb = CANCELLING)
  end.

Record JobOK (c : cfg) (jb : job) : Prop := {
  ok_phase : phase_ok c jb;
  ok_ret : jret jb <> None -> jstarted jb = true;
  ok_hist : JInv (abs_job jb) }.

Lemma jobok_new c : JobOK c new_job.
Proof. constructor; [cbn; auto| cbn; congruence| constructor; reflexivity]. Qed.

Lemma jinv_write jb s p : JInv (abs_job jb) -> edge (jstat jb) s = true -> JInv (abs_job (job_write jb s p)).
Proof.
  intros [Hc Hp Hr] He. cbn in *. constructor; cbn.
  - rewrite last_st_snoc. reflexivity.
  - apply (is_path_snoc _ (jstat jb) s); auto.
  - destruct (jhist jb); [discriminate| exact Hr].
Qed.

Lemma jobok_write c jb s p : JobOK c jb -> edge (jstat jb) s = true -> phase_ok c (job_write jb s p) -> JobOK c (job_write jb s p).
Proof. intros [A B C] He Hp. constructor; [exact Hp| exact B| apply jinv_write; assumption]. Qed.

Lemma jobok_phase c jb p : JobOK c jb -> phase_ok c (job_phase jb p) -> JobOK c (job_phase jb p).
Proof. intros [A B C] Hp. constructor; [exact Hp| exact B| exact C]. Qed.

(* ---------- global ---------- *)
Definition holds (jb : job) : nat := match jph jb with TWaiting | TCancelling => 1 | _ => 0 end.   (* holds a worker *)

Definition row_of (c : cfg) (jb : job) : list (st * Z) :=
  match jph jb with
  | TGathered => [(jstat jb, val_of c jb)]
  | TKilled => if st_eqb (jstat jb) CANCELLED then [(CANCELLED, fc c)] else []
  | _ => []
  end.
Definition rows_of (c : cfg) (g : gst) (j : nat) : list (st * Z) :=
  match getj g j with Some jb => row_of c jb | None => [] end.
Definition closed_phase (p : lphase) : bool := match p with PClosed | PDone => true | _ => false end.

Record Inv (c : cfg) (g : gst) : Prop := {
  inv_jobs : Forall (JobOK c) (jobs g);
  inv_free : free g + sumf holds (jobs g) = workers g;
  inv_closed : closed_phase (phase g) = true -> all_settled g = true;
  inv_rows : forall j, lookup_row j (rows g) = rows_of c g j;
  inv_nrows : length (rows g) = sumf (fun jb => length (row_of c jb)) (jobs g) }.

Lemma inv_init c w b : Inv c (ginit w b).
Proof. constructor; cbn; auto. intros j. unfold rows_of, getj. cbn. destruct j; reflexivity. Qed.

Lemma rows_of_upd c g fr ph rs rc j jb jb' k : getj g j = Some jb ->
  rows_of c (setg g fr ph (upd j jb' (jobs g)) rs rc) k = if Nat.eqb j k then row_of c jb' else rows_of c g k.
Proof.
  intros H. unfold rows_of, getj in *. cbn [jobs setg]. rewrite (nth_upd _ _ _ _ _ H). destruct (Nat.eqb j k); reflexivity.
Qed.

Lemma inv_flags c g ti ex ct sp ph : Inv c g -> (closed_phase ph = true -> all_settled g = true) -> Inv c (set_flags g ti ex ct sp ph).
Proof. intros [IJ IF IC IR IN] H. constructor; auto. Qed.

Lemma inv_setphase c g ph rc : Inv c g -> (closed_phase ph = true -> all_settled g = true) -> Inv c (setg g (free g) ph (jobs g) (rows g) rc).
Proof. intros [IJ IF IC IR IN] H. constructor; auto. Qed.

Lemma inv_push c g ph rc : Inv c g -> closed_phase ph = false -> Inv c (setg g (free g) ph (jobs g ++ [new_job]) (rows g) rc).
Proof.
  intros [IJ IF IC IR IN] H. constructor; unfold setg; cbn [workers free phase jobs rows].
  - apply Forall_app. split; [exact IJ| constructor; [apply jobok_new| constructor]].
  - rewrite sumf_app. cbn. lia.
  - rewrite H. discriminate.
  - intros j. rewrite IR. unfold rows_of, getj. cbn [jobs]. rewrite nth_app_new.
    destruct (Nat.eqb j (length (jobs g))) eqn:E; [|reflexivity].
    apply Nat.eqb_eq in E. subst. replace (nth_error (jobs g) (length (jobs g))) with (@None job); [reflexivity|].
    symmetry. apply nth_error_None. lia.
  - rewrite sumf_app. cbn. lia.
Qed.

Lemma settled_upd g j jb' : all_settled g = true -> settled jb' = true -> forallb settled (upd j jb' (jobs g)) = true.
Proof. intros A B. apply forallb_upd; assumption. Qed.

(* an event that changes job j and appends the rows [added] for it *)
Lemma inv_update c g j jb jb' fr ph rc added :
  Inv c g -> getj g j = Some jb -> JobOK c jb' ->
  fr + holds jb' = free g + holds jb ->
  (closed_phase ph = true -> closed_phase (phase g) = true /\ settled jb' = true) ->
  row_of c jb' = row_of c jb ++ added ->
  Inv c (setg g fr ph (upd j jb' (jobs g)) (rows g ++ map (fun r => (j, fst r, snd r)) added) rc).
Proof.
  intros [IJ IF IC IR IN] Hj Hok Hfr Hcl Hrow. constructor; unfold setg; cbn [workers free phase jobs rows].
  - apply Forall_upd; assumption.
  - pose proof (sumf_upd holds j jb' jb (jobs g) Hj). lia.
  - intros Hc. destruct (Hcl Hc) as [A B]. apply forallb_upd; auto.
  - intros k. rewrite lookup_row_app, IR. unfold rows_of, getj in *. cbn [jobs]. rewrite (nth_upd _ _ _ _ _ Hj).
    destruct (Nat.eqb j k) eqn:E.
    + apply Nat.eqb_eq in E. subst k. rewrite Hj, Hrow. f_equal.
      clear. induction added as [|[s o] t IH]; cbn; [reflexivity|]. rewrite Nat.eqb_refl, IH. reflexivity.
    + replace (lookup_row k (map (fun r => (j, fst r, snd r)) added)) with (@nil (st * Z)); [apply app_nil_r|].
      clear -E. induction added as [|[s o] t IH]; cbn; [reflexivity|]. rewrite Nat.eqb_sym, E. exact IH.
  - rewrite app_length, map_length, IN.
    pose proof (sumf_upd (fun jb => length (row_of c jb)) j jb' jb (jobs g) Hj) as S. cbn beta in S. rewrite Hrow, app_length in S. lia.
Qed.

Lemma inv_update0 c g j jb jb' fr ph rc :
  Inv c g -> getj g j = Some jb -> JobOK c jb' ->
  fr + holds jb' = free g + holds jb ->
  (closed_phase ph = true -> closed_phase (phase g) = true /\ settled jb' = true) ->
  row_of c jb' = row_of c jb ->
  Inv c (setg g fr ph (upd j jb' (jobs g)) (rows g) rc).
Proof.
  intros I Hj Hok Hfr Hcl Hrow.
  pose proof (inv_update c g j jb jb' fr ph rc [] I Hj Hok Hfr Hcl) as P. cbn [map] in P. rewrite !app_nil_r in P.
  apply P. exact Hrow.
Qed.

Lemma getj_ok c g j jb : Inv c g -> getj g j = Some jb -> JobOK c jb.
Proof. intros [IJ _ _ _ _] H. eapply Forall_nth; eauto. Qed.

(* the job after each kind of event is well-formed *)
Lemma tj_acquire c jb : JobOK c jb -> jph jb = TQueued -> JobOK c (job_write jb RUNNING TWaiting).
Proof. intros OK E. pose proof (ok_phase _ _ OK) as P. unfold phase_ok in P. rewrite E in P. destruct P as (S & _ & _).
  apply jobok_write; [exact OK| rewrite S; reflexivity| reflexivity]. Qed.

Lemma tj_tell c jb : JobOK c jb -> jph jb = TWaiting -> JobOK c (job_write jb CANCELLING TCancelling).
Proof. intros OK E. pose proof (ok_phase _ _ OK) as P. unfold phase_ok in P. rewrite E in P.
  apply jobok_write; [exact OK| rewrite P; reflexivity| reflexivity]. Qed.

Lemma is_some_neq {A} (o : option A) : is_some o = true -> o <> None.
Proof. destruct o; [congruence| discriminate]. Qed.

Lemma tj_finish c jb : JobOK c jb -> jph jb = TWaiting -> is_some (jret jb) = true -> JobOK c (job_phase jb TFinished).
Proof. intros OK E R. pose proof (ok_phase _ _ OK) as P. unfold phase_ok in P. rewrite E in P.
  apply jobok_phase; [exact OK|]. unfold phase_ok. cbn. split; [auto| apply is_some_neq; exact R]. Qed.

Lemma tj_finishc c jb : JobOK c jb -> jph jb = TCancelling -> is_some (jret jb) = true -> JobOK c (job_write jb CANCELLED TFinished).
Proof. intros OK E R. pose proof (ok_phase _ _ OK) as P. unfold phase_ok in P. rewrite E in P.
  apply jobok_write; [exact OK| rewrite P; reflexivity|]. unfold phase_ok. cbn. split; [auto| apply is_some_neq; exact R]. Qed.

Lemma tj_collect c jb : JobOK c jb -> jph jb = TFinished -> JobOK c (collect_job jb).
Proof. intros OK E. pose proof (ok_phase _ _ OK) as P. unfold phase_ok in P. rewrite E in P. destruct P as [[S|S] R]; unfold collect_job; rewrite S; cbn.
  - apply jobok_write; [exact OK| rewrite S; reflexivity|]. unfold phase_ok. cbn. auto.
  - apply jobok_phase; [exact OK|]. unfold phase_ok. cbn. auto. Qed.

Lemma tj_kill c jb : JobOK c jb -> jph jb = TQueued \/ jph jb = TWaiting \/ jph jb = TCancelling -> JobOK c (job_write jb CANCELLED TKilled).
Proof. intros OK E. pose proof (ok_phase _ _ OK) as P. unfold phase_ok in P.
  apply jobok_write; [exact OK| | unfold phase_ok; cbn; auto].
  destruct E as [E|[E|E]]; rewrite E in P; [destruct P as (S & _)| |]; try rewrite S; try rewrite P; reflexivity. Qed.

Lemma tj_forgot c jb : JobOK c jb -> jph jb = TCancelling -> fixed c = false -> JobOK c (job_phase jb TKilled).
Proof. intros OK E F. pose proof (ok_phase _ _ OK) as P. unfold phase_ok in P. rewrite E in P.
  apply jobok_phase; [exact OK|]. unfold phase_ok. cbn. auto. Qed.

Lemma tj_start c jb : JobOK c jb -> jph jb = TWaiting \/ jph jb = TCancelling \/ jph jb = TKilled -> JobOK c (job_start jb).
Proof. intros [P R H] E. constructor; [|reflexivity| destruct H; constructor; assumption].
  unfold phase_ok in *. cbn. destruct E as [E|[E|E]]; rewrite E in *; exact P. Qed.

Lemma tj_ret c jb v pre : JobOK c jb -> jstarted jb = true -> JobOK c (job_ret jb v pre).
Proof. intros [P R H] E. constructor; [|intros _; exact E| destruct H; constructor; assumption].
  unfold phase_ok in *. cbn. destruct (jph jb); auto; try (destruct P as [A B]; split; [exact A| congruence]).
  destruct P as (_ & B & _). congruence. Qed.

Lemma in_gather_open g : in_gather g = true -> closed_phase (phase g) = false.
Proof. unfold in_gather. destruct (phase g); try discriminate; reflexivity. Qed.

Lemma inv_step c g e g' : Inv c g -> gstep c g e = Some g' -> Inv c g'.
Proof.
  intros I H.
  destruct e; step_inv H; unfold set_job, set_phase.
  all: try (apply inv_push; [exact I| reflexivity]).
  all: try (apply inv_setphase; [exact I| cbn; intros; try discriminate]).
  all: try (apply inv_flags; [exact I| cbn; intros; try discriminate]).
  all: try exact I.
  all: try assumption.
  all: try (apply (inv_closed _ _ I); first [assumption | rewrite E; reflexivity]).
  all: match goal with
  | Hj : getj ?g ?j = Some ?jb |- Inv ?c (setg ?g _ _ (upd ?j ?jb' _) (rows ?g) _) =>
      eapply (inv_update0 c g j jb jb'); [exact I| exact Hj| | | | ]
  | Hj : getj ?g ?j = Some ?jb |- Inv ?c (setg ?g _ _ (upd ?j ?jb' _) (rows ?g ++ [(?j, ?s, ?v)]) _) =>
      eapply (inv_update c g j jb jb' _ _ _ [(s, v)]); [exact I| exact Hj| | | | ]
  end.
  all: repeat match goal with Hb : _ && _ = true |- _ => apply andb_true_iff in Hb; destruct Hb end.
  all: match goal with Hj : getj ?g ?j = Some ?jb |- _ =>
         let OK := fresh "OK" in pose proof (getj_ok _ _ _ _ I Hj) as OK;
         let P := fresh "P" in pose proof (ok_phase _ _ OK) as P; unfold phase_ok in P end.
  (* the job stays well-formed *)
  all: try (first [apply tj_acquire | apply tj_tell | apply tj_finish | apply tj_finishc | apply tj_collect
                  | apply tj_kill | apply tj_forgot | apply tj_start | apply tj_ret]; solve [auto]).
  (* worker accounting *)
  all: try (unfold holds, collect_job; cbn [jph job_write job_phase job_start job_ret];
            repeat match goal with Hp : jph _ = _ |- _ => rewrite Hp in * end;
            try match goal with |- context [st_eqb ?a ?b] => destruct (st_eqb a b) end; cbn [jph job_write job_phase];
            try match goal with Hl : (0 <? _) = true |- _ => apply Nat.ltb_lt in Hl end; lia).
  (* closed phases *)
  all: try (intros Hc; discriminate Hc).
  all: try (intros Hc; match goal with Hin : in_gather _ = true |- _ => rewrite (in_gather_open _ Hin) in Hc; discriminate Hc end).
  all: try (intros Hc; split; [exact Hc|]; match goal with Hj : getj _ _ = Some _ |- _ => exact (forallb_nth _ _ _ _ (inv_closed _ _ I Hc) Hj) end).
  (* rows *)
  all: repeat match goal with Hp : jph _ = _ |- _ => rewrite Hp in P end.
  all: try (unfold row_of; cbn [jph jstat jret job_write job_phase job_start job_ret];
            repeat match goal with Hp : jph _ = _ |- _ => rewrite Hp end; reflexivity).
  - (* collect inside gather *)
    destruct P as [[S|S] R]; unfold row_of, collect_job, val_of; rewrite S; cbn; rewrite E1; reflexivity.
  - destruct P as [[S|S] R]; unfold row_of, collect_job, val_of; rewrite S; cbn; rewrite E1; reflexivity.
  - (* today's close() forgets a job in CANCELLING *)
    unfold row_of. cbn. rewrite E1, P. reflexivity.
  - (* the run-function returns: it has no row yet *)
    unfold row_of. cbn [jph jstat job_ret]. destruct (jph j0); try reflexivity.
    destruct P as [_ R]. destruct (jret j0); [discriminate| congruence].
Qed.

Theorem inv_run c : forall tr g g', Inv c g -> grun c g tr = Some g' -> Inv c g'.
Proof.
  induction tr as [|e t IH]; intros g g' I R; cbn [grun] in R; [injection R as <-; exact I|].
  destruct (gstep c g e) as [g1|] eqn:E; [|discriminate]. eapply IH; [eapply inv_step; eauto| exact R].
Qed.
