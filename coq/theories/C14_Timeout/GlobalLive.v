(* (e) No deadlock: from every state that satisfies the invariant (in particular every reachable one) there is a continuation
   in which search() returns; outside close() the continuation kills no job: the run-functions are started, return
   (after seeing CANCELLING when they were told to cancel), are finalised and collected.  The proof is a decreasing measure. *)
From Coq Require Import List ZArith Bool Arith Lia.
Import ListNotations.
Require Import DH.C14_Timeout.Model DH.C14_Timeout.Lemmas DH.C14_Timeout.Check DH.C14_Timeout.Global DH.C14_Timeout.GlobalBase
  DH.C14_Timeout.GlobalInv DH.C14_Timeout.GlobalRefine.

Definition rw (jb : job) : nat := match jret jb with Some _ => 0 | None => if jstarted jb then 1 else 2 end.
Definition weight (jb : job) : nat :=
  match jph jb with TQueued => 8 | TWaiting => 5 + rw jb | TCancelling => 2 + rw jb | TFinished => 1 | TGathered | TKilled => 0 end.
Definition mu (g : gst) : nat := sumf weight (jobs g).

Lemma mu_upd g fr ph rs rc j jb jb' : getj g j = Some jb -> weight jb' < weight jb -> mu (setg g fr ph (upd j jb' (jobs g)) rs rc) < mu g.
Proof. intros H W. unfold mu, setg. cbn [jobs]. pose proof (sumf_upd weight j jb' jb (jobs g) H). lia. Qed.

Lemma mu_zero_settled g : mu g = 0 -> all_settled g = true.
Proof.
  unfold mu, all_settled. intros H. apply forallb_forall. intros x Hx. destruct (In_nth_error _ _ Hx) as [n Hn].
  pose proof (sumf_zero weight _ H n x Hn) as W. unfold weight, settled in *. destruct (jph x); try reflexivity; lia.
Qed.

(* one step of progress inside gather *)
Lemma progress_in c g n : Inv c g -> phase g = PIn n -> 0 < workers g -> 0 < mu g ->
  exists e g' n', gstep c g e = Some g' /\ mu g' < mu g /\ phase g' = PIn n' /\ is_kill e = false.
Proof.
  intros I Ph W M.
  destruct (Nat.eq_dec (sumf holds (jobs g)) 0) as [Hz|Hz].
  - (* no job holds a worker: all workers are free; some job is queued or finished *)
    pose proof (inv_free _ _ I) as F. rewrite Hz in F.
    destruct (sumf_pos weight _ M) as (j & jb & Hj & Wj).
    pose proof (sumf_zero holds _ Hz j jb Hj) as Hh. unfold holds in Hh. unfold weight in Wj.
    destruct (jph jb) eqn:Ep; try lia.
    + exists (EAcquire j), (set_job g (pred (free g)) j (job_write jb RUNNING TWaiting)), n. split; [|split; [|split]].
      * cbn [gstep]. unfold in_gather. rewrite Ph. replace (0 <? free g) with true by (symmetry; apply Nat.ltb_lt; lia). cbn.
        unfold getj in *. rewrite Hj, Ep. reflexivity.
      * apply mu_upd with (jb := jb); [exact Hj|]. unfold weight. cbn. rewrite Ep. unfold rw. cbn. destruct (jret jb); [lia| destruct (jstarted jb); lia].
      * exact Ph.
      * reflexivity.
    + exists (ECollect j). eexists. exists (S n). split; [|split; [|split]].
      * cbn [gstep]. rewrite Ph. unfold getj in *. rewrite Hj, Ep. reflexivity.
      * apply mu_upd with (jb := jb); [exact Hj|]. unfold weight, collect_job. rewrite Ep. destruct (st_eqb (jstat jb) RUNNING); cbn; lia.
      * cbn. rewrite ?Ph. reflexivity.
      * reflexivity.
  - (* some job holds a worker: its run-function starts, returns, and it is finalised *)
    destruct (sumf_pos holds (jobs g)) as (j & jb & Hj & Hh); [lia|]. unfold holds in Hh.
    assert (IG : in_gather g = true) by (unfold in_gather; rewrite Ph; reflexivity).
    destruct (jret jb) as [v|] eqn:Er.
    + destruct (jph jb) eqn:Ep; try lia.
      * (* waiting, returned *)
        destruct (strict c && late g jb) eqn:El.
        -- exists (ETell j). eexists. exists n. split; [|split; [|split]].
           ++ cbn [gstep]. rewrite IG. apply andb_true_iff in El as [E1 E2].
              assert (B : budget_out g = true) by (unfold late in E2; apply andb_true_iff in E2 as [B _]; exact B).
              rewrite B. cbn. unfold getj in *. rewrite Hj, Ep, E1, E2. cbn. reflexivity.
           ++ apply mu_upd with (jb := jb); [exact Hj|]. unfold weight, rw. cbn. rewrite Ep, Er. lia.
           ++ exact Ph.
           ++ reflexivity.
        -- exists (EFinish j). eexists. exists n. split; [|split; [|split]].
           ++ cbn [gstep]. rewrite IG. unfold getj in *. rewrite Hj, Ep, Er, El. cbn. reflexivity.
           ++ apply mu_upd with (jb := jb); [exact Hj|]. unfold weight, rw. cbn. rewrite Ep, Er. lia.
           ++ exact Ph.
           ++ reflexivity.
      * exists (EFinishC j). eexists. exists n. split; [|split; [|split]].
        -- cbn [gstep]. rewrite IG. unfold getj in *. rewrite Hj, Ep, Er. cbn. reflexivity.
        -- apply mu_upd with (jb := jb); [exact Hj|]. unfold weight, rw. cbn. rewrite Ep, Er. lia.
        -- exact Ph.
        -- reflexivity.
    + destruct (jstarted jb) eqn:Es.
      * exists (ERet j 0%Z). eexists. exists n. split; [|split; [|split]].
        -- cbn [gstep]. unfold getj in *. rewrite Hj, Es, Er. cbn. reflexivity.
        -- apply mu_upd with (jb := jb); [exact Hj|]. unfold weight, rw. cbn. rewrite Er, Es. destruct (jph jb); lia.
        -- exact Ph.
        -- reflexivity.
      * exists (EStart j). eexists. exists n. split; [|split; [|split]].
        -- cbn [gstep]. unfold getj in *. rewrite Hj, Es. destruct (jph jb); try lia; reflexivity.
        -- apply mu_upd with (jb := jb); [exact Hj|]. unfold weight, rw. cbn. rewrite Er, Es. destruct (jph jb); lia.
        -- exact Ph.
        -- reflexivity.
Qed.

Lemma drain_in c : forall m g n, mu g <= m -> Inv c g -> phase g = PIn n -> 0 < workers g ->
  exists tr g' n', grun c g tr = Some g' /\ mu g' = 0 /\ phase g' = PIn n' /\ nokill tr = true /\ Inv c g'.
Proof.
  induction m as [|m IH]; intros g n Hm I Ph W.
  - exists [], g, n. split; [reflexivity|]. split; [lia|]. split; [exact Ph|]. split; [reflexivity| exact I].
  - destruct (Nat.eq_dec (mu g) 0) as [Z|Z]; [exists [], g, n; split; [reflexivity|]; split; [exact Z|]; split; [exact Ph|]; split; [reflexivity| exact I]|].
    destruct (progress_in c g n I Ph W ltac:(lia)) as (e & g1 & n1 & S1 & M1 & P1 & K1).
    assert (W1 : 0 < workers g1).
    { assert (workers g1 = workers g); [|lia]. clear -S1. destruct e; step_inv S1; reflexivity. }
    destruct (IH g1 n1 ltac:(lia) (inv_step c g e g1 I S1) P1 W1) as (tr & g' & n' & R & Z' & P' & K' & I').
    exists (e :: tr), g', n'. cbn [grun nokill forallb]. rewrite S1, K1. cbn. split; [exact R|]. split; [exact Z'|]. split; [exact P'|]. split; [exact K'| exact I'].
Qed.

(* inside close(): every unsettled job is collected or killed *)
Lemma progress_closing c g : Inv c g -> phase g = PClosing -> 0 < mu g ->
  exists e g', gstep c g e = Some g' /\ mu g' < mu g /\ phase g' = PClosing.
Proof.
  intros I Ph M. destruct (sumf_pos weight _ M) as (j & jb & Hj & Wj). unfold weight in Wj.
  destruct (jph jb) eqn:Ep; try lia.
  - exists (EKill j). eexists. split; [|split].
    + cbn [gstep]. rewrite Ph. unfold getj. rewrite Hj, Ep. reflexivity.
    + apply mu_upd with (jb := jb); [exact Hj|]. unfold weight. cbn. rewrite Ep. lia.
    + reflexivity.
  - exists (EKill j). eexists. split; [|split].
    + cbn [gstep]. rewrite Ph. unfold getj. rewrite Hj, Ep. reflexivity.
    + apply mu_upd with (jb := jb); [exact Hj|]. unfold weight. cbn. rewrite Ep. lia.
    + reflexivity.
  - destruct (fixed c) eqn:Fx.
    + exists (EKill j). eexists. split; [|split].
      * cbn [gstep]. rewrite Ph. unfold getj. rewrite Hj, Ep, Fx. reflexivity.
      * apply mu_upd with (jb := jb); [exact Hj|]. unfold weight. cbn. rewrite Ep. lia.
      * reflexivity.
    + exists (EKill j). eexists. split; [|split].
      * cbn [gstep]. rewrite Ph. unfold getj. rewrite Hj, Ep, Fx. reflexivity.
      * apply mu_upd with (jb := jb); [exact Hj|]. unfold weight. cbn. rewrite Ep. lia.
      * reflexivity.
  - exists (ECollect j). eexists. split; [|split].
    + cbn [gstep]. rewrite Ph. unfold getj. rewrite Hj, Ep. reflexivity.
    + apply mu_upd with (jb := jb); [exact Hj|]. unfold weight, collect_job. rewrite Ep. destruct (st_eqb (jstat jb) RUNNING); cbn; lia.
    + cbn. rewrite ?Ph. reflexivity.
Qed.

Lemma drain_closing c : forall m g, mu g <= m -> Inv c g -> phase g = PClosing ->
  exists tr g', grun c g tr = Some g' /\ mu g' = 0 /\ phase g' = PClosing.
Proof.
  induction m as [|m IH]; intros g Hm I Ph.
  - exists [], g. split; [reflexivity|]. split; [lia| exact Ph].
  - destruct (Nat.eq_dec (mu g) 0) as [Z|Z]; [exists [], g; split; [reflexivity|]; split; [exact Z| exact Ph]|].
    destruct (progress_closing c g I Ph ltac:(lia)) as (e & g1 & S1 & M1 & P1).
    destruct (IH g1 ltac:(lia) (inv_step c g e g1 I S1) P1) as (tr & g' & R & Z' & P').
    exists (e :: tr), g'. cbn [grun]. rewrite S1. auto.
Qed.

Lemma finish_from_closing c g : Inv c g -> phase g = PClosing -> exists tr g', grun c g tr = Some g' /\ phase g' = PDone.
Proof.
  intros I Ph. destruct (drain_closing c (mu g) g (le_n _) I Ph) as (tr & g1 & R & Z & P1).
  pose proof (mu_zero_settled g1 Z) as S.
  exists (tr ++ [ECloseOut; EReturn]). rewrite grun_app, R. cbn [grun gstep]. rewrite P1, S. cbn. eexists. split; reflexivity.
Qed.

(* from inside gather, without killing anything *)
Lemma finish_from_in c g n : Inv c g -> phase g = PIn n -> 0 < workers g ->
  exists tr g', grun c g tr = Some g' /\ phase g' = PDone /\ nokill tr = true.
Proof.
  intros I Ph W. destruct (drain_in c (mu g) g n (le_n _) I Ph W) as (tr & g1 & n1 & R & Z & P1 & K & I1).
  pose proof (mu_zero_settled g1 Z) as S.
  exists (tr ++ [EGatherOut; ETest; ECloseIn; ECloseOut; EReturn]). rewrite grun_app, R. cbn [grun gstep]. rewrite P1, S, orb_true_r. cbn.
  unfold all_settled in *. cbn. rewrite S. cbn. eexists. split; [reflexivity|]. split; [reflexivity|].
  unfold nokill in *. rewrite forallb_app, K. reflexivity.
Qed.

Theorem no_deadlock c g : Inv c g -> 0 < workers g ->
  exists tr g', grun c g tr = Some g' /\ phase g' = PDone /\ (phase g <> PClosing -> nokill tr = true).
Proof.
  intros I W. destruct (phase g) eqn:Ph.
  - (* between calls: enter gather *)
    destruct (gstep c g EGatherIn) as [g1|] eqn:E; [|cbn in E; rewrite Ph in E; discriminate].
    assert (P1 : phase g1 = PIn 0) by (cbn in E; rewrite Ph in E; injection E as <-; reflexivity).
    assert (W1 : workers g1 = workers g) by (cbn in E; rewrite Ph in E; injection E as <-; reflexivity).
    destruct (finish_from_in c g1 0 (inv_step c _ _ _ I E) P1 ltac:(lia)) as (tr & g' & R & D & K).
    exists (EGatherIn :: tr), g'. cbn [grun]. rewrite E. split; [exact R|]. split; [exact D|]. intros _. cbn. exact K.
  - destruct (finish_from_in c g c0 I Ph W) as (tr & g' & R & D & K). exists tr, g'. auto.
  - destruct (gstep c g ETest) as [g1|] eqn:E; [|cbn in E; rewrite Ph in E; discriminate].
    assert (P1 : phase g1 = POut) by (cbn in E; rewrite Ph in E; injection E as <-; reflexivity).
    assert (W1 : workers g1 = workers g) by (cbn in E; rewrite Ph in E; injection E as <-; reflexivity).
    pose proof (inv_step c _ _ _ I E) as I1.
    destruct (gstep c g1 EGatherIn) as [g2|] eqn:E2; [|cbn in E2; rewrite P1 in E2; discriminate].
    assert (P2 : phase g2 = PIn 0) by (cbn in E2; rewrite P1 in E2; injection E2 as <-; reflexivity).
    assert (W2 : workers g2 = workers g1) by (cbn in E2; rewrite P1 in E2; injection E2 as <-; reflexivity).
    destruct (finish_from_in c g2 0 (inv_step c _ _ _ I1 E2) P2 ltac:(lia)) as (tr & g' & R & D & K).
    exists (ETest :: EGatherIn :: tr), g'. cbn [grun]. rewrite E, E2. split; [exact R|]. split; [exact D|]. intros _. cbn. exact K.
  - destruct (finish_from_closing c g I Ph) as (tr & g' & R & D). exists tr, g'. split; [exact R|]. split; [exact D|]. intros X. contradiction X. reflexivity.
  - exists [EReturn]. eexists. cbn [grun gstep]. rewrite Ph. split; [reflexivity|]. split; [reflexivity|]. intros _. reflexivity.
  - exists [], g. split; [reflexivity|]. split; [exact Ph|]. intros _. reflexivity.
Qed.

Theorem reachable_no_deadlock c w b tr g : 0 < w -> grun c (ginit w b) tr = Some g ->
  exists tr' g', grun c g tr' = Some g' /\ phase g' = PDone /\ (phase g <> PClosing -> nokill tr' = true).
Proof.
  intros W R. apply no_deadlock; [exact (inv_run c tr _ _ (inv_init c w b) R)|].
  assert (H : forall tr g g', grun c g tr = Some g' -> workers g' = workers g).
  { induction tr0 as [|e t IH]; intros ga gb Ra; cbn [grun] in Ra; [injection Ra as <-; reflexivity|].
    destruct (gstep c ga e) as [gc|] eqn:E; [|discriminate]. rewrite (IH gc gb Ra). clear -E. destruct e; step_inv E; reflexivity. }
  rewrite (H tr _ _ R). exact W.
Qed.
