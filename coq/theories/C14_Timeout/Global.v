(* GLOBAL executable model of a timed search / evaluator  -  NO proofs here.

   Code modelled (src/deephyper):
     evaluator/_evaluator.py   submit/_create_tasks (_on_launch: status READY, one asyncio task per job), gather
                               (run_until_complete(_await_at_least_n_tasks); process_local_tasks_done -> _on_done: RUNNING -> DONE,
                               one row per job in jobs_done), close (cancel every task; READY/RUNNING jobs -> CANCELLED, output F_CANCELLED),
                               timeout setter / time_left
     evaluator/_serial.py, _thread_pool.py, _process_pool.py, _loky.py   execute():
                               async with sem: status RUNNING; start the run-function; wait_for(shield(run), time_left);
                               on TimeoutError status CANCELLING, await the run-function, status CANCELLED; _update_job_when_done
     hpo/_search.py            search(): evaluator.timeout = timeout; _search loop (submit a batch, gather, dump, tell, stop when
                               time_left <= 0); drain (gather ALL until everything is gathered); close; evaluator.timeout = None

   The state is global: all jobs (status in the storage, position of the job's execute() task, run-function started /
   returned value), the free worker slots of the semaphore, the time budget (set?, exhausted?), the phase of the main thread,
   the rows of the results.  The EVENTS are chosen by the environment / the schedulers (asyncio loop, thread pool, clock);
   [gstep] says which events the code allows in a state and what they do.  Every event touches at most one job.

   Two switches:
     strict  - the deadline is sharp: after [EExpire] a waiting job whose run-function had not returned before it can only be
               told to cancel (wait_for's timeout wins), one that had returned can only complete normally.
               strict = false additionally allows both outcomes for a job finishing around the deadline (what real runs show).
     fixed   - close() also reports jobs in CANCELLING (proposed repair F53); fixed = false is today's close(). *)
From Coq Require Import List ZArith Bool Arith.
Import ListNotations.
Require Import DH.C14_Timeout.Model DH.C14_Timeout.Check.

(* where the execute() task of a job stands *)
Inductive tphase :=
  | TQueued       (* task created, waiting for the event loop / the semaphore *)
  | TWaiting      (* holds a worker: RUNNING written, run-function launched, inside wait_for (or the plain await) *)
  | TCancelling   (* TimeoutError caught: CANCELLING written, awaiting the run-function *)
  | TFinished     (* execute() returned (output set, worker released); the task waits to be collected by gather *)
  | TGathered     (* process_local_tasks_done: _on_done called, row in jobs_done *)
  | TKilled.      (* task cancelled by close() before it finished *)

(* where the main thread stands *)
Inductive lphase :=
  | POut               (* between calls: may submit, enter gather, or close *)
  | PIn (c : nat)      (* inside gather (the event loop runs); c jobs collected by this call so far *)
  | PTest              (* gather returned; dump, tell, then the stop test *)
  | PClosing           (* inside close(): every task has been cancelled *)
  | PClosed            (* close() returned *)
  | PDone.             (* search() returned *)

Inductive budget := BSearch (* search(timeout=T) *) | BEval (* evaluator.timeout = T set by the caller *).

Record job := mkJob {
  jstat : st;                (* status in the storage *)
  jph : tphase;
  jstarted : bool;         (* the run-function has begun *)
  jret : option Z;         (* the value the run-function returned *)
  jpre : bool;             (* ghost: it returned while the budget was not exhausted *)
  jhist : list st }.       (* ghost: every status written, in order *)

Record gst := mkG {
  workers : nat; free : nat;
  timed : bool;            (* evaluator.timeout is not None *)
  expired : bool;          (* the budget set last has run out (time_left <= 0 while it is set) *)
  calltimed : bool;        (* the running search() call was given timeout=: it resets the budget after close *)
  stopped : bool;          (* Search.stopped set by the time test *)
  phase : lphase;
  jobs : list job;         (* job id = position *)
  rows : list (nat * st * Z);
  races : nat }.           (* ghost: finalisations against the order of the deadline (possible with strict = false only) *)

Record cfg := mkCfg { strict : bool; fixed : bool; fc : Z (* code of the F_CANCELLED output *) }.

Inductive ev :=
  (* main thread *)
  | ESubmit                       (* evaluator.submit creates the next job: status READY, task queued *)
  | EGatherIn | EGatherOut | ETest
  | ECloseIn | ECloseOut | EReturn
  | EAgain (b : option budget)    (* another search() call / a budget (re)armed between calls: Some b = a new budget, None = budget untouched *)
  (* event loop: the execute() task of job j *)
  | EAcquire (j : nat)            (* gets a worker: status RUNNING, run-function launched *)
  | ETell (j : nat)               (* wait_for raised TimeoutError: status CANCELLING *)
  | EFinish (j : nat)             (* wait_for returned normally: execute returns, worker released (status stays RUNNING) *)
  | EFinishC (j : nat)            (* the awaited run-function returned after CANCELLING: status CANCELLED, execute returns *)
  | ECollect (j : nat)            (* process_local_tasks_done: _on_done (RUNNING -> DONE), row *)
  | EKill (j : nat)               (* close(): the cancelled task's job is reported CANCELLED with the failure output *)
  (* run-function of job j (worker thread / process / coroutine) *)
  | EStart (j : nat) | EPoll (j : nat) | ERet (j : nat) (v : Z)
  (* clock *)
  | EExpire                       (* the budget is exhausted from here on *)
  | ESentinel                     (* harness: logged after the deadline *)
  | ESentinel0.                   (* harness: logged well before the deadline *)

(* ---------- small helpers ---------- *)
Fixpoint upd {A} (n : nat) (x : A) (l : list A) : list A :=
  match l, n with
  | [], _ => []
  | _ :: t, O => x :: t
  | a :: t, S n' => a :: upd n' x t
  end.

Definition getj (g : gst) (j : nat) : option job := nth_error (jobs g) j.

Definition new_job : job := mkJob READY TQueued false None false [READY].
Definition job_write (jb : job) (s : st) (p : tphase) : job :=
  mkJob s p (jstarted jb) (jret jb) (jpre jb) (jhist jb ++ [s]).
Definition job_phase (jb : job) (p : tphase) : job :=
  mkJob (jstat jb) p (jstarted jb) (jret jb) (jpre jb) (jhist jb).
Definition job_start (jb : job) : job := mkJob (jstat jb) (jph jb) true (jret jb) (jpre jb) (jhist jb).
Definition job_ret (jb : job) (v : Z) (pre : bool) : job := mkJob (jstat jb) (jph jb) (jstarted jb) (Some v) pre (jhist jb).
Definition collect_job (jb : job) : job :=
  if st_eqb (jstat jb) RUNNING then job_write jb DONE TGathered else job_phase jb TGathered.

(* state updates: worker count, phase, jobs, rows *)
Definition setg (g : gst) (fr : nat) (ph : lphase) (js : list job) (rs : list (nat * st * Z)) (rc : nat) : gst :=
  mkG (workers g) fr (timed g) (expired g) (calltimed g) (stopped g) ph js rs rc.
Definition set_phase (g : gst) (ph : lphase) : gst := setg g (free g) ph (jobs g) (rows g) (races g).
Definition set_job (g : gst) (fr : nat) (j : nat) (jb : job) : gst := setg g fr (phase g) (upd j jb (jobs g)) (rows g) (races g).
Definition set_flags (g : gst) (ti ex ct sp : bool) (ph : lphase) : gst :=
  mkG (workers g) (free g) ti ex ct sp ph (jobs g) (rows g) (races g).

Definition settled (jb : job) : bool := match jph jb with TGathered | TKilled => true | _ => false end.
Definition all_settled (g : gst) : bool := forallb settled (jobs g).
Definition in_gather (g : gst) : bool := match phase g with PIn _ => true | _ => false end.
Definition is_some {A} (o : option A) : bool := match o with Some _ => true | None => false end.
Definition budget_out (g : gst) : bool := timed g && expired g.

(* the run-function was (or will be) still running when the budget ran out: only the TimeoutError branch is left *)
Definition late (g : gst) (jb : job) : bool :=
  budget_out g && match jret jb with None => true | Some _ => negb (jpre jb) end.

Definition bump (ph : lphase) : lphase := match ph with PIn n => PIn (S n) | p => p end.
Definition val_of (c : cfg) (jb : job) : Z := match jret jb with Some v => v | None => fc c end.

Definition gstep (c : cfg) (g : gst) (e : ev) : option gst :=
  match e with
  | ESubmit =>
      match phase g with
      | POut => if stopped g then None else Some (setg g (free g) POut (jobs g ++ [new_job]) (rows g) (races g))
      | _ => None
      end
  | EGatherIn => match phase g with POut => Some (set_phase g (PIn 0)) | _ => None end
  | EGatherOut =>
      (* gather("BATCH", 1) returns once a task completed, gather("ALL") when all did; with nothing in flight at once *)
      match phase g with
      | PIn n => if (0 <? n) || all_settled g then Some (set_phase g PTest) else None
      | _ => None
      end
  | ETest =>
      match phase g with
      | PTest => Some (set_flags g (timed g) (expired g) (calltimed g) (stopped g || budget_out g) POut)
      | _ => None
      end
  | ECloseIn => match phase g with POut => Some (set_phase g PClosing) | _ => None end
  | ECloseOut =>
      match phase g with
      | PClosing =>
          if all_settled g
          then Some (set_flags g (timed g && negb (calltimed g)) (expired g) (calltimed g) (stopped g) PClosed)
               (* a search(timeout=) call ends with evaluator.timeout = None; [expired] keeps telling whether the budget of the
                  last call ran out, until the next budget is set *)
          else None
      | _ => None
      end
  | EReturn => match phase g with PClosed => Some (set_phase g PDone) | _ => None end
  | EAgain b =>
      (* another search() call after the previous one returned - or, between calls of an evaluator that was not closed and
         while no job is in flight, a budget (re)armed with `evaluator.timeout = t` / a search(timeout=) call on an evaluator
         that has its own budget: the setter restarts the clock, whatever budget was set before *)
      let g' := set_flags g (match b with Some _ => true | None => timed g end)
                            (match b with Some _ => false | None => expired g end)
                            (match b with Some BSearch => true | _ => false end) false POut in
      match phase g with
      | PDone => Some g'
      | POut => if all_settled g then Some g' else None
      | _ => None
      end
  | EAcquire j =>
      if in_gather g && (0 <? free g) then
        match getj g j with
        | Some jb => match jph jb with
                     | TQueued => Some (set_job g (pred (free g)) j (job_write jb RUNNING TWaiting))
                     | _ => None
                     end
        | None => None
        end
      else None
  | ETell j =>
      if in_gather g && budget_out g then
        match getj g j with
        | Some jb => match jph jb with
                     | TWaiting =>
                         if strict c && negb (late g jb) then None
                         else Some (setg g (free g) (phase g) (upd j (job_write jb CANCELLING TCancelling) (jobs g)) (rows g)
                                         (races g + if late g jb then 0 else 1))
                     | _ => None
                     end
        | None => None
        end
      else None
  | EFinish j =>
      if in_gather g then
        match getj g j with
        | Some jb => match jph jb with
                     | TWaiting =>
                         if is_some (jret jb) && negb (strict c && late g jb)
                         then Some (setg g (S (free g)) (phase g) (upd j (job_phase jb TFinished) (jobs g)) (rows g)
                                         (races g + if late g jb then 1 else 0))
                         else None
                     | _ => None
                     end
        | None => None
        end
      else None
  | EFinishC j =>
      if in_gather g then
        match getj g j with
        | Some jb => match jph jb with
                     | TCancelling => if is_some (jret jb) then Some (set_job g (S (free g)) j (job_write jb CANCELLED TFinished)) else None
                     | _ => None
                     end
        | None => None
        end
      else None
  | ECollect j =>
      match phase g with
      | PIn _ | PClosing =>
          match getj g j with
          | Some jb => match jph jb with
                       | TFinished =>
                           Some (setg g (free g) (bump (phase g)) (upd j (collect_job jb) (jobs g))
                                      (rows g ++ [(j, jstat (collect_job jb), val_of c jb)]) (races g))
                       | _ => None
                       end
          | None => None
          end
      | _ => None
      end
  | EKill j =>
      match phase g with
      | PClosing =>
          match getj g j with
          | Some jb =>
              match jph jb with
              | TQueued => Some (setg g (free g) PClosing (upd j (job_write jb CANCELLED TKilled) (jobs g)) (rows g ++ [(j, CANCELLED, fc c)]) (races g))
              | TWaiting => Some (setg g (S (free g)) PClosing (upd j (job_write jb CANCELLED TKilled) (jobs g)) (rows g ++ [(j, CANCELLED, fc c)]) (races g))
              | TCancelling =>
                  if fixed c
                  then Some (setg g (S (free g)) PClosing (upd j (job_write jb CANCELLED TKilled) (jobs g)) (rows g ++ [(j, CANCELLED, fc c)]) (races g))
                  else Some (setg g (S (free g)) PClosing (upd j (job_phase jb TKilled) (jobs g)) (rows g) (races g))   (* today: forgotten *)
              | _ => None
              end
          | None => None
          end
      | _ => None
      end
  | EStart j =>
      match getj g j with
      | Some jb => match jph jb with
                   | TWaiting | TCancelling => if jstarted jb then None else Some (set_job g (free g) j (job_start jb))
                   | TKilled =>
                       (* close() gave up a job that had a worker: its run-function was handed to the pool and cannot be recalled,
                          it may still begin (thread / process backends); a job killed while queued was never launched *)
                       if mem_st RUNNING (jhist jb) && negb (jstarted jb) then Some (set_job g (free g) j (job_start jb)) else None
                   | _ => None
                   end
      | None => None
      end
  | EPoll j =>
      match getj g j with
      | Some jb => if jstarted jb && negb (is_some (jret jb)) then Some g else None
      | None => None
      end
  | ERet j v =>
      match getj g j with
      | Some jb => if jstarted jb && negb (is_some (jret jb)) then Some (set_job g (free g) j (job_ret jb v (negb (budget_out g)))) else None
      | None => None
      end
  | EExpire => if timed g && negb (expired g) then Some (set_flags g (timed g) true (calltimed g) (stopped g) (phase g)) else None
  | ESentinel => Some g
  | ESentinel0 => if expired g then None else Some g   (* the budget set last has not run out yet *)
  end.

(* what the harness observes of an event (status writes, run-function start / poll / return, the sentinels) *)
Definition obs (c : cfg) (g : gst) (e : ev) : list gev :=
  match e with
  | ESubmit => [J (length (jobs g)) (W READY)]
  | EAcquire j => [J j (W RUNNING)]
  | ETell j => [J j (W CANCELLING)]
  | EFinishC j => [J j (W CANCELLED)]
  | ECollect j => match getj g j with
                  | Some jb => if st_eqb (jstat jb) RUNNING then [J j (W DONE)] else []
                  | None => []
                  end
  | EKill j => match getj g j with
               | Some jb => match jph jb with
                            | TCancelling => if fixed c then [J j (W CANCELLED)] else []
                            | _ => [J j (W CANCELLED)]
                            end
               | None => []
               end
  | EStart j => [J j FStart]
  | EPoll j => match getj g j with Some jb => [J j (Poll (jstat jb))] | None => [] end
  | ERet j _ => [J j FReturn]
  | ESentinel => [Sentinel]
  | _ => []
  end.

Fixpoint grun (c : cfg) (g : gst) (tr : list ev) : option gst :=
  match tr with
  | [] => Some g
  | e :: t => match gstep c g e with Some g' => grun c g' t | None => None end
  end.

(* the observation trace of a run *)
Fixpoint otrace (c : cfg) (g : gst) (tr : list ev) : list gev :=
  match tr with
  | [] => []
  | e :: t => obs c g e ++ match gstep c g e with Some g' => otrace c g' t | None => [] end
  end.

Definition ginit (w : nat) (b : option budget) : gst :=
  mkG w w (is_some b) false (match b with Some BSearch => true | _ => false end) false POut [] [] 0.

Definition is_kill (e : ev) : bool := match e with EKill _ => true | _ => false end.
Definition is_again (e : ev) : bool := match e with EAgain _ => true | _ => false end.
Definition is_submit (e : ev) : bool := match e with ESubmit => true | _ => false end.
Definition nokill (tr : list ev) : bool := forallb (fun e => negb (is_kill e)) tr.
Definition noagain (tr : list ev) : bool := forallb (fun e => negb (is_again e)) tr.

(* the values returned, as the harness collects them *)
Fixpoint vals_from (n : nat) (js : list job) : list (nat * Z) :=
  match js with
  | [] => []
  | jb :: t => match jret jb with Some v => (n, v) :: vals_from (S n) t | None => vals_from (S n) t end
  end.
Definition vals_of (g : gst) : list (nat * Z) := vals_from 0 (jobs g).

(* the per-job view used by the refinement: the state of the per-job automaton of Model.v *)
Definition abs_job (jb : job) : jst := mkJ (Some (jstat jb)) (jstarted jb) (is_some (jret jb)) (jhist jb).
Definition abs (g : gst) (j : nat) : jst := match getj g j with Some jb => abs_job jb | None => jinit end.
