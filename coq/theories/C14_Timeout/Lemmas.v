From Coq Require Import List ZArith Bool Arith Lia.
Import ListNotations.
Require Import DH.C14_Timeout.Model.

Lemma st_eqb_eq a b : st_eqb a b = true <-> a = b.
Proof. destruct a, b; cbn; split; intros H; try reflexivity; try discriminate. Qed.

Lemma jrun_app : forall tr1 tr2 s s', jrun s (tr1 ++ tr2) = Some s' -> exists s1, jrun s tr1 = Some s1 /\ jrun s1 tr2 = Some s'.
Proof.
  induction tr1 as [|e t IH]; intros tr2 s s' R; cbn [app jrun] in *; [exists s; auto|].
  destruct (jstep s e) as [s1|]; [|discriminate]. apply IH. exact R.
Qed.

Lemma step_facts s e s' : jstep s e = Some s' ->
  writes s' = writes s ++ ws_of [e] /\ returned s' = returned s || is_return e.
Proof.
  destruct e as [x| |x|]; cbn [jstep ws_of is_return]; intros H.
  - destruct (cur s) as [c|].
    + match type of H with (if ?b then _ else _) = _ => destruct b; [|discriminate] end. injection H as <-. cbn. rewrite orb_false_r. auto.
    + destruct x; try discriminate. injection H as <-. cbn. rewrite orb_false_r. auto.
  - destruct (cur s) as [[]|]; try discriminate; destruct (started s); try discriminate; injection H as <-; cbn; rewrite app_nil_r, orb_false_r; auto.
  - destruct (cur s) as [c|]; [|discriminate]. destruct (started s && negb (returned s) && st_eqb c x); [|discriminate].
    injection H as <-. rewrite app_nil_r, orb_false_r. auto.
  - destruct (cur s) as [[]|]; try discriminate; destruct (started s && negb (returned s)); try discriminate; injection H as <-; cbn; rewrite app_nil_r, orb_true_r; auto.
Qed.

Lemma run_facts : forall tr s s', jrun s tr = Some s' ->
  writes s' = writes s ++ ws_of tr /\ returned s' = returned s || existsb is_return tr.
Proof.
  induction tr as [|e t IH]; intros s s' R; cbn [jrun] in R.
  - injection R as <-. cbn. rewrite app_nil_r, orb_false_r. auto.
  - destruct (jstep s e) as [s1|] eqn:E; [|discriminate]. destruct (step_facts _ _ _ E) as [A B]. destruct (IH _ _ R) as [C D].
    rewrite C, A, D, B. cbn [existsb]. rewrite <- app_assoc, orb_assoc. split; [|reflexivity].
    f_equal. destruct e; reflexivity.
Qed.

(* ---------- invariant of accepted traces ---------- *)
Definition last_st (l : list st) : option st := match rev l with [] => None | x :: _ => Some x end.

Record JInv (s : jst) : Prop := {
  j_cur : cur s = last_st (writes s);
  j_path : is_path (writes s) = true;
  j_ready : starts_ready (writes s) = true }.

Lemma last_st_snoc l x : last_st (l ++ [x]) = Some x.
Proof. unfold last_st. rewrite rev_app_distr. reflexivity. Qed.

Lemma last_st_cons a b t : last_st (a :: b :: t) = last_st (b :: t).
Proof. unfold last_st. cbn [rev]. destruct (rev t ++ [b]) eqn:E; [destruct (rev t); discriminate| reflexivity]. Qed.

Lemma is_path_snoc : forall l c x, last_st l = Some c -> is_path l = true -> edge c x = true -> is_path (l ++ [x]) = true.
Proof.
  induction l as [|a l IH]; intros c x Hl Hp He; [discriminate|].
  destruct l as [|b t].
  - cbn in Hl. injection Hl as ->. cbn. rewrite He. reflexivity.
  - rewrite last_st_cons in Hl. cbn [app is_path] in *. apply andb_true_iff in Hp as [E1 E2]. rewrite E1. cbn [andb].
    apply (IH c x); assumption.
Qed.

Lemma jinv_init : JInv jinit.
Proof. constructor; reflexivity. Qed.

Lemma jinv_step s e s' : JInv s -> jstep s e = Some s' -> JInv s'.
Proof.
  intros [Hc Hp Hr] H. destruct e as [x| |x|]; cbn [jstep] in H.
  - destruct (cur s) as [c|] eqn:Ec.
    + match type of H with (if ?b then _ else _) = _ => destruct b eqn:Eok; [|discriminate] end.
      injection H as <-.
      assert (He : edge c x = true) by (destruct c, x; try discriminate; reflexivity).
      constructor; cbn [cur started returned writes].
      * rewrite last_st_snoc. reflexivity.
      * apply (is_path_snoc _ c x); [rewrite <- Hc; reflexivity| exact Hp| exact He].
      * destruct (writes s) as [|a t]; [cbn in Hc; discriminate| exact Hr].
    + destruct x; try discriminate. injection H as <-.
      assert (Hw : writes s = []). { destruct (writes s) as [|a t] eqn:E; [reflexivity|]. exfalso. rewrite <- E in Hc.
        unfold last_st in Hc. destruct (rev (writes s)) eqn:E2; [|discriminate]. apply (f_equal (@rev st)) in E2. rewrite rev_involutive in E2. rewrite E in E2. discriminate. }
      constructor; cbn [cur writes]; rewrite Hw; reflexivity.
  - destruct (cur s) as [[]|] eqn:Ec; try discriminate; destruct (started s); try discriminate; injection H as <-; constructor; assumption.
  - destruct (cur s) as [c|] eqn:Ec; [|discriminate]. destruct (started s && negb (returned s) && st_eqb c x); [|discriminate].
    injection H as <-. constructor; rewrite ?Ec; assumption.
  - destruct (cur s) as [[]|] eqn:Ec; try discriminate; destruct (started s && negb (returned s)); try discriminate; injection H as <-; constructor; assumption.
Qed.

Theorem jinv_run : forall tr s s', JInv s -> jrun s tr = Some s' -> JInv s'.
Proof.
  induction tr as [|e t IH]; intros s s' H R; cbn [jrun] in R; [injection R as <-; exact H|].
  destruct (jstep s e) as [s1|] eqn:E; [|discriminate]. eapply IH; [eapply jinv_step; eauto| exact R].
Qed.

(* ---------- forward only; terminal once ---------- *)
Theorem forward_only tr s' : jrun jinit tr = Some s' ->
  ws_of tr = writes s' /\ is_path (ws_of tr) = true /\ starts_ready (ws_of tr) = true.
Proof.
  intros R. destruct (jinv_run tr jinit s' jinv_init R) as [_ Hp Hr]. destruct (run_facts _ _ _ R) as [A _]. cbn in A. rewrite A in *. auto.
Qed.

Theorem terminal_is_final s c x : cur s = Some c -> terminal c = true -> jstep s (W x) = None.
Proof. intros Ec Ht. cbn [jstep]. rewrite Ec. destruct c, x; try discriminate; reflexivity. Qed.

(* ---------- what the run-function sees: the status written last ---------- *)
Theorem poll_sees_last_write tr1 x tr2 s' : jrun jinit (tr1 ++ Poll x :: tr2) = Some s' -> last_st (ws_of tr1) = Some x.
Proof.
  intros R. apply jrun_app in R as (s1 & R1 & R2). cbn [jrun] in R2.
  destruct (jstep s1 (Poll x)) as [s2|] eqn:E; [|discriminate]. cbn [jstep] in E.
  destruct (cur s1) as [c|] eqn:Ec; [|discriminate].
  destruct (started s1 && negb (returned s1) && st_eqb c x) eqn:B; [|discriminate].
  apply andb_true_iff in B as [_ B]. apply st_eqb_eq in B. subst c.
  destruct (jinv_run _ _ _ jinv_init R1) as [Hc _ _]. destruct (run_facts _ _ _ R1) as [A _]. cbn in A. rewrite A in Hc. congruence.
Qed.

(* the value is kept: DONE, and CANCELLED after CANCELLING, are only written once the run-function has returned *)
Theorem done_needs_return tr1 tr2 s' : jrun jinit (tr1 ++ W DONE :: tr2) = Some s' -> existsb is_return tr1 = true.
Proof.
  intros R. apply jrun_app in R as (s1 & R1 & R2). cbn [jrun jstep] in R2.
  destruct (run_facts _ _ _ R1) as [_ B]. cbn in B. rewrite <- B.
  destruct (cur s1) as [[]|]; try discriminate. destruct (returned s1); [reflexivity|discriminate].
Qed.

Theorem cancelled_after_cancelling_needs_return tr1 tr2 s' :
  jrun jinit (tr1 ++ W CANCELLED :: tr2) = Some s' -> last_st (ws_of tr1) = Some CANCELLING -> existsb is_return tr1 = true.
Proof.
  intros R L. apply jrun_app in R as (s1 & R1 & R2). cbn [jrun jstep] in R2.
  destruct (run_facts _ _ _ R1) as [A B]. cbn in A, B. rewrite <- B.
  destruct (jinv_run _ _ _ jinv_init R1) as [Hc _ _]. rewrite A, L in Hc. rewrite Hc in R2.
  destruct (returned s1); [reflexivity|discriminate].
Qed.

(* ---------- a job that was told to cancel never ends DONE ---------- *)
Lemma is_path_suffix : forall l1 l2, is_path (l1 ++ l2) = true -> is_path l2 = true.
Proof.
  induction l1 as [|a l1 IH]; intros l2 H; [exact H|]. apply IH. cbn [app] in H.
  destruct (l1 ++ l2) as [|b t] eqn:E; [reflexivity|]. cbn [is_path] in H. apply andb_true_iff in H. tauto.
Qed.

Lemma path_from_cancelling t : is_path (CANCELLING :: t) = true -> t = [] \/ t = [CANCELLED].
Proof.
  destruct t as [|b t]; [auto|]. cbn [is_path]. intros H. apply andb_true_iff in H as [E P]. destruct b; try discriminate.
  right. destruct t as [|c t]; [reflexivity|]. cbn [is_path] in P. apply andb_true_iff in P as [E2 _]. destruct c; discriminate.
Qed.

Lemma path_from_done t : is_path (DONE :: t) = true -> t = [].
Proof. destruct t as [|b t]; [auto|]. cbn [is_path]. intros H. apply andb_true_iff in H as [E _]. destruct b; discriminate. Qed.

Theorem cancelling_excludes_done w : is_path w = true -> In CANCELLING w -> ~ In DONE w.
Proof.
  intros Hp Hc Hd. apply in_split in Hc as (l1 & l2 & ->).
  pose proof (is_path_suffix _ _ Hp) as P2. apply path_from_cancelling in P2.
  apply in_app_or in Hd as [Hd|Hd].
  - apply in_split in Hd as (m1 & m2 & ->). rewrite <- app_assoc in Hp. cbn [app] in Hp.
    apply is_path_suffix in Hp. apply path_from_done in Hp. destruct m2; discriminate.
  - destruct Hd as [E|Hd]; [discriminate|]. destruct P2 as [->| ->]; [destruct Hd| destruct Hd as [E|[]]; discriminate].
Qed.
