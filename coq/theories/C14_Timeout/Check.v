(* Oracle over an OBSERVED run: global trace of per-job events (+ one sentinel placed by the harness well after the
   deadline), the values the run-functions returned, and the rows of the results table. *)
From Coq Require Import List ZArith Bool Arith.
Import ListNotations.
Require Import DH.C14_Timeout.Model.

Inductive gev := J (j : nat) (e : jev) | Sentinel.

Fixpoint proj (j : nat) (tr : list gev) : list jev :=
  match tr with
  | [] => []
  | J k e :: t => if Nat.eqb j k then e :: proj j t else proj j t
  | Sentinel :: t => proj j t
  end.

(* Two sentinels are placed by the harness: S1 shortly after the deadline, S2 well after it.
   seg1 = events before S1, seg12 = events before S2.  A job that started before S1 and has not returned before S2 was
   running across the deadline: it must have been told to cancel (CANCELLING written) before S2. *)
Fixpoint before_sentinel (tr : list gev) : list gev :=
  match tr with [] => [] | Sentinel :: _ => [] | e :: t => e :: before_sentinel t end.
Fixpoint after_sentinel (tr : list gev) : option (list gev) :=
  match tr with [] => None | Sentinel :: t => Some t | _ :: t => after_sentinel t end.
Definition occurs (j : nat) (f : jev -> bool) (tr : list gev) : bool :=
  existsb (fun e => match e with J k x => Nat.eqb j k && f x | Sentinel => false end) tr.
Definition is_start (e : jev) : bool := match e with FStart => true | _ => false end.
Definition is_wcancelling (e : jev) : bool := match e with W CANCELLING => true | _ => false end.

(* straddles: both sentinels were logged, started before S1, not returned before S2 *)
Definition straddles (j : nat) (tr : list gev) : bool :=
  match after_sentinel tr with
  | None => false
  | Some rest =>
    match after_sentinel rest with
    | None => false
    | Some _ => occurs j is_start (before_sentinel tr)
                && negb (occurs j is_return (before_sentinel tr ++ before_sentinel rest))
    end
  end.
Definition told_before_s2 (j : nat) (tr : list gev) : bool :=
  match after_sentinel tr with
  | None => false
  | Some rest => occurs j is_wcancelling (before_sentinel tr ++ before_sentinel rest)
  end.

(* born after S2: both sentinels were logged and the job's first event of any kind (its READY write included) comes after
   the second one: it was submitted long after the expiry, when the search had to have returned already *)
Definition any_ev (j : nat) (tr : list gev) : bool := occurs j (fun _ => true) tr.
Definition born_after_s2 (j : nat) (tr : list gev) : bool :=
  match after_sentinel tr with
  | None => false
  | Some rest =>
    match after_sentinel rest with
    | None => false
    | Some rest2 => negb (any_ev j (before_sentinel tr ++ before_sentinel rest)) && any_ev j rest2
    end
  end.

Fixpoint lookup_row (j : nat) (t : list (nat * st * Z)) : list (st * Z) :=
  match t with [] => [] | (k, s, o) :: r => if Nat.eqb j k then (s, o) :: lookup_row j r else lookup_row j r end.
Fixpoint lookup_val (j : nat) (v : list (nat * Z)) : option Z :=
  match v with [] => None | (k, x) :: r => if Nat.eqb j k then Some x else lookup_val j r end.

Definition mem_st (x : st) (l : list st) : bool := existsb (st_eqb x) l.

(* clause for job j: 0 ok; 1 illegal event order / a poll saw something else than the status written last; 2 no terminal status;
   3 not exactly one row; 4 row status differs from the last status written; 5 returned value not kept;
   6 still running well after the deadline without ever seeing CANCELLING; 7 told to cancel but reported DONE;
   9 submitted well after the deadline *)
Definition ok_job (tr : list gev) (vals : list (nat * Z)) (table : list (nat * st * Z)) (fail_code : Z) (j : nat) : nat :=
  match jrun jinit (proj j tr) with
  | None => 1
  | Some s =>
    match cur s with
    | None => 2
    | Some c =>
      if negb (terminal c) then 2 else
      match lookup_row j table with
      | [(rs, ro)] =>
          if negb (st_eqb rs c) then 4
          else if straddles j tr && negb (told_before_s2 j tr) then 6
          else if mem_st CANCELLING (writes s) && st_eqb c DONE then 7
          else if born_after_s2 j tr then 9
          else match returned s, lookup_val j vals with
               | true, Some v => if Z.eqb ro v then 0 else 5
               | true, None => 5
               | false, _ => if Z.eqb ro fail_code then 0 else 5
               end
      | _ => 3
      end
    end
  end.

Fixpoint first_bad (f : nat -> nat) (js : list nat) : option (nat * nat) :=
  match js with [] => None | j :: t => match f j with O => first_bad f t | c => Some (j, c) end end.

Definition ok_C14 (njobs : nat) (tr : list gev) (vals : list (nat * Z)) (table : list (nat * st * Z)) (fail_code : Z) (late_events : nat) : option (nat * nat) :=
  match first_bad (ok_job tr vals table fail_code) (seq 0 njobs) with
  | Some r => Some r
  | None => if negb (Nat.eqb (length table) njobs) then Some (njobs, 3)
            else if negb (Nat.eqb late_events 0) then Some (njobs, 8)      (* run-function activity after search() returned *)
            else None
  end.
