(* C14 - Timeouts cancel cooperatively and every job ends in a terminal status.  Property theorems only.
   [jrun jinit tr = Some s]: tr is a sequence of status writes / run-function events the code can produce for one job
   (Model.jstep); the theorems hold for every such sequence - any schedule, any position of the deadline. *)
From Coq Require Import List ZArith Bool Arith String.
Import ListNotations.
Require Import DH.C14_Timeout.Model DH.C14_Timeout.Lemmas DH.C14_Timeout.Check DH.C14_Timeout.Lemmas2.
Require Import DH.C14_Timeout.Global DH.C14_Timeout.GlobalBase DH.C14_Timeout.GlobalInv DH.C14_Timeout.GlobalRefine DH.C14_Timeout.GlobalSafety
  DH.C14_Timeout.GlobalLive DH.C14_Timeout.GlobalOracle DH.C14_Timeout.Accept DH.C14_Timeout.AcceptLemmas.
Require DH.Generated.Facts_C14.

(* the numeric status codes of the model are the ones of the source's JobStatus enum (regenerated on every run) *)
Definition st_of_name (n : string) : option st :=
  if String.eqb n "READY" then Some READY else if String.eqb n "RUNNING" then Some RUNNING
  else if String.eqb n "DONE" then Some DONE else if String.eqb n "CANCELLING" then Some CANCELLING
  else if String.eqb n "CANCELLED" then Some CANCELLED else None.

Theorem C14_status_codes :
  DH.Generated.Facts_C14.srcfacts_ok = true /\ List.length DH.Generated.Facts_C14.job_status = 5 /\
  forallb (fun p => match st_of_name (fst p) with Some s => Z.eqb (st_code s) (snd p) | None => false end)
          DH.Generated.Facts_C14.job_status = true.
Proof. vm_compute. auto. Qed.
Print Assumptions C14_status_codes.

Theorem C14_forward_only : forall tr s, jrun jinit tr = Some s ->
  ws_of tr = writes s /\ is_path (ws_of tr) = true /\ starts_ready (ws_of tr) = true.
Proof. exact forward_only. Qed.
Print Assumptions C14_forward_only.

Theorem C14_terminal_once : forall s c x, cur s = Some c -> terminal c = true -> jstep s (W x) = None.
Proof. exact terminal_is_final. Qed.
Print Assumptions C14_terminal_once.

(* a running job sees exactly the status written last: CANCELLING from the moment it is written until the job returns *)
Theorem C14_running_sees_last_status : forall tr1 x tr2 s, jrun jinit (tr1 ++ Poll x :: tr2) = Some s -> last_st (ws_of tr1) = Some x.
Proof. exact poll_sees_last_write. Qed.
Print Assumptions C14_running_sees_last_status.

Theorem C14_cancelled_job_never_done : forall w, is_path w = true -> In CANCELLING w -> ~ In DONE w.
Proof. exact cancelling_excludes_done. Qed.
Print Assumptions C14_cancelled_job_never_done.

(* the returned value is kept: DONE / CANCELLED-after-CANCELLING are written only after the run-function returned *)
Theorem C14_done_after_return : forall tr1 tr2 s, jrun jinit (tr1 ++ W DONE :: tr2) = Some s -> existsb is_return tr1 = true.
Proof. exact done_needs_return. Qed.
Print Assumptions C14_done_after_return.

Theorem C14_cancelled_after_return : forall tr1 tr2 s,
  jrun jinit (tr1 ++ W CANCELLED :: tr2) = Some s -> last_st (ws_of tr1) = Some CANCELLING -> existsb is_return tr1 = true.
Proof. exact cancelled_after_cancelling_needs_return. Qed.
Print Assumptions C14_cancelled_after_return.

(* the oracle applied to observed runs *)
Theorem C14_oracle_sound : forall njobs tr vals table fc late, ok_C14 njobs tr vals table fc late = None ->
  late = 0 /\ List.length table = njobs /\
  forall j, j < njobs -> exists s c ro,
    jrun jinit (proj j tr) = Some s /\ is_path (ws_of (proj j tr)) = true /\ starts_ready (ws_of (proj j tr)) = true /\
    cur s = Some c /\ terminal c = true /\ lookup_row j table = [(c, ro)] /\
    (straddles j tr = true -> told_before_s2 j tr = true) /\
    (In CANCELLING (ws_of (proj j tr)) -> c = CANCELLED) /\
    born_after_s2 j tr = false /\
    (returned s = true -> lookup_val j vals = Some ro).
Proof. exact ok_C14_sound. Qed.
Print Assumptions C14_oracle_sound.

(* non-vacuity: a job done before the deadline, one running across it, one queued behind it and started after it *)
Example C14_example :
  ok_C14 3
    [J 0 (W READY); J 1 (W READY); J 2 (W READY); J 0 (W RUNNING); J 1 (W RUNNING); J 0 FStart; J 1 FStart; J 0 (Poll RUNNING);
     J 0 FReturn; J 1 (Poll RUNNING); J 1 (W CANCELLING); J 1 (Poll CANCELLING); Sentinel; Sentinel; J 1 FReturn; J 1 (W CANCELLED);
     J 2 (W RUNNING); J 2 FStart; J 2 (W CANCELLING); J 2 (Poll CANCELLING); J 2 FReturn; J 2 (W CANCELLED); J 0 (W DONE)]
    [(0, 10%Z); (1, 11%Z); (2, 12%Z)] [(0, DONE, 10%Z); (1, CANCELLED, 11%Z); (2, CANCELLED, 12%Z)] (-1)%Z 0 = None.
Proof. vm_compute. reflexivity. Qed.


(* ====================================================================================================================
   The GLOBAL model (Global.v): all jobs, the worker semaphore, the time budget, the main thread's phase, the rows.
   [grun c (ginit w b) tr = Some g]: the schedule tr (ANY list of events: submissions, gather / close calls, the event
   loop's steps on each job, the run-functions' start / poll / return, the expiry of the budget, sentinels) is possible
   from the initial state with w workers and budget b, and leads to g.  No bound on jobs, workers or length.
   c = (strict, fixed, fc): strict = sharp deadline; fixed = close() repaired (F53); fc = the F_CANCELLED output.
   ==================================================================================================================== *)

(* (a) refinement: without close()-kills, the events of every job in a global run are a run of the per-job status automaton,
   ending in the job's (status, started, returned, history) - so C14_forward_only ... C14_cancelled_after_return apply *)
Theorem C14_global_refines_job_automaton : forall c w b tr g j,
  grun c (ginit w b) tr = Some g -> nokill tr = true ->
  jrun jinit (proj j (otrace c (ginit w b) tr)) = Some (abs g j).
Proof. exact refinement. Qed.
Print Assumptions C14_global_refines_job_automaton.

(* (a') every schedule, close()-kills included: a job's observed writes start with READY and only move forward *)
Theorem C14_global_writes_forward : forall c w b tr g j,
  grun c (ginit w b) tr = Some g ->
  is_path (ws_of (proj j (otrace c (ginit w b) tr))) = true /\ starts_ready (ws_of (proj j (otrace c (ginit w b) tr))) = true.
Proof. exact writes_forward. Qed.
Print Assumptions C14_global_writes_forward.

(* (b) once close() has returned (so also once search() has): as many rows as jobs; every job is terminal and has exactly
   one row, with its status; a collected job's row holds the value its run-function returned (and it did run); a job killed
   by close() is CANCELLED with the failure output.  Needs the repaired close() or a run in which close() kills nothing. *)
Theorem C14_returned_every_job_reported_once : forall c w b tr g,
  grun c (ginit w b) tr = Some g -> closed_phase (phase g) = true -> fixed c = true \/ nokill tr = true ->
  List.length (rows g) = List.length (jobs g) /\
  forall j jb, getj g j = Some jb ->
    (terminal (jstat jb) = true /\
     exists v, lookup_row j (rows g) = [(jstat jb, v)] /\
               (jph jb = TGathered -> jret jb = Some v /\ jstarted jb = true) /\
               (jph jb = TKilled -> jstat jb = CANCELLED /\ v = fc c)) /\
    (nokill tr = true -> jph jb = TGathered).
Proof. exact closed_all_reported. Qed.
Print Assumptions C14_returned_every_job_reported_once.

(* today's close() (fixed = false): the schedule of finding F53 ends with a job in CANCELLING for ever and without a row *)
Theorem C14_close_while_cancelling_refuted :
  exists g jb, grun today (ginit 2 (Some BEval)) f53_schedule = Some g /\ phase g = PDone /\ getj g 1 = Some jb /\
               jstat jb = CANCELLING /\ terminal (jstat jb) = false /\ lookup_row 1 (rows g) = [] /\
               List.length (rows g) = 1 /\ List.length (jobs g) = 2.
Proof. exact close_forgets_cancelling_job. Qed.
Print Assumptions C14_close_while_cancelling_refuted.

(* (c) sharp deadline.  A job whose run-function had NOT returned when the budget ran out - it holds a worker, or it is
   still queued - is never DONE; once collected its writes are exactly READY, RUNNING, CANCELLING, CANCELLED: it does get a
   worker and its run-function does run (this is what the code does with a job queued at the expiry: it is started and told
   to cancel at once), and the value it returned is in its CANCELLED row. *)
Theorem C14_not_returned_at_expiry_is_cancelled : forall c w b tr1 tr2 g1 g j jb1,
  strict c = true ->
  grun c (ginit w b) tr1 = Some g1 -> grun c g1 (EExpire :: tr2) = Some g ->
  getj g1 j = Some jb1 -> jret jb1 = None -> jph jb1 = TQueued \/ jph jb1 = TWaiting ->
  exists jb, getj g j = Some jb /\ jstat jb <> DONE /\
    (jph jb = TGathered ->
       jhist jb = [READY; RUNNING; CANCELLING; CANCELLED] /\ jstat jb = CANCELLED /\ jstarted jb = true /\
       exists v, jret jb = Some v /\ lookup_row j (rows g) = [(CANCELLED, v)]).
Proof. exact not_returned_at_expiry. Qed.
Print Assumptions C14_not_returned_at_expiry_is_cancelled.

(* ... and a job whose run-function HAD returned (and that was not told to cancel by an earlier budget) ends DONE with that value *)
Theorem C14_returned_before_expiry_is_done : forall c w b tr1 tr2 g1 g j jb1 v,
  strict c = true ->
  grun c (ginit w b) tr1 = Some g1 -> grun c g1 (EExpire :: tr2) = Some g ->
  getj g1 j = Some jb1 -> jret jb1 = Some v -> jstat jb1 = RUNNING \/ jstat jb1 = DONE ->
  exists jb, getj g j = Some jb /\ jret jb = Some v /\
    (jph jb <> TKilled -> jstat jb = RUNNING \/ jstat jb = DONE) /\
    (jph jb = TGathered -> jstat jb = DONE /\ ~ In CANCELLING (jhist jb) /\ lookup_row j (rows g) = [(DONE, v)]).
Proof. exact returned_before_expiry. Qed.
Print Assumptions C14_returned_before_expiry_is_done.

(* ... and a job that close() kills while it is still QUEUED - its execute() task never got a worker slot of the evaluator's
   semaphore, so its run-function was never handed to any pool - never starts: READY, CANCELLED (all backends).
   A job killed while it HOLDS a worker is different: see C14_killed_job_is_final. *)
Theorem C14_killed_while_queued_never_starts : forall c w b tr1 tr2 g1 g j jb1,
  grun c (ginit w b) tr1 = Some g1 -> getj g1 j = Some jb1 -> jph jb1 = TQueued -> grun c g1 (EKill j :: tr2) = Some g ->
  exists jb, getj g j = Some jb /\ jstarted jb = false /\ jhist jb = [READY; CANCELLED] /\ jstat jb = CANCELLED.
Proof. exact killed_while_queued_never_starts. Qed.
Print Assumptions C14_killed_while_queued_never_starts.

(* zombies: the run-function of a job that close() gave up while it held a worker cannot be interrupted, nor recalled from the
   queue of a process / loky / thread pool: it may still start, poll (it sees CANCELLED) and return after close() - even after
   search() - returned.  Whatever happens afterwards, a killed job keeps its status, its history of writes and its single row *)
Theorem C14_killed_job_is_final : forall c w b tr1 tr2 g1 g j jb1,
  grun c (ginit w b) tr1 = Some g1 -> getj g1 j = Some jb1 -> jph jb1 = TKilled -> grun c g1 tr2 = Some g ->
  exists jb, getj g j = Some jb /\ jph jb = TKilled /\ jstat jb = jstat jb1 /\ jhist jb = jhist jb1 /\
             lookup_row j (rows g) = lookup_row j (rows g1).
Proof. exact killed_job_is_final. Qed.
Print Assumptions C14_killed_job_is_final.

(* (d) after the expiry, the first stop test ends the submissions of this search() call (at most the batch whose stop test
   came just before the expiry is still submitted) *)
Theorem C14_no_submit_after_stop_test : forall c g0 tr1 a b g,
  grun c g0 (tr1 ++ EExpire :: a ++ ETest :: b) = Some g -> noagain (a ++ ETest :: b) = true -> ~ In ESubmit b.
Proof. exact no_submit_after_the_test. Qed.
Print Assumptions C14_no_submit_after_stop_test.

(* (d) close() - hence search() - returns only after every job's run-function has started and returned; afterwards no
   run-function event is possible *)
Theorem C14_search_returns_after_run_functions : forall c w b tr g,
  grun c (ginit w b) tr = Some g -> closed_phase (phase g) = true -> nokill tr = true ->
  forall j jb, getj g j = Some jb ->
    jstarted jb = true /\ jret jb <> None /\
    gstep c g (EStart j) = None /\ gstep c g (EPoll j) = None /\ (forall v, gstep c g (ERet j v) = None).
Proof. exact returns_after_the_functions. Qed.
Print Assumptions C14_search_returns_after_run_functions.

(* (e) no deadlock: from every reachable state there is a continuation in which search() returns; unless close() is already
   under way it kills no job (the run-functions return - after CANCELLING where they were told - and are collected) *)
Theorem C14_no_deadlock : forall c w b tr g, 0 < w -> grun c (ginit w b) tr = Some g ->
  exists tr' g', grun c g tr' = Some g' /\ phase g' = PDone /\ (phase g <> PClosing -> nokill tr' = true).
Proof. exact reachable_no_deadlock. Qed.
Print Assumptions C14_no_deadlock.

(* (f) the oracle raises no alarm on any complete run of the model.  Timing assumption, explicit: IF the schedule has two
   sentinels, then at the second one no started run-function is still running un-told (jph = TWaiting), and nothing is
   submitted after it. *)
Theorem C14_model_run_is_accepted : forall c w b tr g,
  grun c (ginit w b) tr = Some g -> closed_phase (phase g) = true -> nokill tr = true ->
  (forall t1 t2 t3 g2, tr = t1 ++ ESentinel :: t2 ++ ESentinel :: t3 -> nosent t1 = true -> nosent t2 = true ->
     grun c (ginit w b) (t1 ++ ESentinel :: t2) = Some g2 ->
     (forall j jb, getj g2 j = Some jb -> jph jb = TWaiting -> jstarted jb = true -> jret jb <> None) /\ ~ In ESubmit t3) ->
  ok_C14 (List.length (jobs g)) (otrace c (ginit w b) tr) (vals_of g) (rows g) (fc c) 0 = None.
Proof. exact model_run_is_accepted. Qed.
Print Assumptions C14_model_run_is_accepted.

(* the tie: an observed trace accepted by the extracted acceptor is (the observation of) a run of the global model *)
Theorem C14_accepted_trace_is_model_run : forall c w b os g, accept c (ginit w b) os 0 = (g, None) ->
  Inv c g /\ exists tr, grun c (ginit w b) tr = Some g /\ otrace c (ginit w b) tr = flat_map oobs os /\
    (nokill tr = true -> forall j, jrun jinit (proj j (flat_map oobs os)) = Some (abs g j)).
Proof. exact accepted_is_model_run. Qed.
Print Assumptions C14_accepted_trace_is_model_run.

(* ... and when the acceptor counted no finalisation against the order of the deadline, of the SHARP-deadline model (theorems (c)) *)
Theorem C14_accepted_race_free_trace_is_strict_run : forall k w b os g,
  accept (observed_cfg k) (ginit w b) os 0 = (g, None) -> races g = 0 ->
  exists tr, grun (mkCfg true true k) (ginit w b) tr = Some g /\ otrace (mkCfg true true k) (ginit w b) tr = flat_map oobs os.
Proof. exact accepted_race_free_is_strict. Qed.
Print Assumptions C14_accepted_race_free_trace_is_strict_run.

(* free workers + jobs holding one = num_workers, in every reachable state: never more run-functions in flight than workers *)
Theorem C14_no_more_running_than_workers : forall c w b tr g,
  grun c (ginit w b) tr = Some g ->
  free g + sumf (fun jb => match jph jb with TWaiting | TCancelling => 1 | _ => 0 end) (jobs g) = w.
Proof. exact workers_bound. Qed.
Print Assumptions C14_no_more_running_than_workers.

(* ---------- non-vacuity ---------- *)
(* a complete strict run: 2 workers, search(timeout=): job 0 returns before the expiry (DONE), job 1 is running at it
   (CANCELLED, value kept), job 2 is queued at it (started, told at once, CANCELLED); sentinels after the expiry *)
Definition demo_cfg : cfg := mkCfg true true (-1).
Definition demo_schedule : list ev :=
  [ESubmit; ESubmit; ESentinel0; EGatherIn; EAcquire 0; EAcquire 1; EStart 0; EStart 1; EPoll 0; ERet 0 10; EFinish 0; ECollect 0; EGatherOut; ETest;
   ESubmit; EGatherIn; EExpire; ETell 1; ESentinel; EPoll 1; ERet 1 11; EFinishC 1; EAcquire 2; ETell 2; EStart 2; ESentinel; EPoll 2; ERet 2 12; EFinishC 2;
   ECollect 1; ECollect 2; EGatherOut; ETest; ECloseIn; ECloseOut; EReturn].

Example C14_demo_run :
  exists g, grun demo_cfg (ginit 2 (Some BSearch)) demo_schedule = Some g /\ phase g = PDone /\ nokill demo_schedule = true /\
            timingb demo_cfg (ginit 2 (Some BSearch)) demo_schedule = true /\
            rows g = [(0, DONE, 10%Z); (1, CANCELLED, 11%Z); (2, CANCELLED, 12%Z)] /\ stopped g = true /\ timed g = false /\
            ok_C14 3 (otrace demo_cfg (ginit 2 (Some BSearch)) demo_schedule) (vals_of g) (rows g) (-1)%Z 0 = None.
Proof. vm_compute. eexists. repeat split. Qed.

(* the same behaviour as an OBSERVED trace is accepted; a second timed search() call on the same objects gets a fresh budget *)
Example C14_demo_accept :
  exists g, accept (observed_cfg (-1)) (ginit 1 (Some BSearch))
    [OSubmitCall; OW 0 READY; OGatherIn; OW 0 RUNNING; OStart 0; OSent0; OPoll 0 RUNNING; OW 0 CANCELLING; OSent; OPoll 0 CANCELLING; ORet 0 7;
     OW 0 CANCELLED; OFin 0; OSent; OCollected 0; OGatherOut; OCloseIn; OCloseOut; OReturn;
     OAgain (Some BSearch); OSubmitCall; OW 1 READY; OGatherIn; OW 1 RUNNING; OStart 1; OSent0; ORet 1 8; OFin 1; OW 1 DONE; OCollected 1; OGatherOut;
     OCloseIn; OCloseOut; OReturn] 0 = (g, None) /\
    phase g = PDone /\ tables_agree 2 (rows g) [(0, CANCELLED, 7%Z); (1, DONE, 8%Z)] = true.
Proof. vm_compute. eexists. repeat split. Qed.

(* and it rejects: a submission after the stop test saw the exhausted budget (position 13, code 2) *)
Example C14_demo_reject :
  snd (accept (observed_cfg (-1)) (ginit 1 (Some BEval))
    [OSubmitCall; OW 0 READY; OGatherIn; OW 0 RUNNING; OStart 0; OW 0 CANCELLING; OPoll 0 CANCELLING; ORet 0 7; OW 0 CANCELLED; OFin 0; OCollected 0;
     OGatherOut; OSubmitCall; OW 1 READY] 0) = Some (13, 2).
Proof. vm_compute. reflexivity. Qed.

(* a budget re-armed while an older one is set (evaluator.timeout = t1; batch; gather ALL; evaluator.timeout = t2; batch): the
   second batch runs under a fresh budget - its early sentinel precedes every CANCELLING; with a stale clock (the second
   batch told to cancel at once) the early sentinel of the latest budget is rejected (position 22, code 2) *)
Example C14_demo_rearm :
  exists g, accept (observed_cfg (-1)) (ginit 1 (Some BEval))
    [OSubmitCall; OW 0 READY; OGatherIn; OW 0 RUNNING; OStart 0; OW 0 CANCELLING; OPoll 0 CANCELLING; ORet 0 7; OW 0 CANCELLED; OFin 0; OCollected 0; OGatherOut;
     OAgain (Some BEval); OSubmitCall; OW 1 READY; OGatherIn; OW 1 RUNNING; OStart 1; OSent0; ORet 1 8; OFin 1; OW 1 DONE; OCollected 1; OGatherOut;
     OCloseIn; OCloseOut; OReturn] 0 = (g, None) /\
    phase g = PDone /\ tables_agree 2 (rows g) [(0, CANCELLED, 7%Z); (1, DONE, 8%Z)] = true /\
  snd (accept (observed_cfg (-1)) (ginit 1 (Some BEval))
    [OSubmitCall; OW 0 READY; OGatherIn; OW 0 RUNNING; OStart 0; OW 0 CANCELLING; OPoll 0 CANCELLING; ORet 0 7; OW 0 CANCELLED; OFin 0; OCollected 0; OGatherOut;
     OAgain (Some BEval); OSubmitCall; OW 1 READY; OGatherIn; OW 1 RUNNING; OW 1 CANCELLING; OStart 1; OPoll 1 CANCELLING; ORet 1 8; OW 1 CANCELLED; OSent0] 0) = Some (22, 2).
Proof. vm_compute. eexists. repeat split. Qed.

(* a write by a second evaluator on the same storage that moves a CANCELLED job of the first one to DONE is rejected by the
   per-job automaton (C14_terminal_once) whoever wrote it: the observed trace contains the writes of both evaluators *)
Example C14_demo_peer_backwards :
  ok_C14 1 [J 0 (W READY); J 0 (W RUNNING); J 0 FStart; J 0 (W CANCELLING); J 0 (Poll CANCELLING); J 0 FReturn; J 0 (W CANCELLED); J 0 (W DONE)]
         [(0, 7%Z)] [(0, DONE, 7%Z)] (-1)%Z 0 = Some (0, 1).
Proof. vm_compute. reflexivity. Qed.

(* a direct session closed while jobs are running / queued (close() kills them: CANCELLED rows with the failure output), then a
   timed search() on the SAME evaluator: accepted, and the counters the evaluator reports (submitted - gathered) are the model's
   (jobs without a row): 0 after each close - a stale count (here 2 after the first close) is rejected (position 20, code 1) *)
Example C14_demo_close_then_search :
  exists g, accept (observed_cfg (-1)) (ginit 2 (Some BEval))
    [OSubmitCall; OW 0 READY; OW 1 READY; OW 2 READY; OGatherIn; OW 0 RUNNING; OW 1 RUNNING; OStart 0; OStart 1; ORet 0 5; OFin 0; OW 0 DONE; OCollected 0; OGatherOut;
     OCloseIn; OW 1 CANCELLED; OCollected 1; OW 2 CANCELLED; OCollected 2; OCloseOut; OCounts 0; OReturn; OPoll 1 CANCELLED; ORet 1 6;
     OAgain (Some BSearch); OSubmitCall; OW 3 READY; OGatherIn; OW 3 RUNNING; OStart 3; OSent0; OW 3 CANCELLING; OPoll 3 CANCELLING; ORet 3 8; OW 3 CANCELLED; OFin 3;
     OCollected 3; OGatherOut; OCloseIn; OCloseOut; OCounts 0; OReturn] 0 = (g, None) /\
    phase g = PDone /\ tables_agree 4 (rows g) [(0, DONE, 5%Z); (1, CANCELLED, (-1)%Z); (2, CANCELLED, (-1)%Z); (3, CANCELLED, 8%Z)] = true /\
  snd (accept (observed_cfg (-1)) (ginit 2 (Some BEval))
    [OSubmitCall; OW 0 READY; OW 1 READY; OW 2 READY; OGatherIn; OW 0 RUNNING; OW 1 RUNNING; OStart 0; OStart 1; ORet 0 5; OFin 0; OW 0 DONE; OCollected 0; OGatherOut;
     OCloseIn; OW 1 CANCELLED; OCollected 1; OW 2 CANCELLED; OCollected 2; OCloseOut; OCounts 2] 0) = Some (20, 1).
Proof. vm_compute. eexists. repeat split. Qed.

(* pool backends: the run-function of a job killed while it held a worker (its work item was still in the pool's queue) starts
   after close() and search() returned, sees CANCELLED and returns: accepted, the rows are unchanged; a job killed while
   queued (job 2, never RUNNING) that starts afterwards is rejected (position 19, code 2) *)
Example C14_demo_zombie :
  exists g, accept (observed_cfg (-1)) (ginit 2 (Some BEval))
    [OSubmitCall; OW 0 READY; OW 1 READY; OW 2 READY; OGatherIn; OW 0 RUNNING; OW 1 RUNNING; OStart 0; ORet 0 5; OFin 0; OW 0 DONE; OCollected 0; OGatherOut;
     OCloseIn; OW 1 CANCELLED; OW 2 CANCELLED; OCloseOut; OCounts 0; OReturn; OStart 1; OPoll 1 CANCELLED; ORet 1 6] 0 = (g, None) /\
    tables_agree 3 (rows g) [(0, DONE, 5%Z); (1, CANCELLED, (-1)%Z); (2, CANCELLED, (-1)%Z)] = true /\
  snd (accept (observed_cfg (-1)) (ginit 2 (Some BEval))
    [OSubmitCall; OW 0 READY; OW 1 READY; OW 2 READY; OGatherIn; OW 0 RUNNING; OW 1 RUNNING; OStart 0; ORet 0 5; OFin 0; OW 0 DONE; OCollected 0; OGatherOut;
     OCloseIn; OW 1 CANCELLED; OW 2 CANCELLED; OCloseOut; OCounts 0; OReturn; OStart 2] 0) = Some (19, 2).
Proof. vm_compute. eexists. repeat split. Qed.
