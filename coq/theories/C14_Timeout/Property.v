(* C14 - Timeouts cancel cooperatively and every job ends in a terminal status.  Property theorems only.
   [jrun jinit tr = Some s]: tr is a sequence of status writes / run-function events the code can produce for one job
   (Model.jstep); the theorems hold for every such sequence - any schedule, any position of the deadline. *)
From Coq Require Import List ZArith Bool Arith String.
Import ListNotations.
Require Import DH.C14_Timeout.Model DH.C14_Timeout.Lemmas DH.C14_Timeout.Check DH.C14_Timeout.Lemmas2.
Require DH.Generated.Facts_C14.

(* the numeric status codes of the model are the ones of the source's JobStatus enum (regenerated on every run) *)
Definition st_of_name (n : string) : option st :=
  if String.eqb n "READY" then Some READY else if String.eqb n "RUNNING" then Some RUNNING
  else if String.eqb n "DONE" then Some DONE else if String.eqb n "CANCELLING" then Some CANCELLING
  else if String.eqb n "CANCELLED" then Some CANCELLED else None.

Theorem C14_status_codes :
  DH.Generated.Facts_C14.srcfacts_ok = true /\ List.length DH.Generated.Facts_C14.job_status = 5 /\
  forallb (fun p => match st_of_name (fst p) with Some s => Z.eqb (st_code s) (snd p) | None => false end)
          DH.Generated.Facts_C14.job_status = true.
Proof. vm_compute. auto. Qed.
Print Assumptions C14_status_codes.

Theorem C14_forward_only : forall tr s, jrun jinit tr = Some s ->
  ws_of tr = writes s /\ is_path (ws_of tr) = true /\ starts_ready (ws_of tr) = true.
Proof. exact forward_only. Qed.
Print Assumptions C14_forward_only.

Theorem C14_terminal_once : forall s c x, cur s = Some c -> terminal c = true -> jstep s (W x) = None.
Proof. exact terminal_is_final. Qed.
Print Assumptions C14_terminal_once.

(* a running job sees exactly the status written last: CANCELLING from the moment it is written until the job returns *)
Theorem C14_running_sees_last_status : forall tr1 x tr2 s, jrun jinit (tr1 ++ Poll x :: tr2) = Some s -> last_st (ws_of tr1) = Some x.
Proof. exact poll_sees_last_write. Qed.
Print Assumptions C14_running_sees_last_status.

Theorem C14_cancelled_job_never_done : forall w, is_path w = true -> In CANCELLING w -> ~ In DONE w.
Proof. exact cancelling_excludes_done. Qed.
Print Assumptions C14_cancelled_job_never_done.

(* the returned value is kept: DONE / CANCELLED-after-CANCELLING are written only after the run-function returned *)
Theorem C14_done_after_return : forall tr1 tr2 s, jrun jinit (tr1 ++ W DONE :: tr2) = Some s -> existsb is_return tr1 = true.
Proof. exact done_needs_return. Qed.
Print Assumptions C14_done_after_return.

Theorem C14_cancelled_after_return : forall tr1 tr2 s,
  jrun jinit (tr1 ++ W CANCELLED :: tr2) = Some s -> last_st (ws_of tr1) = Some CANCELLING -> existsb is_return tr1 = true.
Proof. exact cancelled_after_cancelling_needs_return. Qed.
Print Assumptions C14_cancelled_after_return.

(* the oracle applied to observed runs *)
Theorem C14_oracle_sound : forall njobs tr vals table fc late, ok_C14 njobs tr vals table fc late = None ->
  late = 0 /\ List.length table = njobs /\
  forall j, j < njobs -> exists s c ro,
    jrun jinit (proj j tr) = Some s /\ is_path (ws_of (proj j tr)) = true /\ starts_ready (ws_of (proj j tr)) = true /\
    cur s = Some c /\ terminal c = true /\ lookup_row j table = [(c, ro)] /\
    (straddles j tr = true -> told_before_s2 j tr = true) /\
    (In CANCELLING (ws_of (proj j tr)) -> c = CANCELLED) /\
    born_after_s2 j tr = false /\
    (returned s = true -> lookup_val j vals = Some ro).
Proof. exact ok_C14_sound. Qed.
Print Assumptions C14_oracle_sound.

(* non-vacuity: a job done before the deadline, one running across it, one queued behind it and started after it *)
Example C14_example :
  ok_C14 3
    [J 0 (W READY); J 1 (W READY); J 2 (W READY); J 0 (W RUNNING); J 1 (W RUNNING); J 0 FStart; J 1 FStart; J 0 (Poll RUNNING);
     J 0 FReturn; J 1 (Poll RUNNING); J 1 (W CANCELLING); J 1 (Poll CANCELLING); Sentinel; Sentinel; J 1 FReturn; J 1 (W CANCELLED);
     J 2 (W RUNNING); J 2 FStart; J 2 (W CANCELLING); J 2 (Poll CANCELLING); J 2 FReturn; J 2 (W CANCELLED); J 0 (W DONE)]
    [(0, 10%Z); (1, 11%Z); (2, 12%Z)] [(0, DONE, 10%Z); (1, CANCELLED, 11%Z); (2, CANCELLED, 12%Z)] (-1)%Z 0 = None.
Proof. vm_compute. reflexivity. Qed.
