(* Soundness of the acceptor: an accepted observed trace IS (the observation of) a run of the global model, so every
   theorem about runs of the model holds for it. *)
From Coq Require Import List ZArith Bool Arith Lia.
Import ListNotations.
Require Import DH.C14_Timeout.Model DH.C14_Timeout.Lemmas DH.C14_Timeout.Check DH.C14_Timeout.Global DH.C14_Timeout.GlobalBase
  DH.C14_Timeout.GlobalInv DH.C14_Timeout.GlobalRefine DH.C14_Timeout.GlobalSafety DH.C14_Timeout.Accept.

Lemma jev_eqb_eq a b : jev_eqb a b = true -> a = b.
Proof. destruct a, b; cbn; intros H; try discriminate; try reflexivity; apply st_eqb_eq in H; congruence. Qed.

Lemma gev_eqb_eq a b : gev_eqb a b = true -> a = b.
Proof.
  destruct a as [j x|], b as [k y|]; cbn; intros H; try discriminate; [|reflexivity].
  apply andb_true_iff in H as [H1 H2]. apply Nat.eqb_eq in H1. apply jev_eqb_eq in H2. congruence.
Qed.

Lemma gevs_eqb_eq : forall l1 l2, gevs_eqb l1 l2 = true -> l1 = l2.
Proof.
  induction l1 as [|a t IH]; intros [|b u] H; cbn in H; try discriminate; [reflexivity|].
  apply andb_true_iff in H as [H1 H2]. f_equal; [apply gev_eqb_eq; exact H1| apply IH; exact H2].
Qed.

Theorem accept_sound c : forall os g pos g', accept c g os pos = (g', None) ->
  exists tr, grun c g tr = Some g' /\ otrace c g tr = flat_map oobs os.
Proof.
  induction os as [|o t IH]; intros g pos g' H; cbn [accept] in H.
  - injection H as <-. exists []. split; reflexivity.
  - unfold accept_step in H. destruct (infer g o) as [es|]; [|discriminate].
    destruct (grun c g es) as [g1|] eqn:R; [|discriminate].
    destruct (gevs_eqb (otrace c g es) (oobs o)) eqn:E; [|discriminate]. apply gevs_eqb_eq in E.
    destruct (IH g1 (S pos) g' H) as (tr & Rt & Ot). exists (es ++ tr). split.
    + rewrite grun_app, R. exact Rt.
    + rewrite (otrace_app c es g g1 tr R), E, Ot. reflexivity.
Qed.

(* what acceptance gives, through the theorems on runs: invariant, per-job refinement (when close() killed nothing) *)
Corollary accepted_is_model_run c w b os g : accept c (ginit w b) os 0 = (g, None) ->
  Inv c g /\ exists tr, grun c (ginit w b) tr = Some g /\ otrace c (ginit w b) tr = flat_map oobs os /\
    (nokill tr = true -> forall j, jrun jinit (proj j (flat_map oobs os)) = Some (abs g j)).
Proof.
  intros H. destruct (accept_sound c os _ 0 g H) as (tr & R & O). split; [exact (inv_run c tr _ _ (inv_init c w b) R)|].
  exists tr. split; [exact R|]. split; [exact O|]. intros K j. rewrite <- O. apply refinement; assumption.
Qed.

(* an accepted observation in which no job was finalised against the order of the deadline (the acceptor's count [races] is 0)
   is a run of the SHARP-deadline model: the theorems (c) apply to it *)
Corollary accepted_race_free_is_strict k w b os g : accept (observed_cfg k) (ginit w b) os 0 = (g, None) -> races g = 0 ->
  exists tr, grun (mkCfg true true k) (ginit w b) tr = Some g /\ otrace (mkCfg true true k) (ginit w b) tr = flat_map oobs os.
Proof.
  intros H Z. destruct (accept_sound _ os _ 0 g H) as (tr & R & O). exists tr.
  destruct (race_free_run_is_strict true k tr _ _ R Z) as [A B]. split; [exact A|]. rewrite B. exact O.
Qed.
