(* (f) The acceptance oracle [ok_C14] of Check.v raises no alarm on any complete run of the global model
   (under the explicit timing assumption on the position of the two sentinels). *)
From Coq Require Import List ZArith Bool Arith Lia.
Import ListNotations.
Require Import DH.C14_Timeout.Model DH.C14_Timeout.Lemmas DH.C14_Timeout.Check DH.C14_Timeout.Lemmas2 DH.C14_Timeout.Global
  DH.C14_Timeout.GlobalBase DH.C14_Timeout.GlobalInv DH.C14_Timeout.GlobalRefine DH.C14_Timeout.GlobalSafety.

(* ---------- generic facts about the oracle's helpers ---------- *)
Lemma first_bad_all_zero f js : (forall j, In j js -> f j = 0) -> first_bad f js = None.
Proof. induction js as [|a t IH]; intros H; cbn; [reflexivity|]. rewrite (H a (or_introl eq_refl)). apply IH. intros j Hj. apply H. right. exact Hj. Qed.

Lemma occurs_proj j f tr : occurs j f tr = existsb f (proj j tr).
Proof.
  unfold occurs. induction tr as [|[k e|] t IH]; cbn; [reflexivity| |exact IH].
  destruct (Nat.eqb j k); cbn; rewrite IH; reflexivity.
Qed.

Definition nosentb (o : list gev) : bool := forallb (fun e => match e with Sentinel => false | _ => true end) o.

Lemma before_app o1 r : nosentb o1 = true -> before_sentinel (o1 ++ Sentinel :: r) = o1 /\ after_sentinel (o1 ++ Sentinel :: r) = Some r.
Proof.
  induction o1 as [|[k e|] t IH]; cbn; intros H; [auto| |discriminate]. destruct (IH H) as [A B]. rewrite A, B. auto.
Qed.

Lemma after_none o : nosentb o = true -> after_sentinel o = None.
Proof. induction o as [|[k e|] t IH]; cbn; intros H; [reflexivity| auto| discriminate]. Qed.

Lemma proj_sentinel j o1 o2 : proj j (o1 ++ Sentinel :: o2) = proj j (o1 ++ o2).
Proof. rewrite !proj_app. reflexivity. Qed.

(* per-job automaton: started / told, read off the trace *)
Lemma run_started : forall tr s s', jrun s tr = Some s' -> started s' = started s || existsb is_start tr.
Proof.
  induction tr as [|e t IH]; intros s s' R; cbn [jrun] in R; [injection R as <-; cbn; rewrite orb_false_r; reflexivity|].
  destruct (jstep s e) as [s1|] eqn:E; [|discriminate]. rewrite (IH _ _ R). cbn [existsb]. rewrite orb_assoc. f_equal.
  destruct e as [x| |x|]; cbn [jstep is_start] in *.
  - destruct (cur s) as [c0|]; [match type of E with (if ?b then _ else _) = _ => destruct b; [|discriminate] end| destruct x; try discriminate];
      injection E as <-; cbn; rewrite orb_false_r; reflexivity.
  - destruct (cur s) as [[]|]; try discriminate; destruct (started s); try discriminate; injection E as <-; reflexivity.
  - destruct (cur s) as [c0|]; [|discriminate]. destruct (started s && negb (returned s) && st_eqb c0 x); [|discriminate]. injection E as <-. rewrite orb_false_r. reflexivity.
  - destruct (cur s) as [[]|]; try discriminate; destruct (started s && negb (returned s)) eqn:B; try discriminate; injection E as <-; cbn;
      apply andb_true_iff in B as [B _]; rewrite B; reflexivity.
Qed.

Lemma wcancelling_in : forall tr, existsb is_wcancelling tr = true <-> In CANCELLING (ws_of tr).
Proof.
  induction tr as [|e t IH]; cbn; [split; [discriminate| intros []]|].
  destruct e as [x| |x|]; cbn; try exact IH. destruct x; cbn; try (rewrite IH; split; [auto| intros [X|X]; [discriminate X| exact X]]).
  split; auto.
Qed.

Lemma lookup_vals : forall l k j, lookup_val j (vals_from k l) =
  if j <? k then None else match nth_error l (j - k) with Some jb => jret jb | None => None end.
Proof.
  induction l as [|jb l IH]; intros k j; cbn [vals_from].
  - cbn [lookup_val]. destruct (j <? k); [reflexivity|]. destruct (j - k); reflexivity.
  - assert (T : lookup_val j (vals_from (S k) l) = if j <? S k then None else match nth_error l (j - S k) with Some jb => jret jb | None => None end) by apply IH.
    destruct (j <? k) eqn:Ejk.
    + apply Nat.ltb_lt in Ejk. replace (j <? S k) with true in T by (symmetry; apply Nat.ltb_lt; lia).
      destruct (jret jb); [cbn; replace (Nat.eqb j k) with false by (symmetry; apply Nat.eqb_neq; lia)|]; exact T.
    + apply Nat.ltb_ge in Ejk. destruct (Nat.eq_dec j k) as [->|Ne].
      * rewrite Nat.sub_diag. cbn [nth_error]. replace (k <? S k) with true in T by (symmetry; apply Nat.ltb_lt; lia).
        destruct (jret jb); [cbn; rewrite Nat.eqb_refl; reflexivity| exact T].
      * replace (j <? S k) with false in T by (symmetry; apply Nat.ltb_ge; lia).
        replace (j - k) with (S (j - S k)) by lia. cbn [nth_error].
        destruct (jret jb); [cbn; replace (Nat.eqb j k) with false by (symmetry; apply Nat.eqb_neq; lia)|]; exact T.
Qed.

Lemma lookup_vals_of g j jb : getj g j = Some jb -> lookup_val j (vals_of g) = jret jb.
Proof. intros H. unfold vals_of. rewrite lookup_vals. cbn. rewrite Nat.sub_0_r. unfold getj in H. rewrite H. reflexivity. Qed.

(* ---------- sentinels in a schedule ---------- *)
Definition not_sent (e : ev) : bool := match e with ESentinel => false | _ => true end.
Definition nosent (tr : list ev) : bool := forallb not_sent tr.

Lemma obs_nosent c g e : not_sent e = true -> nosentb (obs c g e) = true.
Proof.
  destruct e; cbn; intros H; try reflexivity; try discriminate H.
  - destruct (getj g j) as [jb|]; [destruct (st_eqb (jstat jb) RUNNING)|]; reflexivity.
  - destruct (getj g j) as [jb|]; [destruct (jph jb); try reflexivity; destruct (fixed c); reflexivity| reflexivity].
  - destruct (getj g j); reflexivity.
Qed.

Lemma otrace_nosent c : forall tr g, nosent tr = true -> nosentb (otrace c g tr) = true.
Proof.
  induction tr as [|e t IH]; intros g H; cbn [otrace]; [reflexivity|]. cbn in H. apply andb_true_iff in H as [H1 H2].
  unfold nosentb. rewrite forallb_app. fold (nosentb (obs c g e)). rewrite (obs_nosent c g e H1). cbn.
  destruct (gstep c g e); [apply IH; exact H2| reflexivity].
Qed.

Lemma split_sent : forall tr, nosent tr = true \/ exists t1 r, tr = t1 ++ ESentinel :: r /\ nosent t1 = true.
Proof.
  induction tr as [|e t IH]; [left; reflexivity|]. destruct (not_sent e) eqn:E.
  - destruct IH as [N|(t1 & r & -> & N)]; [left; cbn; rewrite E; exact N|].
    right. exists (e :: t1), r. split; [reflexivity| cbn; rewrite E; exact N].
  - right. exists [], t. destruct e; try discriminate E. split; reflexivity.
Qed.

Lemma njobs_step c g e g' : gstep c g e = Some g' -> e <> ESubmit -> length (jobs g') = length (jobs g).
Proof.
  intros H Ne. destruct e; try congruence; step_inv H; unfold set_job, set_phase, set_flags, setg; cbn [jobs]; rewrite ?upd_length; reflexivity.
Qed.

Lemma njobs_run c : forall tr g g', grun c g tr = Some g' -> ~ In ESubmit tr -> length (jobs g') = length (jobs g).
Proof.
  induction tr as [|e t IH]; intros g g' R N; cbn [grun] in R; [injection R as <-; reflexivity|].
  destruct (gstep c g e) as [g1|] eqn:E; [|discriminate]. rewrite (IH g1 g' R); [|intros X; apply N; right; exact X].
  apply (njobs_step c g e g1 E). intros ->. apply N. left. reflexivity.
Qed.

Lemma nokill_app t1 t2 : nokill (t1 ++ t2) = nokill t1 && nokill t2.
Proof. unfold nokill. apply forallb_app. Qed.

(* ---------- the timing assumption ----------
   When the schedule contains two sentinels (the harness logs them 0.4 s and 1.9 s after the deadline), then at the second one
     - no run-function that has started is still running without its job having been told to cancel (the TimeoutError
       of wait_for was delivered within the slack), and
     - nothing is submitted any more (the batch following a stop test that passed just before the deadline was submitted
       within the slack). *)
Definition timing (c : cfg) (g0 : gst) (tr : list ev) : Prop :=
  forall t1 t2 t3 g2, tr = t1 ++ ESentinel :: t2 ++ ESentinel :: t3 -> nosent t1 = true -> nosent t2 = true ->
    grun c g0 (t1 ++ ESentinel :: t2) = Some g2 ->
    (forall j jb, getj g2 j = Some jb -> jph jb = TWaiting -> jstarted jb = true -> jret jb <> None) /\ ~ In ESubmit t3.

Lemma abs_some_nonempty t jb : jrun jinit t = Some (abs_job jb) -> t <> [].
Proof. intros R ->. cbn in R. discriminate R. Qed.

Lemma time_clauses c w b tr g j : grun c (ginit w b) tr = Some g -> nokill tr = true -> timing c (ginit w b) tr -> j < length (jobs g) ->
  let o := otrace c (ginit w b) tr in straddles j o && negb (told_before_s2 j o) = false /\ born_after_s2 j o = false.
Proof.
  intros R K T Hj o. set (g0 := ginit w b) in *.
  destruct (split_sent tr) as [N|(t1 & r & -> & N1)].
  { pose proof (after_none _ (otrace_nosent c tr g0 N)) as A. unfold straddles, born_after_s2. fold o in A. rewrite A. auto. }
  rewrite grun_app in R. destruct (grun c g0 t1) as [g1|] eqn:R1; [|discriminate]. cbn [grun gstep] in R.
  assert (O1 : o = otrace c g0 t1 ++ Sentinel :: otrace c g1 r).
  { unfold o. rewrite (otrace_app c t1 g0 g1 _ R1). reflexivity. }
  pose proof (otrace_nosent c t1 g0 N1) as S1. destruct (before_app _ (otrace c g1 r) S1) as [B1 A1]. rewrite <- O1 in B1, A1.
  destruct (split_sent r) as [N|(t2 & t3 & -> & N2)].
  { pose proof (after_none _ (otrace_nosent c r g1 N)) as A. unfold straddles, born_after_s2. rewrite A1, A. auto. }
  rewrite grun_app in R. destruct (grun c g1 t2) as [g2|] eqn:R2; [|discriminate]. cbn [grun gstep] in R.
  assert (O2 : otrace c g1 (t2 ++ ESentinel :: t3) = otrace c g1 t2 ++ Sentinel :: otrace c g2 t3).
  { rewrite (otrace_app c t2 g1 g2 _ R2). reflexivity. }
  pose proof (otrace_nosent c t2 g1 N2) as S2. destruct (before_app _ (otrace c g2 t3) S2) as [B2 A2]. rewrite <- O2 in B2, A2.
  set (o1 := otrace c g0 t1) in *. set (o2 := otrace c g1 t2) in *. set (o3 := otrace c g2 t3) in *.
  (* the prefix up to the second sentinel *)
  assert (Rp : grun c g0 (t1 ++ ESentinel :: t2) = Some g2) by (rewrite grun_app, R1; cbn [grun gstep]; exact R2).
  destruct (T t1 t2 t3 g2 eq_refl N1 N2 Rp) as [TA TB].
  assert (Kp : nokill (t1 ++ ESentinel :: t2) = true).
  { rewrite nokill_app in K. apply andb_true_iff in K as [K1 K2]. cbn in K2. rewrite nokill_app in K2. apply andb_true_iff in K2 as [K2 _].
    rewrite nokill_app, K1. cbn. exact K2. }
  assert (Op : otrace c g0 (t1 ++ ESentinel :: t2) = o1 ++ Sentinel :: o2).
  { rewrite (otrace_app c t1 g0 g1 _ R1). reflexivity. }
  pose proof (refinement c w b _ g2 j Rp Kp) as RF. fold g0 in RF. rewrite Op, proj_sentinel in RF.
  set (t := proj j (o1 ++ o2)) in *.
  pose proof (run_started _ _ _ RF) as Fs. pose proof (run_facts _ _ _ RF) as [Fw Fr]. cbn in Fs, Fw, Fr.
  pose proof (inv_run c _ _ _ (inv_init c w b) Rp) as I2.
  pose proof (nokilled_run c _ g0 g2 eq_refl Rp Kp) as Nk2.
  split.
  - unfold straddles, told_before_s2. rewrite A1, A2, B1, B2.
    destruct (occurs j is_start o1) eqn:Es; [|reflexivity]. destruct (occurs j is_return (o1 ++ o2)) eqn:Er; [reflexivity|]. cbn.
    apply negb_false_iff. rewrite occurs_proj in *. fold t. fold t in Er.
    assert (Est : existsb is_start t = true). { unfold t. rewrite proj_app, existsb_app, Es. reflexivity. }
    rewrite Est in Fs. rewrite Er in Fr.
    unfold abs in *. destruct (getj g2 j) as [jb|] eqn:Hg; [|discriminate Fs]. cbn in Fs, Fr, Fw.
    pose proof (getj_ok _ _ _ _ I2 Hg) as OK. pose proof (ok_phase _ _ OK) as P. unfold phase_ok in P.
    pose proof (forallb_nth _ _ _ _ Nk2 Hg) as Al. unfold alive in Al.
    apply wcancelling_in. rewrite <- Fw. destruct (ok_hist _ _ OK) as [Hc _ _]. cbn in Hc. apply last_st_in. rewrite <- Hc.
    destruct (jph jb) eqn:Ep; try discriminate Al.
    + destruct P as (_ & X & _). congruence.
    + exfalso. apply (TA j jb Hg Ep Fs). destruct (jret jb); [discriminate Fr| reflexivity].
    + rewrite P. reflexivity.
    + destruct P as [_ X]. destruct (jret jb); [discriminate Fr| congruence].
    + destruct P as [_ X]. destruct (jret jb); [discriminate Fr| congruence].
  - unfold born_after_s2. rewrite A1, A2, B1, B2. unfold any_ev. rewrite !occurs_proj. fold t.
    assert (L : length (jobs g) = length (jobs g2)) by (apply (njobs_run c t3 g2 g R TB)).
    assert (Hj2 : j < length (jobs g2)) by lia.
    unfold abs in RF. destruct (getj g2 j) as [jb|] eqn:Hg; [|apply nth_error_None in Hg; lia].
    pose proof (abs_some_nonempty t jb RF) as Ne. destruct t; [congruence|]. reflexivity.
Qed.

(* ---------- (f) ---------- *)
Theorem model_run_is_accepted c w b tr g :
  grun c (ginit w b) tr = Some g -> closed_phase (phase g) = true -> nokill tr = true -> timing c (ginit w b) tr ->
  ok_C14 (length (jobs g)) (otrace c (ginit w b) tr) (vals_of g) (rows g) (fc c) 0 = None.
Proof.
  intros R C K T. unfold ok_C14.
  destruct (closed_all_reported c w b tr g R C (or_intror K)) as [Ln Rep].
  pose proof (inv_run c tr _ _ (inv_init c w b) R) as I.
  rewrite first_bad_all_zero.
  - rewrite Ln, Nat.eqb_refl. reflexivity.
  - intros j Hj. apply in_seq in Hj. destruct Hj as [_ Hj]. cbn in Hj.
    destruct (nth_error (jobs g) j) as [jb|] eqn:Hg; [|apply nth_error_None in Hg; lia].
    destruct (Rep j jb Hg) as [(Tm & v & Rv & G & _) Ph]. specialize (Ph K). destruct (G Ph) as [Ev Es].
    destruct (time_clauses c w b tr g j R K T Hj) as [C6 C9].
    pose proof (refinement c w b tr g j R K) as RF. unfold abs, getj in RF. rewrite Hg in RF.
    unfold ok_job. rewrite RF. cbn [abs_job cur writes returned]. rewrite Tm. cbn [negb]. rewrite Rv.
    replace (st_eqb (jstat jb) (jstat jb)) with true by (symmetry; apply st_eqb_eq; reflexivity). cbn [negb].
    rewrite C6, C9.
    assert (C7 : mem_st CANCELLING (jhist jb) && st_eqb (jstat jb) DONE = false).
    { destruct (st_eqb (jstat jb) DONE) eqn:Ed; [|apply andb_false_r]. apply st_eqb_eq in Ed. rewrite andb_true_r.
      destruct (mem_st CANCELLING (jhist jb)) eqn:Em; [|reflexivity]. exfalso. apply mem_st_In in Em.
      destruct (ok_hist _ _ (getj_ok _ _ _ _ I Hg)) as [Hc Hp _]. cbn in Hc, Hp.
      apply (cancelling_excludes_done _ Hp Em). apply last_st_in. rewrite <- Hc, Ed. reflexivity. }
    rewrite C7, Ev. cbn [is_some]. rewrite (lookup_vals_of g j jb Hg), Ev, Z.eqb_refl. reflexivity.
Qed.

(* a decidable form of the timing assumption (used for the non-vacuity examples) *)
Fixpoint split_at_sent (tr : list ev) : option (list ev * list ev) :=
  match tr with
  | [] => None
  | e :: r => if not_sent e then match split_at_sent r with Some (a, b) => Some (e :: a, b) | None => None end else Some ([], r)
  end.

Definition calm (jb : job) : bool :=
  negb (match jph jb with TWaiting => true | _ => false end && jstarted jb && negb (is_some (jret jb))).

Definition timingb (c : cfg) (g0 : gst) (tr : list ev) : bool :=
  match split_at_sent tr with
  | None => true
  | Some (t1, r) =>
    match split_at_sent r with
    | None => true
    | Some (t2, t3) =>
      match grun c g0 (t1 ++ ESentinel :: t2) with
      | None => true
      | Some g2 => forallb calm (jobs g2) && forallb (fun e => negb (is_submit e)) t3
      end
    end
  end.

Lemma split_at_sent_spec : forall t1 r, nosent t1 = true -> split_at_sent (t1 ++ ESentinel :: r) = Some (t1, r).
Proof.
  induction t1 as [|e t IH]; intros r N; cbn; [reflexivity|]. cbn in N. apply andb_true_iff in N as [N1 N2].
  rewrite N1, (IH r N2). reflexivity.
Qed.

Lemma timingb_sound c g0 tr : timingb c g0 tr = true -> timing c g0 tr.
Proof.
  unfold timingb, timing. intros H t1 t2 t3 g2 -> N1 N2 R.
  rewrite (split_at_sent_spec t1 _ N1), (split_at_sent_spec t2 _ N2), R in H. apply andb_true_iff in H as [H1 H2]. split.
  - intros j jb Hj Ph St Rn. pose proof (forallb_nth _ _ _ _ H1 Hj) as Cm. unfold calm in Cm. rewrite Ph, St, Rn in Cm. discriminate Cm.
  - intros X. rewrite forallb_forall in H2. specialize (H2 _ X). discriminate H2.
Qed.
