(* Boolean oracles applied to the IMPLEMENTATION's outputs (exact rationals of the returned floats, with a
   tolerance tol >= 0 for binary64 rounding), their specifications, and reflection lemmas. *)
From Coq Require Import List QArith Bool Arith Lia Lqa.
Import ListNotations.
Require Import DH.C19_Aggregators.Model DH.C19_Aggregators.Lemmas.
Open Scope Q_scope.

Definition leqt (tol a b : Q) : bool := Qle_bool a (b + tol).
Definition closeb (tol a b : Q) : bool := leqt tol a b && leqt tol b a.
Definition Close (tol a b : Q) : Prop := a <= b + tol /\ b <= a + tol.

Lemma leqt_spec tol a b : leqt tol a b = true <-> a <= b + tol.
Proof. unfold leqt. apply Qle_bool_iff. Qed.
Lemma closeb_spec tol a b : closeb tol a b = true <-> Close tol a b.
Proof. unfold closeb, Close. rewrite andb_true_iff, !leqt_spec. reflexivity. Qed.

(* ---- two results are the same up to tol (uniform = None, permutation, masked = removed) ---- *)
Definition ok_close := closeb.

(* ---- the aggregated mean lies between the members' extremes ---- *)
Definition Between (tol : Q) (xs : list Q) (m : Q) : Prop :=
  (exists x, In x xs /\ x <= m + tol) /\ (exists y, In y xs /\ m <= y + tol).
Definition ok_between (tol : Q) (xs : list Q) (m : Q) : bool :=
  match xs with [] => false | _ => leqt tol (qmin xs) m && leqt tol m (qmax xs) end.

Lemma ok_between_spec tol xs m : ok_between tol xs m = true <-> Between tol xs m.
Proof.
  unfold ok_between, Between. destruct xs as [|x0 t].
  - split; [discriminate|intros [[x [[] _]] _]].
  - set (xs := x0 :: t). assert (xs <> []) as Hne by discriminate.
    rewrite andb_true_iff, !leqt_spec. split.
    + intros [H1 H2]. split; [exists (qmin xs)|exists (qmax xs)]; split;
        [apply qmin_in, Hne|exact H1|apply qmax_in, Hne|exact H2].
    + intros [[x [Hx H1]] [y [Hy H2]]]. split.
      * pose proof (qmin_lb xs x Hx). lra.
      * pose proof (qmax_ub xs y Hy). lra.
Qed.

(* ---- normal members: total variance = aleatoric + epistemic, all non-negative ---- *)
Definition VarianceSplit (tol total ale epi : Q) : Prop :=
  Close tol total (ale + epi) /\ 0 <= ale + tol /\ 0 <= epi + tol /\ 0 <= total + tol.
Definition ok_variance_split (tol total ale epi : Q) : bool :=
  closeb tol total (ale + epi) && leqt tol 0 ale && leqt tol 0 epi && leqt tol 0 total.
Lemma ok_variance_split_spec tol total ale epi :
  ok_variance_split tol total ale epi = true <-> VarianceSplit tol total ale epi.
Proof. unfold ok_variance_split, VarianceSplit. rewrite !andb_true_iff, closeb_spec, !leqt_spec. tauto. Qed.

(* ---- class probabilities form a distribution ---- *)
Definition Distribution (tol : Q) (K : nat) (p : list Q) : Prop :=
  length p = K /\ (forall x, In x p -> 0 <= x + tol) /\ Close tol (qsum p) 1.
Definition ok_distribution (tol : Q) (K : nat) (p : list Q) : bool :=
  Nat.eqb (length p) K && forallb (leqt tol 0) p && closeb tol (qsum p) 1.
Lemma ok_distribution_spec tol K p : ok_distribution tol K p = true <-> Distribution tol K p.
Proof.
  unfold ok_distribution, Distribution. rewrite !andb_true_iff, Nat.eqb_eq, forallb_forall, closeb_spec.
  split.
  - intros [[H1 H2] H3]. split; [exact H1|split; [|exact H3]]. intros x Hx. apply leqt_spec, H2, Hx.
  - intros (H1 & H2 & H3). split; [split; [exact H1|]|exact H3]. intros x Hx. apply leqt_spec, H2, Hx.
Qed.

(* ---- confidence uncertainty 1 - max p lies in [0, 1 - 1/K] ---- *)
Definition ConfRange (tol : Q) (K : nat) (c : Q) : Prop :=
  0 <= c + tol /\ c <= 1 - 1 / inject_Z (Z.of_nat K) + tol.
Definition ok_conf_range (tol : Q) (K : nat) (c : Q) : bool :=
  leqt tol 0 c && leqt tol c (1 - 1 / inject_Z (Z.of_nat K)).
Lemma ok_conf_range_spec tol K c : ok_conf_range tol K c = true <-> ConfRange tol K c.
Proof. unfold ok_conf_range, ConfRange. rewrite andb_true_iff, !leqt_spec. reflexivity. Qed.

(* ---- decomposition: aleatoric >= 0, epistemic >= 0 (exactly: it is a max(0, .)), epistemic = max(0, total - aleatoric);
        strict (confidence): aleatoric <= total, hence total = aleatoric + epistemic ---- *)
Definition Decomp (tol : Q) (strict : bool) (total ale epi : Q) : Prop :=
  0 <= ale + tol /\ 0 <= epi /\ Close tol epi (qmx 0 (total - ale)) /\ (strict = true -> ale <= total + tol).
Definition ok_decomp (tol : Q) (strict : bool) (total ale epi : Q) : bool :=
  leqt tol 0 ale && Qle_bool 0 epi && closeb tol epi (qmx 0 (total - ale)) && (negb strict || leqt tol ale total).
Lemma ok_decomp_spec tol strict total ale epi :
  ok_decomp tol strict total ale epi = true <-> Decomp tol strict total ale epi.
Proof.
  unfold ok_decomp, Decomp. destruct strict; cbn [negb orb].
  - rewrite !andb_true_iff, closeb_spec, !leqt_spec, Qle_bool_iff. split.
    + intros [[[H1 H2] H3] H4]. tauto.
    + intros (H1 & H2 & H3 & H4). specialize (H4 eq_refl). tauto.
  - rewrite !andb_true_iff, closeb_spec, !leqt_spec, Qle_bool_iff. split.
    + intros [[[H1 H2] H3] _]. repeat split; try assumption; try apply H3. discriminate.
    + intros (H1 & H2 & H3 & _). tauto.
Qed.

Lemma decomp_strict_sum tol total ale epi : 0 <= tol -> Decomp tol true total ale epi -> Close (2 * tol) total (ale + epi).
Proof.
  intros Ht (H1 & H2 & [H3 H4] & H5). specialize (H5 eq_refl). unfold Close.
  pose proof (qmx_ub_r 0 (total - ale)) as Hr. pose proof (qmx_ub_l 0 (total - ale)) as Hl.
  destruct (qmx_cases 0 (total - ale)) as [E|E]; rewrite E in *; lra.
Qed.

(* ---- the mode is an argmax of the normalised weighted vote counts; its uncertainty ---- *)
Definition ModeSpec (tol : Q) (K : nat) (l : list (Q * option (list Q))) (md : nat) (unc : Q) : Prop :=
  let cm := nth md (counts K l) 0 in
  (md < K)%nat /\ (forall c, In c (counts K l) -> c <= cm + tol) /\ Close tol unc (1 - cm)
  /\ 0 <= unc + tol /\ unc <= 1 - 1 / inject_Z (Z.of_nat K) + tol.
Definition ok_mode (tol : Q) (K : nat) (l : list (Q * option (list Q))) (md : nat) (unc : Q) : bool :=
  let cm := nth md (counts K l) 0 in
  Nat.ltb md K && forallb (fun c => leqt tol c cm) (counts K l) && closeb tol unc (1 - cm)
  && leqt tol 0 unc && leqt tol unc (1 - 1 / inject_Z (Z.of_nat K)).
Lemma ok_mode_spec tol K l md unc : ok_mode tol K l md unc = true <-> ModeSpec tol K l md unc.
Proof.
  unfold ok_mode, ModeSpec. cbv zeta. rewrite !andb_true_iff, Nat.ltb_lt, forallb_forall, closeb_spec, !leqt_spec.
  split.
  - intros [[[[H1 H2] H3] H4] H5]. repeat split; try assumption; try apply H3. intros c Hc. apply leqt_spec, H2, Hc.
  - intros (H1 & H2 & H3 & H4 & H5). repeat split; try assumption; try apply H3. intros c Hc. apply leqt_spec, H2, Hc.
Qed.

(* ---- the model meets the specifications exactly (tol = 0) ---- *)
Lemma close0_eq a b : a == b -> Close 0 a b.
Proof. intros H. unfold Close. lra. Qed.

Theorem model_mean_between l : wnonneg l -> 0 < wtot l -> Between 0 (vals l) (mean l).
Proof.
  intros Hw HW. pose proof (mean_between_extremes l Hw HW) as [H1 H2].
  assert (vals l <> []) as Hne by (apply wtot_pos_vals; lra).
  split; [exists (qmin (vals l))|exists (qmax (vals l))]; split; [apply qmin_in, Hne|lra|apply qmax_in, Hne|lra].
Qed.

Theorem model_variance_split l : wnonneg l -> 0 < wtot l -> VarianceSplit 0 (mn_total l) (mn_ale l) (mn_epi l).
Proof.
  intros Hw HW. pose proof (mn_variance_split l) as H. pose proof (mn_ale_nonneg l Hw HW). pose proof (mn_epi_nonneg l Hw HW).
  pose proof (mn_total_nonneg l Hw HW). unfold VarianceSplit, Close. rewrite H by lra. lra.
Qed.

Theorem model_distribution K l : wnonneg l -> 0 < wtot l ->
  (forall p, unmasked_in p l -> row_ok 1 K p) -> Distribution 0 K (cat_loc K l).
Proof.
  intros Hw HW H. destruct (cat_loc_distribution 1 K l Hw HW H) as (H1 & H2 & H3).
  split; [exact H1|split; [intros x Hx; specialize (H2 x Hx); lra|apply close0_eq, H3]].
Qed.

Theorem model_conf_range K l : (0 < K)%nat -> wnonneg l -> 0 < wtot l ->
  (forall p, unmasked_in p l -> row_ok 1 K p) -> ConfRange 0 K (cat_conf 1 K l).
Proof. intros HK Hw HW H. pose proof (cat_conf_range 1 K l HK Hw HW H). unfold ConfRange. lra. Qed.

Theorem model_conf_decomp K l : (0 < K)%nat -> wnonneg l -> 0 < wtot l ->
  (forall p, unmasked_in p l -> row_ok 1 K p) ->
  Decomp 0 true (cat_conf 1 K l) (cat_conf_ale 1 l) (cat_conf_epi 1 K l).
Proof.
  intros HK Hw HW H. pose proof (cat_conf_ale_nonneg 1 K l HK Hw HW H).
  assert (cat_conf_ale 1 l <= cat_conf 1 K l) by (apply cat_conf_ale_le_total; try assumption; intros p Hp; apply H, Hp).
  unfold Decomp. repeat split; try lra; try apply epi_part_nonneg; unfold cat_conf_epi, epi_part; lra.
Qed.

Theorem model_mode K l : (0 < K)%nat -> wnonneg l -> 0 < wtot l ->
  (forall p, unmasked_in p l -> length p = K) -> ModeSpec 0 K l (mode K l) (mode_unc K l).
Proof.
  intros HK Hw HW H. destruct (mode_spec K l HK Hw HW H) as (H1 & H2 & H3 & H4 & H5).
  unfold ModeSpec. cbv zeta. split; [exact H1|]. split; [|split; [apply close0_eq, H3|lra]].
  intros c Hc. apply (In_nth _ _ 0) in Hc as [k [Hk <-]].
  assert (length (counts K l) = K) as Hlen by (unfold counts; rewrite map_length, seq_length; reflexivity).
  rewrite Hlen in Hk. specialize (H2 k Hk). lra.
Qed.
