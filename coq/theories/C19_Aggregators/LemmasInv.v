(* C19: invariances.  Two member lists are weight-equivalent when every weighted sum of the second is the same
   non-zero multiple of the weighted sum of the first; then EVERY statistic of every aggregator agrees.
   Instances: weights=None vs uniform weights, any positive rescaling of the weights, permutations of the
   members (with their weights), masked members removed / given weight zero. *)
From Coq Require Import List QArith Bool Arith Lia Lqa Permutation.
Import ListNotations.
Require Import DH.C19_Aggregators.Model DH.C19_Aggregators.Lemmas.
Open Scope Q_scope.

Definition weq {A} (l l' : list (Q * option A)) : Prop :=
  exists c, ~ c == 0 /\ forall f, wsum f l' == c * wsum f l.

Lemma weq_wtot {A} (l l' : list (Q * option A)) : weq l l' -> ~ wtot l == 0 -> ~ wtot l' == 0.
Proof.
  intros [c [Hc H]] HW E. unfold wtot in *. rewrite H in E.
  apply Qmult_integral in E as [E|E]; contradiction.
Qed.

Lemma weq_wavg {A} (f : A -> Q) l l' : weq l l' -> ~ wtot l == 0 -> wavg f l' == wavg f l.
Proof. intros [c [Hc H]] HW. unfold wavg, wtot in *. rewrite !H. field. split; assumption. Qed.

Lemma weq_defined {A} (l l' : list (Q * option A)) : weq l l' -> defined l' = defined l.
Proof.
  intros [c [Hc H]]. unfold defined, wtot. f_equal.
  destruct (Qeq_bool (wsum (fun _ => 1) l) 0) eqn:E.
  - apply Qeq_bool_iff in E. apply Qeq_bool_iff. rewrite H, E. ring.
  - destruct (Qeq_bool (wsum (fun _ => 1) l') 0) eqn:E'; [|reflexivity].
    apply Qeq_bool_iff in E'. rewrite H in E'. apply Qmult_integral in E' as [E'|E']; [contradiction|].
    apply Qeq_bool_iff in E'. congruence.
Qed.

(* ---- instances ---- *)
Lemma weq_refl {A} (l : list (Q * option A)) : weq l l.
Proof. exists 1. split; [lra|intros; ring]. Qed.

Lemma weq_perm {A} (l l' : list (Q * option A)) : Permutation l l' -> weq l l'.
Proof. intros H. exists 1. split; [lra|]. intros f. rewrite (wsum_perm f l l' H). ring. Qed.

Lemma weq_scalew {A} c (l : list (Q * option A)) : ~ c == 0 -> weq l (scalew c l).
Proof. intros Hc. exists c. split; [exact Hc|]. intros f. apply wsum_scalew. Qed.

Lemma weq_uniform {A} c (xs : list (option A)) : ~ c == 0 ->
  weq (attach None xs) (attach (Some (repeat c (length xs))) xs).
Proof. intros Hc. exists c. split; [exact Hc|]. intros f. apply wsum_attach_uniform. Qed.

Lemma weq_masked_removed {A} (l1 l2 : list (Q * option A)) w : weq (l1 ++ (w, None) :: l2) (l1 ++ l2).
Proof. exists 1. split; [lra|]. intros f. rewrite wsum_masked_removed. ring. Qed.

Lemma weq_masked_zero {A} (l1 l2 : list (Q * option A)) w x : weq (l1 ++ (w, None) :: l2) (l1 ++ (0, Some x) :: l2).
Proof. exists 1. split; [lra|]. intros f. rewrite (wsum_masked_zero f l1 l2 w x). ring. Qed.

Lemma weq_zero_removed {A} (l1 l2 : list (Q * option A)) o : weq (l1 ++ (0, o) :: l2) (l1 ++ l2).
Proof. exists 1. split; [lra|]. intros f. rewrite !wsum_app. destruct o; cbn [wsum]; ring. Qed.

(* a member of weight w1 + w2 = the same member twice, with weights w1 and w2 *)
Lemma weq_split {A} (l1 l2 : list (Q * option A)) w1 w2 o : weq (l1 ++ (w1 + w2, o) :: l2) (l1 ++ (w1, o) :: (w2, o) :: l2).
Proof. exists 1. split; [lra|]. intros f. rewrite !wsum_app. destruct o; cbn [wsum]; ring. Qed.

Lemma weq_drop_masked {A} (l : list (Q * option A)) : weq l (drop_masked l).
Proof. exists 1. split; [lra|]. intros f. rewrite wsum_drop_masked. ring. Qed.

Lemma wsum_probs_of (f : list Q -> Q) l : wsum f (probs_of l) = wsum (fun r => f (map fst r)) l.
Proof.
  unfold probs_of. induction l as [|[w [r|]] t IH]; cbn [map wsum fst snd option_map]; [reflexivity|rewrite IH; reflexivity|exact IH].
Qed.

Lemma weq_probs_of l l' : weq l l' -> weq (probs_of l) (probs_of l').
Proof. intros [c [Hc H]]. exists c. split; [exact Hc|]. intros f. rewrite !wsum_probs_of. apply H. Qed.

Lemma wtot_probs_of l : wtot (probs_of l) = wtot l.
Proof. unfold wtot. rewrite wsum_probs_of. reflexivity. Qed.

(* ---- compatibility of the list functions with pointwise == ---- *)
Lemma leq_map {B} (f g : B -> Q) ks : (forall k, f k == g k) -> leq (map f ks) (map g ks).
Proof. intros H. induction ks as [|k t IH]; cbn [map]; constructor; [apply H|exact IH]. Qed.

Lemma leq_refl l : leq l l.
Proof. induction l; constructor; [reflexivity|assumption]. Qed.

Lemma entT_combine_compat p p' lg : leq p p' -> entT (combine p lg) == entT (combine p' lg).
Proof.
  unfold entT. intros H. apply Qopp_comp. revert lg. induction H as [|x x' t t' Hx _ IH]; intros lg; [reflexivity|].
  destruct lg as [|y lg]; cbn [combine map]; [reflexivity|]. rewrite !qsum_cons. cbn [fst snd]. rewrite Hx, (IH lg). reflexivity.
Qed.

Lemma epi_part_compat t t' a a' : t == t' -> a == a' -> epi_part t a == epi_part t' a'.
Proof. intros Ht Ha. unfold epi_part. apply qmx_compat; [reflexivity|rewrite Ht, Ha; reflexivity]. Qed.

(* ---- what "the same outputs" means, per aggregator ---- *)
Definition SameMean (l l' : list (Q * option Q)) : Prop :=
  mean l' == mean l /\ mean_var l' == mean_var l /\ defined l' = defined l.

Definition SameNormal (l l' : list (Q * option (Q * Q))) : Prop :=
  mn_loc l' == mn_loc l /\ mn_total l' == mn_total l /\ mn_ale l' == mn_ale l /\ mn_epi l' == mn_epi l
  /\ defined l' = defined l.

Definition SameCategorical (u : Q) (K : nat) (l l' : list (Q * option (list Q))) : Prop :=
  leq (cat_loc K l') (cat_loc K l) /\ cat_conf u K l' == cat_conf u K l /\ cat_conf_ale u l' == cat_conf_ale u l
  /\ cat_conf_epi u K l' == cat_conf_epi u K l /\ defined l' = defined l.

Definition SameEntropy (K : nat) (lgE : list Q) (l l' : list (Q * option (list (Q * Q)))) : Prop :=
  cat_ent K l' lgE == cat_ent K l lgE /\ cat_ent_ale l' == cat_ent_ale l /\ cat_ent_epi K l' lgE == cat_ent_epi K l lgE
  /\ defined l' = defined l.

Definition SameMode (K : nat) (l l' : list (Q * option (list Q))) : Prop :=
  leq (counts K l') (counts K l) /\ mode K l' = mode K l /\ mode_unc K l' == mode_unc K l /\ defined l' = defined l.

Lemma weq_mean l l' : weq l l' -> ~ wtot l == 0 -> SameMean l l'.
Proof.
  intros H HW. assert (mean l' == mean l) as Hm by (apply weq_wavg; assumption).
  split; [exact Hm|split; [|apply weq_defined, H]].
  unfold mean_var. rewrite (weq_wavg _ l l' H HW). apply wavg_ext. intros x _. rewrite Hm. reflexivity.
Qed.

Lemma weq_normal l l' : weq l l' -> ~ wtot l == 0 -> SameNormal l l'.
Proof.
  intros H HW. assert (mn_loc l' == mn_loc l) as Hm by (apply weq_wavg; assumption).
  split; [exact Hm|]. split; [|split; [|split; [|apply weq_defined, H]]].
  - unfold mn_total. rewrite Hm, (weq_wavg _ l l' H HW). reflexivity.
  - apply weq_wavg; assumption.
  - unfold mn_epi. rewrite (weq_wavg _ l l' H HW). apply wavg_ext. intros x _. rewrite Hm. reflexivity.
Qed.

Lemma weq_cat_loc K l l' : weq l l' -> ~ wtot l == 0 -> leq (cat_loc K l') (cat_loc K l).
Proof. intros H HW. unfold cat_loc. apply leq_map. intros k. apply weq_wavg; assumption. Qed.

Lemma weq_categorical u K l l' : weq l l' -> ~ wtot l == 0 -> SameCategorical u K l l'.
Proof.
  intros H HW. pose proof (weq_cat_loc K l l' H HW) as Hl.
  assert (cat_conf u K l' == cat_conf u K l) as Hc by (unfold cat_conf, conf; rewrite (qmax_compat _ _ Hl); reflexivity).
  assert (cat_conf_ale u l' == cat_conf_ale u l) as Ha by (apply weq_wavg; assumption).
  split; [exact Hl|split; [exact Hc|split; [exact Ha|split; [|apply weq_defined, H]]]].
  unfold cat_conf_epi. apply epi_part_compat; assumption.
Qed.

Lemma weq_entropy K lgE l l' : weq l l' -> ~ wtot l == 0 -> SameEntropy K lgE l l'.
Proof.
  intros H HW.
  assert (cat_ent K l' lgE == cat_ent K l lgE) as Ht.
  { unfold cat_ent. apply entT_combine_compat, weq_cat_loc; [apply weq_probs_of, H|rewrite wtot_probs_of; exact HW]. }
  assert (cat_ent_ale l' == cat_ent_ale l) as Ha by (apply weq_wavg; assumption).
  split; [exact Ht|split; [exact Ha|split; [|apply weq_defined, H]]].
  unfold cat_ent_epi. apply epi_part_compat; assumption.
Qed.

Lemma weq_mode K l l' : weq l l' -> ~ wtot l == 0 -> SameMode K l l'.
Proof.
  intros H HW. assert (leq (counts K l') (counts K l)) as Hc.
  { unfold counts. apply leq_map. intros k. apply weq_wavg; assumption. }
  split; [exact Hc|split; [apply argmax_compat, Hc|split; [|apply weq_defined, H]]].
  unfold mode_unc. rewrite (qmax_compat _ _ Hc). reflexivity.
Qed.

(* all aggregators at once: R relates two member lists (of any payload type) *)
Definition all_same (R : forall A : Type, list (Q * option A) -> list (Q * option A) -> Prop) : Prop :=
  (forall l l', R Q l l' -> ~ wtot l == 0 -> SameMean l l')
  /\ (forall l l', R (Q * Q)%type l l' -> ~ wtot l == 0 -> SameNormal l l')
  /\ (forall u K l l', R (list Q) l l' -> ~ wtot l == 0 -> SameCategorical u K l l')
  /\ (forall K lgE l l', R (list (Q * Q)) l l' -> ~ wtot l == 0 -> SameEntropy K lgE l l')
  /\ (forall K l l', R (list Q) l l' -> ~ wtot l == 0 -> SameMode K l l').

Lemma all_same_weq (R : forall A : Type, list (Q * option A) -> list (Q * option A) -> Prop) :
  (forall A l l', R A l l' -> weq l l') -> all_same R.
Proof.
  intros H. split; [|split; [|split; [|split]]]; intros.
  - apply weq_mean; [eapply H; eauto|assumption].
  - apply weq_normal; [eapply H; eauto|assumption].
  - apply weq_categorical; [eapply H; eauto|assumption].
  - apply weq_entropy; [eapply H; eauto|assumption].
  - apply weq_mode; [eapply H; eauto|assumption].
Qed.

Definition R_uniform (c : Q) : forall A : Type, list (Q * option A) -> list (Q * option A) -> Prop :=
  fun A l l' => exists xs, l = attach None xs /\ l' = attach (Some (repeat c (length xs))) xs.
Definition R_rescaled (c : Q) : forall A : Type, list (Q * option A) -> list (Q * option A) -> Prop :=
  fun A l l' => l' = scalew c l.
Definition R_permuted : forall A : Type, list (Q * option A) -> list (Q * option A) -> Prop :=
  fun A l l' => Permutation l l'.
(* l' is l with one masked member removed, or given weight 0 and any payload, or with all masked members removed *)
Definition R_unmasked : forall A : Type, list (Q * option A) -> list (Q * option A) -> Prop :=
  fun A l l' => (exists l1 l2 w, l = l1 ++ (w, None) :: l2 /\ (l' = l1 ++ l2 \/ exists x, l' = l1 ++ (0, Some x) :: l2))
                \/ l' = drop_masked l.

(* l' is l with a member of weight 0 removed, or with a member split in two (same payload, weights adding up) *)
Definition R_zero_or_split : forall A : Type, list (Q * option A) -> list (Q * option A) -> Prop :=
  fun A l l' => exists l1 l2 o, (l = l1 ++ (0, o) :: l2 /\ l' = l1 ++ l2)
                                \/ (exists w1 w2, l = l1 ++ (w1 + w2, o) :: l2 /\ l' = l1 ++ (w1, o) :: (w2, o) :: l2).

Lemma zero_or_split_same : all_same R_zero_or_split.
Proof.
  apply all_same_weq. intros A l l' (l1 & l2 & o & [[-> ->]|(w1 & w2 & -> & ->)]).
  - apply weq_zero_removed.
  - apply weq_split.
Qed.

Lemma uniform_is_none c : ~ c == 0 -> all_same (R_uniform c).
Proof. intros Hc. apply all_same_weq. intros A l l' [xs [-> ->]]. apply weq_uniform, Hc. Qed.

Lemma rescaled_same c : ~ c == 0 -> all_same (R_rescaled c).
Proof. intros Hc. apply all_same_weq. intros A l l' ->. apply weq_scalew, Hc. Qed.

Lemma perm_invariant : all_same R_permuted.
Proof. apply all_same_weq. intros A l l' H. apply weq_perm, H. Qed.

Lemma masked_ignored : all_same R_unmasked.
Proof.
  apply all_same_weq. intros A l l' [(l1 & l2 & w & -> & [-> | [x ->]])| ->].
  - apply weq_masked_removed.
  - apply weq_masked_zero.
  - apply weq_drop_masked.
Qed.
