(* C19: the composite statements closed by Property.v (each is a conjunction of lemmas proved elsewhere). *)
From Coq Require Import List QArith Bool Arith Permutation Lqa.
Import ListNotations.
Require Import DH.C19_Aggregators.Model DH.C19_Aggregators.Lemmas DH.C19_Aggregators.LemmasInv
  DH.C19_Aggregators.LemmasScale DH.C19_Aggregators.LemmasEntropy DH.C19_Aggregators.LemmasToday DH.C19_Aggregators.Check.
Open Scope Q_scope.

Lemma mean_between_extremes_main : forall l, wnonneg l -> 0 < wtot l ->
  qmin (vals l) <= mean l <= qmax (vals l)
  /\ (forall lo hi, (forall x, active_in x l -> lo <= x <= hi) -> lo <= mean l <= hi).
Proof. intros l Hw HW. split; [apply mean_between_extremes; assumption|intros lo hi H; apply mean_between; assumption]. Qed.

Lemma variances_nonneg_main : forall l, wnonneg l -> 0 < wtot l -> 0 <= mn_ale l /\ 0 <= mn_epi l /\ 0 <= mn_total l.
Proof. intros l Hw HW. split; [apply mn_ale_nonneg|split; [apply mn_epi_nonneg|apply mn_total_nonneg]]; assumption. Qed.

Lemma decomposition_nonneg_main : forall K l, (0 < K)%nat -> wnonneg l -> 0 < wtot l ->
  (forall p, unmasked_in p l -> row_ok 1 K p) ->
  0 <= cat_conf_ale 1 l /\ 0 <= cat_conf_epi 1 K l /\ cat_conf_ale 1 l <= cat_conf 1 K l
  /\ cat_conf 1 K l == cat_conf_ale 1 l + cat_conf_epi 1 K l.
Proof.
  intros K l HK Hw HW H.
  assert (forall p, unmasked_in p l -> length p = K) as Hlen by (intros p Hp; apply H, Hp).
  split; [apply (cat_conf_ale_nonneg 1 K); assumption|]. split; [apply epi_part_nonneg|].
  split; [apply cat_conf_ale_le_total; assumption|apply cat_conf_split; assumption].
Qed.

Lemma entropy_decomposition_main : forall (lg : Q -> Q) (eps : Q), (forall x y, x == y -> lg x == lg y) ->
  forall K l, wnonneg l -> 0 < wtot l -> (forall p, unmasked_in p l -> row_ok 1 K p) ->
  let ml := with_logs lg eps l in
  let lgE := logs_of lg eps (cat_loc K l) in
  0 <= cat_ent_epi K ml lgE
  /\ cat_ent K ml lgE = ent lg eps (cat_loc K l) /\ cat_ent_ale ml = wavg (ent lg eps) l
  /\ ((forall x y, eps <= x -> x <= y -> lg x <= lg y) ->
      - lg (1 + eps) <= cat_ent_ale ml /\ - lg (1 + eps) <= cat_ent K ml lgE)
  /\ ((forall t x y, 0 <= t <= 1 -> 0 <= x <= 1 -> 0 <= y <= 1 ->
         t * phi lg eps x + (1 - t) * phi lg eps y <= phi lg eps (t * x + (1 - t) * y)) ->
      cat_ent_ale ml <= cat_ent K ml lgE /\ cat_ent K ml lgE == cat_ent_ale ml + cat_ent_epi K ml lgE).
Proof.
  intros lg eps Hp K l Hw HW H ml lgE. unfold ml, lgE.
  split; [apply epi_part_nonneg|]. split; [apply cat_ent_fun|]. split; [apply cat_ent_ale_fun|]. split.
  - intros Hm. split; [apply (cat_ent_ale_lower lg eps Hm K); assumption|].
    rewrite cat_ent_fun. apply (ent_lower lg eps Hm K). apply (cat_loc_distribution 1); assumption.
  - intros Hc. apply (cat_ent_split lg eps Hp Hc); assumption.
Qed.

Lemma mode_weighted_vote_main : forall K l, (0 < K)%nat -> wnonneg l -> 0 < wtot l ->
  (forall p, unmasked_in p l -> length p = K) ->
  row_ok 1 K (counts K l)
  /\ (mode K l < K)%nat
  /\ (forall k, (k < K)%nat -> nth k (counts K l) 0 <= nth (mode K l) (counts K l) 0)
  /\ mode_unc K l == 1 - nth (mode K l) (counts K l) 0
  /\ 0 <= mode_unc K l <= 1 - 1 / inject_Z (Z.of_nat K).
Proof. intros K l HK Hw HW H. split; [apply counts_distribution; assumption|apply mode_spec; assumption]. Qed.

Lemma scale_mean_normal_main : forall c l1 l2, ~ wtot l1 == 0 -> ~ wtot l2 == 0 ->
  mean (pmap (Qmult c) l1) == c * mean l1 /\ mean_var (pmap (Qmult c) l1) == (c * c) * mean_var l1
  /\ mn_loc (pmap (scale2 c) l2) == c * mn_loc l2 /\ mn_total (pmap (scale2 c) l2) == (c * c) * mn_total l2
  /\ mn_ale (pmap (scale2 c) l2) == (c * c) * mn_ale l2 /\ mn_epi (pmap (scale2 c) l2) == (c * c) * mn_epi l2.
Proof.
  intros c l1 l2 H1 H2. split; [apply scale_mean, H1|]. split; [apply scale_mean_var, H1|]. split; [apply scale_mn_loc, H2|].
  split; [apply scale_mn_total, H2|]. split; [apply scale_mn_ale, H2|apply scale_mn_epi, H2].
Qed.

Lemma scale_categorical_main : forall c d u K l le lgE, 0 < c -> 0 < d -> ~ wtot l == 0 -> ~ wtot le == 0 ->
  leq (cat_loc K (pmap (map (Qmult c)) l)) (map (Qmult c) (cat_loc K l))
  /\ cat_conf (c * u) K (pmap (map (Qmult c)) l) == c * cat_conf u K l
  /\ cat_conf_ale (c * u) (pmap (map (Qmult c)) l) == c * cat_conf_ale u l
  /\ cat_conf_epi (c * u) K (pmap (map (Qmult c)) l) == c * cat_conf_epi u K l
  /\ cat_ent K (pmap (scale_pl c d) le) (map (Qmult d) lgE) == (c * d) * cat_ent K le lgE
  /\ cat_ent_ale (pmap (scale_pl c d) le) == (c * d) * cat_ent_ale le
  /\ cat_ent_epi K (pmap (scale_pl c d) le) (map (Qmult d) lgE) == (c * d) * cat_ent_epi K le lgE
  /\ counts K (pmap (map (Qmult c)) l) = counts K l
  /\ mode K (pmap (map (Qmult c)) l) = mode K l /\ mode_unc K (pmap (map (Qmult c)) l) = mode_unc K l.
Proof.
  intros c d u K l le lgE Hc Hd HW HWe. assert (0 < c * d) as Hcd by nra.
  split; [apply scale_cat_loc, HW|]. split; [apply scale_cat_conf; assumption|]. split; [apply scale_cat_conf_ale; assumption|].
  split; [apply scale_cat_conf_epi; assumption|]. split; [apply scale_cat_ent, HWe|]. split; [apply scale_cat_ent_ale, HWe|].
  split; [apply scale_cat_ent_epi; assumption|]. split; [apply scale_counts, Hc|apply scale_mode, Hc].
Qed.

Lemma oracles_main : forall tol,
  (forall a b, ok_close tol a b = true <-> Close tol a b)
  /\ (forall xs m, ok_between tol xs m = true <-> Between tol xs m)
  /\ (forall t a e, ok_variance_split tol t a e = true <-> VarianceSplit tol t a e)
  /\ (forall K p, ok_distribution tol K p = true <-> Distribution tol K p)
  /\ (forall K c, ok_conf_range tol K c = true <-> ConfRange tol K c)
  /\ (forall s t a e, ok_decomp tol s t a e = true <-> Decomp tol s t a e)
  /\ (forall K l md unc, ok_mode tol K l md unc = true <-> ModeSpec tol K l md unc).
Proof.
  intros tol. split; [apply closeb_spec|]. split; [apply ok_between_spec|]. split; [apply ok_variance_split_spec|].
  split; [apply ok_distribution_spec|]. split; [apply ok_conf_range_spec|]. split; [apply ok_decomp_spec|apply ok_mode_spec].
Qed.

Lemma model_meets_specs_main :
  (forall l, wnonneg l -> 0 < wtot l -> Between 0 (vals l) (mean l))
  /\ (forall l, wnonneg l -> 0 < wtot l -> VarianceSplit 0 (mn_total l) (mn_ale l) (mn_epi l))
  /\ (forall K l, (0 < K)%nat -> wnonneg l -> 0 < wtot l -> (forall p, unmasked_in p l -> row_ok 1 K p) ->
        Distribution 0 K (cat_loc K l) /\ ConfRange 0 K (cat_conf 1 K l)
        /\ Decomp 0 true (cat_conf 1 K l) (cat_conf_ale 1 l) (cat_conf_epi 1 K l))
  /\ (forall K l, (0 < K)%nat -> wnonneg l -> 0 < wtot l -> (forall p, unmasked_in p l -> length p = K) ->
        ModeSpec 0 K l (mode K l) (mode_unc K l)).
Proof.
  split; [exact model_mean_between|]. split; [exact model_variance_split|]. split.
  - intros K l HK Hw HW H. split; [apply model_distribution; assumption|]. split; [apply model_conf_range; assumption|apply model_conf_decomp; assumption].
  - exact model_mode.
Qed.
