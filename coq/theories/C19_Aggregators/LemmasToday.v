(* C19: the pinned tree's behaviour (before the repairs F18, F24, F25) - where it agrees with the repaired
   model, and concrete witnesses where it violates the property. *)
From Coq Require Import List QArith Bool Arith Lia Lqa.
Import ListNotations.
Require Import DH.C19_Aggregators.Model DH.C19_Aggregators.Lemmas.
Open Scope Q_scope.

(* F18: weights 0.9 / 0.1, locs 0 / 10, scales 1 / 1: total variance 10 = 1 + 9, but the unweighted epistemic part is 25 *)
Definition w18 : list (Q * option (Q * Q)) := [(9 # 10, Some (0, 1)); (1 # 10, Some (10 # 1, 1))].

Lemma decomposed_weights_refuted :
  exists l, wnonneg l /\ 0 < wtot l /\ ~ mn_total l == mn_ale l + mn_epi_today l
            /\ mn_total l == 10 # 1 /\ mn_ale l == 1 /\ mn_epi l == 9 # 1 /\ mn_epi_today l == 25 # 1.
Proof.
  exists w18.
  split; [intros w o [E|[E|[]]]; injection E as <- _; unfold Qle; cbn; lia|].
  split; [vm_compute; reflexivity|].
  split; [unfold Qeq; vm_compute; discriminate|].
  split; [vm_compute; reflexivity|].
  split; [vm_compute; reflexivity|].
  split; vm_compute; reflexivity.
Qed.

(* F24: three members voting 0, 0, 1 *)
Definition x24 : list (option (list Q)) := [Some [7 # 10; 3 # 10]; Some [6 # 10; 4 # 10]; Some [2 # 10; 8 # 10]].

Lemma mode_unnormalised_refuted :
  exists xs, mode_unc_today 1 2 (attach_today 1 (Some [1; 1; 1]) xs) == - (1)
             /\ mode_unc_today 1 2 (attach_today 1 None xs) == 1 # 3
             /\ mode_unc 2 (attach (Some [1; 1; 1]) xs) == 1 # 3
             /\ mode_unc 2 (attach None xs) == 1 # 3.
Proof. exists x24. repeat split; vm_compute; reflexivity. Qed.

(* F25: the first member is masked, the second votes for class 1 with weight 1/2:
   the pinned tree answers class 0 with uncertainty 1/2; ignoring the masked member gives class 1, uncertainty 0 *)
Definition x25 : list (option (list Q)) := [None; Some [0; 1]].

Lemma mode_masked_refuted :
  exists ws xs, mode_today 2 (attach_today 1 (Some ws) xs) = 0%nat
                /\ mode_unc_today 1 2 (attach_today 1 (Some ws) xs) == 1 # 2
                /\ mode 2 (attach (Some ws) xs) = 1%nat
                /\ mode_unc 2 (attach (Some ws) xs) == 0.
Proof. exists [1 # 2; 1 # 2], x25. repeat split; vm_compute; reflexivity. Qed.

(* with normalised weights and no masked member the pinned tree's counts are the repaired counts *)
Lemma unmask0_unmasked l : (forall w o, In (w, o) l -> o <> None) ->
  forall f : list Q -> Q, wsum f (unmask0 l) = wsum f l.
Proof.
  unfold unmask0. induction l as [|[w [p|]] t IH]; intros H f; cbn [map wsum fst snd]; [reflexivity| |].
  - rewrite IH; [reflexivity|]. intros w' o' Hin. apply (H w' o'). right. exact Hin.
  - exfalso. apply (H w None); [left; reflexivity|reflexivity].
Qed.

Lemma counts_today_normalised K l : (forall w o, In (w, o) l -> o <> None) -> wtot l == 1 ->
  Forall2 Qeq (counts_today K l) (counts K l).
Proof.
  intros Hm HW. unfold counts_today, counts.
  induction (seq 0 K) as [|k ks IH]; cbn [map]; constructor; [|exact IH].
  rewrite (unmask0_unmasked l Hm). unfold wavg. rewrite HW. field.
Qed.

(* with equal weights the pinned tree's epistemic variance is the repaired one: Lemmas.mn_epi_today_equal_weights *)

(* F80: loc masked, scale not (weights 1/2, 1/4, 1/4; locs -, 3, 4; scales 1, 1/2, 1/2): the pinned tree answers
   total variance 1/2 but aleatoric 5/8 + epistemic 1/4 = 7/8; with the member masked as a whole: 1/2 = 1/4 + 1/4 *)
Definition l80 : list (Q * (option Q * option Q)) :=
  [(1 # 2, (None, Some 1)); (1 # 4, (Some (3 # 1), Some (1 # 2))); (1 # 4, (Some (4 # 1), Some (1 # 2)))].

Lemma partial_mask_refuted :
  exists l, ~ mn2_total_today l == mn2_ale_today l + mn2_epi_today l
            /\ mn2_total_today l == 1 # 2 /\ mn2_ale_today l == 5 # 8 /\ mn2_epi_today l == 1 # 4
            /\ mn_total (mn_union l) == 1 # 2 /\ mn_ale (mn_union l) == 1 # 4 /\ mn_epi (mn_union l) == 1 # 4.
Proof.
  exists l80.
  split; [unfold Qeq; vm_compute; discriminate|].
  split; [vm_compute; reflexivity|]. split; [vm_compute; reflexivity|]. split; [vm_compute; reflexivity|].
  split; [vm_compute; reflexivity|]. split; vm_compute; reflexivity.
Qed.

(* when loc and scale of every member carry the same mask the pinned tree computes the repaired statistics *)
Definition masks_agree (l : list (Q * (option Q * option Q))) : Prop :=
  forall w a b, In (w, (a, b)) l -> (a = None <-> b = None).

Lemma wsum_locs_agree (f : Q -> Q) l : masks_agree l -> wsum f (mn_locs l) = wsum (fun a => f (fst a)) (mn_union l).
Proof.
  unfold mn_locs, mn_union. induction l as [|[w [[a|] [b|]]] t IH]; intros H; cbn [map wsum fst snd both];
    try (rewrite IH by (intros w' a' b' Hin; apply (H w' a' b'); right; exact Hin); reflexivity).
  - reflexivity.
  - exfalso. destruct (H w (Some a) None (or_introl eq_refl)) as [_ H1]. specialize (H1 eq_refl). discriminate.
Qed.

Lemma wsum_scales_agree (f : Q -> Q) l : masks_agree l -> wsum f (mn_scales l) = wsum (fun a => f (snd a)) (mn_union l).
Proof.
  unfold mn_scales, mn_union. induction l as [|[w [[a|] [b|]]] t IH]; intros H; cbn [map wsum fst snd both];
    try (rewrite IH by (intros w' a' b' Hin; apply (H w' a' b'); right; exact Hin); reflexivity).
  - reflexivity.
  - exfalso. destruct (H w None (Some b) (or_introl eq_refl)) as [H1 _]. specialize (H1 eq_refl). discriminate.
Qed.

Lemma partial_mask_agree l : masks_agree l -> ~ wtot (mn_union l) == 0 ->
  mn2_loc_today l == mn_loc (mn_union l) /\ mn2_ale_today l == mn_ale (mn_union l)
  /\ mn2_epi_today l == mn_epi (mn_union l) /\ mn2_total_today l == mn_total (mn_union l).
Proof.
  intros H HW.
  assert (forall f, wavg f (mn_locs l) = wavg (fun a => f (fst a)) (mn_union l)) as EL.
  { intros f. unfold wavg, wtot. rewrite !(wsum_locs_agree _ l H). reflexivity. }
  assert (forall f, wavg f (mn_scales l) = wavg (fun a => f (snd a)) (mn_union l)) as ES.
  { intros f. unfold wavg, wtot. rewrite !(wsum_scales_agree _ l H). reflexivity. }
  assert (mn2_loc_today l == mn_loc (mn_union l)) as Em by (unfold mn2_loc_today, mean, mn_loc; rewrite EL; reflexivity).
  split; [exact Em|]. split; [unfold mn2_ale_today, mn_ale; rewrite ES; reflexivity|]. split.
  - unfold mn2_epi_today, mn_epi. rewrite EL. apply wavg_ext. intros a _. rewrite Em. reflexivity.
  - rewrite (mn_variance_split _ HW). unfold mn2_total_today.
    transitivity (wavg (fun a => snd a * snd a + (fst a - mn_loc (mn_union l)) * (fst a - mn_loc (mn_union l))) (mn_union l)).
    + apply wavg_ext. intros a _. rewrite Em. reflexivity.
    + unfold mn_ale, mn_epi. rewrite <- wavg_add by exact HW. reflexivity.
Qed.

(* F81: two members with the integer scale 3 100 000 000: the int64 square wraps to a negative number, the
   aleatoric variance of the pinned tree is negative (its square root NaN) where the true one is 9.61e18 *)
Lemma int64_scale_refuted :
  exists l, mn_ale_int64 l < 0 /\ mn_ale l == 9610000000000000000 # 1
            /\ (forall w a, In (w, Some a) l -> snd a == inject_Z (Qnum (snd a))).
Proof.
  exists [(1, Some (0, inject_Z 3100000000)); (1, Some (1, inject_Z 3100000000))].
  split; [vm_compute; reflexivity|]. split; [vm_compute; reflexivity|].
  intros w a [E|[E|[]]]; injection E as _ <-; vm_compute; reflexivity.
Qed.

(* below 2^31.5 nothing wraps *)
Lemma wrap64_small z : (- 2 ^ 63 <= z < 2 ^ 63)%Z -> wrap64 z = z.
Proof. intros H. unfold wrap64. rewrite Z.mod_small by lia. lia. Qed.
