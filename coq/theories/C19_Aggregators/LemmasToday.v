(* C19: the pinned tree's behaviour (before the repairs F18, F24, F25) - where it agrees with the repaired
   model, and concrete witnesses where it violates the property. *)
From Coq Require Import List QArith Bool Arith Lia Lqa.
Import ListNotations.
Require Import DH.C19_Aggregators.Model DH.C19_Aggregators.Lemmas.
Open Scope Q_scope.

(* F18: weights 0.9 / 0.1, locs 0 / 10, scales 1 / 1: total variance 10 = 1 + 9, but the unweighted epistemic part is 25 *)
Definition w18 : list (Q * option (Q * Q)) := [(9 # 10, Some (0, 1)); (1 # 10, Some (10 # 1, 1))].

Lemma decomposed_weights_refuted :
  exists l, wnonneg l /\ 0 < wtot l /\ ~ mn_total l == mn_ale l + mn_epi_today l
            /\ mn_total l == 10 # 1 /\ mn_ale l == 1 /\ mn_epi l == 9 # 1 /\ mn_epi_today l == 25 # 1.
Proof.
  exists w18.
  split; [intros w o [E|[E|[]]]; injection E as <- _; unfold Qle; cbn; lia|].
  split; [vm_compute; reflexivity|].
  split; [unfold Qeq; vm_compute; discriminate|].
  split; [vm_compute; reflexivity|].
  split; [vm_compute; reflexivity|].
  split; vm_compute; reflexivity.
Qed.

(* F24: three members voting 0, 0, 1 *)
Definition x24 : list (option (list Q)) := [Some [7 # 10; 3 # 10]; Some [6 # 10; 4 # 10]; Some [2 # 10; 8 # 10]].

Lemma mode_unnormalised_refuted :
  exists xs, mode_unc_today 1 2 (attach_today 1 (Some [1; 1; 1]) xs) == - (1)
             /\ mode_unc_today 1 2 (attach_today 1 None xs) == 1 # 3
             /\ mode_unc 2 (attach (Some [1; 1; 1]) xs) == 1 # 3
             /\ mode_unc 2 (attach None xs) == 1 # 3.
Proof. exists x24. repeat split; vm_compute; reflexivity. Qed.

(* F25: the first member is masked, the second votes for class 1 with weight 1/2:
   the pinned tree answers class 0 with uncertainty 1/2; ignoring the masked member gives class 1, uncertainty 0 *)
Definition x25 : list (option (list Q)) := [None; Some [0; 1]].

Lemma mode_masked_refuted :
  exists ws xs, mode_today 2 (attach_today 1 (Some ws) xs) = 0%nat
                /\ mode_unc_today 1 2 (attach_today 1 (Some ws) xs) == 1 # 2
                /\ mode 2 (attach (Some ws) xs) = 1%nat
                /\ mode_unc 2 (attach (Some ws) xs) == 0.
Proof. exists [1 # 2; 1 # 2], x25. repeat split; vm_compute; reflexivity. Qed.

(* with normalised weights and no masked member the pinned tree's counts are the repaired counts *)
Lemma unmask0_unmasked l : (forall w o, In (w, o) l -> o <> None) ->
  forall f : list Q -> Q, wsum f (unmask0 l) = wsum f l.
Proof.
  unfold unmask0. induction l as [|[w [p|]] t IH]; intros H f; cbn [map wsum fst snd]; [reflexivity| |].
  - rewrite IH; [reflexivity|]. intros w' o' Hin. apply (H w' o'). right. exact Hin.
  - exfalso. apply (H w None); [left; reflexivity|reflexivity].
Qed.

Lemma counts_today_normalised K l : (forall w o, In (w, o) l -> o <> None) -> wtot l == 1 ->
  Forall2 Qeq (counts_today K l) (counts K l).
Proof.
  intros Hm HW. unfold counts_today, counts.
  induction (seq 0 K) as [|k ks IH]; cbn [map]; constructor; [|exact IH].
  rewrite (unmask0_unmasked l Hm). unfold wavg. rewrite HW. field.
Qed.

(* with equal weights the pinned tree's epistemic variance is the repaired one: Lemmas.mn_epi_today_equal_weights *)
