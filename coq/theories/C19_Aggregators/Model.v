(* Model of deephyper.ensemble.aggregator: MeanAggregator, MixedNormalAggregator, MixedCategoricalAggregator, ModeAggregator.
   Executable definitions only; proofs are in Lemmas*.v.

   Describes /repo (pinned tree, src/deephyper/ensemble/aggregator/_{mean,mixed_normal,mixed_categorical,mode}.py) WITH the
   repairs proposed in fixes/: F18 (weighted epistemic variance), F24 (mode weights normalised), F25 (masked members do not
   vote).  F26 (np.ma.square does not exist) and F27 (variance computed without cancellation) do not change the function
   computed.  The behaviour of the pinned tree before F18/F24/F25 is kept next to it: mn_epi_today, counts_today / mode_today
   (pinned), counts_mid / mode_mid (F24 applied, F25 not) - used by the _refuted theorems and by the harness to recognise the
   known findings.

   Element-wise over Q: ONE output cell (Mean, MixedNormal) or ONE output row of K classes (MixedCategorical,
   Mode) at a time; array shapes are flattened by the harness.  A member is (weight, payload) where the payload
   is None when the member's entry is masked (numpy.ma): np.ma.average multiplies the weights by the negated
   mask, so a masked entry is dropped from numerator AND denominator (weights renormalised).
   weights=None is the weight 1 for every member (np.average without weights = a.mean).
   Every statistic is a quotient by [wtot l] (the weight sum over the unmasked members); when that sum is 0
   numpy.ma returns a masked cell: [guard].  (Plain arrays with a zero weight sum raise ZeroDivisionError.)

   sqrt is not modelled: the model returns VARIANCES (scale^2).  log is not modelled: entropies take the
   value of log(p+eps) next to every probability ([entT], table form) - see Lemmas for the oracle-function form. *)
From Coq Require Import List QArith Bool Arith.
Import ListNotations.
Open Scope Q_scope.

(* ---------- weighted sums over (weight, optional payload) ---------- *)
Section Generic.
  Context {A : Type}.

  Fixpoint wsum (f : A -> Q) (l : list (Q * option A)) : Q :=
    match l with
    | [] => 0
    | (w, Some a) :: t => w * f a + wsum f t
    | (_, None) :: t => wsum f t
    end.

  Definition wtot (l : list (Q * option A)) : Q := wsum (fun _ => 1) l.
  Definition wavg (f : A -> Q) (l : list (Q * option A)) : Q := wsum f l / wtot l.

  (* the cell is defined (not masked) iff the remaining weight sum is not zero *)
  Definition defined (l : list (Q * option A)) : bool := negb (Qeq_bool (wtot l) 0).
  Definition guard (l : list (Q * option A)) (v : Q) : option Q := if defined l then Some v else None.

  (* weights=None | Some ws *)
  Definition attach (ws : option (list Q)) (xs : list (option A)) : list (Q * option A) :=
    match ws with
    | None => map (fun x => (1, x)) xs
    | Some w => combine w xs
    end.

  (* every weight replaced by 1 (what an unweighted numpy reduction sees) *)
  Definition unweight (l : list (Q * option A)) : list (Q * option A) := map (fun m => (1, snd m)) l.
End Generic.

(* ---------- max / argmax ---------- *)
Definition qmx (a b : Q) : Q := if Qle_bool a b then b else a.

Fixpoint qmax_from (x : Q) (t : list Q) : Q :=
  match t with [] => x | y :: t' => qmx x (qmax_from y t') end.
Definition qmax (l : list Q) : Q := match l with [] => 0 | x :: t => qmax_from x t end.

Fixpoint qmin_from (x : Q) (t : list Q) : Q :=
  match t with [] => x | y :: t' => let m := qmin_from y t' in if Qle_bool x m then x else m end.
Definition qmin (l : list Q) : Q := match l with [] => 0 | x :: t => qmin_from x t end.

(* numpy argmax: FIRST index of the maximum *)
Fixpoint argmax_aux (t : list Q) (i bi : nat) (bv : Q) : nat :=
  match t with
  | [] => bi
  | y :: t' => if Qle_bool y bv then argmax_aux t' (S i) bi bv else argmax_aux t' (S i) i y
  end.
Definition argmax (l : list Q) : nat := match l with [] => O | x :: t => argmax_aux t 1 0 x end.

Definition qsum (l : list Q) : Q := fold_right Qplus 0 l.

(* ---------- MeanAggregator ---------- *)
Definition mean (l : list (Q * option Q)) : Q := wavg (fun x => x) l.
(* with_scale=True: scale^2 *)
Definition mean_var (l : list (Q * option Q)) : Q :=
  let m := mean l in wavg (fun x => (x - m) * (x - m)) l.

(* ---------- MixedNormalAggregator : payload (loc, scale) ---------- *)
Definition mn_loc (l : list (Q * option (Q * Q))) : Q := wavg fst l.
(* decomposed_scale=False: scale^2 = E[loc^2 + scale^2] - E[loc]^2 *)
Definition mn_total (l : list (Q * option (Q * Q))) : Q :=
  wavg (fun a => fst a * fst a + snd a * snd a) l - mn_loc l * mn_loc l.
(* decomposed_scale=True *)
Definition mn_ale (l : list (Q * option (Q * Q))) : Q := wavg (fun a => snd a * snd a) l.
(* repaired (F18): weighted variance of the locs around the weighted mean *)
Definition mn_epi (l : list (Q * option (Q * Q))) : Q :=
  let m := mn_loc l in wavg (fun a => (fst a - m) * (fst a - m)) l.
(* pinned tree: np.std(loc, axis=0)**2 - the weights are not used *)
Definition mn_epi_today (l : list (Q * option (Q * Q))) : Q := mn_epi (unweight l).

(* loc and scale of a member given with DIFFERENT masks (only loc, or only scale, masked; one of them a plain ndarray):
   a member is (weight, (loc or masked, scale or masked)).
   Repaired (F80): a normal member without its loc or without its scale is no prediction - the member is masked where
   either is, and every statistic is the one above on [mn_union l].
   Pinned tree: each statistic uses whatever numpy.ma leaves unmasked in the arrays it happens to read:
   loc and epistemic over the loc masks, aleatoric over the scale masks, total over the union. *)
Definition both (m : option Q * option Q) : option (Q * Q) :=
  match m with (Some a, Some b) => Some (a, b) | _ => None end.
Definition mn_union (l : list (Q * (option Q * option Q))) : list (Q * option (Q * Q)) :=
  map (fun m => (fst m, both (snd m))) l.
Definition mn_locs (l : list (Q * (option Q * option Q))) : list (Q * option Q) := map (fun m => (fst m, fst (snd m))) l.
Definition mn_scales (l : list (Q * (option Q * option Q))) : list (Q * option Q) := map (fun m => (fst m, snd (snd m))) l.
Definition mn2_loc_today (l : list (Q * (option Q * option Q))) : Q := mean (mn_locs l).
Definition mn2_ale_today (l : list (Q * (option Q * option Q))) : Q := wavg (fun s => s * s) (mn_scales l).
Definition mn2_epi_today (l : list (Q * (option Q * option Q))) : Q :=
  let m := mn2_loc_today l in wavg (fun x => (x - m) * (x - m)) (mn_locs l).
Definition mn2_total_today (l : list (Q * (option Q * option Q))) : Q :=
  let m := mn2_loc_today l in wavg (fun a => snd a * snd a + (fst a - m) * (fst a - m)) (mn_union l).

(* pinned tree, integer-typed (int64) scale arrays (F81): scale**2 is computed in int64 and wraps around *)
Definition wrap64 (z : Z) : Z := ((z + 2 ^ 63) mod 2 ^ 64 - 2 ^ 63)%Z.
Definition mn_ale_int64 (l : list (Q * option (Q * Q))) : Q :=
  wavg (fun a => inject_Z (wrap64 (Qnum (snd a) * Qnum (snd a)))) l.

(* ---------- MixedCategoricalAggregator : payload = row of K class probabilities ---------- *)
Definition cat_loc (K : nat) (l : list (Q * option (list Q))) : list Q :=
  map (fun k => wavg (fun p => nth k p 0) l) (seq 0 K).
(* [u] is the unit: 1 for probabilities; 2^s when the harness passes probabilities as integers over 2^s *)
Definition conf (u : Q) (p : list Q) : Q := u - qmax p.
Definition cat_conf (u : Q) (K : nat) (l : list (Q * option (list Q))) : Q := conf u (cat_loc K l).
Definition cat_conf_ale (u : Q) (l : list (Q * option (list Q))) : Q := wavg (conf u) l.
Definition epi_part (total ale : Q) : Q := qmx 0 (total - ale).
Definition cat_conf_epi (u : Q) (K : nat) (l : list (Q * option (list Q))) : Q :=
  epi_part (cat_conf u K l) (cat_conf_ale u l).

(* entropy, table form: a row is a list of (p, value of log(p+eps)) *)
Definition entT (pl : list (Q * Q)) : Q := - qsum (map (fun a => fst a * snd a) pl).
Definition probs_of (l : list (Q * option (list (Q * Q)))) : list (Q * option (list Q)) :=
  map (fun m => (fst m, option_map (map fst) (snd m))) l.
(* lgE: the log values of the K aggregated probabilities *)
Definition cat_ent (K : nat) (l : list (Q * option (list (Q * Q)))) (lgE : list Q) : Q :=
  entT (combine (cat_loc K (probs_of l)) lgE).
Definition cat_ent_ale (l : list (Q * option (list (Q * Q)))) : Q := wavg entT l.
Definition cat_ent_epi (K : nat) (l : list (Q * option (list (Q * Q)))) (lgE : list Q) : Q :=
  epi_part (cat_ent K l lgE) (cat_ent_ale l).

(* ---------- ModeAggregator (repaired: F24 weights normalised, F25 masked members do not vote) ---------- *)
Definition vote_ind (k : nat) (p : list Q) : Q := if Nat.eqb (argmax p) k then 1 else 0.
Definition counts (K : nat) (l : list (Q * option (list Q))) : list Q :=
  map (fun k => wavg (vote_ind k) l) (seq 0 K).
Definition mode (K : nat) (l : list (Q * option (list Q))) : nat := argmax (counts K l).
Definition mode_unc (K : nat) (l : list (Q * option (list Q))) : Q := 1 - qmax (counts K l).

(* pinned tree: weights=None -> u/n each (n counts masked members too); given weights are used as they are;
   a masked member votes for class 0 (np.ma.argmax of a fully masked row); the row is masked only when every
   member is masked.  [u] is the unit of the weights (1, or 2^t for integer-scaled weights). *)
Definition attach_today {A} (u : Q) (ws : option (list Q)) (xs : list (option A)) : list (Q * option A) :=
  match ws with
  | None => map (fun x => (u / inject_Z (Z.of_nat (length xs)), x)) xs
  | Some w => combine w xs
  end.
Definition unmask0 (l : list (Q * option (list Q))) : list (Q * option (list Q)) :=
  map (fun m => (fst m, Some (match snd m with Some p => p | None => [] end))) l.
Definition counts_today (K : nat) (l : list (Q * option (list Q))) : list Q :=
  map (fun k => wsum (vote_ind k) (unmask0 l)) (seq 0 K).
Definition mode_today (K : nat) (l : list (Q * option (list Q))) : nat := argmax (counts_today K l).
Definition mode_unc_today (u : Q) (K : nat) (l : list (Q * option (list Q))) : Q := u - qmax (counts_today K l).
(* intermediate state (F24 repaired, F25 not): weights normalised, a masked member still votes for class 0 *)
Definition counts_mid (K : nat) (l : list (Q * option (list Q))) : list Q :=
  map (fun k => wavg (vote_ind k) (unmask0 l)) (seq 0 K).
Definition mode_mid (K : nat) (l : list (Q * option (list Q))) : nat := argmax (counts_mid K l).
Definition mode_unc_mid (K : nat) (l : list (Q * option (list Q))) : Q := 1 - qmax (counts_mid K l).
Definition all_masked {A} (l : list (Q * option A)) : bool :=
  forallb (fun m => match snd m with None => true | Some _ => false end) l.
