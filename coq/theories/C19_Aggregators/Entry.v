(* Entry points for the extracted driver: data -> data.
   Rationals: model inputs are INTEGERS on one power-of-two scale per case (the harness rescales the results;
   the statistics are homogeneous, see LemmasScale.v); results and the oracles' arguments are pairs (num, den). *)
From Coq Require Import List ZArith QArith Bool.
Import ListNotations.
Require Import DH.Common.Data DH.C19_Aggregators.Model DH.C19_Aggregators.Check.
Open Scope Z_scope.

Definition dQ (d : data) : Q := Qmake (dZ (dnth 0 d)) (Z.to_pos (dZ (dnth 1 d))).
Definition dQi (d : data) : Q := inject_Z (dZ d).
Definition eQ (q : Q) : data := L [I (Qnum q); I (Zpos (Qden q))].
Definition d_ws (d : data) : option (list Q) := dopt (dmap dQi) d.
Definition d_row (d : data) : list Q := dmap dQi d.
Definition d_pair (d : data) : Q * Q := (dQi (dnth 0 d), dQi (dnth 1 d)).

Definition e_mean (ws : option (list Q)) (c : data) : data :=
  let l := attach ws (dmap (dopt dQi) c) in
  L [eopt eQ (guard l (mean l)); eopt eQ (guard l (mean_var l))].

Definition e_mn (ws : option (list Q)) (c : data) : data :=
  let l := attach ws (dmap (dopt d_pair) c) in
  L [eopt eQ (guard l (mn_loc l)); eopt eQ (guard l (mn_total l)); eopt eQ (guard l (mn_ale l));
     eopt eQ (guard l (mn_epi l));
     (* pinned tree: np.ma.std ignores the weights, so the cell is defined as soon as one member is unmasked *)
     eopt eQ (guard (unweight l) (mn_epi_today l))].

(* pinned tree when loc and scale carry different masks (F80): member = [ [] | [loc] ; [] | [scale] ] *)
Definition e_mn2_today (ws : option (list Q)) (c : data) : data :=
  let xs := dmap (fun d => (dopt dQi (dnth 0 d), dopt dQi (dnth 1 d))) c in
  let l := match ws with None => map (fun x => (1%Q, x)) xs | Some w => combine w xs end in
  L [eopt eQ (guard (mn_locs l) (mn2_loc_today l)); eopt eQ (guard (mn_union l) (mn2_total_today l));
     eopt eQ (guard (mn_scales l) (mn2_ale_today l)); eopt eQ (guard (mn_locs l) (mn2_epi_today l))].

Definition e_conf (ws : option (list Q)) (u : Q) (K : nat) (r : data) : data :=
  let l := attach ws (dmap (dopt d_row) r) in
  if defined l then L [elist eQ (cat_loc K l); eQ (cat_conf u K l); eQ (cat_conf_ale u l); eQ (cat_conf_epi u K l)]
  else L [].

Definition e_ent (ws : option (list Q)) (K : nat) (rl : data * data) : data :=
  let l := attach ws (dmap (dopt (dmap d_pair)) (fst rl)) in
  let lgE := dmap dQi (snd rl) in
  if defined l then L [eQ (cat_ent K l lgE); eQ (cat_ent_ale l); eQ (cat_ent_epi K l lgE)] else L [].

Definition e_mode (ws : option (list Q)) (K : nat) (r : data) : data :=
  let l := attach ws (dmap (dopt d_row) r) in
  if defined l then L [enat (mode K l); elist eQ (counts K l); eQ (mode_unc K l)] else L [].

(* norm = false: pinned tree;  norm = true: weights normalised but masked members still vote (F24 only) *)
Definition e_mode_today (ws : option (list Q)) (u : Q) (K : nat) (norm : bool) (r : data) : data :=
  if norm then
    let l := attach ws (dmap (dopt d_row) r) in
    if all_masked l then L [] else L [enat (mode_mid K l); elist eQ (counts_mid K l); eQ (mode_unc_mid K l)]
  else
    let l := attach_today u ws (dmap (dopt d_row) r) in
    if all_masked l then L [] else L [enat (mode_today K l); elist eQ (counts_today K l); eQ (mode_unc_today u K l)].

Definition entries : list (Z * (data -> data)) :=
  [ (1901, fun d => elist (e_mean (d_ws (dnth 0 d))) (dlist (dnth 1 d)));
    (1902, fun d => elist (e_mn (d_ws (dnth 0 d))) (dlist (dnth 1 d)));
    (1903, fun d => elist (e_conf (d_ws (dnth 0 d)) (dQi (dnth 1 d)) (dnat (dnth 2 d))) (dlist (dnth 3 d)));
    (1904, fun d => elist (e_ent (d_ws (dnth 0 d)) (dnat (dnth 1 d))) (combine (dlist (dnth 2 d)) (dlist (dnth 3 d))));
    (1905, fun d => elist (e_mode (d_ws (dnth 0 d)) (dnat (dnth 1 d))) (dlist (dnth 2 d)));
    (1906, fun d => elist (e_mode_today (d_ws (dnth 0 d)) (dQi (dnth 1 d)) (dnat (dnth 2 d)) (dbool (dnth 3 d))) (dlist (dnth 4 d)));
    (1914, fun d => elist (e_mn2_today (d_ws (dnth 0 d))) (dlist (dnth 1 d)));
    (1915, fun d => let ws := d_ws (dnth 0 d) in
                    elist (fun c => let l := attach ws (dmap (dopt d_pair) c) in eopt eQ (guard l (mn_ale_int64 l))) (dlist (dnth 1 d)));
    (* oracles, batched: [tol; items] -> list of booleans *)
    (1907, fun d => let tol := dQ (dnth 0 d) in
                    elist (fun it => ebool (ok_close tol (dQ (dnth 0 it)) (dQ (dnth 1 it)))) (dlist (dnth 1 d)));
    (1908, fun d => let tol := dQ (dnth 0 d) in
                    elist (fun it => ebool (ok_between tol (dmap dQ (dnth 0 it)) (dQ (dnth 1 it)))) (dlist (dnth 1 d)));
    (1909, fun d => let tol := dQ (dnth 0 d) in
                    elist (fun it => ebool (ok_variance_split tol (dQ (dnth 0 it)) (dQ (dnth 1 it)) (dQ (dnth 2 it)))) (dlist (dnth 1 d)));
    (1910, fun d => let tol := dQ (dnth 0 d) in let K := dnat (dnth 1 d) in
                    elist (fun it => ebool (ok_distribution tol K (dmap dQ it))) (dlist (dnth 2 d)));
    (1911, fun d => let tol := dQ (dnth 0 d) in let K := dnat (dnth 1 d) in
                    elist (fun it => ebool (ok_conf_range tol K (dQ it))) (dlist (dnth 2 d)));
    (1912, fun d => let tol := dQ (dnth 0 d) in let strict := dbool (dnth 1 d) in
                    elist (fun it => ebool (ok_decomp tol strict (dQ (dnth 0 it)) (dQ (dnth 1 it)) (dQ (dnth 2 it)))) (dlist (dnth 2 d)));
    (1913, fun d => let tol := dQ (dnth 0 d) in let ws := d_ws (dnth 1 d) in let K := dnat (dnth 2 d) in
                    elist (fun it => ebool (ok_mode tol K (attach ws (dmap (dopt d_row) (dnth 0 it))) (dnat (dnth 1 it)) (dQ (dnth 2 it))))
                          (dlist (dnth 3 d))) ].
