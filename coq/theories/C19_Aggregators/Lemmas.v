(* C19: algebra of weighted sums, max/argmax, and the per-aggregator facts. *)
From Coq Require Import List QArith Qabs Bool Arith Lia Lqa Permutation Setoid Morphisms.
Import ListNotations.
Require Import DH.C19_Aggregators.Model.
Open Scope Q_scope.

(* ================= weighted sums ================= *)
Section WS.
  Context {A : Type}.
  Implicit Types (l : list (Q * option A)) (f g : A -> Q).

  Definition unmasked_in (a : A) l : Prop := exists w, In (w, Some a) l.
  Definition wnonneg l : Prop := forall w o, In (w, o) l -> 0 <= w.

  Lemma wnonneg_cons w o l : wnonneg ((w, o) :: l) -> 0 <= w /\ wnonneg l.
  Proof. intros H. split; [apply (H w o); left; reflexivity| intros w' o' Hin; apply (H w' o'); right; exact Hin]. Qed.

  Lemma unmasked_in_cons a m l : unmasked_in a l -> unmasked_in a (m :: l).
  Proof. intros [w H]. exists w. right. exact H. Qed.

  Lemma wsum_ext f g l : (forall a, unmasked_in a l -> f a == g a) -> wsum f l == wsum g l.
  Proof.
    induction l as [|[w [a|]] t IH]; intros H; cbn [wsum]; [reflexivity| |].
    - rewrite (H a) by (exists w; left; reflexivity). rewrite IH; [reflexivity|].
      intros b Hb. apply H, unmasked_in_cons, Hb.
    - apply IH. intros b Hb. apply H, unmasked_in_cons, Hb.
  Qed.

  Lemma wsum_add f g l : wsum (fun a => f a + g a) l == wsum f l + wsum g l.
  Proof. induction l as [|[w [a|]] t IH]; cbn [wsum]; [ring|rewrite IH; ring|exact IH]. Qed.

  Lemma wsum_sub f g l : wsum (fun a => f a - g a) l == wsum f l - wsum g l.
  Proof. induction l as [|[w [a|]] t IH]; cbn [wsum]; [ring|rewrite IH; ring|exact IH]. Qed.

  Lemma wsum_scal c f l : wsum (fun a => c * f a) l == c * wsum f l.
  Proof. induction l as [|[w [a|]] t IH]; cbn [wsum]; [ring|rewrite IH; ring|exact IH]. Qed.

  Lemma wsum_const c l : wsum (fun _ => c) l == c * wtot l.
  Proof. unfold wtot. induction l as [|[w [a|]] t IH]; cbn [wsum]; [ring|rewrite IH; ring|exact IH]. Qed.

  Lemma wsum_app f l1 l2 : wsum f (l1 ++ l2) == wsum f l1 + wsum f l2.
  Proof. induction l1 as [|[w [a|]] t IH]; cbn [wsum app]; [ring|rewrite IH; ring|exact IH]. Qed.

  (* a member that counts: unmasked with a positive weight *)
  Definition active_in (a : A) l : Prop := exists w, In (w, Some a) l /\ 0 < w.
  Lemma active_in_cons a m l : active_in a l -> active_in a (m :: l).
  Proof. intros [w [H H0]]. exists w. split; [right; exact H|exact H0]. Qed.
  Lemma active_unmasked a l : active_in a l -> unmasked_in a l.
  Proof. intros [w [H _]]. exists w. exact H. Qed.

  Lemma wsum_nonneg f l : wnonneg l -> (forall a, active_in a l -> 0 <= f a) -> 0 <= wsum f l.
  Proof.
    induction l as [|[w [a|]] t IH]; intros Hw Hf; cbn [wsum]; [lra| |].
    - apply wnonneg_cons in Hw as [Hw0 Hw].
      assert (0 <= wsum f t) by (apply IH; [exact Hw|intros b Hb; apply Hf, active_in_cons, Hb]).
      destruct (Qlt_le_dec 0 w) as [Hpos|Hle].
      + assert (0 <= f a) by (apply Hf; exists w; split; [left; reflexivity|exact Hpos]). nra.
      + assert (w == 0) as -> by lra. lra.
    - apply wnonneg_cons in Hw as [_ Hw]. apply IH; [exact Hw|intros b Hb; apply Hf, active_in_cons, Hb].
  Qed.

  Lemma wsum_le f g l : wnonneg l -> (forall a, active_in a l -> f a <= g a) -> wsum f l <= wsum g l.
  Proof.
    intros Hw H. assert (0 <= wsum (fun a => g a - f a) l) as H0.
    { apply wsum_nonneg; [exact Hw|]. intros a Ha. specialize (H a Ha). lra. }
    rewrite wsum_sub in H0. lra.
  Qed.

  Lemma wtot_nonneg l : wnonneg l -> 0 <= wtot l.
  Proof. intros H. apply wsum_nonneg; [exact H|intros; lra]. Qed.

  (* --- weighted averages --- *)
  Lemma wavg_ext f g l : (forall a, unmasked_in a l -> f a == g a) -> wavg f l == wavg g l.
  Proof. intros H. unfold wavg. rewrite (wsum_ext f g l H). reflexivity. Qed.

  Lemma wavg_const c l : ~ wtot l == 0 -> wavg (fun _ => c) l == c.
  Proof. intros H. unfold wavg. rewrite wsum_const. field. exact H. Qed.

  Lemma wavg_add f g l : ~ wtot l == 0 -> wavg (fun a => f a + g a) l == wavg f l + wavg g l.
  Proof. intros H. unfold wavg. rewrite wsum_add. field. exact H. Qed.

  Lemma wavg_sub f g l : ~ wtot l == 0 -> wavg (fun a => f a - g a) l == wavg f l - wavg g l.
  Proof. intros H. unfold wavg. rewrite wsum_sub. field. exact H. Qed.

  Lemma wavg_scal c f l : ~ wtot l == 0 -> wavg (fun a => c * f a) l == c * wavg f l.
  Proof. intros H. unfold wavg. rewrite wsum_scal. field. exact H. Qed.

  Lemma wavg_le f g l : wnonneg l -> 0 < wtot l -> (forall a, active_in a l -> f a <= g a) -> wavg f l <= wavg g l.
  Proof.
    intros Hw HW H. unfold wavg. pose proof (wsum_le f g l Hw H) as Hle.
    apply Qle_shift_div_l; [exact HW|]. unfold Qdiv. rewrite <- Qmult_assoc, (Qmult_comm (/ _)), Qmult_inv_r; lra.
  Qed.

  (* the average of values in [lo, hi] is in [lo, hi] *)
  Lemma wavg_bounds f lo hi l : wnonneg l -> 0 < wtot l ->
    (forall a, active_in a l -> lo <= f a <= hi) -> lo <= wavg f l <= hi.
  Proof.
    intros Hw HW H. assert (Hne : ~ wtot l == 0) by lra. split.
    - rewrite <- (wavg_const lo l Hne). apply wavg_le; [exact Hw|exact HW|intros a Ha; apply H, Ha].
    - rewrite <- (wavg_const hi l Hne). apply wavg_le; [exact Hw|exact HW|intros a Ha; apply H, Ha].
  Qed.

  (* --- scaling every weight by c: nothing changes --- *)
  Definition scalew (c : Q) l : list (Q * option A) := map (fun m => (c * fst m, snd m)) l.

  Lemma wsum_scalew c f l : wsum f (scalew c l) == c * wsum f l.
  Proof. induction l as [|[w [a|]] t IH]; cbn [wsum scalew map fst snd]; [ring|fold (scalew c t); rewrite IH; ring|exact IH]. Qed.

  Lemma wtot_scalew c l : wtot (scalew c l) == c * wtot l.
  Proof. apply wsum_scalew. Qed.

  Lemma wavg_scalew c f l : ~ c == 0 -> ~ wtot l == 0 -> wavg f (scalew c l) == wavg f l.
  Proof. intros Hc HW. unfold wavg. rewrite wtot_scalew, wsum_scalew. field. split; assumption. Qed.

  Lemma unmasked_in_scalew c a l : unmasked_in a (scalew c l) <-> unmasked_in a l.
  Proof.
    unfold unmasked_in, scalew. split.
    - intros [w H]. apply in_map_iff in H as [[w' o] [E Hin]]. cbn [fst snd] in E. injection E as _ ->. exists w'. exact Hin.
    - intros [w H]. exists (c * w). apply in_map_iff. exists (w, Some a). split; [reflexivity|exact H].
  Qed.

  (* --- permutations --- *)
  Lemma wsum_perm f l l' : Permutation l l' -> wsum f l == wsum f l'.
  Proof.
    induction 1 as [|[w [a|]] l l' _ IH|[w1 [a1|]] [w2 [a2|]] l|l l' l'' _ IH1 _ IH2]; cbn [wsum];
      try rewrite IH; try reflexivity; try ring.
    rewrite IH1. exact IH2.
  Qed.

  Lemma wavg_perm f l l' : Permutation l l' -> wavg f l == wavg f l'.
  Proof. intros H. unfold wavg, wtot. rewrite (wsum_perm f l l' H), (wsum_perm _ l l' H). reflexivity. Qed.

  Lemma unmasked_in_perm a l l' : Permutation l l' -> unmasked_in a l -> unmasked_in a l'.
  Proof. intros H [w Hin]. exists w. eapply Permutation_in; eauto. Qed.

  (* --- masked members --- *)
  Definition drop_masked l : list (Q * option A) :=
    filter (fun m => match snd m with Some _ => true | None => false end) l.

  Lemma wsum_drop_masked f l : wsum f (drop_masked l) = wsum f l.
  Proof. induction l as [|[w [a|]] t IH]; cbn [wsum drop_masked filter snd]; [reflexivity|fold (drop_masked t); rewrite IH; reflexivity|exact IH]. Qed.

  Lemma wavg_drop_masked f l : wavg f (drop_masked l) = wavg f l.
  Proof. unfold wavg, wtot. rewrite !wsum_drop_masked. reflexivity. Qed.

  (* a masked member = the same member with weight 0 and ANY payload *)
  Lemma wsum_masked_zero f l1 l2 w x : wsum f (l1 ++ (w, None) :: l2) == wsum f (l1 ++ (0, Some x) :: l2).
  Proof. rewrite !wsum_app. cbn [wsum]. ring. Qed.

  Lemma wavg_masked_zero f l1 l2 w x : wavg f (l1 ++ (w, None) :: l2) == wavg f (l1 ++ (0, Some x) :: l2).
  Proof. unfold wavg, wtot. rewrite (wsum_masked_zero f l1 l2 w x), (wsum_masked_zero _ l1 l2 w x). reflexivity. Qed.

  Lemma wsum_masked_removed f l1 l2 w : wsum f (l1 ++ (w, None) :: l2) == wsum f (l1 ++ l2).
  Proof. rewrite !wsum_app. cbn [wsum]. reflexivity. Qed.

  Lemma wavg_masked_removed f l1 l2 w : wavg f (l1 ++ (w, None) :: l2) == wavg f (l1 ++ l2).
  Proof. unfold wavg, wtot. rewrite (wsum_masked_removed f l1 l2 w), (wsum_masked_removed _ l1 l2 w). reflexivity. Qed.

  (* --- weights=None is the uniform weight c --- *)
  Lemma wsum_attach_uniform c f (xs : list (option A)) :
    wsum f (attach (Some (repeat c (length xs))) xs) == c * wsum f (attach None xs).
  Proof.
    unfold attach. induction xs as [|[a|] t IH]; cbn [length repeat combine map wsum]; [ring|rewrite IH; ring|exact IH].
  Qed.

  Lemma wavg_attach_uniform c f (xs : list (option A)) : ~ c == 0 -> ~ wtot (attach None xs) == 0 ->
    wavg f (attach (Some (repeat c (length xs))) xs) == wavg f (attach None xs).
  Proof.
    intros Hc HW. unfold wavg, wtot in *. rewrite (wsum_attach_uniform c f xs), (wsum_attach_uniform c _ xs).
    field. split; assumption.
  Qed.

  Lemma unmasked_in_attach_uniform c a (xs : list (option A)) :
    unmasked_in a (attach (Some (repeat c (length xs))) xs) <-> unmasked_in a (attach None xs).
  Proof.
    unfold unmasked_in, attach. induction xs as [|x t IH]; cbn [length repeat combine map].
    - split; intros [w []].
    - split; intros [w [E|Hin]].
      + injection E as _ ->. exists 1. left. reflexivity.
      + destruct (proj1 IH (ex_intro _ w Hin)) as [w' H']. exists w'. right. exact H'.
      + injection E as _ ->. exists c. left. reflexivity.
      + destruct (proj2 IH (ex_intro _ w Hin)) as [w' H']. exists w'. right. exact H'.
  Qed.
End WS.

(* ================= max / argmax ================= *)
Lemma qmx_ub_l a b : a <= qmx a b.
Proof. unfold qmx. destruct (Qle_bool a b) eqn:E; [apply Qle_bool_iff in E; exact E|lra]. Qed.
Lemma qmx_ub_r a b : b <= qmx a b.
Proof.
  unfold qmx. destruct (Qle_bool a b) eqn:E; [lra|].
  destruct (Qlt_le_dec b a) as [H|H]; [lra|]. apply Qle_bool_iff in H. congruence.
Qed.
Lemma qmx_cases a b : qmx a b = a \/ qmx a b = b.
Proof. unfold qmx. destruct (Qle_bool a b); auto. Qed.
Lemma qmx_lub a b c : a <= c -> b <= c -> qmx a b <= c.
Proof. intros. destruct (qmx_cases a b) as [-> | ->]; assumption. Qed.
Lemma qmx_compat a a' b b' : a == a' -> b == b' -> qmx a b == qmx a' b'.
Proof.
  intros Ha Hb. unfold qmx. destruct (Qle_bool a b) eqn:E; destruct (Qle_bool a' b') eqn:E'; try assumption.
  - apply Qle_bool_iff in E. rewrite Ha, Hb in E. apply Qle_bool_iff in E. congruence.
  - apply Qle_bool_iff in E'. rewrite <- Ha, <- Hb in E'. apply Qle_bool_iff in E'. congruence.
Qed.
Lemma qmx_0_nonneg x : 0 <= qmx 0 x.
Proof. apply qmx_ub_l. Qed.
Lemma qmx_0_of_nonneg x : 0 <= x -> qmx 0 x == x.
Proof. intros H. unfold qmx. destruct (Qle_bool 0 x) eqn:E; [reflexivity|]. apply Qle_bool_iff in H. congruence. Qed.

Lemma qmax_from_in x t : In (qmax_from x t) (x :: t).
Proof.
  revert x. induction t as [|y t IH]; intros x; cbn [qmax_from]; [left; reflexivity|].
  destruct (qmx_cases x (qmax_from y t)) as [-> | ->]; [left; reflexivity|right; apply IH].
Qed.
Lemma qmax_from_ub x t : forall z, In z (x :: t) -> z <= qmax_from x t.
Proof.
  revert x. induction t as [|y t IH]; intros x z Hz; cbn [qmax_from].
  - destruct Hz as [->|[]]. lra.
  - destruct Hz as [->|Hz]; [apply qmx_ub_l|]. eapply Qle_trans; [apply IH, Hz|apply qmx_ub_r].
Qed.
Lemma qmax_in l : l <> [] -> In (qmax l) l.
Proof. destruct l as [|x t]; [congruence|intros _; apply qmax_from_in]. Qed.
Lemma qmax_ub l z : In z l -> z <= qmax l.
Proof. destruct l as [|x t]; [intros []|apply qmax_from_ub]. Qed.
Lemma qmax_lub l c : l <> [] -> (forall z, In z l -> z <= c) -> qmax l <= c.
Proof. intros Hne H. apply H, qmax_in, Hne. Qed.

Lemma qmin_from_in x t : In (qmin_from x t) (x :: t).
Proof.
  revert x. induction t as [|y t IH]; intros x; cbn [qmin_from]; [left; reflexivity|].
  destruct (Qle_bool x (qmin_from y t)); [left; reflexivity|right; apply IH].
Qed.
Lemma qmin_from_lb x t : forall z, In z (x :: t) -> qmin_from x t <= z.
Proof.
  revert x. induction t as [|y t IH]; intros x z Hz; cbn [qmin_from].
  - destruct Hz as [->|[]]. lra.
  - destruct (Qle_bool x (qmin_from y t)) eqn:E.
    + apply Qle_bool_iff in E. destruct Hz as [->|Hz]; [lra|]. eapply Qle_trans; [exact E|apply IH, Hz].
    + destruct Hz as [->|Hz]; [|apply IH, Hz].
      destruct (Qlt_le_dec (qmin_from y t) z) as [H|H]; [lra|]. apply Qle_bool_iff in H. congruence.
Qed.
Lemma qmin_in l : l <> [] -> In (qmin l) l.
Proof. destruct l as [|x t]; [congruence|intros _; apply qmin_from_in]. Qed.
Lemma qmin_lb l z : In z l -> qmin l <= z.
Proof. destruct l as [|x t]; [intros []|apply qmin_from_lb]. Qed.

(* pointwise == lists *)
Definition leq (l l' : list Q) : Prop := Forall2 Qeq l l'.

Lemma qmax_from_compat x x' t t' : x == x' -> leq t t' -> qmax_from x t == qmax_from x' t'.
Proof.
  intros Hx H. revert x x' Hx. induction H as [|y y' t t' Hy _ IH]; intros x x' Hx; cbn [qmax_from]; [exact Hx|].
  apply qmx_compat; [exact Hx|apply IH, Hy].
Qed.
Lemma qmax_compat l l' : leq l l' -> qmax l == qmax l'.
Proof. intros H. destruct H as [|x x' t t' Hx Ht]; [reflexivity|apply qmax_from_compat; assumption]. Qed.

Lemma argmax_aux_compat t t' i bi v v' : v == v' -> leq t t' -> argmax_aux t i bi v = argmax_aux t' i bi v'.
Proof.
  intros Hv H. revert i bi v v' Hv. induction H as [|y y' t t' Hy _ IH]; intros i bi v v' Hv; cbn [argmax_aux]; [reflexivity|].
  assert (Qle_bool y v = Qle_bool y' v') as ->.
  { destruct (Qle_bool y v) eqn:E; destruct (Qle_bool y' v') eqn:E'; try reflexivity.
    - apply Qle_bool_iff in E. rewrite Hy, Hv in E. apply Qle_bool_iff in E. congruence.
    - apply Qle_bool_iff in E'. rewrite <- Hy, <- Hv in E'. apply Qle_bool_iff in E'. congruence. }
  destruct (Qle_bool y' v'); apply IH; assumption.
Qed.
Lemma argmax_compat l l' : leq l l' -> argmax l = argmax l'.
Proof. intros H. destruct H as [|x x' t t' Hx Ht]; [reflexivity|apply argmax_aux_compat; assumption]. Qed.

(* argmax_aux invariant: result index points at a maximal element *)
Lemma argmax_aux_spec d t : forall pre bi v, (bi < length pre)%nat -> nth bi pre d == v ->
  (forall z, In z pre -> z <= v) ->
  let r := argmax_aux t (length pre) bi v in
  (r < length (pre ++ t))%nat /\ forall z, In z (pre ++ t) -> z <= nth r (pre ++ t) d.
Proof.
  induction t as [|y t IH]; intros pre bi v Hbi Hv Hub; cbn [argmax_aux].
  - rewrite app_nil_r. split; [exact Hbi|]. intros z Hz. rewrite Hv. apply Hub, Hz.
  - destruct (Qle_bool y v) eqn:E.
    + apply Qle_bool_iff in E.
      specialize (IH (pre ++ [y]) bi v). rewrite app_length in IH. cbn [length] in IH.
      replace (length pre + 1)%nat with (S (length pre)) in IH by lia. rewrite <- app_assoc in IH. cbn [app] in IH.
      apply IH.
      * lia.
      * rewrite app_nth1 by exact Hbi. exact Hv.
      * intros z Hz. apply in_app_or in Hz as [Hz|[<-|[]]]; [apply Hub, Hz|exact E].
    + assert (v < y) as Hlt.
      { destruct (Qlt_le_dec v y) as [H|H]; [exact H|]. apply Qle_bool_iff in H. congruence. }
      specialize (IH (pre ++ [y]) (length pre) y). rewrite app_length in IH. cbn [length] in IH.
      replace (length pre + 1)%nat with (S (length pre)) in IH by lia. rewrite <- app_assoc in IH. cbn [app] in IH.
      apply IH.
      * lia.
      * rewrite app_nth2 by lia. rewrite Nat.sub_diag. reflexivity.
      * intros z Hz. apply in_app_or in Hz as [Hz|[<-|[]]]; [specialize (Hub z Hz); lra|lra].
Qed.

Lemma argmax_spec d l : l <> [] -> (argmax l < length l)%nat /\ forall z, In z l -> z <= nth (argmax l) l d.
Proof.
  destruct l as [|x t]; [congruence|intros _]. unfold argmax.
  apply (argmax_aux_spec d t [x] 0%nat x); cbn [length nth]; [lia|reflexivity|].
  intros z [<-|[]]. lra.
Qed.

Lemma argmax_is_qmax l : l <> [] -> nth (argmax l) l 0 == qmax l.
Proof.
  intros Hne. destruct (argmax_spec 0 l Hne) as [Hlt Hub]. apply Qle_antisym.
  - apply qmax_ub, nth_In, Hlt.
  - apply Hub, qmax_in, Hne.
Qed.

(* ================= sums of lists ================= *)
Lemma qsum_cons x t : qsum (x :: t) = x + qsum t.
Proof. reflexivity. Qed.
Lemma qsum_nil : qsum [] = 0.
Proof. reflexivity. Qed.

Lemma qsum_app l1 l2 : qsum (l1 ++ l2) == qsum l1 + qsum l2.
Proof. induction l1 as [|x t IH]; cbn [app]; [rewrite qsum_nil; ring|rewrite !qsum_cons, IH; ring]. Qed.

Lemma qsum_compat l l' : leq l l' -> qsum l == qsum l'.
Proof. induction 1 as [|x x' t t' Hx _ IH]; [reflexivity|rewrite !qsum_cons, Hx, IH; reflexivity]. Qed.

Lemma qsum_nonneg l : (forall x, In x l -> 0 <= x) -> 0 <= qsum l.
Proof.
  induction l as [|x t IH]; intros H; [rewrite qsum_nil; lra|rewrite qsum_cons].
  assert (0 <= x) by (apply H; left; reflexivity). assert (0 <= qsum t) by (apply IH; intros; apply H; right; assumption). lra.
Qed.

Lemma qsum_le_each l z : (forall x, In x l -> 0 <= x) -> In z l -> z <= qsum l.
Proof.
  induction l as [|x t IH]; intros H Hz; [destruct Hz|]. rewrite qsum_cons.
  assert (0 <= x) by (apply H; left; reflexivity).
  assert (0 <= qsum t) by (apply qsum_nonneg; intros; apply H; right; assumption).
  destruct Hz as [->|Hz]; [lra|]. assert (z <= qsum t) by (apply IH; [intros; apply H; right; assumption|exact Hz]). lra.
Qed.

Lemma qsum_le_len_max l c : (forall x, In x l -> x <= c) -> qsum l <= inject_Z (Z.of_nat (length l)) * c.
Proof.
  induction l as [|x t IH]; intros H; [rewrite qsum_nil; cbn [length]; change (inject_Z (Z.of_nat 0)) with 0; lra|].
  rewrite qsum_cons. cbn [length].
  assert (x <= c) by (apply H; left; reflexivity).
  assert (qsum t <= inject_Z (Z.of_nat (length t)) * c) by (apply IH; intros; apply H; right; assumption).
  rewrite Nat2Z.inj_succ. unfold Z.succ. rewrite inject_Z_plus. change (inject_Z 1) with 1. lra.
Qed.

(* sum over k of (weighted sum of g_k) = weighted sum of (sum over k of g_k) *)
Lemma qsum_wsum_swap {A} (gs : list (A -> Q)) (l : list (Q * option A)) :
  qsum (map (fun g => wsum g l) gs) == wsum (fun a => qsum (map (fun g => g a) gs)) l.
Proof.
  induction gs as [|g gs IH]; cbn [map].
  - rewrite qsum_nil. transitivity (wsum (fun _ : A => 0) l); [rewrite (wsum_const 0 l); ring|].
    apply wsum_ext. intros a _. reflexivity.
  - rewrite qsum_cons, IH.
    rewrite <- (wsum_add g (fun a => qsum (map (fun g0 => g0 a) gs)) l). apply wsum_ext. intros a _. reflexivity.
Qed.

Lemma map_nth_seq {B} (d : B) (p : list B) : map (fun k => nth k p d) (seq 0 (length p)) = p.
Proof.
  induction p as [|x t IH]; cbn [length seq map nth]; [reflexivity|].
  f_equal. rewrite <- seq_shift, map_map. exact IH.
Qed.

(* ================= MeanAggregator ================= *)
Definition vals {A} (l : list (Q * option A)) : list A :=
  flat_map (fun m => match snd m with Some a => [a] | None => [] end) l.

Lemma vals_in {A} (a : A) l : unmasked_in a l <-> In a (vals l).
Proof.
  unfold vals, unmasked_in. rewrite in_flat_map. split.
  - intros [w H]. exists (w, Some a). split; [exact H|left; reflexivity].
  - intros [[w [b|]] [H Hin]]; cbn [snd] in Hin; [destruct Hin as [->|[]]; exists w; exact H|destruct Hin].
Qed.

Lemma wtot_pos_vals {A} (l : list (Q * option A)) : ~ wtot l == 0 -> vals l <> [].
Proof.
  intros H E. apply H. unfold wtot. clear H. induction l as [|[w [a|]] t IH]; cbn [wsum]; [reflexivity| |].
  - cbn in E. discriminate.
  - apply IH. exact E.
Qed.

Lemma mean_between lo hi l : wnonneg l -> 0 < wtot l ->
  (forall x, active_in x l -> lo <= x <= hi) -> lo <= mean l <= hi.
Proof. intros Hw HW H. unfold mean. apply wavg_bounds; assumption. Qed.

Lemma mean_between_extremes l : wnonneg l -> 0 < wtot l -> qmin (vals l) <= mean l <= qmax (vals l).
Proof.
  intros Hw HW. apply mean_between; [exact Hw|exact HW|]. intros x Hx. apply active_unmasked, vals_in in Hx.
  split; [apply qmin_lb, Hx|apply qmax_ub, Hx].
Qed.

Lemma sq_nonneg (x : Q) : 0 <= x * x.
Proof. nra. Qed.

Lemma mean_var_nonneg l : wnonneg l -> 0 < wtot l -> 0 <= mean_var l.
Proof.
  intros Hw HW. unfold mean_var.
  pose proof (wavg_bounds (fun x => (x - mean l) * (x - mean l)) 0 (wavg (fun x => (x - mean l) * (x - mean l)) l) l Hw HW) as H.
  assert (0 <= wsum (fun x => (x - mean l) * (x - mean l)) l) as H0 by (apply wsum_nonneg; [exact Hw|intros; apply sq_nonneg]).
  unfold wavg. apply Qle_shift_div_l; [exact HW|lra].
Qed.

(* ================= MixedNormalAggregator ================= *)
(* law of total variance, for ANY weights with a non-zero sum *)
Lemma wsum_quad {A} (f1 f2 f3 : A -> Q) c d (l : list (Q * option A)) :
  wsum (fun a => f1 a - f2 a - c * f3 a + d) l == wsum f1 l - wsum f2 l - c * wsum f3 l + d * wtot l.
Proof. unfold wtot. induction l as [|[w [a|]] t IH]; cbn [wsum]; [ring|rewrite IH; ring|exact IH]. Qed.

Lemma mn_variance_split l : ~ wtot l == 0 -> mn_total l == mn_ale l + mn_epi l.
Proof.
  intros HW. unfold mn_total, mn_ale, mn_epi. set (m := mn_loc l).
  assert (wsum (fun a => (fst a - m) * (fst a - m)) l ==
          wsum (fun a => fst a * fst a + snd a * snd a) l - wsum (fun a => snd a * snd a) l
          - (2 * m) * wsum fst l + (m * m) * wtot l) as E.
  { rewrite <- wsum_quad. apply wsum_ext. intros a _. ring. }
  unfold wavg at 3. rewrite E. unfold m, mn_loc, wavg. field. exact HW.
Qed.

Lemma wavg_nonneg {A} (f : A -> Q) l : wnonneg l -> 0 < wtot l -> (forall a, active_in a l -> 0 <= f a) -> 0 <= wavg f l.
Proof.
  intros Hw HW H. unfold wavg. apply Qle_shift_div_l; [exact HW|].
  assert (0 <= wsum f l) by (apply wsum_nonneg; assumption). lra.
Qed.

Lemma mn_ale_nonneg l : wnonneg l -> 0 < wtot l -> 0 <= mn_ale l.
Proof. intros. apply wavg_nonneg; try assumption. intros; apply sq_nonneg. Qed.
Lemma mn_epi_nonneg l : wnonneg l -> 0 < wtot l -> 0 <= mn_epi l.
Proof. intros. apply wavg_nonneg; try assumption. intros; apply sq_nonneg. Qed.
Lemma mn_total_nonneg l : wnonneg l -> 0 < wtot l -> 0 <= mn_total l.
Proof.
  intros Hw HW. rewrite mn_variance_split by lra.
  pose proof (mn_ale_nonneg l Hw HW). pose proof (mn_epi_nonneg l Hw HW). lra.
Qed.

(* with equal weights the pinned code and the repaired code agree (why the existing tests pass) *)
Lemma wsum_equal_weights {A} c (f : A -> Q) (l : list (Q * option A)) :
  (forall w o, In (w, o) l -> w == c) -> wsum f l == c * wsum f (unweight l).
Proof.
  unfold unweight. induction l as [|[w [a|]] t IH]; intros H; cbn [wsum map snd]; [ring| |].
  - rewrite IH by (intros; eapply H; right; eauto). rewrite (H w (Some a)) by (left; reflexivity). ring.
  - apply IH. intros; eapply H; right; eauto.
Qed.

Lemma wavg_equal_weights {A} c (f : A -> Q) (l : list (Q * option A)) : ~ c == 0 -> ~ wtot l == 0 ->
  (forall w o, In (w, o) l -> w == c) -> wavg f (unweight l) == wavg f l.
Proof.
  intros Hc HW H. unfold wavg, wtot in *. rewrite (wsum_equal_weights c f l H), (wsum_equal_weights c _ l H).
  rewrite (wsum_equal_weights c _ l H) in HW. field. split; [|exact Hc]. intros E. apply HW. rewrite E. ring.
Qed.

Lemma mn_epi_today_equal_weights c l : ~ c == 0 -> ~ wtot l == 0 ->
  (forall w o, In (w, o) l -> w == c) -> mn_epi_today l == mn_epi l.
Proof.
  intros Hc HW H. unfold mn_epi_today, mn_epi, mn_loc. rewrite !(wavg_equal_weights c _ l Hc HW H).
  apply wavg_ext. intros a _. rewrite (wavg_equal_weights c _ l Hc HW H). reflexivity.
Qed.

(* ================= families of statistics that sum to a unit (class probabilities, vote counts) ================= *)
Definition fam {A} (gs : list (A -> Q)) (l : list (Q * option A)) : list Q := map (fun g => wavg g l) gs.

Lemma qsum_map_div (xs : list Q) c : qsum (map (fun x => x / c) xs) == qsum xs / c.
Proof.
  induction xs as [|x t IH]; cbn [map]; [rewrite !qsum_nil; unfold Qdiv; ring|].
  rewrite !qsum_cons, IH. unfold Qdiv. ring.
Qed.

Lemma fam_sum {A} (gs : list (A -> Q)) l u : ~ wtot l == 0 ->
  (forall a, unmasked_in a l -> qsum (map (fun g => g a) gs) == u) -> qsum (fam gs l) == u.
Proof.
  intros HW H. unfold fam, wavg.
  rewrite <- (map_map (fun g => wsum g l) (fun x => x / wtot l)), qsum_map_div, qsum_wsum_swap.
  rewrite (wsum_ext _ (fun _ => u) l H), wsum_const. field. exact HW.
Qed.

Lemma fam_nonneg {A} (gs : list (A -> Q)) l : wnonneg l -> 0 < wtot l ->
  (forall g a, In g gs -> active_in a l -> 0 <= g a) -> forall x, In x (fam gs l) -> 0 <= x.
Proof.
  intros Hw HW H x Hx. unfold fam in Hx. apply in_map_iff in Hx as [g [<- Hg]].
  apply wavg_nonneg; [exact Hw|exact HW|]. intros a Ha. apply (H g a Hg Ha).
Qed.

Lemma fam_length {A} (gs : list (A -> Q)) l : length (fam gs l) = length gs.
Proof. apply map_length. Qed.

(* ================= MixedCategoricalAggregator ================= *)
Definition row_ok (u : Q) (K : nat) (p : list Q) : Prop :=
  length p = K /\ (forall x, In x p -> 0 <= x) /\ qsum p == u.

Lemma cat_loc_fam K l : cat_loc K l = fam (map (fun k p => nth k p 0) (seq 0 K)) l.
Proof. unfold cat_loc, fam. rewrite map_map. reflexivity. Qed.

Lemma cat_loc_distribution u K l : wnonneg l -> 0 < wtot l ->
  (forall p, unmasked_in p l -> row_ok u K p) -> row_ok u K (cat_loc K l).
Proof.
  intros Hw HW H. rewrite cat_loc_fam. split; [|split].
  - rewrite fam_length, map_length, seq_length. reflexivity.
  - apply fam_nonneg; [exact Hw|exact HW|]. intros g p Hg Hp. apply in_map_iff in Hg as [k [<- Hk]].
    apply in_seq in Hk. destruct (H p (active_unmasked _ _ Hp)) as (Hlen & Hnn & _).
    apply Hnn, nth_In. lia.
  - apply fam_sum; [lra|]. intros p Hp. destruct (H p Hp) as (Hlen & _ & Hs).
    rewrite map_map. rewrite <- Hlen, (map_nth_seq 0 p). exact Hs.
Qed.

(* 0 <= u - max p <= u - u/K for any non-negative row summing to u *)
Lemma conf_range u K p : (0 < K)%nat -> row_ok u K p -> 0 <= conf u p <= u - u / inject_Z (Z.of_nat K).
Proof.
  intros HK (Hlen & Hnn & Hs). unfold conf.
  assert (p <> []) as Hne by (destruct p; [cbn in Hlen; lia|discriminate]).
  assert (0 < inject_Z (Z.of_nat K)) as HKq.
  { change 0 with (inject_Z 0). rewrite <- Zlt_Qlt. lia. }
  split.
  - assert (qmax p <= qsum p) by (apply qsum_le_each; [exact Hnn|apply qmax_in, Hne]). lra.
  - assert (qsum p <= inject_Z (Z.of_nat (length p)) * qmax p) as Hle by (apply qsum_le_len_max; intros; apply qmax_ub; assumption).
    rewrite Hlen, Hs in Hle.
    assert (u / inject_Z (Z.of_nat K) <= qmax p); [|lra].
    apply Qle_shift_div_r; [exact HKq|lra].
Qed.

Lemma cat_conf_range u K l : (0 < K)%nat -> wnonneg l -> 0 < wtot l ->
  (forall p, unmasked_in p l -> row_ok u K p) -> 0 <= cat_conf u K l <= u - u / inject_Z (Z.of_nat K).
Proof. intros HK Hw HW H. apply conf_range; [exact HK|apply cat_loc_distribution; assumption]. Qed.

(* max of the average <= average of the maxes: total >= aleatoric BEFORE the max(0, .) *)
Lemma cat_conf_ale_le_total u K l : (0 < K)%nat -> wnonneg l -> 0 < wtot l ->
  (forall p, unmasked_in p l -> length p = K) -> cat_conf_ale u l <= cat_conf u K l.
Proof.
  intros HK Hw HW H. unfold cat_conf_ale, cat_conf, conf.
  assert (cat_loc K l <> []) as Hne.
  { unfold cat_loc. destruct K; [lia|]. cbn [seq map]. discriminate. }
  pose proof (qmax_in _ Hne) as Hin. unfold cat_loc in Hin at 2. apply in_map_iff in Hin as [k [Ek Hk]].
  apply in_seq in Hk. rewrite <- Ek.
  rewrite (wavg_sub (fun _ => u) qmax l) by lra. rewrite wavg_const by lra.
  assert (wavg (fun p => nth k p 0) l <= wavg qmax l); [|lra].
  apply wavg_le; [exact Hw|exact HW|]. intros p Hp. apply qmax_ub, nth_In. rewrite (H p (active_unmasked _ _ Hp)). lia.
Qed.

Lemma cat_conf_ale_nonneg u K l : (0 < K)%nat -> wnonneg l -> 0 < wtot l ->
  (forall p, unmasked_in p l -> row_ok u K p) -> 0 <= cat_conf_ale u l.
Proof.
  intros HK Hw HW H. apply wavg_nonneg; [exact Hw|exact HW|]. intros p Hp.
  apply (conf_range u K p HK), H, active_unmasked, Hp.
Qed.

Lemma epi_part_nonneg t a : 0 <= epi_part t a.
Proof. apply qmx_0_nonneg. Qed.

Lemma epi_part_split t a : a <= t -> t == a + epi_part t a.
Proof. intros H. unfold epi_part. rewrite qmx_0_of_nonneg by lra. ring. Qed.

Lemma cat_conf_split u K l : (0 < K)%nat -> wnonneg l -> 0 < wtot l ->
  (forall p, unmasked_in p l -> length p = K) -> cat_conf u K l == cat_conf_ale u l + cat_conf_epi u K l.
Proof. intros. unfold cat_conf_epi. apply epi_part_split, cat_conf_ale_le_total; assumption. Qed.

(* ================= ModeAggregator ================= *)
Lemma counts_fam K l : counts K l = fam (map vote_ind (seq 0 K)) l.
Proof. unfold counts, fam. rewrite map_map. reflexivity. Qed.

Lemma qsum_indicator_out n K : forall s, (n < s \/ s + K <= n)%nat ->
  qsum (map (fun k => if Nat.eqb n k then 1 else 0) (seq s K)) == 0.
Proof.
  induction K as [|K IH]; intros s H; cbn [seq map]; [rewrite qsum_nil; reflexivity|].
  rewrite qsum_cons, IH by lia. destruct (Nat.eqb n s) eqn:E; [apply Nat.eqb_eq in E; lia|ring].
Qed.

Lemma qsum_indicator_in n K : forall s, (s <= n < s + K)%nat ->
  qsum (map (fun k => if Nat.eqb n k then 1 else 0) (seq s K)) == 1.
Proof.
  induction K as [|K IH]; intros s H; cbn [seq map]; [lia|].
  rewrite qsum_cons. destruct (Nat.eqb n s) eqn:E.
  - apply Nat.eqb_eq in E. rewrite qsum_indicator_out by lia. ring.
  - apply Nat.eqb_neq in E. rewrite IH by lia. ring.
Qed.

Lemma vote_sum K p : (argmax p < K)%nat -> qsum (map (fun g => g p) (map vote_ind (seq 0 K))) == 1.
Proof. intros H. rewrite map_map. unfold vote_ind. apply qsum_indicator_in. lia. Qed.

Lemma vote_ind_nonneg k p : 0 <= vote_ind k p.
Proof. unfold vote_ind. destruct (Nat.eqb (argmax p) k); lra. Qed.

Lemma argmax_lt_row K p : (0 < K)%nat -> length p = K -> (argmax p < K)%nat.
Proof. intros HK H. rewrite <- H. apply (argmax_spec 0). destruct p; [cbn in H; lia|discriminate]. Qed.

Lemma counts_distribution K l : (0 < K)%nat -> wnonneg l -> 0 < wtot l ->
  (forall p, unmasked_in p l -> length p = K) -> row_ok 1 K (counts K l).
Proof.
  intros HK Hw HW H. rewrite counts_fam. split; [|split].
  - rewrite fam_length, map_length, seq_length. reflexivity.
  - apply fam_nonneg; [exact Hw|exact HW|]. intros g p Hg _. apply in_map_iff in Hg as [k [<- _]]. apply vote_ind_nonneg.
  - apply fam_sum; [lra|]. intros p Hp. apply vote_sum, argmax_lt_row; [exact HK|apply H, Hp].
Qed.

(* the mode is an argmax of the normalised weighted vote counts; uncertainty = 1 - its count, in [0, 1-1/K] *)
Lemma mode_spec K l : (0 < K)%nat -> wnonneg l -> 0 < wtot l ->
  (forall p, unmasked_in p l -> length p = K) ->
  (mode K l < K)%nat
  /\ (forall k, (k < K)%nat -> nth k (counts K l) 0 <= nth (mode K l) (counts K l) 0)
  /\ mode_unc K l == 1 - nth (mode K l) (counts K l) 0
  /\ 0 <= mode_unc K l <= 1 - 1 / inject_Z (Z.of_nat K).
Proof.
  intros HK Hw HW H. pose proof (counts_distribution K l HK Hw HW H) as Hd.
  destruct Hd as (Hlen & Hnn & Hs).
  assert (counts K l <> []) as Hne by (destruct (counts K l); [cbn in Hlen; lia|discriminate]).
  destruct (argmax_spec 0 (counts K l) Hne) as [Hlt Hub]. unfold mode, mode_unc.
  split; [rewrite Hlen in Hlt; exact Hlt|]. split; [|split].
  - intros k Hk. apply Hub, nth_In. lia.
  - rewrite argmax_is_qmax by exact Hne. reflexivity.
  - apply (conf_range 1 K (counts K l) HK). repeat split; assumption.
Qed.
