(* C19: the statistics are homogeneous in the data.  This is what makes the integer transfer of the harness sound:
   floats are sent to the extracted model as integers x * 2^s (one scale per case, unit u = 2^s for probabilities)
   and the results are divided by 2^s (means, probabilities, confidences), 2^2s (variances) or 2^(s+t) (entropies,
   t the scale of the log values).  Vote counts, the mode and its uncertainty do not depend on the scale at all. *)
From Coq Require Import List QArith Bool Arith Lia Lqa.
Import ListNotations.
Require Import DH.C19_Aggregators.Model DH.C19_Aggregators.Lemmas DH.C19_Aggregators.LemmasInv.
Open Scope Q_scope.

Definition pmap {A B} (g : A -> B) (l : list (Q * option A)) : list (Q * option B) :=
  map (fun m => (fst m, option_map g (snd m))) l.

Lemma wsum_pmap {A B} (f : B -> Q) (g : A -> B) l : wsum f (pmap g l) = wsum (fun a => f (g a)) l.
Proof.
  unfold pmap. induction l as [|[w [a|]] t IH]; cbn [map wsum fst snd option_map]; [reflexivity|rewrite IH; reflexivity|exact IH].
Qed.
Lemma wtot_pmap {A B} (g : A -> B) l : wtot (pmap g l) = wtot l.
Proof. unfold wtot. rewrite wsum_pmap. reflexivity. Qed.
Lemma wavg_pmap {A B} (f : B -> Q) (g : A -> B) l : wavg f (pmap g l) = wavg (fun a => f (g a)) l.
Proof. unfold wavg. rewrite wsum_pmap, wtot_pmap. reflexivity. Qed.
Lemma defined_pmap {A B} (g : A -> B) l : defined (pmap g l) = defined l.
Proof. unfold defined. rewrite wtot_pmap. reflexivity. Qed.

(* ---- Mean ---- *)
Lemma scale_mean c l : ~ wtot l == 0 -> mean (pmap (Qmult c) l) == c * mean l.
Proof. intros HW. unfold mean. rewrite wavg_pmap. apply (wavg_scal c (fun x => x) l HW). Qed.

Lemma scale_mean_var c l : ~ wtot l == 0 -> mean_var (pmap (Qmult c) l) == (c * c) * mean_var l.
Proof.
  intros HW. unfold mean_var. rewrite wavg_pmap.
  rewrite <- (wavg_scal (c * c) (fun x => (x - mean l) * (x - mean l)) l HW).
  apply wavg_ext. intros x _. rewrite (scale_mean c l HW). ring.
Qed.

(* ---- MixedNormal ---- *)
Definition scale2 (c : Q) (a : Q * Q) : Q * Q := (c * fst a, c * snd a).

Lemma scale_mn_loc c l : ~ wtot l == 0 -> mn_loc (pmap (scale2 c) l) == c * mn_loc l.
Proof. intros HW. unfold mn_loc. rewrite wavg_pmap. cbn [scale2 fst]. apply (wavg_scal c fst l HW). Qed.

Lemma scale_mn_ale c l : ~ wtot l == 0 -> mn_ale (pmap (scale2 c) l) == (c * c) * mn_ale l.
Proof.
  intros HW. unfold mn_ale. rewrite wavg_pmap. rewrite <- (wavg_scal (c * c) (fun a => snd a * snd a) l HW).
  apply wavg_ext. intros a _. cbn [scale2 snd]. ring.
Qed.

Lemma scale_mn_epi c l : ~ wtot l == 0 -> mn_epi (pmap (scale2 c) l) == (c * c) * mn_epi l.
Proof.
  intros HW. unfold mn_epi. rewrite wavg_pmap.
  rewrite <- (wavg_scal (c * c) (fun a => (fst a - mn_loc l) * (fst a - mn_loc l)) l HW).
  apply wavg_ext. intros a _. rewrite (scale_mn_loc c l HW). cbn [scale2 fst]. ring.
Qed.

Lemma scale_mn_total c l : ~ wtot l == 0 -> mn_total (pmap (scale2 c) l) == (c * c) * mn_total l.
Proof.
  intros HW. rewrite !mn_variance_split by (try rewrite wtot_pmap; exact HW).
  rewrite scale_mn_ale, scale_mn_epi by exact HW. ring.
Qed.

(* ---- rows ---- *)
Lemma nth_map_scale c p : forall k, nth k (map (Qmult c) p) 0 == c * nth k p 0.
Proof. induction p as [|x t IH]; intros [|k]; cbn [map nth]; try ring; try reflexivity. apply IH. Qed.

Lemma Qle_bool_scale c a b : 0 < c -> Qle_bool (c * a) (c * b) = Qle_bool a b.
Proof.
  intros Hc. destruct (Qle_bool a b) eqn:E.
  - apply Qle_bool_iff in E. apply Qle_bool_iff. nra.
  - destruct (Qle_bool (c * a) (c * b)) eqn:E'; [|reflexivity]. apply Qle_bool_iff in E'.
    assert (a <= b) as H by nra. apply Qle_bool_iff in H. congruence.
Qed.

Lemma qmx_scale c a b : 0 < c -> qmx (c * a) (c * b) == c * qmx a b.
Proof. intros Hc. unfold qmx. rewrite (Qle_bool_scale c a b Hc). destruct (Qle_bool a b); reflexivity. Qed.

Lemma qmax_from_scale c : 0 < c -> forall t x, qmax_from (c * x) (map (Qmult c) t) == c * qmax_from x t.
Proof.
  intros Hc. induction t as [|y t IH]; intros x; cbn [map qmax_from]; [reflexivity|].
  rewrite <- (qmx_scale c x (qmax_from y t) Hc). apply qmx_compat; [reflexivity|apply IH].
Qed.

Lemma qmax_scale c p : 0 < c -> qmax (map (Qmult c) p) == c * qmax p.
Proof. intros Hc. destruct p as [|x t]; cbn [map qmax]; [ring|apply qmax_from_scale, Hc]. Qed.

Lemma argmax_aux_scale c : 0 < c -> forall t i bi v, argmax_aux (map (Qmult c) t) i bi (c * v) = argmax_aux t i bi v.
Proof.
  intros Hc. induction t as [|y t IH]; intros i bi v; cbn [map argmax_aux]; [reflexivity|].
  rewrite (Qle_bool_scale c y v Hc). destruct (Qle_bool y v); apply IH.
Qed.

Lemma argmax_scale c p : 0 < c -> argmax (map (Qmult c) p) = argmax p.
Proof. intros Hc. destruct p as [|x t]; cbn [map argmax]; [reflexivity|apply argmax_aux_scale, Hc]. Qed.

(* ---- MixedCategorical, confidence ---- *)
Lemma scale_cat_loc c K l : ~ wtot l == 0 -> leq (cat_loc K (pmap (map (Qmult c)) l)) (map (Qmult c) (cat_loc K l)).
Proof.
  intros HW. unfold cat_loc. rewrite map_map. apply leq_map. intros k. rewrite wavg_pmap.
  rewrite <- (wavg_scal c (fun p => nth k p 0) l HW). apply wavg_ext. intros p _. apply nth_map_scale.
Qed.

Lemma scale_conf c u p : 0 < c -> conf (c * u) (map (Qmult c) p) == c * conf u p.
Proof. intros Hc. unfold conf. rewrite (qmax_scale c p Hc). ring. Qed.

Lemma scale_cat_conf c u K l : 0 < c -> ~ wtot l == 0 -> cat_conf (c * u) K (pmap (map (Qmult c)) l) == c * cat_conf u K l.
Proof.
  intros Hc HW. unfold cat_conf. unfold conf at 1. rewrite (qmax_compat _ _ (scale_cat_loc c K l HW)), (qmax_scale c _ Hc).
  unfold conf. ring.
Qed.

Lemma scale_cat_conf_ale c u l : 0 < c -> ~ wtot l == 0 -> cat_conf_ale (c * u) (pmap (map (Qmult c)) l) == c * cat_conf_ale u l.
Proof.
  intros Hc HW. unfold cat_conf_ale. rewrite wavg_pmap. rewrite <- (wavg_scal c (conf u) l HW).
  apply wavg_ext. intros p _. apply scale_conf, Hc.
Qed.

Lemma scale_epi_part c t a : 0 < c -> epi_part (c * t) (c * a) == c * epi_part t a.
Proof.
  intros Hc. unfold epi_part. rewrite <- (qmx_scale c 0 (t - a) Hc). apply qmx_compat; ring.
Qed.

Lemma scale_cat_conf_epi c u K l : 0 < c -> ~ wtot l == 0 ->
  cat_conf_epi (c * u) K (pmap (map (Qmult c)) l) == c * cat_conf_epi u K l.
Proof.
  intros Hc HW. unfold cat_conf_epi. rewrite <- (scale_epi_part c _ _ Hc).
  apply epi_part_compat; [apply scale_cat_conf|apply scale_cat_conf_ale]; assumption.
Qed.

(* ---- Mode: no dependence on the scale of the probabilities ---- *)
Lemma scale_vote_ind c k p : 0 < c -> vote_ind k (map (Qmult c) p) = vote_ind k p.
Proof. intros Hc. unfold vote_ind. rewrite (argmax_scale c p Hc). reflexivity. Qed.

Lemma scale_counts c K l : 0 < c -> counts K (pmap (map (Qmult c)) l) = counts K l.
Proof.
  intros Hc. unfold counts. apply map_ext. intros k. rewrite wavg_pmap. unfold wavg. f_equal.
  clear - Hc. induction l as [|[w [p|]] t IH]; cbn [wsum]; [reflexivity|rewrite IH, (scale_vote_ind c k p Hc); reflexivity|exact IH].
Qed.

Lemma scale_mode c K l : 0 < c -> mode K (pmap (map (Qmult c)) l) = mode K l /\ mode_unc K (pmap (map (Qmult c)) l) = mode_unc K l.
Proof. intros Hc. unfold mode, mode_unc. rewrite (scale_counts c K l Hc). split; reflexivity. Qed.

(* ---- MixedCategorical, entropy: probabilities scaled by c, log values by d ---- *)
Definition scale_pl (c d : Q) (r : list (Q * Q)) : list (Q * Q) := map (fun a => (c * fst a, d * snd a)) r.

Lemma scale_entT c d r : entT (scale_pl c d r) == (c * d) * entT r.
Proof.
  unfold entT, scale_pl. induction r as [|a t IH]; cbn [map]; [rewrite !qsum_nil; ring|].
  rewrite !qsum_cons. cbn [fst snd]. 
  assert (qsum (map (fun a0 => fst a0 * snd a0) (map (fun a0 => (c * fst a0, d * snd a0)) t)) == (c * d) * qsum (map (fun a0 => fst a0 * snd a0) t)) as E.
  { apply Qopp_comp in IH. rewrite !Qopp_involutive in IH. rewrite IH. ring. }
  rewrite E. ring.
Qed.

Lemma entT_combine_scale c d P Lg : entT (combine (map (Qmult c) P) (map (Qmult d) Lg)) == (c * d) * entT (combine P Lg).
Proof.
  unfold entT. revert Lg. induction P as [|x P IH]; intros [|y Lg]; cbn [map combine]; try (rewrite !qsum_nil; ring).
  rewrite !qsum_cons. cbn [fst snd]. specialize (IH Lg).
  assert (qsum (map (fun a => fst a * snd a) (combine (map (Qmult c) P) (map (Qmult d) Lg))) == (c * d) * qsum (map (fun a => fst a * snd a) (combine P Lg))) as E.
  { apply Qopp_comp in IH. rewrite !Qopp_involutive in IH. rewrite IH. ring. }
  rewrite E. ring.
Qed.

Lemma probs_of_scale c d l : probs_of (pmap (scale_pl c d) l) = pmap (map (Qmult c)) (probs_of l).
Proof.
  unfold probs_of, pmap, scale_pl. rewrite !map_map. apply map_ext. intros [w [r|]]; cbn [fst snd option_map]; [|reflexivity].
  f_equal. f_equal. rewrite !map_map. apply map_ext. intros a. reflexivity.
Qed.

Lemma scale_cat_ent c d K l lgE : ~ wtot l == 0 ->
  cat_ent K (pmap (scale_pl c d) l) (map (Qmult d) lgE) == (c * d) * cat_ent K l lgE.
Proof.
  intros HW. unfold cat_ent. rewrite probs_of_scale.
  rewrite (entT_combine_compat _ _ _ (scale_cat_loc c K (probs_of l) (ltac:(rewrite wtot_probs_of; exact HW)))).
  apply entT_combine_scale.
Qed.

Lemma scale_cat_ent_ale c d l : ~ wtot l == 0 -> cat_ent_ale (pmap (scale_pl c d) l) == (c * d) * cat_ent_ale l.
Proof.
  intros HW. unfold cat_ent_ale. rewrite wavg_pmap. rewrite <- (wavg_scal (c * d) entT l HW).
  apply wavg_ext. intros r _. apply scale_entT.
Qed.

Lemma scale_cat_ent_epi c d K l lgE : 0 < c * d -> ~ wtot l == 0 ->
  cat_ent_epi K (pmap (scale_pl c d) l) (map (Qmult d) lgE) == (c * d) * cat_ent_epi K l lgE.
Proof.
  intros Hcd HW. unfold cat_ent_epi. rewrite <- (scale_epi_part (c * d) _ _ Hcd).
  apply epi_part_compat; [apply scale_cat_ent|apply scale_cat_ent_ale]; assumption.
Qed.
