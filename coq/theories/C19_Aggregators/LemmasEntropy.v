(* C19: entropy-based uncertainty.  log is an ORACLE: a Section variable lg : Q -> Q (the harness supplies numpy's
   values of log(p + eps)); every statement holds for every lg satisfying the hypotheses it names.
     - table form = function form when the tables are filled with lg           (cat_ent_fun, cat_ent_ale_fun)
     - H(p) >= - lg (1 + eps) for a distribution p, if lg is monotone            (ent_lower; eps = 0, lg 1 = 0: H >= 0)
     - Jensen: H(sum w_i p_i) >= sum w_i H(p_i) if x |-> - x lg (x + eps) is concave on [0,1]   (ent_jensen),
       so total >= aleatoric and the max(0, .) in the epistemic part is inactive: total = aleatoric + epistemic. *)
From Coq Require Import List QArith Bool Arith Lia Lqa.
Import ListNotations.
Require Import DH.C19_Aggregators.Model DH.C19_Aggregators.Lemmas DH.C19_Aggregators.LemmasInv DH.C19_Aggregators.LemmasScale.
Open Scope Q_scope.

Lemma wsum_zero_of_wtot_zero {A} (f : A -> Q) (l : list (Q * option A)) : wnonneg l -> wtot l == 0 -> wsum f l == 0.
Proof.
  unfold wtot. induction l as [|[w [a|]] t IH]; intros Hw H0; cbn [wsum] in *; [reflexivity| |].
  - apply wnonneg_cons in Hw as [Hw0 Hw]. pose proof (wtot_nonneg t Hw) as Ht. unfold wtot in Ht.
    assert (w == 0) as Ew by lra. assert (wsum (fun _ => 1) t == 0) as Et by lra.
    rewrite (IH Hw Et), Ew. ring.
  - apply wnonneg_cons in Hw as [_ Hw]. apply IH; assumption.
Qed.

Lemma qsum_le_pointwise {B} (f g : B -> Q) ks : (forall k, In k ks -> f k <= g k) -> qsum (map f ks) <= qsum (map g ks).
Proof.
  induction ks as [|k t IH]; intros H; cbn [map]; [rewrite !qsum_nil; lra|]. rewrite !qsum_cons.
  assert (f k <= g k) by (apply H; left; reflexivity).
  assert (qsum (map f t) <= qsum (map g t)) by (apply IH; intros; apply H; right; assumption). lra.
Qed.

Lemma qsum_wavg_swap {A} (gs : list (A -> Q)) (l : list (Q * option A)) : ~ wtot l == 0 ->
  qsum (map (fun g => wavg g l) gs) == wavg (fun a => qsum (map (fun g => g a) gs)) l.
Proof.
  intros HW. unfold wavg. rewrite <- (map_map (fun g => wsum g l) (fun x => x / wtot l)), qsum_map_div, qsum_wsum_swap.
  reflexivity.
Qed.

Section Entropy.
  Variable lg : Q -> Q.
  Variable eps : Q.
  Hypothesis lg_proper : forall x y, x == y -> lg x == lg y.

  Definition phi (x : Q) : Q := - (x * lg (x + eps)).
  Definition with_log (x : Q) : Q * Q := (x, lg (x + eps)).
  Definition ent (p : list Q) : Q := entT (map with_log p).
  (* the member rows with their log tables *)
  Definition with_logs (l : list (Q * option (list Q))) : list (Q * option (list (Q * Q))) := pmap (map with_log) l.
  Definition logs_of (p : list Q) : list Q := map (fun x => lg (x + eps)) p.

  Lemma phi_proper x y : x == y -> phi x == phi y.
  Proof. intros H. unfold phi. rewrite (lg_proper (x + eps) (y + eps)) by (rewrite H; reflexivity). rewrite H. reflexivity. Qed.

  Lemma ent_sum p : ent p == qsum (map phi p).
  Proof.
    unfold ent, entT, phi. rewrite map_map. cbn [with_log fst snd].
    induction p as [|x t IH]; cbn [map]; [rewrite !qsum_nil; ring|]. rewrite !qsum_cons.
    apply Qopp_comp in IH. rewrite Qopp_involutive in IH. rewrite IH. ring.
  Qed.

  (* ---- table form = function form ---- *)
  Lemma probs_of_with_logs l : probs_of (with_logs l) = l.
  Proof.
    unfold probs_of, with_logs, pmap. rewrite map_map. rewrite <- (map_id l) at 2. apply map_ext.
    intros [w [p|]]; cbn [fst snd option_map]; [|reflexivity]. rewrite map_map. cbn [with_log fst]. rewrite map_id. reflexivity.
  Qed.

  Lemma combine_logs p : combine p (logs_of p) = map with_log p.
  Proof. unfold logs_of. induction p as [|x t IH]; cbn [map combine]; [reflexivity|rewrite IH; reflexivity]. Qed.

  Lemma cat_ent_fun K l : cat_ent K (with_logs l) (logs_of (cat_loc K l)) = ent (cat_loc K l).
  Proof. unfold cat_ent, ent. rewrite probs_of_with_logs, combine_logs. reflexivity. Qed.

  Lemma cat_ent_ale_fun l : cat_ent_ale (with_logs l) = wavg ent l.
  Proof. unfold cat_ent_ale, with_logs. rewrite wavg_pmap. reflexivity. Qed.

  (* ---- lower bound ---- *)
  Section Lower.
    Hypothesis lg_mono : forall x y, eps <= x -> x <= y -> lg x <= lg y.

    Lemma phi_lower x : 0 <= x <= 1 -> - (x * lg (1 + eps)) <= phi x.
    Proof.
      intros [H0 H1]. unfold phi. assert (lg (x + eps) <= lg (1 + eps)) as H by (apply lg_mono; lra).
      nra.
    Qed.

    Lemma ent_lower K p : row_ok 1 K p -> - lg (1 + eps) <= ent p.
    Proof.
      intros (Hlen & Hnn & Hs). rewrite ent_sum.
      assert (qsum (map (fun x => - (x * lg (1 + eps))) p) <= qsum (map phi p)) as H.
      { apply qsum_le_pointwise. intros x Hx. apply phi_lower. split; [apply Hnn, Hx|].
        rewrite <- Hs. apply qsum_le_each; assumption. }
      assert (qsum (map (fun x => - (x * lg (1 + eps))) p) == - (qsum p * lg (1 + eps))) as E.
      { clear. induction p as [|x t IH]; cbn [map]; [rewrite !qsum_nil; ring|rewrite !qsum_cons, IH; ring]. }
      rewrite E, Hs in H. lra.
    Qed.

    Lemma cat_ent_ale_lower K l : wnonneg l -> 0 < wtot l -> (forall p, unmasked_in p l -> row_ok 1 K p) ->
      - lg (1 + eps) <= cat_ent_ale (with_logs l).
    Proof.
      intros Hw HW H. rewrite cat_ent_ale_fun.
      rewrite <- (wavg_const (- lg (1 + eps)) l) by lra.
      apply wavg_le; [exact Hw|exact HW|]. intros p Hp. apply (ent_lower K), H, active_unmasked, Hp.
    Qed.
  End Lower.

  (* ---- Jensen ---- *)
  Section Jensen.
    Hypothesis phi_concave : forall t x y, 0 <= t <= 1 -> 0 <= x <= 1 -> 0 <= y <= 1 ->
      t * phi x + (1 - t) * phi y <= phi (t * x + (1 - t) * y).

    (* sum of w * phi (g a)  <=  W * phi (weighted mean of g) *)
    Lemma jensen_sum {A} (g : A -> Q) (l : list (Q * option A)) : wnonneg l -> 0 < wtot l ->
      (forall a, unmasked_in a l -> 0 <= g a <= 1) ->
      wsum (fun a => phi (g a)) l <= wtot l * phi (wavg g l).
    Proof.
      induction l as [|[w [a|]] t IH]; intros Hw HW Hg.
      - unfold wtot in HW. cbn [wsum] in HW. lra.
      - apply wnonneg_cons in Hw as [Hw0 Hw].
        assert (forall b, unmasked_in b t -> 0 <= g b <= 1) as Hgt by (intros b Hb; apply Hg, unmasked_in_cons, Hb).
        assert (0 <= g a <= 1) as Hga by (apply Hg; exists w; left; reflexivity).
        pose proof (wtot_nonneg t Hw) as HWt.
        assert (wtot ((w, Some a) :: t) == w + wtot t) as EW by (unfold wtot; cbn [wsum]; ring).
        assert (wsum g ((w, Some a) :: t) == w * g a + wsum g t) as ES by reflexivity.
        cbn [wsum]. rewrite EW in *.
        destruct (Qlt_le_dec 0 (wtot t)) as [Hpos|Hzero].
        + specialize (IH Hw Hpos Hgt).
          set (D := w + wtot t) in *. set (mt := wavg g t) in *.
          assert (0 < D) as HD by (unfold D; lra).
          assert (D - w == wtot t) as HDw by (unfold D; ring).
          assert (0 <= mt <= 1) as Hmt by (apply (wavg_bounds g 0 1 t Hw Hpos); intros b Hb; apply Hgt, active_unmasked, Hb).
          set (tt := w / D).
          assert (0 <= tt <= 1) as Htt.
          { unfold tt. split; [apply Qle_shift_div_l; lra|apply Qle_shift_div_r; lra]. }
          pose proof (phi_concave tt (g a) mt Htt Hga Hmt) as Hc.
          assert (tt * g a + (1 - tt) * mt == wavg g ((w, Some a) :: t)) as Em.
          { unfold wavg at 1. rewrite ES, EW. unfold tt, mt, wavg, D. field. split; lra. }
          rewrite (phi_proper _ _ Em) in Hc.
          assert (D * (tt * phi (g a) + (1 - tt) * phi mt) == w * phi (g a) + wtot t * phi mt) as Ed.
          { unfold tt, D. field. lra. }
          assert (D * (tt * phi (g a) + (1 - tt) * phi mt) <= D * phi (wavg g ((w, Some a) :: t))) as Hm.
          { apply Qmult_le_l; lra. }
          lra.
        + assert (wtot t == 0) as Et by lra. rewrite (wsum_zero_of_wtot_zero _ t Hw Et).
          assert (wavg g ((w, Some a) :: t) == g a) as Em.
          { unfold wavg. rewrite ES, EW, (wsum_zero_of_wtot_zero g t Hw Et), Et. field. lra. }
          rewrite (phi_proper _ _ Em), Et. lra.
      - apply wnonneg_cons in Hw as [_ Hw].
        assert (wtot ((w, None) :: t) = wtot t) as EW by reflexivity.
        assert (wavg g ((w, None) :: t) = wavg g t) as Em by reflexivity.
        cbn [wsum]. rewrite EW in *. rewrite Em. apply IH; [exact Hw|exact HW|].
        intros b Hb. apply Hg, unmasked_in_cons, Hb.
    Qed.

    Lemma jensen {A} (g : A -> Q) (l : list (Q * option A)) : wnonneg l -> 0 < wtot l ->
      (forall a, unmasked_in a l -> 0 <= g a <= 1) -> wavg (fun a => phi (g a)) l <= phi (wavg g l).
    Proof.
      intros Hw HW Hg. pose proof (jensen_sum g l Hw HW Hg) as H. unfold wavg at 1.
      apply Qle_shift_div_r; [exact HW|lra].
    Qed.

    (* the entropy of the mixture is at least the mean entropy of the members *)
    Lemma ent_jensen K l : wnonneg l -> 0 < wtot l -> (forall p, unmasked_in p l -> row_ok 1 K p) ->
      wavg ent l <= ent (cat_loc K l).
    Proof.
      intros Hw HW H. assert (~ wtot l == 0) as Hne by lra.
      rewrite ent_sum. unfold cat_loc. rewrite map_map.
      assert (wavg ent l == qsum (map (fun k => wavg (fun p => phi (nth k p 0)) l) (seq 0 K))) as E.
      { rewrite <- (map_map (fun k p => phi (nth k p 0)) (fun g => wavg g l)).
        rewrite (qsum_wavg_swap _ l Hne). apply wavg_ext. intros p Hp. rewrite map_map.
        destruct (H p Hp) as (Hlen & _ & _). rewrite ent_sum.
        rewrite <- (map_map (fun k => nth k p 0) phi), <- Hlen, (map_nth_seq 0 p). reflexivity. }
      rewrite E. apply qsum_le_pointwise. intros k Hk. apply in_seq in Hk.
      apply (jensen (fun p => nth k p 0) l Hw HW). intros p Hp. destruct (H p Hp) as (Hlen & Hnn & Hs).
      assert (In (nth k p 0) p) as Hin by (apply nth_In; lia).
      split; [apply Hnn, Hin|]. rewrite <- Hs. apply qsum_le_each; assumption.
    Qed.

    (* total >= aleatoric: the max(0, .) is inactive and total = aleatoric + epistemic *)
    Lemma cat_ent_split K l : wnonneg l -> 0 < wtot l -> (forall p, unmasked_in p l -> row_ok 1 K p) ->
      let lgE := logs_of (cat_loc K l) in
      cat_ent_ale (with_logs l) <= cat_ent K (with_logs l) lgE
      /\ cat_ent K (with_logs l) lgE == cat_ent_ale (with_logs l) + cat_ent_epi K (with_logs l) lgE.
    Proof.
      intros Hw HW H lgE. unfold lgE. pose proof (ent_jensen K l Hw HW H) as Hj.
      assert (cat_ent_ale (with_logs l) <= cat_ent K (with_logs l) (logs_of (cat_loc K l))) as Hle
        by (rewrite cat_ent_fun, cat_ent_ale_fun; exact Hj).
      split; [exact Hle|]. unfold cat_ent_epi. apply epi_part_split, Hle.
    Qed.
  End Jensen.
End Entropy.
