(* C19 - Ensemble aggregators implement weighted mixtures consistently.  Property theorems only. *)
From Coq Require Import List QArith Bool Arith Permutation.
Import ListNotations.
Require Import DH.C19_Aggregators.Model DH.C19_Aggregators.Lemmas DH.C19_Aggregators.Check.
Open Scope Q_scope.

Theorem C19_mixture_variance : forall l, ~ wtot l == 0 -> mn_total l == mn_ale l + mn_epi l.
Proof. exact mn_variance_split. Qed.
Print Assumptions C19_mixture_variance.
