(* C19 - Ensemble aggregators implement weighted mixtures consistently.  Property theorems only.
   Model.v describes /repo with the repairs F18, F24, F25 (fixes/); the behaviour of the pinned tree is kept as
   mn_epi_today / counts_today / mode_today and is REFUTED below with concrete witnesses.
   A member list is a list of (weight, payload or None = masked); "~ wtot l == 0" / "0 < wtot l" is the positive
   weight sum over the unmasked members (otherwise numpy.ma returns a masked cell, [defined l = false]). *)
From Coq Require Import List QArith Bool Arith Permutation Lqa.
Import ListNotations.
Require Import DH.C19_Aggregators.Model DH.C19_Aggregators.Lemmas DH.C19_Aggregators.LemmasInv
  DH.C19_Aggregators.LemmasScale DH.C19_Aggregators.LemmasEntropy DH.C19_Aggregators.LemmasToday DH.C19_Aggregators.Check
  DH.C19_Aggregators.LemmasMain.
Open Scope Q_scope.

(* ---- uniform weights equal no weights; more generally any rescaling of the weights changes nothing.
        all_same R: for the five families of outputs (Mean, MixedNormal, MixedCategorical confidence and entropy, Mode)
        every statistic, and whether the cell is defined, agree on R-related member lists ---- *)
Theorem C19_uniform_is_none : forall c, ~ c == 0 -> all_same (R_uniform c).
Proof. exact uniform_is_none. Qed.
Print Assumptions C19_uniform_is_none.

Theorem C19_weights_rescaled : forall c, ~ c == 0 -> all_same (R_rescaled c).
Proof. exact rescaled_same. Qed.
Print Assumptions C19_weights_rescaled.

(* ---- permuting members together with their weights changes nothing ---- *)
Theorem C19_perm_invariant : all_same R_permuted.
Proof. exact perm_invariant. Qed.
Print Assumptions C19_perm_invariant.

(* ---- masked entries are ignored: a masked member = the member removed = a member of weight 0 with any payload ---- *)
Theorem C19_masked_ignored : all_same R_unmasked.
Proof. exact masked_ignored. Qed.
Print Assumptions C19_masked_ignored.

(* ---- the weights are mixture weights: a member of weight 0 is ignored (also when it is not masked), and a member of
        weight w1 + w2 is the same as two copies of it with weights w1 and w2 ---- *)
Theorem C19_zero_weight_ignored_member_split : all_same R_zero_or_split.
Proof. exact zero_or_split_same. Qed.
Print Assumptions C19_zero_weight_ignored_member_split.

(* ---- the aggregated mean lies between the extremes of the members (those that count: unmasked, weight > 0) ---- *)
Theorem C19_mean_between_extremes : forall l, wnonneg l -> 0 < wtot l ->
  qmin (vals l) <= mean l <= qmax (vals l)
  /\ (forall lo hi, (forall x, active_in x l -> lo <= x <= hi) -> lo <= mean l <= hi).
Proof. exact mean_between_extremes_main. Qed.
Print Assumptions C19_mean_between_extremes.

Theorem C19_scale_nonneg : forall l, wnonneg l -> 0 < wtot l -> 0 <= mean_var l.
Proof. exact mean_var_nonneg. Qed.
Print Assumptions C19_scale_nonneg.

(* ---- normal members: mixture variance = aleatoric + epistemic, for ANY weights (no sign condition) ---- *)
Theorem C19_mixture_variance : forall l, ~ wtot l == 0 -> mn_total l == mn_ale l + mn_epi l.
Proof. exact mn_variance_split. Qed.
Print Assumptions C19_mixture_variance.

Theorem C19_variances_nonneg : forall l, wnonneg l -> 0 < wtot l -> 0 <= mn_ale l /\ 0 <= mn_epi l /\ 0 <= mn_total l.
Proof. exact variances_nonneg_main. Qed.
Print Assumptions C19_variances_nonneg.

(* F18: the pinned tree's decomposed branch (unweighted std of the locs) breaks the identity ... *)
Theorem C19_decomposed_weights_refuted :
  exists l, wnonneg l /\ 0 < wtot l /\ ~ mn_total l == mn_ale l + mn_epi_today l
            /\ mn_total l == 10 # 1 /\ mn_ale l == 1 /\ mn_epi l == 9 # 1 /\ mn_epi_today l == 25 # 1.
Proof. exact decomposed_weights_refuted. Qed.
Print Assumptions C19_decomposed_weights_refuted.

(* ... but not with equal weights, which is all the existing tests exercise *)
Theorem C19_decomposed_equal_weights_agree : forall c l, ~ c == 0 -> ~ wtot l == 0 ->
  (forall w o, In (w, o) l -> w == c) -> mn_epi_today l == mn_epi l.
Proof. exact mn_epi_today_equal_weights. Qed.
Print Assumptions C19_decomposed_equal_weights_agree.

(* F80: loc and scale of a member given with different masks.  Repaired: the member is masked where either is
   ([mn_union]), so C19_mixture_variance / C19_masked_ignored apply as they are.  Pinned tree: refuted ... *)
Theorem C19_partial_mask_refuted :
  exists l, ~ mn2_total_today l == mn2_ale_today l + mn2_epi_today l
            /\ mn2_total_today l == 1 # 2 /\ mn2_ale_today l == 5 # 8 /\ mn2_epi_today l == 1 # 4
            /\ mn_total (mn_union l) == 1 # 2 /\ mn_ale (mn_union l) == 1 # 4 /\ mn_epi (mn_union l) == 1 # 4.
Proof. exact partial_mask_refuted. Qed.
Print Assumptions C19_partial_mask_refuted.

(* ... and harmless when the two masks agree (every existing test, every OnlineSelector-built input) *)
Theorem C19_partial_mask_agree : forall l, masks_agree l -> ~ wtot (mn_union l) == 0 ->
  mn2_loc_today l == mn_loc (mn_union l) /\ mn2_ale_today l == mn_ale (mn_union l)
  /\ mn2_epi_today l == mn_epi (mn_union l) /\ mn2_total_today l == mn_total (mn_union l).
Proof. exact partial_mask_agree. Qed.
Print Assumptions C19_partial_mask_agree.

(* F81: integer-typed scale arrays are squared in int64 by the pinned tree *)
Theorem C19_int64_scale_refuted :
  exists l, mn_ale_int64 l < 0 /\ mn_ale l == 9610000000000000000 # 1
            /\ (forall w a, In (w, Some a) l -> snd a == inject_Z (Qnum (snd a))).
Proof. exact int64_scale_refuted. Qed.
Print Assumptions C19_int64_scale_refuted.

(* ---- aggregated class probabilities form a distribution if every member's do ---- *)
Theorem C19_probs_distribution : forall K l, wnonneg l -> 0 < wtot l ->
  (forall p, unmasked_in p l -> row_ok 1 K p) -> row_ok 1 K (cat_loc K l).
Proof. exact (cat_loc_distribution 1). Qed.
Print Assumptions C19_probs_distribution.

(* ---- confidence uncertainty 1 - max p lies in [0, 1 - 1/K] ---- *)
Theorem C19_confidence_range : forall K l, (0 < K)%nat -> wnonneg l -> 0 < wtot l ->
  (forall p, unmasked_in p l -> row_ok 1 K p) -> 0 <= cat_conf 1 K l <= 1 - 1 / inject_Z (Z.of_nat K).
Proof. exact (cat_conf_range 1). Qed.
Print Assumptions C19_confidence_range.

(* ---- decomposition (confidence): aleatoric, epistemic >= 0; total >= aleatoric already before the max(0, .),
        so total = aleatoric + epistemic ---- *)
Theorem C19_decomposition_nonneg : forall K l, (0 < K)%nat -> wnonneg l -> 0 < wtot l ->
  (forall p, unmasked_in p l -> row_ok 1 K p) ->
  0 <= cat_conf_ale 1 l /\ 0 <= cat_conf_epi 1 K l /\ cat_conf_ale 1 l <= cat_conf 1 K l
  /\ cat_conf 1 K l == cat_conf_ale 1 l + cat_conf_epi 1 K l.
Proof. exact decomposition_nonneg_main. Qed.
Print Assumptions C19_decomposition_nonneg.

(* ---- decomposition (entropy), for EVERY oracle lg standing for log:
        epistemic >= 0 by the max(0, .); if lg is monotone, H >= - lg (1 + eps) (= 0 for eps = 0, lg 1 = 0);
        if x |-> - x lg (x + eps) is concave on [0,1] (Jensen), total >= aleatoric and total = aleatoric + epistemic ---- *)
Theorem C19_entropy_decomposition : forall (lg : Q -> Q) (eps : Q), (forall x y, x == y -> lg x == lg y) ->
  forall K l, wnonneg l -> 0 < wtot l -> (forall p, unmasked_in p l -> row_ok 1 K p) ->
  let ml := with_logs lg eps l in
  let lgE := logs_of lg eps (cat_loc K l) in
  0 <= cat_ent_epi K ml lgE
  /\ cat_ent K ml lgE = ent lg eps (cat_loc K l) /\ cat_ent_ale ml = wavg (ent lg eps) l
  /\ ((forall x y, eps <= x -> x <= y -> lg x <= lg y) ->
      - lg (1 + eps) <= cat_ent_ale ml /\ - lg (1 + eps) <= cat_ent K ml lgE)
  /\ ((forall t x y, 0 <= t <= 1 -> 0 <= x <= 1 -> 0 <= y <= 1 ->
         t * phi lg eps x + (1 - t) * phi lg eps y <= phi lg eps (t * x + (1 - t) * y)) ->
      cat_ent_ale ml <= cat_ent K ml lgE /\ cat_ent K ml lgE == cat_ent_ale ml + cat_ent_epi K ml lgE).
Proof. exact entropy_decomposition_main. Qed.
Print Assumptions C19_entropy_decomposition.

(* ---- the mode is an argmax of the normalised weighted vote counts; uncertainty = 1 - max count in [0, 1 - 1/K] ---- *)
Theorem C19_mode_weighted_vote : forall K l, (0 < K)%nat -> wnonneg l -> 0 < wtot l ->
  (forall p, unmasked_in p l -> length p = K) ->
  row_ok 1 K (counts K l)
  /\ (mode K l < K)%nat
  /\ (forall k, (k < K)%nat -> nth k (counts K l) 0 <= nth (mode K l) (counts K l) 0)
  /\ mode_unc K l == 1 - nth (mode K l) (counts K l) 0
  /\ 0 <= mode_unc K l <= 1 - 1 / inject_Z (Z.of_nat K).
Proof. exact mode_weighted_vote_main. Qed.
Print Assumptions C19_mode_weighted_vote.

(* F24: the pinned tree does not normalise the weights: [1,1,1] gives uncertainty -1, None gives 1/3 *)
Theorem C19_mode_unnormalised_refuted :
  exists xs, mode_unc_today 1 2 (attach_today 1 (Some [1; 1; 1]) xs) == - (1)
             /\ mode_unc_today 1 2 (attach_today 1 None xs) == 1 # 3
             /\ mode_unc 2 (attach (Some [1; 1; 1]) xs) == 1 # 3
             /\ mode_unc 2 (attach None xs) == 1 # 3.
Proof. exact mode_unnormalised_refuted. Qed.
Print Assumptions C19_mode_unnormalised_refuted.

(* F25: in the pinned tree a masked member votes for class 0 *)
Theorem C19_mode_masked_refuted :
  exists ws xs, mode_today 2 (attach_today 1 (Some ws) xs) = 0%nat
                /\ mode_unc_today 1 2 (attach_today 1 (Some ws) xs) == 1 # 2
                /\ mode 2 (attach (Some ws) xs) = 1%nat
                /\ mode_unc 2 (attach (Some ws) xs) == 0.
Proof. exact mode_masked_refuted. Qed.
Print Assumptions C19_mode_masked_refuted.

(* normalised weights, nothing masked: the pinned tree's counts are the repaired ones (what the tests exercise) *)
Theorem C19_mode_today_normalised_agree : forall K l, (forall w o, In (w, o) l -> o <> None) -> wtot l == 1 ->
  Forall2 Qeq (counts_today K l) (counts K l).
Proof. exact counts_today_normalised. Qed.
Print Assumptions C19_mode_today_normalised_agree.

(* ---- homogeneity: soundness of sending floats to the extracted model as integers x * 2^s (c = 2^s, d = 2^t) ---- *)
Theorem C19_scale_mean_normal : forall c l1 l2, ~ wtot l1 == 0 -> ~ wtot l2 == 0 ->
  mean (pmap (Qmult c) l1) == c * mean l1 /\ mean_var (pmap (Qmult c) l1) == (c * c) * mean_var l1
  /\ mn_loc (pmap (scale2 c) l2) == c * mn_loc l2 /\ mn_total (pmap (scale2 c) l2) == (c * c) * mn_total l2
  /\ mn_ale (pmap (scale2 c) l2) == (c * c) * mn_ale l2 /\ mn_epi (pmap (scale2 c) l2) == (c * c) * mn_epi l2.
Proof. exact scale_mean_normal_main. Qed.
Print Assumptions C19_scale_mean_normal.

Theorem C19_scale_categorical : forall c d u K l le lgE, 0 < c -> 0 < d -> ~ wtot l == 0 -> ~ wtot le == 0 ->
  leq (cat_loc K (pmap (map (Qmult c)) l)) (map (Qmult c) (cat_loc K l))
  /\ cat_conf (c * u) K (pmap (map (Qmult c)) l) == c * cat_conf u K l
  /\ cat_conf_ale (c * u) (pmap (map (Qmult c)) l) == c * cat_conf_ale u l
  /\ cat_conf_epi (c * u) K (pmap (map (Qmult c)) l) == c * cat_conf_epi u K l
  /\ cat_ent K (pmap (scale_pl c d) le) (map (Qmult d) lgE) == (c * d) * cat_ent K le lgE
  /\ cat_ent_ale (pmap (scale_pl c d) le) == (c * d) * cat_ent_ale le
  /\ cat_ent_epi K (pmap (scale_pl c d) le) (map (Qmult d) lgE) == (c * d) * cat_ent_epi K le lgE
  /\ counts K (pmap (map (Qmult c)) l) = counts K l
  /\ mode K (pmap (map (Qmult c)) l) = mode K l /\ mode_unc K (pmap (map (Qmult c)) l) = mode_unc K l.
Proof. exact scale_categorical_main. Qed.
Print Assumptions C19_scale_categorical.

(* ---- the oracles used on the implementation's outputs decide exactly their specifications ... ---- *)
Theorem C19_oracles : forall tol,
  (forall a b, ok_close tol a b = true <-> Close tol a b)
  /\ (forall xs m, ok_between tol xs m = true <-> Between tol xs m)
  /\ (forall t a e, ok_variance_split tol t a e = true <-> VarianceSplit tol t a e)
  /\ (forall K p, ok_distribution tol K p = true <-> Distribution tol K p)
  /\ (forall K c, ok_conf_range tol K c = true <-> ConfRange tol K c)
  /\ (forall s t a e, ok_decomp tol s t a e = true <-> Decomp tol s t a e)
  /\ (forall K l md unc, ok_mode tol K l md unc = true <-> ModeSpec tol K l md unc).
Proof. exact oracles_main. Qed.
Print Assumptions C19_oracles.

(* ---- ... and the model meets every specification with tolerance 0 ---- *)
Theorem C19_model_meets_specs :
  (forall l, wnonneg l -> 0 < wtot l -> Between 0 (vals l) (mean l))
  /\ (forall l, wnonneg l -> 0 < wtot l -> VarianceSplit 0 (mn_total l) (mn_ale l) (mn_epi l))
  /\ (forall K l, (0 < K)%nat -> wnonneg l -> 0 < wtot l -> (forall p, unmasked_in p l -> row_ok 1 K p) ->
        Distribution 0 K (cat_loc K l) /\ ConfRange 0 K (cat_conf 1 K l)
        /\ Decomp 0 true (cat_conf 1 K l) (cat_conf_ale 1 l) (cat_conf_epi 1 K l))
  /\ (forall K l, (0 < K)%nat -> wnonneg l -> 0 < wtot l -> (forall p, unmasked_in p l -> length p = K) ->
        ModeSpec 0 K l (mode K l) (mode_unc K l)).
Proof. exact model_meets_specs_main. Qed.
Print Assumptions C19_model_meets_specs.

(* ---- non-vacuity ---- *)
(* three members, skewed weights, the second one masked: every hypothesis above holds and the outputs are these *)
Example C19_example_normal :
  let l := [(1 # 2, Some (1, 1 # 2)); (1 # 4, None); (1 # 4, Some (3 # 1, 1))] in
  wnonneg l /\ 0 < wtot l /\ mn_loc l == 5 # 3 /\ mn_ale l == 1 # 2 /\ mn_epi l == 8 # 9 /\ mn_total l == 25 # 18.
Proof.
  cbv zeta. split; [intros w o [E|[E|[E|[]]]]; injection E as <- _; unfold Qle; cbn; discriminate|].
  repeat split; vm_compute; reflexivity.
Qed.

Example C19_example_mode :
  let l := attach (Some [2 # 1; 1; 1; 1]) [Some [3 # 4; 1 # 4]; None; Some [0; 1]; Some [1 # 2; 1 # 2]] in
  wnonneg l /\ 0 < wtot l /\ (forall p, unmasked_in p l -> length p = 2%nat)
  /\ mode 2 l = 0%nat /\ mode_unc 2 l == 1 # 4 /\ Forall2 Qeq (cat_loc 2 l) [1 # 2; 1 # 2] /\ cat_conf 1 2 l == 1 # 2
  /\ cat_conf_ale 1 l == 1 # 4 /\ cat_conf_epi 1 2 l == 1 # 4.
Proof.
  cbv zeta. split; [intros w o [E|[E|[E|[E|[]]]]]; injection E as <- _; unfold Qle; cbn; discriminate|].
  split; [vm_compute; reflexivity|]. split.
  - intros p [w [E|[E|[E|[E|[]]]]]]; try discriminate; injection E as _ <-; reflexivity.
  - repeat split; try (vm_compute; reflexivity). repeat constructor; vm_compute; reflexivity.
Qed.

(* the hypotheses on the log oracle are satisfiable by a non-constant function: lg x = x - 1 (monotone, lg 1 = 0,
   x |-> - x (x + eps - 1) is concave) *)
Example C19_entropy_hypotheses_satisfiable : forall eps, 0 <= eps ->
  let lg := fun x : Q => x - 1 in
  (forall x y, x == y -> lg x == lg y)
  /\ (forall x y, eps <= x -> x <= y -> lg x <= lg y)
  /\ (forall t x y, 0 <= t <= 1 -> 0 <= x <= 1 -> 0 <= y <= 1 ->
        t * phi lg eps x + (1 - t) * phi lg eps y <= phi lg eps (t * x + (1 - t) * y)).
Proof.
  intros eps He lg. unfold lg, phi. split; [intros x y H; rewrite H; reflexivity|]. split; [intros; lra|].
  intros t x y [Ht0 Ht1] _ _.
  assert (0 <= t * (1 - t) * ((x - y) * (x - y))) as H.
  { apply Qmult_le_0_compat; [apply Qmult_le_0_compat; lra|apply sq_nonneg]. }
  nra.
Qed.
