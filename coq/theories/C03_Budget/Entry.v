From Coq Require Import List ZArith Bool.
Import ListNotations.
Require Import DH.Common.Data DH.C03_Budget.Model DH.C03_Budget.Check.
Open Scope Z_scope.

Definition d_ocall (d : data) : ocall :=
  mkO (dZ (dnth 0 d)) (dbool (dnth 1 d)) (dbool (dnth 2 d)) (dZ (dnth 3 d)) (dZ (dnth 4 d)) (dmap dZ (dnth 5 d)).

(* 301: [W; history] -> [first violating call index or -1; predictions] *)
Definition e_check (d : data) : data :=
  let W := dZ (dnth 0 d) in
  let h := dmap d_ocall (dnth 1 d) in
  L [ (match ok_history W 0 0 h with None => I (-1) | Some i => enat i end); elist eZ (predict W binit h) ].

Definition entries : list (Z * (data -> data)) := [ (301, e_check) ].
